/-
C08 (liveness layer): helper lemmas for Model/ParserRunChan.lean — the step inversions, the channel
bound, the refinement of the atomic LTS (FIFO: nothing lost, duplicated or reordered), and the
measure argument for the fair driver.
-/
import VaxisModel.Model.ParserRunChan
import VaxisModel.Lemmas.ParserRun

namespace VaxisModel.Lemmas.ParserRunChan
open VaxisModel.Model.ParserTable VaxisModel.Model.Parser VaxisModel.Model.ParserRun
open VaxisModel.Model.ParserRunChan VaxisModel.Lemmas.ParserRun

/-- Everything the atomic steps have emitted, in the order the consumer gets (or will get) it. -/
def flow (s : CSys) : List Seq := s.recvd ++ s.chan ++ s.pending

/-! ### step inversions -/

theorem step_sys_inv {T : Table} {c : Cfg} {cap : Nat} {s s' : CSys} {l : Label}
    (h : CSys.step T c cap s (.sys l) = some s') :
    ∃ s1 o, s.pending = [] ∧ Sys.step T c s.sys l = some (s1, o) ∧ s' = { s with sys := s1, pending := o } := by
  simp only [CSys.step] at h
  split at h
  · rename_i hp
    split at h
    · cases h
    · rename_i s1 o hs
      exact ⟨s1, o, hp, hs, (Option.some.inj h).symm⟩
  · cases h

theorem step_send_inv {T : Table} {c : Cfg} {cap : Nat} {s s' : CSys}
    (h : CSys.step T c cap s .send = some s') :
    ∃ x p, s.pending = x :: p ∧ s.chan.length < cap ∧ s' = { s with chan := s.chan ++ [x], pending := p } := by
  simp only [CSys.step] at h
  split at h
  · cases h
  · rename_i x p hp
    split at h
    · rename_i hlt
      exact ⟨x, p, hp, hlt, (Option.some.inj h).symm⟩
    · cases h

theorem step_recv_inv {T : Table} {c : Cfg} {cap : Nat} {s s' : CSys}
    (h : CSys.step T c cap s .recv = some s') :
    ∃ x ch, s.chan = x :: ch ∧ s' = { s with chan := ch, recvd := s.recvd ++ [x] } := by
  simp only [CSys.step] at h
  split at h
  · cases h
  · rename_i x ch hc
    exact ⟨x, ch, hc, (Option.some.inj h).symm⟩

/-! ### enabledness -/

theorem send_enabled {T : Table} {c : Cfg} {cap : Nat} (s : CSys) (x : Seq) (p : List Seq)
    (hp : s.pending = x :: p) (hlt : s.chan.length < cap) :
    CSys.step T c cap s .send = some { s with chan := s.chan ++ [x], pending := p } := by
  simp [CSys.step, hp, hlt]

theorem send_blocked {T : Table} {c : Cfg} {cap : Nat} (s : CSys) (h : s.pending = [] ∨ cap ≤ s.chan.length) :
    CSys.step T c cap s .send = none := by
  simp only [CSys.step]
  split
  · rfl
  · rcases h with h | h
    · simp_all
    · rw [if_neg (by omega)]

theorem recv_enabled {T : Table} {c : Cfg} {cap : Nat} (s : CSys) (x : Seq) (ch : List Seq)
    (hc : s.chan = x :: ch) :
    CSys.step T c cap s .recv = some { s with chan := ch, recvd := s.recvd ++ [x] } := by
  simp [CSys.step, hc]

theorem recv_blocked {T : Table} {c : Cfg} {cap : Nat} (s : CSys) (h : s.chan = []) :
    CSys.step T c cap s .recv = none := by
  simp [CSys.step, h]

theorem sys_enabled {T : Table} {c : Cfg} {cap : Nat} (s : CSys) (l : Label) (s1 : Sys) (o : List Seq)
    (hp : s.pending = []) (hs : Sys.step T c s.sys l = some (s1, o)) :
    CSys.step T c cap s (.sys l) = some { s with sys := s1, pending := o } := by
  simp [CSys.step, hp, hs]

theorem sys_blocked {T : Table} {c : Cfg} {cap : Nat} (s : CSys) (l : Label) (hp : s.pending ≠ []) :
    CSys.step T c cap s (.sys l) = none := by
  simp only [CSys.step]
  split
  · contradiction
  · rfl

/-! ### invariants of one step, and of runs -/

/-- One step keeps the channel bound; a `sys` step is a step of the atomic LTS whose output is
    appended to the flow, `send` and `recv` leave the atomic state and the flow unchanged. -/
theorem step_inv {T : Table} {c : Cfg} {cap : Nat} {s s' : CSys} {l : CLabel}
    (h : CSys.step T c cap s l = some s') (hb : s.chan.length ≤ cap) :
    s'.chan.length ≤ cap ∧
    ∃ o, Sys.run T c s.sys (sysLabels [l]) = some (s'.sys, o) ∧ flow s' = flow s ++ o := by
  cases l with
  | sys l =>
    obtain ⟨s1, o, hp, hs, rfl⟩ := step_sys_inv h
    refine ⟨hb, o, ?_, ?_⟩
    · simp [sysLabels, Sys.run, hs]
    · simp [flow, hp]
  | send =>
    obtain ⟨x, p, hp, hlt, rfl⟩ := step_send_inv h
    refine ⟨?_, [], ?_, ?_⟩
    · simp only [List.length_append, List.length_cons, List.length_nil]; omega
    · simp [sysLabels, Sys.run]
    · simp [flow, hp]
  | recv =>
    obtain ⟨x, ch, hc, rfl⟩ := step_recv_inv h
    refine ⟨?_, [], ?_, ?_⟩
    · rw [hc] at hb; simp only [List.length_cons] at hb
      show ch.length ≤ cap
      omega
    · simp [sysLabels, Sys.run]
    · simp [flow, hc]

theorem sysLabels_cons (l : CLabel) (ls : List CLabel) : sysLabels (l :: ls) = sysLabels [l] ++ sysLabels ls := by
  cases l <;> simp [sysLabels]

theorem sys_run_append (T : Table) (c : Cfg) (l1 l2 : List Label) (s s1 s2 : Sys) (o1 o2 : List Seq)
    (h1 : Sys.run T c s l1 = some (s1, o1)) (h2 : Sys.run T c s1 l2 = some (s2, o2)) :
    Sys.run T c s (l1 ++ l2) = some (s2, o1 ++ o2) := by
  induction l1 generalizing s o1 with
  | nil =>
    simp only [Sys.run, Option.some.injEq, Prod.mk.injEq] at h1
    obtain ⟨rfl, rfl⟩ := h1
    simpa using h2
  | cons l ls ih =>
    simp only [Sys.run] at h1
    split at h1
    · cases h1
    · rename_i sa oa hs
      split at h1
      · cases h1
      · rename_i sb ob hr
        simp only [Option.some.injEq, Prod.mk.injEq] at h1
        obtain ⟨rfl, rfl⟩ := h1
        have := ih sa ob hr
        simp [Sys.run, hs, this]

/-- **Refinement + FIFO + bound** for a run from any state within the bound. -/
theorem run_inv (T : Table) (c : Cfg) (cap : Nat) (ls : List CLabel) (s s' : CSys)
    (h : CSys.run T c cap s ls = some s') (hb : s.chan.length ≤ cap) :
    s'.chan.length ≤ cap ∧
    ∃ o, Sys.run T c s.sys (sysLabels ls) = some (s'.sys, o) ∧ flow s' = flow s ++ o := by
  induction ls generalizing s with
  | nil =>
    simp only [CSys.run, Option.some.injEq] at h
    subst h
    exact ⟨hb, [], by simp [sysLabels, Sys.run], by simp⟩
  | cons l ls ih =>
    simp only [CSys.run] at h
    split at h
    · cases h
    · rename_i s1 hs
      obtain ⟨hb1, o1, hr1, hf1⟩ := step_inv hs hb
      obtain ⟨hb2, o2, hr2, hf2⟩ := ih s1 h hb1
      refine ⟨hb2, o1 ++ o2, ?_, ?_⟩
      · rw [sysLabels_cons]; exact sys_run_append T c _ _ _ _ _ _ _ hr1 hr2
      · rw [hf2, hf1, List.append_assoc]

/-! ### the fair driver: measure argument -/

/-- The measure: two steps (`send`, `recv`) for each item not yet sent, one for each queued item,
    one for each atomic label still to be taken. -/
def mu (s : CSys) (ls : List Label) (out : List Seq) : Nat :=
  2 * s.pending.length + s.chan.length + 2 * out.length + ls.length

/-- From any state within the bound, for any atomic schedule `ls` that the atomic LTS can run from
    the current atomic state (emitting `out`), the fair driver with fuel ≥ the measure ends in the
    atomic end state with everything sent and received, in order. -/
theorem drive_spec (T : Table) (c : Cfg) (cap : Nat) (hcap : 0 < cap) (fuel : Nat) (s : CSys) (ls : List Label)
    (s1 : Sys) (out : List Seq) (hb : s.chan.length ≤ cap)
    (hr : Sys.run T c s.sys ls = some (s1, out)) (hf : mu s ls out ≤ fuel) :
    drive T c cap fuel s ls = { sys := s1, chan := [], pending := [], recvd := flow s ++ out } := by
  induction fuel generalizing s ls out with
  | zero =>
    simp only [mu] at hf
    have hp : s.pending = [] := List.eq_nil_of_length_eq_zero (by omega)
    have hc : s.chan = [] := List.eq_nil_of_length_eq_zero (by omega)
    have ho : out = [] := List.eq_nil_of_length_eq_zero (by omega)
    have hl : ls = [] := List.eq_nil_of_length_eq_zero (by omega)
    subst hl ho
    simp only [Sys.run, Option.some.injEq, Prod.mk.injEq] at hr
    obtain ⟨s0, ch, p, rc⟩ := s
    simp only at hp hc hr
    subst hp hc; rw [← hr.1]
    simp [drive, flow]
  | succ n ih =>
    obtain ⟨s0, ch, p, rc⟩ := s
    simp only at hb hr
    cases p with
    | cons x p =>
      by_cases hlt : ch.length < cap
      · -- send
        have hs := @send_enabled T c cap ⟨s0, ch, x :: p, rc⟩ x p rfl hlt
        have := ih ⟨s0, ch ++ [x], p, rc⟩ ls out (by simp only [List.length_append, List.length_cons, List.length_nil]; omega)
          hr (by simp only [mu, List.length_append, List.length_cons, List.length_nil] at hf ⊢; omega)
        simp only [drive, hs]
        rw [this]; simp [flow]
      · -- the channel is full: recv
        cases ch with
        | nil => simp only [List.length_nil] at hlt; omega
        | cons y ch =>
          have hs := @send_blocked T c cap ⟨s0, y :: ch, x :: p, rc⟩ (Or.inr (by simp only at hlt ⊢; omega))
          have hv := @recv_enabled T c cap ⟨s0, y :: ch, x :: p, rc⟩ y ch rfl
          have := ih ⟨s0, ch, x :: p, rc ++ [y]⟩ ls out (by simp only [List.length_cons] at hb ⊢; omega)
            hr (by simp only [mu, List.length_cons] at hf ⊢; omega)
          simp only [drive, hs, hv]
          rw [this]; simp [flow]
    | nil =>
      have hs := @send_blocked T c cap ⟨s0, ch, [], rc⟩ (Or.inl rfl)
      cases ch with
      | cons y ch =>
        have hv := @recv_enabled T c cap ⟨s0, y :: ch, [], rc⟩ y ch rfl
        have := ih ⟨s0, ch, [], rc ++ [y]⟩ ls out (by simp only [List.length_cons] at hb ⊢; omega)
          hr (by simp only [mu, List.length_cons] at hf ⊢; omega)
        simp only [drive, hs, hv]
        rw [this]; simp [flow]
      | nil =>
        have hv := @recv_blocked T c cap ⟨s0, [], [], rc⟩ rfl
        cases ls with
        | nil =>
          simp only [Sys.run, Option.some.injEq, Prod.mk.injEq] at hr
          obtain ⟨rfl, rfl⟩ := hr
          simp [drive, hs, hv, flow]
        | cons l rest =>
          simp only [Sys.run] at hr
          split at hr
          · cases hr
          · rename_i sa oa hsa
            split at hr
            · cases hr
            · rename_i sb ob hrb
              simp only [Option.some.injEq, Prod.mk.injEq] at hr
              obtain ⟨rfl, rfl⟩ := hr
              have hy := @sys_enabled T c cap ⟨s0, [], [], rc⟩ l sa oa rfl hsa
              have := ih ⟨sa, [], oa, rc⟩ rest ob (by simp) hrb
                (by simp only [mu, List.length_cons, List.length_append, List.length_nil] at hf ⊢; omega)
              simp only [drive, hs, hv, hy]
              rw [this]; simp [flow]

/-- The driver only takes steps of the LTS: its result is reachable by a run. -/
theorem drive_is_run (T : Table) (c : Cfg) (cap : Nat) (fuel : Nat) (s : CSys) (ls : List Label) :
    ∃ cl, CSys.run T c cap s cl = some (drive T c cap fuel s ls) := by
  induction fuel generalizing s ls with
  | zero => exact ⟨[], rfl⟩
  | succ n ih =>
    simp only [drive]
    split
    · rename_i s' h
      obtain ⟨cl, hcl⟩ := ih s' ls
      exact ⟨.send :: cl, by simp [CSys.run, h, hcl]⟩
    · split
      · rename_i s' h
        obtain ⟨cl, hcl⟩ := ih s' ls
        exact ⟨.recv :: cl, by simp [CSys.run, h, hcl]⟩
      · split
        · exact ⟨[], rfl⟩
        · rename_i l rest
          split
          · rename_i s' h
            obtain ⟨cl, hcl⟩ := ih s' rest
            exact ⟨.sys l :: cl, by simp [CSys.run, h, hcl]⟩
          · exact ⟨[], rfl⟩

/-! ### the script of a finite input -/

theorem sys_run_cons_inv {T : Table} {c : Cfg} {s s2 : Sys} {l : Label} {ls : List Label} {out : List Seq}
    (h : Sys.run T c s (l :: ls) = some (s2, out)) :
    ∃ s1 o1 o2, Sys.step T c s l = some (s1, o1) ∧ Sys.run T c s1 ls = some (s2, o2) ∧ out = o1 ++ o2 := by
  simp only [Sys.run] at h
  split at h
  · cases h
  · rename_i sa oa hs
    split at h
    · cases h
    · rename_i sb ob hr
      simp only [Option.some.injEq, Prod.mk.injEq] at h
      obtain ⟨rfl, rfl⟩ := h
      exact ⟨sa, oa, ob, hs, hr, rfl⟩

theorem script_length (rs : List Nat) : (script rs).length = 2 * rs.length + 2 := by
  induction rs with
  | nil => rfl
  | cons r rs ih => simp only [script, List.length_cons, ih]; omega

/-- Any table: if the atomic LTS can run the script at all, it ends in `done`. -/
theorem script_done (T : Table) (c : Cfg) (rs : List Nat) (s s1 : Sys) (out : List Seq)
    (h : Sys.run T c s (script rs) = some (s1, out)) : s1.pc = .done := by
  induction rs generalizing s out with
  | nil =>
    obtain ⟨sa, oa, ob, _, hr, _⟩ := sys_run_cons_inv (l := .enterRead) (ls := [.readEnd]) h
    obtain ⟨sb, _, _, hs, hr2, _⟩ := sys_run_cons_inv hr
    simp only [Sys.run, Option.some.injEq, Prod.mk.injEq] at hr2
    rw [← hr2.1]
    simp only [Sys.step] at hs
    split at hs
    · simp only [finishing, Option.some.injEq, Prod.mk.injEq] at hs
      rw [← hs.1]
    · cases hs
  | cons r rs ih =>
    obtain ⟨sa, oa, ob, _, hr, _⟩ := sys_run_cons_inv (l := .enterRead) (ls := .read r :: script rs) h
    obtain ⟨sb, _, oc, _, hr2, _⟩ := sys_run_cons_inv hr
    exact ih sb oc hr2

/-- The table and callback as they are: from any state of the loop at the `select` with no Close()
    pending, the script of any finite input runs to the end (no rune stops the loop, the end of the
    input does). -/
theorem script_runs (rs : List Nat) (s : Sys) (hinv : SInv s) (hpc : s.pc = .atSelect) (hcl : s.closeReq = false) :
    ∃ s1 out, Sys.run handTable Cfg.fixed s (script rs) = some (s1, out) ∧ s1.pc = .done := by
  induction rs generalizing s with
  | nil => exact ⟨_, _, by simp [script, Sys.run, Sys.step, hpc, hcl]; exact ⟨rfl, rfl⟩, rfl⟩
  | cons r rs ih =>
    have hi := (hinv (by rw [hpc]; decide)).1
    have hstop : (VaxisModel.Model.Parser.step handTable s.ps (.rune r)).stop = false := by
      have := (VaxisModel.Lemmas.ParserAbs.hand_inv_step s.ps hi (.rune r)).2.2
      simpa [pstep, VaxisModel.Lemmas.ParserAbs.isEof] using this
    have hrun2 : Sys.run handTable Cfg.fixed s [.enterRead, .read r] =
        some ({ s.outdate with ps := (pstep s.ps (.rune r)).st, pc := .atSelect, armed := startsTimer handTable r },
              (pstep s.ps (.rune r)).out) := by
      simp [Sys.run, Sys.step, hpc, hcl, hstop, pstep, Sys.outdate]
    have hinv2 := (run_SInv _ s _ _ hinv hrun2).1
    obtain ⟨s3, o3, hr3, hd⟩ := ih _ hinv2 rfl (by simp [Sys.outdate, hcl])
    exact ⟨s3, _ ++ o3, sys_run_append handTable Cfg.fixed [.enterRead, .read r] (script rs) _ _ _ _ _ hrun2 hr3, hd⟩

end VaxisModel.Lemmas.ParserRunChan
