/-
C08: the statement-grained life-cycle system (Model/ParserRunFine.lean) — its invariant (mutual
exclusion, generations, the callback's view of the parser state) and the forward simulation onto the
atomic system of Model/ParserRun.lean.
-/
import VaxisModel.Model.ParserRunFine
import VaxisModel.Lemmas.ParserRun

namespace VaxisModel.Lemmas.ParserRunFine
open VaxisModel.Model.ParserTable VaxisModel.Model.Parser VaxisModel.Model.ParserRun
open VaxisModel.Model.ParserRunFine VaxisModel.Lemmas.ParserRun

/-! ### lists -/

theorem countP_set {α} (p : α → Bool) : ∀ (l : List α) (i : Nat) (y x : α), l[i]? = some y →
    (l.set i x).countP p + (p y).toNat = l.countP p + (p x).toNat := by
  intro l
  induction l with
  | nil => intro i y x h; simp at h
  | cons a l ih =>
    intro i y x h
    cases i with
    | zero =>
      simp only [List.getElem?_cons_zero, Option.some.injEq] at h
      subst h
      simp only [List.set_cons_zero, List.countP_cons]
      cases p a <;> cases p x <;> simp <;> omega
    | succ i =>
      simp only [List.getElem?_cons_succ] at h
      have := ih i y x h
      simp only [List.set_cons_succ, List.countP_cons]
      omega

theorem forall_set {α} (P : α → Prop) (l : List α) (i : Nat) (x : α) (h : ∀ c ∈ l, P c) (hx : P x) :
    ∀ c ∈ l.set i x, P c := by
  intro c hc
  rcases List.mem_or_eq_of_mem_set hc with h1 | h1
  · exact h c h1
  · exact h1 ▸ hx

/-! ### the invariant -/

/-- Callback statements before its effect on the atomic system (up to and including the check). -/
def pre3 : CbPc → Bool | .started | .locked | .passed => true | _ => false
def pre2 : CbPc → Bool | .started | .locked => true | _ => false
/-- Between `emit` and `Unlock`: the atomic callback has run, the statements are catching up. -/
def mid : CbPc → Bool | .emitted | .stateSet | .stSet => true | _ => false
/-- Holding the mutex. -/
def crit : CbPc → Bool | .started | .gone => false | _ => true

abbrev Cbs := List (Nat × CbPc)

def nFresh (e : Nat) (l : Cbs) : Nat := l.countP (fun c => decide (c.1 = e) && pre3 c.2)
def nStale (e : Nat) (l : Cbs) : Nat := l.countP (fun c => !decide (c.1 = e) && pre2 c.2)
def nMid (l : Cbs) : Nat := l.countP (fun c => mid c.2)
def nCrit (l : Cbs) : Nat := l.countP (fun c => crit c.2)

/-- Statements of `run` executed with the mutex held. -/
def holdsMain : MPc → Bool
  | .locked _ | .bumped _ | .stepped _ | .fin .bump _ | .fin .unlock _ => true
  | _ => false

/-- Places where every started callback is out of date. -/
def strict : MPc → Bool
  | .bumped _ | .stepped true | .fin _ true | .fin .unlock false | .fin .emit false | .fin .close false
  | .done => true
  | _ => false

/-- Places where the timer may be pending. -/
def armedOk : MPc → Bool
  | .stepped false | .atSelect | .inRead | .readDone _ | .fin .stop false => true
  | _ => false

theorem armedOk_not_strict (pc : MPc) (h : armedOk pc = true) : strict pc = false := by
  cases pc with
  | stepped b => cases b <;> simp_all [armedOk, strict]
  | fin st v => cases st <;> cases v <;> simp_all [armedOk, strict]
  | _ => simp_all [armedOk, strict]

theorem armedOk_not_holds (pc : MPc) (h : armedOk pc = true) (st : strict pc = true) : False := by
  rw [armedOk_not_strict pc h] at st; cases st

structure FInv (f : FSys) : Prop where
  /-- mutual exclusion, main goroutine -/
  m1 : f.mutex = some .main ↔ holdsMain f.mpc = true
  /-- mutual exclusion, callbacks: exactly one is inside iff the mutex says so -/
  m2 : nCrit f.cbs = if f.mutex = some .cb then 1 else 0
  g1 : ∀ c ∈ f.cbs, c.1 ≤ f.escGen ∧ (strict f.mpc = true → c.1 < f.escGen)
  g2 : ∀ g, f.armed = some g → g = f.escGen ∧ armedOk f.mpc = true
  u1 : nFresh f.escGen f.cbs ≤ 1
  u2 : f.armed.isSome = true → nFresh f.escGen f.cbs = 0
  /-- a callback past its check saw the current generation -/
  p1 : ∀ c ∈ f.cbs, c.2 = .passed → c.1 = f.escGen
  p2 : ∀ c ∈ f.cbs, (c.2 = .stateSet → f.ps.state = .ground) ∧
        (c.2 = .stSet → f.ps.state = .ground ∧ f.ps.ignoreST = false)
  c1 : f.chanClosed = true → f.mpc = .done

theorem FInv_init : FInv FSys.init := by
  refine ⟨by simp [FSys.init, holdsMain], by simp [FSys.init, nCrit], by simp [FSys.init], by simp [FSys.init],
    by simp [FSys.init, nFresh], by simp [FSys.init], by simp [FSys.init], by simp [FSys.init], by simp [FSys.init]⟩

theorem nCrit_zero {l : Cbs} (h : nCrit l = 0) : ∀ c ∈ l, crit c.2 = false := by
  intro c hc
  have := (List.countP_eq_zero.mp h) c hc
  simpa using this

theorem nFresh_zero_of_lt {e : Nat} {l : Cbs} (h : ∀ c ∈ l, c.1 < e) : nFresh e l = 0 := by
  apply List.countP_eq_zero.mpr
  intro c hc
  have := h c hc
  simp; intro h'; omega

theorem armed_none {f : FSys} (hinv : FInv f) (h : armedOk f.mpc = false) : f.armed = none := by
  cases ha : f.armed with
  | none => rfl
  | some g => have := (hinv.g2 g ha).2; rw [h] at this; cases this

theorem main_no_crit {f : FSys} (hinv : FInv f) (h : holdsMain f.mpc = true) : nCrit f.cbs = 0 := by
  have hm := hinv.m1.mpr h
  have := hinv.m2
  rw [hm] at this
  simpa using this

/-! ### the invariant is preserved by every statement -/

theorem inv_pc_only (f : FSys) (hinv : FInv f) (pc : MPc) (a : Option Nat)
    (hh : holdsMain pc = holdsMain f.mpc) (hs : strict pc = true → strict f.mpc = true)
    (ha : a = none ∨ (a = f.armed ∧ (armedOk f.mpc = true → armedOk pc = true)))
    (hd : f.mpc = .done → pc = .done) :
    FInv { f with mpc := pc, armed := a } := by
  refine ⟨by simpa [hh] using hinv.m1, hinv.m2, fun c hc => ⟨(hinv.g1 c hc).1, fun h => (hinv.g1 c hc).2 (hs h)⟩,
    ?_, hinv.u1, ?_, hinv.p1, hinv.p2, fun h => hd (hinv.c1 h)⟩
  · intro g hg
    rcases ha with rfl | ⟨rfl, ha⟩
    · cases hg
    · exact ⟨(hinv.g2 g hg).1, ha (hinv.g2 g hg).2⟩
  · intro h
    rcases ha with rfl | ⟨rfl, _⟩
    · cases h
    · exact hinv.u2 h

/-- `p.mu.Lock()` by the main goroutine. -/
theorem inv_main_lock (f : FSys) (hinv : FInv f) (pc : MPc) (hm : f.mutex = none)
    (hh : holdsMain pc = true) (hs : strict pc = true → strict f.mpc = true)
    (ha : armedOk f.mpc = false) (hd : f.mpc ≠ .done) :
    FInv { f with mutex := some .main, mpc := pc } := by
  have hm2 := hinv.m2
  rw [hm] at hm2
  have han := armed_none hinv ha
  refine ⟨by simp [hh], by simpa using hm2, fun c hc => ⟨(hinv.g1 c hc).1, fun h => (hinv.g1 c hc).2 (hs h)⟩,
    by simp [han], hinv.u1, by simp [han], hinv.p1, hinv.p2, fun h => absurd (hinv.c1 h) hd⟩

/-- `p.mu.Unlock()` by the main goroutine. -/
theorem inv_main_unlock (f : FSys) (hinv : FInv f) (pc : MPc) (hold : holdsMain f.mpc = true)
    (hh : holdsMain pc = false) (hs : strict pc = true → strict f.mpc = true)
    (ha : armedOk f.mpc = true → armedOk pc = true) (hd : f.mpc ≠ .done) :
    FInv { f with mutex := none, mpc := pc } := by
  have hc0 := main_no_crit hinv hold
  refine ⟨by simp [hh], by simpa using hc0, fun c hc => ⟨(hinv.g1 c hc).1, fun h => (hinv.g1 c hc).2 (hs h)⟩,
    fun g hg => ⟨(hinv.g2 g hg).1, ha (hinv.g2 g hg).2⟩, hinv.u1, hinv.u2, hinv.p1, hinv.p2,
    fun h => absurd (hinv.c1 h) hd⟩

/-- `p.escGen++` (under the mutex). -/
theorem inv_bump (f : FSys) (hinv : FInv f) (pc : MPc) (hold : holdsMain f.mpc = true)
    (hh : holdsMain pc = true) (ha : armedOk f.mpc = false) (hd : f.mpc ≠ .done) :
    FInv { f with escGen := f.escGen + 1, mpc := pc } := by
  have hc0 := main_no_crit hinv hold
  have han := armed_none hinv ha
  have hlt : ∀ c ∈ f.cbs, c.1 < f.escGen + 1 := fun c hc => Nat.lt_succ_of_le (hinv.g1 c hc).1
  have hnf := nFresh_zero_of_lt hlt
  refine ⟨?_, hinv.m2, fun c hc => ⟨Nat.le_of_lt (hlt c hc), fun _ => hlt c hc⟩,
    by simp [han], by simp [hnf], by simp [hnf], ?_, hinv.p2, fun h => absurd (hinv.c1 h) hd⟩
  · have := hinv.m1; simp only [hold, iff_true] at this; simp [this, hh]
  · intro c hc hp
    have := nCrit_zero hc0 c hc
    rw [hp] at this; cases this

/-- The tables considered: `anywhere` never both arms the timer and ends the loop. -/
def TimerOk (T : Table) : Prop := ∀ ps r, (VaxisModel.Model.Parser.step T ps (.rune r)).stop = true → startsTimer T r = false

/-- `p.state = anywhere(r, p)` (under the mutex, after the bump). -/
theorem inv_anywhere (T : Table) (hT : TimerOk T) (f : FSys) (hinv : FInv f) (i : Inp) (hpc : f.mpc = .bumped i) :
    FInv { f with ps := (VaxisModel.Model.Parser.step T f.ps i).st, armed := if arms T i then some f.escGen else f.armed,
                  mpc := .stepped (stops T f.ps i) } := by
  have hold : holdsMain f.mpc = true := by rw [hpc]; rfl
  have hc0 := main_no_crit hinv hold
  have han := armed_none hinv (by rw [hpc]; rfl)
  have hlt : ∀ c ∈ f.cbs, c.1 < f.escGen := fun c hc => (hinv.g1 c hc).2 (by rw [hpc]; rfl)
  have hnf := nFresh_zero_of_lt hlt
  refine ⟨?_, hinv.m2, fun c hc => ⟨(hinv.g1 c hc).1, fun _ => hlt c hc⟩, ?_, hinv.u1, fun _ => hnf, hinv.p1, ?_,
    fun h => by have := hinv.c1 h; rw [hpc] at this; cases this⟩
  · have := hinv.m1; simp only [hold, iff_true] at this; simp [this, holdsMain]
  · intro g hg
    simp only [han] at hg
    split at hg
    · rename_i ha
      simp only [Option.some.injEq] at hg
      refine ⟨hg.symm, ?_⟩
      cases i with
      | eof => simp [arms] at ha
      | rune r =>
        simp only [arms] at ha
        have : stops T f.ps (.rune r) = false := by
          cases hs : stops T f.ps (.rune r) with
          | false => rfl
          | true => simp only [stops] at hs; rw [hT f.ps r hs] at ha; cases ha
        rw [this]; rfl
    · cases hg
  · intro c hc
    have := nCrit_zero hc0 c hc
    constructor
    · intro h; rw [h] at this; cases this
    · intro h; rw [h] at this; cases this

theorem main_inv (T : Table) (hT : TimerOk T) (f f' : FSys) (o : List Seq) (hinv : FInv f)
    (h : mainStep T f = some (f', o)) : FInv f' := by
  unfold mainStep at h
  split at h
  · -- select
    rename_i hpc
    split at h <;> (simp only [Option.some.injEq, Prod.mk.injEq] at h; obtain ⟨rfl, _⟩ := h)
    · have := inv_pc_only f hinv (.fin .stop false) f.armed (by rw [hpc]; rfl) (by simp [strict])
        (Or.inr ⟨rfl, fun _ => rfl⟩) (by simp [hpc])
      simpa using this
    · have := inv_pc_only f hinv .inRead f.armed (by rw [hpc]; rfl) (by simp [strict])
        (Or.inr ⟨rfl, fun _ => rfl⟩) (by simp [hpc])
      simpa using this
  · cases h
  · -- Stop
    rename_i i hpc
    simp only [Option.some.injEq, Prod.mk.injEq] at h; obtain ⟨rfl, _⟩ := h
    exact inv_pc_only f hinv (.stopped i) none (by rw [hpc]; rfl) (by simp [strict]) (Or.inl rfl) (by simp [hpc])
  · -- Lock
    rename_i i hpc
    split at h
    · rename_i hm
      simp only [Option.some.injEq, Prod.mk.injEq] at h; obtain ⟨rfl, _⟩ := h
      exact inv_main_lock f hinv (.locked i) hm rfl (by simp [strict]) (by rw [hpc]; rfl) (by simp [hpc])
    · cases h
  · -- escGen++
    rename_i i hpc
    simp only [Option.some.injEq, Prod.mk.injEq] at h; obtain ⟨rfl, _⟩ := h
    exact inv_bump f hinv (.bumped i) (by rw [hpc]; rfl) rfl (by rw [hpc]; rfl) (by simp [hpc])
  · -- anywhere
    rename_i i hpc
    simp only [Option.some.injEq, Prod.mk.injEq] at h; obtain ⟨rfl, _⟩ := h
    exact inv_anywhere T hT f hinv i hpc
  · -- Unlock
    rename_i stop hpc
    simp only [Option.some.injEq, Prod.mk.injEq] at h; obtain ⟨rfl, _⟩ := h
    cases stop with
    | true =>
      exact inv_main_unlock f hinv (.fin .stop true) (by rw [hpc]; rfl) rfl (by rw [hpc]; simp [strict])
        (by rw [hpc]; simp [armedOk]) (by simp [hpc])
    | false =>
      exact inv_main_unlock f hinv .atSelect (by rw [hpc]; rfl) rfl (by simp [strict])
        (by rw [hpc]; simp [armedOk]) (by simp [hpc])
  · -- Stop
    rename_i v hpc
    simp only [Option.some.injEq, Prod.mk.injEq] at h; obtain ⟨rfl, _⟩ := h
    exact inv_pc_only f hinv (.fin .lock v) none (by rw [hpc]; rfl) (by rw [hpc]; cases v <;> simp [strict])
      (Or.inl rfl) (by simp [hpc])
  · -- Lock
    rename_i v hpc
    split at h
    · rename_i hm
      simp only [Option.some.injEq, Prod.mk.injEq] at h; obtain ⟨rfl, _⟩ := h
      exact inv_main_lock f hinv (.fin .bump v) hm rfl (by rw [hpc]; cases v <;> simp [strict])
        (by rw [hpc]; rfl) (by simp [hpc])
    · cases h
  · -- escGen++
    rename_i v hpc
    simp only [Option.some.injEq, Prod.mk.injEq] at h; obtain ⟨rfl, _⟩ := h
    exact inv_bump f hinv (.fin .unlock v) (by rw [hpc]; rfl) rfl (by rw [hpc]; rfl) (by simp [hpc])
  · -- Unlock
    rename_i v hpc
    simp only [Option.some.injEq, Prod.mk.injEq] at h; obtain ⟨rfl, _⟩ := h
    exact inv_main_unlock f hinv (.fin .emit v) (by rw [hpc]; rfl) rfl (by rw [hpc]; cases v <;> simp [strict])
      (by rw [hpc]; simp [armedOk]) (by simp [hpc])
  · -- emit EOF
    rename_i v hpc
    simp only [Option.some.injEq, Prod.mk.injEq] at h; obtain ⟨rfl, _⟩ := h
    have := inv_pc_only f hinv (.fin .close v) f.armed (by rw [hpc]; rfl) (by rw [hpc]; cases v <;> simp [strict])
      (Or.inr ⟨rfl, by rw [hpc]; simp [armedOk]⟩) (by simp [hpc])
    simpa using this
  · -- close
    rename_i v hpc
    simp only [Option.some.injEq, Prod.mk.injEq] at h; obtain ⟨rfl, _⟩ := h
    have h1 := inv_pc_only f hinv .done f.armed (by rw [hpc]; rfl) (by rw [hpc]; cases v <;> simp [strict])
      (Or.inr ⟨rfl, by rw [hpc]; simp [armedOk]⟩) (by simp [hpc])
    exact ⟨h1.m1, h1.m2, h1.g1, h1.g2, h1.u1, h1.u2, h1.p1, h1.p2, fun _ => rfl⟩
  · cases h

theorem expire_inv (f : FSys) (hinv : FInv f) (g : Nat) (ha : f.armed = some g) :
    FInv { f with armed := none, cbs := f.cbs ++ [(g, .started)] } := by
  obtain ⟨hg, hok⟩ := hinv.g2 g ha
  have hns := armedOk_not_strict _ hok
  have hu2 := hinv.u2 (by rw [ha]; rfl)
  refine ⟨hinv.m1, ?_, ?_, by simp, ?_, by simp, ?_, ?_, hinv.c1⟩
  · have := hinv.m2; simpa [nCrit, List.countP_append, crit] using this
  · intro c hc
    rcases List.mem_append.mp hc with hc | hc
    · exact hinv.g1 c hc
    · simp only [List.mem_singleton] at hc; subst hc
      exact ⟨Nat.le_of_eq hg, fun h => by rw [hns] at h; cases h⟩
  · show nFresh f.escGen (f.cbs ++ [(g, .started)]) ≤ 1
    have : nFresh f.escGen (f.cbs ++ [(g, .started)]) = nFresh f.escGen f.cbs + 1 := by
      simp [nFresh, List.countP_append, hg, pre3]
    omega
  · intro c hc hp
    rcases List.mem_append.mp hc with hc | hc
    · exact hinv.p1 c hc hp
    · simp only [List.mem_singleton] at hc; subst hc; cases hp
  · intro c hc
    rcases List.mem_append.mp hc with hc | hc
    · exact hinv.p2 c hc
    · simp only [List.mem_singleton] at hc; subst hc
      exact ⟨fun h => (nomatch h), fun h => (nomatch h)⟩

theorem readRet_inv (f : FSys) (hinv : FInv f) (i : Inp) (hpc : f.mpc = .inRead) :
    FInv { f with mpc := .readDone i } := by
  have := inv_pc_only f hinv (.readDone i) f.armed (by rw [hpc]; rfl) (by simp [strict])
    (Or.inr ⟨rfl, fun _ => rfl⟩) (by simp [hpc])
  simpa using this

theorem closeSig_inv (f : FSys) (hinv : FInv f) : FInv { f with closeReq := true } :=
  ⟨hinv.m1, hinv.m2, hinv.g1, hinv.g2, hinv.u1, hinv.u2, hinv.p1, hinv.p2, hinv.c1⟩

theorem nCrit_set (l : Cbs) (i g : Nat) (pc pc' : CbPc) (hi : l[i]? = some (g, pc)) :
    nCrit (l.set i (g, pc')) + (crit pc).toNat = nCrit l + (crit pc').toNat :=
  countP_set _ l i _ _ hi

theorem nMid_set (l : Cbs) (i g : Nat) (pc pc' : CbPc) (hi : l[i]? = some (g, pc)) :
    nMid (l.set i (g, pc')) + (mid pc).toNat = nMid l + (mid pc').toNat :=
  countP_set _ l i _ _ hi

theorem nFresh_set (e : Nat) (l : Cbs) (i g : Nat) (pc pc' : CbPc) (hi : l[i]? = some (g, pc)) :
    nFresh e (l.set i (g, pc')) + (decide (g = e) && pre3 pc).toNat =
      nFresh e l + (decide (g = e) && pre3 pc').toNat :=
  countP_set _ l i _ _ hi

theorem nStale_set (e : Nat) (l : Cbs) (i g : Nat) (pc pc' : CbPc) (hi : l[i]? = some (g, pc)) :
    nStale e (l.set i (g, pc')) + (!decide (g = e) && pre2 pc).toNat =
      nStale e l + (!decide (g = e) && pre2 pc').toNat :=
  countP_set _ l i _ _ hi

theorem g1_set (f : FSys) (hinv : FInv f) (i g : Nat) (pc pc' : CbPc) (hi : f.cbs[i]? = some (g, pc)) :
    ∀ c ∈ f.cbs.set i (g, pc'), c.1 ≤ f.escGen ∧ (strict f.mpc = true → c.1 < f.escGen) :=
  forall_set _ _ _ _ hinv.g1 (hinv.g1 (g, pc) (List.mem_of_getElem? hi))

/-- A callback holding the mutex excludes the main goroutine's critical statements. -/
theorem cb_excl (f : FSys) (hinv : FInv f) (i g : Nat) (pc : CbPc) (hi : f.cbs[i]? = some (g, pc))
    (hc : crit pc = true) : f.mutex = some .cb ∧ holdsMain f.mpc = false ∧ nCrit f.cbs = 1 := by
  have hpos : 0 < nCrit f.cbs := List.countP_pos_iff.mpr ⟨(g, pc), List.mem_of_getElem? hi, hc⟩
  have hm2 := hinv.m2
  by_cases hm : f.mutex = some .cb
  · rw [if_pos hm] at hm2
    refine ⟨hm, ?_, hm2⟩
    cases hh : holdsMain f.mpc with
    | false => rfl
    | true => have := hinv.m1.mpr hh; rw [hm] at this; cases this
  · rw [if_neg hm] at hm2; omega

/-- `p.mu.Lock()` by a callback. -/
theorem inv_cb_lock (f : FSys) (hinv : FInv f) (i g : Nat) (hi : f.cbs[i]? = some (g, .started)) (hm : f.mutex = none) :
    FInv { f with mutex := some .cb, cbs := f.cbs.set i (g, .locked) } := by
  have hm2 := hinv.m2
  rw [hm] at hm2
  have hnh : holdsMain f.mpc = false := by
    cases hh : holdsMain f.mpc with
    | false => rfl
    | true => have := hinv.m1.mpr hh; rw [hm] at this; cases this
  have hcs := nCrit_set f.cbs i g _ .locked hi
  have hfs := nFresh_set f.escGen f.cbs i g _ .locked hi
  simp [crit] at hcs hm2
  simp only [pre3] at hfs
  refine ⟨by simp [hnh], ?_, g1_set f hinv i g _ _ hi, hinv.g2, ?_, ?_, ?_, ?_, hinv.c1⟩
  · show nCrit (f.cbs.set i (g, .locked)) = _; simp; omega
  · have := hinv.u1; show nFresh f.escGen (f.cbs.set i (g, .locked)) ≤ 1; omega
  · intro h; have := hinv.u2 h; show nFresh f.escGen (f.cbs.set i (g, .locked)) = 0; omega
  · exact forall_set _ _ _ _ hinv.p1 (fun h => nomatch h)
  · exact forall_set _ _ _ _ hinv.p2 ⟨fun h => (nomatch h), fun h => (nomatch h)⟩

/-- A statement of a callback inside its critical section (not the Unlock). -/
theorem inv_cb_mid (f : FSys) (hinv : FInv f) (i g : Nat) (pc pc' : CbPc) (ps' : PState)
    (hi : f.cbs[i]? = some (g, pc)) (hc : crit pc = true) (hc' : crit pc' = true)
    (hf : (decide (g = f.escGen) && pre3 pc') = true → pre3 pc = true)
    (hp1 : pc' = .passed → g = f.escGen)
    (hp2 : ∀ c ∈ f.cbs.set i (g, pc'), (c.2 = .stateSet → ps'.state = .ground) ∧
        (c.2 = .stSet → ps'.state = .ground ∧ ps'.ignoreST = false)) :
    FInv { f with ps := ps', cbs := f.cbs.set i (g, pc') } := by
  have hcs := nCrit_set f.cbs i g pc pc' hi
  have hfs := nFresh_set f.escGen f.cbs i g pc pc' hi
  rw [hc, hc'] at hcs
  have hle : nFresh f.escGen (f.cbs.set i (g, pc')) ≤ nFresh f.escGen f.cbs := by
    cases h1 : (decide (g = f.escGen) && pre3 pc') with
    | false => rw [h1] at hfs; simp at hfs; omega
    | true =>
      have h2 := hf h1
      have h3 : (decide (g = f.escGen) && pre3 pc) = true := by
        simp only [Bool.and_eq_true] at h1 ⊢; exact ⟨h1.1, h2⟩
      rw [h1, h3] at hfs; omega
  refine ⟨hinv.m1, ?_, g1_set f hinv i g _ _ hi, hinv.g2, ?_, ?_, ?_, hp2, hinv.c1⟩
  · have := hinv.m2; show nCrit (f.cbs.set i (g, pc')) = (if f.mutex = some .cb then 1 else 0); omega
  · have := hinv.u1; show nFresh f.escGen (f.cbs.set i (g, pc')) ≤ 1; omega
  · intro h; have := hinv.u2 h; show nFresh f.escGen (f.cbs.set i (g, pc')) = 0; omega
  · exact forall_set _ _ _ _ hinv.p1 hp1

/-- The deferred `p.mu.Unlock()` of a callback. -/
theorem inv_cb_unlock (f : FSys) (hinv : FInv f) (i g : Nat) (pc : CbPc)
    (hi : f.cbs[i]? = some (g, pc)) (hc : crit pc = true) :
    FInv { f with mutex := none, cbs := f.cbs.set i (g, .gone) } := by
  obtain ⟨hm, hnh, h1⟩ := cb_excl f hinv i g pc hi hc
  have hcs := nCrit_set f.cbs i g pc .gone hi
  have hfs := nFresh_set f.escGen f.cbs i g pc .gone hi
  rw [hc] at hcs
  simp [crit] at hcs
  simp [pre3] at hfs
  refine ⟨by simp [hnh], ?_, g1_set f hinv i g _ _ hi, hinv.g2, ?_, ?_, ?_, ?_, hinv.c1⟩
  · show nCrit (f.cbs.set i (g, .gone)) = _; simp; omega
  · have := hinv.u1; show nFresh f.escGen (f.cbs.set i (g, .gone)) ≤ 1; omega
  · intro h; have := hinv.u2 h; show nFresh f.escGen (f.cbs.set i (g, .gone)) = 0; omega
  · exact forall_set _ _ _ _ hinv.p1 (fun h => nomatch h)
  · exact forall_set _ _ _ _ hinv.p2 ⟨fun h => (nomatch h), fun h => (nomatch h)⟩

theorem cb_inv (f f' : FSys) (o : List Seq) (i : Nat) (hinv : FInv f) (h : cbStep f i = some (f', o)) : FInv f' := by
  unfold cbStep at h
  split at h
  · cases h
  · rename_i g pc hi
    have hmem : (g, pc) ∈ f.cbs := List.mem_of_getElem? hi
    cases pc with
    | started =>
      simp only at h
      split at h
      · rename_i hm
        simp only [Option.some.injEq, Prod.mk.injEq] at h; obtain ⟨rfl, _⟩ := h
        exact inv_cb_lock f hinv i g hi hm
      · cases h
    | locked =>
      simp only [Option.some.injEq, Prod.mk.injEq] at h; obtain ⟨rfl, _⟩ := h
      have := inv_cb_mid f hinv i g .locked (if g = f.escGen then .passed else .failed) f.ps hi rfl
        (by split <;> rfl) (fun _ => rfl) (by split <;> simp_all)
        (forall_set _ _ _ _ hinv.p2 (by split <;> exact ⟨fun h => (nomatch h), fun h => (nomatch h)⟩))
      simpa using this
    | passed =>
      simp only [Option.some.injEq, Prod.mk.injEq] at h; obtain ⟨rfl, _⟩ := h
      have := inv_cb_mid f hinv i g .passed .emitted f.ps hi rfl rfl (fun _ => rfl) (fun h => nomatch h)
        (forall_set _ _ _ _ hinv.p2 ⟨fun h => (nomatch h), fun h => (nomatch h)⟩)
      simpa using this
    | emitted =>
      simp only [Option.some.injEq, Prod.mk.injEq] at h; obtain ⟨rfl, _⟩ := h
      refine inv_cb_mid f hinv i g .emitted .stateSet _ hi rfl rfl (by simp [pre3]) (fun h => nomatch h) ?_
      exact forall_set _ _ _ _ (fun c hc => ⟨fun _ => rfl, fun h => ⟨rfl, ((hinv.p2 c hc).2 h).2⟩⟩)
        ⟨fun _ => rfl, fun h => (nomatch h)⟩
    | stateSet =>
      simp only [Option.some.injEq, Prod.mk.injEq] at h; obtain ⟨rfl, _⟩ := h
      have hg := (hinv.p2 _ hmem).1 rfl
      refine inv_cb_mid f hinv i g .stateSet .stSet _ hi rfl rfl (by simp [pre3]) (fun h => nomatch h) ?_
      exact forall_set _ _ _ _ (fun c hc => ⟨fun _ => hg, fun _ => ⟨hg, rfl⟩⟩) ⟨fun _ => hg, fun _ => ⟨hg, rfl⟩⟩
    | stSet =>
      simp only [Option.some.injEq, Prod.mk.injEq] at h; obtain ⟨rfl, _⟩ := h
      exact inv_cb_unlock f hinv i g _ hi rfl
    | failed =>
      simp only [Option.some.injEq, Prod.mk.injEq] at h; obtain ⟨rfl, _⟩ := h
      exact inv_cb_unlock f hinv i g _ hi rfl
    | gone => cases h

theorem step_inv (T : Table) (hT : TimerOk T) (f f' : FSys) (l : FLabel) (o : List Seq) (hinv : FInv f)
    (h : FSys.step T f l = some (f', o)) : FInv f' := by
  cases l with
  | closeSig =>
    simp only [FSys.step, Option.some.injEq, Prod.mk.injEq] at h; obtain ⟨rfl, _⟩ := h
    exact closeSig_inv f hinv
  | readRet i =>
    simp only [FSys.step] at h
    split at h
    · rename_i hpc
      simp only [Option.some.injEq, Prod.mk.injEq] at h; obtain ⟨rfl, _⟩ := h
      exact readRet_inv f hinv i hpc
    · cases h
  | main => exact main_inv T hT f f' o hinv h
  | expire =>
    simp only [FSys.step] at h
    split at h
    · rename_i g ha
      simp only [Option.some.injEq, Prod.mk.injEq] at h; obtain ⟨rfl, _⟩ := h
      exact expire_inv f hinv g ha
    · cases h
  | cb i => exact cb_inv f f' o i hinv h

theorem run_inv (T : Table) (hT : TimerOk T) (ls : List FLabel) (f f' : FSys) (o : List Seq) (hinv : FInv f)
    (h : FSys.run T f ls = some (f', o)) : FInv f' := by
  induction ls generalizing f o with
  | nil => simp only [FSys.run, Option.some.injEq, Prod.mk.injEq] at h; obtain ⟨rfl, _⟩ := h; exact hinv
  | cons l ls ih =>
    simp only [FSys.run] at h
    cases h1 : FSys.step T f l with
    | none => simp [h1] at h
    | some r1 =>
      obtain ⟨f1, o1⟩ := r1
      simp only [h1] at h
      cases h2 : FSys.run T f1 ls with
      | none => simp [h2] at h
      | some r2 =>
        obtain ⟨f2, o2⟩ := r2
        simp only [h2, Option.some.injEq, Prod.mk.injEq] at h
        obtain ⟨rfl, _⟩ := h
        exact ih f1 o2 (step_inv T hT f f1 l o1 hinv h1) h2

/-! ### the abstraction: which atomic state a statement-grained state stands for

The atomic `read r` / `readEnd` step is taken when the main goroutine has bumped the generation (from
then on no callback of an older ESC can act; the mutex is held until `anywhere` has run); the atomic
`breakClose` at the bump after the loop; the atomic `cbRun` at the callback's `emit` (up to date) or at
its failed check (out of date); `timerExpire` at `expire`.  All other statements are stuttering steps.
`pend` is what the atomic system has emitted ahead of the statements. -/

def absPc (T : Table) (f : FSys) : Pc :=
  match f.mpc with
  | .atSelect => .atSelect
  | .inRead | .readDone _ | .stopped _ | .locked _ => .inRead
  | .bumped i => if stops T f.ps i then .done else .atSelect
  | .stepped stop => if stop then .done else .atSelect
  | .fin st v => if v then .done else (match st with | .stop | .lock | .bump => .atSelect | _ => .done)
  | .done => .done

def absPs (T : Table) (f : FSys) : PState :=
  match f.mpc with
  | .bumped i => (VaxisModel.Model.Parser.step T f.ps i).st
  | _ => if 0 < nMid f.cbs then timerReset true f.ps else f.ps

def pend (T : Table) (f : FSys) : List Seq :=
  match f.mpc with
  | .bumped i => (VaxisModel.Model.Parser.step T f.ps i).out ++ (if stops T f.ps i then [.eof] else [])
  | .stepped true => [.eof]
  | .fin .stop true | .fin .lock true | .fin .bump true | .fin .unlock _ | .fin .emit _ => [.eof]
  | _ => []

/-- The atomic system's `armed` flag must be up where the timer is (or is about to be) pending; it may
    also still be up after a `Stop()` (the atomic system has no separate Stop). -/
def needArmed (T : Table) (f : FSys) : Bool :=
  f.armed.isSome || (match f.mpc with | .bumped i => arms T i | _ => false)

def abs (T : Table) (f : FSys) (b : Bool) : Sys :=
  { ps := absPs T f, pc := absPc T f, armed := b, closeReq := f.closeReq,
    chanClosed := decide (absPc T f = .done), fresh := decide (0 < nFresh f.escGen f.cbs),
    stale := nStale f.escGen f.cbs }

/-- One statement is matched by atomic steps `ls` (none or one) with the same output, up to `pend`. -/
def Sim (T : Table) (f f' : FSys) (b : Bool) (o : List Seq) : Prop :=
  ∃ ls b' o', Sys.run T Cfg.fixed (abs T f b) ls = some (abs T f' b', o') ∧
    (needArmed T f' = true → b' = true) ∧ pend T f ++ o' = o ++ pend T f'

theorem sim_stutter (T : Table) (f f' : FSys) (b : Bool) (o : List Seq)
    (h1 : abs T f' b = abs T f b) (h2 : needArmed T f' = true → b = true) (h3 : pend T f = o ++ pend T f') :
    Sim T f f' b o :=
  ⟨[], b, [], by simp [Sys.run, h1], h2, by simpa using h3⟩

theorem sim_one (T : Table) (f f' : FSys) (b : Bool) (o : List Seq) (l : Label) (b' : Bool) (o' : List Seq)
    (h1 : Sys.step T Cfg.fixed (abs T f b) l = some (abs T f' b', o'))
    (h2 : needArmed T f' = true → b' = true) (h3 : pend T f ++ o' = o ++ pend T f') :
    Sim T f f' b o :=
  ⟨[l], b', o', by simp [Sys.run, h1], h2, h3⟩

theorem nMid_le_nCrit (l : Cbs) : nMid l ≤ nCrit l := by
  apply List.countP_mono_left
  intro c _ h
  cases hc : c.2 <;> simp_all [mid, crit]

theorem main_no_mid {f : FSys} (hinv : FInv f) (h : holdsMain f.mpc = true) : nMid f.cbs = 0 := by
  have := main_no_crit hinv h; have := nMid_le_nCrit f.cbs; omega

theorem nStale_cons (e g : Nat) (pc : CbPc) (l : Cbs) :
    nStale e ((g, pc) :: l) = nStale e l + (!decide (g = e) && pre2 pc).toNat := by
  simp only [nStale, List.countP_cons]; cases (!decide (g = e) && pre2 pc) <;> simp

theorem nFresh_cons (e g : Nat) (pc : CbPc) (l : Cbs) :
    nFresh e ((g, pc) :: l) = nFresh e l + (decide (g = e) && pre3 pc).toNat := by
  simp only [nFresh, List.countP_cons]; cases (decide (g = e) && pre3 pc) <;> simp

/-- Bumping the generation outdates the started callbacks (none is inside: the mutex is held). -/
theorem outdate_count (e : Nat) (l : Cbs) (h1 : ∀ c ∈ l, c.1 ≤ e) (h2 : ∀ c ∈ l, crit c.2 = false) :
    nStale (e + 1) l = nStale e l + nFresh e l ∧ nFresh (e + 1) l = 0 := by
  induction l with
  | nil => simp [nStale, nFresh]
  | cons c l ih =>
    have ih' := ih (fun c hc => h1 c (List.mem_cons_of_mem _ hc)) (fun c hc => h2 c (List.mem_cons_of_mem _ hc))
    obtain ⟨g, pc⟩ := c
    have hg : g ≤ e := h1 (g, pc) List.mem_cons_self
    have hc : crit pc = false := h2 (g, pc) List.mem_cons_self
    have hne : g ≠ e + 1 := by omega
    rw [nStale_cons, nStale_cons, nFresh_cons, nFresh_cons]
    cases pc <;> simp [crit] at hc <;> simp [pre2, pre3, hne] <;> (try (by_cases hge : g = e <;> simp [hge])) <;> omega

/-- The loop was left through `<-p.close` only if `Close()` had been called. -/
def CInv (f : FSys) : Prop := ∀ st, f.mpc = .fin st false → f.closeReq = true

theorem CInv_init : CInv FSys.init := by intro st h; cases h

theorem step_CInv (T : Table) (f f' : FSys) (l : FLabel) (o : List Seq) (hinv : CInv f)
    (h : FSys.step T f l = some (f', o)) : CInv f' := by
  cases l with
  | closeSig =>
    simp only [FSys.step, Option.some.injEq, Prod.mk.injEq] at h; obtain ⟨rfl, _⟩ := h
    intro st _; rfl
  | readRet i =>
    simp only [FSys.step] at h
    split at h
    · simp only [Option.some.injEq, Prod.mk.injEq] at h; obtain ⟨rfl, _⟩ := h
      intro st hst; cases hst
    · cases h
  | main =>
    simp only [FSys.step] at h
    unfold mainStep at h
    split at h
    · split at h
      · rename_i hc
        simp only [Option.some.injEq, Prod.mk.injEq] at h; obtain ⟨rfl, _⟩ := h
        intro st _; exact hc
      · simp only [Option.some.injEq, Prod.mk.injEq] at h; obtain ⟨rfl, _⟩ := h
        intro st hst; cases hst
    · cases h
    · simp only [Option.some.injEq, Prod.mk.injEq] at h; obtain ⟨rfl, _⟩ := h
      intro st hst; cases hst
    · split at h
      · simp only [Option.some.injEq, Prod.mk.injEq] at h; obtain ⟨rfl, _⟩ := h
        intro st hst; cases hst
      · cases h
    · simp only [Option.some.injEq, Prod.mk.injEq] at h; obtain ⟨rfl, _⟩ := h
      intro st hst; cases hst
    · simp only [Option.some.injEq, Prod.mk.injEq] at h; obtain ⟨rfl, _⟩ := h
      intro st hst; cases hst
    · rename_i stop hpc
      simp only [Option.some.injEq, Prod.mk.injEq] at h; obtain ⟨rfl, _⟩ := h
      intro st hst; cases stop <;> simp at hst
    · rename_i v hpc
      simp only [Option.some.injEq, Prod.mk.injEq] at h; obtain ⟨rfl, _⟩ := h
      intro st hst; simp only [MPc.fin.injEq] at hst; obtain ⟨_, rfl⟩ := hst; exact hinv _ hpc
    · rename_i v hpc
      split at h
      · simp only [Option.some.injEq, Prod.mk.injEq] at h; obtain ⟨rfl, _⟩ := h
        intro st hst; simp only [MPc.fin.injEq] at hst; obtain ⟨_, rfl⟩ := hst; exact hinv _ hpc
      · cases h
    · rename_i v hpc
      simp only [Option.some.injEq, Prod.mk.injEq] at h; obtain ⟨rfl, _⟩ := h
      intro st hst; simp only [MPc.fin.injEq] at hst; obtain ⟨_, rfl⟩ := hst; exact hinv _ hpc
    · rename_i v hpc
      simp only [Option.some.injEq, Prod.mk.injEq] at h; obtain ⟨rfl, _⟩ := h
      intro st hst; simp only [MPc.fin.injEq] at hst; obtain ⟨_, rfl⟩ := hst; exact hinv _ hpc
    · rename_i v hpc
      simp only [Option.some.injEq, Prod.mk.injEq] at h; obtain ⟨rfl, _⟩ := h
      intro st hst; simp only [MPc.fin.injEq] at hst; obtain ⟨_, rfl⟩ := hst; exact hinv _ hpc
    · simp only [Option.some.injEq, Prod.mk.injEq] at h; obtain ⟨rfl, _⟩ := h
      intro st hst; cases hst
    · cases h
  | expire =>
    simp only [FSys.step] at h
    split at h
    · simp only [Option.some.injEq, Prod.mk.injEq] at h; obtain ⟨rfl, _⟩ := h
      exact hinv
    · cases h
  | cb i =>
    simp only [FSys.step] at h
    unfold cbStep at h
    split at h
    · cases h
    · rename_i g pc hi
      have key : f'.mpc = f.mpc ∧ f'.closeReq = f.closeReq := by
        cases pc <;> simp only at h
        case started =>
          split at h
          · simp only [Option.some.injEq, Prod.mk.injEq] at h; obtain ⟨rfl, _⟩ := h; exact ⟨rfl, rfl⟩
          · cases h
        case gone => cases h
        all_goals (simp only [Option.some.injEq, Prod.mk.injEq] at h; obtain ⟨rfl, _⟩ := h; exact ⟨rfl, rfl⟩)
      intro st hst
      rw [key.1] at hst; rw [key.2]; exact hinv st hst

theorem sim_select (T : Table) (f f' : FSys) (o : List Seq) (b : Bool) (hb : needArmed T f = true → b = true)
    (hpc : f.mpc = .atSelect) (h : mainStep T f = some (f', o)) : Sim T f f' b o := by
  simp only [mainStep, hpc] at h
  have hb' : f.armed.isSome = true → b = true := fun h => hb (by simp [needArmed, h])
  split at h
  · simp only [Option.some.injEq, Prod.mk.injEq] at h; obtain ⟨rfl, rfl⟩ := h
    apply sim_stutter
    · simp [abs, absPs, absPc, hpc]
    · simpa [needArmed] using hb'
    · simp [pend, hpc]
  · rename_i hc
    simp only [Option.some.injEq, Prod.mk.injEq] at h; obtain ⟨rfl, rfl⟩ := h
    apply sim_one T f _ b [] .enterRead b []
    · simp [Sys.step, abs, absPs, absPc, hpc, hc]
    · simpa [needArmed] using hb'
    · simp [pend, hpc]

/-- Stop, Lock, Unlock, emit EOF, close: the atomic system does not move. -/
theorem sim_stop (T : Table) (f f' : FSys) (o : List Seq) (b : Bool) (i : Inp)
    (hpc : f.mpc = .readDone i) (h : mainStep T f = some (f', o)) : Sim T f f' b o := by
  simp only [mainStep, hpc, Option.some.injEq, Prod.mk.injEq] at h; obtain ⟨rfl, rfl⟩ := h
  apply sim_stutter
  · simp [abs, absPs, absPc, hpc]
  · simp [needArmed]
  · simp [pend, hpc]

theorem sim_lock (T : Table) (f f' : FSys) (o : List Seq) (b : Bool) (hb : needArmed T f = true → b = true) (i : Inp)
    (hpc : f.mpc = .stopped i) (h : mainStep T f = some (f', o)) : Sim T f f' b o := by
  simp only [mainStep, hpc] at h
  have hb' : f.armed.isSome = true → b = true := fun h => hb (by simp [needArmed, h])
  split at h
  · simp only [Option.some.injEq, Prod.mk.injEq] at h; obtain ⟨rfl, rfl⟩ := h
    apply sim_stutter
    · simp [abs, absPs, absPc, hpc]
    · simpa [needArmed] using hb'
    · simp [pend, hpc]
  · cases h

/-- What `Sys.outdate` does, on the abstraction, when the generation is bumped under the mutex. -/
theorem abs_outdate (f : FSys) (hinv : FInv f) (hold : holdsMain f.mpc = true) :
    nStale (f.escGen + 1) f.cbs = nStale f.escGen f.cbs + (if decide (0 < nFresh f.escGen f.cbs) = true then 1 else 0) ∧
    nFresh (f.escGen + 1) f.cbs = 0 := by
  have hc0 := main_no_crit hinv hold
  obtain ⟨hst, hfr⟩ := outdate_count f.escGen f.cbs (fun c hc => (hinv.g1 c hc).1) (nCrit_zero hc0)
  have hu1 := hinv.u1
  refine ⟨?_, hfr⟩
  rw [hst]
  by_cases h : 0 < nFresh f.escGen f.cbs
  · simp [h]; omega
  · simp [h]; omega

theorem sim_bump (T : Table) (hT : TimerOk T) (f f' : FSys) (o : List Seq) (b : Bool) (hinv : FInv f) (i : Inp)
    (hpc : f.mpc = .locked i) (h : mainStep T f = some (f', o)) : Sim T f f' b o := by
  simp only [mainStep, hpc, Option.some.injEq, Prod.mk.injEq] at h; obtain ⟨rfl, rfl⟩ := h
  have hold : holdsMain f.mpc = true := by rw [hpc]; rfl
  have hmid := main_no_mid hinv hold
  have han := armed_none hinv (by rw [hpc]; rfl)
  obtain ⟨hst, hfr⟩ := abs_outdate f hinv hold
  cases i with
  | rune r =>
    cases hs : (VaxisModel.Model.Parser.step T f.ps (.rune r)).stop with
    | true =>
      apply sim_one T f _ b [] (.read r) false ((VaxisModel.Model.Parser.step T f.ps (.rune r)).out ++ [.eof])
      · simp [Sys.step, abs, absPs, absPc, hpc, hmid, hs, finishing, Sys.outdate, stops, hst, hfr]
      · simp [needArmed, han, arms, hT f.ps r hs]
      · simp [pend, hpc, stops, hs]
    | false =>
      apply sim_one T f _ b [] (.read r) (startsTimer T r) (VaxisModel.Model.Parser.step T f.ps (.rune r)).out
      · simp [Sys.step, abs, absPs, absPc, hpc, hmid, hs, Sys.outdate, stops, hst, hfr]
      · simp [needArmed, han, arms]
      · simp [pend, hpc, stops, hs]
  | eof =>
    apply sim_one T f _ b [] .readEnd false ((VaxisModel.Model.Parser.step T f.ps .eof).out ++ [.eof])
    · simp [Sys.step, abs, absPs, absPc, hpc, hmid, finishing, Sys.outdate, stops, hst, hfr]
    · simp [needArmed, han, arms]
    · simp [pend, hpc, stops]

theorem sim_anywhere (T : Table) (f f' : FSys) (o : List Seq) (b : Bool) (hb : needArmed T f = true → b = true)
    (hinv : FInv f) (i : Inp) (hpc : f.mpc = .bumped i) (h : mainStep T f = some (f', o)) : Sim T f f' b o := by
  simp only [mainStep, hpc, Option.some.injEq, Prod.mk.injEq] at h; obtain ⟨rfl, rfl⟩ := h
  have hold : holdsMain f.mpc = true := by rw [hpc]; rfl
  have hmid := main_no_mid hinv hold
  have han := armed_none hinv (by rw [hpc]; rfl)
  apply sim_stutter
  · simp [abs, absPs, absPc, hpc, hmid]
  · intro h
    apply hb
    simp only [needArmed, han, hpc] at h ⊢
    split at h <;> simp_all
  · cases hs : stops T f.ps i <;> simp [pend, hpc, hs]

theorem sim_unlock (T : Table) (f f' : FSys) (o : List Seq) (b : Bool) (hb : needArmed T f = true → b = true)
    (stop : Bool) (hpc : f.mpc = .stepped stop) (h : mainStep T f = some (f', o)) : Sim T f f' b o := by
  simp only [mainStep, hpc, Option.some.injEq, Prod.mk.injEq] at h; obtain ⟨rfl, rfl⟩ := h
  have hb' : f.armed.isSome = true → b = true := fun h => hb (by simp [needArmed, h])
  apply sim_stutter
  · cases stop <;> simp [abs, absPs, absPc, hpc]
  · cases stop <;> simpa [needArmed] using hb'
  · cases stop <;> simp [pend, hpc]

theorem sim_fin (T : Table) (f f' : FSys) (o : List Seq) (b : Bool) (hb : needArmed T f = true → b = true)
    (hinv : FInv f) (hcl : CInv f) (st : FinPc) (v : Bool) (hpc : f.mpc = .fin st v) (h : mainStep T f = some (f', o)) :
    Sim T f f' b o := by
  have hb' : f.armed.isSome = true → b = true := fun h => hb (by simp [needArmed, h])
  cases st with
  | stop =>
    simp only [mainStep, hpc, Option.some.injEq, Prod.mk.injEq] at h; obtain ⟨rfl, rfl⟩ := h
    apply sim_stutter
    · cases v <;> simp [abs, absPs, absPc, hpc]
    · simp [needArmed]
    · cases v <;> simp [pend, hpc]
  | lock =>
    simp only [mainStep, hpc] at h
    split at h
    · simp only [Option.some.injEq, Prod.mk.injEq] at h; obtain ⟨rfl, rfl⟩ := h
      apply sim_stutter
      · cases v <;> simp [abs, absPs, absPc, hpc]
      · simpa [needArmed] using hb'
      · cases v <;> simp [pend, hpc]
    · cases h
  | bump =>
    simp only [mainStep, hpc, Option.some.injEq, Prod.mk.injEq] at h; obtain ⟨rfl, rfl⟩ := h
    have hold : holdsMain f.mpc = true := by rw [hpc]; rfl
    have hmid := main_no_mid hinv hold
    have han := armed_none hinv (by rw [hpc]; rfl)
    obtain ⟨hst, hfr⟩ := abs_outdate f hinv hold
    cases v with
    | true =>
      have hlt : ∀ c ∈ f.cbs, c.1 < f.escGen := fun c hc => (hinv.g1 c hc).2 (by rw [hpc]; rfl)
      have hnf := nFresh_zero_of_lt hlt
      apply sim_stutter
      · simp [abs, absPs, absPc, hpc, hst, hfr, hnf]
      · simp [needArmed, han]
      · simp [pend, hpc]
    | false =>
      have hc := hcl _ hpc
      apply sim_one T f _ b [] .breakClose false [.eof]
      · simp [Sys.step, abs, absPs, absPc, hpc, hmid, hc, finishing, Sys.outdate, hst, hfr]
      · simp [needArmed, han]
      · simp [pend, hpc]
  | unlock =>
    simp only [mainStep, hpc, Option.some.injEq, Prod.mk.injEq] at h; obtain ⟨rfl, rfl⟩ := h
    apply sim_stutter
    · cases v <;> simp [abs, absPs, absPc, hpc]
    · simpa [needArmed] using hb'
    · cases v <;> simp [pend, hpc]
  | emit =>
    simp only [mainStep, hpc, Option.some.injEq, Prod.mk.injEq] at h; obtain ⟨rfl, rfl⟩ := h
    apply sim_stutter
    · cases v <;> simp [abs, absPs, absPc, hpc]
    · simpa [needArmed] using hb'
    · cases v <;> simp [pend, hpc]
  | close =>
    simp only [mainStep, hpc, Option.some.injEq, Prod.mk.injEq] at h; obtain ⟨rfl, rfl⟩ := h
    apply sim_stutter
    · cases v <;> simp [abs, absPs, absPc, hpc]
    · simpa [needArmed] using hb'
    · cases v <;> simp [pend, hpc]

theorem sim_main (T : Table) (hT : TimerOk T) (f f' : FSys) (o : List Seq) (b : Bool)
    (hb : needArmed T f = true → b = true) (hinv : FInv f) (hcl : CInv f) (h : mainStep T f = some (f', o)) :
    Sim T f f' b o := by
  cases hpc : f.mpc with
  | atSelect => exact sim_select T f f' o b hb hpc h
  | inRead => simp [mainStep, hpc] at h
  | readDone i => exact sim_stop T f f' o b i hpc h
  | stopped i => exact sim_lock T f f' o b hb i hpc h
  | locked i => exact sim_bump T hT f f' o b hinv i hpc h
  | bumped i => exact sim_anywhere T f f' o b hb hinv i hpc h
  | stepped stop => exact sim_unlock T f f' o b hb stop hpc h
  | fin st v => exact sim_fin T f f' o b hb hinv hcl st v hpc h
  | done => simp [mainStep, hpc] at h

theorem not_bumped_of_armedOk {pc : MPc} (h : armedOk pc = true) : ∀ i, pc ≠ .bumped i := by
  intro i hi; subst hi; cases h

theorem sim_expire (T : Table) (f : FSys) (b : Bool) (hb : needArmed T f = true → b = true) (hinv : FInv f)
    (g : Nat) (ha : f.armed = some g) :
    Sim T f { f with armed := none, cbs := f.cbs ++ [(g, .started)] } b [] := by
  obtain ⟨hg, hok⟩ := hinv.g2 g ha
  have hbt : b = true := hb (by simp [needArmed, ha])
  have hnb := not_bumped_of_armedOk hok
  have hps : ∀ l, absPs T { f with armed := none, cbs := l } = if 0 < nMid l then timerReset true f.ps else f.ps := by
    intro l; cases hpc : f.mpc <;> simp_all [absPs]
  have hps0 : absPs T f = if 0 < nMid f.cbs then timerReset true f.ps else f.ps := by
    cases hpc : f.mpc <;> simp_all [absPs]
  have hpcE : absPc T { f with armed := none, cbs := f.cbs ++ [(g, .started)] } = absPc T f := by
    cases hpc : f.mpc <;> simp_all [absPc]
  have hpend : pend T { f with armed := none, cbs := f.cbs ++ [(g, .started)] } = pend T f := by
    cases hpc : f.mpc <;> simp_all [pend]
  have hn1 : nMid (f.cbs ++ [(g, .started)]) = nMid f.cbs := by simp [nMid, List.countP_append, mid]
  have hn2 : nStale f.escGen (f.cbs ++ [(g, .started)]) = nStale f.escGen f.cbs := by
    simp [nStale, List.countP_append, hg]
  have hn3 : 0 < nFresh f.escGen (f.cbs ++ [(g, .started)]) := by
    simp [nFresh, List.countP_append, hg, pre3]
  apply sim_one T f _ b [] .timerExpire false []
  · simp only [Sys.step, abs, hbt, if_true, Option.some.injEq, Prod.mk.injEq, and_true]
    rw [hps, hps0, hpcE, hn1, hn2]
    simp [hn3]
  · have : ∀ i, f.mpc ≠ .bumped i := hnb
    cases hpc : f.mpc <;> simp_all [needArmed]
  · rw [hpend]; simp

/-! callbacks: while a callback can move, the main goroutine is not between its Lock and Unlock -/

def absPcNB : MPc → Pc
  | .atSelect => .atSelect
  | .inRead | .readDone _ | .stopped _ | .locked _ => .inRead
  | .bumped _ => .done
  | .stepped stop => if stop then .done else .atSelect
  | .fin st v => if v then .done else (match st with | .stop | .lock | .bump => .atSelect | _ => .done)
  | .done => .done

def pendNB : MPc → List Seq
  | .stepped true => [.eof]
  | .fin .stop true | .fin .lock true | .fin .bump true | .fin .unlock _ | .fin .emit _ => [.eof]
  | _ => []

theorem abs_nb (T : Table) (f : FSys) (b : Bool) (h : holdsMain f.mpc = false) :
    abs T f b = ⟨if 0 < nMid f.cbs then timerReset true f.ps else f.ps, absPcNB f.mpc, b, f.closeReq,
      decide (absPcNB f.mpc = .done), decide (0 < nFresh f.escGen f.cbs), nStale f.escGen f.cbs⟩ ∧
    pend T f = pendNB f.mpc ∧ needArmed T f = f.armed.isSome := by
  cases hpc : f.mpc <;> simp_all [abs, absPs, absPc, absPcNB, pend, pendNB, needArmed, holdsMain]
  all_goals (rename_i st v; cases st <;> cases v <;> simp_all)

/-- Outside the strict places nothing is pending. -/
theorem pendNB_nil {pc : MPc} (h1 : strict pc = false) : pendNB pc = [] := by
  cases pc with
  | stepped b => cases b <;> simp_all [strict, pendNB]
  | fin st v => cases st <;> cases v <;> simp_all [strict, pendNB]
  | _ => simp_all [strict, pendNB]

theorem timerReset_idem (ps : PState) (h1 : ps.state = .ground) (h2 : ps.ignoreST = false) :
    timerReset true ps = ps := by
  cases ps; simp_all [timerReset]

/-- A callback statement that leaves the three counters and the (abstract) parser state alone. -/
theorem sim_cb_stutter (T : Table) (f : FSys) (b : Bool) (hb : needArmed T f = true → b = true)
    (hnh : holdsMain f.mpc = false) (ps' : PState) (m' : Option Owner) (l' : Cbs)
    (h1 : nFresh f.escGen l' = nFresh f.escGen f.cbs) (h2 : nStale f.escGen l' = nStale f.escGen f.cbs)
    (h3 : (if 0 < nMid l' then timerReset true ps' else ps') = (if 0 < nMid f.cbs then timerReset true f.ps else f.ps)) :
    Sim T f { f with ps := ps', mutex := m', cbs := l' } b [] := by
  obtain ⟨e1, e2, e3⟩ := abs_nb T f b hnh
  obtain ⟨e1', e2', e3'⟩ := abs_nb T { f with ps := ps', mutex := m', cbs := l' } b hnh
  apply sim_stutter
  · rw [e1, e1']; simp only [h1, h2, h3]
  · rw [e3']; rw [e3] at hb; exact hb
  · rw [e2, e2']; simp

theorem sim_cb (T : Table) (f f' : FSys) (o : List Seq) (i : Nat) (b : Bool) (hb : needArmed T f = true → b = true)
    (hinv : FInv f) (h : cbStep f i = some (f', o)) : Sim T f f' b o := by
  unfold cbStep at h
  split at h
  · cases h
  · rename_i g pc hi
    have hmem : (g, pc) ∈ f.cbs := List.mem_of_getElem? hi
    cases pc with
    | started =>
      simp only at h
      split at h
      · rename_i hm
        simp only [Option.some.injEq, Prod.mk.injEq] at h; obtain ⟨rfl, rfl⟩ := h
        have hnh : holdsMain f.mpc = false := by
          cases hh : holdsMain f.mpc with
          | false => rfl
          | true => have := hinv.m1.mpr hh; rw [hm] at this; cases this
        have s1 := nFresh_set f.escGen f.cbs i g _ .locked hi
        have s2 := nStale_set f.escGen f.cbs i g _ .locked hi
        have s3 := nMid_set f.cbs i g _ .locked hi
        simp only [pre3, pre2, mid] at s1 s2 s3
        have := sim_cb_stutter T f b hb hnh f.ps (some .cb) (f.cbs.set i (g, .locked)) (by omega) (by omega)
          (by rw [show nMid (f.cbs.set i (g, .locked)) = nMid f.cbs by omega])
        simpa using this
      · cases h
    | locked =>
      simp only [Option.some.injEq, Prod.mk.injEq] at h; obtain ⟨rfl, rfl⟩ := h
      obtain ⟨hm, hnh, hn1⟩ := cb_excl f hinv i g _ hi rfl
      by_cases hge : g = f.escGen
      · subst hge
        have s1 := nFresh_set f.escGen f.cbs i f.escGen _ .passed hi
        have s2 := nStale_set f.escGen f.cbs i f.escGen _ .passed hi
        have s3 := nMid_set f.cbs i f.escGen _ .passed hi
        simp [pre3, pre2, mid] at s1 s2 s3
        have := sim_cb_stutter T f b hb hnh f.ps f.mutex (f.cbs.set i (f.escGen, .passed)) (by omega) (by omega)
          (by rw [show nMid (f.cbs.set i (f.escGen, .passed)) = nMid f.cbs by omega])
        simpa using this
      · have s1 := nFresh_set f.escGen f.cbs i g _ .failed hi
        have s2 := nStale_set f.escGen f.cbs i g _ .failed hi
        have s3 := nMid_set f.cbs i g _ .failed hi
        simp [pre3, pre2, mid, hge] at s1 s2 s3
        obtain ⟨e1, e2, e3⟩ := abs_nb T f b hnh
        obtain ⟨e1', e2', e3'⟩ := abs_nb T { f with cbs := f.cbs.set i (g, .failed) } b hnh
        simp only [hge, if_false]
        apply sim_one T f _ b [] (.cbRun false) b []
        · rw [e1, e1']
          simp only [Sys.step, Cfg.fixed, if_true]
          rw [if_pos (by omega)]
          simp only [Option.some.injEq, Prod.mk.injEq, and_true]
          rw [s1, s3, ← s2]; simp
        · rw [e3']; rw [e3] at hb; exact hb
        · rw [e2, e2']; simp
    | passed =>
      simp only [Option.some.injEq, Prod.mk.injEq] at h; obtain ⟨rfl, rfl⟩ := h
      obtain ⟨hm, hnh, hn1⟩ := cb_excl f hinv i g _ hi rfl
      have hge : g = f.escGen := hinv.p1 _ hmem rfl
      subst hge
      have hns : strict f.mpc = false := by
        cases hs : strict f.mpc with
        | false => rfl
        | true => have := (hinv.g1 _ hmem).2 hs; simp only at this; omega
      have hcc : f.chanClosed = false := by
        cases hc : f.chanClosed with
        | false => rfl
        | true => have := hinv.c1 hc; rw [this] at hns; cases hns
      have s1 := nFresh_set f.escGen f.cbs i f.escGen _ .emitted hi
      have s2 := nStale_set f.escGen f.cbs i f.escGen _ .emitted hi
      have s3 := nMid_set f.cbs i f.escGen _ .emitted hi
      have s4 := nCrit_set f.cbs i f.escGen _ .gone hi
      have s5 := nMid_set f.cbs i f.escGen _ .gone hi
      have s6 := nMid_le_nCrit (f.cbs.set i (f.escGen, .gone))
      have hu1 := hinv.u1
      simp [pre3, pre2, mid, crit] at s1 s2 s3 s4 s5
      have hmid0 : nMid f.cbs = 0 := by omega
      obtain ⟨e1, e2, e3⟩ := abs_nb T f b hnh
      obtain ⟨e1', e2', e3'⟩ := abs_nb T { f with cbs := f.cbs.set i (f.escGen, .emitted) } b hnh
      have hout : (if f.chanClosed = true then Seq.panic else Seq.c0 0x1B) = Seq.c0 0x1B := by simp [hcc]
      rw [hout]
      apply sim_one T f _ b [.c0 0x1B] (.cbRun true) b [.c0 0x1B]
      · rw [e1, e1']
        simp only [Sys.step, Cfg.fixed]
        rw [if_pos (by simp; omega)]
        simp only [Option.some.injEq, Prod.mk.injEq]
        rw [s3, s2, hmid0, show nFresh f.escGen (f.cbs.set i (f.escGen, .emitted)) = 0 by omega]
        simp
      · rw [e3']; rw [e3] at hb; exact hb
      · rw [e2, e2']; simp [pendNB_nil hns]
    | emitted =>
      simp only [Option.some.injEq, Prod.mk.injEq] at h; obtain ⟨rfl, rfl⟩ := h
      obtain ⟨hm, hnh, hn1⟩ := cb_excl f hinv i g _ hi rfl
      have s1 := nFresh_set f.escGen f.cbs i g _ .stateSet hi
      have s2 := nStale_set f.escGen f.cbs i g _ .stateSet hi
      have s3 := nMid_set f.cbs i g _ .stateSet hi
      simp [pre3, pre2, mid] at s1 s2 s3
      have hpos : 0 < nMid f.cbs := List.countP_pos_iff.mpr ⟨_, hmem, rfl⟩
      have := sim_cb_stutter T f b hb hnh { f.ps with state := .ground } f.mutex (f.cbs.set i (g, .stateSet)) s1 s2
        (by rw [s3]; simp [hpos, timerReset])
      simpa using this
    | stateSet =>
      simp only [Option.some.injEq, Prod.mk.injEq] at h; obtain ⟨rfl, rfl⟩ := h
      obtain ⟨hm, hnh, hn1⟩ := cb_excl f hinv i g _ hi rfl
      have s1 := nFresh_set f.escGen f.cbs i g _ .stSet hi
      have s2 := nStale_set f.escGen f.cbs i g _ .stSet hi
      have s3 := nMid_set f.cbs i g _ .stSet hi
      simp [pre3, pre2, mid] at s1 s2 s3
      have hpos : 0 < nMid f.cbs := List.countP_pos_iff.mpr ⟨_, hmem, rfl⟩
      have := sim_cb_stutter T f b hb hnh { f.ps with ignoreST := false } f.mutex (f.cbs.set i (g, .stSet)) s1 s2
        (by rw [s3]; simp [hpos, timerReset])
      simpa using this
    | stSet =>
      simp only [Option.some.injEq, Prod.mk.injEq] at h; obtain ⟨rfl, rfl⟩ := h
      obtain ⟨hm, hnh, hn1⟩ := cb_excl f hinv i g _ hi rfl
      have s1 := nFresh_set f.escGen f.cbs i g _ .gone hi
      have s2 := nStale_set f.escGen f.cbs i g _ .gone hi
      have s3 := nMid_set f.cbs i g _ .gone hi
      have s4 := nCrit_set f.cbs i g _ .gone hi
      have s6 := nMid_le_nCrit (f.cbs.set i (g, .gone))
      simp [pre3, pre2, mid, crit] at s1 s2 s3 s4
      have hpos : 0 < nMid f.cbs := List.countP_pos_iff.mpr ⟨_, hmem, rfl⟩
      have hp2 := (hinv.p2 _ hmem).2 rfl
      have := sim_cb_stutter T f b hb hnh f.ps none (f.cbs.set i (g, .gone)) s1 s2
        (by rw [show nMid (f.cbs.set i (g, .gone)) = 0 by omega]; simp [hpos, timerReset_idem f.ps hp2.1 hp2.2])
      simpa using this
    | failed =>
      simp only [Option.some.injEq, Prod.mk.injEq] at h; obtain ⟨rfl, rfl⟩ := h
      obtain ⟨hm, hnh, hn1⟩ := cb_excl f hinv i g _ hi rfl
      have s1 := nFresh_set f.escGen f.cbs i g _ .gone hi
      have s2 := nStale_set f.escGen f.cbs i g _ .gone hi
      have s3 := nMid_set f.cbs i g _ .gone hi
      simp [pre3, pre2, mid] at s1 s2 s3
      have := sim_cb_stutter T f b hb hnh f.ps none (f.cbs.set i (g, .gone)) s1 s2 (by rw [s3])
      simpa using this
    | gone => cases h

/-- **One statement of the statement-grained system is zero or one step of the atomic system.** -/
theorem sim_step (T : Table) (hT : TimerOk T) (f f' : FSys) (l : FLabel) (o : List Seq) (b : Bool)
    (hb : needArmed T f = true → b = true) (hinv : FInv f) (hcl : CInv f)
    (h : FSys.step T f l = some (f', o)) : Sim T f f' b o := by
  cases l with
  | closeSig =>
    simp only [FSys.step, Option.some.injEq, Prod.mk.injEq] at h; obtain ⟨rfl, rfl⟩ := h
    apply sim_one T f _ b [] .closeSig b []
    · cases hpc : f.mpc <;> simp [Sys.step, abs, absPs, absPc, hpc]
    · cases hpc : f.mpc <;> simpa [needArmed, hpc] using hb
    · cases hpc : f.mpc <;> simp [pend, hpc]
  | readRet i =>
    simp only [FSys.step] at h
    split at h
    · rename_i hpc
      simp only [Option.some.injEq, Prod.mk.injEq] at h; obtain ⟨rfl, rfl⟩ := h
      apply sim_stutter
      · simp [abs, absPs, absPc, hpc]
      · simpa [needArmed, hpc] using hb
      · simp [pend, hpc]
    · cases h
  | main => exact sim_main T hT f f' o b hb hinv hcl h
  | expire =>
    simp only [FSys.step] at h
    split at h
    · rename_i g ha
      simp only [Option.some.injEq, Prod.mk.injEq] at h; obtain ⟨rfl, rfl⟩ := h
      exact sim_expire T f b hb hinv g ha
    · cases h
  | cb i => exact sim_cb T f f' o i b hb hinv h

theorem run_append (T : Table) (c : Cfg) (ls1 ls2 : List Label) (s s1 s2 : Sys) (o1 o2 : List Seq)
    (h1 : Sys.run T c s ls1 = some (s1, o1)) (h2 : Sys.run T c s1 ls2 = some (s2, o2)) :
    Sys.run T c s (ls1 ++ ls2) = some (s2, o1 ++ o2) := by
  induction ls1 generalizing s o1 with
  | nil =>
    simp only [Sys.run, Option.some.injEq, Prod.mk.injEq] at h1; obtain ⟨rfl, rfl⟩ := h1
    simpa using h2
  | cons l ls ih =>
    simp only [Sys.run] at h1
    cases hs : Sys.step T c s l with
    | none => simp [hs] at h1
    | some r =>
      obtain ⟨s', o'⟩ := r
      simp only [hs] at h1
      cases hr : Sys.run T c s' ls with
      | none => simp [hr] at h1
      | some r2 =>
        obtain ⟨s'', o''⟩ := r2
        simp only [hr, Option.some.injEq, Prod.mk.injEq] at h1; obtain ⟨rfl, rfl⟩ := h1
        have := ih s' o'' hr
        simp [Sys.run, hs, this, List.append_assoc]

/-- **Refinement.**  Every run of the statement-grained system from a state satisfying the invariants is
    matched by a run of the atomic system between the corresponding abstract states, with the same
    output up to what the atomic system has emitted ahead (`pend`). -/
theorem run_sim (T : Table) (hT : TimerOk T) (fls : List FLabel) (f f' : FSys) (o : List Seq) (b : Bool)
    (hb : needArmed T f = true → b = true) (hinv : FInv f) (hcl : CInv f)
    (h : FSys.run T f fls = some (f', o)) :
    ∃ ls b' o', Sys.run T Cfg.fixed (abs T f b) ls = some (abs T f' b', o') ∧
      (needArmed T f' = true → b' = true) ∧ pend T f ++ o' = o ++ pend T f' := by
  induction fls generalizing f o b with
  | nil =>
    simp only [FSys.run, Option.some.injEq, Prod.mk.injEq] at h; obtain ⟨rfl, rfl⟩ := h
    exact ⟨[], b, [], rfl, hb, by simp⟩
  | cons l fls ih =>
    simp only [FSys.run] at h
    cases h1 : FSys.step T f l with
    | none => simp [h1] at h
    | some r1 =>
      obtain ⟨f1, o1⟩ := r1
      simp only [h1] at h
      cases h2 : FSys.run T f1 fls with
      | none => simp [h2] at h
      | some r2 =>
        obtain ⟨f2, o2⟩ := r2
        simp only [h2, Option.some.injEq, Prod.mk.injEq] at h
        obtain ⟨rfl, rfl⟩ := h
        obtain ⟨ls1, b1, oa1, hr1, hb1, hp1⟩ := sim_step T hT f f1 l o1 b hb hinv hcl h1
        obtain ⟨ls2, b2, oa2, hr2, hb2, hp2⟩ := ih f1 o2 b1 hb1 (step_inv T hT f f1 l o1 hinv h1)
          (step_CInv T f f1 l o1 hcl h1) h2
        refine ⟨ls1 ++ ls2, b2, oa1 ++ oa2, run_append T _ ls1 ls2 _ _ _ _ _ hr1 hr2, hb2, ?_⟩
        rw [← List.append_assoc, hp1, List.append_assoc, hp2, List.append_assoc]

theorem abs_init (T : Table) : abs T FSys.init false = Sys.init := by
  simp [abs, absPs, absPc, FSys.init, Sys.init, nMid, nFresh, nStale]

/-! ### reachable states -/

/-- The ESC arm of `anywhere` returns `escape`, not nil. -/
theorem handTable_timerOk : TimerOk handTable := by
  intro ps r hs
  rw [startsTimer_hand]
  by_cases hr : r = 0x1B
  · subst hr
    exfalso
    cases he : ps.exit with
    | none => have := VaxisModel.Lemmas.Parser.pstep_esc ps he; simp only [pstep] at this; rw [this] at hs; cases hs
    | some f => have := VaxisModel.Lemmas.Parser.pstep_esc_exit ps f he; simp only [pstep] at this; rw [this] at hs; cases hs
  · simp [hr]

/-- Everything reachable from the initial state satisfies the invariants and is matched by an atomic run. -/
theorem reach_sim (T : Table) (hT : TimerOk T) (fls : List FLabel) (f : FSys) (out : List Seq)
    (h : FSys.run T FSys.init fls = some (f, out)) :
    FInv f ∧ CInv f ∧ ∃ ls b oa, Sys.run T Cfg.fixed Sys.init ls = some (abs T f b, oa) ∧
      (needArmed T f = true → b = true) ∧ oa = out ++ pend T f := by
  refine ⟨run_inv T hT fls _ f out FInv_init h, ?_, ?_⟩
  · clear hT
    have : ∀ (fls : List FLabel) (f0 f : FSys) (out : List Seq), CInv f0 → FSys.run T f0 fls = some (f, out) → CInv f := by
      intro fls
      induction fls with
      | nil => intro f0 f out h0 h; simp only [FSys.run, Option.some.injEq, Prod.mk.injEq] at h; obtain ⟨rfl, _⟩ := h; exact h0
      | cons l fls ih =>
        intro f0 f out h0 h
        simp only [FSys.run] at h
        cases h1 : FSys.step T f0 l with
        | none => simp [h1] at h
        | some r1 =>
          obtain ⟨f1, o1⟩ := r1
          simp only [h1] at h
          cases h2 : FSys.run T f1 fls with
          | none => simp [h2] at h
          | some r2 =>
            obtain ⟨f2, o2⟩ := r2
            simp only [h2, Option.some.injEq, Prod.mk.injEq] at h
            obtain ⟨rfl, _⟩ := h
            exact ih f1 f2 o2 (step_CInv T f0 f1 l o1 h0 h1) h2
    exact this fls _ f out CInv_init h
  · obtain ⟨ls, b, oa, h1, h2, h3⟩ := run_sim T hT fls FSys.init f out false (by simp [needArmed, FSys.init])
      FInv_init CInv_init h
    rw [abs_init] at h1
    refine ⟨ls, b, oa, h1, h2, ?_⟩
    simpa [pend, FSys.init] using h3

/-- Where the atomic system has finished, what it is ahead by ends with the EOF — or nothing is
    pending and the EOF has been sent. -/
theorem absPc_done_pend (T : Table) (f : FSys) (h : absPc T f = .done) :
    (pend T f = [] ∧ ((∃ v, f.mpc = .fin .close v) ∨ f.mpc = .done)) ∨ ∃ X, pend T f = X ++ [.eof] := by
  cases hpc : f.mpc with
  | bumped i =>
    right
    simp only [absPc, hpc] at h
    split at h
    · rename_i hs; exact ⟨(VaxisModel.Model.Parser.step T f.ps i).out, by simp [pend, hpc, hs]⟩
    · cases h
  | stepped stop =>
    cases stop with
    | true => right; exact ⟨[], by simp [pend, hpc]⟩
    | false => simp [absPc, hpc] at h
  | fin st v =>
    cases st with
    | close => left; exact ⟨by simp [pend, hpc], Or.inl ⟨_, rfl⟩⟩
    | unlock => right; exact ⟨[], by simp [pend, hpc]⟩
    | emit => right; exact ⟨[], by simp [pend, hpc]⟩
    | stop => cases v with
      | true => right; exact ⟨[], by simp [pend, hpc]⟩
      | false => simp [absPc, hpc] at h
    | lock => cases v with
      | true => right; exact ⟨[], by simp [pend, hpc]⟩
      | false => simp [absPc, hpc] at h
    | bump => cases v with
      | true => right; exact ⟨[], by simp [pend, hpc]⟩
      | false => simp [absPc, hpc] at h
  | done => left; exact ⟨by simp [pend, hpc], Or.inr rfl⟩
  | _ => simp [absPc, hpc] at h

theorem pend_quiescent (T : Table) (f : FSys) (h : f.mpc = .atSelect ∨ f.mpc = .inRead ∨ f.mpc = .done) :
    pend T f = [] := by
  rcases h with h | h | h <;> simp [pend, h]

/-- Once the channel is closed no statement of any goroutine emits. -/
theorem closed_step_silent (T : Table) (f f' : FSys) (l : FLabel) (o : List Seq) (hinv : FInv f)
    (hc : f.chanClosed = true) (h : FSys.step T f l = some (f', o)) : o = [] ∧ f'.chanClosed = true := by
  have hd := hinv.c1 hc
  cases l with
  | closeSig => simp only [FSys.step, Option.some.injEq, Prod.mk.injEq] at h; obtain ⟨rfl, rfl⟩ := h; exact ⟨rfl, hc⟩
  | readRet i => simp [FSys.step, hd] at h
  | main => simp [FSys.step, mainStep, hd] at h
  | expire =>
    have := armed_none hinv (by rw [hd]; rfl)
    simp [FSys.step, this] at h
  | cb i =>
    simp only [FSys.step] at h
    unfold cbStep at h
    split at h
    · cases h
    · rename_i g pc hi
      have hmem : (g, pc) ∈ f.cbs := List.mem_of_getElem? hi
      cases pc <;> simp only at h
      case started =>
        split at h
        · simp only [Option.some.injEq, Prod.mk.injEq] at h; obtain ⟨rfl, rfl⟩ := h; exact ⟨rfl, hc⟩
        · cases h
      case passed =>
        exfalso
        have h1 := hinv.p1 _ hmem rfl
        have h2 := (hinv.g1 _ hmem).2 (by rw [hd]; rfl)
        simp only at h1 h2; omega
      case gone => cases h
      all_goals (simp only [Option.some.injEq, Prod.mk.injEq] at h; obtain ⟨rfl, rfl⟩ := h; exact ⟨rfl, hc⟩)

/-- A callback that is about to report the Escape key: it holds the mutex, saw the current
    generation, the channel is open — and (atomic invariant) the parser is in the escape state. -/
theorem esc_report_state (f : FSys) (hinv : FInv f) (i g : Nat) (hi : f.cbs[i]? = some (g, .passed))
    (b : Bool) (hs : SInv (abs handTable f b)) :
    f.mutex = some .cb ∧ g = f.escGen ∧ f.chanClosed = false ∧ f.ps.state = .escape := by
  have hmem : (g, CbPc.passed) ∈ f.cbs := List.mem_of_getElem? hi
  obtain ⟨hm, hnh, hn1⟩ := cb_excl f hinv i g _ hi rfl
  have hge : g = f.escGen := hinv.p1 _ hmem rfl
  subst hge
  have hns : strict f.mpc = false := by
    cases hs : strict f.mpc with
    | false => rfl
    | true => have := (hinv.g1 _ hmem).2 hs; simp only at this; omega
  have hcc : f.chanClosed = false := by
    cases hc : f.chanClosed with
    | false => rfl
    | true => have := hinv.c1 hc; rw [this] at hns; cases hns
  refine ⟨hm, rfl, hcc, ?_⟩
  have s4 := nCrit_set f.cbs i f.escGen _ .gone hi
  have s5 := nMid_set f.cbs i f.escGen _ .gone hi
  have s6 := nMid_le_nCrit (f.cbs.set i (f.escGen, .gone))
  simp [mid, crit] at s4 s5
  have hmid0 : nMid f.cbs = 0 := by omega
  have hfr : 0 < nFresh f.escGen f.cbs := List.countP_pos_iff.mpr ⟨_, hmem, by simp [pre3]⟩
  obtain ⟨e1, _, _⟩ := abs_nb handTable f b hnh
  rw [e1] at hs
  have hnd : absPcNB f.mpc ≠ .done := by
    cases hpc : f.mpc with
    | stepped sb => rw [hpc] at hns; cases sb <;> simp_all [strict, absPcNB]
    | fin st v => rw [hpc] at hns; cases st <;> cases v <;> simp_all [strict, absPcNB]
    | done => rw [hpc] at hns; cases hns
    | bumped i => rw [hpc] at hns; cases hns
    | _ => simp [absPcNB]
  have := (hs hnd).2.1 (Or.inr (by simp [hfr]))
  simpa [hmid0] using this

/-- A callback inside its critical section can always take its next statement. -/
theorem crit_cb_enabled (f : FSys) (i g : Nat) (pc : CbPc) (hi : f.cbs[i]? = some (g, pc)) (hc : crit pc = true) :
    (cbStep f i).isSome = true := by
  unfold cbStep
  rw [hi]
  cases pc <;> simp_all [crit]

/-- The mutex is never held for ever: if the main goroutine is not blocked in the read and not
    finished, either its next statement is enabled or the callback that holds the mutex can move. -/
theorem no_deadlock (T : Table) (f : FSys) (hinv : FInv f) (h1 : f.mpc ≠ .inRead) (h2 : f.mpc ≠ .done) :
    (mainStep T f).isSome = true ∨ ∃ i, (cbStep f i).isSome = true := by
  by_cases hm : f.mutex = none
  · left
    cases hpc : f.mpc with
    | fin st v => cases st <;> simp [mainStep, hpc, hm]
    | atSelect => simp only [mainStep, hpc]; split <;> rfl
    | _ => simp_all [mainStep]
  · by_cases hmm : f.mutex = some .main
    · left
      have hh := hinv.m1.mp hmm
      cases hpc : f.mpc with
      | fin st v => cases st <;> simp_all [mainStep, holdsMain]
      | _ => simp_all [mainStep, holdsMain]
    · right
      have hcb : f.mutex = some .cb := by
        cases hx : f.mutex with
        | none => exact absurd hx hm
        | some ow => cases ow with
          | main => exact absurd hx hmm
          | cb => rfl
      have hn := hinv.m2
      rw [if_pos hcb] at hn
      have hpos : 0 < nCrit f.cbs := by omega
      obtain ⟨c, hc, hcc⟩ := List.countP_pos_iff.mp hpos
      obtain ⟨i, hi⟩ := List.getElem?_of_mem hc
      exact ⟨i, crit_cb_enabled f i c.1 c.2 hi hcc⟩

/-! ### the converse: every atomic step is a schedule of statements (so the atomic system has no
    behaviour that the statement-grained one lacks) -/

/-- Quiescent: nobody holds the mutex, the main goroutine is at the `select`, blocked in the read, or
    finished, and every callback goroutine has either not locked yet or has returned. -/
structure Quiet (f : FSys) : Prop where
  mu : f.mutex = none
  pc : f.mpc = .atSelect ∨ f.mpc = .inRead ∨ f.mpc = .done
  cbs : ∀ c ∈ f.cbs, c.2 = .started ∨ c.2 = .gone

theorem Quiet.nocrit {f : FSys} (q : Quiet f) : ∀ c ∈ f.cbs, crit c.2 = false := by
  intro c hc; rcases q.cbs c hc with h | h <;> rw [h] <;> rfl

theorem Quiet.nMid {f : FSys} (q : Quiet f) : nMid f.cbs = 0 := by
  apply List.countP_eq_zero.mpr
  intro c hc; rcases q.cbs c hc with h | h <;> rw [h] <;> simp [mid]

theorem Quiet.holds {f : FSys} (q : Quiet f) : holdsMain f.mpc = false := by
  rcases q.pc with h | h | h <;> rw [h] <;> rfl

/-- The atomic state a quiescent state stands for (no slack in `armed` here). -/
def absQ (T : Table) (f : FSys) : Sys := abs T f f.armed.isSome

theorem absQ_eq (T : Table) (f : FSys) (q : Quiet f) :
    absQ T f = ⟨f.ps, absPcNB f.mpc, f.armed.isSome, f.closeReq, decide (absPcNB f.mpc = .done),
      decide (0 < nFresh f.escGen f.cbs), nStale f.escGen f.cbs⟩ := by
  have := (abs_nb T f f.armed.isSome q.holds).1
  rw [absQ, this, q.nMid]; simp

theorem run_CInv (T : Table) (fls : List FLabel) (f0 f : FSys) (out : List Seq) (h0 : CInv f0)
    (h : FSys.run T f0 fls = some (f, out)) : CInv f := by
  induction fls generalizing f0 out with
  | nil => simp only [FSys.run, Option.some.injEq, Prod.mk.injEq] at h; obtain ⟨rfl, _⟩ := h; exact h0
  | cons l fls ih =>
    simp only [FSys.run] at h
    cases h1 : FSys.step T f0 l with
    | none => simp [h1] at h
    | some r1 =>
      obtain ⟨f1, o1⟩ := r1
      simp only [h1] at h
      cases h2 : FSys.run T f1 fls with
      | none => simp [h2] at h
      | some r2 =>
        obtain ⟨f2, o2⟩ := r2
        simp only [h2, Option.some.injEq, Prod.mk.injEq] at h
        obtain ⟨rfl, _⟩ := h
        exact ih f1 o2 (step_CInv T f0 f1 l o1 h0 h1) h2

/-- What a step of the converse simulation has to deliver. -/
def Conv (T : Table) (f : FSys) (a' : Sys) (o : List Seq) : Prop :=
  ∃ fls f', FSys.run T f fls = some (f', o) ∧ Quiet f' ∧ a' = absQ T f'

theorem conv_closeSig (T : Table) (f : FSys) (q : Quiet f) :
    Conv T f { absQ T f with closeReq := true } [] := by
  have q' : Quiet { f with closeReq := true } := ⟨q.mu, q.pc, q.cbs⟩
  refine ⟨[.closeSig], { f with closeReq := true }, by simp [FSys.run, FSys.step], q', ?_⟩
  rw [absQ_eq T f q, absQ_eq T _ q']

theorem conv_enterRead (T : Table) (f : FSys) (q : Quiet f) (hpc : f.mpc = .atSelect) (hc : f.closeReq = false) :
    Conv T f { absQ T f with pc := .inRead } [] := by
  have q' : Quiet { f with mpc := .inRead } := ⟨q.mu, Or.inr (Or.inl rfl), q.cbs⟩
  refine ⟨[.main], { f with mpc := .inRead }, by simp [FSys.run, FSys.step, mainStep, hpc, hc], q', ?_⟩
  rw [absQ_eq T f q, absQ_eq T _ q']
  simp [hpc, absPcNB]

/-- Outdating, at a quiescent state. -/
theorem quiet_outdate (f : FSys) (hinv : FInv f) (q : Quiet f) :
    nStale (f.escGen + 1) f.cbs = nStale f.escGen f.cbs + (if decide (0 < nFresh f.escGen f.cbs) = true then 1 else 0) ∧
    nFresh (f.escGen + 1) f.cbs = 0 ∧ nStale (f.escGen + 1 + 1) f.cbs = nStale (f.escGen + 1) f.cbs ∧
    nFresh (f.escGen + 1 + 1) f.cbs = 0 := by
  obtain ⟨hst, hfr⟩ := outdate_count f.escGen f.cbs (fun c hc => (hinv.g1 c hc).1) q.nocrit
  obtain ⟨hst2, hfr2⟩ := outdate_count (f.escGen + 1) f.cbs (fun c hc => Nat.le_succ_of_le (hinv.g1 c hc).1) q.nocrit
  have hu1 := hinv.u1
  refine ⟨?_, hfr, by omega, hfr2⟩
  rw [hst]
  by_cases h : 0 < nFresh f.escGen f.cbs
  · simp [h]; omega
  · simp [h]; omega

theorem conv_read_go (T : Table) (f : FSys) (hinv : FInv f) (q : Quiet f) (hpc : f.mpc = .inRead) (i : Inp)
    (hstop : stops T f.ps i = false) :
    Conv T f { (absQ T f).outdate with ps := (VaxisModel.Model.Parser.step T f.ps i).st, pc := .atSelect, armed := arms T i }
      (VaxisModel.Model.Parser.step T f.ps i).out := by
  let f' : FSys := { f with ps := (VaxisModel.Model.Parser.step T f.ps i).st, escGen := f.escGen + 1, mpc := .atSelect,
                            armed := if arms T i then some (f.escGen + 1) else none }
  have q' : Quiet f' := ⟨q.mu, Or.inl rfl, q.cbs⟩
  obtain ⟨h1, h2, _, _⟩ := quiet_outdate f hinv q
  refine ⟨[.readRet i, .main, .main, .main, .main, .main], f', ?_, q', ?_⟩
  · simp [FSys.run, FSys.step, mainStep, hpc, q.mu, hstop, f']
  · rw [absQ_eq T f q, absQ_eq T f' q']
    simp only [f', Sys.outdate, hpc, absPcNB, h1, h2]
    cases arms T i <;> simp

theorem conv_read_stop (T : Table) (f : FSys) (hinv : FInv f) (q : Quiet f) (hpc : f.mpc = .inRead) (i : Inp)
    (hstop : stops T f.ps i = true) (harm : arms T i = false) :
    Conv T f (finishing (absQ T f) (VaxisModel.Model.Parser.step T f.ps i).st (VaxisModel.Model.Parser.step T f.ps i).out).1
      ((VaxisModel.Model.Parser.step T f.ps i).out ++ [.eof]) := by
  let f' : FSys := { f with ps := (VaxisModel.Model.Parser.step T f.ps i).st, escGen := f.escGen + 1 + 1, mpc := .done,
                            armed := none, chanClosed := true }
  have q' : Quiet f' := ⟨q.mu, Or.inr (Or.inr rfl), q.cbs⟩
  obtain ⟨h1, h2, h3, h4⟩ := quiet_outdate f hinv q
  refine ⟨[.readRet i, .main, .main, .main, .main, .main, .main, .main, .main, .main, .main, .main], f', ?_, q', ?_⟩
  · simp [FSys.run, FSys.step, mainStep, hpc, q.mu, hstop, harm, f']
  · rw [absQ_eq T f q, absQ_eq T f' q']
    simp [f', finishing, Sys.outdate, absPcNB, h1, h3, h4]

theorem conv_breakClose (T : Table) (f : FSys) (hinv : FInv f) (q : Quiet f) (hpc : f.mpc = .atSelect)
    (hc : f.closeReq = true) :
    Conv T f (finishing (absQ T f) f.ps []).1 [.eof] := by
  let f' : FSys := { f with escGen := f.escGen + 1, mpc := .done, armed := none, chanClosed := true }
  have q' : Quiet f' := ⟨q.mu, Or.inr (Or.inr rfl), q.cbs⟩
  obtain ⟨h1, h2, h3, h4⟩ := quiet_outdate f hinv q
  refine ⟨[.main, .main, .main, .main, .main, .main, .main], f', ?_, q', ?_⟩
  · simp [FSys.run, FSys.step, mainStep, hpc, q.mu, hc, f']
  · rw [absQ_eq T f q, absQ_eq T f' q']
    simp [f', finishing, Sys.outdate, absPcNB, h1, h2]

theorem getElem?_set_self_of {α} {l : List α} {k : Nat} {y : α} (x : α) (h : l[k]? = some y) :
    (l.set k x)[k]? = some x := by
  have hlt : k < l.length := (List.getElem?_eq_some_iff.mp h).1
  simp [hlt]

/-- A callback whose generation is current runs to completion from a quiescent state. -/
theorem cb_run_fresh (T : Table) (f : FSys) (k : Nat) (hk : f.cbs[k]? = some (f.escGen, .started)) (hm : f.mutex = none) :
    FSys.run T f [.cb k, .cb k, .cb k, .cb k, .cb k, .cb k] =
      some ({ f with ps := { f.ps with state := .ground, ignoreST := false }, cbs := f.cbs.set k (f.escGen, .gone) },
            [if f.chanClosed then .panic else .c0 0x1B]) := by
  have e1 := getElem?_set_self_of (f.escGen, CbPc.locked) hk
  have e2 := getElem?_set_self_of (f.escGen, CbPc.passed) hk
  have e3 := getElem?_set_self_of (f.escGen, CbPc.emitted) hk
  have e4 := getElem?_set_self_of (f.escGen, CbPc.stateSet) hk
  have e5 := getElem?_set_self_of (f.escGen, CbPc.stSet) hk
  simp [FSys.run, FSys.step, cbStep, hk, hm, e1, e2, e3, e4, e5, List.set_set]

/-- An out-of-date callback: Lock, failed check, Unlock. -/
theorem cb_run_stale (T : Table) (f : FSys) (k g : Nat) (hk : f.cbs[k]? = some (g, .started)) (hm : f.mutex = none)
    (hg : g ≠ f.escGen) :
    FSys.run T f [.cb k, .cb k, .cb k] = some ({ f with cbs := f.cbs.set k (g, .gone) }, []) := by
  have e1 := getElem?_set_self_of (g, CbPc.locked) hk
  have e2 := getElem?_set_self_of (g, CbPc.failed) hk
  simp [FSys.run, FSys.step, cbStep, hk, hm, e1, e2, hg, List.set_set]
theorem getElem?_concat_self {α} (l : List α) (x : α) : (l ++ [x])[l.length]? = some x := by simp

theorem set_concat_self {α} (l : List α) (x y : α) : (l ++ [x]).set l.length y = l ++ [y] := by
  induction l with
  | nil => rfl
  | cons a l ih => simp [ih]

theorem quiet_set (f : FSys) (q : Quiet f) (k g : Nat) :
    ∀ c ∈ f.cbs.set k (g, .gone), c.2 = .started ∨ c.2 = .gone :=
  forall_set _ _ _ _ q.cbs (Or.inr rfl)

theorem conv_timerExpire (T : Table) (f : FSys) (hinv : FInv f) (q : Quiet f) (ha : f.armed.isSome = true) :
    Conv T f { absQ T f with armed := false, fresh := true } [] := by
  cases hg : f.armed with
  | none => rw [hg] at ha; cases ha
  | some g =>
    have hge := (hinv.g2 g hg).1
    let f' : FSys := { f with armed := none, cbs := f.cbs ++ [(g, .started)] }
    have q' : Quiet f' := ⟨q.mu, q.pc, fun c hc => by
      rcases List.mem_append.mp hc with h | h
      · exact q.cbs c h
      · simp only [List.mem_singleton] at h; subst h; exact Or.inl rfl⟩
    refine ⟨[.expire], f', by simp [FSys.run, FSys.step, hg, f'], q', ?_⟩
    rw [absQ_eq T f q, absQ_eq T f' q']
    have hn2 : nStale f.escGen (f.cbs ++ [(g, .started)]) = nStale f.escGen f.cbs := by
      simp [nStale, List.countP_append, hge]
    have hn3 : 0 < nFresh f.escGen (f.cbs ++ [(g, .started)]) := by
      simp [nFresh, List.countP_append, hge, pre3]
    simp [f', hn2, hn3]

theorem conv_timerFire (T : Table) (f : FSys) (hinv : FInv f) (q : Quiet f) (ha : f.armed.isSome = true)
    (hpc : f.mpc = .inRead) :
    Conv T f { absQ T f with ps := timerReset true (absQ T f).ps, armed := false } [.c0 0x1B] := by
  cases hg : f.armed with
  | none => rw [hg] at ha; cases ha
  | some g =>
    have hge := (hinv.g2 g hg).1
    subst hge
    have hcc : f.chanClosed = false := by
      cases hc : f.chanClosed with
      | false => rfl
      | true => have := hinv.c1 hc; rw [hpc] at this; cases this
    let f1 : FSys := { f with armed := none, cbs := f.cbs ++ [(f.escGen, .started)] }
    let f' : FSys := { f with ps := { f.ps with state := .ground, ignoreST := false }, armed := none,
                              cbs := f.cbs ++ [(f.escGen, .gone)] }
    have q' : Quiet f' := ⟨q.mu, q.pc, fun c hc => by
      rcases List.mem_append.mp hc with h | h
      · exact q.cbs c h
      · simp only [List.mem_singleton] at h; subst h; exact Or.inr rfl⟩
    have hrun := cb_run_fresh T f1 f.cbs.length (getElem?_concat_self _ _) q.mu
    refine ⟨[.expire, .cb f.cbs.length, .cb f.cbs.length, .cb f.cbs.length, .cb f.cbs.length, .cb f.cbs.length,
      .cb f.cbs.length], f', ?_, q', ?_⟩
    · rw [FSys.run]
      simp only [FSys.step, hg]
      rw [show ({ f with armed := none, cbs := f.cbs ++ [(f.escGen, CbPc.started)] } : FSys) = f1 from rfl, hrun]
      simp [f1, f', hcc]
    · rw [absQ_eq T f q, absQ_eq T f' q']
      have hn1 : nFresh f.escGen (f.cbs ++ [(f.escGen, .gone)]) = nFresh f.escGen f.cbs := by
        simp [nFresh, List.countP_append, pre3]
      have hn2 : nStale f.escGen (f.cbs ++ [(f.escGen, .gone)]) = nStale f.escGen f.cbs := by
        simp [nStale, List.countP_append]
      simp [f', hn1, hn2, timerReset]

theorem conv_cbRun_fresh (T : Table) (f : FSys) (hinv : FInv f) (q : Quiet f)
    (hf : 0 < nFresh f.escGen f.cbs) :
    Conv T f { absQ T f with ps := timerReset true (absQ T f).ps, fresh := false } [.c0 0x1B] := by
  obtain ⟨c, hc, hp⟩ := List.countP_pos_iff.mp hf
  obtain ⟨g, pc⟩ := c
  simp only [Bool.and_eq_true, decide_eq_true_eq] at hp
  obtain ⟨hg, hp3⟩ := hp
  subst hg
  have hst : pc = .started := by
    rcases q.cbs _ hc with h | h
    · exact h
    · simp only at h; subst h; cases hp3
  subst hst
  obtain ⟨k, hk⟩ := List.getElem?_of_mem hc
  have hns : strict f.mpc = false := by
    cases hs : strict f.mpc with
    | false => rfl
    | true => have := (hinv.g1 _ hc).2 hs; simp only at this; omega
  have hcc : f.chanClosed = false := by
    cases hcl : f.chanClosed with
    | false => rfl
    | true => have := hinv.c1 hcl; rw [this] at hns; cases hns
  let f' : FSys := { f with ps := { f.ps with state := .ground, ignoreST := false }, cbs := f.cbs.set k (f.escGen, .gone) }
  have q' : Quiet f' := ⟨q.mu, q.pc, quiet_set f q k _⟩
  refine ⟨[.cb k, .cb k, .cb k, .cb k, .cb k, .cb k], f', ?_, q', ?_⟩
  · rw [cb_run_fresh T f k hk q.mu]; simp [f', hcc]
  · rw [absQ_eq T f q, absQ_eq T f' q']
    have s1 := nFresh_set f.escGen f.cbs k f.escGen _ .gone hk
    have s2 := nStale_set f.escGen f.cbs k f.escGen _ .gone hk
    have hu1 := hinv.u1
    simp [pre3, pre2] at s1 s2
    have : nFresh f.escGen (f.cbs.set k (f.escGen, .gone)) = 0 := by omega
    simp [f', this, s2, timerReset]

theorem conv_cbRun_stale (T : Table) (f : FSys) (q : Quiet f) (hs : 0 < nStale f.escGen f.cbs) :
    Conv T f { absQ T f with stale := (absQ T f).stale - 1 } [] := by
  obtain ⟨c, hc, hp⟩ := List.countP_pos_iff.mp hs
  obtain ⟨g, pc⟩ := c
  simp only [Bool.and_eq_true, Bool.not_eq_true', decide_eq_false_iff_not] at hp
  obtain ⟨hg, hp2⟩ := hp
  have hst : pc = .started := by
    rcases q.cbs _ hc with h | h
    · exact h
    · simp only at h; subst h; cases hp2
  subst hst
  obtain ⟨k, hk⟩ := List.getElem?_of_mem hc
  let f' : FSys := { f with cbs := f.cbs.set k (g, .gone) }
  have q' : Quiet f' := ⟨q.mu, q.pc, quiet_set f q k _⟩
  refine ⟨[.cb k, .cb k, .cb k], f', cb_run_stale T f k g hk q.mu hg, q', ?_⟩
  rw [absQ_eq T f q, absQ_eq T f' q']
  have s1 := nFresh_set f.escGen f.cbs k g _ .gone hk
  have s2 := nStale_set f.escGen f.cbs k g _ .gone hk
  simp [pre3, pre2, hg] at s1 s2
  simp [f', s1, ← s2]

theorem absQ_fields (T : Table) (f : FSys) (q : Quiet f) :
    (absQ T f).ps = f.ps ∧ (absQ T f).armed = f.armed.isSome ∧ (absQ T f).closeReq = f.closeReq ∧
    (absQ T f).fresh = decide (0 < nFresh f.escGen f.cbs) ∧ (absQ T f).stale = nStale f.escGen f.cbs ∧
    ((absQ T f).pc = .atSelect → f.mpc = .atSelect) ∧ ((absQ T f).pc = .inRead → f.mpc = .inRead) := by
  rw [absQ_eq T f q]
  refine ⟨rfl, rfl, rfl, rfl, rfl, ?_, ?_⟩
  · rcases q.pc with h | h | h <;> simp [h, absPcNB]
  · rcases q.pc with h | h | h <;> simp [h, absPcNB]

/-- **Every atomic step is a schedule of statements** between quiescent states. -/
theorem conv_step (T : Table) (hT : TimerOk T) (f : FSys) (hinv : FInv f) (q : Quiet f) (l : Label)
    (a' : Sys) (o : List Seq) (h : Sys.step T Cfg.fixed (absQ T f) l = some (a', o)) : Conv T f a' o := by
  obtain ⟨eps, ear, ecl, efr, est, epa, epi⟩ := absQ_fields T f q
  cases l with
  | closeSig =>
    simp only [Sys.step, Option.some.injEq, Prod.mk.injEq] at h; obtain ⟨rfl, rfl⟩ := h
    exact conv_closeSig T f q
  | enterRead =>
    simp only [Sys.step] at h
    split at h
    · rename_i hc
      simp only [Option.some.injEq, Prod.mk.injEq] at h; obtain ⟨rfl, rfl⟩ := h
      exact conv_enterRead T f q (epa hc.1) (by rw [← ecl]; exact hc.2)
    · cases h
  | breakClose =>
    simp only [Sys.step] at h
    split at h
    · rename_i hc
      simp only [Option.some.injEq] at h
      have := conv_breakClose T f hinv q (epa hc.1) (by rw [← ecl]; exact hc.2)
      rw [← eps, h] at this
      have h2 := congrArg Prod.snd h
      simp only [finishing, List.nil_append] at h2
      rw [← h2]; exact this
    · cases h
  | read r =>
    simp only [Sys.step] at h
    split at h
    · rename_i hc
      rw [eps] at h
      split at h
      · rename_i hs
        simp only [Option.some.injEq] at h
        have := conv_read_stop T f hinv q (epi hc) (.rune r) hs (hT f.ps r hs)
        rw [h] at this
        have h2 := congrArg Prod.snd h
        simp only [finishing] at h2
        rw [← h2]; exact this
      · rename_i hs
        simp only [Option.some.injEq, Prod.mk.injEq] at h; obtain ⟨rfl, rfl⟩ := h
        exact conv_read_go T f hinv q (epi hc) (.rune r) (by simpa [stops] using hs)
    · cases h
  | readEnd =>
    simp only [Sys.step] at h
    split at h
    · rename_i hc
      rw [eps] at h
      simp only [Option.some.injEq] at h
      have := conv_read_stop T f hinv q (epi hc) .eof rfl rfl
      rw [h] at this
      have h2 := congrArg Prod.snd h
      simp only [finishing] at h2
      rw [← h2]; exact this
    · cases h
  | timerFire =>
    simp only [Sys.step] at h
    split at h
    · rename_i hc
      simp only [Option.some.injEq, Prod.mk.injEq] at h; obtain ⟨rfl, rfl⟩ := h
      exact conv_timerFire T f hinv q (by rw [← ear]; exact hc.1) (epi hc.2)
    · cases h
  | timerExpire =>
    simp only [Sys.step] at h
    split at h
    · rename_i hc
      simp only [Option.some.injEq, Prod.mk.injEq] at h; obtain ⟨rfl, rfl⟩ := h
      exact conv_timerExpire T f hinv q (by rw [← ear]; exact hc)
    · cases h
  | cbRun fresh =>
    cases fresh with
    | true =>
      simp only [Sys.step] at h
      split at h
      · rename_i hc
        simp only [Option.some.injEq, Prod.mk.injEq] at h; obtain ⟨rfl, rfl⟩ := h
        have := conv_cbRun_fresh T f hinv q (by rw [efr] at hc; simpa using hc)
        simpa [Cfg.fixed] using this
      · cases h
    | false =>
      simp only [Sys.step, Cfg.fixed, if_true] at h
      split at h
      · rename_i hc
        simp only [Option.some.injEq, Prod.mk.injEq] at h; obtain ⟨rfl, rfl⟩ := h
        exact conv_cbRun_stale T f q (by rw [← est]; exact hc)
      · cases h

theorem frun_append (T : Table) (ls1 ls2 : List FLabel) (s s1 s2 : FSys) (o1 o2 : List Seq)
    (h1 : FSys.run T s ls1 = some (s1, o1)) (h2 : FSys.run T s1 ls2 = some (s2, o2)) :
    FSys.run T s (ls1 ++ ls2) = some (s2, o1 ++ o2) := by
  induction ls1 generalizing s o1 with
  | nil =>
    simp only [FSys.run, Option.some.injEq, Prod.mk.injEq] at h1; obtain ⟨rfl, rfl⟩ := h1
    simpa using h2
  | cons l ls ih =>
    simp only [FSys.run] at h1
    cases hs : FSys.step T s l with
    | none => simp [hs] at h1
    | some r =>
      obtain ⟨s', o'⟩ := r
      simp only [hs] at h1
      cases hr : FSys.run T s' ls with
      | none => simp [hr] at h1
      | some r2 =>
        obtain ⟨s'', o''⟩ := r2
        simp only [hr, Option.some.injEq, Prod.mk.injEq] at h1; obtain ⟨rfl, rfl⟩ := h1
        have := ih s' o'' hr
        simp [FSys.run, hs, this, List.append_assoc]

theorem conv_run (T : Table) (hT : TimerOk T) (ls : List Label) (f : FSys) (hinv : FInv f) (q : Quiet f)
    (a' : Sys) (oa : List Seq) (h : Sys.run T Cfg.fixed (absQ T f) ls = some (a', oa)) :
    ∃ fls f', FSys.run T f fls = some (f', oa) ∧ Quiet f' ∧ a' = absQ T f' := by
  induction ls generalizing f oa with
  | nil =>
    simp only [Sys.run, Option.some.injEq, Prod.mk.injEq] at h; obtain ⟨rfl, rfl⟩ := h
    exact ⟨[], f, rfl, q, rfl⟩
  | cons l ls ih =>
    simp only [Sys.run] at h
    cases h1 : Sys.step T Cfg.fixed (absQ T f) l with
    | none => simp [h1] at h
    | some r1 =>
      obtain ⟨a1, o1⟩ := r1
      simp only [h1] at h
      cases h2 : Sys.run T Cfg.fixed a1 ls with
      | none => simp [h2] at h
      | some r2 =>
        obtain ⟨a2, o2⟩ := r2
        simp only [h2, Option.some.injEq, Prod.mk.injEq] at h
        obtain ⟨rfl, rfl⟩ := h
        obtain ⟨fls1, f1, hr1, q1, e1⟩ := conv_step T hT f hinv q l a1 o1 h1
        subst e1
        obtain ⟨fls2, f2, hr2, q2, e2⟩ := ih f1 (run_inv T hT fls1 f f1 o1 hinv hr1) q1 o2 h2
        exact ⟨fls1 ++ fls2, f2, frun_append T fls1 fls2 f f1 f2 o1 o2 hr1 hr2, q2, e2⟩

theorem quiet_init : Quiet FSys.init := ⟨rfl, Or.inl rfl, by simp [FSys.init]⟩

theorem absQ_init (T : Table) : absQ T FSys.init = Sys.init := abs_init T

/-- Emitting statements are serialised: while a callback is at its `emit`, the main goroutine is at
    neither of its emitting statements and no other callback is at its `emit`. -/
theorem single_emitter (f : FSys) (hinv : FInv f) (i g : Nat) (hi : f.cbs[i]? = some (g, .passed)) :
    (∀ inp, f.mpc ≠ .bumped inp) ∧ (∀ v, f.mpc ≠ .fin .emit v) ∧
    (∀ j g', f.cbs[j]? = some (g', .passed) → j = i) := by
  have hmem : (g, CbPc.passed) ∈ f.cbs := List.mem_of_getElem? hi
  obtain ⟨hm, hnh, hn1⟩ := cb_excl f hinv i g _ hi rfl
  have hge : g = f.escGen := hinv.p1 _ hmem rfl
  have hns : strict f.mpc = false := by
    cases hs : strict f.mpc with
    | false => rfl
    | true => have := (hinv.g1 _ hmem).2 hs; simp only at this; omega
  refine ⟨?_, ?_, ?_⟩
  · intro inp h; rw [h] at hnh; cases hnh
  · intro v h; rw [h] at hns; cases v <;> cases hns
  intro j g' hj
  by_cases hji : j = i
  · exact hji
  · exfalso
    have s4 := nCrit_set f.cbs i g _ .gone hi
    simp [crit] at s4
    have h0 : nCrit (f.cbs.set i (g, .gone)) = 0 := by omega
    have hj' : (f.cbs.set i (g, .gone))[j]? = some (g', .passed) := by
      rw [List.getElem?_set_ne (fun h => hji h.symm)]; exact hj
    have := nCrit_zero h0 _ (List.mem_of_getElem? hj')
    cases this

end VaxisModel.Lemmas.ParserRunFine
