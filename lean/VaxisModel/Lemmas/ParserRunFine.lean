/-
C08: the statement-grained life-cycle system (Model/ParserRunFine.lean) — its invariant (mutual
exclusion, generations, the callback's view of the parser state) and the forward simulation onto the
atomic system of Model/ParserRun.lean.
-/
import VaxisModel.Model.ParserRunFine
import VaxisModel.Lemmas.ParserRun

namespace VaxisModel.Lemmas.ParserRunFine
open VaxisModel.Model.ParserTable VaxisModel.Model.Parser VaxisModel.Model.ParserRun
open VaxisModel.Model.ParserRunFine

/-! ### lists -/

theorem countP_set {α} (p : α → Bool) : ∀ (l : List α) (i : Nat) (y x : α), l[i]? = some y →
    (l.set i x).countP p + (p y).toNat = l.countP p + (p x).toNat := by
  intro l
  induction l with
  | nil => intro i y x h; simp at h
  | cons a l ih =>
    intro i y x h
    cases i with
    | zero =>
      simp only [List.getElem?_cons_zero, Option.some.injEq] at h
      subst h
      simp only [List.set_cons_zero, List.countP_cons]
      cases p a <;> cases p x <;> simp <;> omega
    | succ i =>
      simp only [List.getElem?_cons_succ] at h
      have := ih i y x h
      simp only [List.set_cons_succ, List.countP_cons]
      omega

theorem forall_set {α} (P : α → Prop) (l : List α) (i : Nat) (x : α) (h : ∀ c ∈ l, P c) (hx : P x) :
    ∀ c ∈ l.set i x, P c := by
  intro c hc
  rcases List.mem_or_eq_of_mem_set hc with h1 | h1
  · exact h c h1
  · exact h1 ▸ hx

/-! ### the invariant -/

/-- Callback statements before its effect on the atomic system (up to and including the check). -/
def pre3 : CbPc → Bool | .started | .locked | .passed => true | _ => false
def pre2 : CbPc → Bool | .started | .locked => true | _ => false
/-- Between `emit` and `Unlock`: the atomic callback has run, the statements are catching up. -/
def mid : CbPc → Bool | .emitted | .stateSet | .stSet => true | _ => false
/-- Holding the mutex. -/
def crit : CbPc → Bool | .started | .gone => false | _ => true

abbrev Cbs := List (Nat × CbPc)

def nFresh (e : Nat) (l : Cbs) : Nat := l.countP (fun c => decide (c.1 = e) && pre3 c.2)
def nStale (e : Nat) (l : Cbs) : Nat := l.countP (fun c => !decide (c.1 = e) && pre2 c.2)
def nMid (l : Cbs) : Nat := l.countP (fun c => mid c.2)
def nCrit (l : Cbs) : Nat := l.countP (fun c => crit c.2)

/-- Statements of `run` executed with the mutex held. -/
def holdsMain : MPc → Bool
  | .locked _ | .bumped _ | .stepped _ | .fin .bump _ | .fin .unlock _ => true
  | _ => false

/-- Places where every started callback is out of date. -/
def strict : MPc → Bool
  | .bumped _ | .stepped true | .fin _ true | .fin .unlock false | .fin .emit false | .fin .close false
  | .done => true
  | _ => false

/-- Places where the timer may be pending. -/
def armedOk : MPc → Bool
  | .stepped false | .atSelect | .inRead | .readDone _ | .fin .stop false => true
  | _ => false

theorem armedOk_not_strict (pc : MPc) (h : armedOk pc = true) : strict pc = false := by
  cases pc with
  | stepped b => cases b <;> simp_all [armedOk, strict]
  | fin st v => cases st <;> cases v <;> simp_all [armedOk, strict]
  | _ => simp_all [armedOk, strict]

theorem armedOk_not_holds (pc : MPc) (h : armedOk pc = true) (st : strict pc = true) : False := by
  rw [armedOk_not_strict pc h] at st; cases st

structure FInv (f : FSys) : Prop where
  /-- mutual exclusion, main goroutine -/
  m1 : f.mutex = some .main ↔ holdsMain f.mpc = true
  /-- mutual exclusion, callbacks: exactly one is inside iff the mutex says so -/
  m2 : nCrit f.cbs = if f.mutex = some .cb then 1 else 0
  g1 : ∀ c ∈ f.cbs, c.1 ≤ f.escGen ∧ (strict f.mpc = true → c.1 < f.escGen)
  g2 : ∀ g, f.armed = some g → g = f.escGen ∧ armedOk f.mpc = true
  u1 : nFresh f.escGen f.cbs ≤ 1
  u2 : f.armed.isSome = true → nFresh f.escGen f.cbs = 0
  /-- a callback past its check saw the current generation -/
  p1 : ∀ c ∈ f.cbs, c.2 = .passed → c.1 = f.escGen
  p2 : ∀ c ∈ f.cbs, (c.2 = .stateSet → f.ps.state = .ground) ∧
        (c.2 = .stSet → f.ps.state = .ground ∧ f.ps.ignoreST = false)
  c1 : f.chanClosed = true → f.mpc = .done

theorem FInv_init : FInv FSys.init := by
  refine ⟨by simp [FSys.init, holdsMain], by simp [FSys.init, nCrit], by simp [FSys.init], by simp [FSys.init],
    by simp [FSys.init, nFresh], by simp [FSys.init], by simp [FSys.init], by simp [FSys.init], by simp [FSys.init]⟩

theorem nCrit_zero {l : Cbs} (h : nCrit l = 0) : ∀ c ∈ l, crit c.2 = false := by
  intro c hc
  have := (List.countP_eq_zero.mp h) c hc
  simpa using this

theorem nFresh_zero_of_lt {e : Nat} {l : Cbs} (h : ∀ c ∈ l, c.1 < e) : nFresh e l = 0 := by
  apply List.countP_eq_zero.mpr
  intro c hc
  have := h c hc
  simp; intro h'; omega

theorem armed_none {f : FSys} (hinv : FInv f) (h : armedOk f.mpc = false) : f.armed = none := by
  cases ha : f.armed with
  | none => rfl
  | some g => have := (hinv.g2 g ha).2; rw [h] at this; cases this

theorem main_no_crit {f : FSys} (hinv : FInv f) (h : holdsMain f.mpc = true) : nCrit f.cbs = 0 := by
  have hm := hinv.m1.mpr h
  have := hinv.m2
  rw [hm] at this
  simpa using this

/-! ### the invariant is preserved by every statement -/

theorem inv_pc_only (f : FSys) (hinv : FInv f) (pc : MPc) (a : Option Nat)
    (hh : holdsMain pc = holdsMain f.mpc) (hs : strict pc = true → strict f.mpc = true)
    (ha : a = none ∨ (a = f.armed ∧ (armedOk f.mpc = true → armedOk pc = true)))
    (hd : f.mpc = .done → pc = .done) :
    FInv { f with mpc := pc, armed := a } := by
  refine ⟨by simpa [hh] using hinv.m1, hinv.m2, fun c hc => ⟨(hinv.g1 c hc).1, fun h => (hinv.g1 c hc).2 (hs h)⟩,
    ?_, hinv.u1, ?_, hinv.p1, hinv.p2, fun h => hd (hinv.c1 h)⟩
  · intro g hg
    rcases ha with rfl | ⟨rfl, ha⟩
    · cases hg
    · exact ⟨(hinv.g2 g hg).1, ha (hinv.g2 g hg).2⟩
  · intro h
    rcases ha with rfl | ⟨rfl, _⟩
    · cases h
    · exact hinv.u2 h

/-- `p.mu.Lock()` by the main goroutine. -/
theorem inv_main_lock (f : FSys) (hinv : FInv f) (pc : MPc) (hm : f.mutex = none)
    (hh : holdsMain pc = true) (hs : strict pc = true → strict f.mpc = true)
    (ha : armedOk f.mpc = false) (hd : f.mpc ≠ .done) :
    FInv { f with mutex := some .main, mpc := pc } := by
  have hm2 := hinv.m2
  rw [hm] at hm2
  have han := armed_none hinv ha
  refine ⟨by simp [hh], by simpa using hm2, fun c hc => ⟨(hinv.g1 c hc).1, fun h => (hinv.g1 c hc).2 (hs h)⟩,
    by simp [han], hinv.u1, by simp [han], hinv.p1, hinv.p2, fun h => absurd (hinv.c1 h) hd⟩

/-- `p.mu.Unlock()` by the main goroutine. -/
theorem inv_main_unlock (f : FSys) (hinv : FInv f) (pc : MPc) (hold : holdsMain f.mpc = true)
    (hh : holdsMain pc = false) (hs : strict pc = true → strict f.mpc = true)
    (ha : armedOk f.mpc = true → armedOk pc = true) (hd : f.mpc ≠ .done) :
    FInv { f with mutex := none, mpc := pc } := by
  have hc0 := main_no_crit hinv hold
  refine ⟨by simp [hh], by simpa using hc0, fun c hc => ⟨(hinv.g1 c hc).1, fun h => (hinv.g1 c hc).2 (hs h)⟩,
    fun g hg => ⟨(hinv.g2 g hg).1, ha (hinv.g2 g hg).2⟩, hinv.u1, hinv.u2, hinv.p1, hinv.p2,
    fun h => absurd (hinv.c1 h) hd⟩

/-- `p.escGen++` (under the mutex). -/
theorem inv_bump (f : FSys) (hinv : FInv f) (pc : MPc) (hold : holdsMain f.mpc = true)
    (hh : holdsMain pc = true) (ha : armedOk f.mpc = false) (hd : f.mpc ≠ .done) :
    FInv { f with escGen := f.escGen + 1, mpc := pc } := by
  have hc0 := main_no_crit hinv hold
  have han := armed_none hinv ha
  have hlt : ∀ c ∈ f.cbs, c.1 < f.escGen + 1 := fun c hc => Nat.lt_succ_of_le (hinv.g1 c hc).1
  have hnf := nFresh_zero_of_lt hlt
  refine ⟨?_, hinv.m2, fun c hc => ⟨Nat.le_of_lt (hlt c hc), fun _ => hlt c hc⟩,
    by simp [han], by simp [hnf], by simp [hnf], ?_, hinv.p2, fun h => absurd (hinv.c1 h) hd⟩
  · have := hinv.m1; simp only [hold, iff_true] at this; simp [this, hh]
  · intro c hc hp
    have := nCrit_zero hc0 c hc
    rw [hp] at this; cases this

/-- The tables considered: `anywhere` never both arms the timer and ends the loop. -/
def TimerOk (T : Table) : Prop := ∀ ps r, (VaxisModel.Model.Parser.step T ps (.rune r)).stop = true → startsTimer T r = false

/-- `p.state = anywhere(r, p)` (under the mutex, after the bump). -/
theorem inv_anywhere (T : Table) (hT : TimerOk T) (f : FSys) (hinv : FInv f) (i : Inp) (hpc : f.mpc = .bumped i) :
    FInv { f with ps := (VaxisModel.Model.Parser.step T f.ps i).st, armed := if arms T i then some f.escGen else f.armed,
                  mpc := .stepped (stops T f.ps i) } := by
  have hold : holdsMain f.mpc = true := by rw [hpc]; rfl
  have hc0 := main_no_crit hinv hold
  have han := armed_none hinv (by rw [hpc]; rfl)
  have hlt : ∀ c ∈ f.cbs, c.1 < f.escGen := fun c hc => (hinv.g1 c hc).2 (by rw [hpc]; rfl)
  have hnf := nFresh_zero_of_lt hlt
  refine ⟨?_, hinv.m2, fun c hc => ⟨(hinv.g1 c hc).1, fun _ => hlt c hc⟩, ?_, hinv.u1, fun _ => hnf, hinv.p1, ?_,
    fun h => by have := hinv.c1 h; rw [hpc] at this; cases this⟩
  · have := hinv.m1; simp only [hold, iff_true] at this; simp [this, holdsMain]
  · intro g hg
    simp only [han] at hg
    split at hg
    · rename_i ha
      simp only [Option.some.injEq] at hg
      refine ⟨hg.symm, ?_⟩
      cases i with
      | eof => simp [arms] at ha
      | rune r =>
        simp only [arms] at ha
        have : stops T f.ps (.rune r) = false := by
          cases hs : stops T f.ps (.rune r) with
          | false => rfl
          | true => simp only [stops] at hs; rw [hT f.ps r hs] at ha; cases ha
        rw [this]; rfl
    · cases hg
  · intro c hc
    have := nCrit_zero hc0 c hc
    constructor
    · intro h; rw [h] at this; cases this
    · intro h; rw [h] at this; cases this

theorem main_inv (T : Table) (hT : TimerOk T) (f f' : FSys) (o : List Seq) (hinv : FInv f)
    (h : mainStep T f = some (f', o)) : FInv f' := by
  unfold mainStep at h
  split at h
  · -- select
    rename_i hpc
    split at h <;> (simp only [Option.some.injEq, Prod.mk.injEq] at h; obtain ⟨rfl, _⟩ := h)
    · have := inv_pc_only f hinv (.fin .stop false) f.armed (by rw [hpc]; rfl) (by simp [strict])
        (Or.inr ⟨rfl, fun _ => rfl⟩) (by simp [hpc])
      simpa using this
    · have := inv_pc_only f hinv .inRead f.armed (by rw [hpc]; rfl) (by simp [strict])
        (Or.inr ⟨rfl, fun _ => rfl⟩) (by simp [hpc])
      simpa using this
  · cases h
  · -- Stop
    rename_i i hpc
    simp only [Option.some.injEq, Prod.mk.injEq] at h; obtain ⟨rfl, _⟩ := h
    exact inv_pc_only f hinv (.stopped i) none (by rw [hpc]; rfl) (by simp [strict]) (Or.inl rfl) (by simp [hpc])
  · -- Lock
    rename_i i hpc
    split at h
    · rename_i hm
      simp only [Option.some.injEq, Prod.mk.injEq] at h; obtain ⟨rfl, _⟩ := h
      exact inv_main_lock f hinv (.locked i) hm rfl (by simp [strict]) (by rw [hpc]; rfl) (by simp [hpc])
    · cases h
  · -- escGen++
    rename_i i hpc
    simp only [Option.some.injEq, Prod.mk.injEq] at h; obtain ⟨rfl, _⟩ := h
    exact inv_bump f hinv (.bumped i) (by rw [hpc]; rfl) rfl (by rw [hpc]; rfl) (by simp [hpc])
  · -- anywhere
    rename_i i hpc
    simp only [Option.some.injEq, Prod.mk.injEq] at h; obtain ⟨rfl, _⟩ := h
    exact inv_anywhere T hT f hinv i hpc
  · -- Unlock
    rename_i stop hpc
    simp only [Option.some.injEq, Prod.mk.injEq] at h; obtain ⟨rfl, _⟩ := h
    cases stop with
    | true =>
      exact inv_main_unlock f hinv (.fin .stop true) (by rw [hpc]; rfl) rfl (by rw [hpc]; simp [strict])
        (by rw [hpc]; simp [armedOk]) (by simp [hpc])
    | false =>
      exact inv_main_unlock f hinv .atSelect (by rw [hpc]; rfl) rfl (by simp [strict])
        (by rw [hpc]; simp [armedOk]) (by simp [hpc])
  · -- Stop
    rename_i v hpc
    simp only [Option.some.injEq, Prod.mk.injEq] at h; obtain ⟨rfl, _⟩ := h
    exact inv_pc_only f hinv (.fin .lock v) none (by rw [hpc]; rfl) (by rw [hpc]; cases v <;> simp [strict])
      (Or.inl rfl) (by simp [hpc])
  · -- Lock
    rename_i v hpc
    split at h
    · rename_i hm
      simp only [Option.some.injEq, Prod.mk.injEq] at h; obtain ⟨rfl, _⟩ := h
      exact inv_main_lock f hinv (.fin .bump v) hm rfl (by rw [hpc]; cases v <;> simp [strict])
        (by rw [hpc]; rfl) (by simp [hpc])
    · cases h
  · -- escGen++
    rename_i v hpc
    simp only [Option.some.injEq, Prod.mk.injEq] at h; obtain ⟨rfl, _⟩ := h
    exact inv_bump f hinv (.fin .unlock v) (by rw [hpc]; rfl) rfl (by rw [hpc]; rfl) (by simp [hpc])
  · -- Unlock
    rename_i v hpc
    simp only [Option.some.injEq, Prod.mk.injEq] at h; obtain ⟨rfl, _⟩ := h
    exact inv_main_unlock f hinv (.fin .emit v) (by rw [hpc]; rfl) rfl (by rw [hpc]; cases v <;> simp [strict])
      (by rw [hpc]; simp [armedOk]) (by simp [hpc])
  · -- emit EOF
    rename_i v hpc
    simp only [Option.some.injEq, Prod.mk.injEq] at h; obtain ⟨rfl, _⟩ := h
    have := inv_pc_only f hinv (.fin .close v) f.armed (by rw [hpc]; rfl) (by rw [hpc]; cases v <;> simp [strict])
      (Or.inr ⟨rfl, by rw [hpc]; simp [armedOk]⟩) (by simp [hpc])
    simpa using this
  · -- close
    rename_i v hpc
    simp only [Option.some.injEq, Prod.mk.injEq] at h; obtain ⟨rfl, _⟩ := h
    have h1 := inv_pc_only f hinv .done f.armed (by rw [hpc]; rfl) (by rw [hpc]; cases v <;> simp [strict])
      (Or.inr ⟨rfl, by rw [hpc]; simp [armedOk]⟩) (by simp [hpc])
    exact ⟨h1.m1, h1.m2, h1.g1, h1.g2, h1.u1, h1.u2, h1.p1, h1.p2, fun _ => rfl⟩
  · cases h

theorem expire_inv (f : FSys) (hinv : FInv f) (g : Nat) (ha : f.armed = some g) :
    FInv { f with armed := none, cbs := f.cbs ++ [(g, .started)] } := by
  obtain ⟨hg, hok⟩ := hinv.g2 g ha
  have hns := armedOk_not_strict _ hok
  have hu2 := hinv.u2 (by rw [ha]; rfl)
  refine ⟨hinv.m1, ?_, ?_, by simp, ?_, by simp, ?_, ?_, hinv.c1⟩
  · have := hinv.m2; simpa [nCrit, List.countP_append, crit] using this
  · intro c hc
    rcases List.mem_append.mp hc with hc | hc
    · exact hinv.g1 c hc
    · simp only [List.mem_singleton] at hc; subst hc
      exact ⟨Nat.le_of_eq hg, fun h => by rw [hns] at h; cases h⟩
  · show nFresh f.escGen (f.cbs ++ [(g, .started)]) ≤ 1
    have : nFresh f.escGen (f.cbs ++ [(g, .started)]) = nFresh f.escGen f.cbs + 1 := by
      simp [nFresh, List.countP_append, hg, pre3]
    omega
  · intro c hc hp
    rcases List.mem_append.mp hc with hc | hc
    · exact hinv.p1 c hc hp
    · simp only [List.mem_singleton] at hc; subst hc; cases hp
  · intro c hc
    rcases List.mem_append.mp hc with hc | hc
    · exact hinv.p2 c hc
    · simp only [List.mem_singleton] at hc; subst hc
      exact ⟨fun h => (nomatch h), fun h => (nomatch h)⟩

theorem readRet_inv (f : FSys) (hinv : FInv f) (i : Inp) (hpc : f.mpc = .inRead) :
    FInv { f with mpc := .readDone i } := by
  have := inv_pc_only f hinv (.readDone i) f.armed (by rw [hpc]; rfl) (by simp [strict])
    (Or.inr ⟨rfl, fun _ => rfl⟩) (by simp [hpc])
  simpa using this

theorem closeSig_inv (f : FSys) (hinv : FInv f) : FInv { f with closeReq := true } :=
  ⟨hinv.m1, hinv.m2, hinv.g1, hinv.g2, hinv.u1, hinv.u2, hinv.p1, hinv.p2, hinv.c1⟩

theorem nCrit_set (l : Cbs) (i g : Nat) (pc pc' : CbPc) (hi : l[i]? = some (g, pc)) :
    nCrit (l.set i (g, pc')) + (crit pc).toNat = nCrit l + (crit pc').toNat :=
  countP_set _ l i _ _ hi

theorem nMid_set (l : Cbs) (i g : Nat) (pc pc' : CbPc) (hi : l[i]? = some (g, pc)) :
    nMid (l.set i (g, pc')) + (mid pc).toNat = nMid l + (mid pc').toNat :=
  countP_set _ l i _ _ hi

theorem nFresh_set (e : Nat) (l : Cbs) (i g : Nat) (pc pc' : CbPc) (hi : l[i]? = some (g, pc)) :
    nFresh e (l.set i (g, pc')) + (decide (g = e) && pre3 pc).toNat =
      nFresh e l + (decide (g = e) && pre3 pc').toNat :=
  countP_set _ l i _ _ hi

theorem nStale_set (e : Nat) (l : Cbs) (i g : Nat) (pc pc' : CbPc) (hi : l[i]? = some (g, pc)) :
    nStale e (l.set i (g, pc')) + (!decide (g = e) && pre2 pc).toNat =
      nStale e l + (!decide (g = e) && pre2 pc').toNat :=
  countP_set _ l i _ _ hi

theorem g1_set (f : FSys) (hinv : FInv f) (i g : Nat) (pc pc' : CbPc) (hi : f.cbs[i]? = some (g, pc)) :
    ∀ c ∈ f.cbs.set i (g, pc'), c.1 ≤ f.escGen ∧ (strict f.mpc = true → c.1 < f.escGen) :=
  forall_set _ _ _ _ hinv.g1 (hinv.g1 (g, pc) (List.mem_of_getElem? hi))

/-- A callback holding the mutex excludes the main goroutine's critical statements. -/
theorem cb_excl (f : FSys) (hinv : FInv f) (i g : Nat) (pc : CbPc) (hi : f.cbs[i]? = some (g, pc))
    (hc : crit pc = true) : f.mutex = some .cb ∧ holdsMain f.mpc = false ∧ nCrit f.cbs = 1 := by
  have hpos : 0 < nCrit f.cbs := List.countP_pos_iff.mpr ⟨(g, pc), List.mem_of_getElem? hi, hc⟩
  have hm2 := hinv.m2
  by_cases hm : f.mutex = some .cb
  · rw [if_pos hm] at hm2
    refine ⟨hm, ?_, hm2⟩
    cases hh : holdsMain f.mpc with
    | false => rfl
    | true => have := hinv.m1.mpr hh; rw [hm] at this; cases this
  · rw [if_neg hm] at hm2; omega

/-- `p.mu.Lock()` by a callback. -/
theorem inv_cb_lock (f : FSys) (hinv : FInv f) (i g : Nat) (hi : f.cbs[i]? = some (g, .started)) (hm : f.mutex = none) :
    FInv { f with mutex := some .cb, cbs := f.cbs.set i (g, .locked) } := by
  have hm2 := hinv.m2
  rw [hm] at hm2
  have hnh : holdsMain f.mpc = false := by
    cases hh : holdsMain f.mpc with
    | false => rfl
    | true => have := hinv.m1.mpr hh; rw [hm] at this; cases this
  have hcs := nCrit_set f.cbs i g _ .locked hi
  have hfs := nFresh_set f.escGen f.cbs i g _ .locked hi
  simp [crit] at hcs hm2
  simp only [pre3] at hfs
  refine ⟨by simp [hnh], ?_, g1_set f hinv i g _ _ hi, hinv.g2, ?_, ?_, ?_, ?_, hinv.c1⟩
  · show nCrit (f.cbs.set i (g, .locked)) = _; simp; omega
  · have := hinv.u1; show nFresh f.escGen (f.cbs.set i (g, .locked)) ≤ 1; omega
  · intro h; have := hinv.u2 h; show nFresh f.escGen (f.cbs.set i (g, .locked)) = 0; omega
  · exact forall_set _ _ _ _ hinv.p1 (fun h => nomatch h)
  · exact forall_set _ _ _ _ hinv.p2 ⟨fun h => (nomatch h), fun h => (nomatch h)⟩

/-- A statement of a callback inside its critical section (not the Unlock). -/
theorem inv_cb_mid (f : FSys) (hinv : FInv f) (i g : Nat) (pc pc' : CbPc) (ps' : PState)
    (hi : f.cbs[i]? = some (g, pc)) (hc : crit pc = true) (hc' : crit pc' = true)
    (hf : (decide (g = f.escGen) && pre3 pc') = true → pre3 pc = true)
    (hp1 : pc' = .passed → g = f.escGen)
    (hp2 : ∀ c ∈ f.cbs.set i (g, pc'), (c.2 = .stateSet → ps'.state = .ground) ∧
        (c.2 = .stSet → ps'.state = .ground ∧ ps'.ignoreST = false)) :
    FInv { f with ps := ps', cbs := f.cbs.set i (g, pc') } := by
  have hcs := nCrit_set f.cbs i g pc pc' hi
  have hfs := nFresh_set f.escGen f.cbs i g pc pc' hi
  rw [hc, hc'] at hcs
  have hle : nFresh f.escGen (f.cbs.set i (g, pc')) ≤ nFresh f.escGen f.cbs := by
    cases h1 : (decide (g = f.escGen) && pre3 pc') with
    | false => rw [h1] at hfs; simp at hfs; omega
    | true =>
      have h2 := hf h1
      have h3 : (decide (g = f.escGen) && pre3 pc) = true := by
        simp only [Bool.and_eq_true] at h1 ⊢; exact ⟨h1.1, h2⟩
      rw [h1, h3] at hfs; omega
  refine ⟨hinv.m1, ?_, g1_set f hinv i g _ _ hi, hinv.g2, ?_, ?_, ?_, hp2, hinv.c1⟩
  · have := hinv.m2; show nCrit (f.cbs.set i (g, pc')) = (if f.mutex = some .cb then 1 else 0); omega
  · have := hinv.u1; show nFresh f.escGen (f.cbs.set i (g, pc')) ≤ 1; omega
  · intro h; have := hinv.u2 h; show nFresh f.escGen (f.cbs.set i (g, pc')) = 0; omega
  · exact forall_set _ _ _ _ hinv.p1 hp1

/-- The deferred `p.mu.Unlock()` of a callback. -/
theorem inv_cb_unlock (f : FSys) (hinv : FInv f) (i g : Nat) (pc : CbPc)
    (hi : f.cbs[i]? = some (g, pc)) (hc : crit pc = true) :
    FInv { f with mutex := none, cbs := f.cbs.set i (g, .gone) } := by
  obtain ⟨hm, hnh, h1⟩ := cb_excl f hinv i g pc hi hc
  have hcs := nCrit_set f.cbs i g pc .gone hi
  have hfs := nFresh_set f.escGen f.cbs i g pc .gone hi
  rw [hc] at hcs
  simp [crit] at hcs
  simp [pre3] at hfs
  refine ⟨by simp [hnh], ?_, g1_set f hinv i g _ _ hi, hinv.g2, ?_, ?_, ?_, ?_, hinv.c1⟩
  · show nCrit (f.cbs.set i (g, .gone)) = _; simp; omega
  · have := hinv.u1; show nFresh f.escGen (f.cbs.set i (g, .gone)) ≤ 1; omega
  · intro h; have := hinv.u2 h; show nFresh f.escGen (f.cbs.set i (g, .gone)) = 0; omega
  · exact forall_set _ _ _ _ hinv.p1 (fun h => nomatch h)
  · exact forall_set _ _ _ _ hinv.p2 ⟨fun h => (nomatch h), fun h => (nomatch h)⟩

theorem cb_inv (f f' : FSys) (o : List Seq) (i : Nat) (hinv : FInv f) (h : cbStep f i = some (f', o)) : FInv f' := by
  unfold cbStep at h
  split at h
  · cases h
  · rename_i g pc hi
    have hmem : (g, pc) ∈ f.cbs := List.mem_of_getElem? hi
    cases pc with
    | started =>
      simp only at h
      split at h
      · rename_i hm
        simp only [Option.some.injEq, Prod.mk.injEq] at h; obtain ⟨rfl, _⟩ := h
        exact inv_cb_lock f hinv i g hi hm
      · cases h
    | locked =>
      simp only [Option.some.injEq, Prod.mk.injEq] at h; obtain ⟨rfl, _⟩ := h
      have := inv_cb_mid f hinv i g .locked (if g = f.escGen then .passed else .failed) f.ps hi rfl
        (by split <;> rfl) (fun _ => rfl) (by split <;> simp_all)
        (forall_set _ _ _ _ hinv.p2 (by split <;> exact ⟨fun h => (nomatch h), fun h => (nomatch h)⟩))
      simpa using this
    | passed =>
      simp only [Option.some.injEq, Prod.mk.injEq] at h; obtain ⟨rfl, _⟩ := h
      have := inv_cb_mid f hinv i g .passed .emitted f.ps hi rfl rfl (fun _ => rfl) (fun h => nomatch h)
        (forall_set _ _ _ _ hinv.p2 ⟨fun h => (nomatch h), fun h => (nomatch h)⟩)
      simpa using this
    | emitted =>
      simp only [Option.some.injEq, Prod.mk.injEq] at h; obtain ⟨rfl, _⟩ := h
      refine inv_cb_mid f hinv i g .emitted .stateSet _ hi rfl rfl (by simp [pre3]) (fun h => nomatch h) ?_
      exact forall_set _ _ _ _ (fun c hc => ⟨fun _ => rfl, fun h => ⟨rfl, ((hinv.p2 c hc).2 h).2⟩⟩)
        ⟨fun _ => rfl, fun h => (nomatch h)⟩
    | stateSet =>
      simp only [Option.some.injEq, Prod.mk.injEq] at h; obtain ⟨rfl, _⟩ := h
      have hg := (hinv.p2 _ hmem).1 rfl
      refine inv_cb_mid f hinv i g .stateSet .stSet _ hi rfl rfl (by simp [pre3]) (fun h => nomatch h) ?_
      exact forall_set _ _ _ _ (fun c hc => ⟨fun _ => hg, fun _ => ⟨hg, rfl⟩⟩) ⟨fun _ => hg, fun _ => ⟨hg, rfl⟩⟩
    | stSet =>
      simp only [Option.some.injEq, Prod.mk.injEq] at h; obtain ⟨rfl, _⟩ := h
      exact inv_cb_unlock f hinv i g _ hi rfl
    | failed =>
      simp only [Option.some.injEq, Prod.mk.injEq] at h; obtain ⟨rfl, _⟩ := h
      exact inv_cb_unlock f hinv i g _ hi rfl
    | gone => cases h

theorem step_inv (T : Table) (hT : TimerOk T) (f f' : FSys) (l : FLabel) (o : List Seq) (hinv : FInv f)
    (h : FSys.step T f l = some (f', o)) : FInv f' := by
  cases l with
  | closeSig =>
    simp only [FSys.step, Option.some.injEq, Prod.mk.injEq] at h; obtain ⟨rfl, _⟩ := h
    exact closeSig_inv f hinv
  | readRet i =>
    simp only [FSys.step] at h
    split at h
    · rename_i hpc
      simp only [Option.some.injEq, Prod.mk.injEq] at h; obtain ⟨rfl, _⟩ := h
      exact readRet_inv f hinv i hpc
    · cases h
  | main => exact main_inv T hT f f' o hinv h
  | expire =>
    simp only [FSys.step] at h
    split at h
    · rename_i g ha
      simp only [Option.some.injEq, Prod.mk.injEq] at h; obtain ⟨rfl, _⟩ := h
      exact expire_inv f hinv g ha
    · cases h
  | cb i => exact cb_inv f f' o i hinv h

theorem run_inv (T : Table) (hT : TimerOk T) (ls : List FLabel) (f f' : FSys) (o : List Seq) (hinv : FInv f)
    (h : FSys.run T f ls = some (f', o)) : FInv f' := by
  induction ls generalizing f o with
  | nil => simp only [FSys.run, Option.some.injEq, Prod.mk.injEq] at h; obtain ⟨rfl, _⟩ := h; exact hinv
  | cons l ls ih =>
    simp only [FSys.run] at h
    cases h1 : FSys.step T f l with
    | none => simp [h1] at h
    | some r1 =>
      obtain ⟨f1, o1⟩ := r1
      simp only [h1] at h
      cases h2 : FSys.run T f1 ls with
      | none => simp [h2] at h
      | some r2 =>
        obtain ⟨f2, o2⟩ := r2
        simp only [h2, Option.some.injEq, Prod.mk.injEq] at h
        obtain ⟨rfl, _⟩ := h
        exact ih f1 o2 (step_inv T hT f f1 l o1 hinv h1) h2

end VaxisModel.Lemmas.ParserRunFine
