/-
C08: the bounded channel on the statement-grained life cycle (Model/ParserRunFineChan.lean):
invariant, projection onto the statement-grained system without channel, blocking and progress.
-/
import VaxisModel.Model.ParserRunFineChan
import VaxisModel.Lemmas.ParserRunFine

namespace VaxisModel.Lemmas.ParserRunFineChan
open VaxisModel.Model.ParserTable VaxisModel.Model.Parser VaxisModel.Model.ParserRun VaxisModel.Model.ParserRunFine
open VaxisModel.Model.ParserRunFineChan VaxisModel.Lemmas.ParserRunFine

/-- Invariant of the layer: the statement-grained invariant; items of `anywhere` are pending only
    while the main goroutine sits between `anywhere` and its `Unlock`; the channel is within capacity. -/
structure CI (cap : Nat) (s : FCSys) : Prop where
  inv : FInv s.f
  pendAt : s.pend ≠ [] → ∃ b, s.f.mpc = .stepped b
  bound : s.chan.length ≤ cap

theorem CI_init (cap : Nat) : CI cap FCSys.init := ⟨FInv_init, by simp [FCSys.init], by simp [FCSys.init]⟩

/-- Where items are emitted: `anywhere`, `emit(EOF{})`, a callback's `emit(C0 0x1B)`. -/
theorem emit_sites (T : Table) (f f' : FSys) (l : FLabel) (o : List Seq) (h : FSys.step T f l = some (f', o))
    (ho : o ≠ []) :
    (l = .main ∧ atAnywhere f.mpc = true) ∨ (l = .main ∧ (∃ v, f.mpc = .fin .emit v) ∧ o.length = 1) ∨
    (∃ i g, l = .cb i ∧ f.cbs[i]? = some (g, .passed) ∧ o.length = 1) := by
  cases l with
  | closeSig => simp only [FSys.step, Option.some.injEq, Prod.mk.injEq] at h; exact absurd h.2.symm ho
  | readRet i =>
    simp only [FSys.step] at h
    split at h
    · simp only [Option.some.injEq, Prod.mk.injEq] at h; exact absurd h.2.symm ho
    · cases h
  | expire =>
    simp only [FSys.step] at h
    split at h
    · simp only [Option.some.injEq, Prod.mk.injEq] at h; exact absurd h.2.symm ho
    · cases h
  | main =>
    simp only [FSys.step, mainStep] at h
    cases hpc : f.mpc with
    | bumped i => exact Or.inl ⟨rfl, by simp [atAnywhere]⟩
    | fin st v =>
      cases st
      case emit =>
        rw [hpc] at h
        simp only [Option.some.injEq, Prod.mk.injEq] at h
        exact Or.inr (Or.inl ⟨rfl, ⟨v, rfl⟩, by rw [← h.2]; rfl⟩)
      all_goals
        rw [hpc] at h
        simp only at h
        first
          | (cases h; done)
          | (cases h; exact absurd rfl ho)
          | (split at h <;> first | (cases h; done) | (cases h; exact absurd rfl ho))
    | _ =>
      rw [hpc] at h
      simp only at h
      first
        | (cases h; done)
        | (cases h; exact absurd rfl ho)
        | (split at h <;> first | (cases h; done) | (cases h; exact absurd rfl ho))
  | cb i =>
    simp only [FSys.step] at h
    unfold cbStep at h
    split at h
    · cases h
    · rename_i g pc hi
      cases pc
      case passed =>
        simp only [Option.some.injEq, Prod.mk.injEq] at h
        exact Or.inr (Or.inr ⟨i, g, rfl, hi, by rw [← h.2]; rfl⟩)
      all_goals
        simp only at h
        first
          | (cases h; done)
          | (cases h; exact absurd rfl ho)
          | (split at h <;> first | (cases h; done) | (cases h; exact absurd rfl ho))

/-- A statement of another party does not move the main goroutine (except the read return). -/
theorem mpc_other (T : Table) (f f' : FSys) (l : FLabel) (o : List Seq) (h : FSys.step T f l = some (f', o))
    (hl : isMainL l = false) : f'.mpc = f.mpc ∨ f.mpc = .inRead := by
  cases l with
  | main => cases hl
  | closeSig => simp only [FSys.step, Option.some.injEq, Prod.mk.injEq] at h; rw [← h.1]; exact Or.inl rfl
  | readRet i =>
    simp only [FSys.step] at h
    split at h
    · rename_i hpc; exact Or.inr hpc
    · cases h
  | expire =>
    simp only [FSys.step] at h
    split at h
    · simp only [Option.some.injEq, Prod.mk.injEq] at h; rw [← h.1]; exact Or.inl rfl
    · cases h
  | cb i =>
    simp only [FSys.step] at h
    unfold cbStep at h
    split at h
    · cases h
    · rename_i g pc hi
      cases pc <;> simp only at h <;>
        first
          | (cases h; done)
          | (cases h; exact Or.inl rfl)
          | (split at h <;> first | (cases h; done) | (cases h; exact Or.inl rfl))

/-- After `p.state = anywhere(r, p)` the main goroutine is in front of its `Unlock`. -/
theorem mpc_anywhere (T : Table) (f f' : FSys) (o : List Seq) (h : FSys.step T f .main = some (f', o))
    (ha : atAnywhere f.mpc = true) : ∃ b, f'.mpc = .stepped b := by
  cases hpc : f.mpc with
  | bumped i =>
    simp only [FSys.step, mainStep, hpc, Option.some.injEq, Prod.mk.injEq] at h
    exact ⟨_, by rw [← h.1]⟩
  | _ => rw [hpc] at ha; cases ha

/-- What one transition of the layer is in the system without channel, and what it does to the
    stream `recvd ++ chan ++ pend` (everything emitted so far, in order). -/
def StepProj (T : Table) (s s' : FCSys) : FCLabel → Prop
  | .stmt fl => ∃ o, FSys.step T s.f fl = some (s'.f, o) ∧
      s'.recvd ++ s'.chan ++ s'.pend = s.recvd ++ s.chan ++ s.pend ++ o
  | _ => s'.f = s.f ∧ s'.recvd ++ s'.chan ++ s'.pend = s.recvd ++ s.chan ++ s.pend

theorem step_proj (T : Table) (hT : TimerOk T) (cap : Nat) (s s' : FCSys) (l : FCLabel) (hci : CI cap s)
    (h : FCSys.step T cap s l = some s') : CI cap s' ∧ StepProj T s s' l := by
  cases l with
  | send =>
    simp only [FCSys.step] at h
    cases hp : s.pend with
    | nil => rw [hp] at h; cases h
    | cons x p =>
      rw [hp] at h
      simp only at h
      split at h
      · rename_i hroom
        cases h
        refine ⟨⟨hci.inv, fun _ => hci.pendAt (by rw [hp]; simp), ?_⟩, rfl, ?_⟩
        · simp only [List.length_append, List.length_cons, List.length_nil]; omega
        · simp only [hp, List.append_assoc, List.cons_append, List.nil_append]
      · cases h
  | recv =>
    simp only [FCSys.step] at h
    cases hc : s.chan with
    | nil => rw [hc] at h; cases h
    | cons x ch =>
      rw [hc] at h
      cases h
      refine ⟨⟨hci.inv, hci.pendAt, ?_⟩, rfl, ?_⟩
      · have := hci.bound; rw [hc] at this; simp only [List.length_cons] at this
        show ch.length ≤ cap; omega
      · simp only [hc, List.append_assoc, List.cons_append, List.nil_append]
  | stmt fl =>
    simp only [FCSys.step] at h
    by_cases hg : (isMainL fl && !s.pend.isEmpty) = true
    · rw [if_pos hg] at h; cases h
    · rw [if_neg hg] at h
      cases hfs : FSys.step T s.f fl with
      | none => rw [hfs] at h; cases h
      | some res =>
        obtain ⟨f', o⟩ := res
        rw [hfs] at h
        simp only at h
        have hinv' : FInv f' := step_inv T hT s.f f' fl o hci.inv hfs
        -- the main goroutine only moves with nothing pending
        have hmainp : isMainL fl = true → s.pend = [] := by
          intro hm
          simp only [hm, Bool.true_and, Bool.not_eq_true'] at hg
          cases hp : s.pend with
          | nil => rfl
          | cons x p => rw [hp] at hg; simp at hg
        by_cases ha : (isMainL fl && atAnywhere s.f.mpc) = true
        · rw [if_pos ha] at h
          cases h
          simp only [Bool.and_eq_true] at ha
          have hfl : fl = .main := by cases fl <;> first | rfl | (cases ha.1)
          subst hfl
          have hp := hmainp rfl
          refine ⟨⟨hinv', fun _ => mpc_anywhere T s.f f' o hfs ha.2, hci.bound⟩, o, hfs, ?_⟩
          simp only [hp, List.append_nil]
        · rw [if_neg ha] at h
          by_cases ho : o.isEmpty = true
          · rw [if_pos ho] at h
            cases h
            have ho' : o = [] := List.isEmpty_iff.mp ho
            refine ⟨⟨hinv', ?_, hci.bound⟩, o, hfs, by simp [ho']⟩
            intro hpne
            obtain ⟨b, hb⟩ := hci.pendAt hpne
            have hnm : isMainL fl = false := by
              cases hm : isMainL fl with
              | false => rfl
              | true => exact absurd (hmainp hm) hpne
            rcases mpc_other T s.f f' fl o hfs hnm with h1 | h1
            · exact ⟨b, by rw [h1, hb]⟩
            · rw [hb] at h1; cases h1
          · rw [if_neg ho] at h
            split at h
            · rename_i hroom
              cases h
              have hone : o ≠ [] := fun hh => ho (by rw [hh]; rfl)
              -- nothing of `anywhere` is pending when another emit happens
              have hp : s.pend = [] := by
                cases hpe : s.pend with
                | nil => rfl
                | cons x p =>
                  exfalso
                  have hpne : s.pend ≠ [] := by rw [hpe]; simp
                  obtain ⟨b, hb⟩ := hci.pendAt hpne
                  rcases emit_sites T s.f f' fl o hfs hone with ⟨rfl, _⟩ | ⟨rfl, _⟩ | ⟨i, g, rfl, hi, _⟩
                  · exact hpne (hmainp rfl)
                  · exact hpne (hmainp rfl)
                  · have := (cb_excl s.f hci.inv i g .passed hi rfl).2.1
                    rw [hb] at this; cases this
              refine ⟨⟨hinv', fun hh => absurd hp hh, ?_⟩, o, hfs, ?_⟩
              · simp only [List.length_append]; exact hroom
              · simp only [hp, List.append_nil, List.append_assoc]
            · cases h

theorem run_proj (T : Table) (hT : TimerOk T) (cap : Nat) (ls : List FCLabel) (s s' : FCSys) (hci : CI cap s)
    (h : FCSys.run T cap s ls = some s') :
    CI cap s' ∧ ∃ out, FSys.run T s.f (stmtLabels ls) = some (s'.f, out) ∧
      s'.recvd ++ s'.chan ++ s'.pend = s.recvd ++ s.chan ++ s.pend ++ out := by
  induction ls generalizing s with
  | nil =>
    simp only [FCSys.run, Option.some.injEq] at h
    subst h
    exact ⟨hci, [], rfl, by simp⟩
  | cons l ls ih =>
    simp only [FCSys.run] at h
    cases hs : FCSys.step T cap s l with
    | none => rw [hs] at h; cases h
    | some s1 =>
      rw [hs] at h
      simp only at h
      obtain ⟨hci1, hp⟩ := step_proj T hT cap s s1 l hci hs
      obtain ⟨hci', out, hr, ht⟩ := ih s1 hci1 h
      refine ⟨hci', ?_⟩
      cases l with
      | stmt fl =>
        obtain ⟨o, ho1, ho2⟩ := hp
        refine ⟨o ++ out, ?_, ?_⟩
        · simp only [stmtLabels, FSys.run, ho1, hr]
        · rw [ht, ho2]; simp only [List.append_assoc]
      | send =>
        obtain ⟨hf, hst⟩ := hp
        exact ⟨out, by simp only [stmtLabels]; rw [← hf]; exact hr, by rw [ht, hst]⟩
      | recv =>
        obtain ⟨hf, hst⟩ := hp
        exact ⟨out, by simp only [stmtLabels]; rw [← hf]; exact hr, by rw [ht, hst]⟩

/-! ### blocking and progress -/

/-- A statement that is enabled without the channel is enabled with it, unless `emit` blocks — and
    then the channel is full, so the consumer can receive. -/
theorem stmt_enabled_or_recv (T : Table) (cap : Nat) (hcap : 0 < cap) (s : FCSys) (fl : FLabel)
    (hp : s.pend = []) (h : (FSys.step T s.f fl).isSome = true) :
    (FCSys.step T cap s (.stmt fl)).isSome = true ∨ (FCSys.step T cap s .recv).isSome = true := by
  cases hfs : FSys.step T s.f fl with
  | none => rw [hfs] at h; cases h
  | some res =>
    obtain ⟨f', o⟩ := res
    simp only [FCSys.step, hp, List.isEmpty_nil, Bool.not_true, Bool.and_false, Bool.false_eq_true, if_false, hfs]
    by_cases ha : (isMainL fl && atAnywhere s.f.mpc) = true
    · left; rw [if_pos ha]; rfl
    · rw [if_neg ha]
      by_cases ho : o.isEmpty = true
      · left; rw [if_pos ho]; rfl
      · rw [if_neg ho]
        by_cases hroom : s.chan.length + o.length ≤ cap
        · left; rw [if_pos hroom]; rfl
        · right
          have hone : o ≠ [] := fun hh => ho (by rw [hh]; rfl)
          have hlen : o.length = 1 := by
            rcases emit_sites T s.f f' fl o hfs hone with ⟨rfl, h2⟩ | ⟨_, _, h2⟩ | ⟨_, _, _, _, h2⟩
            · simp only [isMainL, Bool.true_and] at ha; exact absurd h2 ha
            · exact h2
            · exact h2
          cases hc : s.chan with
          | nil => rw [hc] at hroom; simp only [List.length_nil] at hroom; omega
          | cons x ch => rfl

/-- **No deadlock with a consumer that keeps receiving**: in every state of the layer that meets the
    invariant, with a channel of capacity ≥ 1, if the main goroutine is not waiting for input and not
    everything is over, some transition is enabled: a statement of the main goroutine, a statement
    of the callback that holds the mutex, a pending send, or a receive. -/
theorem chan_no_deadlock (T : Table) (cap : Nat) (hcap : 0 < cap) (s : FCSys) (hci : CI cap s)
    (h1 : s.f.mpc ≠ .inRead) (h2 : ¬ s.finished) :
    (FCSys.step T cap s (.stmt .main)).isSome = true ∨ (∃ i, (FCSys.step T cap s (.stmt (.cb i))).isSome = true) ∨
    (FCSys.step T cap s .send).isSome = true ∨ (FCSys.step T cap s .recv).isSome = true := by
  cases hp : s.pend with
  | cons x p =>
    by_cases hroom : s.chan.length < cap
    · right; right; left; simp [FCSys.step, hp, hroom]
    · right; right; right
      cases hc : s.chan with
      | nil => rw [hc] at hroom; simp at hroom; omega
      | cons y ch => simp [FCSys.step, hc]
  | nil =>
    by_cases hd : s.f.mpc = .done
    · right; right; right
      cases hc : s.chan with
      | nil => exact absurd ⟨hd, hp, hc⟩ h2
      | cons y ch => simp [FCSys.step, hc]
    · rcases no_deadlock T s.f hci.inv h1 hd with hm | ⟨i, hi⟩
      · rcases stmt_enabled_or_recv T cap hcap s .main hp hm with h | h
        · exact Or.inl h
        · exact Or.inr (Or.inr (Or.inr h))
      · rcases stmt_enabled_or_recv T cap hcap s (.cb i) hp hi with h | h
        · exact Or.inr (Or.inl ⟨i, h⟩)
        · exact Or.inr (Or.inr (Or.inr h))

/-- **A callback blocked in `emit` holds the mutex.**  Callback `i` is at its `emit(C0 0x1B)` and the
    channel is full: its statement is not enabled; the mutex is held by a callback; the main
    goroutine is not between a `Lock` and its `Unlock`, and if it is in front of a `Lock` it is
    blocked too; no other callback goroutine can take a step; nothing of `anywhere` is pending — and
    one receive by the consumer unblocks the `emit`. -/
theorem blocked_callback (T : Table) (cap : Nat) (hcap : 0 < cap) (s : FCSys) (hci : CI cap s) (i g : Nat)
    (hi : s.f.cbs[i]? = some (g, .passed)) (hfull : s.chan.length = cap) :
    FCSys.step T cap s (.stmt (.cb i)) = none ∧ s.f.mutex = some .cb ∧ holdsMain s.f.mpc = false ∧ s.pend = [] ∧
    ((∃ inp, s.f.mpc = .stopped inp) ∨ (∃ v, s.f.mpc = .fin .lock v) → FCSys.step T cap s (.stmt .main) = none) ∧
    (∀ j, j ≠ i → FCSys.step T cap s (.stmt (.cb j)) = none) ∧
    (∃ s1, FCSys.step T cap s .recv = some s1 ∧ (FCSys.step T cap s1 (.stmt (.cb i))).isSome = true) := by
  obtain ⟨hm, hnh, hn1⟩ := cb_excl s.f hci.inv i g .passed hi rfl
  have hp : s.pend = [] := by
    cases hpe : s.pend with
    | nil => rfl
    | cons x p =>
      obtain ⟨b, hb⟩ := hci.pendAt (by rw [hpe]; simp)
      rw [hb] at hnh; cases hnh
  refine ⟨?_, hm, hnh, hp, ?_, ?_, ?_⟩
  · simp only [FCSys.step, isMainL, Bool.false_and, Bool.false_eq_true, if_false, FSys.step, cbStep, hi]
    simp only [List.isEmpty_cons, Bool.false_eq_true, if_false, List.length_cons, List.length_nil, hfull]
    rw [if_neg (by omega)]
  · intro hpc
    have : mainStep T s.f = none := by
      rcases hpc with ⟨inp, h⟩ | ⟨v, h⟩ <;> simp [mainStep, h, hm]
    simp [FCSys.step, FSys.step, this, hp]
  · intro j hj
    have : cbStep s.f j = none := by
      unfold cbStep
      cases hcj : s.f.cbs[j]? with
      | none => rfl
      | some c =>
        obtain ⟨g', pc⟩ := c
        have hnc : crit pc = false := by
          have s4 := nCrit_set s.f.cbs i g .passed .gone hi
          simp [crit] at s4
          have h0 : nCrit (s.f.cbs.set i (g, .gone)) = 0 := by omega
          have hj' : (s.f.cbs.set i (g, .gone))[j]? = some (g', pc) := by
            rw [List.getElem?_set_ne (fun h => hj h.symm)]; exact hcj
          exact nCrit_zero h0 _ (List.mem_of_getElem? hj')
        cases pc <;> first | (cases hnc; done) | simp [hm]
    simp [FCSys.step, FSys.step, this, isMainL]
  · cases hc : s.chan with
    | nil => rw [hc] at hfull; simp at hfull; omega
    | cons x ch =>
      refine ⟨{ s with chan := ch, recvd := s.recvd ++ [x] }, by simp [FCSys.step, hc], ?_⟩
      have hlen : ch.length + 1 ≤ cap := by rw [hc] at hfull; simp at hfull; omega
      simp only [FCSys.step, isMainL, Bool.false_and, Bool.false_eq_true, if_false, FSys.step, cbStep, hi]
      simp only [List.isEmpty_cons, Bool.false_eq_true, if_false, List.length_cons, List.length_nil]
      rw [if_pos hlen]; rfl

/-- **The main goroutine blocked in an `emit` inside `anywhere` holds the mutex**: while items of
    `anywhere` are pending, its next statement (`Unlock`) is not enabled, the mutex is its, and no
    callback goroutine can take a step (those that have started wait in `Lock`). -/
theorem blocked_main (T : Table) (cap : Nat) (s : FCSys) (hci : CI cap s) (hpend : s.pend ≠ []) :
    FCSys.step T cap s (.stmt .main) = none ∧ s.f.mutex = some .main ∧
    (∀ j, FCSys.step T cap s (.stmt (.cb j)) = none) := by
  obtain ⟨b, hb⟩ := hci.pendAt hpend
  have hh : holdsMain s.f.mpc = true := by rw [hb]; rfl
  have hm := hci.inv.m1.mpr hh
  have hnc := nCrit_zero (main_no_crit hci.inv hh)
  refine ⟨?_, hm, ?_⟩
  · have : s.pend.isEmpty = false := by
      cases hp : s.pend with
      | nil => exact absurd hp hpend
      | cons x p => rfl
    simp [FCSys.step, isMainL, this]
  · intro j
    have : cbStep s.f j = none := by
      unfold cbStep
      cases hcj : s.f.cbs[j]? with
      | none => rfl
      | some c =>
        obtain ⟨g', pc⟩ := c
        have := hnc _ (List.mem_of_getElem? hcj)
        cases pc <;> first | (cases this; done) | simp [hm]
    simp [FCSys.step, FSys.step, this, isMainL]

end VaxisModel.Lemmas.ParserRunFineChan
