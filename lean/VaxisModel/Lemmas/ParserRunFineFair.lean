/-
C08: lemmas for the fair scheduler over the statement-grained life cycle with the bounded channel
(Model/ParserRunFineFair.lean): a measure that every transition other than `Close()` decreases, the
scheduler's invariants, "stuck ⇒ everything is over", and the resulting termination theorem.
-/
import VaxisModel.Model.ParserRunFineFair
import VaxisModel.Lemmas.ParserRunFineChan

namespace VaxisModel.Lemmas.ParserRunFineFair
open VaxisModel.Model.ParserTable VaxisModel.Model.Parser VaxisModel.Model.ParserRun VaxisModel.Model.ParserRunFine
open VaxisModel.Model.ParserRunFineChan VaxisModel.Model.ParserRunFineFair
open VaxisModel.Lemmas.ParserRunFine VaxisModel.Lemmas.ParserRunFineChan

/-! ### the measure -/

/-- Statements a callback goroutine still has to execute, plus two for the item it may emit. -/
def cbW : CbPc → Nat
  | .gone => 0 | .stSet => 1 | .failed => 1 | .stateSet => 2 | .emitted => 3
  | .passed => 6 | .locked => 7 | .started => 8

def cbsW : List (Nat × CbPc) → Nat
  | [] => 0
  | c :: l => cbW c.2 + cbsW l

/-- A pending timer: its expiry and the callback it starts. -/
def armedW : Option Nat → Nat
  | none => 0
  | some _ => 9

/-- Statements the main goroutine still has to execute when the reader has `k` more inputs, with
    what they may emit (at most `B` items per `anywhere`, two transitions per item) and the timer
    they may arm. -/
def mainW (B k : Nat) : MPc → Nat
  | .done => 0
  | .fin .close _ => 1
  | .fin .emit _ => 4
  | .fin .unlock _ => 5
  | .fin .bump _ => 6
  | .fin .lock _ => 7
  | .fin .stop _ => 8
  | .stepped true => 9
  | .atSelect => (24 + 2 * B) * k + 9
  | .stepped false => (24 + 2 * B) * k + 10
  | .bumped _ => (24 + 2 * B) * k + 20 + 2 * B
  | .locked _ => (24 + 2 * B) * k + 21 + 2 * B
  | .stopped _ => (24 + 2 * B) * k + 22 + 2 * B
  | .readDone _ => (24 + 2 * B) * k + 23 + 2 * B
  | .inRead => (24 + 2 * B) * k

def fmu (B : Nat) (f : FSys) (k : Nat) : Nat := mainW B k f.mpc + cbsW f.cbs + armedW f.armed

/-- The measure: statements still to be executed, two transitions for every item still to be sent,
    one for every item queued. -/
def mu (B : Nat) (s : FCSys) (sc : List Inp) : Nat := fmu B s.f sc.length + 2 * s.pend.length + s.chan.length

theorem cbsW_append (l : List (Nat × CbPc)) (c : Nat × CbPc) : cbsW (l ++ [c]) = cbsW l + cbW c.2 := by
  induction l with
  | nil => simp [cbsW]
  | cons x l ih => simp only [List.cons_append, cbsW, ih]; omega

theorem cbsW_set : ∀ (l : List (Nat × CbPc)) (i g : Nat) (pc pc' : CbPc), l[i]? = some (g, pc) →
    cbsW (l.set i (g, pc')) + cbW pc = cbsW l + cbW pc'
  | [], _, _, _, _, h => by simp at h
  | c :: l, 0, g, pc, pc', h => by
    simp only [List.getElem?_cons_zero, Option.some.injEq] at h
    subst h
    simp only [List.set_cons_zero, cbsW]; omega
  | c :: l, i + 1, g, pc, pc', h => by
    simp only [List.getElem?_cons_succ] at h
    have := cbsW_set l i g pc pc' h
    simp only [List.set_cons_succ, cbsW]; omega

theorem cbsW_le (l : List (Nat × CbPc)) : cbsW l ≤ 8 * l.length := by
  induction l with
  | nil => simp [cbsW]
  | cons c l ih =>
    have : cbW c.2 ≤ 8 := by cases c.2 <;> simp [cbW]
    simp only [cbsW, List.length_cons]; omega

theorem cbsW_zero (l : List (Nat × CbPc)) (h : cbsW l = 0) : ∀ c ∈ l, c.2 = .gone := by
  induction l with
  | nil => intro c hc; cases hc
  | cons x l ih =>
    simp only [cbsW] at h
    intro c hc
    rcases List.mem_cons.mp hc with rfl | hc
    · have : cbW c.2 = 0 := by omega
      revert this; cases c.2 <;> simp [cbW]
    · exact ih (by omega) c hc

/-! ### frame facts about callback statements -/

theorem cbStep_frame (f f' : FSys) (i : Nat) (o : List Seq) (h : cbStep f i = some (f', o)) :
    f'.mpc = f.mpc ∧ f'.closeReq = f.closeReq ∧ f'.chanClosed = f.chanClosed ∧ f'.armed = f.armed := by
  unfold cbStep at h
  split at h
  · cases h
  · rename_i g pc hi
    cases pc <;> simp only at h <;>
      first
        | (cases h; done)
        | (cases h; exact ⟨rfl, rfl, rfl, rfl⟩)
        | (split at h <;> first | (cases h; done) | (cases h; exact ⟨rfl, rfl, rfl, rfl⟩))

/-- A statement of a callback goroutine decreases the measure (its item included). -/
theorem cbStep_dec (B : Nat) (f f' : FSys) (i : Nat) (o : List Seq) (k : Nat) (h : cbStep f i = some (f', o)) :
    fmu B f' k + 2 * o.length < fmu B f k := by
  obtain ⟨h1, _, _, h4⟩ := cbStep_frame f f' i o h
  unfold cbStep at h
  split at h
  · cases h
  · rename_i g pc hi
    have key : ∀ pc', f'.cbs = f.cbs.set i (g, pc') → cbW pc' + 2 * o.length < cbW pc →
        fmu B f' k + 2 * o.length < fmu B f k := by
      intro pc' hc hw
      have := cbsW_set f.cbs i g pc pc' hi
      simp only [fmu, h1, h4, hc]; omega
    cases pc <;> simp only at h
    case started =>
      split at h
      · cases h; exact key .locked rfl (by simp [cbW])
      · cases h
    case locked =>
      cases h
      refine key (if g = f.escGen then .passed else .failed) rfl ?_
      split <;> simp [cbW]
    case passed => cases h; exact key .emitted rfl (by simp [cbW])
    case emitted => cases h; exact key .stateSet rfl (by simp [cbW])
    case stateSet => cases h; exact key .stSet rfl (by simp [cbW])
    case stSet => cases h; exact key .gone rfl (by simp [cbW])
    case failed => cases h; exact key .gone rfl (by simp [cbW])
    case gone => cases h

/-- A statement of the main goroutine decreases the measure (items and armed timer included). -/
theorem mainStep_dec (T : Table) (B : Nat) (hB : ∀ ps i, (VaxisModel.Model.Parser.step T ps i).out.length ≤ B) (f f' : FSys)
    (o : List Seq) (k : Nat) (h : mainStep T f = some (f', o)) : fmu B f' k + 2 * o.length < fmu B f k := by
  unfold mainStep at h
  have ha : ∀ a : Option Nat, armedW a ≤ 9 := by intro a; cases a <;> simp [armedW]
  have ha0 := ha f.armed
  cases hpc : f.mpc with
  | atSelect =>
    rw [hpc] at h; simp only at h
    split at h <;> (cases h; simp [fmu, hpc, mainW]; try omega)
  | inRead => rw [hpc] at h; cases h
  | readDone i => rw [hpc] at h; cases h; simp [fmu, hpc, mainW, armedW]; omega
  | stopped i =>
    rw [hpc] at h; simp only at h
    split at h
    · cases h; simp [fmu, hpc, mainW]
    · cases h
  | locked i => rw [hpc] at h; cases h; simp [fmu, hpc, mainW]
  | bumped i =>
    rw [hpc] at h
    simp only [Option.some.injEq, Prod.mk.injEq] at h
    obtain ⟨rfl, rfl⟩ := h
    have h1 := hB f.ps i
    have h2 := ha (if arms T i then some f.escGen else f.armed)
    have h3 : mainW B k (.stepped (stops T f.ps i)) ≤ (24 + 2 * B) * k + 10 := by
      cases stops T f.ps i <;> simp [mainW]
    have h4 : mainW B k (.bumped i) = (24 + 2 * B) * k + 20 + 2 * B := rfl
    simp only [fmu, hpc]
    omega
  | stepped b =>
    rw [hpc] at h; cases h
    cases b <;> simp [fmu, hpc, mainW] <;> omega
  | fin st v =>
    rw [hpc] at h
    cases st <;> simp only at h
    case stop => cases h; simp [fmu, hpc, mainW, armedW]; omega
    case lock =>
      split at h
      · cases h; simp [fmu, hpc, mainW]
      · cases h
    case bump => cases h; simp [fmu, hpc, mainW]
    case unlock => cases h; simp [fmu, hpc, mainW]
    case emit => cases h; simp [fmu, hpc, mainW]; omega
    case close => cases h; simp [fmu, hpc, mainW]
  | done => rw [hpc] at h; cases h

/-- Every statement but `Close()` and the read return decreases the measure. -/
theorem fstep_dec (T : Table) (B : Nat) (hB : ∀ ps i, (VaxisModel.Model.Parser.step T ps i).out.length ≤ B)
    (f f' : FSys) (l : FLabel) (o : List Seq) (k : Nat) (h : FSys.step T f l = some (f', o))
    (hl : l ≠ .closeSig) (hr : ∀ i, l ≠ .readRet i) : fmu B f' k + 2 * o.length < fmu B f k := by
  cases l with
  | closeSig => exact absurd rfl hl
  | readRet i => exact absurd rfl (hr i)
  | main => exact mainStep_dec T B hB f f' o k h
  | cb i => exact cbStep_dec B f f' i o k h
  | expire =>
    simp only [FSys.step] at h
    split at h
    · rename_i g hg
      cases h
      simp only [fmu, hg, cbsW_append, cbW, armedW, List.length_nil]
      omega
    · cases h

/-- The read return consumes one input of the script. -/
theorem readRet_dec (T : Table) (B : Nat) (f f' : FSys) (i : Inp) (o : List Seq) (k : Nat)
    (h : FSys.step T f (.readRet i) = some (f', o)) : fmu B f' k + 2 * o.length < fmu B f (k + 1) := by
  simp only [FSys.step] at h
  split at h
  · rename_i hpc
    cases h
    simp only [fmu, hpc, mainW, List.length_nil, Nat.mul_succ]
    omega
  · cases h

/-- What a transition of the layer is underneath. -/
theorem fc_step_f (T : Table) (cap : Nat) (s s' : FCSys) (l : FCLabel) (h : FCSys.step T cap s l = some s') :
    match l with
    | .stmt fl => ∃ o, FSys.step T s.f fl = some (s'.f, o)
    | _ => s'.f = s.f := by
  cases l with
  | send =>
    simp only [FCSys.step] at h
    split at h
    · cases h
    · split at h
      · cases h; rfl
      · cases h
  | recv =>
    simp only [FCSys.step] at h
    split at h
    · cases h
    · cases h; rfl
  | stmt fl =>
    simp only [FCSys.step] at h
    split at h
    · cases h
    · split at h
      · cases h
      · rename_i f' o hfs
        refine ⟨o, ?_⟩
        split at h
        · cases h; exact hfs
        · split at h
          · cases h; exact hfs
          · split at h
            · cases h; exact hfs
            · cases h

/-- **Every transition the scheduler may take decreases the measure.** -/
theorem step_dec (T : Table) (B : Nat) (hB : ∀ ps i, (VaxisModel.Model.Parser.step T ps i).out.length ≤ B) (cap : Nat)
    (s s' : FCSys) (l : FCLabel) (sc : List Inp) (h : FCSys.step T cap s l = some s')
    (hal : allowed sc l = true) : mu B s' (consume sc l) < mu B s sc := by
  cases l with
  | send =>
    simp only [FCSys.step] at h
    cases hp : s.pend with
    | nil => rw [hp] at h; cases h
    | cons x p =>
      rw [hp] at h
      simp only at h
      split at h
      · cases h
        simp only [mu, consume, hp, List.length_append, List.length_cons, List.length_nil]
        omega
      · cases h
  | recv =>
    simp only [FCSys.step] at h
    cases hc : s.chan with
    | nil => rw [hc] at h; cases h
    | cons x ch =>
      rw [hc] at h
      cases h
      simp only [mu, consume, hc, List.length_cons]
      omega
  | stmt fl =>
    simp only [FCSys.step] at h
    by_cases hg : (isMainL fl && !s.pend.isEmpty) = true
    · rw [if_pos hg] at h; cases h
    · rw [if_neg hg] at h
      cases hfs : FSys.step T s.f fl with
      | none => rw [hfs] at h; cases h
      | some res =>
        obtain ⟨f', o⟩ := res
        rw [hfs] at h
        simp only at h
        have key : fmu B f' (consume sc (.stmt fl)).length + 2 * o.length < fmu B s.f sc.length := by
          cases fl with
          | closeSig => simp [allowed] at hal
          | readRet i =>
            simp only [allowed, decide_eq_true_eq] at hal
            cases sc with
            | nil => simp at hal
            | cons j rest =>
              simp only [consume, List.tail_cons, List.length_cons]
              exact readRet_dec T B s.f f' i o rest.length hfs
          | main => exact fstep_dec T B hB s.f f' .main o _ hfs (by simp) (by simp)
          | expire => exact fstep_dec T B hB s.f f' .expire o _ hfs (by simp) (by simp)
          | cb i => exact fstep_dec T B hB s.f f' (.cb i) o _ hfs (by simp) (by simp)
        have hmainp : isMainL fl = true → s.pend = [] := by
          intro hm
          simp only [hm, Bool.true_and, Bool.not_eq_true'] at hg
          cases hp : s.pend with
          | nil => rfl
          | cons x p => rw [hp] at hg; simp at hg
        by_cases ha : (isMainL fl && atAnywhere s.f.mpc) = true
        · rw [if_pos ha] at h
          cases h
          simp only [Bool.and_eq_true] at ha
          have hp := hmainp ha.1
          simp only [mu, hp, List.length_nil] at key ⊢
          omega
        · rw [if_neg ha] at h
          by_cases ho : o.isEmpty = true
          · rw [if_pos ho] at h
            cases h
            simp only [mu] at key ⊢
            omega
          · rw [if_neg ho] at h
            split at h
            · cases h
              simp only [mu, List.length_append] at key ⊢
              omega
            · cases h

/-! ### the scheduler's invariant on the script -/

/-- The main goroutine is past the read that returned `eof`, or has left the loop. -/
def pastEof : MPc → Bool
  | .readDone .eof | .stopped .eof | .locked .eof | .bumped .eof | .stepped true | .fin _ _ | .done => true
  | _ => false

/-- `close(p.sequences)` is the last statement; when the script is used up the main goroutine is
    not going to read again (the last input was `eof`, or `Close()` has been called); a script that
    is not used up ends with `eof`. -/
structure E (f : FSys) (sc : List Inp) : Prop where
  dc : f.mpc = .done → f.chanClosed = true
  e1 : sc = [] → f.mpc ≠ .inRead ∧ (f.closeReq = true ∨ pastEof f.mpc = true)
  e2 : sc ≠ [] → sc.getLast? = some .eof

theorem E_pc (f : FSys) (sc : List Inp) (hE : E f sc) (f' : FSys) (hc : f'.closeReq = f.closeReq)
    (hd : f'.mpc = .done → f'.chanClosed = true)
    (hn : f'.mpc ≠ .inRead ∨ (f.closeReq = false ∧ pastEof f.mpc = false))
    (hp : pastEof f.mpc = true → pastEof f'.mpc = true) : E f' sc := by
  refine ⟨hd, fun hsc => ?_, hE.e2⟩
  obtain ⟨_, h2⟩ := hE.e1 hsc
  constructor
  · rcases hn with hn | ⟨hn1, hn2⟩
    · exact hn
    · rcases h2 with h2 | h2
      · rw [hn1] at h2; cases h2
      · rw [hn2] at h2; cases h2
  · rcases h2 with h2 | h2
    · exact Or.inl (by rw [hc]; exact h2)
    · exact Or.inr (hp h2)

theorem E_main (T : Table) (f f' : FSys) (o : List Seq) (sc : List Inp) (hE : E f sc)
    (h : mainStep T f = some (f', o)) : E f' sc := by
  unfold mainStep at h
  cases hpc : f.mpc with
  | atSelect =>
    rw [hpc] at h; simp only at h
    split at h
    · cases h; exact E_pc f sc hE _ rfl (by simp) (Or.inl (by simp)) (by simp [pastEof])
    · rename_i hcr
      cases h
      exact E_pc f sc hE _ rfl (by simp) (Or.inr ⟨by simpa using hcr, by simp [hpc, pastEof]⟩) (by simp [hpc, pastEof])
  | inRead => rw [hpc] at h; cases h
  | readDone i =>
    rw [hpc] at h; cases h
    exact E_pc f sc hE _ rfl (by simp) (Or.inl (by simp)) (by cases i <;> simp [hpc, pastEof])
  | stopped i =>
    rw [hpc] at h; simp only at h
    split at h
    · cases h; exact E_pc f sc hE _ rfl (by simp) (Or.inl (by simp)) (by cases i <;> simp [hpc, pastEof])
    · cases h
  | locked i =>
    rw [hpc] at h; cases h
    exact E_pc f sc hE _ rfl (by simp) (Or.inl (by simp)) (by cases i <;> simp [hpc, pastEof])
  | bumped i =>
    rw [hpc] at h; cases h
    exact E_pc f sc hE _ rfl (by simp) (Or.inl (by simp)) (by cases i <;> simp [hpc, pastEof, stops])
  | stepped b =>
    rw [hpc] at h; cases h
    exact E_pc f sc hE _ rfl (by cases b <;> simp) (Or.inl (by cases b <;> simp)) (by cases b <;> simp [hpc, pastEof])
  | fin st v =>
    rw [hpc] at h
    cases st <;> simp only at h
    case lock =>
      split at h
      · cases h; exact E_pc f sc hE _ rfl (by simp) (Or.inl (by simp)) (by simp [pastEof])
      · cases h
    all_goals
      cases h
      exact E_pc f sc hE _ rfl (by simp) (Or.inl (by simp)) (by simp [pastEof])
  | done => rw [hpc] at h; cases h

theorem E_same (f f' : FSys) (sc : List Inp) (hE : E f sc) (h1 : f'.mpc = f.mpc) (h2 : f'.closeReq = f.closeReq)
    (h3 : f'.chanClosed = f.chanClosed) : E f' sc :=
  ⟨by rw [h1, h3]; exact hE.dc, by rw [h1, h2]; exact hE.e1, hE.e2⟩

theorem E_step (T : Table) (f f' : FSys) (l : FLabel) (o : List Seq) (sc : List Inp) (hE : E f sc)
    (h : FSys.step T f l = some (f', o)) (hal : allowed sc (.stmt l) = true) : E f' (consume sc (.stmt l)) := by
  cases l with
  | closeSig => simp [allowed] at hal
  | main => exact E_main T f f' o sc hE h
  | cb i =>
    obtain ⟨h1, h2, h3, _⟩ := cbStep_frame f f' i o h
    exact E_same f f' sc hE h1 h2 h3
  | expire =>
    simp only [FSys.step] at h
    split at h
    · cases h; exact E_same f _ sc hE rfl rfl rfl
    · cases h
  | readRet i =>
    simp only [FSys.step] at h
    split at h
    · rename_i hpc
      cases h
      simp only [allowed, decide_eq_true_eq] at hal
      cases sc with
      | nil => simp at hal
      | cons j rest =>
        simp only [List.head?_cons, Option.some.injEq] at hal
        subst hal
        have hl := hE.e2 (by simp)
        simp only [consume, List.tail_cons]
        refine ⟨by simp, fun hr => ?_, fun hr => ?_⟩
        · subst hr
          simp only [List.getLast?_singleton, Option.some.injEq] at hl
          subst hl
          exact ⟨by simp, Or.inr rfl⟩
        · cases rest with
          | nil => exact absurd rfl hr
          | cons a r => rw [List.getLast?_cons_cons] at hl; exact hl
    · cases h

/-- The layer's transition keeps the script invariant. -/
theorem E_fc_step (T : Table) (cap : Nat) (s s' : FCSys) (l : FCLabel) (sc : List Inp) (hE : E s.f sc)
    (h : FCSys.step T cap s l = some s') (hal : allowed sc l = true) : E s'.f (consume sc l) := by
  have := fc_step_f T cap s s' l h
  cases l with
  | send => simp only at this; rw [this]; exact hE
  | recv => simp only at this; rw [this]; exact hE
  | stmt fl =>
    obtain ⟨o, ho⟩ := this
    exact E_step T s.f s'.f fl o sc hE ho hal

/-! ### after `Close()`, the main goroutine never reads again — in every schedule -/

theorem noRead_step (T : Table) (f f' : FSys) (l : FLabel) (o : List Seq)
    (hN : f.closeReq = true ∧ f.mpc ≠ .inRead) (h : FSys.step T f l = some (f', o)) :
    f'.closeReq = true ∧ f'.mpc ≠ .inRead := by
  cases l with
  | closeSig => simp only [FSys.step, Option.some.injEq, Prod.mk.injEq] at h; rw [← h.1]; exact ⟨rfl, hN.2⟩
  | readRet i =>
    simp only [FSys.step] at h
    split at h
    · rename_i hpc; exact absurd hpc hN.2
    · cases h
  | expire =>
    simp only [FSys.step] at h
    split at h
    · cases h; exact hN
    · cases h
  | cb i =>
    obtain ⟨h1, h2, _, _⟩ := cbStep_frame f f' i o h
    rw [h1, h2]; exact hN
  | main =>
    simp only [FSys.step] at h
    unfold mainStep at h
    obtain ⟨hc, hn⟩ := hN
    cases hpc : f.mpc with
    | atSelect => rw [hpc] at h; simp only [hc, if_true] at h; cases h; exact ⟨rfl, by simp⟩
    | inRead => exact absurd hpc hn
    | stopped i =>
      rw [hpc] at h; simp only at h
      split at h
      · cases h; exact ⟨hc, by simp⟩
      · cases h
    | stepped b => rw [hpc] at h; cases h; exact ⟨hc, by cases b <;> simp⟩
    | fin st v =>
      rw [hpc] at h
      cases st <;> simp only at h
      case lock =>
        split at h
        · cases h; exact ⟨hc, by simp⟩
        · cases h
      all_goals (cases h; exact ⟨hc, by simp⟩)
    | done => rw [hpc] at h; cases h
    | _ => rw [hpc] at h; cases h; exact ⟨hc, by simp⟩

theorem noRead_run (T : Table) (cap : Nat) (ls : List FCLabel) (s s' : FCSys)
    (hN : s.f.closeReq = true ∧ s.f.mpc ≠ .inRead) (h : FCSys.run T cap s ls = some s') :
    s'.f.closeReq = true ∧ s'.f.mpc ≠ .inRead := by
  induction ls generalizing s with
  | nil => simp only [FCSys.run, Option.some.injEq] at h; subst h; exact hN
  | cons l ls ih =>
    simp only [FCSys.run] at h
    cases hs : FCSys.step T cap s l with
    | none => rw [hs] at h; cases h
    | some s1 =>
      rw [hs] at h
      refine ih s1 ?_ h
      have := fc_step_f T cap s s1 l hs
      cases l with
      | send => simp only at this; rw [this]; exact hN
      | recv => simp only at this; rw [this]; exact hN
      | stmt fl =>
        obtain ⟨o, ho⟩ := this
        exact noRead_step T s.f s1.f fl o hN ho

/-! ### the scheduler -/

theorem firstEnabled_some (T : Table) (cap : Nat) (s : FCSys) : ∀ (ls : List FCLabel) (l : FCLabel) (s' : FCSys),
    firstEnabled T cap s ls = some (l, s') → l ∈ ls ∧ FCSys.step T cap s l = some s'
  | [], _, _, h => by cases h
  | x :: ls, l, s', h => by
    simp only [firstEnabled] at h
    cases hx : FCSys.step T cap s x with
    | some s1 =>
      rw [hx] at h
      simp only [Option.some.injEq, Prod.mk.injEq] at h
      obtain ⟨rfl, rfl⟩ := h
      exact ⟨List.mem_cons_self .., hx⟩
    | none =>
      rw [hx] at h
      obtain ⟨h1, h2⟩ := firstEnabled_some T cap s ls l s' h
      exact ⟨List.mem_cons_of_mem _ h1, h2⟩

theorem firstEnabled_none (T : Table) (cap : Nat) (s : FCSys) : ∀ (ls : List FCLabel),
    firstEnabled T cap s ls = none → ∀ l ∈ ls, FCSys.step T cap s l = none
  | [], _, _, hl => by cases hl
  | x :: ls, h, l, hl => by
    simp only [firstEnabled] at h
    cases hx : FCSys.step T cap s x with
    | some s1 => rw [hx] at h; cases h
    | none =>
      rw [hx] at h
      rcases List.mem_cons.mp hl with rfl | hl
      · exact hx
      · exact firstEnabled_none T cap s ls h l hl

theorem cands_allowed (pol : Policy) (s : FCSys) (sc : List Inp) : ∀ l ∈ cands pol s sc, allowed sc l = true := by
  intro l hl
  simp only [cands, List.mem_append, List.mem_filter] at hl
  rcases hl with ⟨_, h⟩ | h
  · exact h
  · simp only [defaults, critCbs, List.mem_append, List.mem_cons, List.mem_map, List.not_mem_nil, or_false] at h
    rcases h with ((((rfl | rfl) | ⟨i, _, rfl⟩) | rfl) | h) | ⟨i, _, rfl⟩
    · rfl
    · rfl
    · rfl
    · rfl
    · cases sc with
      | nil => simp [readL] at h
      | cons j rest =>
        simp only [readL, List.mem_cons, List.not_mem_nil, or_false] at h
        subst h
        simp [allowed]
    · rfl

/-- **The scheduler stops only when everything is over** (capacity ≥ 1): if none of its candidates is
    enabled, `run` has returned, nothing is in flight, every callback goroutine has returned. -/
theorem stuck_final (T : Table) (cap : Nat) (hcap : 0 < cap) (pol : Policy) (s : FCSys) (sc : List Inp)
    (hci : CI cap s) (hE : E s.f sc) (h : firstEnabled T cap s (cands pol s sc) = none) : Final s := by
  have hall := firstEnabled_none T cap s _ h
  have hd : ∀ l ∈ defaults s sc, FCSys.step T cap s l = none := fun l hl => hall l (List.mem_append_right _ hl)
  have hrecv : FCSys.step T cap s .recv = none := hd _ (by simp [defaults])
  have hsend : FCSys.step T cap s .send = none := hd _ (by simp [defaults])
  have hmain : FCSys.step T cap s (.stmt .main) = none := hd _ (by simp [defaults])
  have hcb : ∀ i, FCSys.step T cap s (.stmt (.cb i)) = none := by
    intro i
    by_cases hi : i < s.f.cbs.length
    · refine hd _ ?_
      simp only [defaults, List.mem_append, List.mem_map, List.mem_range]
      exact Or.inr ⟨i, hi, rfl⟩
    · have : s.f.cbs[i]? = none := by simp only [List.getElem?_eq_none_iff]; omega
      simp [FCSys.step, FSys.step, cbStep, this, isMainL]
  have hnr : s.f.mpc ≠ .inRead := by
    intro hr
    cases sc with
    | nil => exact (hE.e1 rfl).1 hr
    | cons j rest =>
      have := hd (.stmt (.readRet j)) (by simp [defaults, readL])
      simp [FCSys.step, FSys.step, hr, isMainL] at this
  have hfin : s.finished := by
    apply Classical.byContradiction
    intro hnf
    rcases chan_no_deadlock T cap hcap s hci hnr hnf with h | ⟨i, h⟩ | h | h
    · rw [hmain] at h; cases h
    · rw [hcb i] at h; cases h
    · rw [hsend] at h; cases h
    · rw [hrecv] at h; cases h
  obtain ⟨hdone, hp, hc⟩ := hfin
  refine ⟨hdone, hp, hc, ?_⟩
  have hen : ∀ i, (cbStep s.f i).isSome = true → False := by
    intro i hi
    rcases stmt_enabled_or_recv T cap hcap s (.cb i) hp (by simpa [FSys.step] using hi) with h | h
    · rw [hcb i] at h; cases h
    · rw [hrecv] at h; cases h
  have hnocrit : ∀ c ∈ s.f.cbs, crit c.2 = false := by
    intro c hc'
    cases hcr : crit c.2 with
    | false => rfl
    | true =>
      obtain ⟨i, hi⟩ := List.getElem?_of_mem hc'
      exact (hen i (crit_cb_enabled s.f i c.1 c.2 hi hcr)).elim
  have hmu : s.f.mutex = none := by
    have h1 := hci.inv.m1
    have h2 := hci.inv.m2
    cases hm : s.f.mutex with
    | none => rfl
    | some ow =>
      cases ow with
      | main => have := h1.mp hm; rw [hdone] at this; cases this
      | cb =>
        rw [hm] at h2
        have h0 : nCrit s.f.cbs = 0 := List.countP_eq_zero.mpr (by intro c hc; simp [hnocrit c hc])
        simp at h2; omega
  intro c hc'
  obtain ⟨i, hi⟩ := List.getElem?_of_mem hc'
  have hcr := hnocrit c hc'
  obtain ⟨g, pc⟩ := c
  cases pc with
  | gone => rfl
  | started =>
    exfalso
    apply hen i
    unfold cbStep
    rw [hi]
    simp [hmu]
  | _ => cases hcr

/-- **Termination of the fair run, with the measure as the bound**: from any state that meets the
    layer's invariant and the script invariant, with more fuel than the measure, the scheduler ends in
    a state where everything is over (no fuel exhaustion). -/
theorem fdrive_final (T : Table) (hT : TimerOk T) (B : Nat)
    (hB : ∀ ps i, (VaxisModel.Model.Parser.step T ps i).out.length ≤ B) (cap : Nat) (hcap : 0 < cap) (pol : Policy) :
    ∀ (fuel : Nat) (s : FCSys) (sc : List Inp), CI cap s → E s.f sc → mu B s sc < fuel →
      Final (fdrive T cap pol fuel s sc) ∧ E (fdrive T cap pol fuel s sc).f (frest T cap pol fuel s sc)
  | 0, _, _, _, _, hf => by omega
  | n + 1, s, sc, hci, hE, hf => by
    simp only [fdrive, frest]
    cases hfe : firstEnabled T cap s (cands pol s sc) with
    | none => exact ⟨stuck_final T cap hcap pol s sc hci hE hfe, hE⟩
    | some res =>
      obtain ⟨l, s'⟩ := res
      obtain ⟨hmem, hstep⟩ := firstEnabled_some T cap s _ l s' hfe
      have hal := cands_allowed pol s sc l hmem
      have hdec := step_dec T B hB cap s s' l sc hstep hal
      exact fdrive_final T hT B hB cap hcap pol n s' (consume sc l) (step_proj T hT cap s s' l hci hstep).1
        (E_fc_step T cap s s' l sc hE hstep hal) (by omega)

/-- The scheduler only takes transitions of the layer: its trace is a run to its end state. -/
theorem fdrive_is_run (T : Table) (cap : Nat) (pol : Policy) : ∀ (fuel : Nat) (s : FCSys) (sc : List Inp),
    FCSys.run T cap s (ftrace T cap pol fuel s sc) = some (fdrive T cap pol fuel s sc)
  | 0, _, _ => rfl
  | n + 1, s, sc => by
    simp only [fdrive, ftrace]
    cases hfe : firstEnabled T cap s (cands pol s sc) with
    | none => rfl
    | some res =>
      obtain ⟨l, s'⟩ := res
      obtain ⟨_, hstep⟩ := firstEnabled_some T cap s _ l s' hfe
      simp only [FCSys.run, hstep]
      exact fdrive_is_run T cap pol n s' (consume sc l)

theorem frun_append' (T : Table) (cap : Nat) (l1 l2 : List FCLabel) (s s1 : FCSys) (h1 : FCSys.run T cap s l1 = some s1) :
    FCSys.run T cap s (l1 ++ l2) = FCSys.run T cap s1 l2 := by
  induction l1 generalizing s with
  | nil => simp only [FCSys.run, Option.some.injEq] at h1; subst h1; rfl
  | cons l ls ih =>
    simp only [FCSys.run, List.cons_append] at h1 ⊢
    cases hs : FCSys.step T cap s l with
    | none => rw [hs] at h1; cases h1
    | some s2 => rw [hs] at h1; simp only; exact ih s2 h1

/-- The scheduler stops by itself within the measure, whatever the fuel. -/
theorem ftrace_length (T : Table) (B : Nat) (hB : ∀ ps i, (VaxisModel.Model.Parser.step T ps i).out.length ≤ B)
    (cap : Nat) (pol : Policy) : ∀ (fuel : Nat) (s : FCSys) (sc : List Inp),
    (ftrace T cap pol fuel s sc).length ≤ mu B s sc
  | 0, _, _ => by simp [ftrace]
  | n + 1, s, sc => by
    simp only [ftrace]
    cases hfe : firstEnabled T cap s (cands pol s sc) with
    | none => simp
    | some res =>
      obtain ⟨l, s'⟩ := res
      obtain ⟨hmem, hstep⟩ := firstEnabled_some T cap s _ l s' hfe
      have hdec := step_dec T B hB cap s s' l sc hstep (cands_allowed pol s sc l hmem)
      have := ftrace_length T B hB cap pol n s' (consume sc l)
      simp only [List.length_cons]
      omega

/-- The reads of the scheduler's trace are the script, in order, up to what is left. -/
theorem ftrace_reads (T : Table) (cap : Nat) (pol : Policy) : ∀ (fuel : Nat) (s : FCSys) (sc : List Inp),
    readsOf (ftrace T cap pol fuel s sc) ++ frest T cap pol fuel s sc = sc
  | 0, _, _ => by simp [ftrace, frest, readsOf]
  | n + 1, s, sc => by
    simp only [ftrace, frest]
    cases hfe : firstEnabled T cap s (cands pol s sc) with
    | none => simp [readsOf]
    | some res =>
      obtain ⟨l, s'⟩ := res
      obtain ⟨hmem, _⟩ := firstEnabled_some T cap s _ l s' hfe
      have hal := cands_allowed pol s sc l hmem
      have ih := ftrace_reads T cap pol n s' (consume sc l)
      cases l with
      | send => simpa [readsOf, consume] using ih
      | recv => simpa [readsOf, consume] using ih
      | stmt fl =>
        cases fl with
        | readRet i =>
          simp only [allowed, decide_eq_true_eq] at hal
          cases sc with
          | nil => simp at hal
          | cons j rest =>
            simp only [List.head?_cons, Option.some.injEq] at hal
            subst hal
            simp only [consume, List.tail_cons] at ih
            simp only [readsOf, consume, List.tail_cons, List.cons_append, ih]
        | closeSig => simpa [readsOf, consume] using ih
        | main => simpa [readsOf, consume] using ih
        | expire => simpa [readsOf, consume] using ih
        | cb i => simpa [readsOf, consume] using ih

/-! ### the start -/

theorem inputScript_length (rs : List Nat) : (inputScript rs).length = rs.length + 1 := by
  simp [inputScript]

theorem E_init (rs : List Nat) : E FCSys.init.f (inputScript rs) := by
  refine ⟨by simp [FCSys.init], fun h => ?_, fun _ => by simp [inputScript]⟩
  simp [inputScript] at h

theorem mu_init (B : Nat) (rs : List Nat) : mu B FCSys.init (inputScript rs) + 1 = stepBound B rs.length := by
  simp only [mu, fmu, inputScript_length, stepBound]
  simp [FCSys.init, mainW, cbsW, armedW]

/-! ### a bound on what one `anywhere` emits -/

theorem le_foldr_max (l : List Nat) (a : Nat) (h : a ∈ l) : a ≤ l.foldr max 0 := by
  induction l with
  | nil => cases h
  | cons x l ih =>
    simp only [List.foldr_cons]
    rcases List.mem_cons.mp h with rfl | h
    · exact Nat.le_max_left ..
    · exact Nat.le_trans (ih h) (Nat.le_max_right ..)

theorem runExitFn_out (s : PState) (e : ExitFn) : (runExitFn s e).2.length = 1 := by
  cases e <;> rfl

theorem applyAct_out_le (a : Act) (r : Rune) (s : PState) : (applyAct a r s).2.length ≤ 1 := by
  cases a <;> simp only [applyAct] <;> (try split) <;> (try split) <;>
    simp [runExitFn_out]

theorem runActs_out_le : ∀ (acts : List Act) (i : Inp) (s : PState) (out : List Seq) (n : Next),
    (runActs acts i s out n).2.1.length ≤ out.length + acts.length := by
  intro acts i s out n
  fun_induction runActs acts i s out n
  case case1 => simp
  case case2 => simp
  case case3 ih => simp only [List.length_cons]; omega
  case case4 a rest s out n hne r s' o hx ih =>
    have := applyAct_out_le a r s
    rw [hx] at this
    simp only [List.length_append, List.length_cons] at ih ⊢
    simp only at this
    omega
  case case5 => simp
  case case6 a rest s out n hne hu s' o hx ih =>
    have := applyAct_out_le a 0 s
    rw [hx] at this
    simp only [List.length_append, List.length_cons] at ih ⊢
    simp only at this
    omega

theorem findArm_mem (arms : List Arm) (d : Arm) (i : Inp) : findArm arms d i = d ∨ findArm arms d i ∈ arms := by
  induction arms with
  | nil => exact Or.inl rfl
  | cons a rest ih =>
    simp only [findArm]
    split
    · exact Or.inr (List.mem_cons_self ..)
    · rcases ih with h | h
      · exact Or.inl h
      · exact Or.inr (List.mem_cons_of_mem _ h)

theorem findEarly_mem (l : List Arm) (i : Inp) (a : Arm) (h : findEarly l i = some a) : a ∈ l := by
  induction l with
  | nil => cases h
  | cons x rest ih =>
    simp only [findEarly] at h
    split at h
    · cases h; exact List.mem_cons_self ..
    · exact List.mem_cons_of_mem _ (ih h)

theorem row_le (f : StateFn) (i : Inp) : (f.row i).1.length ≤ fnBound f := by
  unfold StateFn.row fnBound
  split
  · rename_i a ha
    have := le_foldr_max (f.early.map (fun a => a.acts.length)) a.acts.length
      (List.mem_map.mpr ⟨a, findEarly_mem _ _ _ ha, rfl⟩)
    simp only
    omega
  · simp only [List.length_append, StateFn.arm]
    rcases findArm_mem f.arms f.dflt i with h | h
    · rw [h]; omega
    · have := le_foldr_max (f.arms.map (fun a => a.acts.length)) (findArm f.arms f.dflt i).acts.length
        (List.mem_map.mpr ⟨_, h, rfl⟩)
      omega

theorem runFn_out_le (f : StateFn) (i : Inp) (s : PState) : (runFn f i s).2.1.length ≤ fnBound f := by
  have h1 := runActs_out_le (f.row i).1 i s [] (f.row i).2
  have h2 := row_le f i
  simp only [runFn]
  rcases hra : runActs (f.row i).1 i s [] (f.row i).2 with ⟨s', o', n'⟩
  rw [hra] at h1
  simp only [List.length_nil, Nat.zero_add] at h1 ⊢
  omega

theorem finish_out_le (s : PState) (out : List Seq) (n : Next) : (finish s out n).out.length ≤ out.length + 1 := by
  cases n <;> simp [finish]

/-- One `p.state = anywhere(r, p)` emits at most `tableBound T` items — any table. -/
theorem step_out_le (T : Table) (s : PState) (i : Inp) :
    (VaxisModel.Model.Parser.step T s i).out.length ≤ tableBound T := by
  have h1 := runFn_out_le T.anywhere i s
  unfold VaxisModel.Model.Parser.step tableBound
  split
  · rename_i s1 o1 heq
    rw [heq] at h1
    simp only at h1
    have h2 := runFn_out_le (T.fn s1.state) i s1
    have h3 := le_foldr_max (allStates.map (fun st => fnBound (T.fn st))) (fnBound (T.fn s1.state))
      (List.mem_map.mpr ⟨_, mem_allStates _, rfl⟩)
    rcases hr2 : runFn (T.fn s1.state) i s1 with ⟨s2, o2, n2⟩
    rw [hr2] at h2
    have h4 := finish_out_le s2 (o1 ++ o2) n2
    simp only [List.length_append] at h4
    simp only at h2 ⊢
    omega
  · rename_i s1 o1 n _ heq
    rw [heq] at h1
    simp only at h1
    have h4 := finish_out_le s1 o1 n
    omega

theorem hand_tableBound : tableBound handTable = 9 := by decide

/-! ### the end state -/

/-- When `run` has returned and every callback goroutine has returned, nobody holds the mutex and
    no timer is pending. -/
theorem final_quiet (f : FSys) (hinv : FInv f) (hd : f.mpc = .done) (hg : ∀ c ∈ f.cbs, c.2 = .gone) :
    f.mutex = none ∧ f.armed = none := by
  refine ⟨?_, armed_none hinv (by rw [hd]; rfl)⟩
  have h1 := hinv.m1
  have h2 := hinv.m2
  cases hm : f.mutex with
  | none => rfl
  | some ow =>
    cases ow with
    | main => have := h1.mp hm; rw [hd] at this; cases this
    | cb =>
      rw [hm] at h2
      have h0 : nCrit f.cbs = 0 := List.countP_eq_zero.mpr (by intro c hc; simp [hg c hc, crit])
      simp at h2; omega

/-- The measure of the state after `Close()` and the read return. -/
theorem mu_close (B : Nat) (cap : Nat) (s : FCSys) (hci : CI cap s) (hpc : s.f.mpc = .inRead) (i : Inp) :
    mu B { s with f := { s.f with mpc := .readDone i } } [] < closeBound B s.f.cbs.length s.chan.length := by
  have hp : s.pend = [] := by
    cases hpe : s.pend with
    | nil => rfl
    | cons x p =>
      obtain ⟨b, hb⟩ := hci.pendAt (by rw [hpe]; simp)
      rw [hb] at hpc; cases hpc
  have h1 := cbsW_le s.f.cbs
  have h2 : armedW s.f.armed ≤ 9 := by cases s.f.armed <;> simp [armedW]
  simp only [mu, fmu, mainW, closeBound, hp, List.length_nil]
  omega

/-! ### the parser's table: every input of the script is read (no rune ends the loop) -/

/-- While the main goroutine holds the mutex no callback goroutine can take a step. -/
theorem cb_none_of_main (f : FSys) (hinv : FInv f) (hh : holdsMain f.mpc = true) (j : Nat) : cbStep f j = none := by
  have hm := hinv.m1.mpr hh
  have hnc := nCrit_zero (main_no_crit hinv hh)
  unfold cbStep
  cases hcj : f.cbs[j]? with
  | none => rfl
  | some c =>
    obtain ⟨g', pc⟩ := c
    have := hnc _ (List.mem_of_getElem? hcj)
    cases pc <;> first | (cases this; done) | simp [hm]

/-- Reachable, the main goroutine has just locked the mutex: the automaton invariant holds of the
    parser fields as they are (through the simulation by the atomic system and its invariant). -/
theorem locked_invB (fls : List FLabel) (f : FSys) (out : List Seq)
    (h : FSys.run handTable FSys.init fls = some (f, out)) (i : Inp) (hpc : f.mpc = .locked i) :
    VaxisModel.Lemmas.ParserAbs.invB (VaxisModel.Lemmas.ParserAbs.α f.ps) = true := by
  obtain ⟨hinv, _, ls, b, oa, h1, _, _⟩ := reach_sim handTable handTable_timerOk fls f out h
  have hS := (VaxisModel.Lemmas.ParserRun.run_SInv ls Sys.init _ oa VaxisModel.Lemmas.ParserRun.SInv_init h1).1
  have hmid := main_no_mid hinv (by rw [hpc]; rfl)
  have hpc' : (abs handTable f b).pc = .inRead := by simp [abs, absPc, hpc]
  have := (hS (by rw [hpc']; decide)).1
  simpa [abs, absPs, hpc, hmid] using this

/-- No rune makes `anywhere` return nil. -/
def NS (f : FSys) : Prop := ∀ r, f.mpc = .bumped (.rune r) → stops handTable f.ps (.rune r) = false

theorem NS_step (fls : List FLabel) (f : FSys) (out : List Seq) (h : FSys.run handTable FSys.init fls = some (f, out))
    (hns : NS f) (l : FLabel) (f' : FSys) (o : List Seq) (hs : FSys.step handTable f l = some (f', o)) : NS f' := by
  intro r hpc'
  cases l with
  | closeSig =>
    simp only [FSys.step, Option.some.injEq, Prod.mk.injEq] at hs
    obtain ⟨rfl, _⟩ := hs
    exact hns r hpc'
  | readRet i =>
    simp only [FSys.step] at hs
    split at hs
    · cases hs; cases hpc'
    · cases hs
  | expire =>
    simp only [FSys.step] at hs
    split at hs
    · cases hs; exact hns r hpc'
    · cases hs
  | cb j =>
    obtain ⟨h1, _, _, _⟩ := cbStep_frame f f' j o hs
    have hinv := run_inv handTable handTable_timerOk fls _ f out FInv_init h
    have := cb_none_of_main f hinv (by rw [← h1, hpc']; rfl) j
    simp only [FSys.step] at hs
    rw [this] at hs; cases hs
  | main =>
    simp only [FSys.step] at hs
    unfold mainStep at hs
    cases hpc : f.mpc with
    | locked i =>
      rw [hpc] at hs
      cases hs
      simp only [MPc.bumped.injEq] at hpc'
      subst hpc'
      have := (VaxisModel.Lemmas.ParserAbs.hand_inv_step f.ps (locked_invB fls f out h _ hpc) (.rune r)).2.2
      simpa [stops, pstep, VaxisModel.Lemmas.ParserAbs.isEof] using this
    | atSelect => rw [hpc] at hs; simp only at hs; split at hs <;> (cases hs; cases hpc')
    | inRead => rw [hpc] at hs; cases hs
    | readDone i => rw [hpc] at hs; cases hs; cases hpc'
    | stopped i =>
      rw [hpc] at hs; simp only at hs
      split at hs
      · cases hs; cases hpc'
      · cases hs
    | bumped i => rw [hpc] at hs; cases hs; cases hpc'
    | stepped b => rw [hpc] at hs; cases hs; cases b <;> cases hpc'
    | fin st v =>
      rw [hpc] at hs
      cases st <;> simp only at hs
      case lock =>
        split at hs
        · cases hs; cases hpc'
        · cases hs
      all_goals (cases hs; cases hpc')
    | done => rw [hpc] at hs; cases hs

/-- `Close()` has not been called; the script is what is left of a finite input followed by `eof`;
    the main goroutine is past the read of `eof` only when the script is used up. -/
structure R (f : FSys) (sc : List Inp) : Prop where
  nc : f.closeReq = false
  shape : sc = [] ∨ ∃ rs, sc = inputScript rs
  pe : pastEof f.mpc = true → sc = []

theorem R_pc (f f' : FSys) (sc : List Inp) (hR : R f sc) (hc : f'.closeReq = f.closeReq)
    (hp : pastEof f'.mpc = true → pastEof f.mpc = true) : R f' sc :=
  ⟨by rw [hc]; exact hR.nc, hR.shape, fun h => hR.pe (hp h)⟩

theorem R_step (f f' : FSys) (l : FLabel) (o : List Seq) (sc : List Inp) (hns : NS f) (hR : R f sc)
    (hs : FSys.step handTable f l = some (f', o)) (hal : allowed sc (.stmt l) = true) :
    R f' (consume sc (.stmt l)) := by
  cases l with
  | closeSig => simp [allowed] at hal
  | cb j =>
    obtain ⟨h1, h2, _, _⟩ := cbStep_frame f f' j o hs
    exact R_pc f f' sc hR h2 (by rw [h1]; exact id)
  | expire =>
    simp only [FSys.step] at hs
    split at hs
    · cases hs; exact R_pc f _ sc hR rfl id
    · cases hs
  | readRet i =>
    simp only [FSys.step] at hs
    split at hs
    · cases hs
      simp only [allowed, decide_eq_true_eq] at hal
      cases sc with
      | nil => simp at hal
      | cons j rest =>
        simp only [List.head?_cons, Option.some.injEq] at hal
        subst hal
        simp only [consume, List.tail_cons]
        rcases hR.shape with h | ⟨rs, h⟩
        · cases h
        · cases rs with
          | nil =>
            simp only [inputScript, List.map_nil, List.nil_append, List.cons.injEq] at h
            obtain ⟨rfl, rfl⟩ := h
            exact ⟨hR.nc, Or.inl rfl, fun _ => rfl⟩
          | cons r rs' =>
            simp only [inputScript, List.map_cons, List.cons_append, List.cons.injEq] at h
            obtain ⟨rfl, rfl⟩ := h
            exact ⟨hR.nc, Or.inr ⟨rs', rfl⟩, fun hp => by simp [pastEof] at hp⟩
    · cases hs
  | main =>
    simp only [FSys.step, consume] at hs ⊢
    unfold mainStep at hs
    cases hpc : f.mpc with
    | atSelect =>
      rw [hpc] at hs
      simp only [hR.nc, Bool.false_eq_true, if_false] at hs
      cases hs
      exact R_pc f _ sc hR hR.nc.symm (by simp [pastEof])
    | inRead => rw [hpc] at hs; cases hs
    | readDone i => rw [hpc] at hs; cases hs; exact R_pc f _ sc hR rfl (by cases i <;> simp [hpc, pastEof])
    | stopped i =>
      rw [hpc] at hs; simp only at hs
      split at hs
      · cases hs; exact R_pc f _ sc hR rfl (by cases i <;> simp [hpc, pastEof])
      · cases hs
    | locked i => rw [hpc] at hs; cases hs; exact R_pc f _ sc hR rfl (by cases i <;> simp [hpc, pastEof])
    | bumped i =>
      rw [hpc] at hs; cases hs
      refine R_pc f _ sc hR rfl ?_
      cases i with
      | eof => simp [hpc, pastEof]
      | rune r => simp [hpc, pastEof, hns r hpc]
    | stepped b =>
      rw [hpc] at hs; cases hs
      exact R_pc f _ sc hR rfl (by cases b <;> simp [hpc, pastEof])
    | fin st v =>
      rw [hpc] at hs
      cases st <;> simp only at hs
      case lock =>
        split at hs
        · cases hs; exact R_pc f _ sc hR rfl (by simp [hpc, pastEof])
        · cases hs
      all_goals (cases hs; exact R_pc f _ sc hR rfl (by simp [hpc, pastEof]))
    | done => rw [hpc] at hs; cases hs

/-- **The parser's table: the scheduler keeps `R`** — in particular when the main goroutine is `done`
    the whole script has been read. -/
theorem fdrive_reads_all (cap : Nat) (pol : Policy) : ∀ (fuel : Nat) (s : FCSys) (sc : List Inp),
    (∃ fls out, FSys.run handTable FSys.init fls = some (s.f, out)) → NS s.f → R s.f sc →
    R (fdrive handTable cap pol fuel s sc).f (frest handTable cap pol fuel s sc)
  | 0, _, _, _, _, hR => hR
  | n + 1, s, sc, ⟨fls, out, hreach⟩, hns, hR => by
    simp only [fdrive, frest]
    cases hfe : firstEnabled handTable cap s (cands pol s sc) with
    | none => exact hR
    | some res =>
      obtain ⟨l, s'⟩ := res
      obtain ⟨hmem, hstep⟩ := firstEnabled_some handTable cap s _ l s' hfe
      have hal := cands_allowed pol s sc l hmem
      have hf := fc_step_f handTable cap s s' l hstep
      cases l with
      | send =>
        simp only at hf
        exact fdrive_reads_all cap pol n s' _ ⟨fls, out, by rw [hf]; exact hreach⟩ (by rw [hf]; exact hns)
          (by rw [hf]; exact hR)
      | recv =>
        simp only at hf
        exact fdrive_reads_all cap pol n s' _ ⟨fls, out, by rw [hf]; exact hreach⟩ (by rw [hf]; exact hns)
          (by rw [hf]; exact hR)
      | stmt fl =>
        obtain ⟨o, ho⟩ := hf
        have hrun1 : FSys.run handTable s.f [fl] = some (s'.f, o ++ []) := by simp [FSys.run, ho]
        exact fdrive_reads_all cap pol n s' _
          ⟨fls ++ [fl], out ++ (o ++ []), frun_append handTable fls [fl] FSys.init s.f s'.f out _ hreach hrun1⟩
          (NS_step fls s.f out hreach hns fl s'.f o ho) (R_step s.f s'.f fl o sc hns hR ho hal)

theorem R_init (rs : List Nat) : R FCSys.init.f (inputScript rs) :=
  ⟨rfl, Or.inr ⟨rs, rfl⟩, fun h => by simp [FCSys.init, pastEof] at h⟩

theorem NS_init : NS FCSys.init.f := by intro r h; simp [FCSys.init] at h

/-- More fuel than the measure changes nothing: the scheduler has stopped by itself. -/
theorem fdrive_stable (T : Table) (hT : TimerOk T) (B : Nat)
    (hB : ∀ ps i, (VaxisModel.Model.Parser.step T ps i).out.length ≤ B) (cap : Nat) (pol : Policy) :
    ∀ (fuel : Nat) (s : FCSys) (sc : List Inp), CI cap s → mu B s sc < fuel → ∀ k,
      fdrive T cap pol (fuel + k) s sc = fdrive T cap pol fuel s sc ∧
      ftrace T cap pol (fuel + k) s sc = ftrace T cap pol fuel s sc
  | 0, _, _, _, hf, _ => by omega
  | n + 1, s, sc, hci, hf, k => by
    rw [Nat.add_right_comm n 1 k]
    simp only [fdrive, ftrace]
    cases hfe : firstEnabled T cap s (cands pol s sc) with
    | none => exact ⟨rfl, rfl⟩
    | some res =>
      obtain ⟨l, s'⟩ := res
      obtain ⟨hmem, hstep⟩ := firstEnabled_some T cap s _ l s' hfe
      have hdec := step_dec T B hB cap s s' l sc hstep (cands_allowed pol s sc l hmem)
      obtain ⟨h1, h2⟩ := fdrive_stable T hT B hB cap pol n s' (consume sc l) (step_proj T hT cap s s' l hci hstep).1
        (by omega) k
      simp only [h1, h2, and_self]

/-! ### `Close()` inside the fair run -/

/-- Any number of transitions of the scheduler keeps the invariants, and the transitions taken plus
    the measure left are within the measure at the start. -/
theorem fdrive_inv (T : Table) (hT : TimerOk T) (B : Nat)
    (hB : ∀ ps i, (VaxisModel.Model.Parser.step T ps i).out.length ≤ B) (cap : Nat) (pol : Policy) :
    ∀ (n : Nat) (s : FCSys) (sc : List Inp), CI cap s → E s.f sc →
      CI cap (fdrive T cap pol n s sc) ∧ E (fdrive T cap pol n s sc).f (frest T cap pol n s sc) ∧
      (ftrace T cap pol n s sc).length + mu B (fdrive T cap pol n s sc) (frest T cap pol n s sc) ≤ mu B s sc
  | 0, s, sc, hci, hE => ⟨hci, hE, by simp [ftrace, fdrive, frest]⟩
  | n + 1, s, sc, hci, hE => by
    simp only [fdrive, frest, ftrace]
    cases hfe : firstEnabled T cap s (cands pol s sc) with
    | none => exact ⟨hci, hE, by simp⟩
    | some res =>
      obtain ⟨l, s'⟩ := res
      obtain ⟨hmem, hstep⟩ := firstEnabled_some T cap s _ l s' hfe
      have hal := cands_allowed pol s sc l hmem
      have hdec := step_dec T B hB cap s s' l sc hstep hal
      obtain ⟨h1, h2, h3⟩ := fdrive_inv T hT B hB cap pol n s' (consume sc l) (step_proj T hT cap s s' l hci hstep).1
        (E_fc_step T cap s s' l sc hE hstep hal)
      refine ⟨h1, h2, ?_⟩
      simp only [List.length_cons]
      omega

theorem close_step (T : Table) (cap : Nat) (s : FCSys) : FCSys.step T cap s (.stmt .closeSig) = some (closeOf s) := by
  simp [FCSys.step, FSys.step, isMainL, closeOf]

theorem E_close (s : FCSys) (sc : List Inp) (hE : E s.f sc) : E (closeOf s).f sc :=
  ⟨hE.dc, fun h => ⟨(hE.e1 h).1, Or.inl rfl⟩, hE.e2⟩

theorem mu_close_eq (B : Nat) (s : FCSys) (sc : List Inp) : mu B (closeOf s) sc = mu B s sc := rfl

theorem readsOf_append (l1 l2 : List FCLabel) : readsOf (l1 ++ l2) = readsOf l1 ++ readsOf l2 := by
  induction l1 with
  | nil => rfl
  | cons l ls ih =>
    cases l with
    | send => simpa [readsOf] using ih
    | recv => simpa [readsOf] using ih
    | stmt fl => cases fl <;> simp [readsOf, ih]

theorem closeReq_step (T : Table) (f f' : FSys) (l : FLabel) (o : List Seq) (hc : f.closeReq = true)
    (h : FSys.step T f l = some (f', o)) : f'.closeReq = true := by
  by_cases hr : f.mpc = .inRead
  · cases l with
    | closeSig => simp only [FSys.step, Option.some.injEq, Prod.mk.injEq] at h; rw [← h.1]
    | readRet i =>
      simp only [FSys.step, hr, if_true, Option.some.injEq, Prod.mk.injEq] at h
      rw [← h.1]; exact hc
    | expire =>
      simp only [FSys.step] at h
      split at h
      · simp only [Option.some.injEq, Prod.mk.injEq] at h; rw [← h.1]; exact hc
      · cases h
    | cb i => obtain ⟨_, h2, _, _⟩ := cbStep_frame f f' i o h; rw [h2]; exact hc
    | main => simp [FSys.step, mainStep, hr] at h
  · exact (noRead_step T f f' l o ⟨hc, hr⟩ h).1

/-- **After `Close()` at most one read returns — in every schedule**: the pending one, if the main
    goroutine is blocked in the read; none otherwise. -/
theorem reads_after_close (T : Table) (cap : Nat) : ∀ (ls : List FCLabel) (s s' : FCSys), s.f.closeReq = true →
    FCSys.run T cap s ls = some s' → (readsOf ls).length ≤ (if s.f.mpc = .inRead then 1 else 0)
  | [], _, _, _, _ => by simp [readsOf]
  | l :: ls, s, s', hc, h => by
    simp only [FCSys.run] at h
    cases hs : FCSys.step T cap s l with
    | none => rw [hs] at h; cases h
    | some s1 =>
      rw [hs] at h
      have hf := fc_step_f T cap s s1 l hs
      cases l with
      | send =>
        simp only at hf
        have := reads_after_close T cap ls s1 s' (by rw [hf]; exact hc) h
        rw [hf] at this; simpa [readsOf] using this
      | recv =>
        simp only at hf
        have := reads_after_close T cap ls s1 s' (by rw [hf]; exact hc) h
        rw [hf] at this; simpa [readsOf] using this
      | stmt fl =>
        obtain ⟨o, ho⟩ := hf
        have hc1 := closeReq_step T s.f s1.f fl o hc ho
        have ih := reads_after_close T cap ls s1 s' hc1 h
        cases fl with
        | readRet i =>
          simp only [FSys.step] at ho
          split at ho
          · rename_i hpc
            simp only [Option.some.injEq, Prod.mk.injEq] at ho
            have : s1.f.mpc = .readDone i := by rw [← ho.1]
            rw [this] at ih
            have ih' : (readsOf ls).length ≤ 0 := by simpa using ih
            simp only [readsOf, List.length_cons, hpc, if_true]
            omega
          · cases ho
        | closeSig =>
          have hm : s1.f.mpc = s.f.mpc := by
            simp only [FSys.step, Option.some.injEq, Prod.mk.injEq] at ho; rw [← ho.1]
          rw [hm] at ih; simpa [readsOf] using ih
        | main =>
          have hnr : s1.f.mpc ≠ .inRead := by
            by_cases hr : s.f.mpc = .inRead
            · simp [FSys.step, mainStep, hr] at ho
            · exact (noRead_step T s.f s1.f .main o ⟨hc, hr⟩ ho).2
          simp only [hnr, if_false] at ih
          simp only [readsOf]; omega
        | expire =>
          have hm : s1.f.mpc = s.f.mpc := by
            simp only [FSys.step] at ho
            split at ho
            · simp only [Option.some.injEq, Prod.mk.injEq] at ho; rw [← ho.1]
            · cases ho
          rw [hm] at ih; simpa [readsOf] using ih
        | cb j =>
          have hm : s1.f.mpc = s.f.mpc := (cbStep_frame s.f s1.f j o ho).1
          rw [hm] at ih; simpa [readsOf] using ih

end VaxisModel.Lemmas.ParserRunFineFair
