/-
C08: closing the loop between the normal forms of schedules (Lemmas/ParserRunSchedNormal.lean,
Lemmas/ParserRunSchedGroup.lean) — the grouping normalisations keep a schedule expiry-normal.
-/
import VaxisModel.Props.C08Sched
import VaxisModel.Lemmas.ParserRunSchedNormal
import VaxisModel.Lemmas.ParserRunSchedGroup

namespace VaxisModel.Lemmas.ParserRunSchedEnum
open VaxisModel.Model.ParserTable VaxisModel.Model.Parser VaxisModel.Model.ParserRun VaxisModel.Model.ParserRunFine
open VaxisModel.Props.C08Sched VaxisModel.Lemmas.ParserRunSchedNormal VaxisModel.Lemmas.ParserRunSchedGroup
open VaxisModel.Lemmas.ParserRunFine hiding pend

theorem step2_some (T : Table) (f f1 f2 : FSys) (a b : FLabel) (o1 o2 : List Seq)
    (h1 : FSys.step T f a = some (f1, o1)) (h2 : FSys.step T f1 b = some (f2, o2)) :
    step2 T f a b = some (f2, o1 ++ (o2 ++ [])) := by
  simp [step2, FSys.run, h1, h2]

theorem step2_inv (T : Table) (f : FSys) (a b : FLabel) (r : FSys × List Seq) (h : step2 T f a b = some r) :
    ∃ f1 o1 o2, FSys.step T f a = some (f1, o1) ∧ FSys.step T f1 b = some (r.1, o2) := by
  simp only [step2, FSys.run] at h
  cases h1 : FSys.step T f a with
  | none => rw [h1] at h; cases h
  | some x =>
    obtain ⟨f1, o1⟩ := x
    rw [h1] at h
    simp only at h
    cases h2 : FSys.step T f1 b with
    | none => rw [h2] at h; cases h
    | some y =>
      obtain ⟨f2, o2⟩ := y
      rw [h2] at h
      simp only [Option.some.injEq] at h
      exact ⟨f1, o1, o2, rfl, by rw [← h]; exact h2⟩

theorem isArming_not_main (T : Table) (f : FSys) (l : FLabel) (hl : l ≠ .main) : isArming T f l = false := by
  cases l <;> first | rfl | exact absurd rfl hl

/-- **Carrying a read return forward keeps a schedule expiry-normal.** -/
theorem readNorm_expNormal (T : Table) : ∀ (ls : List FLabel) (p : Option Inp) (f : FSys) (fl : Bool),
    (FSys.run T f (pend p ++ ls)).isSome = true → expNormal T fl f (pend p ++ ls) = true →
    expNormal T fl f (readNorm T p f ls) = true
  | [], p, f, fl, _, h => by simpa [readNorm] using h
  | l :: ls, none, f, fl, hr, h => by
    simp only [ParserRunSchedGroup.pend, List.nil_append] at hr h
    simp only [readNorm]
    split
    · rename_i i
      exact readNorm_expNormal T ls (some i) f fl hr h
    · obtain ⟨f', o, hs, hr'⟩ := isSome_cons T f l ls hr
      simp only [expNormal, hs, Bool.and_eq_true] at h
      simp only [hs, expNormal, Bool.and_eq_true]
      exact ⟨h.1, readNorm_expNormal T ls none f' _ hr' h.2⟩
  | l :: ls, some i, f, fl, hr, h => by
    simp only [ParserRunSchedGroup.pend, List.singleton_append] at hr h
    obtain ⟨f1, o1, hs1, hr1⟩ := isSome_cons T f _ _ hr
    obtain ⟨f12, o12, hs12, hr12⟩ := isSome_cons T f1 l _ hr1
    have hne : FLabel.readRet i ≠ .expire := by intro hh; cases hh
    have hia0 : isArming T f (.readRet i) = false := rfl
    simp only [expNormal, hs1, hs12, if_neg hne, Bool.true_and, Bool.and_eq_true, hia0] at h
    simp only [readNorm]
    by_cases hl : l = .main
    · subst hl
      rw [if_pos rfl]
      have hrun : FSys.run T f [.readRet i, .main] = some (f12, o1 ++ (o12 ++ [])) := by
        simp only [FSys.run, hs1, hs12]
      simp only [hrun, expNormal, hs1, hs12, if_neg hne, Bool.true_and, Bool.and_eq_true, hia0]
      exact ⟨h.1, readNorm_expNormal T ls none f12 _ hr12 h.2⟩
    · rw [if_neg hl]
      have hc := readRet_commutes T f i l hl
      rw [step2_some T f f1 f12 _ _ o1 o12 hs1 hs12] at hc
      obtain ⟨f', o', o2', hs', hs'2⟩ := step2_inv T f l (.readRet i) _ hc.symm
      simp only at hs'2
      have hle : l ≠ .expire := by
        intro hh
        rw [if_pos hh] at h
        exact absurd h.1 (by simp)
      have hia := isArming_not_main T f l hl
      have hia1 := isArming_not_main T f1 l hl
      rw [hia1] at h
      simp only [hs', expNormal, if_neg hle, Bool.true_and, hia]
      refine readNorm_expNormal T ls (some i) f' false ?_ ?_
      · simp only [ParserRunSchedGroup.pend, List.singleton_append]
        rw [run_cons_some T f' f12 _ o2' _ hs'2]
        cases hx : FSys.run T f12 ls with
        | none => rw [hx] at hr12; cases hr12
        | some x => rfl
      · have hia0' : isArming T f' (.readRet i) = false := rfl
        simp only [ParserRunSchedGroup.pend, List.singleton_append, expNormal, hs'2, if_neg hne, Bool.true_and, hia0']
        exact h.2

theorem cb_mpc (f f' : FSys) (k : Nat) (o : List Seq) (hs : cbStep f k = some (f', o)) : f'.mpc = f.mpc := by
  unfold cbStep at hs
  split at hs
  · cases hs
  · rename_i g pc hk
    cases pc <;> simp only at hs <;>
      first
        | (cases hs; done)
        | (cases hs; rfl)
        | (split at hs <;> first | (cases hs; done) | (cases hs; rfl))

theorem isArming_holds (T : Table) (f : FSys) (l : FLabel) (h : holdsMain f.mpc = false) : isArming T f l = false := by
  cases l with
  | main =>
    simp only [isArming]
    cases hpc : f.mpc <;> first | rfl | (rw [hpc] at h; cases h)
  | _ => rfl

/-- **Carrying a callback's failed check / `p.ignoreST = false` forward keeps a schedule expiry-normal.** -/
theorem cbNorm_expNormal (T : Table) (hT : TimerOk T) : ∀ (ls : List FLabel) (p : Option Nat) (f : FSys) (fl : Bool),
    FInv f → (∀ k, p = some k → opens f k = true) → (FSys.run T f (pendc p ++ ls)).isSome = true →
    expNormal T fl f (pendc p ++ ls) = true → expNormal T fl f (cbNorm T p f ls) = true
  | [], p, f, fl, _, _, _, h => by simpa [cbNorm] using h
  | l :: ls, none, f, fl, hinv, _, hr, h => by
    simp only [pendc, List.nil_append] at hr h
    simp only [cbNorm]
    cases ho : openK f l with
    | some k =>
      obtain ⟨rfl, hop⟩ := openK_spec f l k ho
      exact cbNorm_expNormal T hT ls (some k) f fl hinv (fun k' hk' => by cases hk'; exact hop) hr h
    | none =>
      obtain ⟨f', o, hs, hr'⟩ := isSome_cons T f l ls hr
      simp only [expNormal, hs, Bool.and_eq_true] at h
      simp only [hs, expNormal, Bool.and_eq_true]
      exact ⟨h.1, cbNorm_expNormal T hT ls none f' _ (step_inv T hT f f' l o hinv hs) (fun _ h => by cases h) hr' h.2⟩
  | l :: ls, some k, f, fl, hinv, hop, hr, h => by
    have hop := hop k rfl
    simp only [pendc, List.singleton_append] at hr h
    obtain ⟨f1, o1, hs1, hr1⟩ := isSome_cons T f _ _ hr
    obtain ⟨f12, o12, hs12, hr12⟩ := isSome_cons T f1 l _ hr1
    have hne : FLabel.cb k ≠ .expire := by intro hh; cases hh
    have hia0 : isArming T f (.cb k) = false := rfl
    simp only [expNormal, hs1, hs12, if_neg hne, Bool.true_and, Bool.and_eq_true, hia0] at h
    simp only [cbNorm]
    by_cases hl : l = .cb k
    · subst hl
      rw [if_pos rfl]
      have hrun : FSys.run T f [.cb k, .cb k] = some (f12, o1 ++ (o12 ++ [])) := by
        simp only [FSys.run, hs1, hs12]
      have ih := cbNorm_expNormal T hT ls none f12 _ (run_inv T hT _ f f12 _ hinv hrun) (fun _ h => by cases h) hr12 h.2
      simp only [hrun, expNormal, hs1, hs12, if_neg hne, Bool.true_and, hia0]
      exact ih
    · rw [if_neg hl]
      obtain ⟨g, pc, hk, hpc, _⟩ := opens_spec f k hop
      obtain ⟨hm, _⟩ := opens_crit f hinv k hop
      have hc := cb_mid_commutes T f k g pc l hk hpc hl hm
      rw [step2_some T f f1 f12 _ _ o1 o12 hs1 hs12] at hc
      obtain ⟨f', o', o2', hs', hs'2⟩ := step2_inv T f l (.cb k) _ hc.symm
      simp only at hs'2
      have hle : l ≠ .expire := by
        intro hh
        rw [if_pos hh] at h
        exact absurd h.1 (by simp)
      have hia := isArming_holds T f l hm
      have hm1 : f1.mpc = f.mpc := cb_mpc f f1 k o1 (by simpa [FSys.step] using hs1)
      have hia1 := isArming_holds T f1 l (by rw [hm1]; exact hm)
      rw [hia1] at h
      simp only [hs', expNormal, if_neg hle, Bool.true_and, hia]
      refine cbNorm_expNormal T hT ls (some k) f' false (step_inv T hT f f' l o' hinv hs')
        (fun k' hk' => by cases hk'; exact opens_keep T f f' l o' k hinv hs' hl hop) ?_ ?_
      · simp only [pendc, List.singleton_append]
        rw [run_cons_some T f' f12 _ o2' _ hs'2]
        cases hx : FSys.run T f12 ls with
        | none => rw [hx] at hr12; cases hr12
        | some x => rfl
      · have hia0' : isArming T f' (.cb k) = false := rfl
        simp only [pendc, List.singleton_append, expNormal, hs'2, if_neg hne, Bool.true_and, hia0']
        exact h.2

/-! ### the grouping normalisations keep a schedule `Close()`-normal -/

theorem allClose_cons (l : FLabel) (ls : List FLabel) (h : allClose (l :: ls) = true) :
    l = .closeSig ∧ allClose ls = true := by
  simpa [allClose] using h

theorem allClose_mpc (T : Table) : ∀ (ls : List FLabel) (f : FSys) (r : FSys × List Seq), allClose ls = true →
    FSys.run T f ls = some r → r.1.mpc = f.mpc ∧ r.1.cbs = f.cbs
  | [], f, r, _, h => by simp only [FSys.run, Option.some.injEq] at h; rw [← h]; exact ⟨rfl, rfl⟩
  | l :: ls, f, r, ha, h => by
    obtain ⟨rfl, ha'⟩ := allClose_cons l ls ha
    rw [run_close_cons] at h
    exact allClose_mpc T ls (closeF f) r ha' h

theorem readNorm_allClose (T : Table) : ∀ (ls : List FLabel) (f : FSys), allClose ls = true →
    readNorm T none f ls = ls
  | [], _, _ => rfl
  | l :: ls, f, ha => by
    obtain ⟨rfl, ha'⟩ := allClose_cons l ls ha
    simp only [readNorm, step_close, readNorm_allClose T ls (closeF f) ha']

theorem readNorm_head (T : Table) (f : FSys) (ls : List FLabel) (hr : (FSys.run T f ls).isSome = true)
    (h : headIsMain ls = true) : headIsMain (readNorm T none f ls) = true := by
  cases ls with
  | nil => cases h
  | cons l ls =>
    cases l <;> first | (cases h; done) | skip
    obtain ⟨f', o, hs, _⟩ := isSome_cons T f .main ls hr
    simp only [readNorm, hs, headIsMain]

/-- **Carrying a read return forward keeps a schedule `Close()`-normal** (for a schedule that runs and
    does not end between a read return and its `Stop()`). -/
theorem readNorm_closeNormal (T : Table) : ∀ (ls : List FLabel) (p : Option Inp) (f : FSys),
    EndOk T f (ParserRunSchedGroup.pend p ++ ls) → closeNormal T f (ParserRunSchedGroup.pend p ++ ls) = true →
    closeNormal T f (readNorm T p f ls) = true
  | [], p, f, _, h => by simpa [readNorm] using h
  | l :: ls, none, f, he, h => by
    simp only [ParserRunSchedGroup.pend, List.nil_append] at he h
    obtain ⟨f', o, hs, he'⟩ := EndOk_cons T f l ls he
    simp only [readNorm]
    split
    · rename_i i
      exact readNorm_closeNormal T ls (some i) f he h
    · rename_i hnr
      simp only [hs]
      have hrs : (FSys.run T f' ls).isSome = true := by obtain ⟨r, hr, _⟩ := he'; rw [hr]; rfl
      by_cases hl : l = .closeSig
      · subst hl
        rw [step_close] at hs
        simp only [Option.some.injEq, Prod.mk.injEq] at hs
        obtain ⟨rfl, _⟩ := hs
        simp only [closeNormal, if_true, Bool.and_eq_true, Bool.or_eq_true] at h ⊢
        refine ⟨?_, readNorm_closeNormal T ls none _ he' h.2⟩
        rcases h.1 with ha | ha
        · left; rw [readNorm_allClose T ls _ ha]; exact ha
        · right; exact ⟨ha.1, readNorm_head T _ ls hrs ha.2⟩
      · simp only [closeNormal, if_neg hl, hs] at h ⊢
        exact readNorm_closeNormal T ls none f' he' h
  | l :: ls, some i, f, he, h => by
    simp only [ParserRunSchedGroup.pend, List.singleton_append] at he h
    obtain ⟨f1, o1, hs1, he1⟩ := EndOk_cons T f _ _ he
    obtain ⟨f12, o12, hs12, he12⟩ := EndOk_cons T f1 l _ he1
    have hne : FLabel.readRet i ≠ .closeSig := by intro hh; cases hh
    simp only [closeNormal, if_neg hne, hs1] at h
    simp only [readNorm]
    by_cases hl : l = .main
    · subst hl
      rw [if_pos rfl]
      have hrun : FSys.run T f [.readRet i, .main] = some (f12, o1 ++ (o12 ++ [])) := by
        simp only [FSys.run, hs1, hs12]
      have hnm : FLabel.main ≠ .closeSig := by decide
      simp only [closeNormal, if_neg hnm, hs12] at h
      simp only [hrun, closeNormal, if_neg hne, hs1, if_neg hnm, hs12]
      exact readNorm_closeNormal T ls none f12 he12 h
    · rw [if_neg hl]
      have hc := readRet_commutes T f i l hl
      rw [step2_some T f f1 f12 _ _ o1 o12 hs1 hs12] at hc
      obtain ⟨f', o', o2', hs', hs'2⟩ := step2_inv T f l (.readRet i) _ hc.symm
      simp only at hs'2
      have hf1 : f1.mpc = .readDone i := by
        simp only [FSys.step] at hs1
        split at hs1
        · simp only [Option.some.injEq, Prod.mk.injEq] at hs1; rw [← hs1.1]
        · cases hs1
      have hlc : l ≠ .closeSig := by
        rintro rfl
        simp only [closeNormal, if_true, Bool.and_eq_true, Bool.or_eq_true, hf1] at h
        rcases h.1 with ha | ha
        · obtain ⟨r, hr, hm⟩ := he12
          have := (allClose_mpc T ls f12 r ha hr).1
          rw [step_close] at hs12
          simp only [Option.some.injEq, Prod.mk.injEq] at hs12
          rw [← hs12.1] at this
          exact hm i (by rw [this]; exact hf1)
        · simp at ha
      simp only [closeNormal, if_neg hlc, hs12] at h
      simp only [hs', closeNormal, if_neg hlc]
      refine readNorm_closeNormal T ls (some i) f' ?_ ?_
      · obtain ⟨r, hr, hm⟩ := he12
        exact ⟨(r.1, o2' ++ r.2), by
          simp only [ParserRunSchedGroup.pend, List.singleton_append]
          rw [run_cons_some T f' f12 _ o2' _ hs'2, hr]; rfl, hm⟩
      · simp only [ParserRunSchedGroup.pend, List.singleton_append, closeNormal, if_neg hne, hs'2]
        exact h

theorem cbNorm_allClose (T : Table) : ∀ (ls : List FLabel) (f : FSys), allClose ls = true →
    cbNorm T none f ls = ls
  | [], _, _ => rfl
  | l :: ls, f, ha => by
    obtain ⟨rfl, ha'⟩ := allClose_cons l ls ha
    have : openK f .closeSig = none := rfl
    simp only [cbNorm, this, step_close, cbNorm_allClose T ls (closeF f) ha']

theorem cbNorm_head_none (T : Table) (f : FSys) (ls : List FLabel) (hr : (FSys.run T f ls).isSome = true)
    (h : headIsMain ls = true) : headIsMain (cbNorm T none f ls) = true := by
  cases ls with
  | nil => cases h
  | cons l ls =>
    cases l <;> first | (cases h; done) | skip
    obtain ⟨f', o, hs, _⟩ := isSome_cons T f .main ls hr
    have : openK f .main = none := rfl
    simp only [cbNorm, this, hs, headIsMain]

theorem cbNorm_head_some (T : Table) (f : FSys) (hinv : FInv f) (k : Nat) (hop : opens f k = true) (ls : List FLabel)
    (hr : (FSys.run T f (.cb k :: ls)).isSome = true) (h : headIsMain ls = true) :
    headIsMain (cbNorm T (some k) f ls) = true := by
  cases ls with
  | nil => cases h
  | cons l ls =>
    cases l <;> first | (cases h; done) | skip
    have hne : FLabel.main ≠ .cb k := by intro hh; cases hh
    rw [cb_swap T f hinv k .main ls hop hne] at hr
    obtain ⟨f', o, hs, _⟩ := isSome_cons T f .main _ hr
    simp only [cbNorm, if_neg hne, hs, headIsMain]

theorem EndP_isSome (P : FSys → Prop) (T : Table) (f : FSys) (ls : List FLabel) (h : EndP P T f ls) :
    (FSys.run T f ls).isSome = true := by
  obtain ⟨r, hr, _⟩ := h; rw [hr]; rfl

/-- **Carrying a callback's failed check / `p.ignoreST = false` forward keeps a schedule `Close()`-normal.** -/
theorem cbNorm_closeNormal (T : Table) (hT : TimerOk T) : ∀ (ls : List FLabel) (p : Option Nat) (f : FSys),
    FInv f → (∀ k, p = some k → opens f k = true) → EndP noHalf T f (pendc p ++ ls) →
    closeNormal T f (pendc p ++ ls) = true → closeNormal T f (cbNorm T p f ls) = true
  | [], p, f, _, _, _, h => by simpa [cbNorm] using h
  | l :: ls, none, f, hinv, _, he, h => by
    simp only [pendc, List.nil_append] at he h
    obtain ⟨f', o, hs, he'⟩ := EndP_cons noHalf T f l ls he
    have hinv' := step_inv T hT f f' l o hinv hs
    simp only [cbNorm]
    cases ho : openK f l with
    | some k =>
      obtain ⟨rfl, hop⟩ := openK_spec f l k ho
      exact cbNorm_closeNormal T hT ls (some k) f hinv (fun k' hk' => by cases hk'; exact hop) he h
    | none =>
      simp only [hs]
      by_cases hl : l = .closeSig
      · subst hl
        rw [step_close] at hs
        simp only [Option.some.injEq, Prod.mk.injEq] at hs
        obtain ⟨rfl, _⟩ := hs
        simp only [closeNormal, if_true, Bool.and_eq_true, Bool.or_eq_true] at h ⊢
        refine ⟨?_, cbNorm_closeNormal T hT ls none _ hinv' (fun _ h => by cases h) he' h.2⟩
        rcases h.1 with ha | ha
        · left; rw [cbNorm_allClose T ls _ ha]; exact ha
        · right; exact ⟨ha.1, cbNorm_head_none T _ ls (EndP_isSome _ T _ _ he') ha.2⟩
      · simp only [closeNormal, if_neg hl, hs] at h ⊢
        exact cbNorm_closeNormal T hT ls none f' hinv' (fun _ h => by cases h) he' h
  | l :: ls, some k, f, hinv, hop, he, h => by
    have hop := hop k rfl
    simp only [pendc, List.singleton_append] at he h
    obtain ⟨f1, o1, hs1, he1⟩ := EndP_cons noHalf T f _ _ he
    obtain ⟨f12, o12, hs12, he12⟩ := EndP_cons noHalf T f1 l _ he1
    have hne : FLabel.cb k ≠ .closeSig := by intro hh; cases hh
    simp only [closeNormal, if_neg hne, hs1] at h
    simp only [cbNorm]
    by_cases hl : l = .cb k
    · subst hl
      rw [if_pos rfl]
      have hrun : FSys.run T f [.cb k, .cb k] = some (f12, o1 ++ (o12 ++ [])) := by
        simp only [FSys.run, hs1, hs12]
      simp only [closeNormal, if_neg hne, hs12] at h
      simp only [hrun, closeNormal, if_neg hne, hs1, hs12]
      exact cbNorm_closeNormal T hT ls none f12 (run_inv T hT _ f f12 _ hinv hrun) (fun _ h => by cases h) he12 h
    · rw [if_neg hl]
      obtain ⟨g, pc, hk, hpc, _⟩ := opens_spec f k hop
      obtain ⟨hm, _⟩ := opens_crit f hinv k hop
      have hc := cb_mid_commutes T f k g pc l hk hpc hl hm
      rw [step2_some T f f1 f12 _ _ o1 o12 hs1 hs12] at hc
      obtain ⟨f', o', o2', hs', hs'2⟩ := step2_inv T f l (.cb k) _ hc.symm
      simp only at hs'2
      have hinv' := step_inv T hT f f' l o' hinv hs'
      have hop' := opens_keep T f f' l o' k hinv hs' hl hop
      have he' : EndP noHalf T f' (pendc (some k) ++ ls) := by
        obtain ⟨r, hr, hm⟩ := he12
        exact ⟨(r.1, o2' ++ r.2), by
          simp only [pendc, List.singleton_append]
          rw [run_cons_some T f' f12 _ o2' _ hs'2, hr]; rfl, hm⟩
      have hm1 : f1.mpc = f.mpc := cb_mpc f f1 k o1 (by simpa [FSys.step] using hs1)
      simp only [hs']
      by_cases hlc : l = .closeSig
      · subst hlc
        simp only [closeNormal, if_true, Bool.and_eq_true, Bool.or_eq_true, hs12] at h
        rw [step_close] at hs12 hs'
        simp only [Option.some.injEq, Prod.mk.injEq] at hs12 hs'
        obtain ⟨rfl, _⟩ := hs12
        obtain ⟨rfl, _⟩ := hs'
        have ih := cbNorm_closeNormal T hT ls (some k) (closeF f) hinv' (fun k' hk' => by cases hk'; exact hop') he'
          (by simp only [pendc, List.singleton_append, closeNormal, if_neg hne, hs'2]; exact h.2)
        simp only [closeNormal, if_true, Bool.and_eq_true, Bool.or_eq_true]
        refine ⟨?_, ih⟩
        rcases h.1 with ha | ha
        · exfalso
          obtain ⟨r, hr, hm'⟩ := he12
          have hcbs := (allClose_mpc T ls (closeF f1) r ha hr).2
          obtain ⟨g', pc', hk', hpc'⟩ := open_step T f f1 k o1 hop hs1
          have := hm' (g', pc') (by rw [hcbs]; exact List.mem_of_getElem? hk')
          rcases hpc' with rfl | rfl
          · exact this.1 rfl
          · exact this.2 rfl
        · right
          refine ⟨by rw [← hm1]; exact ha.1, ?_⟩
          exact cbNorm_head_some T (closeF f) hinv' k hop' ls (EndP_isSome _ T _ _ he') ha.2
      · simp only [closeNormal, if_neg hlc, hs12] at h
        simp only [closeNormal, if_neg hlc, hs']
        exact cbNorm_closeNormal T hT ls (some k) f' hinv' (fun k' hk' => by cases hk'; exact hop') he'
          (by simp only [pendc, List.singleton_append, closeNormal, if_neg hne, hs'2]; exact h)

end VaxisModel.Lemmas.ParserRunSchedEnum
