/-
C08: closing the loop between the normal forms of schedules (Lemmas/ParserRunSchedNormal.lean,
Lemmas/ParserRunSchedGroup.lean) — the grouping normalisations keep a schedule expiry-normal.
-/
import VaxisModel.Props.C08Sched
import VaxisModel.Lemmas.ParserRunSchedNormal
import VaxisModel.Lemmas.ParserRunSchedGroup

namespace VaxisModel.Lemmas.ParserRunSchedEnum
open VaxisModel.Model.ParserTable VaxisModel.Model.Parser VaxisModel.Model.ParserRun VaxisModel.Model.ParserRunFine
open VaxisModel.Props.C08Sched VaxisModel.Lemmas.ParserRunSchedNormal VaxisModel.Lemmas.ParserRunSchedGroup
open VaxisModel.Lemmas.ParserRunFine hiding pend

theorem step2_some (T : Table) (f f1 f2 : FSys) (a b : FLabel) (o1 o2 : List Seq)
    (h1 : FSys.step T f a = some (f1, o1)) (h2 : FSys.step T f1 b = some (f2, o2)) :
    step2 T f a b = some (f2, o1 ++ (o2 ++ [])) := by
  simp [step2, FSys.run, h1, h2]

theorem step2_inv (T : Table) (f : FSys) (a b : FLabel) (r : FSys × List Seq) (h : step2 T f a b = some r) :
    ∃ f1 o1 o2, FSys.step T f a = some (f1, o1) ∧ FSys.step T f1 b = some (r.1, o2) := by
  simp only [step2, FSys.run] at h
  cases h1 : FSys.step T f a with
  | none => rw [h1] at h; cases h
  | some x =>
    obtain ⟨f1, o1⟩ := x
    rw [h1] at h
    simp only at h
    cases h2 : FSys.step T f1 b with
    | none => rw [h2] at h; cases h
    | some y =>
      obtain ⟨f2, o2⟩ := y
      rw [h2] at h
      simp only [Option.some.injEq] at h
      exact ⟨f1, o1, o2, rfl, by rw [← h]; exact h2⟩

theorem isArming_not_main (T : Table) (f : FSys) (l : FLabel) (hl : l ≠ .main) : isArming T f l = false := by
  cases l <;> first | rfl | exact absurd rfl hl

/-- **Carrying a read return forward keeps a schedule expiry-normal.** -/
theorem readNorm_expNormal (T : Table) : ∀ (ls : List FLabel) (p : Option Inp) (f : FSys) (fl : Bool),
    (FSys.run T f (pend p ++ ls)).isSome = true → expNormal T fl f (pend p ++ ls) = true →
    expNormal T fl f (readNorm T p f ls) = true
  | [], p, f, fl, _, h => by simpa [readNorm] using h
  | l :: ls, none, f, fl, hr, h => by
    simp only [ParserRunSchedGroup.pend, List.nil_append] at hr h
    simp only [readNorm]
    split
    · rename_i i
      exact readNorm_expNormal T ls (some i) f fl hr h
    · obtain ⟨f', o, hs, hr'⟩ := isSome_cons T f l ls hr
      simp only [expNormal, hs, Bool.and_eq_true] at h
      simp only [hs, expNormal, Bool.and_eq_true]
      exact ⟨h.1, readNorm_expNormal T ls none f' _ hr' h.2⟩
  | l :: ls, some i, f, fl, hr, h => by
    simp only [ParserRunSchedGroup.pend, List.singleton_append] at hr h
    obtain ⟨f1, o1, hs1, hr1⟩ := isSome_cons T f _ _ hr
    obtain ⟨f12, o12, hs12, hr12⟩ := isSome_cons T f1 l _ hr1
    have hne : FLabel.readRet i ≠ .expire := by intro hh; cases hh
    have hia0 : isArming T f (.readRet i) = false := rfl
    simp only [expNormal, hs1, hs12, if_neg hne, Bool.true_and, Bool.and_eq_true, hia0] at h
    simp only [readNorm]
    by_cases hl : l = .main
    · subst hl
      rw [if_pos rfl]
      have hrun : FSys.run T f [.readRet i, .main] = some (f12, o1 ++ (o12 ++ [])) := by
        simp only [FSys.run, hs1, hs12]
      simp only [hrun, expNormal, hs1, hs12, if_neg hne, Bool.true_and, Bool.and_eq_true, hia0]
      exact ⟨h.1, readNorm_expNormal T ls none f12 _ hr12 h.2⟩
    · rw [if_neg hl]
      have hc := readRet_commutes T f i l hl
      rw [step2_some T f f1 f12 _ _ o1 o12 hs1 hs12] at hc
      obtain ⟨f', o', o2', hs', hs'2⟩ := step2_inv T f l (.readRet i) _ hc.symm
      simp only at hs'2
      have hle : l ≠ .expire := by
        intro hh
        rw [if_pos hh] at h
        exact absurd h.1 (by simp)
      have hia := isArming_not_main T f l hl
      have hia1 := isArming_not_main T f1 l hl
      rw [hia1] at h
      simp only [hs', expNormal, if_neg hle, Bool.true_and, hia]
      refine readNorm_expNormal T ls (some i) f' false ?_ ?_
      · simp only [ParserRunSchedGroup.pend, List.singleton_append]
        rw [run_cons_some T f' f12 _ o2' _ hs'2]
        cases hx : FSys.run T f12 ls with
        | none => rw [hx] at hr12; cases hr12
        | some x => rfl
      · have hia0' : isArming T f' (.readRet i) = false := rfl
        simp only [ParserRunSchedGroup.pend, List.singleton_append, expNormal, hs'2, if_neg hne, Bool.true_and, hia0']
        exact h.2

theorem cb_mpc (f f' : FSys) (k : Nat) (o : List Seq) (hs : cbStep f k = some (f', o)) : f'.mpc = f.mpc := by
  unfold cbStep at hs
  split at hs
  · cases hs
  · rename_i g pc hk
    cases pc <;> simp only at hs <;>
      first
        | (cases hs; done)
        | (cases hs; rfl)
        | (split at hs <;> first | (cases hs; done) | (cases hs; rfl))

theorem isArming_holds (T : Table) (f : FSys) (l : FLabel) (h : holdsMain f.mpc = false) : isArming T f l = false := by
  cases l with
  | main =>
    simp only [isArming]
    cases hpc : f.mpc <;> first | rfl | (rw [hpc] at h; cases h)
  | _ => rfl

/-- **Carrying a callback's failed check / `p.ignoreST = false` forward keeps a schedule expiry-normal.** -/
theorem cbNorm_expNormal (T : Table) (hT : TimerOk T) : ∀ (ls : List FLabel) (p : Option Nat) (f : FSys) (fl : Bool),
    FInv f → (∀ k, p = some k → opens f k = true) → (FSys.run T f (pendc p ++ ls)).isSome = true →
    expNormal T fl f (pendc p ++ ls) = true → expNormal T fl f (cbNorm T p f ls) = true
  | [], p, f, fl, _, _, _, h => by simpa [cbNorm] using h
  | l :: ls, none, f, fl, hinv, _, hr, h => by
    simp only [pendc, List.nil_append] at hr h
    simp only [cbNorm]
    cases ho : openK f l with
    | some k =>
      obtain ⟨rfl, hop⟩ := openK_spec f l k ho
      exact cbNorm_expNormal T hT ls (some k) f fl hinv (fun k' hk' => by cases hk'; exact hop) hr h
    | none =>
      obtain ⟨f', o, hs, hr'⟩ := isSome_cons T f l ls hr
      simp only [expNormal, hs, Bool.and_eq_true] at h
      simp only [hs, expNormal, Bool.and_eq_true]
      exact ⟨h.1, cbNorm_expNormal T hT ls none f' _ (step_inv T hT f f' l o hinv hs) (fun _ h => by cases h) hr' h.2⟩
  | l :: ls, some k, f, fl, hinv, hop, hr, h => by
    have hop := hop k rfl
    simp only [pendc, List.singleton_append] at hr h
    obtain ⟨f1, o1, hs1, hr1⟩ := isSome_cons T f _ _ hr
    obtain ⟨f12, o12, hs12, hr12⟩ := isSome_cons T f1 l _ hr1
    have hne : FLabel.cb k ≠ .expire := by intro hh; cases hh
    have hia0 : isArming T f (.cb k) = false := rfl
    simp only [expNormal, hs1, hs12, if_neg hne, Bool.true_and, Bool.and_eq_true, hia0] at h
    simp only [cbNorm]
    by_cases hl : l = .cb k
    · subst hl
      rw [if_pos rfl]
      have hrun : FSys.run T f [.cb k, .cb k] = some (f12, o1 ++ (o12 ++ [])) := by
        simp only [FSys.run, hs1, hs12]
      have ih := cbNorm_expNormal T hT ls none f12 _ (run_inv T hT _ f f12 _ hinv hrun) (fun _ h => by cases h) hr12 h.2
      simp only [hrun, expNormal, hs1, hs12, if_neg hne, Bool.true_and, hia0]
      exact ih
    · rw [if_neg hl]
      obtain ⟨g, pc, hk, hpc, _⟩ := opens_spec f k hop
      obtain ⟨hm, _⟩ := opens_crit f hinv k hop
      have hc := cb_mid_commutes T f k g pc l hk hpc hl hm
      rw [step2_some T f f1 f12 _ _ o1 o12 hs1 hs12] at hc
      obtain ⟨f', o', o2', hs', hs'2⟩ := step2_inv T f l (.cb k) _ hc.symm
      simp only at hs'2
      have hle : l ≠ .expire := by
        intro hh
        rw [if_pos hh] at h
        exact absurd h.1 (by simp)
      have hia := isArming_holds T f l hm
      have hm1 : f1.mpc = f.mpc := cb_mpc f f1 k o1 (by simpa [FSys.step] using hs1)
      have hia1 := isArming_holds T f1 l (by rw [hm1]; exact hm)
      rw [hia1] at h
      simp only [hs', expNormal, if_neg hle, Bool.true_and, hia]
      refine cbNorm_expNormal T hT ls (some k) f' false (step_inv T hT f f' l o' hinv hs')
        (fun k' hk' => by cases hk'; exact opens_keep T f f' l o' k hinv hs' hl hop) ?_ ?_
      · simp only [pendc, List.singleton_append]
        rw [run_cons_some T f' f12 _ o2' _ hs'2]
        cases hx : FSys.run T f12 ls with
        | none => rw [hx] at hr12; cases hr12
        | some x => rfl
      · have hia0' : isArming T f' (.cb k) = false := rfl
        simp only [pendc, List.singleton_append, expNormal, hs'2, if_neg hne, Bool.true_and, hia0']
        exact h.2

/-! ### the grouping normalisations keep a schedule `Close()`-normal -/

theorem allClose_cons (l : FLabel) (ls : List FLabel) (h : allClose (l :: ls) = true) :
    l = .closeSig ∧ allClose ls = true := by
  simpa [allClose] using h

theorem allClose_mpc (T : Table) : ∀ (ls : List FLabel) (f : FSys) (r : FSys × List Seq), allClose ls = true →
    FSys.run T f ls = some r → r.1.mpc = f.mpc ∧ r.1.cbs = f.cbs
  | [], f, r, _, h => by simp only [FSys.run, Option.some.injEq] at h; rw [← h]; exact ⟨rfl, rfl⟩
  | l :: ls, f, r, ha, h => by
    obtain ⟨rfl, ha'⟩ := allClose_cons l ls ha
    rw [run_close_cons] at h
    exact allClose_mpc T ls (closeF f) r ha' h

theorem readNorm_allClose (T : Table) : ∀ (ls : List FLabel) (f : FSys), allClose ls = true →
    readNorm T none f ls = ls
  | [], _, _ => rfl
  | l :: ls, f, ha => by
    obtain ⟨rfl, ha'⟩ := allClose_cons l ls ha
    simp only [readNorm, step_close, readNorm_allClose T ls (closeF f) ha']

theorem readNorm_head (T : Table) (f : FSys) (ls : List FLabel) (hr : (FSys.run T f ls).isSome = true)
    (h : headIsMain ls = true) : headIsMain (readNorm T none f ls) = true := by
  cases ls with
  | nil => cases h
  | cons l ls =>
    cases l <;> first | (cases h; done) | skip
    obtain ⟨f', o, hs, _⟩ := isSome_cons T f .main ls hr
    simp only [readNorm, hs, headIsMain]

/-- **Carrying a read return forward keeps a schedule `Close()`-normal** (for a schedule that runs and
    does not end between a read return and its `Stop()`). -/
theorem readNorm_closeNormal (T : Table) : ∀ (ls : List FLabel) (p : Option Inp) (f : FSys),
    EndOk T f (ParserRunSchedGroup.pend p ++ ls) → closeNormal T f (ParserRunSchedGroup.pend p ++ ls) = true →
    closeNormal T f (readNorm T p f ls) = true
  | [], p, f, _, h => by simpa [readNorm] using h
  | l :: ls, none, f, he, h => by
    simp only [ParserRunSchedGroup.pend, List.nil_append] at he h
    obtain ⟨f', o, hs, he'⟩ := EndOk_cons T f l ls he
    simp only [readNorm]
    split
    · rename_i i
      exact readNorm_closeNormal T ls (some i) f he h
    · rename_i hnr
      simp only [hs]
      have hrs : (FSys.run T f' ls).isSome = true := by obtain ⟨r, hr, _⟩ := he'; rw [hr]; rfl
      by_cases hl : l = .closeSig
      · subst hl
        rw [step_close] at hs
        simp only [Option.some.injEq, Prod.mk.injEq] at hs
        obtain ⟨rfl, _⟩ := hs
        simp only [closeNormal, if_true, Bool.and_eq_true, Bool.or_eq_true] at h ⊢
        refine ⟨?_, readNorm_closeNormal T ls none _ he' h.2⟩
        rcases h.1 with ha | ha
        · left; rw [readNorm_allClose T ls _ ha]; exact ha
        · right; exact ⟨ha.1, readNorm_head T _ ls hrs ha.2⟩
      · simp only [closeNormal, if_neg hl, hs] at h ⊢
        exact readNorm_closeNormal T ls none f' he' h
  | l :: ls, some i, f, he, h => by
    simp only [ParserRunSchedGroup.pend, List.singleton_append] at he h
    obtain ⟨f1, o1, hs1, he1⟩ := EndOk_cons T f _ _ he
    obtain ⟨f12, o12, hs12, he12⟩ := EndOk_cons T f1 l _ he1
    have hne : FLabel.readRet i ≠ .closeSig := by intro hh; cases hh
    simp only [closeNormal, if_neg hne, hs1] at h
    simp only [readNorm]
    by_cases hl : l = .main
    · subst hl
      rw [if_pos rfl]
      have hrun : FSys.run T f [.readRet i, .main] = some (f12, o1 ++ (o12 ++ [])) := by
        simp only [FSys.run, hs1, hs12]
      have hnm : FLabel.main ≠ .closeSig := by decide
      simp only [closeNormal, if_neg hnm, hs12] at h
      simp only [hrun, closeNormal, if_neg hne, hs1, if_neg hnm, hs12]
      exact readNorm_closeNormal T ls none f12 he12 h
    · rw [if_neg hl]
      have hc := readRet_commutes T f i l hl
      rw [step2_some T f f1 f12 _ _ o1 o12 hs1 hs12] at hc
      obtain ⟨f', o', o2', hs', hs'2⟩ := step2_inv T f l (.readRet i) _ hc.symm
      simp only at hs'2
      have hf1 : f1.mpc = .readDone i := by
        simp only [FSys.step] at hs1
        split at hs1
        · simp only [Option.some.injEq, Prod.mk.injEq] at hs1; rw [← hs1.1]
        · cases hs1
      have hlc : l ≠ .closeSig := by
        rintro rfl
        simp only [closeNormal, if_true, Bool.and_eq_true, Bool.or_eq_true, hf1] at h
        rcases h.1 with ha | ha
        · obtain ⟨r, hr, hm⟩ := he12
          have := (allClose_mpc T ls f12 r ha hr).1
          rw [step_close] at hs12
          simp only [Option.some.injEq, Prod.mk.injEq] at hs12
          rw [← hs12.1] at this
          exact hm i (by rw [this]; exact hf1)
        · simp at ha
      simp only [closeNormal, if_neg hlc, hs12] at h
      simp only [hs', closeNormal, if_neg hlc]
      refine readNorm_closeNormal T ls (some i) f' ?_ ?_
      · obtain ⟨r, hr, hm⟩ := he12
        exact ⟨(r.1, o2' ++ r.2), by
          simp only [ParserRunSchedGroup.pend, List.singleton_append]
          rw [run_cons_some T f' f12 _ o2' _ hs'2, hr]; rfl, hm⟩
      · simp only [ParserRunSchedGroup.pend, List.singleton_append, closeNormal, if_neg hne, hs'2]
        exact h

theorem cbNorm_allClose (T : Table) : ∀ (ls : List FLabel) (f : FSys), allClose ls = true →
    cbNorm T none f ls = ls
  | [], _, _ => rfl
  | l :: ls, f, ha => by
    obtain ⟨rfl, ha'⟩ := allClose_cons l ls ha
    have : openK f .closeSig = none := rfl
    simp only [cbNorm, this, step_close, cbNorm_allClose T ls (closeF f) ha']

theorem cbNorm_head_none (T : Table) (f : FSys) (ls : List FLabel) (hr : (FSys.run T f ls).isSome = true)
    (h : headIsMain ls = true) : headIsMain (cbNorm T none f ls) = true := by
  cases ls with
  | nil => cases h
  | cons l ls =>
    cases l <;> first | (cases h; done) | skip
    obtain ⟨f', o, hs, _⟩ := isSome_cons T f .main ls hr
    have : openK f .main = none := rfl
    simp only [cbNorm, this, hs, headIsMain]

theorem cbNorm_head_some (T : Table) (f : FSys) (hinv : FInv f) (k : Nat) (hop : opens f k = true) (ls : List FLabel)
    (hr : (FSys.run T f (.cb k :: ls)).isSome = true) (h : headIsMain ls = true) :
    headIsMain (cbNorm T (some k) f ls) = true := by
  cases ls with
  | nil => cases h
  | cons l ls =>
    cases l <;> first | (cases h; done) | skip
    have hne : FLabel.main ≠ .cb k := by intro hh; cases hh
    rw [cb_swap T f hinv k .main ls hop hne] at hr
    obtain ⟨f', o, hs, _⟩ := isSome_cons T f .main _ hr
    simp only [cbNorm, if_neg hne, hs, headIsMain]

theorem EndP_isSome (P : FSys → Prop) (T : Table) (f : FSys) (ls : List FLabel) (h : EndP P T f ls) :
    (FSys.run T f ls).isSome = true := by
  obtain ⟨r, hr, _⟩ := h; rw [hr]; rfl

/-- **Carrying a callback's failed check / `p.ignoreST = false` forward keeps a schedule `Close()`-normal.** -/
theorem cbNorm_closeNormal (T : Table) (hT : TimerOk T) : ∀ (ls : List FLabel) (p : Option Nat) (f : FSys),
    FInv f → (∀ k, p = some k → opens f k = true) → EndP noHalf T f (pendc p ++ ls) →
    closeNormal T f (pendc p ++ ls) = true → closeNormal T f (cbNorm T p f ls) = true
  | [], p, f, _, _, _, h => by simpa [cbNorm] using h
  | l :: ls, none, f, hinv, _, he, h => by
    simp only [pendc, List.nil_append] at he h
    obtain ⟨f', o, hs, he'⟩ := EndP_cons noHalf T f l ls he
    have hinv' := step_inv T hT f f' l o hinv hs
    simp only [cbNorm]
    cases ho : openK f l with
    | some k =>
      obtain ⟨rfl, hop⟩ := openK_spec f l k ho
      exact cbNorm_closeNormal T hT ls (some k) f hinv (fun k' hk' => by cases hk'; exact hop) he h
    | none =>
      simp only [hs]
      by_cases hl : l = .closeSig
      · subst hl
        rw [step_close] at hs
        simp only [Option.some.injEq, Prod.mk.injEq] at hs
        obtain ⟨rfl, _⟩ := hs
        simp only [closeNormal, if_true, Bool.and_eq_true, Bool.or_eq_true] at h ⊢
        refine ⟨?_, cbNorm_closeNormal T hT ls none _ hinv' (fun _ h => by cases h) he' h.2⟩
        rcases h.1 with ha | ha
        · left; rw [cbNorm_allClose T ls _ ha]; exact ha
        · right; exact ⟨ha.1, cbNorm_head_none T _ ls (EndP_isSome _ T _ _ he') ha.2⟩
      · simp only [closeNormal, if_neg hl, hs] at h ⊢
        exact cbNorm_closeNormal T hT ls none f' hinv' (fun _ h => by cases h) he' h
  | l :: ls, some k, f, hinv, hop, he, h => by
    have hop := hop k rfl
    simp only [pendc, List.singleton_append] at he h
    obtain ⟨f1, o1, hs1, he1⟩ := EndP_cons noHalf T f _ _ he
    obtain ⟨f12, o12, hs12, he12⟩ := EndP_cons noHalf T f1 l _ he1
    have hne : FLabel.cb k ≠ .closeSig := by intro hh; cases hh
    simp only [closeNormal, if_neg hne, hs1] at h
    simp only [cbNorm]
    by_cases hl : l = .cb k
    · subst hl
      rw [if_pos rfl]
      have hrun : FSys.run T f [.cb k, .cb k] = some (f12, o1 ++ (o12 ++ [])) := by
        simp only [FSys.run, hs1, hs12]
      simp only [closeNormal, if_neg hne, hs12] at h
      simp only [hrun, closeNormal, if_neg hne, hs1, hs12]
      exact cbNorm_closeNormal T hT ls none f12 (run_inv T hT _ f f12 _ hinv hrun) (fun _ h => by cases h) he12 h
    · rw [if_neg hl]
      obtain ⟨g, pc, hk, hpc, _⟩ := opens_spec f k hop
      obtain ⟨hm, _⟩ := opens_crit f hinv k hop
      have hc := cb_mid_commutes T f k g pc l hk hpc hl hm
      rw [step2_some T f f1 f12 _ _ o1 o12 hs1 hs12] at hc
      obtain ⟨f', o', o2', hs', hs'2⟩ := step2_inv T f l (.cb k) _ hc.symm
      simp only at hs'2
      have hinv' := step_inv T hT f f' l o' hinv hs'
      have hop' := opens_keep T f f' l o' k hinv hs' hl hop
      have he' : EndP noHalf T f' (pendc (some k) ++ ls) := by
        obtain ⟨r, hr, hm⟩ := he12
        exact ⟨(r.1, o2' ++ r.2), by
          simp only [pendc, List.singleton_append]
          rw [run_cons_some T f' f12 _ o2' _ hs'2, hr]; rfl, hm⟩
      have hm1 : f1.mpc = f.mpc := cb_mpc f f1 k o1 (by simpa [FSys.step] using hs1)
      simp only [hs']
      by_cases hlc : l = .closeSig
      · subst hlc
        simp only [closeNormal, if_true, Bool.and_eq_true, Bool.or_eq_true, hs12] at h
        rw [step_close] at hs12 hs'
        simp only [Option.some.injEq, Prod.mk.injEq] at hs12 hs'
        obtain ⟨rfl, _⟩ := hs12
        obtain ⟨rfl, _⟩ := hs'
        have ih := cbNorm_closeNormal T hT ls (some k) (closeF f) hinv' (fun k' hk' => by cases hk'; exact hop') he'
          (by simp only [pendc, List.singleton_append, closeNormal, if_neg hne, hs'2]; exact h.2)
        simp only [closeNormal, if_true, Bool.and_eq_true, Bool.or_eq_true]
        refine ⟨?_, ih⟩
        rcases h.1 with ha | ha
        · exfalso
          obtain ⟨r, hr, hm'⟩ := he12
          have hcbs := (allClose_mpc T ls (closeF f1) r ha hr).2
          obtain ⟨g', pc', hk', hpc'⟩ := open_step T f f1 k o1 hop hs1
          have := hm' (g', pc') (by rw [hcbs]; exact List.mem_of_getElem? hk')
          rcases hpc' with rfl | rfl
          · exact this.1 rfl
          · exact this.2 rfl
        · right
          refine ⟨by rw [← hm1]; exact ha.1, ?_⟩
          exact cbNorm_head_some T (closeF f) hinv' k hop' ls (EndP_isSome _ T _ _ he') ha.2
      · simp only [closeNormal, if_neg hlc, hs12] at h
        simp only [closeNormal, if_neg hlc, hs']
        exact cbNorm_closeNormal T hT ls (some k) f' hinv' (fun k' hk' => by cases hk'; exact hop') he'
          (by simp only [pendc, List.singleton_append, closeNormal, if_neg hne, hs'2]; exact h)

/-! ### a normal, grouped, complete schedule without `Close()` is one of the enumeration -/

open VaxisModel.Model.ParserRunSched

/-- The script: the runes the read returns, in order. -/
def runes : List FLabel → List Nat
  | [] => []
  | .readRet (.rune r) :: ls => r :: runes ls
  | _ :: ls => runes ls

/-- The main goroutine has read `eof` (or left the loop): it never reads again. -/
def afterEof : MPc → Bool
  | .readDone .eof | .stopped .eof | .locked .eof | .bumped .eof | .stepped true | .fin _ _ | .done => true
  | _ => false

theorem afterEof_step (T : Table) (f f' : FSys) (l : FLabel) (o : List Seq) (hs : FSys.step T f l = some (f', o))
    (h : afterEof f.mpc = true) : afterEof f'.mpc = true ∧ isRead l = false := by
  cases l with
  | closeSig => simp only [FSys.step, Option.some.injEq, Prod.mk.injEq] at hs; rw [← hs.1]; exact ⟨h, rfl⟩
  | readRet i =>
    simp only [FSys.step] at hs
    split at hs
    · rename_i hpc; rw [hpc] at h; cases h
    · cases hs
  | expire =>
    simp only [FSys.step] at hs
    split at hs
    · simp only [Option.some.injEq, Prod.mk.injEq] at hs; rw [← hs.1]; exact ⟨h, rfl⟩
    · cases hs
  | cb k => rw [cb_mpc f f' k o (by simpa [FSys.step] using hs)]; exact ⟨h, rfl⟩
  | main =>
    refine ⟨?_, rfl⟩
    simp only [FSys.step] at hs
    unfold mainStep at hs
    cases hpc : f.mpc with
    | atSelect => rw [hpc] at h; cases h
    | inRead => rw [hpc] at h; cases h
    | readDone i => rw [hpc] at hs h; cases hs; cases i <;> first | (cases h; done) | rfl
    | stopped i =>
      rw [hpc] at hs h; simp only at hs
      split at hs
      · cases hs; cases i <;> first | (cases h; done) | rfl
      · cases hs
    | locked i => rw [hpc] at hs h; cases hs; cases i <;> first | (cases h; done) | rfl
    | bumped i => rw [hpc] at hs h; cases hs; cases i <;> first | (cases h; done) | rfl
    | stepped b => rw [hpc] at hs h; cases hs; cases b <;> first | (cases h; done) | rfl
    | fin st v =>
      rw [hpc] at hs
      cases st <;> simp only at hs <;>
        first
          | (cases hs; rfl)
          | (split at hs <;> first | (cases hs; done) | (cases hs; rfl))
    | done => rw [hpc] at hs; cases hs

theorem no_reads_after_eof (T : Table) : ∀ (ls : List FLabel) (f : FSys), afterEof f.mpc = true →
    (FSys.run T f ls).isSome = true → runes ls = []
  | [], _, _, _ => rfl
  | l :: ls, f, h, hr => by
    obtain ⟨f', o, hs, hr'⟩ := isSome_cons T f l ls hr
    obtain ⟨h1, h2⟩ := afterEof_step T f f' l o hs h
    have ih := no_reads_after_eof T ls f' h1 hr'
    cases l with
    | readRet i => cases h2
    | _ => simpa [runes] using ih

theorem mcAfter_false (x : SLabel) : mcAfter false x = false := by cases x <;> rfl

/-- In a finished state nothing but `Close()` is enabled. -/
theorem finished_stuck (T : Table) (f : FSys) (h : finished f = true) (l : FLabel) (hl : l ≠ .closeSig) :
    FSys.step T f l = none := by
  simp only [finished, Bool.and_eq_true, decide_eq_true_eq, List.all_eq_true] at h
  obtain ⟨⟨hd, hg⟩, ha⟩ := h
  cases l with
  | closeSig => exact absurd rfl hl
  | readRet i => simp [FSys.step, hd]
  | main => simp [FSys.step, mainStep, hd]
  | expire =>
    cases hx : f.armed with
    | none => simp [FSys.step, hx]
    | some g => rw [hx] at ha; cases ha
  | cb k =>
    simp only [FSys.step]
    unfold cbStep
    cases hk : f.cbs[k]? with
    | none => rfl
    | some c =>
      obtain ⟨g, pc⟩ := c
      have := hg (g, pc) (List.mem_of_getElem? hk)
      simp only at this
      rw [this]

theorem arming_stepped (T : Table) (f f' : FSys) (l : FLabel) (o : List Seq) (h : isArming T f l = true)
    (hs : FSys.step T f l = some (f', o)) : ∃ b, f'.mpc = .stepped b := by
  cases l with
  | main =>
    simp only [isArming] at h
    cases hpc : f.mpc with
    | bumped i =>
      simp only [FSys.step, mainStep, hpc, Option.some.injEq, Prod.mk.injEq] at hs
      exact ⟨_, by rw [← hs.1]⟩
    | _ => rw [hpc] at h; cases h
  | _ => cases h

theorem runes_nonread (l : FLabel) (ls : List FLabel) (h : isRead l = false) : runes (l :: ls) = runes ls := by
  cases l with
  | readRet i => cases h
  | _ => rfl

/-- A single-statement label that the schedule takes is one of `enabled`. -/
theorem mem_single (T : Table) (f f' : FSys) (ins : List Nat) (l : FLabel) (o : List Seq) (hnr : isRead l = false)
    (hlc : l ≠ .closeSig) (hs : FSys.step T f l = some (f', o)) (hx : (sstep T f (sl l)).isSome = true)
    (hexp : l = .expire → ∃ b, f.mpc = .stepped b) : sl l ∈ enabled T f ins false := by
  cases l with
  | readRet i => cases hnr
  | closeSig => exact absurd rfl hlc
  | main =>
    have hpc : f.mpc ≠ .inRead := by
      intro h; simp [FSys.step, mainStep, h] at hs
    simp only [sl] at hx ⊢
    simp [enabled, hpc, hx]
  | expire =>
    obtain ⟨b, hb⟩ := hexp rfl
    have ha : f.armed.isSome = true := by
      cases h : f.armed with
      | none => simp [FSys.step, h] at hs
      | some g => rfl
    simp [enabled, sl, hb, ha]
  | cb k =>
    have hk : k < f.cbs.length := by
      cases h : f.cbs[k]? with
      | none => simp [FSys.step, cbStep, h] at hs
      | some c => exact lt_of_getElem? h
    simp only [sl] at hx ⊢
    simp only [enabled, List.mem_append, List.mem_filterMap, List.mem_range]
    exact Or.inl (Or.inr ⟨k, hk, by simp [hx]⟩)

theorem mem_read (T : Table) (f : FSys) (ins : List Nat) (i : Inp) (hpc : f.mpc = .inRead)
    (hi : i = (match ins with | r :: _ => Inp.rune r | [] => Inp.eof)) : SLabel.read i ∈ enabled T f ins false := by
  subst hi
  cases ins <;> simp [enabled, hpc]

theorem mem_cb (T : Table) (f : FSys) (ins : List Nat) (k : Nat) (hk : k < f.cbs.length)
    (hx : (sstep T f (.cb k)).isSome = true) : SLabel.cb k ∈ enabled T f ins false := by
  simp only [enabled, List.mem_append, List.mem_filterMap, List.mem_range]
  exact Or.inl (Or.inr ⟨k, hk, by simp [hx]⟩)

/-- **A complete schedule of single statements without `Close()` that is expiry-normal and grouped is
    (the expansion of) a schedule of the enumeration**: `toS` of it is `Reduced` for the script of its
    rune reads. -/
theorem reduced_core (T : Table) : ∀ (ls : List FLabel) (f : FSys) (fl : Bool) (r : FSys × List Seq),
    FSys.run T f ls = some r → finished r.1 = true → (∀ l ∈ ls, l ≠ .closeSig) → readAdj ls = true →
    cbAdj T f ls = true → expNormal T fl f ls = true → (fl = true → ∃ b, f.mpc = .stepped b) →
    (∀ i, f.mpc ≠ .readDone i) → Reduced T f (runes ls) false (toS T false f ls)
  | [], f, _, r, hr, hfin, _, _, _, _, _, _ => by
    simp only [FSys.run, Option.some.injEq] at hr
    rw [← hr] at hfin
    exact Reduced.done f _ _ hfin
  | [l], f, fl, r, hr, hfin, hnc, hra, hca, hex, hfl, hnd => by
    have hrs : (FSys.run T f [l]).isSome = true := by rw [hr]; rfl
    obtain ⟨f', o, hs, _⟩ := isSome_cons T f l [] hrs
    have hlc := hnc l (List.mem_cons_self ..)
    have hnr : isRead l = false := by
      cases h : isRead l with
      | false => rfl
      | true => simp [readAdj, h, headIsMain] at hra
    have hno : openK f l = none := by
      cases h : openK f l with
      | none => rfl
      | some k => simp [cbAdj, hs, h] at hca
    have hx := sstep_single T f l hnr hno (by rw [hs]; rfl) hnd
    have hrun : FSys.run T f [l] = some (f', o ++ []) := by simp only [FSys.run, hs]
    rw [hrun] at hr
    simp only [Option.some.injEq] at hr
    rw [← hr] at hfin
    have hnf : finished f = false := by
      cases h : finished f with
      | false => rfl
      | true => rw [finished_stuck T f h l hlc] at hs; cases hs
    simp only [expNormal, hs, Bool.and_eq_true] at hex
    have ht : toS T false f [l] = [sl l] := by simp [toS, hs]
    rw [ht, runes_nonread l [] hnr]
    refine Reduced.step f _ false (sl l) f' (o ++ []) [] hnf
      (mem_single T f f' _ l o hnr hlc hs (by rw [hx, hrun]; rfl) (fun he => hfl (by rw [if_pos he] at hex; exact hex.1)))
      (by rw [hx, hrun]) ?_
    rw [mcAfter_false]
    exact Reduced.done f' _ _ hfin
  | l :: l2 :: rest, f, fl, r, hr, hfin, hnc, hra, hca, hex, hfl, hnd => by
    have hrs : (FSys.run T f (l :: l2 :: rest)).isSome = true := by rw [hr]; rfl
    obtain ⟨f1, o1, hs1, hr1⟩ := isSome_cons T f l _ hrs
    obtain ⟨f2, o2, hs2, hr2⟩ := isSome_cons T f1 l2 _ hr1
    have hrun2 : FSys.run T f [l, l2] = some (f2, o1 ++ (o2 ++ [])) := by simp only [FSys.run, hs1, hs2]
    have hrun1 : FSys.run T f [l] = some (f1, o1 ++ []) := by simp only [FSys.run, hs1]
    have hlc := hnc l (List.mem_cons_self ..)
    have hnf : finished f = false := by
      cases h : finished f with
      | false => rfl
      | true => rw [finished_stuck T f h l hlc] at hs1; cases hs1
    simp only [readAdj, Bool.and_eq_true] at hra
    simp only [cbAdj, hs1, hs2, Bool.and_eq_true] at hca
    simp only [expNormal, hs1, hs2, Bool.and_eq_true] at hex
    by_cases hp : pairs f l = true
    · have ht : toS T false f (l :: l2 :: rest) = sl l :: toS T false f2 rest := by simp only [toS, hs1, hs2, hp]
      rw [ht]
      -- the rest of the run, from `f2`
      obtain ⟨r2, hrr2⟩ : ∃ r2, FSys.run T f2 rest = some r2 := by
        cases h : FSys.run T f2 rest with
        | none => rw [h] at hr2; cases hr2
        | some x => exact ⟨x, rfl⟩
      have hr' : r.1 = r2.1 := by
        have e : FSys.run T f (l :: l2 :: rest) = FSys.run T f ([l, l2] ++ rest) := rfl
        rw [e, VaxisModel.Props.C08Sched.run_append, hrun2] at hr
        simp only [hrr2, Option.some.injEq] at hr
        rw [← hr]
      have hnc' : ∀ x ∈ rest, x ≠ .closeSig := fun x hx => hnc x (List.mem_cons_of_mem _ (List.mem_cons_of_mem _ hx))
      cases hrd : isRead l with
      | true =>
        cases l with
        | readRet i =>
          rw [hrd] at hra
          simp only [if_true] at hra
          have hl2 : l2 = .main := by cases l2 <;> first | rfl | simp [headIsMain] at hra
          subst hl2
          have hpc : f.mpc = .inRead := by
            simp only [FSys.step] at hs1
            split at hs1
            · assumption
            · cases hs1
          have hf1 : f1 = { f with mpc := .readDone i } := by
            simp only [FSys.step, hpc, if_true, Option.some.injEq, Prod.mk.injEq] at hs1; exact hs1.1.symm
          have hf2 : f2.mpc = .stopped i := by
            rw [hf1] at hs2
            simp only [FSys.step, mainStep, Option.some.injEq, Prod.mk.injEq] at hs2
            rw [← hs2.1]
          have hia : isArming T f1 .main = false := by rw [hf1]; rfl
          rw [hia] at hex
          have ih := reduced_core T rest f2 false r2 hrr2 (by rw [← hr']; exact hfin) hnc' hra.2.2 hca.2.2 hex.2.2
            (fun h => by cases h) (fun j hj => by rw [hf2] at hj; cases hj)
          have hx : sstep T f (.read i) = some (f2, o1 ++ (o2 ++ [])) := by rw [sstep_read, hrun2]
          cases i with
          | rune rr =>
            refine Reduced.step f _ false (.read (.rune rr)) f2 _ _ hnf (mem_read T f _ _ hpc (by simp [runes])) hx ?_
            rw [mcAfter_false]
            simpa [insAfter, runes] using ih
          | eof =>
            have hre : runes rest = [] := no_reads_after_eof T rest f2 (by rw [hf2]; rfl) hr2
            have hrl : runes (FLabel.readRet .eof :: .main :: rest) = [] := by simpa [runes] using hre
            rw [hrl]
            refine Reduced.step f _ false (.read .eof) f2 _ _ hnf (mem_read T f _ _ hpc rfl) hx ?_
            rw [mcAfter_false]
            simpa [insAfter, hre] using ih
        | _ => cases hrd
      | false =>
        simp only [pairs, hrd, Bool.false_or] at hp
        cases ho : openK f l with
        | none => rw [ho] at hp; cases hp
        | some k =>
          obtain ⟨rfl, hop⟩ := openK_spec f l k ho
          rw [ho] at hca
          simp only [List.head?_cons, decide_eq_true_eq, Option.some.injEq] at hca
          have hl2 : l2 = .cb k := hca.1
          subst hl2
          have hm1 : f1.mpc = f.mpc := cb_mpc f f1 k o1 (by simpa [FSys.step] using hs1)
          have hm2 : f2.mpc = f1.mpc := cb_mpc f1 f2 k o2 (by simpa [FSys.step] using hs2)
          have hia : isArming T f1 (.cb k) = false := rfl
          rw [hia] at hex
          have ih := reduced_core T rest f2 false r2 hrr2 (by rw [← hr']; exact hfin) hnc' hra.2.2 hca.2.2 hex.2.2
            (fun h => by cases h) (fun j hj => by rw [hm2, hm1] at hj; exact hnd j hj)
          have hx : sstep T f (.cb k) = some (f2, o1 ++ (o2 ++ [])) := by rw [sstep_cb_pair T f k hop, hrun2]
          have hk : k < f.cbs.length := (opens_spec f k hop).elim fun g h => h.elim fun pc h => lt_of_getElem? h.1
          refine Reduced.step f _ false (.cb k) f2 _ _ hnf (mem_cb T f _ k hk (by rw [hx]; rfl)) hx ?_
          rw [mcAfter_false]
          simpa [insAfter, runes] using ih
    · have hp0 : pairs f l = false := by simpa using hp
      have ht : toS T false f (l :: l2 :: rest) = sl l :: toS T false f1 (l2 :: rest) := by simp only [toS, hs1, hp0]
      rw [ht]
      simp only [pairs, Bool.or_eq_false_iff] at hp0
      have hno : openK f l = none := by
        cases h : openK f l with
        | none => rfl
        | some k => rw [h] at hp0; simp at hp0
      obtain ⟨r1, hrr1⟩ : ∃ r1, FSys.run T f1 (l2 :: rest) = some r1 := by
        cases h : FSys.run T f1 (l2 :: rest) with
        | none => rw [h] at hr1; cases hr1
        | some x => exact ⟨x, rfl⟩
      have hr' : r.1 = r1.1 := by
        rw [run_cons_some T f f1 l o1 _ hs1, hrr1] at hr
        simp only [Option.map_some, Option.some.injEq] at hr
        rw [← hr]
      have hx := sstep_single T f l hp0.1 hno (by rw [hs1]; rfl) hnd
      have ih := reduced_core T (l2 :: rest) f1 (isArming T f l) r1 hrr1 (by rw [← hr']; exact hfin)
        (fun x hx => hnc x (List.mem_cons_of_mem _ hx)) (by simp only [readAdj, Bool.and_eq_true]; exact hra.2)
        (by simp only [cbAdj, hs2, Bool.and_eq_true]; exact hca.2)
        (by simp only [expNormal, hs2, Bool.and_eq_true]; exact hex.2)
        (fun h => arming_stepped T f f1 l o1 h hs1) (not_readDone_step T f f1 l o1 hs1 hp0.1 hnd)
      rw [runes_nonread l _ hp0.1]
      refine Reduced.step f _ false (sl l) f1 (o1 ++ []) _ hnf
        (mem_single T f f1 _ l o1 hp0.1 hlc hs1 (by rw [hx, hrun1]; rfl)
          (fun he => hfl (by rw [if_pos he] at hex; exact hex.1)))
        (by rw [hx, hrun1]) ?_
      rw [mcAfter_false]
      have hia : insAfter (runes (l2 :: rest)) (sl l) = runes (l2 :: rest) := by
        cases l with
        | readRet i => cases hp0.1
        | _ => rfl
      rw [hia]; exact ih

/-! ### the normalisations keep the order of the reads (the script) -/

theorem runes_congr (l : FLabel) (a b : List FLabel) (h : runes a = runes b) : runes (l :: a) = runes (l :: b) := by
  cases l with
  | readRet i => cases i <;> simp [runes, h]
  | _ => simpa [runes] using h

theorem runes_cs (k : Nat) (ls : List FLabel) : runes (cs k ++ ls) = runes ls := by
  induction k with
  | zero => simp [cs]
  | succ k ih => rw [cs_succ, List.cons_append]; simpa [runes] using ih

theorem extract_runes (T : Table) : ∀ (ls : List FLabel) (f : FSys) (ls' : List FLabel),
    extract T f ls = some ls' → runes ls = runes ls'
  | [], _, _, h => by simp [extract] at h
  | l :: ls, f, ls', h => by
    simp only [extract] at h
    by_cases hl : l = .expire
    · rw [if_pos hl] at h
      simp only [Option.some.injEq] at h
      rw [hl, ← h]; rfl
    · rw [if_neg hl] at h
      by_cases hst : l = .main ∧ stopsTimer f = true
      · rw [if_pos hst] at h; cases h
      · rw [if_neg hst] at h
        cases hs : FSys.step T f l with
        | none => rw [hs] at h; cases h
        | some r =>
          obtain ⟨f1, o⟩ := r
          rw [hs] at h
          simp only [Option.map_eq_some_iff] at h
          obtain ⟨ls1, h1, rfl⟩ := h
          exact runes_congr l _ _ (extract_runes T ls f1 ls1 h1)

theorem expNorm_runes (T : Table) : ∀ (n : Nat) (f : FSys) (ls : List FLabel), runes (expNorm T n f ls) = runes ls
  | 0, _, _ => rfl
  | _ + 1, _, [] => rfl
  | n + 1, f, l :: ls => by
    simp only [expNorm]
    cases hs : FSys.step T f l with
    | none => rfl
    | some r =>
      obtain ⟨f', o⟩ := r
      simp only
      split
      · split
        · rename_i ls' f'' o'' he hx
          refine runes_congr l _ _ ?_
          rw [extract_runes T ls f' ls' he]
          simpa [runes] using expNorm_runes T n f'' ls'
        · exact runes_congr l _ _ (expNorm_runes T n f' ls)
      · exact runes_congr l _ _ (expNorm_runes T n f' ls)

theorem closeNorm_runes (T : Table) : ∀ (ls : List FLabel) (k : Nat) (f : FSys), runes (closeNorm T k f ls) = runes ls
  | [], k, f => by simpa [closeNorm] using runes_cs k []
  | l :: ls, k, f => by
    simp only [closeNorm]
    by_cases hl : l = .closeSig
    · subst hl
      rw [if_pos rfl, closeNorm_runes T ls (k + 1) f]; rfl
    · rw [if_neg hl]
      by_cases hx : k ≠ 0 ∧ l = .main ∧ f.mpc = .atSelect
      · rw [if_pos hx]
        obtain ⟨_, rfl, _⟩ := hx
        simpa [runes] using closeNorm_runes T ls (k - 1) _
      · rw [if_neg hx]
        cases hs : FSys.step T f l with
        | none => exact runes_congr l _ _ (runes_cs k ls)
        | some r => exact runes_congr l _ _ (closeNorm_runes T ls k r.1)

theorem cbNorm_runes (T : Table) : ∀ (ls : List FLabel) (p : Option Nat) (f : FSys), runes (cbNorm T p f ls) = runes ls
  | [], none, _ => rfl
  | [], some k, _ => rfl
  | l :: ls, none, f => by
    simp only [cbNorm]
    cases ho : openK f l with
    | some k =>
      obtain ⟨rfl, _⟩ := openK_spec f l k ho
      simp only
      rw [cbNorm_runes T ls (some k) f]; rfl
    | none =>
      simp only
      cases hs : FSys.step T f l with
      | none => rfl
      | some r => exact runes_congr l _ _ (cbNorm_runes T ls none r.1)
  | l :: ls, some k, f => by
    simp only [cbNorm]
    by_cases hl : l = .cb k
    · subst hl
      rw [if_pos rfl]
      cases h2 : FSys.run T f [.cb k, .cb k] with
      | none => rfl
      | some r => simpa [runes] using cbNorm_runes T ls none r.1
    · rw [if_neg hl]
      cases hs : FSys.step T f l with
      | none => rfl
      | some r => exact runes_congr l _ _ (cbNorm_runes T ls (some k) r.1)

theorem readNorm_runes (T : Table) : ∀ (ls : List FLabel) (p : Option Inp) (f : FSys),
    (FSys.run T f (ParserRunSchedGroup.pend p ++ ls)).isSome = true →
    runes (readNorm T p f ls) = runes (ParserRunSchedGroup.pend p ++ ls)
  | [], p, f, _ => by simp [readNorm]
  | l :: ls, none, f, hr => by
    simp only [ParserRunSchedGroup.pend, List.nil_append] at hr ⊢
    simp only [readNorm]
    split
    · rename_i i
      exact readNorm_runes T ls (some i) f hr
    · obtain ⟨f', o, hs, hr'⟩ := isSome_cons T f l ls hr
      simp only [hs]
      exact runes_congr l _ _ (by simpa [ParserRunSchedGroup.pend] using readNorm_runes T ls none f' hr')
  | l :: ls, some i, f, hr => by
    simp only [ParserRunSchedGroup.pend, List.singleton_append] at hr ⊢
    obtain ⟨f1, o1, hs1, hr1⟩ := isSome_cons T f _ _ hr
    obtain ⟨f12, o12, hs12, hr12⟩ := isSome_cons T f1 l _ hr1
    simp only [readNorm]
    by_cases hl : l = .main
    · subst hl
      rw [if_pos rfl]
      have hrun : FSys.run T f [.readRet i, .main] = some (f12, o1 ++ (o12 ++ [])) := by
        simp only [FSys.run, hs1, hs12]
      simp only [hrun]
      exact runes_congr _ _ _ (runes_congr _ _ _
        (by simpa [ParserRunSchedGroup.pend] using readNorm_runes T ls none f12 hr12))
    · rw [if_neg hl]
      have hsw := read_swap T f i l ls hl
      rw [hsw] at hr
      obtain ⟨f', o', hs', hr'⟩ := isSome_cons T f l _ hr
      simp only [hs']
      have hnr : isRead l = false := by
        cases l with
        | readRet j =>
          exfalso
          obtain ⟨f2, o2, hs2, _⟩ := isSome_cons T f' _ _ hr'
          simp only [FSys.step] at hs' hs2
          split at hs'
          · simp only [Option.some.injEq, Prod.mk.injEq] at hs'
            rw [← hs'.1] at hs2
            simp at hs2
          · cases hs'
        | _ => rfl
      have ih := readNorm_runes T ls (some i) f' (by simpa [ParserRunSchedGroup.pend] using hr')
      simp only [ParserRunSchedGroup.pend, List.singleton_append] at ih
      rw [runes_nonread l _ hnr, ih]
      exact (runes_congr _ _ _ (runes_nonread l ls hnr)).symm

/-- The normal form of a schedule: expiries pulled behind their arming statements, `Close()` calls carried
    to the next `select`, read returns to their `Stop()`, callback checks to their `Unlock`. -/
def normalForm (T : Table) (f0 : FSys) (ls : List FLabel) : List FLabel :=
  cbNorm T none f0 (readNorm T none f0 (closeNorm T 0 f0 (expNorm T ls.length f0 ls)))

/-- The normal form keeps the script (the order of the reads). -/
theorem normalForm_runes (T : Table) (f0 : FSys) (ls : List FLabel) (r : FSys × List Seq)
    (h : FSys.run T f0 ls = some r) : runes (normalForm T f0 ls) = runes ls := by
  have e1 : FSys.run T f0 (expNorm T ls.length f0 ls) = some r := by rw [expNorm_run]; exact h
  have e2 : FSys.run T f0 (closeNorm T 0 f0 (expNorm T ls.length f0 ls)) = some r := by
    rw [closeNorm_run]; simpa [cs] using e1
  unfold normalForm
  rw [cbNorm_runes, readNorm_runes T _ none f0 (by simp only [ParserRunSchedGroup.pend, List.nil_append]; rw [e2]; rfl)]
  simp only [ParserRunSchedGroup.pend, List.nil_append]
  rw [closeNorm_runes, expNorm_runes]

/-! ### the same with one observed `Close()` -/

/-- Along the run: every `Close()` is issued while the main goroutine stands in front of the `select`. -/
def closeAt (T : Table) : FSys → List FLabel → Bool
  | _, [] => true
  | f, l :: ls =>
    match FSys.step T f l with
    | none => true
    | some (f', _) => (if l = .closeSig then decide (f.mpc = .atSelect) else true) && closeAt T f' ls

theorem not_finished (T : Table) (f f' : FSys) (l : FLabel) (o : List Seq) (hs : FSys.step T f l = some (f', o))
    (hc : l = .closeSig → f.mpc = .atSelect) : finished f = false := by
  cases h : finished f with
  | false => rfl
  | true =>
    by_cases hl : l = .closeSig
    · have := hc hl
      simp only [finished, Bool.and_eq_true, decide_eq_true_eq] at h
      rw [h.1.1] at this; cases this
    · rw [finished_stuck T f h l hl] at hs; cases hs

theorem mem_single_mc (T : Table) (f f' : FSys) (ins : List Nat) (mc : Bool) (l : FLabel) (o : List Seq)
    (hnr : isRead l = false) (hlc : l = .closeSig → mc = true ∧ f.mpc = .atSelect) (hs : FSys.step T f l = some (f', o))
    (hx : (sstep T f (sl l)).isSome = true) (hexp : l = .expire → ∃ b, f.mpc = .stepped b) :
    sl l ∈ enabled T f ins mc := by
  cases l with
  | readRet i => cases hnr
  | closeSig =>
    obtain ⟨h1, h2⟩ := hlc rfl
    simp [enabled, sl, h1, h2]
  | main =>
    have hpc : f.mpc ≠ .inRead := by
      intro h; simp [FSys.step, mainStep, h] at hs
    simp only [sl] at hx ⊢
    simp only [enabled, List.mem_append]
    right
    simp [hpc, hx]
  | expire =>
    obtain ⟨b, hb⟩ := hexp rfl
    have ha : f.armed.isSome = true := by
      cases h : f.armed with
      | none => simp [FSys.step, h] at hs
      | some g => rfl
    simp only [enabled, List.mem_append, sl]
    left; left; right
    simp [hb, ha]
  | cb k =>
    have hk : k < f.cbs.length := by
      cases h : f.cbs[k]? with
      | none => simp [FSys.step, cbStep, h] at hs
      | some c => exact lt_of_getElem? h
    simp only [sl] at hx ⊢
    simp only [enabled, List.mem_append, List.mem_filterMap, List.mem_range]
    exact Or.inl (Or.inr ⟨k, hk, by simp [hx]⟩)

theorem mem_read_mc (T : Table) (f : FSys) (ins : List Nat) (mc : Bool) (i : Inp) (hpc : f.mpc = .inRead)
    (hi : i = (match ins with | r :: _ => Inp.rune r | [] => Inp.eof)) : SLabel.read i ∈ enabled T f ins mc := by
  subst hi
  simp only [enabled, List.mem_append]
  right
  cases ins <;> simp [hpc]

theorem mem_cb_mc (T : Table) (f : FSys) (ins : List Nat) (mc : Bool) (k : Nat) (hk : k < f.cbs.length)
    (hx : (sstep T f (.cb k)).isSome = true) : SLabel.cb k ∈ enabled T f ins mc := by
  simp only [enabled, List.mem_append, List.mem_filterMap, List.mem_range]
  exact Or.inl (Or.inr ⟨k, hk, by simp [hx]⟩)

theorem mc_after (l : FLabel) (ls : List FLabel) (hcnt : (l :: ls).count .closeSig ≤ 1) :
    mcAfter ((l :: ls).contains .closeSig) (sl l) = ls.contains .closeSig := by
  cases l with
  | closeSig =>
    simp only [sl, mcAfter]
    simp only [List.count_cons_self] at hcnt
    have h0 : ls.count .closeSig = 0 := by omega
    have := List.count_eq_zero.mp h0
    simpa using this
  | _ => simp [sl, mcAfter]

theorem reduced_core_mc (T : Table) : ∀ (ls : List FLabel) (f : FSys) (fl : Bool) (r : FSys × List Seq),
    FSys.run T f ls = some r → finished r.1 = true → (closeAt T f ls = true ∧ ls.count .closeSig ≤ 1) → readAdj ls = true →
    cbAdj T f ls = true → expNormal T fl f ls = true → (fl = true → ∃ b, f.mpc = .stepped b) →
    (∀ i, f.mpc ≠ .readDone i) → Reduced T f (runes ls) (ls.contains .closeSig) (toS T false f ls)
  | [], f, _, r, hr, hfin, _, _, _, _, _, _ => by
    simp only [FSys.run, Option.some.injEq] at hr
    rw [← hr] at hfin
    exact Reduced.done f _ _ hfin
  | [l], f, fl, r, hr, hfin, ⟨hcl, hcnt⟩, hra, hca, hex, hfl, hnd => by
    have hrs : (FSys.run T f [l]).isSome = true := by rw [hr]; rfl
    obtain ⟨f', o, hs, _⟩ := isSome_cons T f l [] hrs
    have hlc : l = .closeSig → f.mpc = .atSelect := by
      intro h; subst h; simpa [closeAt, hs] using hcl
    have hnr : isRead l = false := by
      cases h : isRead l with
      | false => rfl
      | true => simp [readAdj, h, headIsMain] at hra
    have hno : openK f l = none := by
      cases h : openK f l with
      | none => rfl
      | some k => simp [cbAdj, hs, h] at hca
    have hx := sstep_single T f l hnr hno (by rw [hs]; rfl) hnd
    have hrun : FSys.run T f [l] = some (f', o ++ []) := by simp only [FSys.run, hs]
    rw [hrun] at hr
    simp only [Option.some.injEq] at hr
    rw [← hr] at hfin
    have hnf := not_finished T f f' l o hs hlc
    simp only [expNormal, hs, Bool.and_eq_true] at hex
    have ht : toS T false f [l] = [sl l] := by simp [toS, hs]
    rw [ht, runes_nonread l [] hnr]
    refine Reduced.step f _ _ (sl l) f' (o ++ []) [] hnf
      (mem_single_mc T f f' _ _ l o hnr (fun h => ⟨by rw [h]; simp, hlc h⟩) hs (by rw [hx, hrun]; rfl)
        (fun he => hfl (by rw [if_pos he] at hex; exact hex.1)))
      (by rw [hx, hrun]) ?_
    exact Reduced.done f' _ _ hfin
  | l :: l2 :: rest, f, fl, r, hr, hfin, ⟨hcl, hcnt⟩, hra, hca, hex, hfl, hnd => by
    have hrs : (FSys.run T f (l :: l2 :: rest)).isSome = true := by rw [hr]; rfl
    obtain ⟨f1, o1, hs1, hr1⟩ := isSome_cons T f l _ hrs
    obtain ⟨f2, o2, hs2, hr2⟩ := isSome_cons T f1 l2 _ hr1
    have hrun2 : FSys.run T f [l, l2] = some (f2, o1 ++ (o2 ++ [])) := by simp only [FSys.run, hs1, hs2]
    have hrun1 : FSys.run T f [l] = some (f1, o1 ++ []) := by simp only [FSys.run, hs1]
    have hcl0 := hcl
    simp only [closeAt, hs1, hs2, Bool.and_eq_true] at hcl
    have hlc : l = .closeSig → f.mpc = .atSelect := by
      intro h; rw [if_pos h] at hcl; simpa using hcl.1
    have hnf := not_finished T f f1 l o1 hs1 hlc
    simp only [readAdj, Bool.and_eq_true] at hra
    simp only [cbAdj, hs1, hs2, Bool.and_eq_true] at hca
    simp only [expNormal, hs1, hs2, Bool.and_eq_true] at hex
    by_cases hp : pairs f l = true
    · have ht : toS T false f (l :: l2 :: rest) = sl l :: toS T false f2 rest := by simp only [toS, hs1, hs2, hp]
      rw [ht]
      -- the rest of the run, from `f2`
      obtain ⟨r2, hrr2⟩ : ∃ r2, FSys.run T f2 rest = some r2 := by
        cases h : FSys.run T f2 rest with
        | none => rw [h] at hr2; cases hr2
        | some x => exact ⟨x, rfl⟩
      have hr' : r.1 = r2.1 := by
        have e : FSys.run T f (l :: l2 :: rest) = FSys.run T f ([l, l2] ++ rest) := rfl
        rw [e, VaxisModel.Props.C08Sched.run_append, hrun2] at hr
        simp only [hrr2, Option.some.injEq] at hr
        rw [← hr]
      cases hrd : isRead l with
      | true =>
        cases l with
        | readRet i =>
          rw [hrd] at hra
          simp only [if_true] at hra
          have hl2 : l2 = .main := by cases l2 <;> first | rfl | simp [headIsMain] at hra
          subst hl2
          have hpc : f.mpc = .inRead := by
            simp only [FSys.step] at hs1
            split at hs1
            · assumption
            · cases hs1
          have hf1 : f1 = { f with mpc := .readDone i } := by
            simp only [FSys.step, hpc, if_true, Option.some.injEq, Prod.mk.injEq] at hs1; exact hs1.1.symm
          have hf2 : f2.mpc = .stopped i := by
            rw [hf1] at hs2
            simp only [FSys.step, mainStep, Option.some.injEq, Prod.mk.injEq] at hs2
            rw [← hs2.1]
          have hia : isArming T f1 .main = false := by rw [hf1]; rfl
          rw [hia] at hex
          have hcnt' : rest.count .closeSig ≤ 1 := by simpa using hcnt
          have hmc : (FLabel.readRet i :: FLabel.main :: rest).contains .closeSig = rest.contains .closeSig := by simp
          rw [hmc]
          have ih := reduced_core_mc T rest f2 false r2 hrr2 (by rw [← hr']; exact hfin) ⟨hcl.2.2, hcnt'⟩ hra.2.2 hca.2.2
            hex.2.2 (fun h => by cases h) (fun j hj => by rw [hf2] at hj; cases hj)
          have hx : sstep T f (.read i) = some (f2, o1 ++ (o2 ++ [])) := by rw [sstep_read, hrun2]
          cases i with
          | rune rr =>
            refine Reduced.step f _ _ (.read (.rune rr)) f2 _ _ hnf (mem_read_mc T f _ _ _ hpc (by simp [runes])) hx ?_
            simpa [insAfter, runes, mcAfter] using ih
          | eof =>
            have hre : runes rest = [] := no_reads_after_eof T rest f2 (by rw [hf2]; rfl) hr2
            have hrl : runes (FLabel.readRet .eof :: .main :: rest) = [] := by simpa [runes] using hre
            rw [hrl]
            refine Reduced.step f _ _ (.read .eof) f2 _ _ hnf (mem_read_mc T f _ _ _ hpc rfl) hx ?_
            simpa [insAfter, hre, mcAfter] using ih
        | _ => cases hrd
      | false =>
        simp only [pairs, hrd, Bool.false_or] at hp
        cases ho : openK f l with
        | none => rw [ho] at hp; cases hp
        | some k =>
          obtain ⟨rfl, hop⟩ := openK_spec f l k ho
          rw [ho] at hca
          simp only [List.head?_cons, decide_eq_true_eq, Option.some.injEq] at hca
          have hl2 : l2 = .cb k := hca.1
          subst hl2
          have hm1 : f1.mpc = f.mpc := cb_mpc f f1 k o1 (by simpa [FSys.step] using hs1)
          have hm2 : f2.mpc = f1.mpc := cb_mpc f1 f2 k o2 (by simpa [FSys.step] using hs2)
          have hia : isArming T f1 (.cb k) = false := rfl
          rw [hia] at hex
          have hcnt' : rest.count .closeSig ≤ 1 := by simpa using hcnt
          have hmc : (FLabel.cb k :: FLabel.cb k :: rest).contains .closeSig = rest.contains .closeSig := by simp
          rw [hmc]
          have ih := reduced_core_mc T rest f2 false r2 hrr2 (by rw [← hr']; exact hfin) ⟨hcl.2.2, hcnt'⟩ hra.2.2 hca.2.2
            hex.2.2 (fun h => by cases h) (fun j hj => by rw [hm2, hm1] at hj; exact hnd j hj)
          have hx : sstep T f (.cb k) = some (f2, o1 ++ (o2 ++ [])) := by rw [sstep_cb_pair T f k hop, hrun2]
          have hk : k < f.cbs.length := (opens_spec f k hop).elim fun g h => h.elim fun pc h => lt_of_getElem? h.1
          refine Reduced.step f _ _ (.cb k) f2 _ _ hnf (mem_cb_mc T f _ _ k hk (by rw [hx]; rfl)) hx ?_
          simpa [insAfter, runes, mcAfter] using ih
    · have hp0 : pairs f l = false := by simpa using hp
      have ht : toS T false f (l :: l2 :: rest) = sl l :: toS T false f1 (l2 :: rest) := by simp only [toS, hs1, hp0]
      rw [ht]
      simp only [pairs, Bool.or_eq_false_iff] at hp0
      have hno : openK f l = none := by
        cases h : openK f l with
        | none => rfl
        | some k => rw [h] at hp0; simp at hp0
      obtain ⟨r1, hrr1⟩ : ∃ r1, FSys.run T f1 (l2 :: rest) = some r1 := by
        cases h : FSys.run T f1 (l2 :: rest) with
        | none => rw [h] at hr1; cases hr1
        | some x => exact ⟨x, rfl⟩
      have hr' : r.1 = r1.1 := by
        rw [run_cons_some T f f1 l o1 _ hs1, hrr1] at hr
        simp only [Option.map_some, Option.some.injEq] at hr
        rw [← hr]
      have hx := sstep_single T f l hp0.1 hno (by rw [hs1]; rfl) hnd
      have hcnt' : (l2 :: rest).count .closeSig ≤ 1 := by
        have := List.count_le_count_cons (a := FLabel.closeSig) (b := l) (l := l2 :: rest); omega
      have ih := reduced_core_mc T (l2 :: rest) f1 (isArming T f l) r1 hrr1 (by rw [← hr']; exact hfin)
        ⟨by simp only [closeAt, hs2, Bool.and_eq_true]; exact hcl.2, hcnt'⟩ (by simp only [readAdj, Bool.and_eq_true]; exact hra.2)
        (by simp only [cbAdj, hs2, Bool.and_eq_true]; exact hca.2)
        (by simp only [expNormal, hs2, Bool.and_eq_true]; exact hex.2)
        (fun h => arming_stepped T f f1 l o1 h hs1) (not_readDone_step T f f1 l o1 hs1 hp0.1 hnd)
      rw [runes_nonread l _ hp0.1]
      refine Reduced.step f _ _ (sl l) f1 (o1 ++ []) _ hnf
        (mem_single_mc T f f1 _ _ l o1 hp0.1 (fun h => ⟨by rw [h]; simp, hlc h⟩) hs1 (by rw [hx, hrun1]; rfl)
          (fun he => hfl (by rw [if_pos he] at hex; exact hex.1)))
        (by rw [hx, hrun1]) ?_
      rw [mc_after l (l2 :: rest) hcnt]
      have hia : insAfter (runes (l2 :: rest)) (sl l) = runes (l2 :: rest) := by
        cases l with
        | readRet i => cases hp0.1
        | _ => rfl
      rw [hia]; exact ih


end VaxisModel.Lemmas.ParserRunSchedEnum
