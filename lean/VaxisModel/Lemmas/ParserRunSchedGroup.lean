/-
C08: grouping normal forms of schedules of the statement-grained life cycle: the statements that the
harness labels of Model/ParserRunSched.lean group (no yield point in between) can be made adjacent in
every schedule without changing its result.  Definitions and lemmas.
-/
import VaxisModel.Props.C08Sched
import VaxisModel.Lemmas.ParserRunSchedNormal

namespace VaxisModel.Lemmas.ParserRunSchedGroup
open VaxisModel.Model.ParserTable VaxisModel.Model.Parser VaxisModel.Model.ParserRun VaxisModel.Model.ParserRunFine
open VaxisModel.Props.C08Sched VaxisModel.Lemmas.ParserRunSchedNormal

/-! ### the read return and the `Stop()` inside `readRune` -/

def isRead : FLabel → Bool
  | .readRet _ => true
  | _ => false

/-- Every `readRet` is immediately followed by a statement of the main goroutine (the `Stop()`). -/
def readAdj : List FLabel → Bool
  | [] => true
  | l :: ls => (if isRead l then headIsMain ls else true) && readAdj ls

/-- The read return that is being carried forward. -/
def pend : Option Inp → List FLabel
  | none => []
  | some i => [.readRet i]

/-- The normalising function: a read return is carried forward (the main goroutine is not looked at by
    anybody else) to the next statement of the main goroutine — its `Stop()`. -/
def readNorm (T : Table) : Option Inp → FSys → List FLabel → List FLabel
  | p, _, [] => pend p
  | none, f, l :: ls =>
    match l with
    | .readRet i => readNorm T (some i) f ls
    | _ =>
      match FSys.step T f l with
      | some (f', _) => l :: readNorm T none f' ls
      | none => l :: ls
  | some i, f, l :: ls =>
    if l = .main then
      match FSys.run T f [.readRet i, .main] with
      | some (f'', _) => .readRet i :: .main :: readNorm T none f'' ls
      | none => .readRet i :: .main :: ls
    else
      match FSys.step T f l with
      | some (f', _) => l :: readNorm T (some i) f' ls
      | none => .readRet i :: l :: ls

/-- **The read return commutes with every statement of another party** (nobody but the main goroutine
    looks at where the main goroutine is). -/
theorem readRet_commutes (T : Table) (f : FSys) (i : Inp) (l : FLabel) (hl : l ≠ .main) :
    step2 T f (.readRet i) l = step2 T f l (.readRet i) := by
  simp only [step2, FSys.run, FSys.step]
  cases l with
  | main => exact absurd rfl hl
  | closeSig => by_cases h : f.mpc = .inRead <;> simp [h]
  | readRet j => by_cases h : f.mpc = .inRead <;> simp [h]
  | expire =>
    cases ha : f.armed <;> by_cases h : f.mpc = .inRead <;> simp [h]
  | cb k =>
    simp only [cbStep]
    cases hk : f.cbs[k]? with
    | none => by_cases h : f.mpc = .inRead <;> simp [h, hk]
    | some c =>
      obtain ⟨g, pc⟩ := c
      by_cases h : f.mpc = .inRead <;> by_cases hm : f.mutex = none <;> cases pc <;> simp [h, hk, hm]

theorem read_swap (T : Table) (f : FSys) (i : Inp) (l : FLabel) (X : List FLabel) (hl : l ≠ .main) :
    FSys.run T f (.readRet i :: l :: X) = FSys.run T f (l :: .readRet i :: X) := by
  have := swap_in_schedule T [] X (.readRet i) l f (fun f' o hp => by
    simp only [FSys.run, Option.some.injEq, Prod.mk.injEq] at hp
    rw [← hp.1]; exact readRet_commutes T f i l hl)
  simpa using this

theorem run_cons_some (T : Table) (f f' : FSys) (l : FLabel) (o : List Seq) (X : List FLabel)
    (hs : FSys.step T f l = some (f', o)) :
    FSys.run T f (l :: X) = (FSys.run T f' X).map (fun r => (r.1, o ++ r.2)) := by
  simp only [FSys.run, hs]
  cases FSys.run T f' X with
  | none => rfl
  | some r => cases r; rfl

/-- **The normalised schedule runs to the same result.** -/
theorem readNorm_run (T : Table) : ∀ (ls : List FLabel) (p : Option Inp) (f : FSys),
    FSys.run T f (readNorm T p f ls) = FSys.run T f (pend p ++ ls)
  | [], p, f => by simp [readNorm]
  | l :: ls, none, f => by
    simp only [readNorm, pend, List.nil_append]
    split
    · rename_i i
      rw [readNorm_run T ls (some i) f]; rfl
    · cases hs : FSys.step T f l with
      | none => rfl
      | some r =>
        obtain ⟨f', o⟩ := r
        simp only
        rw [run_cons_some T f f' l o _ hs, run_cons_some T f f' l o _ hs, readNorm_run T ls none f']; rfl
  | l :: ls, some i, f => by
    simp only [readNorm, pend, List.singleton_append]
    by_cases hl : l = .main
    · subst hl
      rw [if_pos rfl]
      have e : ∀ X, FSys.run T f (.readRet i :: .main :: X) = FSys.run T f ([.readRet i, .main] ++ X) := fun _ => rfl
      cases h2 : FSys.run T f [.readRet i, .main] with
      | none => rfl
      | some r =>
        obtain ⟨f'', o⟩ := r
        simp only
        rw [e, e, run_append, run_append, h2]
        simp only [readNorm_run T ls none f'', pend, List.nil_append]
    · rw [if_neg hl]
      cases hs : FSys.step T f l with
      | none => rfl
      | some r =>
        obtain ⟨f', o⟩ := r
        simp only
        rw [read_swap T f i l ls hl, run_cons_some T f f' l o _ hs, run_cons_some T f f' l o _ hs,
          readNorm_run T ls (some i) f']; rfl

/-- The normalised schedule is a permutation of the original. -/
theorem readNorm_perm (T : Table) : ∀ (ls : List FLabel) (p : Option Inp) (f : FSys),
    (readNorm T p f ls).Perm (pend p ++ ls)
  | [], p, f => by simp [readNorm]
  | l :: ls, none, f => by
    simp only [readNorm, pend, List.nil_append]
    split
    · rename_i i
      exact readNorm_perm T ls (some i) f
    · cases hs : FSys.step T f l with
      | none => exact List.Perm.refl _
      | some r => exact (readNorm_perm T ls none r.1).cons _
  | l :: ls, some i, f => by
    simp only [readNorm, pend, List.singleton_append]
    by_cases hl : l = .main
    · subst hl
      rw [if_pos rfl]
      cases h2 : FSys.run T f [.readRet i, .main] with
      | none => exact List.Perm.refl _
      | some r => exact ((readNorm_perm T ls none r.1).cons _).cons _
    · rw [if_neg hl]
      cases hs : FSys.step T f l with
      | none => exact List.Perm.refl _
      | some r => exact ((readNorm_perm T ls (some i) r.1).cons _).trans (List.Perm.swap _ _ _)

/-- The schedule runs, and the main goroutine does not end between a read return and its `Stop()`. -/
def EndOk (T : Table) (f : FSys) (ls : List FLabel) : Prop :=
  ∃ r, FSys.run T f ls = some r ∧ ∀ i, r.1.mpc ≠ .readDone i

theorem EndOk_cons (T : Table) (f : FSys) (l : FLabel) (ls : List FLabel) (h : EndOk T f (l :: ls)) :
    ∃ f' o, FSys.step T f l = some (f', o) ∧ EndOk T f' ls := by
  obtain ⟨r, hr, hm⟩ := h
  cases hs : FSys.step T f l with
  | none => simp [FSys.run, hs] at hr
  | some x =>
    obtain ⟨f', o⟩ := x
    rw [run_cons_some T f f' l o ls hs] at hr
    cases h2 : FSys.run T f' ls with
    | none => rw [h2] at hr; cases hr
    | some r2 =>
      rw [h2] at hr
      simp only [Option.map_some, Option.some.injEq] at hr
      refine ⟨f', o, ?_, r2, ?_, by rw [← hr] at hm; exact hm⟩ <;> first | rfl | assumption

/-- **In the normalised schedule every read return is directly followed by its `Stop()`.** -/
theorem readNorm_adj (T : Table) : ∀ (ls : List FLabel) (p : Option Inp) (f : FSys),
    EndOk T f (pend p ++ ls) → readAdj (readNorm T p f ls) = true
  | [], none, _, _ => rfl
  | [], some i, f, h => by
    exfalso
    obtain ⟨f', o, hs, r, hr, hm⟩ := EndOk_cons T f (.readRet i) [] h
    simp only [FSys.run, Option.some.injEq] at hr
    simp only [FSys.step] at hs
    split at hs
    · simp only [Option.some.injEq, Prod.mk.injEq] at hs
      exact hm i (by rw [← hr, ← hs.1])
    · cases hs
  | l :: ls, none, f, h => by
    simp only [pend, List.nil_append] at h
    simp only [readNorm]
    split
    · rename_i i
      exact readNorm_adj T ls (some i) f h
    · rename_i hnr
      obtain ⟨f', o, hs, h'⟩ := EndOk_cons T f l ls h
      simp only [hs, readAdj]
      have : isRead l = false := by
        cases l <;> first | rfl | exact absurd rfl (hnr _)
      simp only [this, Bool.false_eq_true, if_false, Bool.true_and]
      exact readNorm_adj T ls none f' h'
  | l :: ls, some i, f, h => by
    simp only [pend, List.singleton_append] at h
    simp only [readNorm]
    by_cases hl : l = .main
    · subst hl
      rw [if_pos rfl]
      obtain ⟨f1, o1, hs1, h1⟩ := EndOk_cons T f _ _ h
      obtain ⟨f2, o2, hs2, h2⟩ := EndOk_cons T f1 _ _ h1
      have hrun : FSys.run T f [.readRet i, .main] = some (f2, o1 ++ (o2 ++ [])) := by
        simp only [FSys.run, hs1, hs2]
      simp only [hrun, readAdj, isRead, if_true, headIsMain, Bool.true_and, Bool.false_eq_true, if_false]
      exact readNorm_adj T ls none f2 h2
    · rw [if_neg hl]
      have h' : EndOk T f (l :: .readRet i :: ls) := by
        obtain ⟨r, hr, hm⟩ := h
        exact ⟨r, by rw [← read_swap T f i l ls hl]; exact hr, hm⟩
      obtain ⟨f', o, hs, h1⟩ := EndOk_cons T f l _ h'
      simp only [hs, readAdj]
      have hnr : isRead l = false := by
        cases l with
        | readRet j =>
          exfalso
          obtain ⟨f2, o2, hs2, _⟩ := EndOk_cons T f' _ _ h1
          simp only [FSys.step] at hs hs2
          split at hs
          · simp only [Option.some.injEq, Prod.mk.injEq] at hs
            rw [← hs.1] at hs2
            simp at hs2
          · cases hs
        | _ => rfl
      simp only [hnr, Bool.false_eq_true, if_false, Bool.true_and]
      exact readNorm_adj T ls (some i) f' h1

end VaxisModel.Lemmas.ParserRunSchedGroup
