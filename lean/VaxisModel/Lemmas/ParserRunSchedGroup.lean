/-
C08: grouping normal forms of schedules of the statement-grained life cycle: the statements that the
harness labels of Model/ParserRunSched.lean group (no yield point in between) can be made adjacent in
every schedule without changing its result.  Definitions and lemmas.
-/
import VaxisModel.Props.C08Sched
import VaxisModel.Lemmas.ParserRunSchedNormal
import VaxisModel.Model.ParserRunSched

namespace VaxisModel.Lemmas.ParserRunSchedGroup
open VaxisModel.Model.ParserTable VaxisModel.Model.Parser VaxisModel.Model.ParserRun VaxisModel.Model.ParserRunFine
open VaxisModel.Props.C08Sched VaxisModel.Lemmas.ParserRunSchedNormal

/-! ### the read return and the `Stop()` inside `readRune` -/

def isRead : FLabel → Bool
  | .readRet _ => true
  | _ => false

/-- Every `readRet` is immediately followed by a statement of the main goroutine (the `Stop()`). -/
def readAdj : List FLabel → Bool
  | [] => true
  | l :: ls => (if isRead l then headIsMain ls else true) && readAdj ls

/-- The read return that is being carried forward. -/
def pend : Option Inp → List FLabel
  | none => []
  | some i => [.readRet i]

/-- The normalising function: a read return is carried forward (the main goroutine is not looked at by
    anybody else) to the next statement of the main goroutine — its `Stop()`. -/
def readNorm (T : Table) : Option Inp → FSys → List FLabel → List FLabel
  | p, _, [] => pend p
  | none, f, l :: ls =>
    match l with
    | .readRet i => readNorm T (some i) f ls
    | _ =>
      match FSys.step T f l with
      | some (f', _) => l :: readNorm T none f' ls
      | none => l :: ls
  | some i, f, l :: ls =>
    if l = .main then
      match FSys.run T f [.readRet i, .main] with
      | some (f'', _) => .readRet i :: .main :: readNorm T none f'' ls
      | none => .readRet i :: .main :: ls
    else
      match FSys.step T f l with
      | some (f', _) => l :: readNorm T (some i) f' ls
      | none => .readRet i :: l :: ls

/-- **The read return commutes with every statement of another party** (nobody but the main goroutine
    looks at where the main goroutine is). -/
theorem readRet_commutes (T : Table) (f : FSys) (i : Inp) (l : FLabel) (hl : l ≠ .main) :
    step2 T f (.readRet i) l = step2 T f l (.readRet i) := by
  simp only [step2, FSys.run, FSys.step]
  cases l with
  | main => exact absurd rfl hl
  | closeSig => by_cases h : f.mpc = .inRead <;> simp [h]
  | readRet j => by_cases h : f.mpc = .inRead <;> simp [h]
  | expire =>
    cases ha : f.armed <;> by_cases h : f.mpc = .inRead <;> simp [h]
  | cb k =>
    simp only [cbStep]
    cases hk : f.cbs[k]? with
    | none => by_cases h : f.mpc = .inRead <;> simp [h, hk]
    | some c =>
      obtain ⟨g, pc⟩ := c
      by_cases h : f.mpc = .inRead <;> by_cases hm : f.mutex = none <;> cases pc <;> simp [h, hk, hm]

theorem read_swap (T : Table) (f : FSys) (i : Inp) (l : FLabel) (X : List FLabel) (hl : l ≠ .main) :
    FSys.run T f (.readRet i :: l :: X) = FSys.run T f (l :: .readRet i :: X) := by
  have := swap_in_schedule T [] X (.readRet i) l f (fun f' o hp => by
    simp only [FSys.run, Option.some.injEq, Prod.mk.injEq] at hp
    rw [← hp.1]; exact readRet_commutes T f i l hl)
  simpa using this

theorem run_cons_some (T : Table) (f f' : FSys) (l : FLabel) (o : List Seq) (X : List FLabel)
    (hs : FSys.step T f l = some (f', o)) :
    FSys.run T f (l :: X) = (FSys.run T f' X).map (fun r => (r.1, o ++ r.2)) := by
  simp only [FSys.run, hs]
  cases FSys.run T f' X with
  | none => rfl
  | some r => cases r; rfl

/-- **The normalised schedule runs to the same result.** -/
theorem readNorm_run (T : Table) : ∀ (ls : List FLabel) (p : Option Inp) (f : FSys),
    FSys.run T f (readNorm T p f ls) = FSys.run T f (pend p ++ ls)
  | [], p, f => by simp [readNorm]
  | l :: ls, none, f => by
    simp only [readNorm, pend, List.nil_append]
    split
    · rename_i i
      rw [readNorm_run T ls (some i) f]; rfl
    · cases hs : FSys.step T f l with
      | none => rfl
      | some r =>
        obtain ⟨f', o⟩ := r
        simp only
        rw [run_cons_some T f f' l o _ hs, run_cons_some T f f' l o _ hs, readNorm_run T ls none f']; rfl
  | l :: ls, some i, f => by
    simp only [readNorm, pend, List.singleton_append]
    by_cases hl : l = .main
    · subst hl
      rw [if_pos rfl]
      have e : ∀ X, FSys.run T f (.readRet i :: .main :: X) = FSys.run T f ([.readRet i, .main] ++ X) := fun _ => rfl
      cases h2 : FSys.run T f [.readRet i, .main] with
      | none => rfl
      | some r =>
        obtain ⟨f'', o⟩ := r
        simp only
        rw [e, e, run_append, run_append, h2]
        simp only [readNorm_run T ls none f'', pend, List.nil_append]
    · rw [if_neg hl]
      cases hs : FSys.step T f l with
      | none => rfl
      | some r =>
        obtain ⟨f', o⟩ := r
        simp only
        rw [read_swap T f i l ls hl, run_cons_some T f f' l o _ hs, run_cons_some T f f' l o _ hs,
          readNorm_run T ls (some i) f']; rfl

/-- The normalised schedule is a permutation of the original. -/
theorem readNorm_perm (T : Table) : ∀ (ls : List FLabel) (p : Option Inp) (f : FSys),
    (readNorm T p f ls).Perm (pend p ++ ls)
  | [], p, f => by simp [readNorm]
  | l :: ls, none, f => by
    simp only [readNorm, pend, List.nil_append]
    split
    · rename_i i
      exact readNorm_perm T ls (some i) f
    · cases hs : FSys.step T f l with
      | none => exact List.Perm.refl _
      | some r => exact (readNorm_perm T ls none r.1).cons _
  | l :: ls, some i, f => by
    simp only [readNorm, pend, List.singleton_append]
    by_cases hl : l = .main
    · subst hl
      rw [if_pos rfl]
      cases h2 : FSys.run T f [.readRet i, .main] with
      | none => exact List.Perm.refl _
      | some r => exact ((readNorm_perm T ls none r.1).cons _).cons _
    · rw [if_neg hl]
      cases hs : FSys.step T f l with
      | none => exact List.Perm.refl _
      | some r => exact ((readNorm_perm T ls (some i) r.1).cons _).trans (List.Perm.swap _ _ _)

/-- The schedule runs, and the main goroutine does not end between a read return and its `Stop()`. -/
def EndOk (T : Table) (f : FSys) (ls : List FLabel) : Prop :=
  ∃ r, FSys.run T f ls = some r ∧ ∀ i, r.1.mpc ≠ .readDone i

theorem EndOk_cons (T : Table) (f : FSys) (l : FLabel) (ls : List FLabel) (h : EndOk T f (l :: ls)) :
    ∃ f' o, FSys.step T f l = some (f', o) ∧ EndOk T f' ls := by
  obtain ⟨r, hr, hm⟩ := h
  cases hs : FSys.step T f l with
  | none => simp [FSys.run, hs] at hr
  | some x =>
    obtain ⟨f', o⟩ := x
    rw [run_cons_some T f f' l o ls hs] at hr
    cases h2 : FSys.run T f' ls with
    | none => rw [h2] at hr; cases hr
    | some r2 =>
      rw [h2] at hr
      simp only [Option.map_some, Option.some.injEq] at hr
      refine ⟨f', o, ?_, r2, ?_, by rw [← hr] at hm; exact hm⟩ <;> first | rfl | assumption

/-- **In the normalised schedule every read return is directly followed by its `Stop()`.** -/
theorem readNorm_adj (T : Table) : ∀ (ls : List FLabel) (p : Option Inp) (f : FSys),
    EndOk T f (pend p ++ ls) → readAdj (readNorm T p f ls) = true
  | [], none, _, _ => rfl
  | [], some i, f, h => by
    exfalso
    obtain ⟨f', o, hs, r, hr, hm⟩ := EndOk_cons T f (.readRet i) [] h
    simp only [FSys.run, Option.some.injEq] at hr
    simp only [FSys.step] at hs
    split at hs
    · simp only [Option.some.injEq, Prod.mk.injEq] at hs
      exact hm i (by rw [← hr, ← hs.1])
    · cases hs
  | l :: ls, none, f, h => by
    simp only [pend, List.nil_append] at h
    simp only [readNorm]
    split
    · rename_i i
      exact readNorm_adj T ls (some i) f h
    · rename_i hnr
      obtain ⟨f', o, hs, h'⟩ := EndOk_cons T f l ls h
      simp only [hs, readAdj]
      have : isRead l = false := by
        cases l <;> first | rfl | exact absurd rfl (hnr _)
      simp only [this, Bool.false_eq_true, if_false, Bool.true_and]
      exact readNorm_adj T ls none f' h'
  | l :: ls, some i, f, h => by
    simp only [pend, List.singleton_append] at h
    simp only [readNorm]
    by_cases hl : l = .main
    · subst hl
      rw [if_pos rfl]
      obtain ⟨f1, o1, hs1, h1⟩ := EndOk_cons T f _ _ h
      obtain ⟨f2, o2, hs2, h2⟩ := EndOk_cons T f1 _ _ h1
      have hrun : FSys.run T f [.readRet i, .main] = some (f2, o1 ++ (o2 ++ [])) := by
        simp only [FSys.run, hs1, hs2]
      simp only [hrun, readAdj, isRead, if_true, headIsMain, Bool.true_and, Bool.false_eq_true, if_false]
      exact readNorm_adj T ls none f2 h2
    · rw [if_neg hl]
      have h' : EndOk T f (l :: .readRet i :: ls) := by
        obtain ⟨r, hr, hm⟩ := h
        exact ⟨r, by rw [← read_swap T f i l ls hl]; exact hr, hm⟩
      obtain ⟨f', o, hs, h1⟩ := EndOk_cons T f l _ h'
      simp only [hs, readAdj]
      have hnr : isRead l = false := by
        cases l with
        | readRet j =>
          exfalso
          obtain ⟨f2, o2, hs2, _⟩ := EndOk_cons T f' _ _ h1
          simp only [FSys.step] at hs hs2
          split at hs
          · simp only [Option.some.injEq, Prod.mk.injEq] at hs
            rw [← hs.1] at hs2
            simp at hs2
          · cases hs
        | _ => rfl
      simp only [hnr, Bool.false_eq_true, if_false, Bool.true_and]
      exact readNorm_adj T ls (some i) f' h1

/-! ### a callback's failed check / `p.ignoreST = false` and its deferred `Unlock` -/

open VaxisModel.Lemmas.ParserRunFine

/-- **A callback's check and its `p.ignoreST = false` commute with every statement of every other
    goroutine that is not inside the mutex** (they read `p.escGen`, write `p.ignoreST` and the
    callback's own program counter; they leave the mutex as it is). -/
theorem cb_mid_commutes (T : Table) (f : FSys) (k g : Nat) (pc : CbPc) (l : FLabel)
    (hk : f.cbs[k]? = some (g, pc)) (hpc : pc = .locked ∨ pc = .stateSet) (hl : l ≠ .cb k)
    (hm : holdsMain f.mpc = false) : step2 T f (.cb k) l = step2 T f l (.cb k) := by
  have hlt : k < f.cbs.length := by
    cases Nat.lt_or_ge k f.cbs.length with
    | inl h => exact h
    | inr h => rw [List.getElem?_eq_none_iff.mpr h] at hk; cases hk
  cases l with
  | cb j =>
    have hjk : j ≠ k := fun h => hl (by rw [h])
    rcases hpc with rfl | rfl
    all_goals
      simp only [step2, FSys.run, FSys.step, cbStep, hk]
      cases hj : f.cbs[j]? with
      | none => simp [hj, List.getElem?_set_ne hjk.symm]
      | some c =>
        obtain ⟨gj, pcj⟩ := c
        cases pcj <;> by_cases hmx : f.mutex = none <;>
          simp [hj, hk, hmx, List.getElem?_set_ne (Ne.symm hjk), List.getElem?_set_ne hjk, List.set_comm _ _ hjk]
  | closeSig =>
    rcases hpc with rfl | rfl <;> simp [step2, FSys.run, FSys.step, cbStep, hk]
  | readRet i =>
    rcases hpc with rfl | rfl <;> by_cases h : f.mpc = .inRead <;> simp [step2, FSys.run, FSys.step, cbStep, hk, h]
  | expire =>
    cases ha : f.armed with
    | none => rcases hpc with rfl | rfl <;> simp [step2, FSys.run, FSys.step, cbStep, hk, ha]
    | some ga =>
      have e1 : (f.cbs ++ [(ga, CbPc.started)])[k]? = f.cbs[k]? := List.getElem?_append_left hlt
      have hset : ∀ x, (f.cbs ++ [(ga, CbPc.started)]).set k x = f.cbs.set k x ++ [(ga, CbPc.started)] := fun x => by
        rw [List.set_append_left _ _ hlt]
      rcases hpc with rfl | rfl <;> simp [step2, FSys.run, FSys.step, cbStep, hk, ha, e1, hset]
  | main =>
    rcases hpc with rfl | rfl
    all_goals
      simp only [step2, FSys.run, FSys.step, cbStep, hk, mainStep]
      cases hmpc : f.mpc with
      | fin st v =>
        cases st <;> by_cases hmx : f.mutex = none <;> simp_all [holdsMain]
      | _ => by_cases hmx : f.mutex = none <;> by_cases hc : f.closeReq = true <;> simp_all [holdsMain]

/-- Callback `k`'s next statement is one that the harness label `cb k` runs on from, through the
    deferred `Unlock`: a check that fails, or `p.ignoreST = false`. -/
def opens (f : FSys) (k : Nat) : Bool :=
  match f.cbs[k]? with
  | some (g, .locked) => !decide (g = f.escGen)
  | some (_, .stateSet) => true
  | _ => false

def openK (f : FSys) : FLabel → Option Nat
  | .cb k => if opens f k then some k else none
  | _ => none

/-- Along the run from `f`: every callback statement that leads to `failed` / `stSet` is immediately
    followed by the next statement of the same callback (the deferred `Unlock`). -/
def cbAdj (T : Table) : FSys → List FLabel → Bool
  | _, [] => true
  | f, l :: ls =>
    match FSys.step T f l with
    | none => true
    | some (f', _) =>
      (match openK f l with
       | some k => decide (ls.head? = some (.cb k))
       | none => true) && cbAdj T f' ls

def pendc : Option Nat → List FLabel
  | none => []
  | some k => [.cb k]

/-- The normalising function: such a statement is carried forward to the callback's next statement. -/
def cbNorm (T : Table) : Option Nat → FSys → List FLabel → List FLabel
  | p, _, [] => pendc p
  | none, f, l :: ls =>
    match openK f l with
    | some k => cbNorm T (some k) f ls
    | none =>
      match FSys.step T f l with
      | some (f', _) => l :: cbNorm T none f' ls
      | none => l :: ls
  | some k, f, l :: ls =>
    if l = .cb k then
      match FSys.run T f [.cb k, .cb k] with
      | some (f'', _) => .cb k :: .cb k :: cbNorm T none f'' ls
      | none => .cb k :: .cb k :: ls
    else
      match FSys.step T f l with
      | some (f', _) => l :: cbNorm T (some k) f' ls
      | none => .cb k :: l :: ls

theorem opens_spec (f : FSys) (k : Nat) (h : opens f k = true) :
    ∃ g pc, f.cbs[k]? = some (g, pc) ∧ (pc = .locked ∨ pc = .stateSet) ∧ (pc = .locked → g ≠ f.escGen) := by
  unfold opens at h
  split at h
  · rename_i g hk
    exact ⟨g, .locked, hk, Or.inl rfl, fun _ => by simpa using h⟩
  · rename_i g hk
    exact ⟨g, .stateSet, hk, Or.inr rfl, fun h => by cases h⟩
  · cases h

theorem openK_spec (f : FSys) (l : FLabel) (k : Nat) (h : openK f l = some k) : l = .cb k ∧ opens f k = true := by
  cases l with
  | cb j =>
    simp only [openK] at h
    split at h
    · rename_i ho
      simp only [Option.some.injEq] at h
      subst h; exact ⟨rfl, ho⟩
    · cases h
  | _ => cases h

/-- A statement of another goroutine outside the mutex leaves callback `k` and `p.escGen` alone. -/
theorem frame_k (T : Table) (f f' : FSys) (l : FLabel) (o : List Seq) (k : Nat)
    (hs : FSys.step T f l = some (f', o)) (hl : l ≠ .cb k) (hm : holdsMain f.mpc = false)
    (hlt : k < f.cbs.length) : f'.cbs[k]? = f.cbs[k]? ∧ f'.escGen = f.escGen := by
  cases l with
  | closeSig => simp only [FSys.step, Option.some.injEq, Prod.mk.injEq] at hs; rw [← hs.1]; exact ⟨rfl, rfl⟩
  | readRet i =>
    simp only [FSys.step] at hs
    split at hs
    · simp only [Option.some.injEq, Prod.mk.injEq] at hs; rw [← hs.1]; exact ⟨rfl, rfl⟩
    · cases hs
  | expire =>
    simp only [FSys.step] at hs
    split at hs
    · simp only [Option.some.injEq, Prod.mk.injEq] at hs; rw [← hs.1]
      exact ⟨List.getElem?_append_left hlt, rfl⟩
    · cases hs
  | cb j =>
    have hjk : j ≠ k := fun h => hl (by rw [h])
    simp only [FSys.step] at hs
    unfold cbStep at hs
    split at hs
    · cases hs
    · rename_i g pc hi
      cases pc <;> simp only at hs <;>
        first
          | (cases hs; done)
          | (cases hs; exact ⟨List.getElem?_set_ne hjk, rfl⟩)
          | (split at hs <;> first | (cases hs; done) | (cases hs; exact ⟨List.getElem?_set_ne hjk, rfl⟩))
  | main =>
    simp only [FSys.step] at hs
    unfold mainStep at hs
    cases hpc : f.mpc with
    | fin st v =>
      rw [hpc] at hs hm
      cases st <;> simp only at hs <;>
        first
          | (cases hm; done)
          | (cases hs; exact ⟨rfl, rfl⟩)
          | (split at hs <;> first | (cases hs; done) | (cases hs; exact ⟨rfl, rfl⟩))
    | _ =>
      rw [hpc] at hs hm
      simp only at hs
      first
        | (cases hm; done)
        | (cases hs; done)
        | (cases hs; exact ⟨rfl, rfl⟩)
        | (split at hs <;> first | (cases hs; done) | (cases hs; exact ⟨rfl, rfl⟩))

theorem lt_of_getElem? {α} {l : List α} {k : Nat} {x : α} (h : l[k]? = some x) : k < l.length := by
  cases Nat.lt_or_ge k l.length with
  | inl h' => exact h'
  | inr h' => rw [List.getElem?_eq_none_iff.mpr h'] at h; cases h

theorem opens_crit (f : FSys) (hinv : FInv f) (k : Nat) (h : opens f k = true) :
    holdsMain f.mpc = false ∧ k < f.cbs.length := by
  obtain ⟨g, pc, hk, hpc, _⟩ := opens_spec f k h
  exact ⟨(cb_excl f hinv k g pc hk (by rcases hpc with rfl | rfl <;> rfl)).2.1, lt_of_getElem? hk⟩

theorem opens_keep (T : Table) (f f' : FSys) (l : FLabel) (o : List Seq) (k : Nat) (hinv : FInv f)
    (hs : FSys.step T f l = some (f', o)) (hl : l ≠ .cb k) (h : opens f k = true) : opens f' k = true := by
  obtain ⟨hm, hlt⟩ := opens_crit f hinv k h
  obtain ⟨h1, h2⟩ := frame_k T f f' l o k hs hl hm hlt
  unfold opens at h ⊢
  rw [h1, h2]; exact h

theorem cb_swap (T : Table) (f : FSys) (hinv : FInv f) (k : Nat) (l : FLabel) (X : List FLabel)
    (h : opens f k = true) (hl : l ≠ .cb k) :
    FSys.run T f (.cb k :: l :: X) = FSys.run T f (l :: .cb k :: X) := by
  obtain ⟨g, pc, hk, hpc, _⟩ := opens_spec f k h
  have := swap_in_schedule T [] X (.cb k) l f (fun f' o hp => by
    simp only [FSys.run, Option.some.injEq, Prod.mk.injEq] at hp
    rw [← hp.1]; exact cb_mid_commutes T f k g pc l hk hpc hl (opens_crit f hinv k h).1)
  simpa using this

/-- **The normalised schedule runs to the same result** (from a state that meets `FInv`). -/
theorem cbNorm_run (T : Table) (hT : TimerOk T) : ∀ (ls : List FLabel) (p : Option Nat) (f : FSys), FInv f →
    (∀ k, p = some k → opens f k = true) → FSys.run T f (cbNorm T p f ls) = FSys.run T f (pendc p ++ ls)
  | [], p, f, _, _ => by simp [cbNorm]
  | l :: ls, none, f, hinv, _ => by
    simp only [cbNorm, pendc, List.nil_append]
    cases ho : openK f l with
    | some k =>
      obtain ⟨rfl, hop⟩ := openK_spec f l k ho
      simp only
      rw [cbNorm_run T hT ls (some k) f hinv (fun k' hk' => by cases hk'; exact hop)]; rfl
    | none =>
      simp only
      cases hs : FSys.step T f l with
      | none => rfl
      | some r =>
        obtain ⟨f', o⟩ := r
        simp only
        rw [run_cons_some T f f' l o _ hs, run_cons_some T f f' l o _ hs,
          cbNorm_run T hT ls none f' (step_inv T hT f f' l o hinv hs) (fun _ h => by cases h)]; rfl
  | l :: ls, some k, f, hinv, hop => by
    have hop := hop k rfl
    simp only [cbNorm, pendc, List.singleton_append]
    by_cases hl : l = .cb k
    · subst hl
      rw [if_pos rfl]
      have e : ∀ X, FSys.run T f (.cb k :: .cb k :: X) = FSys.run T f ([.cb k, .cb k] ++ X) := fun _ => rfl
      cases h2 : FSys.run T f [.cb k, .cb k] with
      | none => rfl
      | some r =>
        obtain ⟨f'', o⟩ := r
        simp only
        rw [e, e, VaxisModel.Props.C08Sched.run_append, VaxisModel.Props.C08Sched.run_append, h2]
        simp only [cbNorm_run T hT ls none f'' (run_inv T hT _ f f'' o hinv h2) (fun _ h => by cases h), pendc,
          List.nil_append]
    · rw [if_neg hl]
      cases hs : FSys.step T f l with
      | none => rfl
      | some r =>
        obtain ⟨f', o⟩ := r
        simp only
        rw [cb_swap T f hinv k l ls hop hl, run_cons_some T f f' l o _ hs, run_cons_some T f f' l o _ hs,
          cbNorm_run T hT ls (some k) f' (step_inv T hT f f' l o hinv hs)
            (fun k' hk' => by cases hk'; exact opens_keep T f f' l o k hinv hs hl hop)]; rfl

/-- The normalised schedule is a permutation of the original. -/
theorem cbNorm_perm (T : Table) : ∀ (ls : List FLabel) (p : Option Nat) (f : FSys),
    (cbNorm T p f ls).Perm (pendc p ++ ls)
  | [], p, f => by simp [cbNorm]
  | l :: ls, none, f => by
    simp only [cbNorm, pendc, List.nil_append]
    cases ho : openK f l with
    | some k =>
      obtain ⟨rfl, _⟩ := openK_spec f l k ho
      exact cbNorm_perm T ls (some k) f
    | none =>
      simp only
      cases hs : FSys.step T f l with
      | none => exact List.Perm.refl _
      | some r => exact (cbNorm_perm T ls none r.1).cons _
  | l :: ls, some k, f => by
    simp only [cbNorm, pendc, List.singleton_append]
    by_cases hl : l = .cb k
    · subst hl
      rw [if_pos rfl]
      cases h2 : FSys.run T f [.cb k, .cb k] with
      | none => exact List.Perm.refl _
      | some r => exact ((cbNorm_perm T ls none r.1).cons _).cons _
    · rw [if_neg hl]
      cases hs : FSys.step T f l with
      | none => exact List.Perm.refl _
      | some r => exact ((cbNorm_perm T ls (some k) r.1).cons _).trans (List.Perm.swap _ _ _)

/-- The schedule runs and ends in a state that meets `P`. -/
def EndP (P : FSys → Prop) (T : Table) (f : FSys) (ls : List FLabel) : Prop :=
  ∃ r, FSys.run T f ls = some r ∧ P r.1

theorem EndP_cons (P : FSys → Prop) (T : Table) (f : FSys) (l : FLabel) (ls : List FLabel)
    (h : EndP P T f (l :: ls)) : ∃ f' o, FSys.step T f l = some (f', o) ∧ EndP P T f' ls := by
  obtain ⟨r, hr, hm⟩ := h
  cases hs : FSys.step T f l with
  | none => simp [FSys.run, hs] at hr
  | some x =>
    obtain ⟨f', o⟩ := x
    rw [run_cons_some T f f' l o ls hs] at hr
    cases h2 : FSys.run T f' ls with
    | none => rw [h2] at hr; cases hr
    | some r2 =>
      rw [h2] at hr
      simp only [Option.map_some, Option.some.injEq] at hr
      refine ⟨f', o, ?_, r2, ?_, by rw [← hr] at hm; exact hm⟩ <;> first | rfl | assumption

/-- No callback goroutine stands between its failed check / `p.ignoreST = false` and its `Unlock`. -/
def noHalf (f : FSys) : Prop := ∀ c ∈ f.cbs, c.2 ≠ .failed ∧ c.2 ≠ .stSet

theorem open_step (T : Table) (f f' : FSys) (k : Nat) (o : List Seq) (h : opens f k = true)
    (hs : FSys.step T f (.cb k) = some (f', o)) :
    ∃ g pc', f'.cbs[k]? = some (g, pc') ∧ (pc' = .failed ∨ pc' = .stSet) := by
  obtain ⟨g, pc, hk, hpc, hg⟩ := opens_spec f k h
  have hlt := lt_of_getElem? hk
  simp only [FSys.step, cbStep, hk] at hs
  rcases hpc with rfl | rfl
  · simp only [if_neg (hg rfl), Option.some.injEq, Prod.mk.injEq] at hs
    rw [← hs.1]
    exact ⟨g, .failed, by simp [List.getElem?_set_self hlt], Or.inl rfl⟩
  · simp only [Option.some.injEq, Prod.mk.injEq] at hs
    rw [← hs.1]
    exact ⟨g, .stSet, by simp [List.getElem?_set_self hlt], Or.inr rfl⟩

theorem not_opens_half (f : FSys) (k g : Nat) (pc : CbPc) (hk : f.cbs[k]? = some (g, pc))
    (hpc : pc = .failed ∨ pc = .stSet) : opens f k = false := by
  unfold opens
  rw [hk]
  rcases hpc with rfl | rfl <;> rfl

/-- Two callbacks are never both inside the mutex. -/
theorem other_not_opens (f : FSys) (hinv : FInv f) (k j : Nat) (hk : opens f k = true) (hjk : j ≠ k) :
    opens f j = false := by
  cases hj : opens f j with
  | false => rfl
  | true =>
    exfalso
    obtain ⟨g, pc, hgk, hpc, _⟩ := opens_spec f k hk
    obtain ⟨g', pc', hgj, hpc', _⟩ := opens_spec f j hj
    have hck : crit pc = true := by rcases hpc with rfl | rfl <;> rfl
    have hcj : crit pc' = true := by rcases hpc' with rfl | rfl <;> rfl
    have h1 := (cb_excl f hinv k g pc hgk hck).2.2
    have s4 := nCrit_set f.cbs k g pc .gone hgk
    rw [hck, show crit CbPc.gone = false from rfl] at s4
    simp only [Bool.toNat_true, Bool.toNat_false] at s4
    have h0 : nCrit (f.cbs.set k (g, .gone)) = 0 := by omega
    have hj' : (f.cbs.set k (g, .gone))[j]? = some (g', pc') := by
      rw [List.getElem?_set_ne (fun h => hjk h.symm)]; exact hgj
    have := nCrit_zero h0 _ (List.mem_of_getElem? hj')
    rw [hcj] at this; cases this

/-- **In the normalised schedule every failed check / `p.ignoreST = false` is directly followed by the
    callback's `Unlock`** — for a schedule that runs and does not end in between. -/
theorem cbNorm_adj (T : Table) (hT : TimerOk T) : ∀ (ls : List FLabel) (p : Option Nat) (f : FSys), FInv f →
    (∀ k, p = some k → opens f k = true) → EndP noHalf T f (pendc p ++ ls) → cbAdj T f (cbNorm T p f ls) = true
  | [], none, _, _, _, _ => rfl
  | [], some k, f, _, hop, h => by
    exfalso
    obtain ⟨f', o, hs, r, hr, hm⟩ := EndP_cons noHalf T f (.cb k) [] h
    simp only [FSys.run, Option.some.injEq] at hr
    obtain ⟨g, pc', hk', hpc'⟩ := open_step T f f' k o (hop k rfl) hs
    have := hm (g, pc') (by rw [← hr]; exact List.mem_of_getElem? hk')
    rcases hpc' with rfl | rfl
    · exact this.1 rfl
    · exact this.2 rfl
  | l :: ls, none, f, hinv, _, h => by
    simp only [pendc, List.nil_append] at h
    simp only [cbNorm]
    cases ho : openK f l with
    | some k =>
      obtain ⟨rfl, hop⟩ := openK_spec f l k ho
      exact cbNorm_adj T hT ls (some k) f hinv (fun k' hk' => by cases hk'; exact hop) h
    | none =>
      obtain ⟨f', o, hs, h'⟩ := EndP_cons noHalf T f l ls h
      simp only [hs, cbAdj, ho, Bool.true_and]
      exact cbNorm_adj T hT ls none f' (step_inv T hT f f' l o hinv hs) (fun _ h => by cases h) h'
  | l :: ls, some k, f, hinv, hop, h => by
    have hop := hop k rfl
    simp only [pendc, List.singleton_append] at h
    simp only [cbNorm]
    by_cases hl : l = .cb k
    · subst hl
      rw [if_pos rfl]
      obtain ⟨f1, o1, hs1, h1⟩ := EndP_cons noHalf T f _ _ h
      obtain ⟨f2, o2, hs2, h2⟩ := EndP_cons noHalf T f1 _ _ h1
      have hrun : FSys.run T f [.cb k, .cb k] = some (f2, o1 ++ (o2 ++ [])) := by
        simp only [FSys.run, hs1, hs2]
      obtain ⟨g, pc', hk', hpc'⟩ := open_step T f f1 k o1 hop hs1
      have hno : openK f1 (.cb k) = none := by simp [openK, not_opens_half f1 k g pc' hk' hpc']
      have hyes : openK f (.cb k) = some k := by simp [openK, hop]
      simp only [hrun, cbAdj, hs1, hs2, hyes, hno, List.head?_cons, decide_true, Bool.true_and]
      exact cbNorm_adj T hT ls none f2 (run_inv T hT _ f f2 _ hinv hrun) (fun _ h => by cases h) h2
    · rw [if_neg hl]
      have h' : EndP noHalf T f (l :: .cb k :: ls) := by
        obtain ⟨r, hr, hm⟩ := h
        exact ⟨r, by rw [← cb_swap T f hinv k l ls hop hl]; exact hr, hm⟩
      obtain ⟨f', o, hs, h1⟩ := EndP_cons noHalf T f l _ h'
      have hno : openK f l = none := by
        cases l with
        | cb j =>
          have hjk : j ≠ k := fun h => hl (by rw [h])
          simp [openK, other_not_opens f hinv k j hop hjk]
        | _ => rfl
      simp only [hs, cbAdj, hno, Bool.true_and]
      exact cbNorm_adj T hT ls (some k) f' (step_inv T hT f f' l o hinv hs)
        (fun k' hk' => by cases hk'; exact opens_keep T f f' l o k hinv hs hl hop) h1

/-! ### both adjacencies at once: carrying a callback statement forward keeps `readRet; main` together -/

theorem cbNorm_readAdj (T : Table) (hT : TimerOk T) (P : FSys → Prop) : ∀ (ls : List FLabel) (p : Option Nat) (f : FSys),
    FInv f → (∀ k, p = some k → opens f k = true) → EndP P T f (pendc p ++ ls) → readAdj ls = true →
    readAdj (cbNorm T p f ls) = true ∧ (headIsMain ls = true → headIsMain (cbNorm T p f ls) = true)
  | [], none, _, _, _, _, _ => ⟨rfl, fun h => h⟩
  | [], some k, _, _, _, _, _ => ⟨rfl, fun h => by cases h⟩
  | l :: ls, none, f, hinv, _, h, hra => by
    simp only [pendc, List.nil_append] at h
    simp only [readAdj, Bool.and_eq_true] at hra
    simp only [cbNorm]
    cases ho : openK f l with
    | some k =>
      obtain ⟨rfl, hop⟩ := openK_spec f l k ho
      exact ⟨(cbNorm_readAdj T hT P ls (some k) f hinv (fun k' hk' => by cases hk'; exact hop) h hra.2).1,
        fun hh => by cases hh⟩
    | none =>
      obtain ⟨f', o, hs, h'⟩ := EndP_cons P T f l ls h
      obtain ⟨i1, i2⟩ := cbNorm_readAdj T hT P ls none f' (step_inv T hT f f' l o hinv hs) (fun _ h => by cases h) h' hra.2
      simp only [hs, readAdj, Bool.and_eq_true]
      refine ⟨⟨?_, i1⟩, fun hh => by cases l <;> first | rfl | cases hh⟩
      by_cases hr : isRead l = true
      · rw [if_pos hr] at hra ⊢; exact i2 hra.1
      · rw [if_neg hr]
  | l :: ls, some k, f, hinv, hop, h, hra => by
    have hop := hop k rfl
    simp only [pendc, List.singleton_append] at h
    simp only [readAdj, Bool.and_eq_true] at hra
    simp only [cbNorm]
    by_cases hl : l = .cb k
    · subst hl
      rw [if_pos rfl]
      obtain ⟨f1, o1, hs1, h1⟩ := EndP_cons P T f _ _ h
      obtain ⟨f2, o2, hs2, h2⟩ := EndP_cons P T f1 _ _ h1
      have hrun : FSys.run T f [.cb k, .cb k] = some (f2, o1 ++ (o2 ++ [])) := by
        simp only [FSys.run, hs1, hs2]
      obtain ⟨i1, _⟩ := cbNorm_readAdj T hT P ls none f2 (run_inv T hT _ f f2 _ hinv hrun) (fun _ h => by cases h) h2 hra.2
      simp only [hrun, readAdj, isRead, Bool.false_eq_true, if_false, Bool.true_and]
      exact ⟨i1, fun hh => by cases hh⟩
    · rw [if_neg hl]
      have h' : EndP P T f (l :: .cb k :: ls) := by
        obtain ⟨r, hr, hm⟩ := h
        exact ⟨r, by rw [← cb_swap T f hinv k l ls hop hl]; exact hr, hm⟩
      obtain ⟨f', o, hs, h1⟩ := EndP_cons P T f l _ h'
      obtain ⟨i1, i2⟩ := cbNorm_readAdj T hT P ls (some k) f' (step_inv T hT f f' l o hinv hs)
        (fun k' hk' => by cases hk'; exact opens_keep T f f' l o k hinv hs hl hop) h1 hra.2
      simp only [hs, readAdj, Bool.and_eq_true]
      refine ⟨⟨?_, i1⟩, fun hh => by cases l <;> first | rfl | cases hh⟩
      by_cases hr : isRead l = true
      · rw [if_pos hr] at hra ⊢; exact i2 hra.1
      · rw [if_neg hr]

/-! ### a grouped schedule is the expansion of a schedule of harness labels -/

open VaxisModel.Model.ParserRunSched

/-- The harness label a statement (the first of its group) belongs to. -/
def sl : FLabel → SLabel
  | .closeSig => .close
  | .readRet i => .read i
  | .main => .main
  | .expire => .expire
  | .cb k => .cb k

/-- The statement opens a group of two. -/
def pairs (f : FSys) (l : FLabel) : Bool := isRead l || (openK f l).isSome

/-- The schedule of harness labels of a grouped schedule of statements (recursion along the run; the
    flag says that the statement is the second of its group: its label has been produced already). -/
def toS (T : Table) : Bool → FSys → List FLabel → List SLabel
  | _, _, [] => []
  | true, f, l :: ls =>
    match FSys.step T f l with
    | some (f', _) => toS T false f' ls
    | none => []
  | false, f, l :: ls =>
    match FSys.step T f l with
    | some (f', _) => sl l :: toS T (pairs f l) f' ls
    | none => []

theorem expand_cb (f : FSys) (k : Nat) : expand f (.cb k) = if opens f k then [.cb k, .cb k] else [.cb k] := by
  cases hk : f.cbs[k]? with
  | none => simp [expand, opens, hk]
  | some c =>
    obtain ⟨g, pc⟩ := c
    cases pc <;> simp [expand, opens, hk]

theorem srun_bridge (T : Table) (f : FSys) (x : SLabel) (es rest : List FLabel) (s' : List SLabel)
    (hx : sstep T f x = FSys.run T f es)
    (hrest : ∀ f1 o1, FSys.run T f es = some (f1, o1) → srun T f1 s' = FSys.run T f1 rest) :
    srun T f (x :: s') = FSys.run T f (es ++ rest) := by
  simp only [srun, hx, VaxisModel.Props.C08Sched.run_append]
  cases h : FSys.run T f es with
  | none => rfl
  | some r =>
    obtain ⟨f1, o1⟩ := r
    simp only [seqBind, hrest f1 o1 h]
    cases FSys.run T f1 rest with
    | none => rfl
    | some r2 => rfl

/-- A statement other than a read return does not leave the main goroutine at `readDone`. -/
theorem not_readDone_step (T : Table) (f f' : FSys) (l : FLabel) (o : List Seq)
    (hs : FSys.step T f l = some (f', o)) (hr : isRead l = false) (hnd : ∀ i, f.mpc ≠ .readDone i) :
    ∀ i, f'.mpc ≠ .readDone i := by
  cases l with
  | readRet i => cases hr
  | closeSig => simp only [FSys.step, Option.some.injEq, Prod.mk.injEq] at hs; rw [← hs.1]; exact hnd
  | expire =>
    simp only [FSys.step] at hs
    split at hs
    · simp only [Option.some.injEq, Prod.mk.injEq] at hs; rw [← hs.1]; exact hnd
    · cases hs
  | cb k =>
    simp only [FSys.step] at hs
    have hm : f'.mpc = f.mpc := by
      unfold cbStep at hs
      split at hs
      · cases hs
      · rename_i g pc hk
        cases pc <;> simp only at hs <;>
          first
            | (cases hs; done)
            | (cases hs; rfl)
            | (split at hs <;> first | (cases hs; done) | (cases hs; rfl))
    rw [hm]; exact hnd
  | main =>
    simp only [FSys.step] at hs
    unfold mainStep at hs
    intro i hi
    cases hpc : f.mpc with
    | readDone j => exact hnd j hpc
    | fin st v =>
      rw [hpc] at hs
      cases st <;> simp only at hs <;>
        first
          | (cases hs; cases hi; done)
          | (split at hs <;> first | (cases hs; done) | (cases hs; cases hi; done))
    | stepped b => rw [hpc] at hs; cases hs; cases b <;> cases hi
    | _ =>
      rw [hpc] at hs
      simp only at hs
      first
        | (cases hs; done)
        | (cases hs; cases hi; done)
        | (split at hs <;> first | (cases hs; done) | (cases hs; cases hi; done))

theorem sstep_single (T : Table) (f : FSys) (l : FLabel) (hr : isRead l = false) (ho : openK f l = none)
    (hen : (FSys.step T f l).isSome = true) (hnd : ∀ i, f.mpc ≠ .readDone i) :
    sstep T f (sl l) = FSys.run T f [l] := by
  cases l with
  | readRet i => cases hr
  | closeSig => simp [sstep, sl, canRelease, expand]
  | expire => simp [sstep, sl, canRelease, expand]
  | cb k =>
    have hno : opens f k = false := by
      simp only [openK] at ho
      cases h : opens f k with
      | false => rfl
      | true => rw [h] at ho; simp at ho
    simp [sstep, sl, canRelease, expand_cb, hno]
  | main =>
    have hcr : canRelease f .main = true := by
      simp only [canRelease]
      cases hpc : f.mpc with
      | inRead => simp [FSys.step, mainStep, hpc] at hen
      | readDone i => exact absurd hpc (hnd i)
      | _ => rfl
    simp [sstep, sl, hcr, expand]

theorem sstep_read (T : Table) (f : FSys) (i : Inp) : sstep T f (.read i) = FSys.run T f [.readRet i, .main] := by
  simp [sstep, canRelease, expand]

theorem sstep_cb_pair (T : Table) (f : FSys) (k : Nat) (h : opens f k = true) :
    sstep T f (.cb k) = FSys.run T f [.cb k, .cb k] := by
  simp [sstep, canRelease, expand_cb, h]

theorem isSome_cons (T : Table) (f : FSys) (l : FLabel) (ls : List FLabel)
    (h : (FSys.run T f (l :: ls)).isSome = true) :
    ∃ f' o, FSys.step T f l = some (f', o) ∧ (FSys.run T f' ls).isSome = true := by
  cases hs : FSys.step T f l with
  | none => simp [FSys.run, hs] at h
  | some x =>
    obtain ⟨f', o⟩ := x
    rw [run_cons_some T f f' l o ls hs] at h
    refine ⟨f', o, rfl, ?_⟩
    cases h2 : FSys.run T f' ls with
    | none => rw [h2] at h; cases h
    | some r => rfl

/-- **A grouped schedule is the expansion of a schedule of harness labels**: `srun` of `toS` gives the
    result of the statement schedule. -/
theorem toS_run (T : Table) : ∀ (ls : List FLabel) (f : FSys), (FSys.run T f ls).isSome = true →
    readAdj ls = true → cbAdj T f ls = true → (∀ i, f.mpc ≠ .readDone i) →
    srun T f (toS T false f ls) = FSys.run T f ls
  | [], _, _, _, _, _ => by simp [toS, srun, FSys.run]
  | [l], f, hr, hra, hca, hnd => by
    obtain ⟨f', o, hs, _⟩ := isSome_cons T f l [] hr
    have hnr : isRead l = false := by
      cases h : isRead l with
      | false => rfl
      | true => simp [readAdj, h, headIsMain] at hra
    have hno : openK f l = none := by
      cases h : openK f l with
      | none => rfl
      | some k => simp [cbAdj, hs, h] at hca
    have := srun_bridge T f (sl l) [l] [] [] (sstep_single T f l hnr hno (by rw [hs]; rfl) hnd) (fun _ _ _ => rfl)
    simpa [toS, hs] using this
  | l :: l2 :: rest, f, hr, hra, hca, hnd => by
    obtain ⟨f1, o1, hs1, hr1⟩ := isSome_cons T f l _ hr
    obtain ⟨f2, o2, hs2, hr2⟩ := isSome_cons T f1 l2 _ hr1
    have hrun2 : FSys.run T f [l, l2] = some (f2, o1 ++ (o2 ++ [])) := by simp only [FSys.run, hs1, hs2]
    have hrun1 : FSys.run T f [l] = some (f1, o1 ++ []) := by simp only [FSys.run, hs1]
    simp only [readAdj, Bool.and_eq_true] at hra
    simp only [cbAdj, hs1, hs2, Bool.and_eq_true] at hca
    by_cases hp : pairs f l = true
    · have ht : toS T false f (l :: l2 :: rest) = sl l :: toS T false f2 rest := by simp only [toS, hs1, hs2, hp]
      rw [ht]
      have hl2 : l2 = l ∧ (isRead l = false) ∨ (isRead l = true ∧ l2 = .main) := by
        cases hrd : isRead l with
        | true =>
          right
          rw [hrd] at hra
          simp only [if_true] at hra
          refine ⟨rfl, ?_⟩
          cases l2 <;> first | rfl | simp [headIsMain] at hra
        | false =>
          left
          simp only [pairs, hrd, Bool.false_or] at hp
          cases ho : openK f l with
          | none => rw [ho] at hp; cases hp
          | some k =>
            obtain ⟨rfl, _⟩ := openK_spec f l k ho
            rw [ho] at hca
            simp only [List.head?_cons, decide_eq_true_eq, Option.some.injEq] at hca
            exact ⟨hca.1, rfl⟩
      have hnd2 : ∀ i, f2.mpc ≠ .readDone i := by
        rcases hl2 with ⟨rfl, hnr⟩ | ⟨hrd, rfl⟩
        · exact not_readDone_step T f1 f2 l2 o2 hs2 hnr (not_readDone_step T f f1 l2 o1 hs1 hnr hnd)
        · cases l with
          | readRet i =>
            simp only [FSys.step] at hs1
            split at hs1
            · simp only [Option.some.injEq, Prod.mk.injEq] at hs1
              rw [← hs1.1] at hs2
              simp only [FSys.step, mainStep, Option.some.injEq, Prod.mk.injEq] at hs2
              rw [← hs2.1]; intro j hj; cases hj
            · cases hs1
          | _ => cases hrd
      have ih := toS_run T rest f2 hr2 hra.2.2 hca.2.2 hnd2
      have hx : sstep T f (sl l) = FSys.run T f [l, l2] := by
        rcases hl2 with ⟨rfl, hnr⟩ | ⟨hrd, rfl⟩
        · simp only [pairs, hnr, Bool.false_or] at hp
          cases ho : openK f l2 with
          | none => rw [ho] at hp; cases hp
          | some k =>
            obtain ⟨rfl, hop⟩ := openK_spec f l2 k ho
            exact sstep_cb_pair T f k hop
        · cases l with
          | readRet i => exact sstep_read T f i
          | _ => cases hrd
      exact srun_bridge T f (sl l) [l, l2] rest _ hx (fun f1' o1' h => by
        rw [hrun2] at h
        simp only [Option.some.injEq, Prod.mk.injEq] at h
        rw [← h.1]; exact ih)
    · have hp0 : pairs f l = false := by simpa using hp
      have ht : toS T false f (l :: l2 :: rest) = sl l :: toS T false f1 (l2 :: rest) := by simp only [toS, hs1, hp0]
      rw [ht]
      have hp' : pairs f l = false := hp0
      simp only [pairs, Bool.or_eq_false_iff] at hp'
      have hno : openK f l = none := by
        cases h : openK f l with
        | none => rfl
        | some k => rw [h] at hp'; simp at hp'
      have ih := toS_run T (l2 :: rest) f1 hr1 (by simp only [readAdj, Bool.and_eq_true]; exact hra.2) (by simp only [cbAdj, hs2, Bool.and_eq_true]; exact hca.2)
        (not_readDone_step T f f1 l o1 hs1 hp'.1 hnd)
      exact srun_bridge T f (sl l) [l] (l2 :: rest) _ (sstep_single T f l hp'.1 hno (by rw [hs1]; rfl) hnd)
        (fun f1' o1' h => by
          rw [hrun1] at h
          simp only [Option.some.injEq, Prod.mk.injEq] at h
          rw [← h.1]; exact ih)

/-- The full statement asked for (`grouped_normal_form`), NOT proved here: the grouped form can in
    addition be chosen joint-normal in the sense of `Props/C08SchedNormal.lean` (every `expire` directly
    behind the arming statement, every `closeSig` in front of a `select` or at the end).  Proved are the
    four normal forms separately, `joint_normal_form` (expiry + `Close()`), `grouped_adjacent_form` (both
    groupings) and `grouped_is_harness_schedule`; missing are the three preservation lemmas "`readNorm`
    keeps `expNormal`/`closeNormal`" and "`cbNorm` keeps `expNormal`/`closeNormal`" (the carried
    statement never has to pass between an arming statement and its `expire`, nor between a `closeSig`
    and its `select`, in a schedule that is already normal — by the same case analysis as
    `closeNorm_expNormal`). -/
def grouped_normal_form_full : Prop :=
  ∀ (ls : List FLabel) (r : FSys × List Seq), FSys.run handTable FSys.init ls = some r → r.1.mpc = .done →
    (∀ c ∈ r.1.cbs, c.2 = .gone) →
    ∃ ls', FSys.run handTable FSys.init ls' = some r ∧ ls'.Perm ls ∧ expNormal handTable false FSys.init ls' = true ∧
      closeNormal handTable FSys.init ls' = true ∧ readAdj ls' = true ∧ cbAdj handTable FSys.init ls' = true ∧
      srun handTable FSys.init (toS handTable false FSys.init ls') = some r

end VaxisModel.Lemmas.ParserRunSchedGroup
