/-
C08: normal forms of schedules of the statement-grained life cycle (`FSys`, Model/ParserRunFine.lean).
`Props/C08Sched.lean` proves the single moves (`closeSig_commutes`, `closeSig_moves_later`, …); here the
moves are iterated: every `Close()` is carried forward to the next `select` of the main goroutine, or to
the end of the schedule.  Definitions (the normal-form predicate, the normalising function) and lemmas.
-/
import VaxisModel.Props.C08Sched

namespace VaxisModel.Lemmas.ParserRunSchedNormal
open VaxisModel.Model.ParserTable VaxisModel.Model.Parser VaxisModel.Model.ParserRun VaxisModel.Model.ParserRunFine
open VaxisModel.Props.C08Sched

/-- Nothing but `Close()` calls. -/
def allClose : List FLabel → Bool
  | [] => true
  | l :: ls => decide (l = .closeSig) && allClose ls

def headIsMain : List FLabel → Bool
  | .main :: _ => true
  | _ => false

/-- The state after `Close()` (`closeSig` is always enabled and does just this). -/
def closeF (f : FSys) : FSys := { f with closeReq := true }

/-- **Normal form for `Close()`**, checked along the run of the schedule from `f`: every `closeSig` is
    either followed by nothing but `closeSig`s up to the end of the schedule, or immediately followed by
    a statement of the main goroutine that is taken at the `select` (`mpc = atSelect` in the state in
    which the `closeSig` — and, since `closeSig` does not move the main goroutine, that `.main` — is
    taken).  (Beyond a label that is not enabled there is nothing to check.) -/
def closeNormal (T : Table) : FSys → List FLabel → Bool
  | _, [] => true
  | f, l :: ls =>
    if l = .closeSig then
      (allClose ls || (decide (f.mpc = .atSelect) && headIsMain ls)) && closeNormal T (closeF f) ls
    else
      match FSys.step T f l with
      | some (f', _) => closeNormal T f' ls
      | none => true

/-- `k` calls of `Close()`. -/
def cs (k : Nat) : List FLabel := List.replicate k .closeSig

/-- The normalising function: `k` `Close()` calls are being carried forward from state `f` over the
    schedule; they are dropped in front of the next `select` (one of them: the others have no effect
    any more and travel on) or at the end. -/
def closeNorm (T : Table) : Nat → FSys → List FLabel → List FLabel
  | k, _, [] => cs k
  | k, f, l :: ls =>
    if l = .closeSig then closeNorm T (k + 1) f ls
    else if k ≠ 0 ∧ l = .main ∧ f.mpc = .atSelect then
      .closeSig :: .main :: closeNorm T (k - 1) { closeF f with mpc := .fin .stop false } ls
    else
      match FSys.step T f l with
      | some (f', _) => l :: closeNorm T k f' ls
      | none => l :: (cs k ++ ls)

theorem cs_succ (k : Nat) : cs (k + 1) = .closeSig :: cs k := List.replicate_succ

theorem cs_succ_append (k : Nat) (ls : List FLabel) : cs (k + 1) ++ ls = cs k ++ .closeSig :: ls := by
  simp only [cs, List.replicate_succ', List.append_assoc, List.singleton_append]

theorem run_cons_nil_out (T : Table) (f f' : FSys) (l : FLabel) (X : List FLabel)
    (h : FSys.step T f l = some (f', [])) : FSys.run T f (l :: X) = FSys.run T f' X := by
  simp only [FSys.run, h]
  cases FSys.run T f' X with
  | none => rfl
  | some r => cases r; simp

theorem run_close_cons (T : Table) (f : FSys) (X : List FLabel) :
    FSys.run T f (.closeSig :: X) = FSys.run T (closeF f) X :=
  run_cons_nil_out T f (closeF f) .closeSig X rfl

theorem closeF_noop (f : FSys) (h : f.closeReq = true) : closeF f = f := by
  cases f; simp_all [closeF]

/-- Once `Close()` has been called further calls change nothing. -/
theorem run_cs_noop (T : Table) (f : FSys) (h : f.closeReq = true) (k : Nat) (X : List FLabel) :
    FSys.run T f (cs k ++ X) = FSys.run T f X := by
  induction k with
  | zero => simp [cs]
  | succ k ih => rw [cs_succ, List.cons_append, run_close_cons, closeF_noop f h, ih]

/-- `k` `Close()` calls move over a statement that is not the `select`. -/
theorem cs_cross (T : Table) (l : FLabel) (X : List FLabel) : ∀ (k : Nat) (f : FSys),
    ¬ (l = .main ∧ f.mpc = .atSelect) → FSys.run T f (cs k ++ l :: X) = FSys.run T f (l :: (cs k ++ X))
  | 0, _, _ => by simp [cs]
  | k + 1, f, hsel => by
    have ih := cs_cross T l X k (closeF f) hsel
    have hmove := closeSig_moves_later T [] (cs k ++ X) l f (fun f' o hp => by
      simp only [FSys.run, Option.some.injEq, Prod.mk.injEq] at hp
      rw [← hp.1]; exact hsel)
    simp only [List.nil_append] at hmove
    rw [cs_succ, List.cons_append, run_close_cons, ih, ← run_close_cons, hmove, List.cons_append]

theorem select_close_step (T : Table) (f : FSys) (h : f.mpc = .atSelect) :
    FSys.step T (closeF f) .main = some ({ closeF f with mpc := .fin .stop false }, []) := by
  simp [FSys.step, mainStep, closeF, h]

/-- **The normalised schedule runs to the same result** (same final state, same items; enabled iff the
    original is). -/
theorem closeNorm_run (T : Table) : ∀ (ls : List FLabel) (k : Nat) (f : FSys),
    FSys.run T f (closeNorm T k f ls) = FSys.run T f (cs k ++ ls)
  | [], k, f => by simp [closeNorm]
  | l :: ls, k, f => by
    simp only [closeNorm]
    by_cases hl : l = .closeSig
    · subst hl
      rw [if_pos rfl, closeNorm_run T ls (k + 1) f, cs_succ_append]
    · rw [if_neg hl]
      by_cases hx : k ≠ 0 ∧ l = .main ∧ f.mpc = .atSelect
      · rw [if_pos hx]
        obtain ⟨hk, rfl, hpc⟩ := hx
        obtain ⟨k', rfl⟩ := Nat.exists_eq_succ_of_ne_zero hk
        have hstep := select_close_step T f hpc
        have hc : ({ closeF f with mpc := .fin .stop false } : FSys).closeReq = true := rfl
        rw [run_close_cons, run_cons_nil_out T _ _ _ _ hstep, Nat.succ_sub_one, closeNorm_run T ls k' _,
          cs_succ, List.cons_append, run_close_cons, run_cs_noop T (closeF f) rfl,
          run_cons_nil_out T _ _ _ _ hstep, run_cs_noop T _ hc]
      · rw [if_neg hx]
        have hsw : FSys.run T f (cs k ++ l :: ls) = FSys.run T f (l :: (cs k ++ ls)) := by
          cases k with
          | zero => simp [cs]
          | succ k' => exact cs_cross T l ls (k' + 1) f (fun h => hx ⟨Nat.succ_ne_zero _, h⟩)
        rw [hsw]
        cases hs : FSys.step T f l with
        | none => rfl
        | some r =>
          obtain ⟨f', o⟩ := r
          simp only [FSys.run, hs, closeNorm_run T ls k f']

/-- The normalised schedule is a permutation of the original. -/
theorem closeNorm_perm (T : Table) : ∀ (ls : List FLabel) (k : Nat) (f : FSys),
    (closeNorm T k f ls).Perm (cs k ++ ls)
  | [], k, f => by simp [closeNorm]
  | l :: ls, k, f => by
    simp only [closeNorm]
    by_cases hl : l = .closeSig
    · subst hl
      rw [if_pos rfl, ← cs_succ_append]
      exact closeNorm_perm T ls (k + 1) f
    · rw [if_neg hl]
      by_cases hx : k ≠ 0 ∧ l = .main ∧ f.mpc = .atSelect
      · rw [if_pos hx]
        obtain ⟨hk, rfl, hpc⟩ := hx
        obtain ⟨k', rfl⟩ := Nat.exists_eq_succ_of_ne_zero hk
        rw [Nat.succ_sub_one, cs_succ, List.cons_append]
        exact List.Perm.cons _ (((closeNorm_perm T ls k' _).cons _).trans List.perm_middle.symm)
      · rw [if_neg hx]
        cases hs : FSys.step T f l with
        | none => exact List.perm_middle.symm
        | some r =>
          obtain ⟨f', o⟩ := r
          exact ((closeNorm_perm T ls k f').cons _).trans List.perm_middle.symm

theorem allClose_cs (k : Nat) : allClose (cs k) = true := by
  induction k with
  | zero => rfl
  | succ k ih => rw [cs_succ]; simp [allClose, ih]

theorem closeNormal_cs (T : Table) : ∀ (k : Nat) (f : FSys), closeNormal T f (cs k) = true
  | 0, _ => rfl
  | k + 1, f => by
    rw [cs_succ]
    simp only [closeNormal, if_true, allClose_cs, Bool.true_or, Bool.true_and]
    exact closeNormal_cs T k (closeF f)

/-- **The normalised schedule is in normal form.** -/
theorem closeNorm_normal (T : Table) : ∀ (ls : List FLabel) (k : Nat) (f : FSys),
    closeNormal T f (closeNorm T k f ls) = true
  | [], k, f => by simp only [closeNorm]; exact closeNormal_cs T k f
  | l :: ls, k, f => by
    simp only [closeNorm]
    by_cases hl : l = .closeSig
    · rw [if_pos hl]; exact closeNorm_normal T ls (k + 1) f
    · rw [if_neg hl]
      by_cases hx : k ≠ 0 ∧ l = .main ∧ f.mpc = .atSelect
      · rw [if_pos hx]
        obtain ⟨hk, rfl, hpc⟩ := hx
        have hstep := select_close_step T f hpc
        have hne : FLabel.main ≠ .closeSig := by decide
        simp only [closeNormal, if_true, hpc, decide_true, headIsMain, Bool.and_self, Bool.or_true, Bool.true_and,
          if_neg hne, hstep]
        exact closeNorm_normal T ls (k - 1) _
      · rw [if_neg hx]
        cases hs : FSys.step T f l with
        | none => simp only [closeNormal, if_neg hl, hs]
        | some r =>
          obtain ⟨f', o⟩ := r
          simp only [closeNormal, if_neg hl, hs]
          exact closeNorm_normal T ls k f'

end VaxisModel.Lemmas.ParserRunSchedNormal
