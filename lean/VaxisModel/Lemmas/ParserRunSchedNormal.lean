/-
C08: normal forms of schedules of the statement-grained life cycle (`FSys`, Model/ParserRunFine.lean).
`Props/C08Sched.lean` proves the single moves (`closeSig_commutes`, `closeSig_moves_later`, …); here the
moves are iterated: every `Close()` is carried forward to the next `select` of the main goroutine, or to
the end of the schedule.  Definitions (the normal-form predicate, the normalising function) and lemmas.
-/
import VaxisModel.Props.C08Sched

namespace VaxisModel.Lemmas.ParserRunSchedNormal
open VaxisModel.Model.ParserTable VaxisModel.Model.Parser VaxisModel.Model.ParserRun VaxisModel.Model.ParserRunFine
open VaxisModel.Props.C08Sched

/-- Nothing but `Close()` calls. -/
def allClose : List FLabel → Bool
  | [] => true
  | l :: ls => decide (l = .closeSig) && allClose ls

def headIsMain : List FLabel → Bool
  | .main :: _ => true
  | _ => false

/-- The state after `Close()` (`closeSig` is always enabled and does just this). -/
def closeF (f : FSys) : FSys := { f with closeReq := true }

/-- **Normal form for `Close()`**, checked along the run of the schedule from `f`: every `closeSig` is
    either followed by nothing but `closeSig`s up to the end of the schedule, or immediately followed by
    a statement of the main goroutine that is taken at the `select` (`mpc = atSelect` in the state in
    which the `closeSig` — and, since `closeSig` does not move the main goroutine, that `.main` — is
    taken).  (Beyond a label that is not enabled there is nothing to check.) -/
def closeNormal (T : Table) : FSys → List FLabel → Bool
  | _, [] => true
  | f, l :: ls =>
    if l = .closeSig then
      (allClose ls || (decide (f.mpc = .atSelect) && headIsMain ls)) && closeNormal T (closeF f) ls
    else
      match FSys.step T f l with
      | some (f', _) => closeNormal T f' ls
      | none => true

/-- `k` calls of `Close()`. -/
def cs (k : Nat) : List FLabel := List.replicate k .closeSig

/-- The normalising function: `k` `Close()` calls are being carried forward from state `f` over the
    schedule; they are dropped in front of the next `select` (one of them: the others have no effect
    any more and travel on) or at the end. -/
def closeNorm (T : Table) : Nat → FSys → List FLabel → List FLabel
  | k, _, [] => cs k
  | k, f, l :: ls =>
    if l = .closeSig then closeNorm T (k + 1) f ls
    else if k ≠ 0 ∧ l = .main ∧ f.mpc = .atSelect then
      .closeSig :: .main :: closeNorm T (k - 1) { closeF f with mpc := .fin .stop false } ls
    else
      match FSys.step T f l with
      | some (f', _) => l :: closeNorm T k f' ls
      | none => l :: (cs k ++ ls)

theorem cs_succ (k : Nat) : cs (k + 1) = .closeSig :: cs k := List.replicate_succ

theorem cs_succ_append (k : Nat) (ls : List FLabel) : cs (k + 1) ++ ls = cs k ++ .closeSig :: ls := by
  simp only [cs, List.replicate_succ', List.append_assoc, List.singleton_append]

theorem run_cons_nil_out (T : Table) (f f' : FSys) (l : FLabel) (X : List FLabel)
    (h : FSys.step T f l = some (f', [])) : FSys.run T f (l :: X) = FSys.run T f' X := by
  simp only [FSys.run, h]
  cases FSys.run T f' X with
  | none => rfl
  | some r => cases r; simp

theorem run_close_cons (T : Table) (f : FSys) (X : List FLabel) :
    FSys.run T f (.closeSig :: X) = FSys.run T (closeF f) X :=
  run_cons_nil_out T f (closeF f) .closeSig X rfl

theorem closeF_noop (f : FSys) (h : f.closeReq = true) : closeF f = f := by
  cases f; simp_all [closeF]

/-- Once `Close()` has been called further calls change nothing. -/
theorem run_cs_noop (T : Table) (f : FSys) (h : f.closeReq = true) (k : Nat) (X : List FLabel) :
    FSys.run T f (cs k ++ X) = FSys.run T f X := by
  induction k with
  | zero => simp [cs]
  | succ k ih => rw [cs_succ, List.cons_append, run_close_cons, closeF_noop f h, ih]

/-- `k` `Close()` calls move over a statement that is not the `select`. -/
theorem cs_cross (T : Table) (l : FLabel) (X : List FLabel) : ∀ (k : Nat) (f : FSys),
    ¬ (l = .main ∧ f.mpc = .atSelect) → FSys.run T f (cs k ++ l :: X) = FSys.run T f (l :: (cs k ++ X))
  | 0, _, _ => by simp [cs]
  | k + 1, f, hsel => by
    have ih := cs_cross T l X k (closeF f) hsel
    have hmove := closeSig_moves_later T [] (cs k ++ X) l f (fun f' o hp => by
      simp only [FSys.run, Option.some.injEq, Prod.mk.injEq] at hp
      rw [← hp.1]; exact hsel)
    simp only [List.nil_append] at hmove
    rw [cs_succ, List.cons_append, run_close_cons, ih, ← run_close_cons, hmove, List.cons_append]

theorem select_close_step (T : Table) (f : FSys) (h : f.mpc = .atSelect) :
    FSys.step T (closeF f) .main = some ({ closeF f with mpc := .fin .stop false }, []) := by
  simp [FSys.step, mainStep, closeF, h]

/-- **The normalised schedule runs to the same result** (same final state, same items; enabled iff the
    original is). -/
theorem closeNorm_run (T : Table) : ∀ (ls : List FLabel) (k : Nat) (f : FSys),
    FSys.run T f (closeNorm T k f ls) = FSys.run T f (cs k ++ ls)
  | [], k, f => by simp [closeNorm]
  | l :: ls, k, f => by
    simp only [closeNorm]
    by_cases hl : l = .closeSig
    · subst hl
      rw [if_pos rfl, closeNorm_run T ls (k + 1) f, cs_succ_append]
    · rw [if_neg hl]
      by_cases hx : k ≠ 0 ∧ l = .main ∧ f.mpc = .atSelect
      · rw [if_pos hx]
        obtain ⟨hk, rfl, hpc⟩ := hx
        obtain ⟨k', rfl⟩ := Nat.exists_eq_succ_of_ne_zero hk
        have hstep := select_close_step T f hpc
        have hc : ({ closeF f with mpc := .fin .stop false } : FSys).closeReq = true := rfl
        rw [run_close_cons, run_cons_nil_out T _ _ _ _ hstep, Nat.succ_sub_one, closeNorm_run T ls k' _,
          cs_succ, List.cons_append, run_close_cons, run_cs_noop T (closeF f) rfl,
          run_cons_nil_out T _ _ _ _ hstep, run_cs_noop T _ hc]
      · rw [if_neg hx]
        have hsw : FSys.run T f (cs k ++ l :: ls) = FSys.run T f (l :: (cs k ++ ls)) := by
          cases k with
          | zero => simp [cs]
          | succ k' => exact cs_cross T l ls (k' + 1) f (fun h => hx ⟨Nat.succ_ne_zero _, h⟩)
        rw [hsw]
        cases hs : FSys.step T f l with
        | none => rfl
        | some r =>
          obtain ⟨f', o⟩ := r
          simp only [FSys.run, hs, closeNorm_run T ls k f']

/-- The normalised schedule is a permutation of the original. -/
theorem closeNorm_perm (T : Table) : ∀ (ls : List FLabel) (k : Nat) (f : FSys),
    (closeNorm T k f ls).Perm (cs k ++ ls)
  | [], k, f => by simp [closeNorm]
  | l :: ls, k, f => by
    simp only [closeNorm]
    by_cases hl : l = .closeSig
    · subst hl
      rw [if_pos rfl, ← cs_succ_append]
      exact closeNorm_perm T ls (k + 1) f
    · rw [if_neg hl]
      by_cases hx : k ≠ 0 ∧ l = .main ∧ f.mpc = .atSelect
      · rw [if_pos hx]
        obtain ⟨hk, rfl, hpc⟩ := hx
        obtain ⟨k', rfl⟩ := Nat.exists_eq_succ_of_ne_zero hk
        rw [Nat.succ_sub_one, cs_succ, List.cons_append]
        exact List.Perm.cons _ (((closeNorm_perm T ls k' _).cons _).trans List.perm_middle.symm)
      · rw [if_neg hx]
        cases hs : FSys.step T f l with
        | none => exact List.perm_middle.symm
        | some r =>
          obtain ⟨f', o⟩ := r
          exact ((closeNorm_perm T ls k f').cons _).trans List.perm_middle.symm

theorem allClose_cs (k : Nat) : allClose (cs k) = true := by
  induction k with
  | zero => rfl
  | succ k ih => rw [cs_succ]; simp [allClose, ih]

theorem closeNormal_cs (T : Table) : ∀ (k : Nat) (f : FSys), closeNormal T f (cs k) = true
  | 0, _ => rfl
  | k + 1, f => by
    rw [cs_succ]
    simp only [closeNormal, if_true, allClose_cs, Bool.true_or, Bool.true_and]
    exact closeNormal_cs T k (closeF f)

/-- **The normalised schedule is in normal form.** -/
theorem closeNorm_normal (T : Table) : ∀ (ls : List FLabel) (k : Nat) (f : FSys),
    closeNormal T f (closeNorm T k f ls) = true
  | [], k, f => by simp only [closeNorm]; exact closeNormal_cs T k f
  | l :: ls, k, f => by
    simp only [closeNorm]
    by_cases hl : l = .closeSig
    · rw [if_pos hl]; exact closeNorm_normal T ls (k + 1) f
    · rw [if_neg hl]
      by_cases hx : k ≠ 0 ∧ l = .main ∧ f.mpc = .atSelect
      · rw [if_pos hx]
        obtain ⟨hk, rfl, hpc⟩ := hx
        have hstep := select_close_step T f hpc
        have hne : FLabel.main ≠ .closeSig := by decide
        simp only [closeNormal, if_true, hpc, decide_true, headIsMain, Bool.and_self, Bool.or_true, Bool.true_and,
          if_neg hne, hstep]
        exact closeNorm_normal T ls (k - 1) _
      · rw [if_neg hx]
        cases hs : FSys.step T f l with
        | none => simp only [closeNormal, if_neg hl, hs]
        | some r =>
          obtain ⟨f', o⟩ := r
          simp only [closeNormal, if_neg hl, hs]
          exact closeNorm_normal T ls k f'

/-! ### timer expiries: every `expire` directly behind the `anywhere` that armed the timer -/

open VaxisModel.Lemmas.ParserRunFine

/-- The next statement of the main goroutine stops or (re-)arms the timer. -/
def stopsTimer (f : FSys) : Bool :=
  match f.mpc with
  | .readDone _ | .fin .stop _ | .bumped _ => true
  | _ => false

/-- The statement `p.state = anywhere(r, p)` with `r` = ESC: it arms the timer. -/
def isArming (T : Table) (f : FSys) (l : FLabel) : Bool :=
  match l, f.mpc with
  | .main, .bumped i => arms T i
  | _, _ => false

/-- Take out the `expire` that consumes the timer pending in `f`: the first `expire` of the schedule,
    provided no statement in front of it stops the timer (and all of them are enabled). -/
def extract (T : Table) : FSys → List FLabel → Option (List FLabel)
  | _, [] => none
  | f, l :: ls =>
    if l = .expire then some ls
    else if l = .main ∧ stopsTimer f = true then none
    else match FSys.step T f l with
      | some (f1, _) => (extract T f1 ls).map (l :: ·)
      | none => none

/-- The normalising function (fuel = length of the schedule): behind every arming statement, the
    expiry of that timer — if there is one further on — is pulled forward. -/
def expNorm (T : Table) : Nat → FSys → List FLabel → List FLabel
  | 0, _, ls => ls
  | _ + 1, _, [] => []
  | n + 1, f, l :: ls =>
    match FSys.step T f l with
    | none => l :: ls
    | some (f', _) =>
      if isArming T f l then
        match extract T f' ls, FSys.step T f' .expire with
        | some ls', some (f'', _) => l :: .expire :: expNorm T n f'' ls'
        | _, _ => l :: expNorm T n f' ls
      else l :: expNorm T n f' ls

/-- **Normal form for timer expiries**, checked along the run from `f`: every `expire` stands directly
    behind the statement of the main goroutine that armed the timer (`fl` = the previous statement
    was such a statement). -/
def expNormal (T : Table) : Bool → FSys → List FLabel → Bool
  | _, _, [] => true
  | fl, f, l :: ls =>
    match FSys.step T f l with
    | none => true
    | some (f', _) => (if l = .expire then fl else true) && expNormal T (isArming T f l) f' ls

theorem run_cons_congr (T : Table) (f f' : FSys) (l : FLabel) (o : List Seq) (X Y : List FLabel)
    (hs : FSys.step T f l = some (f', o)) (h : FSys.run T f' X = FSys.run T f' Y) :
    FSys.run T f (l :: X) = FSys.run T f (l :: Y) := by
  simp only [FSys.run, hs, h]

theorem cb_armed (f f' : FSys) (i : Nat) (o : List Seq) (h : cbStep f i = some (f', o)) :
    f'.armed = f.armed ∧ i < f.cbs.length := by
  unfold cbStep at h
  split at h
  · cases h
  · rename_i g pc hi
    have hlt : i < f.cbs.length := by
      cases Nat.lt_or_ge i f.cbs.length with
      | inl h => exact h
      | inr h => rw [List.getElem?_eq_none_iff.mpr h] at hi; cases hi
    cases pc <;> simp only at h <;>
      first
        | (cases h; done)
        | (cases h; exact ⟨rfl, hlt⟩)
        | (split at h <;> first | (cases h; done) | (cases h; exact ⟨rfl, hlt⟩))

/-- A statement that neither stops nor arms the timer, and is not its expiry, leaves it pending. -/
theorem armed_keep (T : Table) (f f1 : FSys) (l : FLabel) (o : List Seq) (g : Nat)
    (hs : FSys.step T f l = some (f1, o)) (ha : f.armed = some g) (hl : l ≠ .expire)
    (hst : ¬ (l = .main ∧ stopsTimer f = true)) : f1.armed = some g := by
  cases l with
  | expire => exact absurd rfl hl
  | closeSig => simp only [FSys.step, Option.some.injEq, Prod.mk.injEq] at hs; rw [← hs.1]; exact ha
  | readRet i =>
    simp only [FSys.step] at hs
    split at hs
    · simp only [Option.some.injEq, Prod.mk.injEq] at hs; rw [← hs.1]; exact ha
    · cases hs
  | cb k => rw [(cb_armed f f1 k o hs).1]; exact ha
  | main =>
    have hst' : stopsTimer f = false := by
      cases h : stopsTimer f with
      | false => rfl
      | true => exact absurd ⟨rfl, h⟩ hst
    simp only [FSys.step] at hs
    unfold mainStep at hs
    cases hpc : f.mpc with
    | atSelect => rw [hpc] at hs; simp only at hs; split at hs <;> (cases hs; exact ha)
    | inRead => rw [hpc] at hs; cases hs
    | readDone i => simp [stopsTimer, hpc] at hst'
    | bumped i => simp [stopsTimer, hpc] at hst'
    | stopped i =>
      rw [hpc] at hs; simp only at hs
      split at hs
      · cases hs; exact ha
      · cases hs
    | locked i => rw [hpc] at hs; cases hs; exact ha
    | stepped b => rw [hpc] at hs; cases hs; exact ha
    | fin st v =>
      rw [hpc] at hs
      cases st <;> simp only at hs
      case stop => simp [stopsTimer, hpc] at hst'
      case lock =>
        split at hs
        · cases hs; exact ha
        · cases hs
      all_goals (cases hs; exact ha)
    | done => rw [hpc] at hs; cases hs

/-- The extracted `expire` can be taken first: same result. -/
theorem extract_run (T : Table) : ∀ (ls : List FLabel) (f : FSys) (ls' : List FLabel),
    (∃ g, f.armed = some g) → extract T f ls = some ls' → FSys.run T f ls = FSys.run T f (.expire :: ls')
  | [], _, _, _, h => by simp [extract] at h
  | l :: ls, f, ls', ⟨g, ha⟩, h => by
    simp only [extract] at h
    by_cases hl : l = .expire
    · rw [if_pos hl] at h
      simp only [Option.some.injEq] at h
      rw [hl, h]
    · rw [if_neg hl] at h
      by_cases hst : l = .main ∧ stopsTimer f = true
      · rw [if_pos hst] at h; cases h
      · rw [if_neg hst] at h
        cases hs : FSys.step T f l with
        | none => rw [hs] at h; cases h
        | some r =>
          obtain ⟨f1, o⟩ := r
          rw [hs] at h
          simp only [Option.map_eq_some_iff] at h
          obtain ⟨ls1, h1, rfl⟩ := h
          have ih := extract_run T ls f1 ls1 ⟨g, armed_keep T f f1 l o g hs ha hl hst⟩ h1
          rw [run_cons_congr T f f1 l o _ _ hs ih]
          have := expire_moves_earlier T [] ls1 l f hl (fun f' o' hp => by
            simp only [FSys.run, Option.some.injEq, Prod.mk.injEq] at hp
            obtain ⟨rfl, _⟩ := hp
            refine ⟨⟨g, ha⟩, fun hm => ?_, fun k hk => ?_⟩
            · have hst' : stopsTimer f = false := by
                cases h : stopsTimer f with
                | false => rfl
                | true => exact absurd ⟨hm, h⟩ hst
              refine ⟨fun i hi => ?_, fun v hv => ?_, fun i hi => ?_⟩ <;> simp [stopsTimer, *] at hst'
            · subst hk
              simp only [FSys.step] at hs
              have := (cb_armed f f1 k o hs).2
              omega)
          simpa using this

theorem extract_perm (T : Table) : ∀ (ls : List FLabel) (f : FSys) (ls' : List FLabel),
    extract T f ls = some ls' → ls.Perm (.expire :: ls')
  | [], _, _, h => by simp [extract] at h
  | l :: ls, f, ls', h => by
    simp only [extract] at h
    by_cases hl : l = .expire
    · rw [if_pos hl] at h
      simp only [Option.some.injEq] at h
      rw [hl, h]
    · rw [if_neg hl] at h
      by_cases hst : l = .main ∧ stopsTimer f = true
      · rw [if_pos hst] at h; cases h
      · rw [if_neg hst] at h
        cases hs : FSys.step T f l with
        | none => rw [hs] at h; cases h
        | some r =>
          obtain ⟨f1, o⟩ := r
          rw [hs] at h
          simp only [Option.map_eq_some_iff] at h
          obtain ⟨ls1, h1, rfl⟩ := h
          exact ((extract_perm T ls f1 ls1 h1).cons l).trans (List.Perm.swap _ _ _)

theorem expire_some_armed (T : Table) (f f'' : FSys) (o : List Seq) (h : FSys.step T f .expire = some (f'', o)) :
    (∃ g, f.armed = some g) ∧ f''.armed = none := by
  simp only [FSys.step] at h
  split at h
  · rename_i g hg
    cases h
    exact ⟨⟨g, hg⟩, rfl⟩
  · cases h

/-- **The normalised schedule runs to the same result.** -/
theorem expNorm_run (T : Table) : ∀ (n : Nat) (f : FSys) (ls : List FLabel),
    FSys.run T f (expNorm T n f ls) = FSys.run T f ls
  | 0, _, _ => rfl
  | _ + 1, _, [] => rfl
  | n + 1, f, l :: ls => by
    simp only [expNorm]
    cases hs : FSys.step T f l with
    | none => rfl
    | some r =>
      obtain ⟨f', o⟩ := r
      simp only
      split
      · split
        · rename_i ls' f'' o'' he hx
          refine run_cons_congr T f f' l o _ _ hs ?_
          rw [extract_run T ls f' ls' (expire_some_armed T f' f'' o'' hx).1 he]
          exact run_cons_congr T f' f'' .expire o'' _ _ hx (expNorm_run T n f'' ls')
        · exact run_cons_congr T f f' l o _ _ hs (expNorm_run T n f' ls)
      · exact run_cons_congr T f f' l o _ _ hs (expNorm_run T n f' ls)

/-- The normalised schedule is a permutation of the original. -/
theorem expNorm_perm (T : Table) : ∀ (n : Nat) (f : FSys) (ls : List FLabel), (expNorm T n f ls).Perm ls
  | 0, _, _ => List.Perm.refl _
  | _ + 1, _, [] => List.Perm.refl _
  | n + 1, f, l :: ls => by
    simp only [expNorm]
    cases hs : FSys.step T f l with
    | none => exact List.Perm.refl _
    | some r =>
      obtain ⟨f', o⟩ := r
      simp only
      split
      · split
        · rename_i ls' f'' o'' he hx
          exact (((expNorm_perm T n f'' ls').cons _).trans (extract_perm T ls f' ls' he).symm).cons _
        · exact (expNorm_perm T n f' ls).cons _
      · exact (expNorm_perm T n f' ls).cons _

/-- A pending timer was pending before a statement that did not arm it, and that statement did not
    stop it. -/
theorem armed_origin (T : Table) (f f' : FSys) (l : FLabel) (o : List Seq) (g : Nat)
    (hs : FSys.step T f l = some (f', o)) (ha' : f'.armed = some g) (hna : isArming T f l = false)
    (hl : l ≠ .expire) :
    f.armed = some g ∧ (l = .main → (∀ i, f.mpc ≠ .readDone i) ∧ (∀ v, f.mpc ≠ .fin .stop v)) := by
  cases l with
  | expire => exact absurd rfl hl
  | closeSig =>
    simp only [FSys.step, Option.some.injEq, Prod.mk.injEq] at hs
    rw [← hs.1] at ha'
    exact ⟨ha', fun h => by cases h⟩
  | readRet i =>
    simp only [FSys.step] at hs
    split at hs
    · simp only [Option.some.injEq, Prod.mk.injEq] at hs
      rw [← hs.1] at ha'
      exact ⟨ha', fun h => by cases h⟩
    · cases hs
  | cb k => rw [(cb_armed f f' k o hs).1] at ha'; exact ⟨ha', fun h => by cases h⟩
  | main =>
    simp only [FSys.step] at hs
    unfold mainStep at hs
    cases hpc : f.mpc with
    | atSelect =>
      rw [hpc] at hs; simp only at hs
      split at hs <;> (cases hs; exact ⟨ha', fun _ => ⟨by simp, by simp⟩⟩)
    | inRead => rw [hpc] at hs; cases hs
    | readDone i => rw [hpc] at hs; cases hs; cases ha'
    | bumped i =>
      rw [hpc] at hs; cases hs
      simp only [isArming, hpc] at hna
      simp only [hna, Bool.false_eq_true, if_false] at ha'
      exact ⟨ha', fun _ => ⟨by simp, by simp⟩⟩
    | stopped i =>
      rw [hpc] at hs; simp only at hs
      split at hs
      · cases hs; exact ⟨ha', fun _ => ⟨by simp, by simp⟩⟩
      · cases hs
    | locked i => rw [hpc] at hs; cases hs; exact ⟨ha', fun _ => ⟨by simp, by simp⟩⟩
    | stepped b => rw [hpc] at hs; cases hs; exact ⟨ha', fun _ => ⟨by simp, by simp⟩⟩
    | fin st v =>
      rw [hpc] at hs
      cases st <;> simp only at hs
      case stop => cases hs; cases ha'
      case lock =>
        split at hs
        · cases hs; exact ⟨ha', fun _ => ⟨by simp, by simp⟩⟩
        · cases hs
      all_goals (cases hs; exact ⟨ha', fun _ => ⟨by simp, by simp⟩⟩)
    | done => rw [hpc] at hs; cases hs

theorem isArming_main (T : Table) (f : FSys) (l : FLabel) (h : isArming T f l = true) : l = .main := by
  cases l <;> simp [isArming] at h ⊢

/-- **The normalised schedule is in normal form** — from a state that meets the invariant of the
    statement-grained system (`FInv`: every reachable state does), in which no timer is pending whose
    expiry is further on in the schedule. -/
theorem expNorm_normal (T : Table) (hT : TimerOk T) : ∀ (n : Nat) (f : FSys) (ls : List FLabel) (fl : Bool),
    ls.length ≤ n → FInv f → (∀ g, f.armed = some g → extract T f ls = none) →
    expNormal T fl f (expNorm T n f ls) = true
  | 0, _, ls, _, hn, _, _ => by
    have : ls = [] := List.eq_nil_of_length_eq_zero (by omega)
    subst this; rfl
  | _ + 1, _, [], _, _, _, _ => rfl
  | n + 1, f, l :: ls, fl, hn, hinv, hex => by
    simp only [List.length_cons] at hn
    simp only [expNorm]
    cases hs : FSys.step T f l with
    | none => simp only [expNormal, hs]
    | some r =>
      obtain ⟨f', o⟩ := r
      have hinv' := step_inv T hT f f' l o hinv hs
      simp only
      split
      · rename_i harm
        have hlm : l ≠ .expire := by rw [isArming_main T f l harm]; decide
        split
        · rename_i ls' f'' o'' he hx
          have hlen := (extract_perm T ls f' ls' he).length_eq
          simp only [List.length_cons] at hlen
          simp only [expNormal, hs, if_neg hlm, harm, hx, if_true, Bool.true_and]
          exact expNorm_normal T hT n f'' ls' _ (by omega) (step_inv T hT f' f'' .expire o'' hinv' hx)
            (fun g hg => by rw [(expire_some_armed T f' f'' o'' hx).2] at hg; cases hg)
        · rename_i hno
          simp only [expNormal, hs, if_neg hlm, Bool.true_and]
          refine expNorm_normal T hT n f' ls _ (by omega) hinv' (fun g hg => ?_)
          cases he : extract T f' ls with
          | none => rfl
          | some ls' =>
            exfalso
            exact hno ls' { f' with armed := none, cbs := f'.cbs ++ [(g, .started)] } [] he (by simp [FSys.step, hg])
      · rename_i harm
        by_cases hl : l = .expire
        · subst hl
          obtain ⟨⟨g, hg⟩, _⟩ := expire_some_armed T f f' o hs
          have := hex g hg
          simp [extract] at this
        · simp only [expNormal, hs, if_neg hl, Bool.true_and]
          refine expNorm_normal T hT n f' ls _ (by omega) hinv' (fun g hg => ?_)
          obtain ⟨ha, hm⟩ := armed_origin T f f' l o g hs hg (by simpa using harm) hl
          have hst : ¬ (l = .main ∧ stopsTimer f = true) := by
            rintro ⟨rfl, hst⟩
            obtain ⟨h1, h2⟩ := hm rfl
            have hok := (hinv.g2 g ha).2
            cases hpc : f.mpc with
            | readDone i => exact h1 i hpc
            | bumped i => rw [hpc] at hok; cases hok
            | fin st v =>
              cases st
              case stop => exact h2 v hpc
              all_goals simp [stopsTimer, hpc] at hst
            | _ => simp [stopsTimer, hpc] at hst
          have := hex g ha
          simp only [extract, if_neg hl, if_neg hst, hs, Option.map_eq_none_iff] at this
          exact this

/-! ### both normal forms at once: carrying `Close()` calls forward keeps the expiries in place -/

theorem step_close (T : Table) (f : FSys) : FSys.step T f .closeSig = some (closeF f, []) := rfl

/-- A statement that is not the `select` does the same with and without a pending `Close()`. -/
theorem step_closeF (T : Table) (f : FSys) (l : FLabel) (hsel : ¬ (l = .main ∧ f.mpc = .atSelect)) :
    FSys.step T (closeF f) l = (FSys.step T f l).map (fun r => (closeF r.1, r.2)) := by
  have h := closeSig_commutes T f l hsel
  simp only [step2, FSys.run, step_close] at h
  cases h1 : FSys.step T (closeF f) l with
  | none =>
    cases h2 : FSys.step T f l with
    | none => rfl
    | some b => rw [h1, h2] at h; simp at h
  | some a =>
    cases h2 : FSys.step T f l with
    | none => rw [h1, h2] at h; simp at h
    | some b =>
      rw [h1, h2] at h
      simp only [List.nil_append, List.append_nil, Option.some.injEq, Prod.mk.injEq] at h
      obtain ⟨a1, a2⟩ := a
      obtain ⟨b1, b2⟩ := b
      simp only at h
      simp only [Option.map_some, Option.some.injEq, Prod.mk.injEq]
      exact h

theorem isArming_closeF (T : Table) (f : FSys) (l : FLabel) : isArming T (closeF f) l = isArming T f l := rfl

theorem isArming_expire (T : Table) (f : FSys) : isArming T f .expire = false := rfl
theorem isArming_close (T : Table) (f : FSys) : isArming T f .closeSig = false := rfl

theorem expNormal_mono (T : Table) (f : FSys) (ls : List FLabel) (fl : Bool) (h : expNormal T false f ls = true) :
    expNormal T fl f ls = true := by
  cases ls with
  | nil => rfl
  | cons l ls =>
    simp only [expNormal] at h ⊢
    cases hs : FSys.step T f l with
    | none => rfl
    | some r =>
      rw [hs] at h
      simp only [Bool.and_eq_true] at h ⊢
      refine ⟨?_, h.2⟩
      by_cases hl : l = .expire
      · rw [if_pos hl] at h; exact absurd h.1 (by simp)
      · rw [if_neg hl]

theorem expNormal_close_cons (T : Table) (f : FSys) (ls : List FLabel) (fl : Bool) :
    expNormal T fl f (.closeSig :: ls) = expNormal T false (closeF f) ls := by
  simp only [expNormal, step_close]
  simp [isArming_close]

theorem expNormal_cs (T : Table) : ∀ (k : Nat) (f : FSys) (fl : Bool), expNormal T fl f (cs k) = true
  | 0, _, _ => rfl
  | k + 1, f, fl => by rw [cs_succ, expNormal_close_cons]; exact expNormal_cs T k _ _

/-- Carrying `Close()` calls forward keeps a schedule expiry-normal. -/
theorem closeNorm_expNormal (T : Table) : ∀ (ls : List FLabel) (k : Nat) (f : FSys) (fl : Bool),
    (if k = 0 then expNormal T fl f ls else expNormal T fl (closeF f) ls) = true →
    expNormal T fl f (closeNorm T k f ls) = true
  | [], k, f, fl, _ => by simp only [closeNorm]; exact expNormal_cs T k f fl
  | l :: ls, k, f, fl, h => by
    simp only [closeNorm]
    by_cases hl : l = .closeSig
    · subst hl
      rw [if_pos rfl]
      refine closeNorm_expNormal T ls (k + 1) f fl ?_
      rw [if_neg (Nat.succ_ne_zero k)]
      apply expNormal_mono
      by_cases hk : k = 0
      · rw [if_pos hk, expNormal_close_cons] at h; exact h
      · rw [if_neg hk, expNormal_close_cons] at h
        rw [closeF_noop (closeF f) rfl] at h; exact h
    · rw [if_neg hl]
      by_cases hx : k ≠ 0 ∧ l = .main ∧ f.mpc = .atSelect
      · rw [if_pos hx]
        obtain ⟨hk, rfl, hpc⟩ := hx
        have hstep := select_close_step T f hpc
        rw [if_neg hk] at h
        simp only [expNormal, hstep] at h
        rw [expNormal_close_cons]
        simp only [expNormal, hstep]
        have hia : isArming T (closeF f) .main = false := by simp [isArming, closeF, hpc]
        rw [hia] at h ⊢
        simp only [if_neg (by decide : FLabel.main ≠ .expire), Bool.true_and] at h ⊢
        refine closeNorm_expNormal T ls (k - 1) _ false ?_
        by_cases hk1 : k - 1 = 0
        · rw [if_pos hk1]; exact h
        · rw [if_neg hk1, closeF_noop _ rfl]; exact h
      · rw [if_neg hx]
        by_cases hk : k = 0
        · subst hk
          rw [if_pos rfl] at h
          simp only [expNormal] at h
          cases hs : FSys.step T f l with
          | none => simp only [expNormal, hs]
          | some r =>
            obtain ⟨f', o⟩ := r
            rw [hs] at h
            simp only [Bool.and_eq_true] at h
            simp only [expNormal, hs, Bool.and_eq_true]
            exact ⟨h.1, closeNorm_expNormal T ls 0 f' _ (by rw [if_pos rfl]; exact h.2)⟩
        · rw [if_neg hk] at h
          have hsel : ¬ (l = .main ∧ f.mpc = .atSelect) := fun hh => hx ⟨hk, hh⟩
          have hsc := step_closeF T f l hsel
          simp only [expNormal] at h
          cases hs : FSys.step T f l with
          | none => simp only [expNormal, hs]
          | some r =>
            obtain ⟨f', o⟩ := r
            rw [hs] at hsc
            simp only [Option.map_some] at hsc
            rw [hsc] at h
            simp only [Bool.and_eq_true, isArming_closeF] at h
            simp only [expNormal, hs, Bool.and_eq_true]
            exact ⟨h.1, closeNorm_expNormal T ls k f' _ (by rw [if_neg hk]; exact h.2)⟩

end VaxisModel.Lemmas.ParserRunSchedNormal
