/-
C08 ∘ C02: the life cycle LTS (Model/ParserRun.lean) refines the reference machine of
Spec/VT500.lean driven by the same labels — runes through `stepRuneD devAll`, every (up-to-date)
timer firing through `escKey`, end of input through the exit action of the open control string.
-/
import VaxisModel.Lemmas.ParserRun
import VaxisModel.Lemmas.ParserRefineRun
import VaxisModel.Lemmas.ParserCodec

namespace VaxisModel.Lemmas.ParserRunSpec
open VaxisModel.Model.ParserTable VaxisModel.Model.Parser VaxisModel.Model.ParserRun
open VaxisModel.Lemmas.ParserConform VaxisModel.Lemmas.ParserAbs VaxisModel.Lemmas.ParserRefine
open VaxisModel.Lemmas.ParserRefineCheck VaxisModel.Lemmas.ParserRefineStep VaxisModel.Lemmas.ParserRefineRun
open VaxisModel.Lemmas.ParserRun VaxisModel.Lemmas.ParserCodec
open VaxisModel.Spec.VT500 (M)

/-- What the Spec prescribes for one label of the life cycle: a rune is one step of the reference
    machine (recorded deviations F102/F102c on); the Escape timer firing — at once, or as a late but
    still up-to-date callback — is the Escape key; the end of input delivers the control string still
    open, then `EOF{}`; `Close()` just ends (`EOF{}`); everything else is silent. -/
def specLabel (m : M) : Label → M × List Seq
  | .read r => ((Spec.VT500.stepRuneD devAll m r).1, (Spec.VT500.stepRuneD devAll m r).2.map specSeq)
  | .timerFire | .cbRun true => ((Spec.VT500.escKey m).1, (Spec.VT500.escKey m).2.map specSeq)
  | .readEnd => (m, (Spec.VT500.acts m 0 (Spec.VT500.exit m.s)).2.map specSeq ++ [.eof])
  | .breakClose => (m, [.eof])
  | _ => (m, [])

def specLabels : M → List Label → M × List Seq
  | m, [] => (m, [])
  | m, l :: ls => ((specLabels (specLabel m l).1 ls).1, (specLabel m l).2 ++ (specLabels (specLabel m l).1 ls).2)

/-- Invariant of the composition. -/
def J (s : Sys) (m : M) : Prop :=
  SInv s ∧ (s.pc ≠ .done → R s.ps m) ∧ (s.pc = .done → s.armed = false ∧ s.fresh = false)

theorem J_init : J Sys.init {} := ⟨SInv_init, fun _ => R_init, fun h => by cases h⟩

theorem fle_ground_escape : fle (fl .ground) (fl .escape) = true := by decide

/-- The Escape key: from `escape`, the timer's reset is the Spec's `escKey`. -/
theorem R_escKey (ps : PState) (m : M) (hR : R ps m) (hesc : ps.state = .escape) :
    R (timerReset true ps) (Spec.VT500.escKey m).1 := by
  obtain ⟨r1, r2, r3, r4⟩ := hR
  rw [hesc] at r2 r4
  refine ⟨rfl, by simpa [timerReset, implExit] using r2, by simp [timerReset, gOf, isStringState], ?_⟩
  have := Dat_mono fle_ground_escape r4
  exact Dat_congr_m (Dat_congr this rfl rfl rfl rfl rfl) rfl rfl rfl rfl rfl rfl rfl rfl


theorem noErr_eof (l : List Seq) : noErr (l ++ [.eof]) = noErr l ++ [.eof] := by
  rw [noErr_append]; rfl

/-- **One label.** -/
theorem step_J (s : Sys) (m : M) (l : Label) (s' : Sys) (o : List Seq) (hJ : J s m)
    (hstep : Sys.step handTable Cfg.fixed s l = some (s', o)) :
    J s' (specLabel m l).1 ∧ noErr o = (specLabel m l).2 := by
  obtain ⟨hS, hR, hD⟩ := hJ
  obtain ⟨hS', _⟩ := step_SInv s l s' o hS hstep
  cases l with
  | closeSig =>
    simp only [Sys.step, Option.some.injEq, Prod.mk.injEq] at hstep
    obtain ⟨rfl, rfl⟩ := hstep
    exact ⟨⟨hS', hR, hD⟩, rfl⟩
  | enterRead =>
    simp only [Sys.step] at hstep
    split at hstep
    · rename_i hc
      simp only [Option.some.injEq, Prod.mk.injEq] at hstep
      obtain ⟨rfl, rfl⟩ := hstep
      exact ⟨⟨hS', fun _ => hR (by rw [hc.1]; decide), fun h => by cases h⟩, rfl⟩
    · cases hstep
  | breakClose =>
    simp only [Sys.step] at hstep
    split at hstep
    · simp only [Option.some.injEq, finishing, Prod.mk.injEq] at hstep
      obtain ⟨rfl, rfl⟩ := hstep
      exact ⟨⟨hS', fun h => absurd rfl h, fun _ => ⟨rfl, by simp [Sys.outdate]⟩⟩, rfl⟩
    · cases hstep
  | read r =>
    simp only [Sys.step] at hstep
    split at hstep
    · rename_i hc
      have hr := hR (by rw [hc]; decide)
      obtain ⟨g1, g2, g3⟩ := sim_step codec s.ps m hr r
      simp only [pstep] at g1 g2 g3
      simp only [g3, Bool.false_eq_true, if_false, Option.some.injEq, Prod.mk.injEq] at hstep
      obtain ⟨rfl, rfl⟩ := hstep
      exact ⟨⟨hS', fun _ => g1, fun h => by cases h⟩, g2⟩
    · cases hstep
  | readEnd =>
    simp only [Sys.step] at hstep
    split at hstep
    · rename_i hc
      have hr := hR (by rw [hc]; decide)
      have he := sim_eof s.ps m hr
      simp only [pstep] at he
      simp only [Option.some.injEq, finishing, Prod.mk.injEq] at hstep
      obtain ⟨rfl, rfl⟩ := hstep
      refine ⟨⟨hS', fun h => absurd rfl h, fun _ => ⟨rfl, by simp [Sys.outdate]⟩⟩, ?_⟩
      simp only [specLabel]
      rw [noErr_eof, he]
    · cases hstep
  | timerFire =>
    simp only [Sys.step] at hstep
    split at hstep
    · rename_i hc
      have hnd : s.pc ≠ .done := by rw [hc.2]; decide
      have hr := hR hnd
      have hesc := (hS hnd).2.1 (Or.inl hc.1)
      simp only [Option.some.injEq, Prod.mk.injEq] at hstep
      obtain ⟨rfl, rfl⟩ := hstep
      exact ⟨⟨hS', fun _ => R_escKey s.ps m hr hesc, fun h => by rw [hc.2] at h; cases h⟩, rfl⟩
    · cases hstep
  | timerExpire =>
    simp only [Sys.step] at hstep
    split at hstep
    · rename_i hc
      simp only [Option.some.injEq, Prod.mk.injEq] at hstep
      obtain ⟨rfl, rfl⟩ := hstep
      refine ⟨⟨hS', hR, fun h => ?_⟩, rfl⟩
      have := (hD h).1
      rw [hc] at this; cases this
    · cases hstep
  | cbRun fresh =>
    cases fresh with
    | true =>
      simp only [Sys.step] at hstep
      split at hstep
      · rename_i hc
        have hnd : s.pc ≠ .done := by
          intro h
          have := (hD h).2
          rw [hc] at this; cases this
        have hr := hR hnd
        have hesc := (hS hnd).2.1 (Or.inr hc)
        simp only [Option.some.injEq, Prod.mk.injEq] at hstep
        obtain ⟨rfl, rfl⟩ := hstep
        refine ⟨⟨hS', fun _ => R_escKey s.ps m hr hesc, fun h => absurd h hnd⟩, ?_⟩
        simp [Cfg.fixed, specLabel, Spec.VT500.escKey, specSeq, noErr]
      · cases hstep
    | false =>
      simp only [Sys.step, Cfg.fixed, if_true] at hstep
      split at hstep
      · simp only [Option.some.injEq, Prod.mk.injEq] at hstep
        obtain ⟨rfl, rfl⟩ := hstep
        exact ⟨⟨hS', hR, hD⟩, rfl⟩
      · cases hstep

/-- **Every schedule.** -/
theorem run_J (ls : List Label) (s : Sys) (m : M) (s' : Sys) (o : List Seq) (hJ : J s m)
    (hrun : Sys.run handTable Cfg.fixed s ls = some (s', o)) :
    J s' (specLabels m ls).1 ∧ noErr o = (specLabels m ls).2 := by
  induction ls generalizing s m o with
  | nil =>
    simp only [Sys.run, Option.some.injEq, Prod.mk.injEq] at hrun
    obtain ⟨rfl, rfl⟩ := hrun
    exact ⟨hJ, rfl⟩
  | cons l ls ih =>
    simp only [Sys.run] at hrun
    cases h1 : Sys.step handTable Cfg.fixed s l with
    | none => simp [h1] at hrun
    | some r1 =>
      obtain ⟨s1, o1⟩ := r1
      simp only [h1] at hrun
      cases h2 : Sys.run handTable Cfg.fixed s1 ls with
      | none => simp [h2] at hrun
      | some r2 =>
        obtain ⟨s2, o2⟩ := r2
        simp only [h2, Option.some.injEq, Prod.mk.injEq] at hrun
        obtain ⟨rfl, rfl⟩ := hrun
        obtain ⟨g1, g2⟩ := step_J s m l s1 o1 hJ h1
        obtain ⟨g3, g4⟩ := ih s1 _ o2 g1 h2
        exact ⟨g3, by simp only [specLabels, noErr_append, g2, g4]⟩


/-! ### scripts: reads separated by lone-ESC gaps -/

theorem specLabels_append (m : M) (a b : List Label) :
    specLabels m (a ++ b) =
      ((specLabels (specLabels m a).1 b).1, (specLabels m a).2 ++ (specLabels (specLabels m a).1 b).2) := by
  induction a generalizing m with
  | nil => simp [specLabels]
  | cons l a ih => simp [specLabels, ih, List.append_assoc]

/-- The labels of one run of back-to-back reads (the loop is left blocked in the next read). -/
def readsOf (w : List Nat) : List Label := w.flatMap fun r => [.read r, .enterRead]

theorem specLabels_reads (m : M) (w : List Nat) :
    specLabels m (readsOf w) =
      ((Spec.VT500.runFromD devAll m w).1, (Spec.VT500.runFromD devAll m w).2.map specSeq) := by
  induction w generalizing m with
  | nil => simp [readsOf, specLabels, Spec.VT500.runFromD]
  | cons r w ih =>
    have : readsOf (r :: w) = [.read r, .enterRead] ++ readsOf w := by simp [readsOf]
    rw [this, specLabels_append]
    simp only [specLabels, specLabel, List.append_nil, ih, Spec.VT500.runFromD, List.map_append]

/-- Segments of runes; every segment but the last is followed by silence long enough for the Escape
    timer to fire. -/
def segsOf : List (List Nat) → List Label
  | [] => []
  | [w] => readsOf w
  | w :: rest => readsOf w ++ [.timerFire] ++ segsOf rest

theorem specLabels_segs (m : M) (segs : List (List Nat)) :
    specLabels m (segsOf segs) =
      ((Spec.VT500.runSegmentsD devAll m segs).1, (Spec.VT500.runSegmentsD devAll m segs).2.map specSeq) := by
  induction segs generalizing m with
  | nil => simp [segsOf, specLabels, Spec.VT500.runSegmentsD]
  | cons w rest ih =>
    cases rest with
    | nil => simp only [segsOf, Spec.VT500.runSegmentsD]; exact specLabels_reads m w
    | cons w2 rest2 =>
      have : segsOf (w :: w2 :: rest2) = readsOf w ++ ([.timerFire] ++ segsOf (w2 :: rest2)) := by
        simp [segsOf]
      rw [this, specLabels_append, specLabels_reads, specLabels_append]
      simp only [specLabels, specLabel, List.append_nil, ih, Spec.VT500.runSegmentsD, List.map_append,
        List.append_assoc]

end VaxisModel.Lemmas.ParserRunSpec
