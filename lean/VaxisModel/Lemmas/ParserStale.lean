/-
C08: `p.intermediate` after a dispatch.  In the Go code `escapeDispatch/csiDispatch/hook` replace
`p.intermediate` by `intermediatePool.Get()`, which may return a slice with a *stale, non-zero length*
(`Finish` puts the delivered slice back as it is); Model/Parser.lean sets `inter := []` there instead.
The difference cannot be observed: after a dispatch the parser is in `ground` (or, after `hook`, in
`dcsPassthrough`), and from those states nothing reads `inter` before the `clear()` that every ESC runs.
-/
import VaxisModel.Lemmas.Parser

namespace VaxisModel.Lemmas.ParserStale
open VaxisModel.Model.ParserTable VaxisModel.Model.Parser VaxisModel.Lemmas.Parser

/-- Statements that neither read nor write `p.intermediate`. -/
def interFree : Act → Bool
  | .collect | .csiDispatch | .escapeDispatch | .hook | .clear => false
  | _ => true

theorem runExitFn_inter (s : PState) (x : List Rune) (f : ExitFn) :
    runExitFn { s with inter := x } f = ({ (runExitFn s f).1 with inter := x }, (runExitFn s f).2) := by
  cases f <;> rfl

theorem applyAct_inter (a : Act) (ha : interFree a = true) (r : Rune) (s : PState) (x : List Rune) :
    applyAct a r { s with inter := x } = ({ (applyAct a r s).1 with inter := x }, (applyAct a r s).2) := by
  obtain ⟨st, inter, params, exit, ign, osc, apc, dcs⟩ := s
  cases a <;> simp only [interFree] at ha <;> try rfl
  all_goals (try cases ha)
  all_goals
    simp only [applyAct]
    cases exit with
    | none => rfl
    | some f => cases f <;> rfl

theorem runActs_inter (acts : List Act) (hq : ∀ a ∈ acts, interFree a = true) (i : Inp) (s : PState)
    (x : List Rune) (out : List Seq) (n : Next) :
    runActs acts i { s with inter := x } out n =
      ({ (runActs acts i s out n).1 with inter := x }, (runActs acts i s out n).2) := by
  induction acts generalizing s out with
  | nil => rfl
  | cons a rest ih =>
    have hrest : ∀ a ∈ rest, interFree a = true := fun a' h => hq a' (List.mem_cons_of_mem _ h)
    have ha := hq a List.mem_cons_self
    by_cases hret : ∃ n', a = .retIfIgnoreST n'
    · obtain ⟨n', rfl⟩ := hret
      simp only [runActs]
      split
      · rfl
      · exact ih hrest s out
    · have hr1 : ∀ (s : PState) , runActs (a :: rest) i s out n =
          (match i with
           | .rune r => runActs rest i (applyAct a r s).1 (out ++ (applyAct a r s).2) n
           | .eof => if usesRune a then (s, out ++ [.panic], .stop)
                     else runActs rest i (applyAct a 0 s).1 (out ++ (applyAct a 0 s).2) n) := by
        intro s
        cases a <;> first | (exfalso; exact hret ⟨_, rfl⟩) | (cases i <;> simp [runActs])
      rw [hr1, hr1]
      cases i with
      | rune r => simp only []; rw [applyAct_inter a ha]; exact ih hrest _ _
      | eof =>
        simp only
        split
        · rfl
        · rw [applyAct_inter a ha]; exact ih hrest _ _
def isRet : Act → Bool
  | .retIfIgnoreST _ => true
  | _ => false

theorem runActs_next (acts : List Act) (hq : ∀ a ∈ acts, isRet a = false) (r : Nat) (s : PState)
    (out : List Seq) (n : Next) : (runActs acts (.rune r) s out n).2.2 = n := by
  induction acts generalizing s out with
  | nil => rfl
  | cons a rest ih =>
    have hrest : ∀ a ∈ rest, isRet a = false := fun a' h => hq a' (List.mem_cons_of_mem _ h)
    have ha := hq a List.mem_cons_self
    have hr1 : runActs (a :: rest) (.rune r) s out n =
        runActs rest (.rune r) (applyAct a r s).1 (out ++ (applyAct a r s).2) n := by
      cases a <;> first | (simp [isRet] at ha; done) | simp [runActs]
    rw [hr1]; exact ih hrest _ _

/-- The states in which `p.intermediate` is dead: nothing reads it before the next `clear()`. -/
def Dead (st : StateId) : Prop := st = .ground ∨ st = .dcsPassthrough

def rowOk (row : List Act × Next) : Bool :=
  row.1.all (fun a => interFree a && !isRet a) && (row.2 == .st .ground || row.2 == .st .dcsPassthrough)

theorem dead_rows (st : StateId) (hd : Dead st) (r : Nat) : rowOk ((handFn st).row (.rune r)) = true := by
  rcases hd with rfl | rfl
  · exact row_forall (handFn .ground) (fun row => rowOk row = true) (by decide) (by decide +kernel) r
  · exact row_forall (handFn .dcsPassthrough) (fun row => rowOk row = true) (by decide) (by decide +kernel) r

/-- What `s'` is to `s` after a step from a dead state: the same but for `inter`, still dead — or the same. -/
def StaleRel (s s' : PState) : Prop := (Dead s.state ∧ ∃ x, s' = { s with inter := x }) ∨ s' = s

theorem pstep_stale (s : PState) (hd : Dead s.state) (x : List Rune) (i : Inp) :
    (pstep { s with inter := x } i).out = (pstep s i).out ∧ (pstep { s with inter := x } i).stop = (pstep s i).stop ∧
    StaleRel (pstep s i).st (pstep { s with inter := x } i).st := by
  cases i with
  | eof =>
    have : pstep { s with inter := x } .eof = ⟨{ (pstep s .eof).st with inter := x }, (pstep s .eof).out, (pstep s .eof).stop⟩ ∧
        (pstep s .eof).st.state = s.state := by
      obtain ⟨st, inter, params, exit, ign, osc, apc, dcs⟩ := s
      cases exit with
      | none => exact ⟨rfl, rfl⟩
      | some f => cases f <;> exact ⟨rfl, rfl⟩
    rw [this.1]
    exact ⟨rfl, rfl, Or.inl ⟨by rw [this.2]; exact hd, x, rfl⟩⟩
  | rune r =>
    by_cases h18 : r = 0x18
    · subst h18
      have : pstep { s with inter := x } (.rune 0x18) = ⟨{ (pstep s (.rune 0x18)).st with inter := x }, (pstep s (.rune 0x18)).out, (pstep s (.rune 0x18)).stop⟩ ∧
          (pstep s (.rune 0x18)).st.state = .ground := by
        obtain ⟨st, inter, params, exit, ign, osc, apc, dcs⟩ := s
        cases exit with
        | none => exact ⟨rfl, rfl⟩
        | some f => cases f <;> exact ⟨rfl, rfl⟩
      rw [this.1]
      exact ⟨rfl, rfl, Or.inl ⟨Or.inl this.2, x, rfl⟩⟩
    · by_cases h1a : r = 0x1A
      · subst h1a
        have : pstep { s with inter := x } (.rune 0x1A) = ⟨{ (pstep s (.rune 0x1A)).st with inter := x }, (pstep s (.rune 0x1A)).out, (pstep s (.rune 0x1A)).stop⟩ ∧
            (pstep s (.rune 0x1A)).st.state = .ground := by
          obtain ⟨st, inter, params, exit, ign, osc, apc, dcs⟩ := s
          cases exit with
          | none => exact ⟨rfl, rfl⟩
          | some f => cases f <;> exact ⟨rfl, rfl⟩
        rw [this.1]
        exact ⟨rfl, rfl, Or.inl ⟨Or.inl this.2, x, rfl⟩⟩
      · by_cases h1b : r = 0x1B
        · subst h1b
          have : pstep { s with inter := x } (.rune 0x1B) = pstep s (.rune 0x1B) := by
            obtain ⟨st, inter, params, exit, ign, osc, apc, dcs⟩ := s
            cases exit with
            | none => rfl
            | some f => cases f <;> rfl
          rw [this]
          exact ⟨rfl, rfl, Or.inr rfl⟩
        · have hrow := dead_rows s.state hd r
          simp only [rowOk, Bool.and_eq_true, List.all_eq_true, Bool.or_eq_true, beq_iff_eq, Bool.not_eq_true'] at hrow
          obtain ⟨hboth, hnext⟩ := hrow
          have hfree : ∀ a ∈ ((handFn s.state).row (.rune r)).1, interFree a = true := fun a h => (hboth a h).1
          have hnr : ∀ a ∈ ((handFn s.state).row (.rune r)).1, isRet a = false := fun a h => (hboth a h).2
          have hn := runActs_next _ hnr r s [] ((handFn s.state).row (.rune r)).2
          have hpre : ((handFn s.state).row (.rune r)).1.contains Act.deferClearIgnoreST = false := by
            rcases hd with h | h <;> rw [h] <;>
              exact row_forall _ (fun row => row.1.contains Act.deferClearIgnoreST = false) (by decide)
                (by decide +kernel) r
          have e1 := pstep_plain s r h18 h1a h1b
          have e2 := pstep_plain { s with inter := x } r h18 h1a h1b
          simp only [hpre, Bool.false_eq_true, if_false] at e1 e2
          rw [runActs_inter _ hfree] at e2
          rw [e1, e2]
          simp only [hn]
          rcases hnext with h | h <;> rw [h] <;>
            exact ⟨rfl, rfl, Or.inl ⟨by simp [finish, Dead], x, rfl⟩⟩

/-- Runs from related states emit the same items and stop at the same point. -/
theorem runWith_stale (is : List Inp) (s s' : PState) (h : StaleRel s s') :
    (runWith handTable s' is).2 = (runWith handTable s is).2 ∧
    StaleRel (runWith handTable s is).1 (runWith handTable s' is).1 := by
  induction is generalizing s s' with
  | nil => exact ⟨rfl, h⟩
  | cons i rest ih =>
    rcases h with ⟨hd, x, rfl⟩ | rfl
    · obtain ⟨h1, h2, h3⟩ := pstep_stale s hd x i
      have h1' : (step handTable { s with inter := x } i).out = (step handTable s i).out := h1
      have h2' : (step handTable { s with inter := x } i).stop = (step handTable s i).stop := h2
      have h3' : StaleRel (step handTable s i).st (step handTable { s with inter := x } i).st := h3
      obtain ⟨g1, g2⟩ := ih _ _ h3'
      simp only [runWith, h1', h2']
      split
      · exact ⟨rfl, h3'⟩
      · have e1 := congrArg Prod.fst g1
        have e2 := congrArg Prod.snd g1
        exact ⟨by simp only [e1, e2], g2⟩
    · exact ⟨rfl, Or.inr rfl⟩

def isDispatch : Act → Bool
  | .escapeDispatch | .csiDispatch | .hook => true
  | _ => false

def retTargetsDead : List Act → Bool
  | [] => true
  | .retIfIgnoreST n :: rest => (n == .st .ground || n == .st .dcsPassthrough) && retTargetsDead rest
  | _ :: rest => retTargetsDead rest

/-- A row that dispatches returns to `ground` or `dcsPassthrough` (also through its early return). -/
def dispatchRowOk (row : List Act × Next) : Bool :=
  !row.1.any isDispatch || ((row.2 == .st .ground || row.2 == .st .dcsPassthrough) && retTargetsDead row.1)

theorem dispatch_rows (st : StateId) (r : Nat) : dispatchRowOk ((handFn st).row (.rune r)) = true := by
  cases st <;> exact row_forall _ (fun row => dispatchRowOk row = true) (by decide) (by decide +kernel) r

end VaxisModel.Lemmas.ParserStale
