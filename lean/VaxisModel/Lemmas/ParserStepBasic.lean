/-
C02: basic facts about `applyAct` / `runActs` / `runFn` used by several lemma files: statements
never change `p.state`; a row without an early return returns the arm's `return` value.
-/
import VaxisModel.Model.Parser

namespace VaxisModel.Lemmas.ParserStepBasic
open VaxisModel.Model.ParserTable VaxisModel.Model.Parser

theorem applyAct_state (a : Act) (r : Nat) (s : PState) : (applyAct a r s).1.state = s.state := by
  cases a
  case hook =>
    simp only [applyAct]
    split
    · rfl
    · split <;> rfl
  case runExit =>
    simp only [applyAct]
    cases h : s.exit with
    | none => rfl
    | some f => cases f <;> rfl
  case runExitIfSet =>
    simp only [applyAct]
    cases h : s.exit with
    | none => rfl
    | some f => cases f <;> rfl
  case runExitIfSetST =>
    simp only [applyAct]
    cases h : s.exit with
    | none => rfl
    | some f => cases f <;> rfl
  all_goals rfl

theorem runActs_state (acts : List Act) (i : Inp) (s : PState) (out : List Seq) (n : Next) :
    (runActs acts i s out n).1.state = s.state := by
  induction acts generalizing s out with
  | nil => rfl
  | cons a rest ih =>
    by_cases hret : ∃ n', a = .retIfIgnoreST n'
    · obtain ⟨n', rfl⟩ := hret
      simp only [runActs]
      split
      · rfl
      · exact ih s out
    · have hr1 : runActs (a :: rest) i s out n =
          (match i with
           | .rune r => runActs rest i (applyAct a r s).1 (out ++ (applyAct a r s).2) n
           | .eof => if usesRune a then (s, out ++ [.panic], .stop)
                     else runActs rest i (applyAct a 0 s).1 (out ++ (applyAct a 0 s).2) n) := by
        cases a <;> first | (exfalso; exact hret ⟨_, rfl⟩) | (cases i <;> simp [runActs])
      rw [hr1]
      cases i with
      | rune r => simp only; rw [ih, applyAct_state]
      | eof =>
        simp only
        split
        · rfl
        · rw [ih, applyAct_state]

theorem runFn_state (f : StateFn) (i : Inp) (s : PState) : (runFn f i s).1.state = s.state := by
  simp only [runFn]
  split <;> simp [runActs_state]

theorem runActs_next_rune (acts : List Act) (hno : ∀ a ∈ acts, ∀ n', a ≠ .retIfIgnoreST n') (r : Nat) (s : PState)
    (out : List Seq) (n : Next) : (runActs acts (.rune r) s out n).2.2 = n := by
  induction acts generalizing s out with
  | nil => rfl
  | cons a rest ih =>
    have hr1 : runActs (a :: rest) (.rune r) s out n =
        runActs rest (.rune r) (applyAct a r s).1 (out ++ (applyAct a r s).2) n := by
      cases a <;> first | (exfalso; exact hno _ (List.mem_cons_self ..) _ rfl) | simp [runActs]
    rw [hr1]
    exact ih (fun a' ha' => hno a' (by simp [ha'])) _ _

end VaxisModel.Lemmas.ParserStepBasic
