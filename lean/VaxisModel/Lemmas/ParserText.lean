/-
C02: text through the reading side (Model/ParserIO.lean) — bufio's fill loop, readRune, and
print's look-ahead with an arbitrary cluster oracle — for printable ASCII: whatever the reads and
whatever uniseg says, the Prints concatenate to the input.
-/
import VaxisModel.Model.ParserIO
import VaxisModel.Lemmas.Parser

namespace VaxisModel.Lemmas.ParserText
open VaxisModel.Model.ParserTable VaxisModel.Model.Parser VaxisModel.Model.ParserIO
open VaxisModel.Lemmas.Parser

def Ascii (l : List Nat) : Prop := ∀ b ∈ l, 0x20 ≤ b ∧ b < 0x80

/-- All bytes still to come. -/
def bytesOf (rd : Rd) : List Nat := rd.buf ++ rd.chunks.flatten

theorem fullRune_ascii (b : Nat) (rest : List Nat) (h : b < 0x80) : fullRune (b :: rest) = true := by
  simp [fullRune, h]

theorem decodeRune_ascii (b : Nat) (rest : List Nat) (h : b < 0x80) : decodeRune (b :: rest) = (b, 1) := by
  simp [decodeRune, h]

theorem fillLoop_spec (chunks : List (List Nat)) (buf : List Nat) (ha : Ascii (buf ++ chunks.flatten)) :
    (fillLoop buf chunks).1 ++ (fillLoop buf chunks).2.flatten = buf ++ chunks.flatten ∧
    ((fillLoop buf chunks).1 = [] → (fillLoop buf chunks).2.flatten = []) ∧
    (buf ≠ [] → fillLoop buf chunks = (buf, chunks)) := by
  induction chunks generalizing buf with
  | nil => simp [fillLoop]
  | cons c cs ih =>
    cases buf with
    | nil =>
      have hstep : fillLoop [] (c :: cs) = fillLoop c cs := by
        simp [fillLoop, fullRune]
      rw [hstep]
      have := ih c (by simpa [Ascii] using ha)
      refine ⟨by simpa using this.1, this.2.1, fun h => absurd rfl h⟩
    | cons b rest =>
      have hb := ha b (by simp)
      have hf := fullRune_ascii b rest hb.2
      have hstep : fillLoop (b :: rest) (c :: cs) = (b :: rest, c :: cs) := by
        simp [fillLoop, hf]
      rw [hstep]
      exact ⟨rfl, fun h => absurd h (by simp), fun _ => rfl⟩

theorem bytesOf_fill (rd : Rd) (ha : Ascii (bytesOf rd)) :
    bytesOf rd.fill = bytesOf rd ∧ rd.fill.pos = rd.pos ∧ (rd.fill.buf = [] → bytesOf rd = []) ∧
    (rd.buf ≠ [] → rd.fill = rd) := by
  have h := fillLoop_spec rd.chunks rd.buf ha
  refine ⟨h.1, rfl, fun hb => ?_, fun hne => ?_⟩
  · have hb' : (fillLoop rd.buf rd.chunks).1 = [] := hb
    have := h.2.1 hb'
    show rd.buf ++ rd.chunks.flatten = []
    rw [← h.1, hb', this]; rfl
  · show ({ rd with buf := (fillLoop rd.buf rd.chunks).1, chunks := (fillLoop rd.buf rd.chunks).2 } : Rd) = rd
    rw [h.2.2 hne]

/-- readRune on ASCII input: the next byte, one byte consumed. -/
theorem readRune_ascii (rd : Rd) (ha : Ascii (bytesOf rd)) :
    (bytesOf rd = [] → (readRune rd).1 = none) ∧
    (∀ x rest, bytesOf rd = x :: rest →
      (readRune rd).1 = some x ∧ bytesOf (readRune rd).2 = rest ∧ (readRune rd).2.pos = rd.pos + 1) := by
  obtain ⟨h1, h2, h3, _⟩ := bytesOf_fill rd ha
  refine ⟨fun he => ?_, fun x rest hx => ?_⟩
  · have hb : rd.fill.buf = [] := by
      have : bytesOf rd.fill = [] := by rw [h1, he]
      simp only [bytesOf, List.append_eq_nil_iff] at this
      exact this.1
    simp only [readRune, hb]
  · cases hb : rd.fill.buf with
    | nil => rw [h3 hb] at hx; cases hx
    | cons b0 brest =>
      have hbytes : bytesOf rd.fill = b0 :: (brest ++ rd.fill.chunks.flatten) := by simp [bytesOf, hb]
      rw [h1, hx] at hbytes
      obtain ⟨rfl, hrest⟩ := List.cons.inj hbytes
      have hx' := ha x (by rw [hx]; simp)
      have hd := decodeRune_ascii x brest hx'.2
      have hne : x ≠ runeError := by simp only [runeError]; omega
      simp only [readRune, hb, hd, beq_iff_eq, hne, false_and, Bool.false_and, Bool.false_eq_true, if_false]
      refine ⟨rfl, ?_, ?_⟩
      · simp [bytesOf, Rd.consume, hb, hrest]
      · simp [Rd.consume, h2]

/-- print's look-ahead on ASCII input: takes a prefix of what is still to come, leaves the rest,
    whatever the cluster length the oracle reports. -/
theorem printLoop_ascii (cl : Nat) (fuel : Nat) (rd : Rd) (acc : List Nat) (ha : Ascii (bytesOf rd)) :
    ∃ taken, (printLoop cl fuel rd acc).1 = acc ++ taken ∧
      taken ++ bytesOf (printLoop cl fuel rd acc).2 = bytesOf rd := by
  induction fuel generalizing rd acc with
  | zero => exact ⟨[], by simp [printLoop]⟩
  | succ n ih =>
    simp only [printLoop]
    cases hb : rd.buf with
    | nil => exact ⟨[], by simp [hb]⟩
    | cons b0 brest =>
      have hne : rd.buf ≠ [] := by rw [hb]; simp
      have hfill := (bytesOf_fill rd ha).2.2.2 hne
      simp only [List.isEmpty_cons, Bool.false_eq_true, if_false, hfill, hb]
      have hb0 := ha b0 (by simp [bytesOf, hb])
      simp only [decodeRune_ascii b0 brest hb0.2]
      have hne0 : ¬ (b0 = runeError) := by
        intro h; have h2 := hb0.2; rw [h] at h2; simp [runeError] at h2
      simp only [hne0, decide_false, Bool.and_false, Bool.false_and, Bool.false_eq_true, if_false]
      split
      · exact ⟨[], by simp⟩
      · have hcons : bytesOf (rd.consume 1) = brest ++ rd.chunks.flatten := by simp [bytesOf, Rd.consume, hb]
        have ha' : Ascii (bytesOf (rd.consume 1)) := by
          intro b hbm; rw [hcons] at hbm
          exact ha b (by simp only [bytesOf, hb, List.cons_append, List.mem_cons]; exact Or.inr hbm)
        obtain ⟨t, ht1, ht2⟩ := ih (rd.consume 1) (acc ++ [b0]) ha'
        refine ⟨b0 :: t, by rw [ht1]; simp, ?_⟩
        rw [List.cons_append, ht2, hcons]
        simp [bytesOf, hb]

theorem remaining_eq (rd : Rd) : rd.remaining = (bytesOf rd).length := by
  simp [Rd.remaining, bytesOf, List.length_flatten]

theorem pstep_eof_quiet (s : PState) (he : s.exit = none) : pstep s .eof = ⟨s, [], true⟩ := by
  have hrow : handAnywhere.row .eof = ([.runExitIfSet], .stop) := by decide
  have hpre : ([.runExitIfSet] : List Act).contains Act.deferClearIgnoreST = false := by decide
  show step handTable s .eof = _
  unfold step
  simp only [handTable, runFn, hrow, hpre, runActs, applyAct, he, usesRune]
  rfl

/-- The run loop on printable ASCII, from ground: Prints only, then EOF; the graphemes are
    non-empty and concatenate to the input. -/
theorem runLoop_ascii (clusterAt : Nat → Nat) (fuel : Nat) (s : PState) (hs : s.state = .ground)
    (he : s.exit = none) (rd : Rd) (ha : Ascii (bytesOf rd)) (hf : (bytesOf rd).length + 1 ≤ fuel) :
    ∃ gs : List (List Nat), runLoop handTable clusterAt fuel s rd = gs.map Item.print ++ [.seq .eof] ∧
      gs.flatten = bytesOf rd ∧ ∀ g ∈ gs, g ≠ [] := by
  induction fuel generalizing rd with
  | zero => omega
  | succ n ih =>
    obtain ⟨hnil, hcons⟩ := readRune_ascii rd ha
    cases hbytes : bytesOf rd with
    | nil =>
      have h1 := hnil hbytes
      simp only [runLoop]
      generalize hr : readRune rd = rr at h1
      obtain ⟨ro, rd1⟩ := rr
      simp only at h1
      subst h1
      have := pstep_eof_quiet s he
      simp only [pstep] at this
      simp only [this]
      exact ⟨[], by simp, by simp, by simp⟩
    | cons x rest =>
      obtain ⟨h1, h2, h3⟩ := hcons x rest hbytes
      have hx := ha x (by rw [hbytes]; simp)
      simp only [runLoop]
      generalize hr : readRune rd = rr at h1 h2 h3
      obtain ⟨ro, rd1⟩ := rr
      simp only at h1 h2 h3
      subst h1
      have hp := ground_print s hs x hx.1
      simp only [pstep] at hp
      simp only [hp, deliver, Bool.false_eq_true, if_false]
      have ha1 : Ascii (bytesOf rd1) := by
        intro b hb; rw [h2] at hb; exact ha b (by rw [hbytes]; simp [hb])
      obtain ⟨t, ht1, ht2⟩ := printLoop_ascii (max 1 (clusterAt rd.pos)) (rd1.remaining + 1) rd1 [x] ha1
      generalize hpl : printLoop (max 1 (clusterAt rd.pos)) (rd1.remaining + 1) rd1 [x] = pl at ht1 ht2
      obtain ⟨g, rd2⟩ := pl
      simp only at ht1 ht2
      have ha2 : Ascii (bytesOf rd2) := by
        intro b hb; apply ha1; rw [← ht2]; simp [hb]
      have hlen : (bytesOf rd2).length + 1 ≤ n := by
        have : (bytesOf rd1).length = t.length + (bytesOf rd2).length := by rw [← ht2]; simp
        rw [hbytes] at hf; rw [h2] at this
        simp only [List.length_cons] at hf
        omega
      obtain ⟨gs, hg1, hg2, hg3⟩ := ih rd2 ha2 hlen
      refine ⟨g :: gs, ?_, ?_, ?_⟩
      · simp [hg1]
      · rw [List.flatten_cons, hg2, ht1]
        rw [List.cons_append, List.nil_append, List.cons_append, ht2, h2]
      · intro g' hg'
        simp only [List.mem_cons] at hg'
        rcases hg' with rfl | hg'
        · rw [ht1]; simp
        · exact hg3 g' hg'

end VaxisModel.Lemmas.ParserText
