/-
C02: the reading side (Model/ParserIO.lean) for **arbitrary byte streams**: bufio's fill loop,
`readRune` with its raw-byte fallback, `print`'s look-ahead (stops in front of an invalid byte), for any split into
reads and any cluster oracle.  The reads disappear: what is delivered is a function of the units
of the stream (`ParserUtf8.units`) — except for *how many* units a Print takes.
-/
import VaxisModel.Lemmas.ParserText
import VaxisModel.Lemmas.ParserUtf8

namespace VaxisModel.Lemmas.ParserTextU
open VaxisModel.Model.ParserTable VaxisModel.Model.Parser VaxisModel.Model.ParserIO VaxisModel.Model.ParserUtf8
open VaxisModel.Lemmas.Parser VaxisModel.Lemmas.ParserText VaxisModel.Lemmas.ParserUtf8

/-! ### bufio -/

theorem fillLoop_gen (chunks : List (List Nat)) (buf : List Nat) :
    (fillLoop buf chunks).1 ++ (fillLoop buf chunks).2.flatten = buf ++ chunks.flatten ∧
    (fullRune (fillLoop buf chunks).1 = true ∨ 4 ≤ (fillLoop buf chunks).1.length ∨ (fillLoop buf chunks).2 = []) ∧
    (∃ x, (fillLoop buf chunks).1 = buf ++ x) ∧ (∃ k, (fillLoop buf chunks).2 = chunks.drop k) := by
  induction chunks generalizing buf with
  | nil => exact ⟨by simp [fillLoop], Or.inr (Or.inr (by simp [fillLoop])), ⟨[], by simp [fillLoop]⟩, ⟨0, by simp [fillLoop]⟩⟩
  | cons c cs ih =>
    by_cases hc : (decide (buf.length < 4) && !fullRune buf) = true
    · have hstep : fillLoop buf (c :: cs) = fillLoop (buf ++ c) cs := by simp only [fillLoop, hc, if_true]
      rw [hstep]
      obtain ⟨h1, h2, ⟨x, h3⟩, ⟨k, h4⟩⟩ := ih (buf ++ c)
      refine ⟨by rw [h1]; simp, h2, ⟨c ++ x, by rw [h3]; simp⟩, ⟨k + 1, by rw [h4]; simp⟩⟩
    · have hstep : fillLoop buf (c :: cs) = (buf, c :: cs) := by simp only [fillLoop, hc]; rfl
      rw [hstep]
      refine ⟨rfl, ?_, ⟨[], by simp⟩, ⟨0, by simp⟩⟩
      simp only [Bool.and_eq_true, decide_eq_true_eq, Bool.not_eq_eq_eq_not, Bool.not_true, not_and,
        Bool.not_eq_false] at hc
      by_cases hl : buf.length < 4
      · exact Or.inl (hc hl)
      · exact Or.inr (Or.inl (by show 4 ≤ buf.length; omega))

theorem fill_spec (rd : Rd) :
    bytesOf rd.fill = bytesOf rd ∧ rd.fill.pos = rd.pos ∧ decodeRune rd.fill.buf = decodeRune (bytesOf rd) ∧
    (rd.fill.buf = [] → bytesOf rd = []) ∧ (∃ x, rd.fill.buf = rd.buf ++ x) ∧
    (∃ k, rd.fill.chunks = rd.chunks.drop k) := by
  obtain ⟨h1, h2, h3, h4⟩ := fillLoop_gen rd.chunks rd.buf
  have hb : rd.fill.buf = (fillLoop rd.buf rd.chunks).1 := rfl
  have hc : rd.fill.chunks = (fillLoop rd.buf rd.chunks).2 := rfl
  have hbytes : bytesOf rd.fill = bytesOf rd := by simp only [bytesOf, hb, hc]; exact h1
  refine ⟨hbytes, rfl, ?_, ?_, by rw [hb]; exact h3, by rw [hc]; exact h4⟩
  · rw [← hbytes]
    simp only [bytesOf, hb, hc]
    rcases h2 with h | h | h
    · exact (decodeRune_stable _ _ (Or.inl h)).symm
    · exact (decodeRune_stable _ _ (Or.inr h)).symm
    · rw [h]; simp
  · intro he
    rw [← hbytes]
    rw [hb] at he
    rcases h2 with h | h | h
    · rw [he] at h; simp [fullRune] at h
    · rw [he] at h; simp at h
    · simp only [bytesOf, hb, hc, he, h]; rfl

theorem bytesOf_consume (rd : Rd) (n : Nat) (h : n ≤ rd.buf.length) :
    bytesOf (rd.consume n) = (bytesOf rd).drop n := by
  simp only [bytesOf, Rd.consume]
  rw [List.drop_append_of_le_length h]

theorem fallback_flag : Gen.ParserTable.fallbackOnlyInvalid = true := by decide

/-- `Parser.readRune`, whatever the reads: `eof` exactly at the end of the stream; otherwise the
    `raw` reading of the first unit of what is still to come, and that unit is consumed. -/
theorem readRune_spec (rd : Rd) :
    (bytesOf rd = [] → (readRune rd).1 = none) ∧
    (∀ b t, bytesOf rd = b :: t →
      (readRune rd).1 = some (unit1 (b :: t)).raw ∧
      bytesOf (readRune rd).2 = (b :: t).drop (unit1 (b :: t)).sz ∧
      (readRune rd).2.pos = rd.pos + (unit1 (b :: t)).sz ∧
      (∃ k, (readRune rd).2.chunks = rd.chunks.drop k)) := by
  obtain ⟨h1, h2, h3, h4, _, h6⟩ := fill_spec rd
  refine ⟨fun he => ?_, fun b t hbt => ?_⟩
  · have hb : rd.fill.buf = [] := by
      have : bytesOf rd.fill = [] := by rw [h1, he]
      simp only [bytesOf, List.append_eq_nil_iff] at this
      exact this.1
    simp only [readRune, hb]
  · cases hb : rd.fill.buf with
    | nil => rw [h4 hb] at hbt; cases hbt
    | cons b0 brest =>
      have hbytes : bytesOf rd.fill = b0 :: (brest ++ rd.fill.chunks.flatten) := by simp [bytesOf, hb]
      rw [h1, hbt] at hbytes
      obtain ⟨rfl, _⟩ := List.cons.inj hbytes
      have hd : decodeRune (b :: brest) = decodeRune (b :: t) := by rw [← hb, h3, hbt]
      have hsz := decodeRune_sz b brest
      rw [hd] at hsz
      simp only [readRune, hb, hd, fallback_flag, Bool.not_true, Bool.or_false]
      by_cases hinv : (decodeRune (b :: t)).1 = runeError ∧ (decodeRune (b :: t)).2 = 1
      · have hu : unit1 (b :: t) = ⟨b, true, 1⟩ := by simp [unit1, hinv]
        simp only [hinv.1, hinv.2, decide_true, Bool.and_self, if_true, hu]
        refine ⟨trivial, ?_, ?_, ?_⟩
        · rw [bytesOf_consume _ _ (by rw [hb]; simp), h1, hbt]
        · simp [Rd.consume, h2]
        · exact h6
      · have hu : unit1 (b :: t) = ⟨(decodeRune (b :: t)).1, false, (decodeRune (b :: t)).2⟩ := by
          simp only [unit1, hinv, if_false]
        have hc : (decide ((decodeRune (b :: t)).1 = runeError) && decide ((decodeRune (b :: t)).2 = 1)) = false := by
          simp only [Bool.and_eq_false_iff, decide_eq_false_iff_not]
          by_cases h : (decodeRune (b :: t)).1 = runeError
          · exact Or.inr (fun h' => hinv ⟨h, h'⟩)
          · exact Or.inl h
        simp only [hc, Bool.false_eq_true, if_false, hu]
        refine ⟨trivial, ?_, ?_, ?_⟩
        · rw [bytesOf_consume _ _ (by rw [hb]; exact hsz.2.1), h1, hbt]
        · simp [Rd.consume, h2]
        · exact h6

/-! ### print's look-ahead -/

theorem lookahead_flag : Gen.ParserTable.lookaheadStopsAtInvalid = true := by decide

/-- The first unit is invalid iff `utf8.DecodeRune` reports (U+FFFD, 1). -/
theorem unit1_inv (b : Nat) (t : List Nat) :
    (unit1 (b :: t)).inv = true ↔ ((decodeRune (b :: t)).1 = runeError ∧ (decodeRune (b :: t)).2 = 1) := by
  unfold unit1
  split
  · rename_i h; simp [h.1, h.2]
  · rename_i h; simp only [Bool.false_eq_true, false_iff]; exact h

theorem unit1_raw_valid (b : Nat) (t : List Nat) (h : (unit1 (b :: t)).inv = false) :
    (unit1 (b :: t)).raw = (decodeRune (b :: t)).1 := by
  have := (unit1_look b t).1
  simp only [U.look, h, Bool.false_eq_true, if_false] at this
  exact this

/-- `print`'s loop, whatever the reads and the oracle: it appends the next `k` units — all of them
    well-formed scalars, each as itself — and consumes exactly those; it never takes more than the
    oracle's cluster length allows, and it stops short of that only when the buffer is empty (a
    read boundary, or the end of the stream) or in front of an invalid byte, which it leaves to
    `readRune`. -/
theorem printLoop_spec (cl : Nat) (fuel : Nat) (rd : Rd) (acc : List Nat) :
    ∃ us : List U,
      (printLoop cl fuel rd acc).1 = acc ++ us.map U.raw ∧
      units (bytesOf rd) = us ++ units (bytesOf (printLoop cl fuel rd acc).2) ∧
      bytesOf (printLoop cl fuel rd acc).2 = (bytesOf rd).drop (ulen us) ∧
      ulen us ≤ (bytesOf rd).length ∧ us.length ≤ ulen us ∧
      (printLoop cl fuel rd acc).2.pos = rd.pos + ulen us ∧
      (us ≠ [] → acc.length + us.length ≤ cl) ∧
      (cl ≤ acc.length + us.length ∨ (printLoop cl fuel rd acc).2.buf = [] ∨ fuel ≤ us.length ∨
        (∃ u rest, units (bytesOf (printLoop cl fuel rd acc).2) = u :: rest ∧ u.inv = true)) ∧
      (∃ k, (printLoop cl fuel rd acc).2.chunks = rd.chunks.drop k) ∧
      (∀ u ∈ us, u.inv = false) := by
  induction fuel generalizing rd acc with
  | zero =>
    refine ⟨[], ?_⟩
    simp only [printLoop, List.map_nil, List.append_nil, List.nil_append, ulen, List.sum_nil, List.drop_zero,
      Nat.zero_le, Nat.add_zero, List.length_nil, ne_eq, not_true_eq_false, false_implies, true_and]
    exact ⟨Or.inr (Or.inr (Or.inl trivial)), ⟨0, by simp⟩, by simp⟩
  | succ n ih =>
    simp only [printLoop]
    cases hb : rd.buf with
    | nil =>
      refine ⟨[], ?_⟩
      simp only [List.isEmpty_nil, if_true, List.map_nil, List.append_nil, List.nil_append, ulen, List.sum_nil,
        List.drop_zero, Nat.zero_le, Nat.add_zero, List.length_nil, ne_eq, not_true_eq_false, false_implies, true_and]
      exact ⟨Or.inr (Or.inl hb), ⟨0, by simp⟩, by simp⟩
    | cons b0 brest =>
      obtain ⟨h1, h2, h3, h4, ⟨x, h5⟩, ⟨k0, h6⟩⟩ := fill_spec rd
      simp only [List.isEmpty_cons, Bool.false_eq_true, if_false, lookahead_flag, Bool.true_and]
      have hbytes : bytesOf rd = b0 :: (brest ++ rd.chunks.flatten) := by simp [bytesOf, hb]
      generalize htl : brest ++ rd.chunks.flatten = t at hbytes
      have hlk := unit1_look b0 t
      have hus := unit1_sz b0 t
      have hd : decodeRune rd.fill.buf = decodeRune (b0 :: t) := by rw [h3, hbytes]
      by_cases hinv : (decodeRune (b0 :: t)).1 = runeError ∧ (decodeRune (b0 :: t)).2 = 1
      · -- invalid byte: leave it
        have hc : (decide ((decodeRune rd.fill.buf).1 = runeError) && decide ((decodeRune rd.fill.buf).2 = 1)) = true := by
          rw [hd]; simp [hinv.1, hinv.2]
        simp only [hc, if_true]
        refine ⟨[], ?_⟩
        simp only [List.map_nil, List.append_nil, List.nil_append, ulen, List.sum_nil, List.drop_zero, Nat.zero_le,
          Nat.add_zero, List.length_nil, ne_eq, not_true_eq_false, false_implies, true_and, h1, h2]
        refine ⟨Or.inr (Or.inr (Or.inr ⟨unit1 (b0 :: t), units ((b0 :: t).drop (unit1 (b0 :: t)).sz), ?_,
          (unit1_inv b0 t).mpr hinv⟩)), ⟨k0, h6⟩, by simp⟩
        rw [hbytes, units_cons]
      · have hc : (decide ((decodeRune rd.fill.buf).1 = runeError) && decide ((decodeRune rd.fill.buf).2 = 1)) = false := by
          rw [hd]
          simp only [Bool.and_eq_false_iff, decide_eq_false_iff_not]
          by_cases h : (decodeRune (b0 :: t)).1 = runeError
          · exact Or.inr (fun h' => hinv ⟨h, h'⟩)
          · exact Or.inl h
        have hval : (unit1 (b0 :: t)).inv = false := by
          cases hv : (unit1 (b0 :: t)).inv with
          | false => rfl
          | true => exact absurd ((unit1_inv b0 t).mp hv) hinv
        simp only [hc, Bool.false_eq_true, if_false]
        by_cases hcl : acc.length + 1 > cl
        · simp only [hcl, if_true]
          refine ⟨[], ?_⟩
          simp only [List.map_nil, List.append_nil, List.nil_append, ulen, List.sum_nil, List.drop_zero, Nat.zero_le,
            Nat.add_zero, List.length_nil, ne_eq, not_true_eq_false, false_implies, true_and, h1, h2]
          exact ⟨Or.inl (by omega), ⟨k0, h6⟩, by simp⟩
        · simp only [hcl, if_false]
          have hfb : rd.fill.buf = b0 :: (brest ++ x) := by rw [h5, hb]; rfl
          have hsz := decodeRune_sz b0 (brest ++ x)
          rw [← hfb, hd] at hsz
          have hcons : bytesOf (rd.fill.consume (decodeRune (b0 :: t)).2) = (b0 :: t).drop (unit1 (b0 :: t)).sz := by
            rw [bytesOf_consume _ _ hsz.2.1, h1, hbytes, hlk.2]
          obtain ⟨us, g1, g2, g3, g4, g5, g6, g7, g8, ⟨k1, g9⟩, g10⟩ :=
            ih (rd.fill.consume (decodeRune rd.fill.buf).2) (acc ++ [(decodeRune rd.fill.buf).1])
          rw [hd] at g1 g2 g3 g4 g6 g7 g8 g9 ⊢
          rw [hcons] at g2 g3 g4
          refine ⟨unit1 (b0 :: t) :: us, ?_, ?_, ?_, ?_, ?_, ?_, ?_, ?_, ?_, ?_⟩
          · rw [g1, ← unit1_raw_valid b0 t hval]; simp
          · rw [hbytes, units_cons, g2]; rfl
          · rw [g3, hbytes]
            simp only [ulen, List.map_cons, List.sum_cons]
            rw [List.drop_drop]
          · simp only [ulen, List.map_cons, List.sum_cons, hbytes] at g4 ⊢
            simp only [List.length_drop] at g4
            simp only [List.length_cons] at g4 ⊢
            omega
          · simp only [ulen, List.map_cons, List.sum_cons, List.length_cons] at g5 ⊢
            omega
          · rw [g6]
            simp only [Rd.consume, h2, ulen, List.map_cons, List.sum_cons, hlk.2]
            omega
          · intro _
            by_cases hne : us = []
            · subst hne; simp only [List.length_cons, List.length_nil]; omega
            · have := g7 hne
              simp only [List.length_append, List.length_cons, List.length_nil] at this ⊢
              omega
          · simp only [List.length_append, List.length_cons, List.length_nil] at g8 ⊢
            rcases g8 with h | h | h | h
            · exact Or.inl (by omega)
            · exact Or.inr (Or.inl h)
            · exact Or.inr (Or.inr (Or.inl (by omega)))
            · exact Or.inr (Or.inr (Or.inr h))
          · refine ⟨k0 + k1, ?_⟩
            rw [g9]
            simp only [Rd.consume, h6, List.drop_drop]
          · intro u hu
            rcases List.mem_cons.mp hu with rfl | hu
            · exact hval
            · exact g10 u hu

end VaxisModel.Lemmas.ParserTextU
