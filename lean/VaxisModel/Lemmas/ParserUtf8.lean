/-
C02: lemmas about the UTF-8 model (`ParserIO.decodeRune`/`fullRune` = Go's `utf8.DecodeRune` /
`utf8.FullRune`; `ParserUtf8.encodeRune`, `units`, `decodeRunes`).
-/
import VaxisModel.Model.ParserUtf8

namespace VaxisModel.Lemmas.ParserUtf8
open VaxisModel.Model.Parser VaxisModel.Model.ParserIO VaxisModel.Model.ParserUtf8

theorem lead_some {b sz lo hi : Nat} (h : lead b = some (sz, lo, hi)) :
    (sz = 2 ∨ sz = 3 ∨ sz = 4) ∧ 0x80 ≤ lo ∧ hi ≤ 0xBF ∧ lo ≤ hi ∧ 0xC2 ≤ b ∧ b ≤ 0xF4 := by
  unfold lead at h
  by_cases h1 : 0xC2 ≤ b ∧ b ≤ 0xDF
  · rw [if_pos h1] at h; cases h; omega
  rw [if_neg h1] at h
  by_cases h2 : b = 0xE0
  · rw [if_pos h2] at h; cases h; omega
  rw [if_neg h2] at h
  by_cases h3 : 0xE1 ≤ b ∧ b ≤ 0xEC
  · rw [if_pos h3] at h; cases h; omega
  rw [if_neg h3] at h
  by_cases h4 : b = 0xED
  · rw [if_pos h4] at h; cases h; omega
  rw [if_neg h4] at h
  by_cases h5 : 0xEE ≤ b ∧ b ≤ 0xEF
  · rw [if_pos h5] at h; cases h; omega
  rw [if_neg h5] at h
  by_cases h6 : b = 0xF0
  · rw [if_pos h6] at h; cases h; omega
  rw [if_neg h6] at h
  by_cases h7 : 0xF1 ≤ b ∧ b ≤ 0xF3
  · rw [if_pos h7] at h; cases h; omega
  rw [if_neg h7] at h
  by_cases h8 : b = 0xF4
  · rw [if_pos h8] at h; cases h; omega
  rw [if_neg h8] at h
  cases h

/-- `utf8.DecodeRune` consumes at least one and at most all bytes of a non-empty buffer. -/
theorem decodeRune_sz (b : Nat) (t : List Nat) :
    1 ≤ (decodeRune (b :: t)).2 ∧ (decodeRune (b :: t)).2 ≤ (b :: t).length ∧ (decodeRune (b :: t)).2 ≤ 4 := by
  simp only [decodeRune]
  split
  · simp
  · cases hl : lead b with
    | none => simp
    | some x =>
      obtain ⟨sz, lo, hi⟩ := x
      have := lead_some hl
      dsimp only
      repeat' split
      all_goals (simp only [List.length_cons, List.length_nil] at *; omega)


/-- bufio's fill loop stops when `utf8.FullRune` holds (or 4 bytes are buffered): from then on
    `utf8.DecodeRune` does not depend on what follows. -/
theorem decodeRune_stable (p q : List Nat) (h : fullRune p = true ∨ 4 ≤ p.length) :
    decodeRune (p ++ q) = decodeRune p := by
  rcases p with _ | ⟨b0, _ | ⟨b1, _ | ⟨b2, _ | ⟨b3, p⟩⟩⟩⟩
  · simp [fullRune] at h
  all_goals
    simp only [List.cons_append, List.nil_append, decodeRune, fullRune, List.length_cons, List.length_nil] at h ⊢
    by_cases h0 : b0 < 0x80
    · simp only [h0, if_true]
    simp only [h0, if_false] at h ⊢
    cases hl : lead b0 with
    | none => rfl
    | some x =>
      obtain ⟨sz, lo, hi⟩ := x
      have hs := lead_some hl
      simp only [hl] at h ⊢
      repeat' split
      all_goals (first | rfl | (simp_all; done) | (simp_all; omega) | omega)


/-! ### units -/

theorem unit1_sz (b : Nat) (t : List Nat) :
    1 ≤ (unit1 (b :: t)).sz ∧ (unit1 (b :: t)).sz ≤ t.length + 1 ∧ (unit1 (b :: t)).sz ≤ 4 := by
  have := decodeRune_sz b t
  unfold unit1
  split
  · simp
  · simpa using this

/-- `look` is what `utf8.DecodeRune` returns, `sz` the size it returns. -/
theorem unit1_look (b : Nat) (t : List Nat) :
    (unit1 (b :: t)).look = (decodeRune (b :: t)).1 ∧ (unit1 (b :: t)).sz = (decodeRune (b :: t)).2 := by
  unfold unit1 U.look
  split
  · rename_i h; simp [h.1, h.2]
  · simp

theorem unitsF_fuel (f g : Nat) (bs : List Nat) (hf : bs.length ≤ f) (hg : bs.length ≤ g) :
    unitsF f bs = unitsF g bs := by
  induction f generalizing g bs with
  | zero =>
    have : bs = [] := List.eq_nil_of_length_eq_zero (by omega)
    subst this
    cases g <;> rfl
  | succ f ih =>
    cases bs with
    | nil => cases g <;> rfl
    | cons b t =>
      cases g with
      | zero => simp at hg
      | succ g =>
        simp only [unitsF]
        have hs := unit1_sz b t
        have hl : ((b :: t).drop (unit1 (b :: t)).sz).length ≤ t.length := by
          simp only [List.length_drop, List.length_cons]; omega
        simp only [List.length_cons] at hf hg
        rw [ih g _ (by omega) (by omega)]

@[simp] theorem units_nil : units [] = [] := rfl

theorem units_cons (b : Nat) (t : List Nat) :
    units (b :: t) = unit1 (b :: t) :: units ((b :: t).drop (unit1 (b :: t)).sz) := by
  have hs := unit1_sz b t
  show unitsF (t.length + 1) (b :: t) = _
  simp only [unitsF, units]
  congr 1
  apply unitsF_fuel
  · simp only [List.length_drop, List.length_cons]; omega
  · exact Nat.le_refl _

theorem units_eq_nil (bs : List Nat) : units bs = [] ↔ bs = [] := by
  cases bs with
  | nil => simp
  | cons b t => simp [units_cons]


/-! ### encode / decode -/

theorem decodeRune_wf2 (b0 b1 : Nat) (rest : List Nat) (lo hi : Nat) (hl : lead b0 = some (2, lo, hi))
    (h1 : lo ≤ b1 ∧ b1 ≤ hi) : decodeRune (b0 :: b1 :: rest) = ((b0 % 32) * 64 + b1 % 64, 2) := by
  have hs := lead_some hl
  have h0 : ¬ b0 < 0x80 := by omega
  have h3 : ¬ (b1 < lo ∨ hi < b1) := by omega
  simp [decodeRune, h0, hl, h3]

theorem decodeRune_wf3 (b0 b1 b2 : Nat) (rest : List Nat) (lo hi : Nat) (hl : lead b0 = some (3, lo, hi))
    (h1 : lo ≤ b1 ∧ b1 ≤ hi) (h2 : isCont b2 = true) :
    decodeRune (b0 :: b1 :: b2 :: rest) = ((b0 % 16) * 4096 + (b1 % 64) * 64 + b2 % 64, 3) := by
  have hs := lead_some hl
  have h0 : ¬ b0 < 0x80 := by omega
  have h3 : ¬ (b1 < lo ∨ hi < b1) := by omega
  simp [decodeRune, h0, hl, h3, h2]

theorem decodeRune_wf4 (b0 b1 b2 b3 : Nat) (rest : List Nat) (lo hi : Nat) (hl : lead b0 = some (4, lo, hi))
    (h1 : lo ≤ b1 ∧ b1 ≤ hi) (h2 : isCont b2 = true) (h3 : isCont b3 = true) :
    decodeRune (b0 :: b1 :: b2 :: b3 :: rest) =
      ((b0 % 8) * 262144 + (b1 % 64) * 4096 + (b2 % 64) * 64 + b3 % 64, 4) := by
  have hs := lead_some hl
  have h0 : ¬ b0 < 0x80 := by omega
  have h4 : ¬ (b1 < lo ∨ hi < b1) := by omega
  simp [decodeRune, h0, hl, h4, h2, h3]

theorem isCont_iff (b : Nat) : isCont b = true ↔ 0x80 ≤ b ∧ b ≤ 0xBF := by simp [isCont]

/-- **decode ∘ encode**: `utf8.DecodeRune` on the encoding of a scalar value, whatever follows. -/
theorem decodeRune_encode (r : Nat) (hr : IsScalar r) (rest : List Nat) :
    decodeRune (encodeRune r ++ rest) = (r, (encodeRune r).length) := by
  unfold IsScalar at hr
  unfold encodeRune
  by_cases c1 : r < 0x80
  · simp [c1, decodeRune]
  by_cases c2 : r < 0x800
  · simp only [c1, c2, if_true, if_false, List.cons_append, List.nil_append, List.length_cons, List.length_nil]
    have hl : lead (0xC0 + r / 64) = some (2, 0x80, 0xBF) := by
      have : 0xC2 ≤ 0xC0 + r / 64 ∧ 0xC0 + r / 64 ≤ 0xDF := by omega
      simp [lead, this]
    rw [decodeRune_wf2 _ _ _ _ _ hl (by omega)]
    congr 1; omega
  by_cases c3 : r < 0x10000
  · simp only [c1, c2, c3, if_true, if_false, List.cons_append, List.nil_append, List.length_cons, List.length_nil]
    have hc2 : isCont (0x80 + r % 64) = true := (isCont_iff _).mpr (by omega)
    have hval : (0xE0 + r / 4096) % 16 * 4096 + (0x80 + r / 64 % 64) % 64 * 64 + (0x80 + r % 64) % 64 = r := by omega
    by_cases d0 : r / 4096 = 0
    · have hl : lead (0xE0 + r / 4096) = some (3, 0xA0, 0xBF) := by simp [lead, d0]
      rw [decodeRune_wf3 _ _ _ _ _ _ hl (by omega) hc2, hval]
    by_cases d1 : r / 4096 ≤ 12
    · have hl : lead (0xE0 + r / 4096) = some (3, 0x80, 0xBF) := by
        have h1 : ¬ (0xC2 ≤ 0xE0 + r / 4096 ∧ 0xE0 + r / 4096 ≤ 0xDF) := by omega
        have h2 : ¬ (0xE0 + r / 4096 = 0xE0) := by omega
        have h3 : 0xE1 ≤ 0xE0 + r / 4096 ∧ 0xE0 + r / 4096 ≤ 0xEC := by omega
        simp only [lead, h1, h2, h3, if_false, and_self, if_true]
      rw [decodeRune_wf3 _ _ _ _ _ _ hl (by omega) hc2, hval]
    by_cases d2 : r / 4096 = 13
    · have hl : lead (0xE0 + r / 4096) = some (3, 0x80, 0x9F) := by simp [lead, d2]
      rw [decodeRune_wf3 _ _ _ _ _ _ hl (by omega) hc2, hval]
    · have hl : lead (0xE0 + r / 4096) = some (3, 0x80, 0xBF) := by
        have h1 : ¬ (0xC2 ≤ 0xE0 + r / 4096 ∧ 0xE0 + r / 4096 ≤ 0xDF) := by omega
        have h2 : ¬ (0xE0 + r / 4096 = 0xE0) := by omega
        have h3 : ¬ (0xE1 ≤ 0xE0 + r / 4096 ∧ 0xE0 + r / 4096 ≤ 0xEC) := by omega
        have h4 : ¬ (0xE0 + r / 4096 = 0xED) := by omega
        have h5 : 0xEE ≤ 0xE0 + r / 4096 ∧ 0xE0 + r / 4096 ≤ 0xEF := by omega
        simp only [lead, h1, h2, h3, h4, h5, if_false, and_self, if_true]
      rw [decodeRune_wf3 _ _ _ _ _ _ hl (by omega) hc2, hval]
  · simp only [c1, c2, c3, if_false, List.cons_append, List.nil_append, List.length_cons, List.length_nil]
    have hc2 : isCont (0x80 + r / 64 % 64) = true := (isCont_iff _).mpr (by omega)
    have hc3 : isCont (0x80 + r % 64) = true := (isCont_iff _).mpr (by omega)
    have hval : (0xF0 + r / 262144) % 8 * 262144 + (0x80 + r / 4096 % 64) % 64 * 4096 +
        (0x80 + r / 64 % 64) % 64 * 64 + (0x80 + r % 64) % 64 = r := by omega
    by_cases d0 : r / 262144 = 0
    · have hl : lead (0xF0 + r / 262144) = some (4, 0x90, 0xBF) := by simp [lead, d0]
      rw [decodeRune_wf4 _ _ _ _ _ _ _ hl (by omega) hc2 hc3, hval]
    by_cases d1 : r / 262144 ≤ 3
    · have hl : lead (0xF0 + r / 262144) = some (4, 0x80, 0xBF) := by
        have h1 : ¬ (0xC2 ≤ 0xF0 + r / 262144 ∧ 0xF0 + r / 262144 ≤ 0xDF) := by omega
        have h2 : ¬ (0xF0 + r / 262144 = 0xE0) := by omega
        have h3 : ¬ (0xE1 ≤ 0xF0 + r / 262144 ∧ 0xF0 + r / 262144 ≤ 0xEC) := by omega
        have h4 : ¬ (0xF0 + r / 262144 = 0xED) := by omega
        have h5 : ¬ (0xEE ≤ 0xF0 + r / 262144 ∧ 0xF0 + r / 262144 ≤ 0xEF) := by omega
        have h6 : ¬ (0xF0 + r / 262144 = 0xF0) := by omega
        have h7 : 0xF1 ≤ 0xF0 + r / 262144 ∧ 0xF0 + r / 262144 ≤ 0xF3 := by omega
        simp only [lead, h1, h2, h3, h4, h5, h6, h7, if_false, and_self, if_true]
      rw [decodeRune_wf4 _ _ _ _ _ _ _ hl (by omega) hc2 hc3, hval]
    · have d2 : r / 262144 = 4 := by omega
      have hl : lead (0xF0 + r / 262144) = some (4, 0x80, 0x8F) := by simp [lead, d2]
      rw [decodeRune_wf4 _ _ _ _ _ _ _ hl (by omega) hc2 hc3, hval]


theorem lead_char {b sz lo hi : Nat} (h : lead b = some (sz, lo, hi)) :
    (0xC2 ≤ b ∧ b ≤ 0xDF ∧ sz = 2 ∧ lo = 0x80 ∧ hi = 0xBF) ∨ (b = 0xE0 ∧ sz = 3 ∧ lo = 0xA0 ∧ hi = 0xBF) ∨
    (0xE1 ≤ b ∧ b ≤ 0xEC ∧ sz = 3 ∧ lo = 0x80 ∧ hi = 0xBF) ∨ (b = 0xED ∧ sz = 3 ∧ lo = 0x80 ∧ hi = 0x9F) ∨
    (0xEE ≤ b ∧ b ≤ 0xEF ∧ sz = 3 ∧ lo = 0x80 ∧ hi = 0xBF) ∨ (b = 0xF0 ∧ sz = 4 ∧ lo = 0x90 ∧ hi = 0xBF) ∨
    (0xF1 ≤ b ∧ b ≤ 0xF3 ∧ sz = 4 ∧ lo = 0x80 ∧ hi = 0xBF) ∨ (b = 0xF4 ∧ sz = 4 ∧ lo = 0x80 ∧ hi = 0x8F) := by
  unfold lead at h
  by_cases h1 : 0xC2 ≤ b ∧ b ≤ 0xDF
  · rw [if_pos h1] at h; cases h; omega
  rw [if_neg h1] at h
  by_cases h2 : b = 0xE0
  · rw [if_pos h2] at h; cases h; omega
  rw [if_neg h2] at h
  by_cases h3 : 0xE1 ≤ b ∧ b ≤ 0xEC
  · rw [if_pos h3] at h; cases h; omega
  rw [if_neg h3] at h
  by_cases h4 : b = 0xED
  · rw [if_pos h4] at h; cases h; omega
  rw [if_neg h4] at h
  by_cases h5 : 0xEE ≤ b ∧ b ≤ 0xEF
  · rw [if_pos h5] at h; cases h; omega
  rw [if_neg h5] at h
  by_cases h6 : b = 0xF0
  · rw [if_pos h6] at h; cases h; omega
  rw [if_neg h6] at h
  by_cases h7 : 0xF1 ≤ b ∧ b ≤ 0xF3
  · rw [if_pos h7] at h; cases h; omega
  rw [if_neg h7] at h
  by_cases h8 : b = 0xF4
  · rw [if_pos h8] at h; cases h; omega
  rw [if_neg h8] at h
  cases h

/-- **encode ∘ decode**: whenever `utf8.DecodeRune` does not report an invalid byte, the rune is a
    scalar value and the bytes consumed are exactly its encoding (no overlong form, no surrogate,
    nothing above U+10FFFF, no truncated sequence is ever accepted). -/
theorem decodeRune_valid (b : Nat) (t : List Nat)
    (h : ¬((decodeRune (b :: t)).1 = runeError ∧ (decodeRune (b :: t)).2 = 1)) :
    IsScalar (decodeRune (b :: t)).1 ∧
    encodeRune (decodeRune (b :: t)).1 = (b :: t).take (decodeRune (b :: t)).2 := by
  simp only [decodeRune] at h ⊢
  by_cases h0 : b < 0x80
  · simp only [h0, if_true, IsScalar, encodeRune, List.take_succ_cons, List.take_zero]
    exact ⟨by omega, trivial⟩
  simp only [h0, if_false] at h ⊢
  cases hl : lead b with
  | none => simp [hl] at h
  | some x =>
    obtain ⟨sz, lo, hi⟩ := x
    have hc := lead_char hl
    simp only [hl] at h ⊢
    revert h
    repeat' split
    all_goals intro h
    all_goals first
      | (exact absurd ⟨rfl, rfl⟩ h)
      | (simp only [isCont, Bool.not_eq_eq_eq_not, Bool.not_true, Bool.and_eq_false_iff, decide_eq_false_iff_not,
           List.length_cons, not_or, Nat.not_lt] at *
         refine ⟨by unfold IsScalar; omega, ?_⟩
         unfold encodeRune
         repeat' split
         all_goals first
           | omega
           | (simp only [List.take_succ_cons, List.take_zero, List.cons.injEq, and_true]; omega))


theorem encodeRune_length (r : Nat) : 1 ≤ (encodeRune r).length ∧ ((encodeRune r).length = 1 → r < 0x80) := by
  unfold encodeRune
  repeat' split
  all_goals simp
  all_goals omega

theorem unit1_encode (r : Nat) (hr : IsScalar r) (rest : List Nat) :
    unit1 (encodeRune r ++ rest) = ⟨r, false, (encodeRune r).length⟩ := by
  have hd := decodeRune_encode r hr rest
  have hl := encodeRune_length r
  unfold unit1
  rw [hd]
  have : ¬ (r = runeError ∧ (encodeRune r).length = 1) := by
    intro ⟨h1, h2⟩
    have := hl.2 h2
    simp only [runeError] at h1
    omega
  simp only [this, if_false]

/-- The units of `encoding of a scalar ++ rest`: that scalar, then the units of the rest. -/
theorem units_encode (r : Nat) (hr : IsScalar r) (rest : List Nat) :
    units (encodeRune r ++ rest) = ⟨r, false, (encodeRune r).length⟩ :: units rest := by
  have hl := encodeRune_length r
  cases he : encodeRune r with
  | nil => rw [he] at hl; simp at hl
  | cons b t =>
    have hu := unit1_encode r hr rest
    rw [he] at hu
    simp only [List.cons_append] at hu ⊢
    rw [units_cons, hu]
    simp only [he, List.length_cons]
    congr 1
    have : (b :: (t ++ rest)) = (b :: t) ++ rest := rfl
    rw [this, List.drop_append_of_le_length (by simp)]
    simp

/-- A byte at which no well-formed sequence starts is one unit: itself. -/
theorem units_invalid (b : Nat) (t : List Nat)
    (h : (decodeRune (b :: t)).1 = runeError ∧ (decodeRune (b :: t)).2 = 1) :
    units (b :: t) = ⟨b, true, 1⟩ :: units t := by
  rw [units_cons]
  have : unit1 (b :: t) = ⟨b, true, 1⟩ := by simp [unit1, h]
  rw [this]
  rfl

/-- A unit is invalid exactly when no encoding of a scalar value is a prefix of the stream there. -/
theorem unit1_inv_iff (b : Nat) (t : List Nat) :
    (unit1 (b :: t)).inv = true ↔ ∀ r, IsScalar r → ¬ (encodeRune r <+: b :: t) := by
  constructor
  · intro hinv r hr ⟨rest, hp⟩
    have := unit1_encode r hr rest
    rw [hp] at this
    rw [this] at hinv
    cases hinv
  · intro h
    by_cases hv : (decodeRune (b :: t)).1 = runeError ∧ (decodeRune (b :: t)).2 = 1
    · simp [unit1, hv]
    · exfalso
      obtain ⟨h1, h2⟩ := decodeRune_valid b t hv
      exact h _ h1 ⟨(b :: t).drop (decodeRune (b :: t)).2, by rw [h2]; exact List.take_append_drop _ _⟩

/-- A valid unit is a scalar value and its bytes are its encoding; an invalid one is one byte. -/
theorem unit1_bytes (b : Nat) (t : List Nat) :
    (unit1 (b :: t)).bytes = (b :: t).take (unit1 (b :: t)).sz ∧
    ((unit1 (b :: t)).inv = false → IsScalar (unit1 (b :: t)).raw) := by
  by_cases hv : (decodeRune (b :: t)).1 = runeError ∧ (decodeRune (b :: t)).2 = 1
  · have : unit1 (b :: t) = ⟨b, true, 1⟩ := by simp [unit1, hv]
    rw [this]
    simp [U.bytes]
  · obtain ⟨h1, h2⟩ := decodeRune_valid b t hv
    have : unit1 (b :: t) = ⟨(decodeRune (b :: t)).1, false, (decodeRune (b :: t)).2⟩ := by
      simp only [unit1, hv, if_false]
    rw [this]
    exact ⟨by simpa [U.bytes] using h2, fun _ => h1⟩

/-- **Nothing lost at the byte level**: the bytes of the units, concatenated, are the stream; every
    valid unit is a scalar value. -/
theorem units_bytes (bs : List Nat) :
    (units bs).flatMap U.bytes = bs ∧ ∀ u ∈ units bs, u.inv = false → IsScalar u.raw := by
  induction hn : bs.length using Nat.strongRecOn generalizing bs with
  | _ n ih =>
    cases bs with
    | nil => simp
    | cons b t =>
      have hs := unit1_sz b t
      have hb := unit1_bytes b t
      rw [units_cons]
      have hlen : ((b :: t).drop (unit1 (b :: t)).sz).length < n := by
        rw [← hn]; simp only [List.length_drop, List.length_cons]; omega
      obtain ⟨i1, i2⟩ := ih _ hlen _ rfl
      refine ⟨?_, ?_⟩
      · simp only [List.flatMap_cons, i1, hb.1]
        exact List.take_append_drop _ _
      · intro u hu
        rcases List.mem_cons.mp hu with rfl | hu
        · exact hb.2
        · exact i2 u hu

/-! ### `decodeRunes` -/

@[simp] theorem decodeRunes_nil : decodeRunes [] = [] := rfl

/-- **decode (encode r ++ rest) = r :: decode rest** for every scalar value. -/
theorem decodeRunes_encode (r : Nat) (hr : IsScalar r) (rest : List Nat) :
    decodeRunes (encodeRune r ++ rest) = r :: decodeRunes rest := by
  simp [decodeRunes, units_encode r hr rest]

/-- An invalid byte is delivered as itself. -/
theorem decodeRunes_invalid (b : Nat) (t : List Nat) (h : ∀ r, IsScalar r → ¬ (encodeRune r <+: b :: t)) :
    decodeRunes (b :: t) = b :: decodeRunes t := by
  have hinv := (unit1_inv_iff b t).mpr h
  have hv : (decodeRune (b :: t)).1 = runeError ∧ (decodeRune (b :: t)).2 = 1 := by
    by_cases hv : (decodeRune (b :: t)).1 = runeError ∧ (decodeRune (b :: t)).2 = 1
    · exact hv
    · simp [unit1, hv] at hinv
  simp [decodeRunes, units_invalid b t hv]

/-- The encoding of a list of scalar values decodes to that list. -/
theorem decodeRunes_encodeAll (rs : List Nat) (h : ∀ r ∈ rs, IsScalar r) :
    decodeRunes (rs.flatMap encodeRune) = rs := by
  induction rs with
  | nil => rfl
  | cons r rs ih =>
    simp only [List.flatMap_cons]
    rw [decodeRunes_encode r (h r (by simp)), ih (fun r' hr' => h r' (by simp [hr']))]

end VaxisModel.Lemmas.ParserUtf8
