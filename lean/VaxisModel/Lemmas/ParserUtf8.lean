/-
C02: lemmas about the UTF-8 model (`ParserIO.decodeRune`/`fullRune` = Go's `utf8.DecodeRune` /
`utf8.FullRune`; `ParserUtf8.encodeRune`, `units`, `decodeRunes`).
-/
import VaxisModel.Model.ParserUtf8

namespace VaxisModel.Lemmas.ParserUtf8
open VaxisModel.Model.Parser VaxisModel.Model.ParserIO VaxisModel.Model.ParserUtf8

theorem lead_some {b sz lo hi : Nat} (h : lead b = some (sz, lo, hi)) :
    (sz = 2 ∨ sz = 3 ∨ sz = 4) ∧ 0x80 ≤ lo ∧ hi ≤ 0xBF ∧ lo ≤ hi ∧ 0xC2 ≤ b ∧ b ≤ 0xF4 := by
  unfold lead at h
  by_cases h1 : 0xC2 ≤ b ∧ b ≤ 0xDF
  · rw [if_pos h1] at h; cases h; omega
  rw [if_neg h1] at h
  by_cases h2 : b = 0xE0
  · rw [if_pos h2] at h; cases h; omega
  rw [if_neg h2] at h
  by_cases h3 : 0xE1 ≤ b ∧ b ≤ 0xEC
  · rw [if_pos h3] at h; cases h; omega
  rw [if_neg h3] at h
  by_cases h4 : b = 0xED
  · rw [if_pos h4] at h; cases h; omega
  rw [if_neg h4] at h
  by_cases h5 : 0xEE ≤ b ∧ b ≤ 0xEF
  · rw [if_pos h5] at h; cases h; omega
  rw [if_neg h5] at h
  by_cases h6 : b = 0xF0
  · rw [if_pos h6] at h; cases h; omega
  rw [if_neg h6] at h
  by_cases h7 : 0xF1 ≤ b ∧ b ≤ 0xF3
  · rw [if_pos h7] at h; cases h; omega
  rw [if_neg h7] at h
  by_cases h8 : b = 0xF4
  · rw [if_pos h8] at h; cases h; omega
  rw [if_neg h8] at h
  cases h

/-- `utf8.DecodeRune` consumes at least one and at most all bytes of a non-empty buffer. -/
theorem decodeRune_sz (b : Nat) (t : List Nat) :
    1 ≤ (decodeRune (b :: t)).2 ∧ (decodeRune (b :: t)).2 ≤ (b :: t).length ∧ (decodeRune (b :: t)).2 ≤ 4 := by
  simp only [decodeRune]
  split
  · simp
  · cases hl : lead b with
    | none => simp
    | some x =>
      obtain ⟨sz, lo, hi⟩ := x
      have := lead_some hl
      dsimp only
      repeat' split
      all_goals (simp only [List.length_cons, List.length_nil] at *; omega)


/-- bufio's fill loop stops when `utf8.FullRune` holds (or 4 bytes are buffered): from then on
    `utf8.DecodeRune` does not depend on what follows. -/
theorem decodeRune_stable (p q : List Nat) (h : fullRune p = true ∨ 4 ≤ p.length) :
    decodeRune (p ++ q) = decodeRune p := by
  rcases p with _ | ⟨b0, _ | ⟨b1, _ | ⟨b2, _ | ⟨b3, p⟩⟩⟩⟩
  · simp [fullRune] at h
  all_goals
    simp only [List.cons_append, List.nil_append, decodeRune, fullRune, List.length_cons, List.length_nil] at h ⊢
    by_cases h0 : b0 < 0x80
    · simp only [h0, if_true]
    simp only [h0, if_false] at h ⊢
    cases hl : lead b0 with
    | none => rfl
    | some x =>
      obtain ⟨sz, lo, hi⟩ := x
      have hs := lead_some hl
      simp only [hl] at h ⊢
      repeat' split
      all_goals (first | rfl | (simp_all; done) | (simp_all; omega) | omega)


/-! ### units -/

theorem unit1_sz (b : Nat) (t : List Nat) :
    1 ≤ (unit1 (b :: t)).sz ∧ (unit1 (b :: t)).sz ≤ t.length + 1 ∧ (unit1 (b :: t)).sz ≤ 4 := by
  have := decodeRune_sz b t
  unfold unit1
  split
  · simp
  · simpa using this

/-- `look` is what `utf8.DecodeRune` returns, `sz` the size it returns. -/
theorem unit1_look (b : Nat) (t : List Nat) :
    (unit1 (b :: t)).look = (decodeRune (b :: t)).1 ∧ (unit1 (b :: t)).sz = (decodeRune (b :: t)).2 := by
  unfold unit1 U.look
  split
  · rename_i h; simp [h.1, h.2]
  · simp

theorem unitsF_fuel (f g : Nat) (bs : List Nat) (hf : bs.length ≤ f) (hg : bs.length ≤ g) :
    unitsF f bs = unitsF g bs := by
  induction f generalizing g bs with
  | zero =>
    have : bs = [] := List.eq_nil_of_length_eq_zero (by omega)
    subst this
    cases g <;> rfl
  | succ f ih =>
    cases bs with
    | nil => cases g <;> rfl
    | cons b t =>
      cases g with
      | zero => simp at hg
      | succ g =>
        simp only [unitsF]
        have hs := unit1_sz b t
        have hl : ((b :: t).drop (unit1 (b :: t)).sz).length ≤ t.length := by
          simp only [List.length_drop, List.length_cons]; omega
        simp only [List.length_cons] at hf hg
        rw [ih g _ (by omega) (by omega)]

@[simp] theorem units_nil : units [] = [] := rfl

theorem units_cons (b : Nat) (t : List Nat) :
    units (b :: t) = unit1 (b :: t) :: units ((b :: t).drop (unit1 (b :: t)).sz) := by
  have hs := unit1_sz b t
  show unitsF (t.length + 1) (b :: t) = _
  simp only [unitsF, units]
  congr 1
  apply unitsF_fuel
  · simp only [List.length_drop, List.length_cons]; omega
  · exact Nat.le_refl _

theorem units_eq_nil (bs : List Nat) : units bs = [] ↔ bs = [] := by
  cases bs with
  | nil => simp
  | cons b t => simp [units_cons]

end VaxisModel.Lemmas.ParserUtf8
