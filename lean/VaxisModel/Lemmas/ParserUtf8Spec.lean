/-
C02: the model's decoding of a byte stream (`utf8.DecodeRune` + `readRune`'s fallback:
`ParserUtf8.decodeRunes`) is the Spec's (`Spec.VT500.decode`, written from Table 3-7 of the Unicode
standard: well-formed sequences are scalars, every other byte is delivered raw).
-/
import VaxisModel.Lemmas.ParserUtf8
import VaxisModel.Spec.VT500

namespace VaxisModel.Lemmas.ParserUtf8Spec
open VaxisModel.Model.Parser VaxisModel.Model.ParserIO VaxisModel.Model.ParserUtf8 VaxisModel.Lemmas.ParserUtf8
open VaxisModel.Spec.VT500 (decode1 cont)

theorem cont_iff (b : Nat) : cont b = true ↔ 0x80 ≤ b ∧ b ≤ 0xBF := by simp [cont]

set_option maxRecDepth 8192 in
/-- The Spec's `decode1` on the encoding of a scalar value. -/
theorem decode1_encode (r : Nat) (hr : IsScalar r) (rest : List Nat) :
    decode1 (encodeRune r ++ rest) = (r, (encodeRune r).length) := by
  unfold IsScalar at hr
  unfold encodeRune
  by_cases c1 : r < 0x80
  · simp [c1, decode1]
  by_cases c2 : r < 0x800
  · simp only [c1, c2, if_true, if_false, List.cons_append, List.nil_append, List.length_cons, List.length_nil]
    have h0 : ¬ (0xC0 + r / 64 < 0x80) := by omega
    have hc : cont (0x80 + r % 64) = true := (cont_iff _).mpr (by omega)
    have h2 : 0xC2 ≤ 0xC0 + r / 64 ∧ 0xC0 + r / 64 ≤ 0xDF ∧ cont (0x80 + r % 64) = true := ⟨by omega, by omega, hc⟩
    simp only [decode1, h0, if_false, h2, and_self, if_true]
    congr 1; omega
  by_cases c3 : r < 0x10000
  · simp only [c1, c2, c3, if_true, if_false, List.cons_append, List.nil_append, List.length_cons, List.length_nil]
    have h0 : ¬ (0xE0 + r / 4096 < 0x80) := by omega
    have h2 : ¬ (0xC2 ≤ 0xE0 + r / 4096 ∧ 0xE0 + r / 4096 ≤ 0xDF ∧ cont (0x80 + r / 64 % 64) = true) := by
      rintro ⟨_, h, _⟩; omega
    have hc1 : cont (0x80 + r / 64 % 64) = true := (cont_iff _).mpr (by omega)
    have hc2 : cont (0x80 + r % 64) = true := (cont_iff _).mpr (by omega)
    have h3 : ((0xE0 + r / 4096 = 0xE0 ∧ 0xA0 ≤ 0x80 + r / 64 % 64 ∧ 0x80 + r / 64 % 64 ≤ 0xBF) ∨
        (0xE1 ≤ 0xE0 + r / 4096 ∧ 0xE0 + r / 4096 ≤ 0xEC ∧ cont (0x80 + r / 64 % 64) = true) ∨
        (0xE0 + r / 4096 = 0xED ∧ 0x80 ≤ 0x80 + r / 64 % 64 ∧ 0x80 + r / 64 % 64 ≤ 0x9F) ∨
        (0xEE ≤ 0xE0 + r / 4096 ∧ 0xE0 + r / 4096 ≤ 0xEF ∧ cont (0x80 + r / 64 % 64) = true)) ∧
        cont (0x80 + r % 64) = true := by
      refine ⟨?_, hc2⟩
      by_cases d0 : r / 4096 = 0
      · exact Or.inl ⟨by omega, by omega, by omega⟩
      by_cases d1 : r / 4096 ≤ 12
      · exact Or.inr (Or.inl ⟨by omega, by omega, hc1⟩)
      by_cases d2 : r / 4096 = 13
      · exact Or.inr (Or.inr (Or.inl ⟨by omega, by omega, by omega⟩))
      · exact Or.inr (Or.inr (Or.inr ⟨by omega, by omega, hc1⟩))
    simp only [decode1, h0, if_false, h2, h3, and_self, if_true]
    have e1 : r / 64 / 64 = r / 4096 := Nat.div_div_eq_div_mul r 64 64
    congr 1; omega
  · simp only [c1, c2, c3, if_false, List.cons_append, List.nil_append, List.length_cons, List.length_nil]
    have h0 : ¬ (0xF0 + r / 262144 < 0x80) := by omega
    have h2 : ¬ (0xC2 ≤ 0xF0 + r / 262144 ∧ 0xF0 + r / 262144 ≤ 0xDF ∧ cont (0x80 + r / 4096 % 64) = true) := by
      rintro ⟨_, h, _⟩; omega
    have hc1 : cont (0x80 + r / 4096 % 64) = true := (cont_iff _).mpr (by omega)
    have hc2 : cont (0x80 + r / 64 % 64) = true := (cont_iff _).mpr (by omega)
    have hc3 : cont (0x80 + r % 64) = true := (cont_iff _).mpr (by omega)
    have h3 : ¬ ((0xF0 + r / 262144 = 0xE0 ∧ 0xA0 ≤ 0x80 + r / 4096 % 64 ∧ 0x80 + r / 4096 % 64 ≤ 0xBF) ∨
        (0xE1 ≤ 0xF0 + r / 262144 ∧ 0xF0 + r / 262144 ≤ 0xEC ∧ cont (0x80 + r / 4096 % 64) = true) ∨
        (0xF0 + r / 262144 = 0xED ∧ 0x80 ≤ 0x80 + r / 4096 % 64 ∧ 0x80 + r / 4096 % 64 ≤ 0x9F) ∨
        (0xEE ≤ 0xF0 + r / 262144 ∧ 0xF0 + r / 262144 ≤ 0xEF ∧ cont (0x80 + r / 4096 % 64) = true)) := by
      rintro (⟨h, _, _⟩ | ⟨h, _, _⟩ | ⟨h, _, _⟩ | ⟨h, _, _⟩) <;> omega
    have h4 : ((0xF0 + r / 262144 = 0xF0 ∧ 0x90 ≤ 0x80 + r / 4096 % 64 ∧ 0x80 + r / 4096 % 64 ≤ 0xBF) ∨
        (0xF1 ≤ 0xF0 + r / 262144 ∧ 0xF0 + r / 262144 ≤ 0xF3 ∧ cont (0x80 + r / 4096 % 64) = true) ∨
        (0xF0 + r / 262144 = 0xF4 ∧ 0x80 ≤ 0x80 + r / 4096 % 64 ∧ 0x80 + r / 4096 % 64 ≤ 0x8F)) ∧
        cont (0x80 + r / 64 % 64) = true ∧ cont (0x80 + r % 64) = true := by
      refine ⟨?_, hc2, hc3⟩
      by_cases d0 : r / 262144 = 0
      · exact Or.inl ⟨by omega, by omega, by omega⟩
      by_cases d1 : r / 262144 ≤ 3
      · exact Or.inr (Or.inl ⟨by omega, by omega, hc1⟩)
      · exact Or.inr (Or.inr ⟨by omega, by omega, by omega⟩)
    simp only [decode1, h0, if_false, h2, h3, h4, and_self, false_and, if_true]
    have e1 : r / 64 / 64 = r / 4096 := Nat.div_div_eq_div_mul r 64 64
    have e2 : r / 4096 / 64 = r / 262144 := Nat.div_div_eq_div_mul r 4096 64
    congr 1; omega


theorem enc2 (b0 b1 : Nat) (h0 : 0xC2 ≤ b0 ∧ b0 ≤ 0xDF) (h1 : 0x80 ≤ b1 ∧ b1 ≤ 0xBF) :
    IsScalar ((b0 - 0xC0) * 64 + (b1 - 0x80)) ∧ encodeRune ((b0 - 0xC0) * 64 + (b1 - 0x80)) = [b0, b1] := by
  refine ⟨by unfold IsScalar; omega, ?_⟩
  unfold encodeRune
  rw [if_neg (by omega), if_pos (by omega)]
  simp only [List.cons.injEq, and_true]
  omega

theorem enc3 (b0 b1 b2 : Nat)
    (h : (b0 = 0xE0 ∧ 0xA0 ≤ b1 ∧ b1 ≤ 0xBF) ∨ (0xE1 ≤ b0 ∧ b0 ≤ 0xEC ∧ 0x80 ≤ b1 ∧ b1 ≤ 0xBF) ∨
         (b0 = 0xED ∧ 0x80 ≤ b1 ∧ b1 ≤ 0x9F) ∨ (0xEE ≤ b0 ∧ b0 ≤ 0xEF ∧ 0x80 ≤ b1 ∧ b1 ≤ 0xBF))
    (h2 : 0x80 ≤ b2 ∧ b2 ≤ 0xBF) :
    IsScalar ((b0 - 0xE0) * 4096 + (b1 - 0x80) * 64 + (b2 - 0x80)) ∧
    encodeRune ((b0 - 0xE0) * 4096 + (b1 - 0x80) * 64 + (b2 - 0x80)) = [b0, b1, b2] := by
  refine ⟨by unfold IsScalar; omega, ?_⟩
  unfold encodeRune
  rw [if_neg (by omega), if_neg (by omega), if_pos (by omega)]
  simp only [List.cons.injEq, and_true]
  omega

theorem enc4 (b0 b1 b2 b3 : Nat)
    (h : (b0 = 0xF0 ∧ 0x90 ≤ b1 ∧ b1 ≤ 0xBF) ∨ (0xF1 ≤ b0 ∧ b0 ≤ 0xF3 ∧ 0x80 ≤ b1 ∧ b1 ≤ 0xBF) ∨
         (b0 = 0xF4 ∧ 0x80 ≤ b1 ∧ b1 ≤ 0x8F))
    (h2 : 0x80 ≤ b2 ∧ b2 ≤ 0xBF) (h3 : 0x80 ≤ b3 ∧ b3 ≤ 0xBF) :
    IsScalar ((b0 - 0xF0) * 262144 + (b1 - 0x80) * 4096 + (b2 - 0x80) * 64 + (b3 - 0x80)) ∧
    encodeRune ((b0 - 0xF0) * 262144 + (b1 - 0x80) * 4096 + (b2 - 0x80) * 64 + (b3 - 0x80)) = [b0, b1, b2, b3] := by
  refine ⟨by unfold IsScalar; omega, ?_⟩
  unfold encodeRune
  rw [if_neg (by omega), if_neg (by omega), if_neg (by omega)]
  simp only [List.cons.injEq, and_true]
  omega


set_option maxRecDepth 8192 in
/-- The Spec's `decode1` either delivers the byte itself, or a scalar value whose encoding is
    exactly the bytes it consumed. -/
theorem decode1_valid (b : Nat) (t : List Nat) :
    decode1 (b :: t) = (b, 1) ∨
    (IsScalar (decode1 (b :: t)).1 ∧ encodeRune (decode1 (b :: t)).1 = (b :: t).take (decode1 (b :: t)).2) := by
  by_cases h0 : b < 0x80
  · left; simp [decode1, h0]
  rcases t with _ | ⟨b1, t1⟩
  · left; simp [decode1, h0]
  by_cases c2 : 0xC2 ≤ b ∧ b ≤ 0xDF ∧ cont b1 = true
  · right
    have := enc2 b b1 ⟨c2.1, c2.2.1⟩ ((cont_iff _).mp c2.2.2)
    simp only [decode1, h0, if_false, c2, and_self, if_true]
    exact ⟨this.1, by simpa using this.2⟩
  rcases t1 with _ | ⟨b2, t2⟩
  · left; simp only [decode1, h0, if_false, c2]
  by_cases c3 : ((b = 0xE0 ∧ 0xA0 ≤ b1 ∧ b1 ≤ 0xBF) ∨ (0xE1 ≤ b ∧ b ≤ 0xEC ∧ cont b1 = true) ∨
      (b = 0xED ∧ 0x80 ≤ b1 ∧ b1 ≤ 0x9F) ∨ (0xEE ≤ b ∧ b ≤ 0xEF ∧ cont b1 = true)) ∧ cont b2 = true
  · right
    have h3 : (b = 0xE0 ∧ 0xA0 ≤ b1 ∧ b1 ≤ 0xBF) ∨ (0xE1 ≤ b ∧ b ≤ 0xEC ∧ 0x80 ≤ b1 ∧ b1 ≤ 0xBF) ∨
        (b = 0xED ∧ 0x80 ≤ b1 ∧ b1 ≤ 0x9F) ∨ (0xEE ≤ b ∧ b ≤ 0xEF ∧ 0x80 ≤ b1 ∧ b1 ≤ 0xBF) := by
      rcases c3.1 with h | ⟨h1, h2, h3⟩ | h | ⟨h1, h2, h3⟩
      · exact Or.inl h
      · exact Or.inr (Or.inl ⟨h1, h2, (cont_iff _).mp h3⟩)
      · exact Or.inr (Or.inr (Or.inl h))
      · exact Or.inr (Or.inr (Or.inr ⟨h1, h2, (cont_iff _).mp h3⟩))
    have := enc3 b b1 b2 h3 ((cont_iff _).mp c3.2)
    simp only [decode1, h0, if_false, c2, c3, and_self, if_true]
    exact ⟨this.1, by simpa using this.2⟩
  rcases t2 with _ | ⟨b3, t3⟩
  · left; simp only [decode1, h0, if_false, c2, c3]
  by_cases c4 : ((b = 0xF0 ∧ 0x90 ≤ b1 ∧ b1 ≤ 0xBF) ∨ (0xF1 ≤ b ∧ b ≤ 0xF3 ∧ cont b1 = true) ∨
      (b = 0xF4 ∧ 0x80 ≤ b1 ∧ b1 ≤ 0x8F)) ∧ cont b2 = true ∧ cont b3 = true
  · right
    have h4 : (b = 0xF0 ∧ 0x90 ≤ b1 ∧ b1 ≤ 0xBF) ∨ (0xF1 ≤ b ∧ b ≤ 0xF3 ∧ 0x80 ≤ b1 ∧ b1 ≤ 0xBF) ∨
        (b = 0xF4 ∧ 0x80 ≤ b1 ∧ b1 ≤ 0x8F) := by
      rcases c4.1 with h | ⟨h1, h2, h3⟩ | h
      · exact Or.inl h
      · exact Or.inr (Or.inl ⟨h1, h2, (cont_iff _).mp h3⟩)
      · exact Or.inr (Or.inr h)
    have := enc4 b b1 b2 b3 h4 ((cont_iff _).mp c4.2.1) ((cont_iff _).mp c4.2.2)
    have c3' : ¬ ((b = 0xE0 ∧ 0xA0 ≤ b1 ∧ b1 ≤ 0xBF) ∨ (0xE1 ≤ b ∧ b ≤ 0xEC ∧ cont b1 = true) ∨
        (b = 0xED ∧ 0x80 ≤ b1 ∧ b1 ≤ 0x9F) ∨ (0xEE ≤ b ∧ b ≤ 0xEF ∧ cont b1 = true)) := fun h => c3 ⟨h, c4.2.1⟩
    simp only [decode1, h0, if_false, c2, c3', c4, and_self, false_and, if_true]
    exact ⟨this.1, by simpa using this.2⟩
  · left; simp only [decode1, h0, if_false, c2, c3, c4]


theorem scalar_lt_mark (r : Nat) (h : IsScalar r) : r < 0x1000000 := by unfold IsScalar at h; omega

theorem unmark_mark (r : Nat) : Spec.VT500.unmark (Spec.VT500.invalidMark + r) = r := by
  unfold Spec.VT500.unmark Spec.VT500.invalidMark
  split <;> omega

theorem unmark_small (r : Nat) (h : r < 0x1000000) : Spec.VT500.unmark r = r := by
  unfold Spec.VT500.unmark Spec.VT500.invalidMark
  split <;> omega

/-- The Spec's `decode1` is the model's first unit: the same rune (raw byte for an invalid one), the
    same size; and the Spec's "invalid" test (`c ≥ 0x80 ∧ n = 1`) is the model's. -/
theorem decode1_unit1 (b : Nat) (t : List Nat) :
    decode1 (b :: t) = ((unit1 (b :: t)).raw, (unit1 (b :: t)).sz) ∧
    ((unit1 (b :: t)).inv = true ↔ (0x80 ≤ (unit1 (b :: t)).raw ∧ (unit1 (b :: t)).sz = 1)) ∧
    ((unit1 (b :: t)).inv = false → (unit1 (b :: t)).raw < 0x1000000) := by
  by_cases hv : (decodeRune (b :: t)).1 = runeError ∧ (decodeRune (b :: t)).2 = 1
  · have hu : unit1 (b :: t) = ⟨b, true, 1⟩ := by simp [unit1, hv]
    have hb : 0x80 ≤ b := by
      rcases Nat.lt_or_ge b 0x80 with h | h
      · exfalso
        have : decodeRune (b :: t) = (b, 1) := by simp [decodeRune, h]
        rw [this] at hv
        have h1 : b = 0xFFFD := hv.1
        omega
      · exact h
    have hinv : (unit1 (b :: t)).inv = true := by rw [hu]
    rw [hu]
    refine ⟨?_, by simp [hb], by simp⟩
    rcases decode1_valid b t with h | ⟨h1, h2⟩
    · exact h
    · exfalso
      exact (unit1_inv_iff b t).mp hinv _ h1 ⟨(b :: t).drop (decode1 (b :: t)).2, by rw [h2]; exact List.take_append_drop _ _⟩
  · obtain ⟨h1, h2⟩ := decodeRune_valid b t hv
    have hu : unit1 (b :: t) = ⟨(decodeRune (b :: t)).1, false, (decodeRune (b :: t)).2⟩ := by
      simp only [unit1, hv, if_false]
    have hsz := decodeRune_sz b t
    rw [hu]
    have hlen : (encodeRune (decodeRune (b :: t)).1).length = (decodeRune (b :: t)).2 := by
      rw [h2, List.length_take]; exact Nat.min_eq_left hsz.2.1
    refine ⟨?_, ?_, ?_⟩
    · have hsplit : b :: t = encodeRune (decodeRune (b :: t)).1 ++ (b :: t).drop (decodeRune (b :: t)).2 := by
        rw [h2]; exact (List.take_append_drop _ _).symm
      rw [hsplit, decode1_encode _ h1, hlen]
      rw [← hsplit]
    · simp only [Bool.false_eq_true, false_iff, not_and]
      intro hge hone
      have := (encodeRune_length (decodeRune (b :: t)).1).2 (by rw [hlen]; exact hone)
      exact Nat.not_le.mpr this hge
    · intro _
      exact scalar_lt_mark _ h1

theorem decodeFuelM_units (f : Nat) (bs : List Nat) :
    (Spec.VT500.decodeFuelM f bs).map Spec.VT500.unmark = (unitsF f bs).map U.raw := by
  induction f generalizing bs with
  | zero => simp [Spec.VT500.decodeFuelM, unitsF]
  | succ n ih =>
    cases bs with
    | nil => simp [Spec.VT500.decodeFuelM, unitsF]
    | cons b t =>
      obtain ⟨h1, h2, h3⟩ := decode1_unit1 b t
      have hs := unit1_sz b t
      simp only [Spec.VT500.decodeFuelM, unitsF, h1, List.map_cons]
      rw [Nat.max_eq_left hs.1, ih]
      congr 1
      by_cases hinv : (unit1 (b :: t)).inv = true
      · have := h2.mp hinv
        simp only [ge_iff_le, this, and_self, if_true]
        exact unmark_mark _
      · have hf : (unit1 (b :: t)).inv = false := by simpa using hinv
        have hlt := h3 hf
        have hn : ¬ (0x80 ≤ (unit1 (b :: t)).raw ∧ (unit1 (b :: t)).sz = 1) := fun h => hinv (h2.mpr h)
        simp only [ge_iff_le, hn, if_false]
        exact unmark_small _ hlt

/-- **The model's decoder is the Spec's decoder** (Table 3-7; invalid byte ⇒ raw), every byte list. -/
theorem decode_eq (bs : List Nat) : Spec.VT500.decode bs = decodeRunes bs := by
  simp only [Spec.VT500.decode, Spec.VT500.decodeMarked, decodeRunes, units]
  exact decodeFuelM_units _ _

end VaxisModel.Lemmas.ParserUtf8Spec
