/-
Helper lemmas for C20 (placement bookkeeping): with the five fields compared, `samePlacement` is
equality of placements; the model's render then computes exactly the spec's diff; induction over
op histories with the invariant "`last` is the previous frame's placement list".
-/
import VaxisModel.Model.Placements

namespace VaxisModel.Lemmas.Placements
open VaxisModel.Model.Placements VaxisModel.Spec.Images VaxisModel.Gen.ImageConsts

theorem samePlacementWith_all_eq (a b : Placement) :
    samePlacementWith [.id, .col, .row, .w, .h] a b = (a == b) := by
  cases a; cases b
  simp only [samePlacementWith, List.all_cons, List.all_nil, fieldEq, Bool.and_true]
  rw [Bool.eq_iff_iff]
  simp [Placement.mk.injEq]

theorem any_beq (p : Placement) (l : List Placement) : (l.any fun p2 => p == p2) = decide (p ∈ l) := by
  rw [Bool.eq_iff_iff]
  simp [List.any_eq_true]

/-- One render of the model, when `same` is equality, is the spec's diff against `last`. -/
theorem renderWith_eq_spec (s : State) :
    renderWith (fun a b => a == b) s =
      ({ next := s.next, last := s.next, refresh := false },
       ⟨mustDelete s.last ⟨s.next, s.refresh⟩, mustWrite s.last ⟨s.next, s.refresh⟩⟩) := by
  unfold renderWith mustDelete mustWrite
  cases hr : s.refresh
  · simp
    constructor
    · apply List.filter_congr; intro p _; rw [any_beq]
    · apply List.filter_congr; intro p _; rw [any_beq]
  · simp

/-- Induction over histories: the model's outputs are the spec's expected outputs for the frame
    history the ops ask for, starting from any state (invariant: `last` = previous frame). -/
theorem outputsWith_eq_expected (ops : List Op) : ∀ s : State,
    outputsWith (fun a b => a == b) s ops = expected s.last (framesOf s.refresh s.next ops) := by
  induction ops with
  | nil => intro s; rfl
  | cons op rest ih =>
    intro s
    cases op with
    | draw p => simp only [outputsWith, stepWith, framesOf]; exact ih _
    | clear => simp only [outputsWith, stepWith, framesOf]; exact ih _
    | render =>
      simp only [outputsWith, stepWith, framesOf, renderWith_eq_spec, expected]
      rw [ih]
    | refresh =>
      simp only [outputsWith, stepWith, framesOf, renderWith_eq_spec, expected]
      rw [ih]

/-- Whatever a render transmits or deletes was drawn: if every placement in the lists and every `draw` of the
    history has a property, so has every placement in every output. -/
theorem outputsWith_good (same : Placement → Placement → Bool) (Good : Placement → Prop) :
    ∀ (ops : List Op) (s : State),
      (∀ p ∈ s.next, Good p) → (∀ p ∈ s.last, Good p) → (∀ p, Op.draw p ∈ ops → Good p) →
      ∀ o ∈ outputsWith same s ops, (∀ p ∈ o.1, Good p) ∧ (∀ p ∈ o.2, Good p) := by
  intro ops
  induction ops with
  | nil => intro s _ _ _ o ho; simp [outputsWith] at ho
  | cons op rest ih =>
    intro s hn hl hd o ho
    have hd' : ∀ p, Op.draw p ∈ rest → Good p := fun p hp => hd p (List.mem_cons_of_mem _ hp)
    cases op with
    | draw p =>
      simp only [outputsWith, stepWith] at ho
      refine ih ⟨s.next ++ [p], s.last, s.refresh⟩ ?_ hl hd' o ho
      intro q hq
      rcases List.mem_append.mp hq with h | h
      · exact hn q h
      · have : q = p := by simpa using h
        rw [this]; exact hd p (List.mem_cons_self ..)
    | clear =>
      simp only [outputsWith, stepWith] at ho
      exact ih ⟨[], s.last, s.refresh⟩ (fun q hq => by cases hq) hl hd' o ho
    | render =>
      simp only [outputsWith, stepWith, renderWith, List.mem_cons] at ho
      rcases ho with rfl | ho
      · exact ⟨fun p hp => hl p (List.mem_filter.mp hp).1, fun p hp => hn p (List.mem_filter.mp hp).1⟩
      · exact ih ⟨s.next, s.next, false⟩ hn hn hd' o ho
    | refresh =>
      simp only [outputsWith, stepWith, renderWith, List.mem_cons] at ho
      rcases ho with rfl | ho
      · exact ⟨fun p hp => hl p (List.mem_filter.mp hp).1, fun p hp => hn p (List.mem_filter.mp hp).1⟩
      · exact ih ⟨s.next, s.next, false⟩ hn hn hd' o ho

/-- With every statement of the skeleton present, the interpreted render is `renderWith`. -/
theorem renderShaped_std (same : Placement → Placement → Bool) (s : State) :
    renderShaped ⟨true, true, true, true, true, true, true, []⟩ same s = renderWith same s := by
  unfold renderShaped renderWith
  simp only [Bool.true_and, if_true]
  congr 2
  · apply List.filter_congr
    intro p _
    cases s.refresh <;> cases (s.next.any fun p2 => same p p2) <;> rfl
  · apply List.filter_congr
    intro p _
    cases ((if s.refresh = true then [] else s.last).any fun p2 => same p p2) <;> rfl

theorem stepShaped_std (same : Placement → Placement → Bool) (s : State) (op : Op) :
    stepShaped ⟨true, true, true, true, true, true, true, []⟩ same s op = stepWith same s op := by
  cases op <;> simp only [stepShaped, stepWith, renderShaped_std]

end VaxisModel.Lemmas.Placements
