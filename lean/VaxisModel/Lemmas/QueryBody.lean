/-
The regenerated body of `parseColorReply`, executed (`Model/QueryBody.lean`), equals the model
(`parseReply` / `colorOfReply`) for every reply and prefix.
-/
import VaxisModel.Model.QueryBody
import VaxisModel.Lemmas.InputQuery

namespace VaxisModel.Lemmas.QueryBody
open VaxisModel.Model.GoBody VaxisModel.Model.Color VaxisModel.Model.InputQuery VaxisModel.Model VaxisModel.Model.QueryBody
open VaxisModel.Lemmas.InputQuery

/-- The body of the loop over the channels, as it stands in `Gen.InputBody.pr`. -/
def prLoopBody : Ss :=
  (Ss.ofList [
      (.assign .define (Es.ofList [(.var "n")]) (Es.ofList [(.call "len" (Es.ofList [(.var "ch")]))])),
      (.ifS .nil (.bin .lor (.bin .lt (.var "n") (.int 1)) (.bin .gt (.var "n") (.int 4))) (Ss.ofList [
        (.ret (Es.ofList [(.call "Color" (Es.ofList [(.int 0)])), .ff]))]) .nil),
      (.assign .define (Es.ofList [(.var "v"), (.var "err")]) (Es.ofList [(.call "strconv.ParseUint" (Es.ofList [(.var "ch"), (.int 16), (.int 16)]))])),
      (.ifS .nil (.bin .ne (.var "err") .nilv) (Ss.ofList [
        (.ret (Es.ofList [(.call "Color" (Es.ofList [(.int 0)])), .ff]))]) .nil),
      (.assign .define (Es.ofList [(.var "max")]) (Es.ofList [(.bin .sub (.call "shl" (Es.ofList [(.call "uint64" (Es.ofList [(.int 1)])), (.call "mul" (Es.ofList [(.int 4), (.var "n")]))])) (.int 1))])),
      (.assign .set (Es.ofList [(.idx (.var "rgb") (.var "i"))]) (Es.ofList [(.call "uint8" (Es.ofList [(.call "shr" (Es.ofList [(.call "div" (Es.ofList [(.call "mul" (Es.ofList [(.var "v"), (.int 65535)])), (.var "max")])), (.int 8)]))]))]))])

/-- The regenerated body has the shape the proof follows: prefix test, split, channel count, the
array, the loop with exactly that body, the result. -/
theorem pr_shape : Gen.InputBody.pr =
    (Ss.ofList [
      (.ifS .nil (.un .not (.call "strings.HasPrefix" (Es.ofList [(.var "resp"), (.bin .add (.var "prefix") (.str [114, 103, 98, 58]))]))) (Ss.ofList [
        (.ret (Es.ofList [(.call "Color" (Es.ofList [(.int 0)])), .ff]))]) .nil),
      (.assign .define (Es.ofList [(.var "channels")]) (Es.ofList [(.call "strings.Split" (Es.ofList [(.call "strings.TrimPrefix" (Es.ofList [(.var "resp"), (.bin .add (.var "prefix") (.str [114, 103, 98, 58]))])), (.str [47])]))])),
      (.ifS .nil (.bin .ne (.call "len" (Es.ofList [(.var "channels")])) (.int 3)) (Ss.ofList [
        (.ret (Es.ofList [(.call "Color" (Es.ofList [(.int 0)])), .ff]))]) .nil),
      (.varDecl "rgb" "[3]uint8"),
      (.forRange "i" "ch" (.var "channels") prLoopBody),
      (.ret (Es.ofList [(.call "RGBColor" (Es.ofList [(.idx (.var "rgb") (.int 0)), (.idx (.var "rgb") (.int 1)), (.idx (.var "rgb") (.int 2))])), .tt]))]) := rfl

theorem matchLit_isPrefix : ∀ (lit resp : List Nat),
    matchLit lit resp = if Input.isPrefix lit resp then some (resp.drop lit.length) else none
  | [], resp => by simp [matchLit, Input.isPrefix]
  | f :: fs, [] => by simp [matchLit, Input.isPrefix]
  | f :: fs, c :: inp => by
    have ih := matchLit_isPrefix fs inp
    by_cases h : f = c
    · subst h; simp [matchLit, Input.isPrefix, ih]
    · simp [matchLit, Input.isPrefix, h]

/-- Hexadecimal digits are one byte each in UTF-8. -/
theorem strLen_hex : ∀ (ds : List Nat), (∀ d ∈ ds, (hexVal d).isSome = true) → InputBody.strLen ds = ds.length
  | [], _ => rfl
  | d :: t, h => by
    have hd := hexVal_range d (h d (List.mem_cons_self ..))
    have ht := strLen_hex t (fun x hx => h x (List.mem_cons_of_mem _ hx))
    have : d < 128 := by omega
    simp [InputBody.strLen, InputBody.utf8Len, this, ht]; omega

theorem strLen_nonneg : ∀ s, 0 ≤ InputBody.strLen s
  | [] => by simp [InputBody.strLen]
  | r :: t => by
    have := strLen_nonneg t
    simp only [InputBody.strLen, InputBody.utf8Len]; split <;> (try split) <;> (try split) <;> omega

@[simp] theorem andThen_norm (env : QEnv) (f : QEnv → QR) : (QR.norm env).andThen f = f env := rfl
@[simp] theorem andThen_ret (v : QV) (f : QEnv → QR) : (QR.ret v).andThen f = .ret v := rfl
@[simp] theorem andThen_fail (w : String) (f : QEnv → QR) : (QR.fail w).andThen f = .fail w := rfl

def qthen (r : QR) (t : Ss) : QR := match r with | .norm env => qexecSs t env | r => r
theorem qexecSs_cons (h : S) (t : Ss) (env : QEnv) : qexecSs (.cons h t) env = qthen (qexecS h env) t := by
  rw [qexecSs]; cases qexecS h env <;> rfl
theorem qexecSs_nil (env : QEnv) : qexecSs .nil env = .norm env := by rw [qexecSs]
@[simp] theorem qthen_norm (env : QEnv) (t : Ss) : qthen (.norm env) t = qexecSs t env := rfl
@[simp] theorem qthen_ret (v : QV) (t : Ss) : qthen (.ret v) t = .ret v := rfl
@[simp] theorem qthen_fail (w : String) (t : Ss) : qthen (.fail w) t = .fail w := rfl
theorem qthen_ite (p : Prop) [Decidable p] (a b : QR) (t : Ss) : qthen (if p then a else b) t = if p then qthen a t else qthen b t := by
  split <;> rfl

macro "q_eval" : tactic => `(tactic| simp [Ss.ofList, Es.ofList, qexecSs_cons, qexecSs_nil, qthen_ite, qexecS, qeval, qevals, qcall, qbin,
  List.lookup, parseUint16, trimPrefix, U64, *])

/-- One channel: the body of the loop either returns failure or stores the scaled value. -/
theorem loop_step (env : QEnv) (i : Nat) (ch : List Nat) (l : List Nat) (hl : env.lookup "rgb" = some (.arr l)) (hi : i < l.length) :
    qexecSs prLoopBody (("ch", .str ch) :: ("i", .nat i) :: env) =
      match parseChannel ch with
      | none => .ret (.pair (.color 0) (.bool false))
      | some v => .norm (("rgb", .arr (l.set i v)) :: ("max", .nat (16 ^ ch.length - 1)) :: ("err", .nil) :: ("v", .nat ((hexNum ch 0).getD 0)) ::
          ("n", .nat ch.length) :: ("ch", .str ch) :: ("i", .nat i) :: env) := by
  cases hh : hexNum ch 0 with
  | none =>
    have hp : parseChannel ch = none := by simp [parseChannel, hh]
    rw [hp]
    unfold prLoopBody
    by_cases h1 : InputBody.strLen ch ≤ 0
    · q_eval
    · by_cases h2 : 4 < InputBody.strLen ch
      · q_eval
      · cases ch with
        | nil => simp [InputBody.strLen] at h1
        | cons c t => q_eval
  | some v =>
    have hall := hexNum_all_hex ch 0 v hh
    have hlen := strLen_hex ch hall
    have hv : v < 16 ^ ch.length := by
      obtain ⟨w, hw, hb⟩ := hexNum_some ch 0 hall
      rw [hh] at hw; cases hw; simpa using hb
    unfold prLoopBody
    rcases ch with _ | ⟨a, _ | ⟨b, _ | ⟨c, _ | ⟨d, _ | ⟨e, t⟩⟩⟩⟩⟩
    · simp [parseChannel]; q_eval
    · simp [parseChannel, hh] at hv ⊢; simp at hlen
      have hv' : v < 65536 := by omega
      q_eval; congr 1
      rw [Nat.mod_eq_of_lt (by omega : v * 65535 < 18446744073709551616)]; omega
    · simp [parseChannel, hh] at hv ⊢; simp at hlen
      have hv' : v < 65536 := by omega
      q_eval; congr 1
      rw [Nat.mod_eq_of_lt (by omega : v * 65535 < 18446744073709551616)]; omega
    · simp [parseChannel, hh] at hv ⊢; simp at hlen
      have hv' : v < 65536 := by omega
      q_eval; congr 1
      rw [Nat.mod_eq_of_lt (by omega : v * 65535 < 18446744073709551616)]; omega
    · simp [parseChannel, hh] at hv ⊢; simp at hlen
      have hv' : v < 65536 := by omega
      q_eval; congr 1
      rw [Nat.mod_eq_of_lt (by omega : v * 65535 < 18446744073709551616)]; omega
    · have h6 : ¬ ((t.length : Int) + 1 + 1 + 1 + 1 + 1 ≤ 0) := by omega
      have h7 : (4 : Int) < (t.length : Int) + 1 + 1 + 1 + 1 + 1 := by omega
      simp [parseChannel] at hlen ⊢
      q_eval

theorem isPrefix_split : ∀ (p s : List Nat), Input.isPrefix p s = true → ∃ r, s = p ++ r
  | [], s, _ => ⟨s, rfl⟩
  | a :: as, [], h => by simp [Input.isPrefix] at h
  | a :: as, b :: bs, h => by
    simp only [Input.isPrefix, Bool.and_eq_true, beq_iff_eq] at h
    obtain ⟨r, hr⟩ := isPrefix_split as bs h.2
    exact ⟨r, by rw [h.1, hr]; rfl⟩

theorem isPrefix_append : ∀ (p r : List Nat), Input.isPrefix p (p ++ r) = true
  | [], r => by simp [Input.isPrefix]
  | a :: as, r => by simp [Input.isPrefix, isPrefix_append as r]

theorem trimPrefix_append (p r : List Nat) : trimPrefix p (p ++ r) = r := by
  simp [trimPrefix, isPrefix_append]

/-- **`parseColorReply` run on its regenerated body = the model**, for every reply and every prefix:
the same colour and the same `ok`. -/
theorem pr_eq (resp pfx : List Nat) :
    runPr resp pfx = .ok (match parseReply (pfx ++ [114, 103, 98, 58]) resp with | some c => (c, true) | none => (0, false)) := by
  unfold runPr
  rw [pr_shape]
  by_cases hp : Input.isPrefix (pfx ++ [114, 103, 98, 58]) resp = true
  · obtain ⟨chans, hc⟩ : ∃ chans, Input.splitOn 47 (List.drop (pfx.length + 4) resp) = chans := ⟨_, rfl⟩
    have hm : matchLit (pfx ++ [114, 103, 98, 58]) resp = some (List.drop (pfx.length + 4) resp) := by
      rw [matchLit_isPrefix]; simp [hp]
    simp only [parseReply, hm, hc]
    rcases chans with _ | ⟨a, _ | ⟨b, _ | ⟨c, _ | ⟨d, t⟩⟩⟩⟩
    · q_eval
    · q_eval
    · q_eval
    · q_eval
      simp only [qloop]
      rw [loop_step _ 0 a [0, 0, 0] (by rfl) (by decide)]
      cases ha : parseChannel a with
      | none => simp
      | some va =>
        simp only []
        rw [loop_step _ 1 b _ (by rfl) (by simp)]
        cases hb : parseChannel b with
        | none => simp
        | some vb =>
          simp only []
          rw [loop_step _ 2 c _ (by rfl) (by simp)]
          cases hcc : parseChannel c with
          | none => simp
          | some vc => q_eval
    · q_eval
  · have hm : matchLit (pfx ++ [114, 103, 98, 58]) resp = none := by rw [matchLit_isPrefix]; simp [hp]
    simp only [parseReply, hm]
    q_eval

end VaxisModel.Lemmas.QueryBody
