/-
The repaired cell loop (`Model/RenderClip.lean`) is the old cell loop run on the clipped row, the
clipped grid always fits, and the clipped grid means `Spec.Expected.expectedC`.
-/
import VaxisModel.Model.RenderClip
import VaxisModel.Spec.ExpectedClip
import VaxisModel.Lemmas.RenderDisplay

namespace VaxisModel.Lemmas.RenderClip
open VaxisModel.Model.Render VaxisModel.Spec VaxisModel.Spec.Display VaxisModel.Spec.Expected
open VaxisModel.Lemmas.RenderDisplay
open VaxisModel.Props.C01 (FitsRow Fits)

theorem clipCell_sixel (cw : String → Nat) (rem : Nat) (c : Cell) : (clipCell cw rem c).sixel = c.sixel := by
  unfold clipCell; split <;> rfl

theorem clipCell_style (cw : String → Nat) (rem : Nat) (c : Cell) : (clipCell cw rem c).style = c.style := by
  unfold clipCell; split <;> rfl

theorem clipRow_length (cw : String → Nat) (l : List Cell) : (clipRow cw l).length = l.length := by
  induction l with
  | nil => rfl
  | cons c cs ih => simp [clipRow, ih]

theorem renderCellsC_eq (cw : String → Nat) (caps : Caps) (refresh : Bool) (row : Nat) :
    ∀ (ns ls : List Cell) (col skip : Nat) (track : Bool) (dirty : Nat) (st : RSt),
      renderCellsC cw caps refresh row col skip track dirty ns ls st =
        renderCells cw caps refresh row col skip track dirty (clipRow cw ns) ls st := by
  intro ns
  induction ns with
  | nil => intro ls col skip track dirty st; simp [renderCellsC, renderCells, clipRow]
  | cons n0 ns ih =>
    intro ls col skip track dirty st
    cases ls with
    | nil => simp [renderCellsC, renderCells, clipRow]
    | cons l ls =>
      cases skip with
      | succ k =>
        simp only [renderCellsC, renderCells, clipRow]
        rw [ih]
      | zero =>
        simp only [renderCellsC, renderCells, clipRow, clipCell_sixel]
        split
        · rw [ih]
        · split
          · rw [ih]
          · rw [ih]

theorem renderRowsC_eq (cw : String → Nat) (caps : Caps) (refresh : Bool) :
    ∀ (ns ls : Grid) (row : Nat) (st : RSt),
      renderRowsC cw caps refresh row ns ls st = renderRows cw caps refresh row (clipGrid cw ns) ls st := by
  intro ns
  induction ns with
  | nil => intro ls row st; simp [renderRowsC, renderRows, clipGrid]
  | cons n ns ih =>
    intro ls row st
    cases ls with
    | nil => simp [renderRowsC, renderRows, clipGrid]
    | cons l ls =>
      simp only [renderRowsC, renderRows, clipGrid, List.map_cons, renderCellsC_eq]
      have := ih ls (row + 1)
      simp only [clipGrid] at this
      simp only [this]

/-- **The repaired renderer is the old renderer on the clipped grid.** -/
theorem renderFrameC_eq (cw : String → Nat) (f : Frame) :
    renderFrameC cw f = renderFrame cw { f with next := clipGrid cw f.next } := by
  simp only [renderFrameC, renderFrame, renderBodyC, renderBody, renderRowsC_eq]

/-! ### the clipped grid -/

theorem width_clip (cw : String → Nat) (c : Cell) :
    cellWidth cw ({ c with g := "20", w := 1 } : Cell) = 1 := by
  simp [cellWidth]

/-- The substitution fires exactly when the glyph does not fit. -/
theorem clip_iff (cw : String → Nat) (rem : Nat) (c : Cell) (hrem : 1 ≤ rem) :
    rem ≤ advance cw c ↔ ¬ (cellWidth cw c).toNat ≤ rem := by
  rw [adv_eq]; omega

theorem clipRow_fits (cw : String → Nat) : ∀ (l : List Cell) (k : Nat), FitsRow cw k (clipRow cw l) := by
  intro l
  induction l with
  | nil => intro k; simp [clipRow, FitsRow]
  | cons c cs ih =>
    intro k
    cases k with
    | succ k => simp only [clipRow, FitsRow]; exact ih k
    | zero =>
      simp only [clipRow, FitsRow, List.length_cons, clipRow_length]
      refine ⟨?_, ih _⟩
      unfold clipCell
      split
      · rw [width_clip]; simp
      · rename_i h
        have := mt (clip_iff cw (cs.length + 1) c (by omega)).2 h
        omega

theorem clipGrid_fits (cw : String → Nat) (g : Grid) : Fits cw (clipGrid cw g) := by
  intro r hr
  obtain ⟨l, _, rfl⟩ := List.mem_map.mp hr
  exact clipRow_fits cw l 0

theorem expectedRowC_eq (cw : String → Nat) (caps : Caps) :
    ∀ (l : List Cell) (k : Nat), expectedRowC cw caps k l = expectedRow cw caps k (clipRow cw l) := by
  intro l
  induction l with
  | nil => intro k; cases k <;> simp [expectedRowC, expectedRow, clipRow]
  | cons c cs ih =>
    intro k
    cases k with
    | succ k => simp only [expectedRowC, expectedRow, clipRow, ih]
    | zero =>
      simp only [expectedRowC, clipRow, expectedRow]
      unfold clipCell
      by_cases h : (cellWidth cw c).toNat ≤ cs.length + 1
      · have h' : ¬ cs.length + 1 ≤ advance cw c := fun h' => (clip_iff cw _ c (by omega)).1 h' h
        simp only [h, h', if_true, if_false, ih]
      · have h' : cs.length + 1 ≤ advance cw c := (clip_iff cw _ c (by omega)).2 h
        simp only [h, h', if_true, if_false, ih, width_clip]
        simp [blankOf, expectedCell, cellWidth]

/-- The clipped grid means `expectedC` of the application's grid. -/
theorem expectedC_eq (cw : String → Nat) (caps : Caps) (g : Grid) :
    expectedC cw caps g = expected cw caps (clipGrid cw g) := by
  simp only [expectedC, expected, clipGrid, List.map_map]
  apply List.map_congr_left
  intro l _
  exact expectedRowC_eq cw caps l 0

/-- A grid in which every glyph fits is not changed. -/
theorem clipRow_id (cw : String → Nat) : ∀ (l : List Cell) (k : Nat), FitsRow cw k l →
    expectedRow cw caps k (clipRow cw l) = expectedRow cw caps k l := by
  intro l
  induction l with
  | nil => intro k _; rfl
  | cons c cs ih =>
    intro k hf
    cases k with
    | succ k => simp only [clipRow, expectedRow]; rw [ih k (by simpa [FitsRow] using hf)]
    | zero =>
      simp only [FitsRow, List.length_cons] at hf
      have h' : ¬ cs.length + 1 ≤ advance cw c := fun h' => (clip_iff cw _ c (by omega)).1 h' hf.1
      simp only [clipRow, clipCell, h', if_false, expectedRow]
      rw [ih _ hf.2]

theorem expectedC_of_fits (cw : String → Nat) (caps : Caps) (g : Grid) (h : Fits cw g) :
    expectedC cw caps g = expected cw caps g := by
  rw [expectedC_eq]
  simp only [expected, clipGrid, List.map_map]
  apply List.map_congr_left
  intro l hl
  exact clipRow_id cw l 0 (h l hl)

/-! ### side conditions survive clipping -/

theorem clipRow_mem (cw : String → Nat) : ∀ (l : List Cell) (c : Cell), c ∈ clipRow cw l →
    ∃ c0 ∈ l, c = c0 ∨ c = { c0 with g := "20", w := 1 } := by
  intro l
  induction l with
  | nil => intro c h; simp [clipRow] at h
  | cons x xs ih =>
    intro c h
    simp only [clipRow, List.mem_cons] at h
    rcases h with rfl | h
    · refine ⟨x, by simp, ?_⟩
      unfold clipCell; split
      · exact Or.inr rfl
      · exact Or.inl rfl
    · obtain ⟨c0, h0, hc⟩ := ih c h
      exact ⟨c0, by simp [h0], hc⟩

theorem clipGrid_cells (cw : String → Nat) (caps : Caps) (hsp : cw "20" = 1) (g : Grid)
    (h : ∀ r ∈ g, ∀ c ∈ r, c.sixel = false ∧ 0 ≤ c.w ∧ WidthOk cw caps c) :
    ∀ r ∈ clipGrid cw g, ∀ c ∈ r, c.sixel = false ∧ 0 ≤ c.w ∧ WidthOk cw caps c := by
  intro r hr c hc
  obtain ⟨l, hl, rfl⟩ := List.mem_map.mp hr
  obtain ⟨c0, h0, hc⟩ := clipRow_mem cw l c hc
  rcases hc with rfl | rfl
  · exact h l hl c h0
  · refine ⟨(h l hl c0 h0).1, by simp, Or.inr (Or.inl ?_)⟩
    simp [hsp]

theorem clipGrid_dims (cw : String → Nat) (g : Grid) (C : Nat) (h : ∀ r ∈ g, r.length = C) :
    (clipGrid cw g).length = g.length ∧ ∀ r ∈ clipGrid cw g, r.length = C := by
  refine ⟨by simp [clipGrid], ?_⟩
  intro r hr
  obtain ⟨l, hl, rfl⟩ := List.mem_map.mp hr
  rw [clipRow_length]; exact h l hl

end VaxisModel.Lemmas.RenderClip
