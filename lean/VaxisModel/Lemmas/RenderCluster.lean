/-
Helper lemmas for `Props/C01Cluster.lean`: the clustering terminal equals the plain one on token
lists without a joining adjacent pair; the raw text writes of one row of `render()` are, in order,
glyph tokens of cells of that row, and every row's output begins with a control sequence.
-/
import VaxisModel.Spec.DisplayCluster
import VaxisModel.Model.RenderSixel
import VaxisModel.Lemmas.RenderToks

namespace VaxisModel.Lemmas.RenderCluster
open VaxisModel.Model.Render VaxisModel.Spec.Display VaxisModel.Lemmas.RenderToks

/-! ### the clustering terminal -/

theorem runC'_eq (joins : String → String → Bool) (tw : String → Nat) (toks : List Tok) :
    ∀ (t : Term) (p : Option String), adjOk joins p toks = true →
      (runC' joins tw (t, p) toks).1 = run tw t toks := by
  induction toks with
  | nil => intro t p _; rfl
  | cons k rest ih =>
    intro t p h
    cases k with
    | text b =>
      simp only [adjOk, Bool.and_eq_true] at h
      cases p with
      | none =>
        simp only [runC', List.foldl_cons, stepC, run]
        exact ih _ _ h.2
      | some a =>
        have hj : joins a b = false := by simpa using h.1
        simp only [runC', List.foldl_cons, stepC, hj, Bool.false_eq_true, if_false, run]
        exact ih _ _ h.2
    | _ =>
      simp only [adjOk] at h
      simp only [runC', List.foldl_cons, stepC, run]
      exact ih _ _ h

theorem runC_eq_run (joins : String → String → Bool) (tw : String → Nat) (t : Term) (toks : List Tok)
    (h : adjOk joins none toks = true) : runC joins tw t toks = run tw t toks :=
  runC'_eq joins tw toks t none h

/-! ### `adjOk`, `texts`, `startsQuiet` -/

theorem adjOk_quiet (joins : String → String → Bool) (p : Option String) (b : List Tok)
    (hb : startsQuiet b = true) : adjOk joins p b = adjOk joins none b := by
  cases b with
  | nil => rfl
  | cons k rest => cases k <;> simp_all [adjOk, startsQuiet]

theorem adjOk_append_quiet (joins : String → String → Bool) (a b : List Tok) (hb : startsQuiet b = true) :
    ∀ p, adjOk joins p (a ++ b) = (adjOk joins p a && adjOk joins none b) := by
  induction a with
  | nil => intro p; simp [adjOk, adjOk_quiet joins p b hb]
  | cons k rest ih =>
    intro p
    cases k <;> simp [adjOk, ih, Bool.and_assoc]

theorem texts_append (a b : List Tok) : texts (a ++ b) = texts a ++ texts b := by
  induction a with
  | nil => rfl
  | cons k rest ih => cases k <;> simp [texts, ih]

theorem texts_nil_of (a : List Tok) (h : ∀ k ∈ a, ∀ g, k ≠ Tok.text g) : texts a = [] := by
  induction a with
  | nil => rfl
  | cons k rest ih =>
    have hr := ih (fun k' hk' => h k' (List.mem_cons_of_mem _ hk'))
    cases k with
    | text g => exact absurd rfl (h _ List.mem_cons_self g)
    | _ => simpa [texts] using hr

/-- If no grapheme written raw joins a later one (in particular the directly following one), the
    token list has no joining adjacent pair. -/
theorem adjOk_of_pairwise (joins : String → String → Bool) (toks : List Tok) :
    ∀ p : Option String, (p.toList ++ texts toks).Pairwise (fun a b => joins a b = false) →
      adjOk joins p toks = true := by
  induction toks with
  | nil => intro p _; rfl
  | cons k rest ih =>
    intro p h
    cases k with
    | text b =>
      simp only [adjOk, Bool.and_eq_true]
      simp only [texts] at h
      constructor
      · cases p with
        | none => rfl
        | some a =>
          simp only [Option.toList, List.singleton_append, List.pairwise_cons] at h
          simpa using h.1 b List.mem_cons_self
      · apply ih (some b)
        simp only [Option.toList, List.singleton_append]
        exact (List.pairwise_append.1 h).2.1
    | _ =>
      simp only [adjOk]
      apply ih none
      simp only [texts] at h
      simp only [Option.toList, List.nil_append]
      exact (List.pairwise_append.1 h).2.1

/-! ### the cell loop -/

/-- The glyph token every cell of a row gets *if* it is written (after the F02 substitution). -/
def shownRow (cw : String → Nat) (caps : Caps) : List Cell → List Tok
  | [] => []
  | n0 :: ns => glyphTok cw caps (clipCell cw (ns.length + 1) n0) :: shownRow cw caps ns

theorem penDelta_no_text (caps : Caps) (pen next : Style) : ∀ k ∈ penDelta caps pen next, ∀ g, k ≠ Tok.text g := by
  intro k hk g hg
  have := penDelta_vocab caps pen next k hk
  subst hg
  -- a pen-delta token is an SGR or OSC 8
  unfold penDelta at hk
  simp only [List.mem_append] at hk
  rcases hk with ((((hk | hk) | hk) | hk) | hk) | hk
  · split at hk
    · obtain ⟨ps, h⟩ := colorToks_cell _ _ _ _ hk; cases h
    · cases hk
  · split at hk
    · obtain ⟨ps, h⟩ := colorToks_cell _ _ _ _ hk; cases h
    · cases hk
  · split at hk
    · obtain ⟨ps, h⟩ := ulColorToks_cell _ _ _ hk; cases h
    · cases hk
  · obtain ⟨ps, h⟩ := attrToks_cell _ _ _ hk; cases h
  · split at hk
    · split at hk
      · simp at hk
      · split at hk <;> simp at hk
    · cases hk
  · split at hk
    · simp at hk
    · cases hk

/-- What one row of the cell loop appends: its raw text writes are, in order, glyph tokens of cells
    of the row; if the loop starts with `reposition` set, the appended tokens begin with a control
    sequence (OSC 8 close or CUP). -/
theorem renderCellsS_texts (cw : String → Nat) (caps : Caps) (refresh : Bool) (row : Nat) :
    ∀ (next last : List Cell) (col skip : Nat) (track : Bool) (dirty : Nat) (st : RSt),
      ∃ extra, (renderCellsS cw caps refresh row col skip track dirty next last st).2.out = st.out ++ extra ∧
        (texts extra).Sublist (texts (shownRow cw caps next)) ∧
        (st.reposition = true → startsQuiet extra = true) := by
  intro next
  induction next with
  | nil => intro last col skip track dirty st; exact ⟨[], by simp [renderCellsS], by simp [texts], fun _ => rfl⟩
  | cons n0 ns ih =>
    intro last col skip track dirty st
    have hsub : ∀ e : List Tok, (texts e).Sublist (texts (shownRow cw caps ns)) →
        (texts e).Sublist (texts (shownRow cw caps (n0 :: ns))) := by
      intro e he
      have : texts (shownRow cw caps (n0 :: ns)) =
          texts [glyphTok cw caps (clipCell cw (ns.length + 1) n0)] ++ texts (shownRow cw caps ns) := by
        rw [← texts_append]; rfl
      rw [this]
      exact List.Sublist.trans he (List.sublist_append_right _ _)
    cases last with
    | nil => exact ⟨[], by simp [renderCellsS], by simp [texts], fun _ => rfl⟩
    | cons l ls =>
      cases skip with
      | succ k =>
        simp only [renderCellsS]
        obtain ⟨e, he, hs, hq⟩ := ih ls (col + 1) k track _ st
        exact ⟨e, he, hsub e hs, hq⟩
      | zero =>
        simp only [renderCellsS]
        split
        · obtain ⟨e, he, hs, hq⟩ := ih ls (col + 1) 0 false _ { st with reposition := true }
          exact ⟨e, he, hsub e hs, fun _ => hq rfl⟩
        · split
          · obtain ⟨e, he, hs, hq⟩ := ih ls (col + 1) (advance cw (clipCell cw (ns.length + 1) n0)) false dirty { st with reposition := true }
            exact ⟨e, he, hsub e hs, fun _ => hq rfl⟩
          · generalize hpre : (if st.reposition = true then
                (if st.pen.link ≠ "" then [Tok.osc8 "" ""] else []) ++ [Tok.cup (↑row + 1) (↑col + 1)] else []) = pre
            generalize hpen : (if st.reposition = true ∧ st.pen.link ≠ "" then
                ({ st.pen with link := "", linkParams := "" } : Style) else st.pen) = pen
            obtain ⟨e, he, hs, _⟩ := ih ls (col + 1) (advance cw (clipCell cw (ns.length + 1) n0)) true
              (if col + advance cw l + 1 > dirty then col + advance cw l + 1 else dirty)
              { reposition := false, pen := (clipCell cw (ns.length + 1) n0).style,
                out := st.out ++ (pre ++ penDelta caps pen (clipCell cw (ns.length + 1) n0).style ++
                  [glyphTok cw caps (clipCell cw (ns.length + 1) n0)]) }
            refine ⟨(pre ++ penDelta caps pen (clipCell cw (ns.length + 1) n0).style ++
                  [glyphTok cw caps (clipCell cw (ns.length + 1) n0)]) ++ e, ?_, ?_, ?_⟩
            · rw [he]; simp only [List.append_assoc]
            · have hpre0 : texts pre = [] := by
                apply texts_nil_of
                intro k hk g hg
                subst hpre hg
                split at hk
                · simp only [List.mem_append, List.mem_singleton] at hk
                  rcases hk with hk | hk
                  · split at hk <;> simp at hk
                  · cases hk
                · cases hk
              have hd0 : texts (penDelta caps pen (clipCell cw (ns.length + 1) n0).style) = [] :=
                texts_nil_of _ (penDelta_no_text caps pen _)
              have : texts (shownRow cw caps (n0 :: ns)) =
                  texts [glyphTok cw caps (clipCell cw (ns.length + 1) n0)] ++ texts (shownRow cw caps ns) := by
                rw [← texts_append]; rfl
              rw [this]
              simp only [texts_append, hpre0, hd0, List.nil_append]
              exact List.Sublist.append (List.Sublist.refl _) hs
            · intro hr
              subst hpre
              simp only [hr, if_true]
              split <;> rfl

theorem renderRowsS_adjOk (joins : String → String → Bool) (cw : String → Nat) (caps : Caps) (refresh : Bool) :
    ∀ (next last : Grid) (row : Nat) (st : RSt),
      (∀ r ∈ next, (texts (shownRow cw caps r)).Pairwise (fun a b => joins a b = false)) →
      ∃ extra, (renderRowsS cw caps refresh row next last st).2.out = st.out ++ extra ∧
        startsQuiet extra = true ∧ adjOk joins none extra = true := by
  intro next
  induction next with
  | nil => intro last row st _; exact ⟨[], by simp [renderRowsS], rfl, rfl⟩
  | cons n ns ih =>
    intro last row st h
    cases last with
    | nil => exact ⟨[], by simp [renderRowsS], rfl, rfl⟩
    | cons l ls =>
      simp only [renderRowsS]
      obtain ⟨e1, he1, hs1, hq1⟩ := renderCellsS_texts cw caps refresh row n l 0 0 false 0 { st with reposition := true }
      obtain ⟨e2, he2, hq2, ha2⟩ := ih ls (row + 1)
        (renderCellsS cw caps refresh row 0 0 false 0 n l { st with reposition := true }).2
        (fun r hr => h r (List.mem_cons_of_mem _ hr))
      refine ⟨e1 ++ e2, ?_, ?_, ?_⟩
      · rw [he2, he1]; simp only [List.append_assoc]
      · have := hq1 rfl
        cases e1 with
        | nil => simpa using hq2
        | cons k rest => cases k <;> simp_all [startsQuiet]
      · rw [adjOk_append_quiet joins e1 e2 hq2, ha2, Bool.and_true]
        apply adjOk_of_pairwise joins e1 none
        simp only [Option.toList, List.nil_append]
        exact List.Pairwise.sublist hs1 (h n List.mem_cons_self)

/-- The writer's prologue and epilogue are control sequences. -/
theorem flush_adjOk (joins : String → String → Bool) (caps : Caps) (cn cl : CursorState) (body : List Tok)
    (hbody : adjOk joins none body = true) : adjOk joins none (flush caps cn cl body) = true := by
  unfold flush
  by_cases hemp : body.isEmpty = true
  · simp only [hemp, if_true]
    repeat' split
    all_goals rfl
  · simp only [hemp, Bool.false_eq_true, if_false]
    have hsq : ∀ (x : List Tok), startsQuiet ([Tok.sgr []] ++ x) = true := fun _ => rfl
    have e1 : adjOk joins none (if cl.visible = true then [Tok.decrst 25] else []) = true := by split <;> rfl
    have e2 : adjOk joins none (if caps.sync = true then [Tok.decset 2026] else []) = true := by split <;> rfl
    have e3 : adjOk joins none ([Tok.sgr []] ++ ((if cn.visible = true ∧ cl.visible = true then showCursorToks cn else []) ++
        (if caps.sync = true then [Tok.decrst 2026] else []))) = true := by split <;> split <;> rfl
    have hb : startsQuiet (body ++ ([Tok.sgr []] ++ ((if cn.visible = true ∧ cl.visible = true then showCursorToks cn else []) ++
        (if caps.sync = true then [Tok.decrst 2026] else [])))) = true ∨ True := Or.inr trivial
    have : (if cl.visible = true then [Tok.decrst 25] else []) ++ (if caps.sync = true then [Tok.decset 2026] else []) ++
        body ++ [Tok.sgr []] ++ (if cn.visible = true ∧ cl.visible = true then showCursorToks cn else []) ++
        (if caps.sync = true then [Tok.decrst 2026] else []) =
        ((if cl.visible = true then [Tok.decrst 25] else []) ++ (if caps.sync = true then [Tok.decset 2026] else [])) ++
        (body ++ ([Tok.sgr []] ++ ((if cn.visible = true ∧ cl.visible = true then showCursorToks cn else []) ++
        (if caps.sync = true then [Tok.decrst 2026] else [])))) := by simp only [List.append_assoc]
    rw [this]
    -- the prologue has no text token at all, so whatever follows starts "after a control sequence"
    have hpro : ∀ (rest : List Tok), adjOk joins none
        (((if cl.visible = true then [Tok.decrst 25] else []) ++ (if caps.sync = true then [Tok.decset 2026] else [])) ++ rest) =
        adjOk joins none rest := by
      intro rest; split <;> split <;> rfl
    rw [hpro, adjOk_append_quiet joins body _ (hsq _), hbody, e3]; rfl

/-- The whole frame as it reaches the console: no joining adjacent pair of raw text writes. -/
theorem renderFrameS_adjOk (joins : String → String → Bool) (cw : String → Nat) (f : Frame)
    (h : ∀ r ∈ f.next, (texts (shownRow cw f.caps r)).Pairwise (fun a b => joins a b = false)) :
    adjOk joins none (renderFrameS cw f).2 = true := by
  unfold renderFrameS renderBodyS
  generalize hpre : (if f.shapeLast ≠ f.shapeNext then [Tok.pointer f.shapeNext] else []) = pre
  obtain ⟨e, he, hq, ha⟩ := renderRowsS_adjOk joins cw f.caps f.refresh f.next f.last 0 { out := pre } h
  generalize hres : renderRowsS cw f.caps f.refresh 0 f.next f.last { out := pre } = res at he
  obtain ⟨last', st⟩ := res
  simp only at he
  simp only [hres, he]
  -- body = pre ++ e ++ close ++ show; every piece but `e` consists of control sequences
  have hbody : adjOk joins none (pre ++ e ++ (if st.pen.link ≠ "" then [Tok.osc8 "" ""] else []) ++
      (if f.cursorNext.visible = true ∧ ¬ f.cursorLast.visible = true then showCursorToks f.cursorNext else [])) = true := by
    have hpre' : adjOk joins none pre = true := by subst hpre; split <;> rfl
    rw [List.append_assoc, List.append_assoc, adjOk_append_quiet joins pre _ ?_, hpre', Bool.true_and]
    · rw [adjOk_append_quiet joins e _ ?_, ha, Bool.true_and]
      · split <;> split <;> rfl
      · split <;> split <;> rfl
    · cases e with
      | nil => split <;> split <;> rfl
      | cons k rest => cases k <;> simp_all [startsQuiet]
  exact flush_adjOk joins f.caps f.cursorNext f.cursorLast _ hbody

/-! ### the tight form: only horizontally consecutive *shown* cells matter -/

/-- The glyph tokens of the cells the loop visits (the heads of the row walk: a cell covered by a
    wide glyph to its left is jumped over), in order; an image cell is a separator (the loop writes
    nothing for it and re-addresses the cursor afterwards). -/
def headToks (cw : String → Nat) (caps : Caps) : Nat → List Cell → List Tok
  | _, [] => []
  | skip + 1, _ :: ns => headToks cw caps skip ns
  | 0, n0 :: ns =>
      if n0.sixel then Tok.other "" :: headToks cw caps 0 ns
      else glyphTok cw caps (clipCell cw (ns.length + 1) n0) ::
        headToks cw caps (advance cw (clipCell cw (ns.length + 1) n0)) ns

def tokText : Tok → Option String
  | .text g => some g
  | _ => none

theorem adjOk_tail (joins : String → String → Bool) (p : Option String) (k : Tok) (rest : List Tok)
    (h : adjOk joins p (k :: rest) = true) : adjOk joins (tokText k) rest = true := by
  cases k <;> simp_all [adjOk, tokText]

theorem adjOk_head (joins : String → String → Bool) (a b : String) (rest : List Tok)
    (h : adjOk joins (some a) (Tok.text b :: rest) = true) : joins a b = false := by
  simp only [adjOk, Bool.and_eq_true] at h
  simpa using h.1

theorem adjOk_none_of (joins : String → String → Bool) (p : Option String) (l : List Tok)
    (h : adjOk joins p l = true) : adjOk joins none l = true := by
  cases l with
  | nil => rfl
  | cons k rest => cases k <;> simp_all [adjOk]

/-- A non-empty run of control sequences in front: what follows starts afresh. -/
theorem adjOk_ctl_prefix (joins : String → String → Bool) (a X : List Tok) (h : ∀ k ∈ a, ∀ g, k ≠ Tok.text g) :
    ∀ p, adjOk joins p (a ++ X) = if a = [] then adjOk joins p X else adjOk joins none X := by
  induction a with
  | nil => intro p; simp
  | cons k rest ih =>
    intro p
    have hk := h k List.mem_cons_self
    have ih' := ih (fun k' hk' => h k' (List.mem_cons_of_mem _ hk'))
    have : adjOk joins p (k :: (rest ++ X)) = adjOk joins none (rest ++ X) := by
      cases k with
      | text g => exact absurd rfl (hk g)
      | _ => rfl
    simp only [List.cons_append, this, ih' none]
    split <;> simp

theorem glyphTok_cases (cw : String → Nat) (caps : Caps) (c : Cell) :
    (∃ g, glyphTok cw caps c = Tok.text g) ∨ (∃ w g, glyphTok cw caps c = Tok.textW w g) := by
  unfold glyphTok glyphTokW
  split
  · exact Or.inl ⟨_, rfl⟩
  · split
    · exact Or.inr ⟨_, _, rfl⟩
    · exact Or.inl ⟨_, rfl⟩

/-- The row invariant in its tight form.  `p` = the grapheme written raw by the directly preceding
    token when `reposition` is false. -/
theorem renderCellsS_adj (joins : String → String → Bool) (cw : String → Nat) (caps : Caps) (refresh : Bool) (row : Nat) :
    ∀ (next last : List Cell) (col skip : Nat) (track : Bool) (dirty : Nat) (st : RSt) (p : Option String),
      adjOk joins p (headToks cw caps skip next) = true →
      ∃ extra, (renderCellsS cw caps refresh row col skip track dirty next last st).2.out = st.out ++ extra ∧
        (st.reposition = true → startsQuiet extra = true ∧ adjOk joins none extra = true) ∧
        (st.reposition = false → adjOk joins p extra = true) := by
  intro next
  induction next with
  | nil =>
    intro last col skip track dirty st p _
    exact ⟨[], by simp [renderCellsS], fun _ => ⟨rfl, rfl⟩, fun _ => rfl⟩
  | cons n0 ns ih =>
    intro last col skip track dirty st p hH
    -- from a conclusion for a state with `reposition = true`
    have lift : ∀ (e : List Tok), startsQuiet e = true ∧ adjOk joins none e = true →
        (st.reposition = true → startsQuiet e = true ∧ adjOk joins none e = true) ∧
        (st.reposition = false → adjOk joins p e = true) := by
      intro e he
      exact ⟨fun _ => he, fun _ => by rw [adjOk_quiet joins p e he.1]; exact he.2⟩
    cases last with
    | nil => exact ⟨[], by simp [renderCellsS], fun _ => ⟨rfl, rfl⟩, fun _ => rfl⟩
    | cons l ls =>
      cases skip with
      | succ k =>
        simp only [renderCellsS]
        simp only [headToks] at hH
        exact ih ls (col + 1) k track _ st p hH
      | zero =>
        simp only [renderCellsS]
        by_cases hsx : n0.sixel = true
        · simp only [hsx, if_true]
          simp only [headToks, hsx, if_true] at hH
          obtain ⟨e, he, h1, _⟩ := ih ls (col + 1) 0 false
            (if col + advance cw l + 1 > dirty then col + advance cw l + 1 else dirty) { st with reposition := true } none
            (adjOk_tail joins p _ _ hH)
          exact ⟨e, he, lift e (h1 rfl)⟩
        · simp only [hsx, Bool.false_eq_true, if_false]
          simp only [headToks, hsx, Bool.false_eq_true, if_false] at hH
          have hrest := adjOk_tail joins p _ _ hH
          split
          · obtain ⟨e, he, h1, _⟩ := ih ls (col + 1) (advance cw (clipCell cw (ns.length + 1) n0)) false dirty
              { st with reposition := true } _ hrest
            exact ⟨e, he, lift e (h1 rfl)⟩
          · generalize hpre : (if st.reposition = true then
                (if st.pen.link ≠ "" then [Tok.osc8 "" ""] else []) ++ [Tok.cup (↑row + 1) (↑col + 1)] else []) = pre
            generalize hpen : (if st.reposition = true ∧ st.pen.link ≠ "" then
                ({ st.pen with link := "", linkParams := "" } : Style) else st.pen) = pen
            obtain ⟨e, he, _, h2⟩ := ih ls (col + 1) (advance cw (clipCell cw (ns.length + 1) n0)) true
              (if col + advance cw l + 1 > dirty then col + advance cw l + 1 else dirty)
              { reposition := false, pen := (clipCell cw (ns.length + 1) n0).style,
                out := st.out ++ (pre ++ penDelta caps pen (clipCell cw (ns.length + 1) n0).style ++
                  [glyphTok cw caps (clipCell cw (ns.length + 1) n0)]) } _ hrest
            have h2' := h2 rfl
            refine ⟨(pre ++ penDelta caps pen (clipCell cw (ns.length + 1) n0).style ++
                  [glyphTok cw caps (clipCell cw (ns.length + 1) n0)]) ++ e, ?_, ?_, ?_⟩
            · rw [he]; simp only [List.append_assoc]
            · -- reposition was set: the cell's tokens begin with OSC 8 / CUP
              intro hr
              have hpre' : pre = (if st.pen.link ≠ "" then [Tok.osc8 "" ""] else []) ++ [Tok.cup (↑row + 1) (↑col + 1)] := by
                rw [← hpre]; simp [hr]
              have hctl : ∀ k ∈ pre ++ penDelta caps pen (clipCell cw (ns.length + 1) n0).style, ∀ g, k ≠ Tok.text g := by
                intro k hk g hg
                rcases List.mem_append.1 hk with hk | hk
                · rw [hpre'] at hk
                  simp only [List.mem_append, List.mem_singleton] at hk
                  rcases hk with hk | hk
                  · split at hk <;> simp at hk; subst hk; cases hg
                  · subst hk; cases hg
                · exact penDelta_no_text caps pen _ k hk g hg
              have hne : pre ++ penDelta caps pen (clipCell cw (ns.length + 1) n0).style ≠ [] := by
                rw [hpre']; split <;> simp
              constructor
              · rw [hpre']; split <;> rfl
              · have := adjOk_ctl_prefix joins _ ([glyphTok cw caps (clipCell cw (ns.length + 1) n0)] ++ e) hctl none
                simp only [hne, if_false] at this
                rw [show (pre ++ penDelta caps pen (clipCell cw (ns.length + 1) n0).style ++
                    [glyphTok cw caps (clipCell cw (ns.length + 1) n0)]) ++ e =
                    (pre ++ penDelta caps pen (clipCell cw (ns.length + 1) n0).style) ++
                    ([glyphTok cw caps (clipCell cw (ns.length + 1) n0)] ++ e) by simp only [List.append_assoc]]
                rw [this]
                rcases glyphTok_cases cw caps (clipCell cw (ns.length + 1) n0) with ⟨g, hg⟩ | ⟨w, g, hg⟩
                · rw [hg] at h2' ⊢; simpa [adjOk, tokText] using h2'
                · rw [hg] at h2' ⊢; simpa [adjOk, tokText] using h2'
            · -- reposition was not set: no CUP; the pen delta (if any) separates
              intro hr
              have hpre' : pre = [] := by rw [← hpre]; simp [hr]
              rw [hpre', List.nil_append]
              have hctl : ∀ k ∈ penDelta caps pen (clipCell cw (ns.length + 1) n0).style, ∀ g, k ≠ Tok.text g :=
                penDelta_no_text caps pen _
              have := adjOk_ctl_prefix joins _ ([glyphTok cw caps (clipCell cw (ns.length + 1) n0)] ++ e) hctl p
              rw [show (penDelta caps pen (clipCell cw (ns.length + 1) n0).style ++
                    [glyphTok cw caps (clipCell cw (ns.length + 1) n0)]) ++ e =
                    penDelta caps pen (clipCell cw (ns.length + 1) n0).style ++
                    ([glyphTok cw caps (clipCell cw (ns.length + 1) n0)] ++ e) by simp only [List.append_assoc]]
              rw [this]
              rcases glyphTok_cases cw caps (clipCell cw (ns.length + 1) n0) with ⟨g, hg⟩ | ⟨w, g, hg⟩
              · rw [hg] at h2' hH ⊢
                have h2'' : adjOk joins (some g) e = true := by simpa [tokText] using h2'
                split
                · -- directly after the previous cell's grapheme
                  cases p with
                  | none => simpa [adjOk] using h2''
                  | some a =>
                    have := adjOk_head joins a g _ hH
                    simp [adjOk, this, h2'']
                · simpa [adjOk] using h2''
              · rw [hg] at h2' ⊢
                have h2'' : adjOk joins none e = true := by simpa [tokText] using h2'
                split <;> simpa [adjOk] using h2''


theorem renderRowsS_adjOk_tight (joins : String → String → Bool) (cw : String → Nat) (caps : Caps) (refresh : Bool) :
    ∀ (next last : Grid) (row : Nat) (st : RSt),
      (∀ r ∈ next, adjOk joins none (headToks cw caps 0 r) = true) →
      ∃ extra, (renderRowsS cw caps refresh row next last st).2.out = st.out ++ extra ∧
        startsQuiet extra = true ∧ adjOk joins none extra = true := by
  intro next
  induction next with
  | nil => intro last row st _; exact ⟨[], by simp [renderRowsS], rfl, rfl⟩
  | cons n ns ih =>
    intro last row st h
    cases last with
    | nil => exact ⟨[], by simp [renderRowsS], rfl, rfl⟩
    | cons l ls =>
      simp only [renderRowsS]
      obtain ⟨e1, he1, h1, _⟩ := renderCellsS_adj joins cw caps refresh row n l 0 0 false 0 { st with reposition := true } none
        (h n List.mem_cons_self)
      obtain ⟨hq1, ha1⟩ := h1 rfl
      obtain ⟨e2, he2, hq2, ha2⟩ := ih ls (row + 1)
        (renderCellsS cw caps refresh row 0 0 false 0 n l { st with reposition := true }).2
        (fun r hr => h r (List.mem_cons_of_mem _ hr))
      refine ⟨e1 ++ e2, ?_, ?_, ?_⟩
      · rw [he2, he1]; simp only [List.append_assoc]
      · cases e1 with
        | nil => simpa using hq2
        | cons k rest => cases k <;> simp_all [startsQuiet]
      · rw [adjOk_append_quiet joins e1 e2 hq2, ha2, ha1]; rfl

/-- The whole frame, from the tight hypothesis: no two horizontally consecutive shown cells join. -/
theorem renderFrameS_adjOk_tight (joins : String → String → Bool) (cw : String → Nat) (f : Frame)
    (h : ∀ r ∈ f.next, adjOk joins none (headToks cw f.caps 0 r) = true) :
    adjOk joins none (renderFrameS cw f).2 = true := by
  unfold renderFrameS renderBodyS
  generalize hpre : (if f.shapeLast ≠ f.shapeNext then [Tok.pointer f.shapeNext] else []) = pre
  obtain ⟨e, he, hq, ha⟩ := renderRowsS_adjOk_tight joins cw f.caps f.refresh f.next f.last 0 { out := pre } h
  generalize hres : renderRowsS cw f.caps f.refresh 0 f.next f.last { out := pre } = res at he
  obtain ⟨last', st⟩ := res
  simp only at he
  simp only [hres, he]
  -- body = pre ++ e ++ close ++ show; every piece but `e` consists of control sequences
  have hbody : adjOk joins none (pre ++ e ++ (if st.pen.link ≠ "" then [Tok.osc8 "" ""] else []) ++
      (if f.cursorNext.visible = true ∧ ¬ f.cursorLast.visible = true then showCursorToks f.cursorNext else [])) = true := by
    have hpre' : adjOk joins none pre = true := by subst hpre; split <;> rfl
    rw [List.append_assoc, List.append_assoc, adjOk_append_quiet joins pre _ ?_, hpre', Bool.true_and]
    · rw [adjOk_append_quiet joins e _ ?_, ha, Bool.true_and]
      · split <;> split <;> rfl
      · split <;> split <;> rfl
    · cases e with
      | nil => split <;> split <;> rfl
      | cons k rest => cases k <;> simp_all [startsQuiet]
  exact flush_adjOk joins f.caps f.cursorNext f.cursorLast _ hbody



/-- The heads of the walk are among the cells of the row, in order. -/
theorem headToks_sublist (cw : String → Nat) (caps : Caps) :
    ∀ (r : List Cell) (skip : Nat), (texts (headToks cw caps skip r)).Sublist (texts (shownRow cw caps r)) := by
  intro r
  induction r with
  | nil => intro skip; cases skip <;> simp [headToks, shownRow, texts]
  | cons n0 ns ih =>
    intro skip
    have hcons : texts (shownRow cw caps (n0 :: ns)) =
        texts [glyphTok cw caps (clipCell cw (ns.length + 1) n0)] ++ texts (shownRow cw caps ns) := by
      rw [← texts_append]; rfl
    cases skip with
    | succ k =>
      simp only [headToks]
      rw [hcons]
      exact List.Sublist.trans (ih k) (List.sublist_append_right _ _)
    | zero =>
      simp only [headToks]
      split
      · rw [hcons]
        have : texts (Tok.other "" :: headToks cw caps 0 ns) = texts (headToks cw caps 0 ns) := rfl
        rw [this]
        exact List.Sublist.trans (ih 0) (List.sublist_append_right _ _)
      · rw [hcons]
        have : texts (glyphTok cw caps (clipCell cw (ns.length + 1) n0) :: headToks cw caps (advance cw (clipCell cw (ns.length + 1) n0)) ns) =
            texts [glyphTok cw caps (clipCell cw (ns.length + 1) n0)] ++
              texts (headToks cw caps (advance cw (clipCell cw (ns.length + 1) n0)) ns) := by
          rw [← texts_append]; rfl
        rw [this]
        exact List.Sublist.append (List.Sublist.refl _) (ih _)

/-- The row-pairwise hypothesis implies the tight one. -/
theorem tight_of_pairwise (joins : String → String → Bool) (cw : String → Nat) (caps : Caps) (r : List Cell)
    (h : (texts (shownRow cw caps r)).Pairwise (fun a b => joins a b = false)) :
    adjOk joins none (headToks cw caps 0 r) = true := by
  apply adjOk_of_pairwise joins _ none
  simp only [Option.toList, List.nil_append]
  exact List.Pairwise.sublist (headToks_sublist cw caps r 0) h

end VaxisModel.Lemmas.RenderCluster
