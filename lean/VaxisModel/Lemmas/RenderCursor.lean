/-
The cursor clause for a frame that writes something (`renderBody ≠ []`): the hardware cursor ends
up as requested whatever *position* it had before — only its visibility matters, and only when it
was and stays hidden.  This is what makes the first frame after a size change (a refresh of a
non-empty screen) re-establish the cursor although the terminal may have moved it.
(`Props.C01.cursor_as_requested` needs the previous position for the cursor-only flush.)
-/
import VaxisModel.Props.C01
import VaxisModel.Lemmas.RenderDisplay

namespace VaxisModel.Lemmas.RenderCursor
open VaxisModel.Model.Render VaxisModel.Spec VaxisModel.Spec.Display VaxisModel.Lemmas.RenderToks
open VaxisModel.Props.C01

theorem step_dims' (tw : String → Nat) (t : Term) (k : Tok) :
    (step tw t k).rows = t.rows ∧ (step tw t k).cols = t.cols := by
  cases k <;> simp only [step]
  case cup r c => unfold markBad; repeat' split
                  all_goals simp
  case text g => have := putGlyph_fields t g (tw g); simp [this]
  case textW w g =>
    split
    · unfold markBad; split <;> simp
    · have := putGlyph_fields t g w.toNat; simp [this]
  case osc8 p u => split <;> simp
  case decset n => repeat' split
                   all_goals simp
  case decrst n => repeat' split
                   all_goals simp
  all_goals simp

theorem run_dims' (tw : String → Nat) (toks : List Tok) : ∀ t : Term,
    (run tw t toks).rows = t.rows ∧ (run tw t toks).cols = t.cols := by
  induction toks with
  | nil => intro t; simp [run]
  | cons k ks ih =>
    intro t
    have h1 := step_dims' tw t k
    have h2 := ih (step tw t k)
    simp only [run, List.foldl_cons] at *
    exact ⟨h2.1.trans h1.1, h2.2.trans h1.2⟩

theorem run_append' (tw : String → Nat) (t : Term) (a b : List Tok) :
    run tw t (a ++ b) = run tw (run tw t a) b := by simp [run, List.foldl_append]

theorem show_sets' (tw : String → Nat) (t : Term) (c : CursorState) (hv : c.visible = true)
    (hr : 0 ≤ c.row ∧ c.row < t.rows) (hc : 0 ≤ c.col ∧ c.col < t.cols) :
    CursorAs (run tw t (showCursorToks c)) c := by
  simp only [CursorAs, hv, if_true, showCursorToks, run, List.foldl_cons, List.foldl_nil, step]
  have h1 : ¬ (c.row + 1 < 1 ∨ c.col + 1 < 1 ∨ c.row + 1 > (t.rows : Int) ∨ c.col + 1 > (t.cols : Int)) := by omega
  simp only [h1, if_false]
  simp
  omega

def Tail' : Tok → Prop
  | .sgr _ => True
  | .decrst n => n = 2026
  | _ => False

theorem tail_keeps' (tw : String → Nat) (c : CursorState) (toks : List Tok) (h : ∀ k ∈ toks, Tail' k) :
    ∀ t : Term, CursorAs t c → CursorAs (run tw t toks) c := by
  induction toks with
  | nil => intro t ht; simpa [run] using ht
  | cons k ks ih =>
    intro t ht
    have hk := h k (by simp)
    simp only [run, List.foldl_cons]
    apply ih (fun k' hk' => h k' (by simp [hk']))
    cases k <;> simp [Tail'] at hk
    · simpa [step, CursorAs] using ht
    · subst hk; simpa [step, CursorAs] using ht

/-- A frame with a non-empty body shows the cursor as requested, whatever its position before. -/
theorem cursor_nonempty (tw cw : String → Nat) (f : Frame) (t : Term)
    (hin : f.cursorNext.visible = true →
      (0 ≤ f.cursorNext.row ∧ f.cursorNext.row < t.rows) ∧ (0 ≤ f.cursorNext.col ∧ f.cursorNext.col < t.cols))
    (hne : (renderBody cw f).2 ≠ [])
    (hvis : f.cursorLast.visible = false → t.cursorVisible = false) :
    CursorAs (run tw t (renderFrame cw f).2) f.cursorNext := by
  obtain ⟨pre, extra, close, show_, hb, hpre, hvoc, hclose, _, hs⟩ := renderBody_shape cw f
  have hq : ∀ k ∈ pre ++ extra ++ close, CellTok k ∨ Quiet k := by
    intro k hk
    simp only [List.mem_append] at hk
    rcases hk with (hk | hk) | hk
    · rcases hpre with h | ⟨s, h⟩ <;> subst h <;> simp at hk
      subst hk; exact Or.inr trivial
    · exact Or.inl (hvoc k hk)
    · rcases hclose with h | h <;> subst h <;> simp at hk
      subst hk; exact Or.inr trivial
  have hemp : (renderBody cw f).2.isEmpty = false := by
    cases h : (renderBody cw f).2 with
    | nil => exact absurd h hne
    | cons _ _ => rfl
  by_cases hv : f.cursorNext.visible = true
  · obtain ⟨hr, hc⟩ := hin hv
    unfold renderFrame flush
    simp only [hemp, Bool.false_eq_true, if_false]
    by_cases hcl : f.cursorLast.visible = true
    · simp only [hv, hcl, and_self, if_true]
      rw [run_append']
      apply tail_keeps'
      · intro k hk; split at hk <;> simp at hk
        subst hk; rfl
      · rw [run_append']
        exact show_sets' tw _ _ hv (by rw [(run_dims' tw _ t).1]; exact hr) (by rw [(run_dims' tw _ t).2]; exact hc)
    · have hsh : show_ = showCursorToks f.cursorNext := by rw [hs]; simp [hv, hcl]
      simp only [hcl, Bool.false_eq_true, if_false, and_false, List.nil_append, List.append_nil]
      rw [hb, hsh]
      have : (((if f.caps.sync = true then [Tok.decset 2026] else []) ++ (pre ++ extra ++ close ++ showCursorToks f.cursorNext)) ++ [Tok.sgr []]) ++ (if f.caps.sync = true then [Tok.decrst 2026] else [])
          = ((if f.caps.sync = true then [Tok.decset 2026] else []) ++ (pre ++ extra ++ close)) ++ showCursorToks f.cursorNext ++ ([Tok.sgr []] ++ (if f.caps.sync = true then [Tok.decrst 2026] else [])) := by
        simp [List.append_assoc]
      rw [this, run_append']
      apply tail_keeps'
      · intro k hk
        simp only [List.mem_append, List.mem_singleton] at hk
        rcases hk with hk | hk
        · subst hk; trivial
        · split at hk <;> simp at hk
          subst hk; rfl
      · rw [run_append']
        have hd := run_dims' tw ((if f.caps.sync = true then [Tok.decset 2026] else []) ++ (pre ++ extra ++ close)) t
        exact show_sets' tw _ _ hv (by rw [hd.1]; exact hr) (by rw [hd.2]; exact hc)
  · have hv' : f.cursorNext.visible = false := by simpa using hv
    simp only [CursorAs, hv', Bool.false_eq_true, if_false]
    obtain ⟨_, _, _, r4, _⟩ := run_fields tw (renderFrame cw f).2 t
    rw [r4]
    have hsh : show_ = [] := by rw [hs]; simp [hv']
    have hbq : ∀ v, visRun v (renderBody cw f).2 = v := by
      intro v; rw [hb, hsh, List.append_nil]; exact (run_cellToks _ hq 0 v 0).2.1
    have h2 : ∀ v, visRun v (if f.caps.sync = true then [Tok.decset 2026] else []) = v := by
      intro v; split <;> simp [visRun, visStep]
    have h3 : ∀ v, visRun v (if f.caps.sync = true then [Tok.decrst 2026] else []) = v := by
      intro v; split <;> simp [visRun, visStep]
    unfold renderFrame flush
    simp only [hemp, hv', Bool.false_eq_true, false_and, if_false, List.append_nil]
    by_cases hcl : f.cursorLast.visible = true
    · simp only [hcl, if_true, visRun_append]
      have : visRun t.cursorVisible [Tok.decrst 25] = false := by simp [visRun, visStep]
      rw [this, h2, hbq, h3]; simp [visRun, visStep]
    · have ht : t.cursorVisible = false := hvis (by simpa using hcl)
      simp only [hcl, Bool.false_eq_true, if_false, visRun_append, List.nil_append]
      rw [h2, hbq, h3, ht]; simp [visRun, visStep]

/-- A frame that requests the cursor hidden leaves it hidden — empty body (cursor-only branch of the
    writer) or not, whatever the screen's size (an empty screen included) and wherever the cursor was
    — given only that a cursor last rendered hidden is hidden on the terminal. -/
theorem cursor_hidden (tw cw : String → Nat) (f : Frame) (t : Term) (hv : f.cursorNext.visible = false)
    (hvis : f.cursorLast.visible = false → t.cursorVisible = false) :
    CursorAs (run tw t (renderFrame cw f).2) f.cursorNext := by
  by_cases hne : (renderBody cw f).2 = []
  · simp only [CursorAs, hv, Bool.false_eq_true, if_false]
    unfold renderFrame flush
    simp only [hne, List.isEmpty_nil, if_true, hv, Bool.false_eq_true, not_false_eq_true, true_and]
    by_cases hcl : f.cursorLast.visible = true
    · simp [hcl, run, step]
    · simp only [hcl, if_false, Bool.false_eq_true]
      simpa [run] using hvis (by simpa using hcl)
  · exact cursor_nonempty tw cw f t (fun h => absurd h (by simp [hv])) hne hvis

open VaxisModel.Lemmas.RenderDisplay in
/-- On a refresh the cell loop writes the first cell of a row (if it is not under an image). -/
theorem renderCells_out_nonempty (cw : String → Nat) (caps : Caps) (row col : Nat) (track : Bool) (dirty : Nat)
    (c l0 : Cell) (cs ls0 : List Cell) (st : RSt) (hlink : linkRun "" st.out = st.pen.link) (hsx : c.sixel = false) :
    (renderCells cw caps true row col 0 track dirty (c :: cs) (l0 :: ls0) st).2.out ≠ [] := by
  have hc : ¬ (c = l0 ∧ ¬ (true : Bool) = true ∧ col ≥ dirty) := by simp
  rw [renderCells_write_eq cw caps true row col track dirty c l0 cs ls0 st hsx hc]
  simp only
  have hcp := cell_post cw caps row col "" st c hlink
  have hlink1 : linkRun "" (st.out ++ cellToks cw caps st row col c) = c.style.link := by
    have := hcp.link
    simpa [cellToks] using this
  have p1 := renderCells_post cw caps true row "" cs ls0 (col + 1) (advance cw c) true
    (if col + advance cw l0 + 1 > dirty then col + advance cw l0 + 1 else dirty)
    ⟨false, c.style, st.out ++ cellToks cw caps st row col c⟩ hlink1
  obtain ⟨e1, he1, _⟩ := p1.ext
  rw [he1]
  simp [cellToks]

/-- A refresh of a screen with at least one cell (whose first cell is not under an image) writes
    something. -/
theorem renderBody_nonempty (cw : String → Nat) (f : Frame) (hr : f.refresh = true)
    (c : Cell) (cs : List Cell) (ns : Grid) (l0 : Cell) (ls0 : List Cell) (ls : Grid)
    (hn : f.next = (c :: cs) :: ns) (hl : f.last = (l0 :: ls0) :: ls) (hsx : c.sixel = false) :
    (renderBody cw f).2 ≠ [] := by
  unfold renderBody
  generalize hpre : (if f.shapeLast ≠ f.shapeNext then [Tok.pointer f.shapeNext] else []) = pre
  have h0 : linkRun "" pre = "" := by
    subst hpre; split <;> simp [linkRun, linkStep]
  have hout : (renderRows cw f.caps f.refresh 0 f.next f.last { out := pre }).2.out ≠ [] := by
    rw [hn, hl, hr]
    simp only [renderRows]
    have hlink0 : linkRun "" (⟨true, {}, pre⟩ : RSt).out = (⟨true, {}, pre⟩ : RSt).pen.link := h0
    have a := renderCells_out_nonempty cw f.caps 0 0 false 0 c l0 cs ls0 ⟨true, {}, pre⟩ hlink0 hsx
    have p1 := renderCells_post cw f.caps true 0 "" (c :: cs) (l0 :: ls0) 0 0 false 0 ⟨true, {}, pre⟩ hlink0
    have p2 := renderRows_post cw f.caps true "" ns ls (0 + 1) _ p1.link
    obtain ⟨e2, he2, _⟩ := p2.ext
    intro hcontra
    have h2 : (renderRows cw f.caps true (0 + 1) ns ls
        (renderCells cw f.caps true 0 0 0 false 0 (c :: cs) (l0 :: ls0) ⟨true, {}, pre⟩).2).2.out = [] := hcontra
    rw [he2] at h2
    simp only [List.append_eq_nil_iff] at h2
    exact a h2.1
  generalize hres : renderRows cw f.caps f.refresh 0 f.next f.last { out := pre } = res at hout
  obtain ⟨last', st⟩ := res
  simp only at hout ⊢
  rw [hres]
  simp only
  intro h
  simp only [List.append_eq_nil_iff] at h
  exact hout h.1.1

end VaxisModel.Lemmas.RenderCursor
