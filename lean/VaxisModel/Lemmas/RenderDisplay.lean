/-
Display proof of C01 (Props/C01Display.lean): the tokens written by the cell loop of `render()`,
interpreted by the reference terminal, turn a row that shows the previous frame into a row that
shows the application's screen.  Row algebra is in Lemmas/RenderRow.lean, the pen lemma in
Lemmas/RenderPen.lean, token projections in Lemmas/RenderToks.lean.
-/
import VaxisModel.Lemmas.RenderToks
import VaxisModel.Lemmas.RenderRow
import VaxisModel.Lemmas.RenderPen
import VaxisModel.Spec.Expected
import VaxisModel.Props.C01

namespace VaxisModel.Lemmas.RenderDisplay
open VaxisModel.Model.Render VaxisModel.Spec VaxisModel.Spec.Display
open VaxisModel.Lemmas.RenderToks VaxisModel.Lemmas.RenderRow VaxisModel.Lemmas.RenderPen
open VaxisModel.Spec.Expected
open VaxisModel.Props.C01 (FitsRow Fits)

/-- Hyperlink parameters as the terminal stores them: none when no hyperlink is open. -/
def lpOf (s : Style) : String := if s.link = "" then "" else s.linkParams

/-- The cell's explicit width (if any) is the width the terminal gives the grapheme, unless the
    explicit-width protocol is in use (then any width > 1 is transmitted). -/
def WidthOk (cw : String → Nat) (caps : Caps) (c : Cell) : Prop :=
  c.w = 0 ∨ c.w = (cw c.g : Int) ∨ (1 < c.w ∧ caps.explicitWidth = true)

/-- How a cell of the previous frame shows on the terminal: its display cell and its advance. -/
def phi (cw : String → Nat) (caps : Caps) (l : Cell) : VCell := (expectedCell cw caps l, advance cw l)

theorem adv_eq (cw : String → Nat) (c : Cell) : advance cw c = (cellWidth cw c).toNat - 1 := by
  unfold advance resolvedW cellWidth
  split <;> split <;> omega

theorem phi_ok (cw : String → Nat) (caps : Caps) (l : Cell) : VOk (phi cw caps l) := by
  left
  unfold phi expectedCell
  simp only
  split
  · rename_i h
    have : advance cw l = 0 := by rw [adv_eq]; omega
    exact ⟨"20", shown caps l.style, (if l.style.link = "" then "" else l.style.linkParams), l.style.link, by rw [this]⟩
  · rename_i h
    have : (cellWidth cw l).toNat = advance cw l + 1 := by rw [adv_eq]; omega
    exact ⟨l.g, shown caps l.style, (if l.style.link = "" then "" else l.style.linkParams), l.style.link, by rw [this]⟩

theorem eRow_map_phi (cw : String → Nat) (caps : Caps) (k : Nat) (ls : List Cell) :
    eRow k (ls.map (phi cw caps)) = expectedRow cw caps k ls := by
  induction ls generalizing k with
  | nil => cases k <;> rfl
  | cons l ls ih =>
    cases k with
    | zero => simp only [List.map_cons, eRow, expectedRow, ih]; simp [phi, adv_eq]
    | succ k => simp only [List.map_cons, eRow, expectedRow, ih]

/-! ### Tokens that do not print -/

theorem run_append (tw : String → Nat) (t : Term) (a b : List Tok) :
    run tw t (a ++ b) = run tw (run tw t a) b := by simp [run, List.foldl_append]

def lpStep (p : String) : Tok → String
  | .osc8 p' u => if u = "" then "" else p'
  | _ => p
def lpRun (p : String) (toks : List Tok) : String := toks.foldl lpStep p

/-- Tokens that neither print nor move the cursor (`cup` is allowed when inside the screen). -/
def NoPrint (R C : Nat) : Tok → Prop
  | .text _ | .textW _ _ => False
  | .cup r c => 1 ≤ r ∧ r ≤ (R : Int) ∧ 1 ≤ c ∧ c ≤ (C : Int)
  | _ => True

theorem step_noPrint (tw : String → Nat) (t : Term) (k : Tok) (h : NoPrint t.rows t.cols k) :
    (step tw t k).grid = t.grid ∧ (step tw t k).bad = t.bad ∧ (step tw t k).rows = t.rows ∧
    (step tw t k).cols = t.cols ∧ (step tw t k).linkParams = lpStep t.linkParams k := by
  cases k <;> simp only [NoPrint] at h <;> simp only [step, lpStep]
  case cup r c =>
    have : ¬ (r < 1 ∨ c < 1 ∨ r > (t.rows : Int) ∨ c > (t.cols : Int)) := by omega
    simp [this]
  case osc8 p u => split <;> simp_all
  case decset n => repeat' split
                   all_goals simp
  case decrst n => repeat' split
                   all_goals simp
  all_goals simp

theorem run_noPrint (tw : String → Nat) (toks : List Tok) : ∀ (t : Term), (∀ k ∈ toks, NoPrint t.rows t.cols k) →
    (run tw t toks).grid = t.grid ∧ (run tw t toks).bad = t.bad ∧ (run tw t toks).rows = t.rows ∧
    (run tw t toks).cols = t.cols ∧ (run tw t toks).linkParams = lpRun t.linkParams toks := by
  induction toks with
  | nil => intro t _; simp [run, lpRun]
  | cons k ks ih =>
    intro t h
    obtain ⟨a1, a2, a3, a4, a5⟩ := step_noPrint tw t k (h k (by simp))
    have := ih (step tw t k) (by rw [a3, a4]; intro k' hk'; exact h k' (by simp [hk']))
    simp only [run, List.foldl_cons, lpRun] at *
    obtain ⟨b1, b2, b3, b4, b5⟩ := this
    exact ⟨b1.trans a1, b2.trans a2, b3.trans a3, b4.trans a4, by rw [b5, a5]⟩

/-- Style tokens (SGR, OSC 8) additionally leave the cursor alone. -/
def StyleTok : Tok → Prop
  | .sgr _ | .osc8 _ _ => True
  | _ => False

theorem step_style (tw : String → Nat) (t : Term) (k : Tok) (h : StyleTok k) :
    (step tw t k).row = t.row ∧ (step tw t k).col = t.col ∧ (step tw t k).pw = t.pw := by
  cases k <;> simp only [StyleTok] at h <;> simp only [step]
  case osc8 p u => split <;> simp
  all_goals simp

theorem run_style (tw : String → Nat) (toks : List Tok) (h : ∀ k ∈ toks, StyleTok k) : ∀ (t : Term),
    (run tw t toks).row = t.row ∧ (run tw t toks).col = t.col ∧ (run tw t toks).pw = t.pw := by
  induction toks with
  | nil => intro t; simp [run]
  | cons k ks ih =>
    intro t
    obtain ⟨a1, a2, a3⟩ := step_style tw t k (h k (by simp))
    obtain ⟨b1, b2, b3⟩ := ih (fun k' hk' => h k' (by simp [hk'])) (step tw t k)
    simp only [run, List.foldl_cons] at *
    exact ⟨b1.trans a1, b2.trans a2, b3.trans a3⟩

theorem StyleTok.noPrint {R C : Nat} {k : Tok} (h : StyleTok k) : NoPrint R C k := by
  cases k <;> simp [StyleTok] at h <;> trivial

/-! ### Printing one glyph -/

theorem putGlyph_ok (t : Term) (g : String) (w : Nat) (r : List DCell) (hw : 1 ≤ w) (hpw : t.pw = false)
    (hfit : t.col + w ≤ t.cols) (hr : t.grid[t.row]? = some r) :
    (putGlyph t g w).bad = t.bad ∧
    (putGlyph t g w).grid = t.grid.set t.row (writeRow r t.col w (DCell.glyph g w t.pen t.linkParams t.link)) ∧
    (putGlyph t g w).row = t.row ∧
    (t.col + w < t.cols → (putGlyph t g w).col = t.col + w ∧ (putGlyph t g w).pw = false) ∧
    (putGlyph t g w).pen = t.pen ∧ (putGlyph t g w).link = t.link ∧
    (putGlyph t g w).linkParams = t.linkParams ∧ (putGlyph t g w).rows = t.rows ∧ (putGlyph t g w).cols = t.cols := by
  unfold putGlyph
  have h1 : ¬ (w = 0) := by omega
  have h2 : ¬ (t.col + w > t.cols) := by omega
  simp only [h1, hpw, h2, if_false, hr, Bool.false_eq_true]
  split
  · refine ⟨rfl, rfl, rfl, ?_, rfl, rfl, rfl, rfl, rfl⟩
    intro h; omega
  · refine ⟨rfl, rfl, rfl, ?_, rfl, rfl, rfl, rfl, rfl⟩
    intro _; exact ⟨rfl, rfl⟩

/-- What `glyphTok` prints for an admissible cell: grapheme and width. -/
def shownG (cw : String → Nat) (c : Cell) : String := if cellWidth cw c ≤ 0 then "20" else c.g

theorem glyph_step (cw : String → Nat) (caps : Caps) (c : Cell) (t : Term) (hsp : cw "20" = 1)
    (hw0 : 0 ≤ c.w) (hok : WidthOk cw caps c) :
    step cw t (glyphTok cw caps c) = putGlyph t (shownG cw c) (advance cw c + 1) := by
  have hrw : resolvedW cw c = cellWidth cw c := rfl
  unfold glyphTok glyphTokW shownG
  rw [hrw]
  have hadv : advance cw c = (cellWidth cw c).toNat - 1 := adv_eq cw c
  by_cases h0 : cellWidth cw c = 0
  · have : cellWidth cw c ≤ 0 := by omega
    simp only [h0, if_true, step, hsp, hadv]
    rfl
  · have hpos : 0 < cellWidth cw c := by
      unfold cellWidth at h0 ⊢; split at h0 <;> split <;> omega
    have hn : ¬ (cellWidth cw c ≤ 0) := by omega
    simp only [h0, hn, if_false]
    have hwd : (cellWidth cw c).toNat = advance cw c + 1 := by omega
    split
    · rename_i h
      simp only [step]
      have : ¬ (cellWidth cw c < 1) := by omega
      simp only [this, if_false, hwd]
    · rename_i h
      simp only [step]
      congr 1
      rw [← hwd]
      unfold cellWidth at *
      rcases hok with hk | hk | hk
      · simp only [hk, if_true]; simp
      · split
        · simp
        · rw [hk]; simp
      · exfalso; apply h; refine ⟨?_, hk.2⟩
        have : ¬ c.w = 0 := by omega
        simp only [this, if_false]; exact hk.1

theorem expectedCell_eq (cw : String → Nat) (caps : Caps) (c : Cell) :
    expectedCell cw caps c = DCell.glyph (shownG cw c) (advance cw c + 1) (shown caps c.style) (lpOf c.style) c.style.link := by
  unfold expectedCell shownG lpOf
  have hadv : advance cw c = (cellWidth cw c).toNat - 1 := adv_eq cw c
  simp only
  split
  · rename_i h
    have : advance cw c = 0 := by omega
    rw [this]
  · rename_i h
    have : (cellWidth cw c).toNat = advance cw c + 1 := by omega
    rw [this]

/-! ### The pen delta on the terminal -/

theorem penDelta_split (caps : Caps) (pen next : Style) :
    ∃ sg, (∀ k ∈ sg, ∃ ps, k = Tok.sgr ps) ∧
      penDelta caps pen next = sg ++
        (if pen.link ≠ next.link ∨ (next.link ≠ "" ∧ pen.linkParams ≠ next.linkParams) then
           [Tok.osc8 (if next.link = "" then "" else next.linkParams) next.link] else []) := by
  refine ⟨_, ?_, rfl⟩
  intro k hk
  simp only [List.mem_append] at hk
  rcases hk with (((h | h) | h) | h) | h
  · split at h
    · exact colorToks_cell _ _ _ k h
    · simp at h
  · split at h
    · exact colorToks_cell _ _ _ k h
    · simp at h
  · split at h
    · exact ulColorToks_cell _ _ k h
    · simp at h
  · exact attrToks_cell _ _ k h
  · repeat' split at h
    all_goals simp at h
    all_goals exact ⟨_, h⟩

theorem penDelta_style (caps : Caps) (pen next : Style) : ∀ k ∈ penDelta caps pen next, StyleTok k := by
  obtain ⟨sg, hsg, he⟩ := penDelta_split caps pen next
  rw [he]
  intro k hk
  rcases List.mem_append.mp hk with h | h
  · obtain ⟨ps, rfl⟩ := hsg k h; trivial
  · split at h <;> simp at h
    subst h; trivial

theorem lpRun_sgrs (p : String) (toks : List Tok) (h : ∀ k ∈ toks, ∃ ps, k = Tok.sgr ps) : lpRun p toks = p := by
  induction toks generalizing p with
  | nil => rfl
  | cons k ks ih =>
    obtain ⟨ps, hk⟩ := h k (by simp)
    subst hk
    simp only [lpRun, List.foldl_cons, lpStep]
    exact ih p (fun k' hk' => h k' (by simp [hk']))

theorem lpRun_penDelta (caps : Caps) (pen next : Style) :
    lpRun (lpOf pen) (penDelta caps pen next) = lpOf next := by
  obtain ⟨sg, hsg, he⟩ := penDelta_split caps pen next
  rw [he]
  have : ∀ b, lpRun (lpOf pen) (sg ++ b) = lpRun (lpOf pen) b := by
    intro b
    have := lpRun_sgrs (lpOf pen) sg hsg
    simp only [lpRun, List.foldl_append] at this ⊢
    rw [this]
  rw [this]
  by_cases hc : pen.link ≠ next.link ∨ (next.link ≠ "" ∧ pen.linkParams ≠ next.linkParams)
  · simp only [hc, if_true, lpRun, List.foldl_cons, List.foldl_nil, lpStep, lpOf]
    split <;> rfl
  · simp only [hc, if_false, lpRun, List.foldl_nil]
    have h1 : pen.link = next.link := by
      by_cases h : pen.link = next.link
      · exact h
      · exact absurd (Or.inl h) hc
    unfold lpOf
    by_cases h2 : next.link = ""
    · simp [h1, h2]
    · have : pen.linkParams = next.linkParams := by
        by_cases h : pen.linkParams = next.linkParams
        · exact h
        · exact absurd (Or.inr ⟨h2, h⟩) hc
      simp [h1, this]

/-- The terminal state just before a glyph is printed at `(row, col)` with tracked pen `pen`. -/
structure Cur (caps : Caps) (t : Term) (p : Style) (r c : Nat) : Prop where
  bad : t.bad = none
  row : t.row = r
  col : t.col = c
  pw : t.pw = false
  pen : t.pen = shown caps p
  link : t.link = p.link
  lp : t.linkParams = lpOf p

theorem delta_run (cw : String → Nat) (caps : Caps) (t : Term) (pen next : Style) (row col : Nat)
    (h : Cur caps t pen row col) :
    Cur caps (run cw t (penDelta caps pen next)) next row col ∧
    (run cw t (penDelta caps pen next)).grid = t.grid ∧
    (run cw t (penDelta caps pen next)).rows = t.rows ∧ (run cw t (penDelta caps pen next)).cols = t.cols := by
  have hst := penDelta_style caps pen next
  obtain ⟨a1, a2, a3, a4, a5⟩ := run_noPrint cw (penDelta caps pen next) t (fun k hk => (hst k hk).noPrint)
  obtain ⟨b1, b2, b3⟩ := run_style cw (penDelta caps pen next) hst t
  obtain ⟨c1, c2, _, _, _⟩ := run_fields cw (penDelta caps pen next) t
  refine ⟨⟨a2.trans h.bad, b1.trans h.row, b2.trans h.col, b3.trans h.pw, ?_, ?_, ?_⟩, a1, a3, a4⟩
  · rw [c2, h.pen, penRun_penDelta]
  · rw [c1, h.link, linkRun_penDelta]
  · rw [a5, h.lp, lpRun_penDelta]

/-- The terminal between two cells of the loop: pen and hyperlink are the tracked ones; if no
    reposition is pending the cursor stands at column `pos` of `row` (unless the row is full). -/
structure TInv (caps : Caps) (t : Term) (st : RSt) (row pos : Nat) : Prop where
  bad : t.bad = none
  pen : t.pen = shown caps st.pen
  link : t.link = st.pen.link
  lp : t.linkParams = lpOf st.pen
  cur : st.reposition = false → t.row = row ∧ (pos < t.cols → t.col = pos ∧ t.pw = false)

theorem cup_run (cw : String → Nat) (t : Term) (row col : Nat) (hr : row < t.rows) (hc : col < t.cols) :
    run cw t [Tok.cup (row + 1) (col + 1)] = { t with row := row, col := col, pw := false } := by
  simp only [run, List.foldl_cons, List.foldl_nil, step]
  have : ¬ ((row : Int) + 1 < 1 ∨ (col : Int) + 1 < 1 ∨ (row : Int) + 1 > t.rows ∨ (col : Int) + 1 > t.cols) := by omega
  simp only [this, if_false]
  simp

theorem pre_run (cw : String → Nat) (caps : Caps) (t : Term) (st : RSt) (row col : Nat)
    (h : TInv caps t st row col) (hr : row < t.rows) (hc : col < t.cols) :
    let pre : List Tok := if st.reposition then
        (if st.pen.link ≠ "" then [Tok.osc8 "" ""] else []) ++ [Tok.cup (row + 1) (col + 1)] else []
    let pen : Style := if st.reposition ∧ st.pen.link ≠ "" then { st.pen with link := "", linkParams := "" } else st.pen
    Cur caps (run cw t pre) pen row col ∧ (run cw t pre).grid = t.grid ∧
      (run cw t pre).rows = t.rows ∧ (run cw t pre).cols = t.cols := by
  intro pre pen
  by_cases hrp : st.reposition = true
  · by_cases hl : st.pen.link = ""
    · have hpre : pre = [Tok.cup (row + 1) (col + 1)] := by simp [pre, hrp, hl]
      have hpen : pen = st.pen := by simp [pen, hl]
      rw [hpre, hpen, cup_run cw t row col hr hc]
      exact ⟨⟨h.bad, rfl, rfl, rfl, h.pen, h.link, h.lp⟩, rfl, rfl, rfl⟩
    · have hpre : pre = [Tok.osc8 "" ""] ++ [Tok.cup (row + 1) (col + 1)] := by simp [pre, hrp, hl]
      have hpen : pen = { st.pen with link := "", linkParams := "" } := by simp [pen, hrp, hl]
      rw [hpre, hpen, run_append]
      have h1 : run cw t [Tok.osc8 "" ""] = { t with link := "", linkParams := "" } := by
        simp [run, step]
      rw [h1, cup_run cw { t with link := "", linkParams := "" } row col hr hc]
      refine ⟨⟨h.bad, rfl, rfl, rfl, ?_, rfl, ?_⟩, rfl, rfl, rfl⟩
      · simp only [h.pen]; rfl
      · simp [lpOf]
  · have hrp' : st.reposition = false := by simpa using hrp
    have hpre : pre = [] := by simp [pre, hrp']
    have hpen : pen = st.pen := by simp [pen, hrp']
    rw [hpre, hpen]
    obtain ⟨c1, c2⟩ := h.cur hrp'
    obtain ⟨c2, c3⟩ := c2 hc
    exact ⟨⟨h.bad, c1, c2, c3, h.pen, h.link, h.lp⟩, rfl, rfl, rfl⟩

/-- **One written cell**: the tokens `render` writes for a changed cell put exactly the expected
    display cell at the current column of the row under work. -/
theorem cell_write (cw : String → Nat) (caps : Caps) (hsp : cw "20" = 1) (t : Term) (st : RSt) (row col : Nat)
    (n : Cell) (P : List DCell) (k : Nat) (v : VCell) (vs : List VCell)
    (h : TInv caps t st row col) (hr : row < t.rows) (hcols : col + (v :: vs).length = t.cols)
    (hg : t.grid[row]? = some (P ++ sRow 0 k (v :: vs))) (hP : P.length = col)
    (hok : ∀ x ∈ v :: vs, VOk x) (hfit : advance cw n + 1 ≤ (v :: vs).length)
    (hw0 : 0 ≤ n.w) (hwok : WidthOk cw caps n) (o : List Tok) :
    let pre : List Tok := if st.reposition then
        (if st.pen.link ≠ "" then [Tok.osc8 "" ""] else []) ++ [Tok.cup (row + 1) (col + 1)] else []
    let pen : Style := if st.reposition ∧ st.pen.link ≠ "" then { st.pen with link := "", linkParams := "" } else st.pen
    let t' := run cw t (pre ++ penDelta caps pen n.style ++ [glyphTok cw caps n])
    t'.grid = t.grid.set row (P ++ expectedCell cw caps n :: sRow (advance cw n) (nextL k v) vs) ∧
    t'.rows = t.rows ∧ t'.cols = t.cols ∧
    TInv caps t' { reposition := false, pen := n.style, out := o } row (col + 1 + advance cw n) := by
  intro pre pen t'
  have hc : col < t.cols := by simp at hcols; omega
  obtain ⟨hc1, g1, r1, c1⟩ := pre_run cw caps t st row col h hr hc
  obtain ⟨hc2, g2, r2, c2⟩ := delta_run cw caps (run cw t pre) pen n.style row col hc1
  have ht' : t' = putGlyph (run cw (run cw t pre) (penDelta caps pen n.style)) (shownG cw n) (advance cw n + 1) := by
    simp only [t', run_append]
    simp only [run, List.foldl_cons, List.foldl_nil]
    exact glyph_step cw caps n _ hsp hw0 hwok
  generalize run cw (run cw t pre) (penDelta caps pen n.style) = t2 at hc2 g2 r2 c2 ht'
  have hg2 : t2.grid[t2.row]? = some (P ++ sRow 0 k (v :: vs)) := by rw [hc2.row, g2, g1]; exact hg
  have hfit2 : t2.col + (advance cw n + 1) ≤ t2.cols := by rw [hc2.col, c2, c1, ← hcols]; omega
  obtain ⟨p1, p2, p3, p4, p5, p6, p7, p8, p9⟩ := putGlyph_ok t2 (shownG cw n) (advance cw n + 1) _ (by omega) hc2.pw hfit2 hg2
  rw [← ht'] at p1 p2 p3 p4 p5 p6 p7 p8 p9
  refine ⟨?_, by rw [p8, r2, r1], by rw [p9, c2, c1], ⟨by rw [p1, hc2.bad], by rw [p5, hc2.pen], by rw [p6, hc2.link], by rw [p7, hc2.lp], ?_⟩⟩
  · rw [p2, hc2.row, hc2.col, g2, g1, ← hP, writeRow_sRow P k v vs _ _ hok (by omega) hfit]
    rw [hc2.pen, hc2.lp, hc2.link, ← expectedCell_eq]
    simp
  · intro _
    refine ⟨by rw [p3, hc2.row], ?_⟩
    intro hlt
    rw [p9, c2, c1] at hlt
    have := p4 (by rw [hc2.col, c2, c1]; omega)
    rw [hc2.col] at this
    exact ⟨by rw [this.1]; omega, this.2⟩

/-- Tokens written for one changed cell. -/
def cellToks (cw : String → Nat) (caps : Caps) (st : RSt) (row col : Nat) (n : Cell) : List Tok :=
  (if st.reposition then
      (if st.pen.link ≠ "" then [Tok.osc8 "" ""] else []) ++ [Tok.cup (row + 1) (col + 1)]
    else []) ++
  penDelta caps (if st.reposition ∧ st.pen.link ≠ "" then { st.pen with link := "", linkParams := "" } else st.pen) n.style ++
  [glyphTok cw caps n]

theorem renderCells_write_eq (cw : String → Nat) (caps : Caps) (refresh : Bool) (row col : Nat) (track : Bool)
    (dirty : Nat) (n l : Cell) (ns ls : List Cell) (st : RSt) (h : n.sixel = false)
    (hc : ¬ (n = l ∧ ¬ refresh ∧ col ≥ dirty)) :
    renderCells cw caps refresh row col 0 track dirty (n :: ns) (l :: ls) st =
      (n :: (renderCells cw caps refresh row (col + 1) (advance cw n) true
              (if col + advance cw l + 1 > dirty then col + advance cw l + 1 else dirty) ns ls
              { reposition := false, pen := n.style, out := st.out ++ cellToks cw caps st row col n }).1,
       (renderCells cw caps refresh row (col + 1) (advance cw n) true
              (if col + advance cw l + 1 > dirty then col + advance cw l + 1 else dirty) ns ls
              { reposition := false, pen := n.style, out := st.out ++ cellToks cw caps st row col n }).2) := by
  simp only [renderCells, h, hc, Bool.false_eq_true, if_false]
  rfl

theorem renderCells_equal_eq (cw : String → Nat) (caps : Caps) (refresh : Bool) (row col : Nat) (track : Bool)
    (dirty : Nat) (n l : Cell) (ns ls : List Cell) (st : RSt) (h : n.sixel = false)
    (hc : n = l ∧ ¬ refresh ∧ col ≥ dirty) :
    renderCells cw caps refresh row col 0 track dirty (n :: ns) (l :: ls) st =
      (l :: (renderCells cw caps refresh row (col + 1) (advance cw n) false dirty ns ls { st with reposition := true }).1,
       (renderCells cw caps refresh row (col + 1) (advance cw n) false dirty ns ls { st with reposition := true }).2) := by
  simp only [renderCells]
  rw [if_neg (by simp [h]), if_pos hc]

/-! ### The cell loop of one row -/

/-- What one run of the cell loop over (the rest of) a row achieves. `G R C` are the grid and the
    dimensions of the terminal before, `P` the finished part of the row. -/
def CellsPost (cw : String → Nat) (caps : Caps) (row : Nat) (t0 : Term) (G : List (List DCell)) (R C : Nat)
    (P : List DCell) (skip : Nat) (ns : List Cell) (res : List Cell × RSt) : Prop :=
  (run cw t0 res.2.out).grid = G.set row (P ++ expectedRow cw caps skip ns) ∧
  (run cw t0 res.2.out).rows = R ∧ (run cw t0 res.2.out).cols = C ∧
  (run cw t0 res.2.out).bad = none ∧ (run cw t0 res.2.out).pen = shown caps res.2.pen ∧
  (run cw t0 res.2.out).link = res.2.pen.link ∧ (run cw t0 res.2.out).linkParams = lpOf res.2.pen ∧
  expectedRow cw caps skip res.1 = expectedRow cw caps skip ns ∧ res.1.length = ns.length

theorem set_self {α : Type} (l : List α) (i : Nat) (a : α) (h : l[i]? = some a) : l.set i a = l := by
  apply List.ext_getElem?
  intro j
  rw [List.getElem?_set]
  split
  · rename_i e; subst e
    have : i < l.length := by
      rcases Nat.lt_or_ge i l.length with h' | h'
      · exact h'
      · rw [List.getElem?_eq_none h'] at h; simp at h
    simp only [this, if_true]; exact h.symm
  · rfl

theorem post_nil (cw : String → Nat) (caps : Caps) (row : Nat) (t0 : Term) (P : List DCell) (skip : Nat)
    (st : RSt) (pos : Nat) (hg : (run cw t0 st.out).grid[row]? = some P)
    (hinv : TInv caps (run cw t0 st.out) st row pos) :
    CellsPost cw caps row t0 (run cw t0 st.out).grid (run cw t0 st.out).rows (run cw t0 st.out).cols P skip []
      ([], st) := by
  have : expectedRow cw caps skip [] = [] := by cases skip <;> rfl
  unfold CellsPost
  rw [this, List.append_nil, set_self _ _ _ hg]
  exact ⟨rfl, rfl, rfl, hinv.bad, hinv.pen, hinv.link, hinv.lp, rfl, rfl⟩

theorem post_skip (cw : String → Nat) (caps : Caps) (row : Nat) (t0 : Term) (G : List (List DCell)) (R C : Nat)
    (P : List DCell) (skip : Nat) (n : Cell) (ns : List Cell) (res : List Cell × RSt)
    (h : CellsPost cw caps row t0 G R C (P ++ [DCell.cont]) skip ns res) :
    CellsPost cw caps row t0 G R C P (skip + 1) (n :: ns) (({} : Cell) :: res.1, res.2) := by
  obtain ⟨h1, h2, h3, h4, h5, h6, h7, h8, h9⟩ := h
  refine ⟨?_, h2, h3, h4, h5, h6, h7, ?_, ?_⟩
  · rw [h1]; simp [expectedRow]
  · simp only [expectedRow, h8]
  · simp [h9]

theorem post_head (cw : String → Nat) (caps : Caps) (row : Nat) (t0 : Term) (G G' : List (List DCell)) (R C : Nat)
    (P : List DCell) (n : Cell) (ns : List Cell) (res : List Cell × RSt)
    (hG : ∀ Y, G'.set row Y = G.set row Y)
    (h : CellsPost cw caps row t0 G' R C (P ++ [expectedCell cw caps n]) (advance cw n) ns res) :
    CellsPost cw caps row t0 G R C P 0 (n :: ns) (n :: res.1, res.2) := by
  obtain ⟨h1, h2, h3, h4, h5, h6, h7, h8, h9⟩ := h
  refine ⟨?_, h2, h3, h4, h5, h6, h7, ?_, ?_⟩
  · rw [h1, hG]; simp [expectedRow, adv_eq]
  · simp only [expectedRow, ← adv_eq, h8]
  · simp [h9]

theorem renderCells_display (cw : String → Nat) (caps : Caps) (refresh : Bool) (row : Nat) (hsp : cw "20" = 1)
    (t0 : Term) :
    ∀ (ns ls : List Cell) (col skip : Nat) (track : Bool) (dirty : Nat) (st : RSt) (V : List VCell) (k : Nat)
      (P : List DCell) (t : Term), run cw t0 st.out = t →
      ns.length = ls.length → V.length = ns.length → (∀ v ∈ V, VOk v) →
      t.grid[row]? = some (P ++ sRow skip k V) → P.length = col → col + ns.length = t.cols → row < t.rows →
      (refresh = false → V = ls.map (phi cw caps) ∧ (skip < k → col + k ≤ dirty) ∧ (track = false → k = skip)) →
      FitsRow cw skip ns → (∀ c ∈ ns, c.sixel = false ∧ 0 ≤ c.w ∧ WidthOk cw caps c) →
      TInv caps t st row (col + skip) →
      CellsPost cw caps row t0 t.grid t.rows t.cols P skip ns
        (renderCells cw caps refresh row col skip track dirty ns ls st) := by
  intro ns
  induction ns with
  | nil =>
    intro ls col skip track dirty st V k P t ht hl hV hok hg hP hcols hr href hfit hcells hinv
    have hV0 : V = [] := by simpa using hV
    subst hV0
    have hs : sRow skip k [] = [] := by cases skip <;> cases k <;> rfl
    rw [hs, List.append_nil] at hg
    subst ht
    simp only [renderCells]
    exact post_nil cw caps row t0 P skip st _ hg hinv
  | cons n ns ih =>
    intro ls col skip track dirty st V k P t ht hl hV hok hg hP hcols hr href hfit hcells hinv
    cases ls with
    | nil => simp at hl
    | cons l ls =>
      cases V with
      | nil => simp at hV
      | cons v vs =>
        have hl' : ns.length = ls.length := by simpa using hl
        have hV' : vs.length = ns.length := by simpa using hV
        have hok' : ∀ x ∈ vs, VOk x := fun x hx => hok x (by simp [hx])
        have hcells' : ∀ c ∈ ns, c.sixel = false ∧ 0 ≤ c.w ∧ WidthOk cw caps c := fun c hc => hcells c (by simp [hc])
        cases skip with
        | succ skip =>
          simp only [renderCells]
          apply post_skip
          have hg' : t.grid[row]? = some ((P ++ [DCell.cont]) ++ sRow skip (nextL k v) vs) := by
            rw [hg]; simp [sRow]
          refine ih ls (col + 1) skip track _ st vs (nextL k v) (P ++ [DCell.cont]) t ht hl' hV' hok' hg'
            (by simp [hP]) (by simp at hcols; omega) hr ?_ hfit hcells' ?_
          · intro hrf
            obtain ⟨e1, e2, e3⟩ := href hrf
            simp only [List.map_cons, List.cons.injEq] at e1
            have hv2 : v.2 = advance cw l := by rw [e1.1]; rfl
            refine ⟨e1.2, ?_, ?_⟩
            · intro hlt
              cases track with
              | false =>
                have := e3 rfl
                subst this
                simp [nextL] at hlt
              | true =>
                simp only [true_and]
                by_cases hk : k = 0
                · subst hk
                  simp only [nextL, if_true, hv2] at hlt ⊢
                  split <;> omega
                · have hn : nextL k v = k - 1 := by simp [nextL, hk]
                  rw [hn] at hlt ⊢
                  have := e2 (by omega)
                  split <;> omega
            · intro htr
              have := e3 htr
              subst this
              simp [nextL]
          · have : col + 1 + skip = col + (skip + 1) := by omega
            rw [this]; exact hinv
        | zero =>
          obtain ⟨hsx, hw0, hwok⟩ := hcells n (by simp)
          have hfit0 : (cellWidth cw n).toNat ≤ (n :: ns).length ∧ FitsRow cw ((cellWidth cw n).toNat - 1) ns := hfit
          by_cases hc : n = l ∧ ¬ refresh ∧ col ≥ dirty
          · rw [renderCells_equal_eq cw caps refresh row col track dirty n l ns ls st hsx hc]
            obtain ⟨hnl, hrf, hcd⟩ := hc
            have hrf' : refresh = false := by simpa using hrf
            obtain ⟨e1, e2, e3⟩ := href hrf'
            have hk : k = 0 := by
              rcases Nat.eq_zero_or_pos k with h | h
              · exact h
              · have := e2 h; omega
            subst hk; subst hnl
            simp only [List.map_cons, List.cons.injEq] at e1
            obtain ⟨ev, evs⟩ := e1
            apply post_head cw caps row t0 t.grid t.grid _ _ P n ns _ (fun _ => rfl)
            have hg' : t.grid[row]? = some ((P ++ [expectedCell cw caps n]) ++ sRow (advance cw n) (advance cw n) vs) := by
              rw [hg, ev]; simp [sRow, phi, sRow_diag]
            exact ih ls (col + 1) (advance cw n) false dirty { st with reposition := true } vs (advance cw n)
              (P ++ [expectedCell cw caps n]) t ht hl' hV' hok' hg' (by simp [hP]) (by simp at hcols; omega) hr
              (fun _ => ⟨evs, by omega, fun _ => rfl⟩) (by rw [adv_eq]; exact hfit0.2) hcells'
              ⟨hinv.bad, hinv.pen, hinv.link, hinv.lp, by intro h; simp at h⟩
          · rw [renderCells_write_eq cw caps refresh row col track dirty n l ns ls st hsx hc]
            have hfitw : advance cw n + 1 ≤ (v :: vs).length := by
              rw [adv_eq]; simp only [List.length_cons, hV'] at hfit0 ⊢; omega
            have hcw := cell_write cw caps hsp t st row col n P k v vs (by simpa using hinv) hr
              (by simp only [List.length_cons, hV'] at hcols ⊢; omega) hg hP hok hfitw hw0 hwok
            generalize hst' : (RSt.mk false n.style (st.out ++ cellToks cw caps st row col n)) = st'
            have hcw' : (run cw t (cellToks cw caps st row col n)).grid
                  = t.grid.set row (P ++ expectedCell cw caps n :: sRow (advance cw n) (nextL k v) vs) ∧
                (run cw t (cellToks cw caps st row col n)).rows = t.rows ∧
                (run cw t (cellToks cw caps st row col n)).cols = t.cols ∧
                TInv caps (run cw t (cellToks cw caps st row col n)) { reposition := false, pen := n.style, out := st'.out }
                  row (col + 1 + advance cw n) := hcw st'.out
            generalize ht' : run cw t (cellToks cw caps st row col n) = t' at hcw'
            obtain ⟨g1, r1, c1, inv1⟩ := hcw'
            have hrun : run cw t0 st'.out = t' := by
              rw [← hst', ← ht', ← ht, run_append]
            have hst'e : ({ reposition := false, pen := n.style, out := st'.out } : RSt) = st' := by
              rw [← hst']
            rw [hst'e] at inv1
            have hg' : t'.grid[row]? = some ((P ++ [expectedCell cw caps n]) ++ sRow (advance cw n) (nextL k v) vs) := by
              rw [g1, List.getElem?_set]
              have : row < t.grid.length := by
                rcases Nat.lt_or_ge row t.grid.length with h' | h'
                · exact h'
                · rw [List.getElem?_eq_none h'] at hg; simp at hg
              simp [this]
            have hpost := ih ls (col + 1) (advance cw n) true
              (if col + advance cw l + 1 > dirty then col + advance cw l + 1 else dirty) st' vs (nextL k v)
              (P ++ [expectedCell cw caps n]) t' hrun hl' hV' hok' hg' (by simp [hP])
              (by rw [c1]; simp at hcols; omega) (by rw [r1]; exact hr) ?_ (by rw [adv_eq]; exact hfit0.2) hcells' inv1
            · rw [r1, c1] at hpost
              refine post_head cw caps row t0 t.grid t'.grid _ _ P n ns _ ?_ hpost
              intro Y; rw [g1, List.set_set]
            · intro hrf
              obtain ⟨e1, e2, e3⟩ := href hrf
              simp only [List.map_cons, List.cons.injEq] at e1
              have hv2 : v.2 = advance cw l := by rw [e1.1]; rfl
              refine ⟨e1.2, ?_, fun h => by simp at h⟩
              intro hlt
              by_cases hk : k = 0
              · subst hk
                simp only [nextL, if_true, hv2] at hlt ⊢
                split <;> omega
              · have hn : nextL k v = k - 1 := by simp [nextL, hk]
                rw [hn] at hlt ⊢
                have := e2 (by omega)
                split <;> omega

end VaxisModel.Lemmas.RenderDisplay
