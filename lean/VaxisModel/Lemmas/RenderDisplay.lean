/-
Display proof of C01 (Props/C01Display.lean): the tokens written by the cell loop of `render()`,
interpreted by the reference terminal, turn a row that shows the previous frame into a row that
shows the application's screen.  Row algebra is in Lemmas/RenderRow.lean, the pen lemma in
Lemmas/RenderPen.lean, token projections in Lemmas/RenderToks.lean.
-/
import VaxisModel.Lemmas.RenderToks
import VaxisModel.Lemmas.RenderRow
import VaxisModel.Lemmas.RenderPen
import VaxisModel.Spec.Expected
import VaxisModel.Props.C01

namespace VaxisModel.Lemmas.RenderDisplay
open VaxisModel.Model.Render VaxisModel.Spec VaxisModel.Spec.Display
open VaxisModel.Lemmas.RenderToks VaxisModel.Lemmas.RenderRow VaxisModel.Lemmas.RenderPen
open VaxisModel.Spec.Expected
open VaxisModel.Props.C01 (FitsRow Fits)

/-- Hyperlink parameters as the terminal stores them: none when no hyperlink is open. -/
def lpOf (s : Style) : String := lpField (if s.link = "" then "" else s.linkParams)

theorem lpFieldL_eq : ∀ (n : Nat) (l : List Char), l.length ≤ n → lpFieldL l = paramFieldL l := by
  intro n
  induction n with
  | zero => intro l h; cases l with
    | nil => rfl
    | cons a r => simp at h
  | succ n ih =>
    intro l h
    match l with
    | [] => rfl
    | [a] => rfl
    | a :: b :: r =>
      have hr : r.length ≤ n := by simp at h; omega
      simp only [lpFieldL, paramFieldL, Prod.mk.injEq, ih r hr]

/-- The model's `lpField` (transcribed from `render()`) is the spec's `paramField` (from the OSC 8 syntax). -/
theorem lpField_eq (s : String) : lpField s = paramField s := by
  unfold lpField paramField
  rw [lpFieldL_eq _ _ (Nat.le_refl _)]

@[simp] theorem lpField_empty : lpField "" = "" := by decide

/-- The cell's explicit width (if any) is the width the terminal gives the grapheme, unless the
    explicit-width protocol is in use (then any width > 1 is transmitted). -/
def WidthOk (cw : String → Nat) (caps : Caps) (c : Cell) : Prop :=
  c.w = 0 ∨ c.w = (cw c.g : Int) ∨ (1 < c.w ∧ caps.explicitWidth = true)

/-- How a cell of the previous frame shows on the terminal: its display cell and its advance. -/
def phi (cw : String → Nat) (caps : Caps) (l : Cell) : VCell := (expectedCell cw caps l, advance cw l)

theorem adv_eq (cw : String → Nat) (c : Cell) : advance cw c = (cellWidth cw c).toNat - 1 := by
  unfold advance resolvedW cellWidth
  split <;> split <;> omega

theorem phi_ok (cw : String → Nat) (caps : Caps) (l : Cell) : VOk (phi cw caps l) := by
  left
  unfold phi expectedCell
  simp only
  split
  · rename_i h
    have : advance cw l = 0 := by rw [adv_eq]; omega
    exact ⟨"20", shown caps l.style, paramField (if l.style.link = "" then "" else l.style.linkParams), l.style.link, by rw [this]⟩
  · rename_i h
    have : (cellWidth cw l).toNat = advance cw l + 1 := by rw [adv_eq]; omega
    exact ⟨l.g, shown caps l.style, paramField (if l.style.link = "" then "" else l.style.linkParams), l.style.link, by rw [this]⟩

theorem eRow_map_phi (cw : String → Nat) (caps : Caps) (k : Nat) (ls : List Cell) :
    eRow k (ls.map (phi cw caps)) = expectedRow cw caps k ls := by
  induction ls generalizing k with
  | nil => cases k <;> rfl
  | cons l ls ih =>
    cases k with
    | zero => simp only [List.map_cons, eRow, expectedRow, ih]; simp [phi, adv_eq]
    | succ k => simp only [List.map_cons, eRow, expectedRow, ih]

/-! ### Tokens that do not print -/

theorem run_append (tw : String → Nat) (t : Term) (a b : List Tok) :
    run tw t (a ++ b) = run tw (run tw t a) b := by simp [run, List.foldl_append]

def lpStep (p : String) : Tok → String
  | .osc8 p' u => if u = "" then "" else p'
  | _ => p
def lpRun (p : String) (toks : List Tok) : String := toks.foldl lpStep p

/-- Tokens that neither print nor move the cursor (`cup` is allowed when inside the screen). -/
def NoPrint (R C : Nat) : Tok → Prop
  | .text _ | .textW _ _ => False
  | .cup r c => 1 ≤ r ∧ r ≤ (R : Int) ∧ 1 ≤ c ∧ c ≤ (C : Int)
  | _ => True

theorem step_noPrint (tw : String → Nat) (t : Term) (k : Tok) (h : NoPrint t.rows t.cols k) :
    (step tw t k).grid = t.grid ∧ (step tw t k).bad = t.bad ∧ (step tw t k).rows = t.rows ∧
    (step tw t k).cols = t.cols ∧ (step tw t k).linkParams = lpStep t.linkParams k := by
  cases k <;> simp only [NoPrint] at h <;> simp only [step, lpStep]
  case cup r c =>
    have : ¬ (r < 1 ∨ c < 1 ∨ r > (t.rows : Int) ∨ c > (t.cols : Int)) := by omega
    simp [this]
  case osc8 p u => split <;> simp_all
  case decset n => repeat' split
                   all_goals simp
  case decrst n => repeat' split
                   all_goals simp
  all_goals simp

theorem run_noPrint (tw : String → Nat) (toks : List Tok) : ∀ (t : Term), (∀ k ∈ toks, NoPrint t.rows t.cols k) →
    (run tw t toks).grid = t.grid ∧ (run tw t toks).bad = t.bad ∧ (run tw t toks).rows = t.rows ∧
    (run tw t toks).cols = t.cols ∧ (run tw t toks).linkParams = lpRun t.linkParams toks := by
  induction toks with
  | nil => intro t _; simp [run, lpRun]
  | cons k ks ih =>
    intro t h
    obtain ⟨a1, a2, a3, a4, a5⟩ := step_noPrint tw t k (h k (by simp))
    have := ih (step tw t k) (by rw [a3, a4]; intro k' hk'; exact h k' (by simp [hk']))
    simp only [run, List.foldl_cons, lpRun] at *
    obtain ⟨b1, b2, b3, b4, b5⟩ := this
    exact ⟨b1.trans a1, b2.trans a2, b3.trans a3, b4.trans a4, by rw [b5, a5]⟩

/-- Style tokens (SGR, OSC 8) additionally leave the cursor alone. -/
def StyleTok : Tok → Prop
  | .sgr _ | .osc8 _ _ => True
  | _ => False

theorem step_style (tw : String → Nat) (t : Term) (k : Tok) (h : StyleTok k) :
    (step tw t k).row = t.row ∧ (step tw t k).col = t.col ∧ (step tw t k).pw = t.pw := by
  cases k <;> simp only [StyleTok] at h <;> simp only [step]
  case osc8 p u => split <;> simp
  all_goals simp

theorem run_style (tw : String → Nat) (toks : List Tok) (h : ∀ k ∈ toks, StyleTok k) : ∀ (t : Term),
    (run tw t toks).row = t.row ∧ (run tw t toks).col = t.col ∧ (run tw t toks).pw = t.pw := by
  induction toks with
  | nil => intro t; simp [run]
  | cons k ks ih =>
    intro t
    obtain ⟨a1, a2, a3⟩ := step_style tw t k (h k (by simp))
    obtain ⟨b1, b2, b3⟩ := ih (fun k' hk' => h k' (by simp [hk'])) (step tw t k)
    simp only [run, List.foldl_cons] at *
    exact ⟨b1.trans a1, b2.trans a2, b3.trans a3⟩

theorem StyleTok.noPrint {R C : Nat} {k : Tok} (h : StyleTok k) : NoPrint R C k := by
  cases k <;> simp [StyleTok] at h <;> trivial

/-! ### Printing one glyph -/

theorem putGlyph_ok (t : Term) (g : String) (w : Nat) (r : List DCell) (hw : 1 ≤ w) (hpw : t.pw = false)
    (hfit : t.col + w ≤ t.cols) (hr : t.grid[t.row]? = some r) :
    (putGlyph t g w).bad = t.bad ∧
    (putGlyph t g w).grid = t.grid.set t.row (writeRow r t.col w (DCell.glyph g w t.pen t.linkParams t.link)) ∧
    (putGlyph t g w).row = t.row ∧
    (t.col + w < t.cols → (putGlyph t g w).col = t.col + w ∧ (putGlyph t g w).pw = false) ∧
    (putGlyph t g w).pen = t.pen ∧ (putGlyph t g w).link = t.link ∧
    (putGlyph t g w).linkParams = t.linkParams ∧ (putGlyph t g w).rows = t.rows ∧ (putGlyph t g w).cols = t.cols := by
  unfold putGlyph
  have h1 : ¬ (w = 0) := by omega
  have h2 : ¬ (t.col + w > t.cols) := by omega
  simp only [h1, hpw, h2, if_false, hr, Bool.false_eq_true]
  split
  · refine ⟨rfl, rfl, rfl, ?_, rfl, rfl, rfl, rfl, rfl⟩
    intro h; omega
  · refine ⟨rfl, rfl, rfl, ?_, rfl, rfl, rfl, rfl, rfl⟩
    intro _; exact ⟨rfl, rfl⟩

/-- What `glyphTok` prints for an admissible cell: grapheme and width. -/
def shownG (cw : String → Nat) (c : Cell) : String := if cellWidth cw c ≤ 0 then "20" else c.g

theorem glyph_step (cw : String → Nat) (caps : Caps) (c : Cell) (t : Term) (hsp : cw "20" = 1)
    (hw0 : 0 ≤ c.w) (hok : WidthOk cw caps c) :
    step cw t (glyphTok cw caps c) = putGlyph t (shownG cw c) (advance cw c + 1) := by
  have hrw : resolvedW cw c = cellWidth cw c := rfl
  unfold glyphTok glyphTokW shownG
  rw [hrw]
  have hadv : advance cw c = (cellWidth cw c).toNat - 1 := adv_eq cw c
  by_cases h0 : cellWidth cw c = 0
  · have : cellWidth cw c ≤ 0 := by omega
    simp only [h0, if_true, step, hsp, hadv]
    rfl
  · have hpos : 0 < cellWidth cw c := by
      unfold cellWidth at h0 ⊢; split at h0 <;> split <;> omega
    have hn : ¬ (cellWidth cw c ≤ 0) := by omega
    simp only [h0, hn, if_false]
    have hwd : (cellWidth cw c).toNat = advance cw c + 1 := by omega
    split
    · rename_i h
      simp only [step]
      have : ¬ (cellWidth cw c < 1) := by omega
      simp only [this, if_false, hwd]
    · rename_i h
      simp only [step]
      congr 1
      rw [← hwd]
      unfold cellWidth at *
      rcases hok with hk | hk | hk
      · simp only [hk, if_true]; simp
      · split
        · simp
        · rw [hk]; simp
      · exfalso; apply h; refine ⟨?_, hk.2⟩
        have : ¬ c.w = 0 := by omega
        simp only [this, if_false]; exact hk.1

theorem expectedCell_eq (cw : String → Nat) (caps : Caps) (c : Cell) :
    expectedCell cw caps c = DCell.glyph (shownG cw c) (advance cw c + 1) (shown caps c.style) (lpOf c.style) c.style.link := by
  unfold expectedCell shownG lpOf
  rw [lpField_eq]
  have hadv : advance cw c = (cellWidth cw c).toNat - 1 := adv_eq cw c
  simp only
  split
  · rename_i h
    have : advance cw c = 0 := by omega
    rw [this]
  · rename_i h
    have : (cellWidth cw c).toNat = advance cw c + 1 := by omega
    rw [this]

/-! ### The pen delta on the terminal -/

theorem penDelta_split (caps : Caps) (pen next : Style) :
    ∃ sg, (∀ k ∈ sg, ∃ ps, k = Tok.sgr ps) ∧
      penDelta caps pen next = sg ++
        (if pen.link ≠ next.link ∨ (next.link ≠ "" ∧ pen.linkParams ≠ next.linkParams) then
           [Tok.osc8 (lpField (if next.link = "" then "" else next.linkParams)) next.link] else []) := by
  refine ⟨_, ?_, rfl⟩
  intro k hk
  simp only [List.mem_append] at hk
  rcases hk with (((h | h) | h) | h) | h
  · split at h
    · exact colorToks_cell _ _ _ k h
    · simp at h
  · split at h
    · exact colorToks_cell _ _ _ k h
    · simp at h
  · split at h
    · exact ulColorToks_cell _ _ k h
    · simp at h
  · exact attrToks_cell _ _ k h
  · repeat' split at h
    all_goals simp at h
    all_goals exact ⟨_, h⟩

theorem penDelta_style (caps : Caps) (pen next : Style) : ∀ k ∈ penDelta caps pen next, StyleTok k := by
  obtain ⟨sg, hsg, he⟩ := penDelta_split caps pen next
  rw [he]
  intro k hk
  rcases List.mem_append.mp hk with h | h
  · obtain ⟨ps, rfl⟩ := hsg k h; trivial
  · split at h <;> simp at h
    subst h; trivial

theorem lpRun_sgrs (p : String) (toks : List Tok) (h : ∀ k ∈ toks, ∃ ps, k = Tok.sgr ps) : lpRun p toks = p := by
  induction toks generalizing p with
  | nil => rfl
  | cons k ks ih =>
    obtain ⟨ps, hk⟩ := h k (by simp)
    subst hk
    simp only [lpRun, List.foldl_cons, lpStep]
    exact ih p (fun k' hk' => h k' (by simp [hk']))

theorem lpRun_penDelta (caps : Caps) (pen next : Style) :
    lpRun (lpOf pen) (penDelta caps pen next) = lpOf next := by
  obtain ⟨sg, hsg, he⟩ := penDelta_split caps pen next
  rw [he]
  have : ∀ b, lpRun (lpOf pen) (sg ++ b) = lpRun (lpOf pen) b := by
    intro b
    have := lpRun_sgrs (lpOf pen) sg hsg
    simp only [lpRun, List.foldl_append] at this ⊢
    rw [this]
  rw [this]
  by_cases hc : pen.link ≠ next.link ∨ (next.link ≠ "" ∧ pen.linkParams ≠ next.linkParams)
  · simp only [hc, if_true, lpRun, List.foldl_cons, List.foldl_nil, lpStep, lpOf]
    split <;> rfl
  · simp only [hc, if_false, lpRun, List.foldl_nil]
    have h1 : pen.link = next.link := by
      by_cases h : pen.link = next.link
      · exact h
      · exact absurd (Or.inl h) hc
    unfold lpOf
    by_cases h2 : next.link = ""
    · simp [h1, h2]
    · have : pen.linkParams = next.linkParams := by
        by_cases h : pen.linkParams = next.linkParams
        · exact h
        · exact absurd (Or.inr ⟨h2, h⟩) hc
      simp [h1, this]

/-- The terminal state just before a glyph is printed at `(row, col)` with tracked pen `pen`. -/
structure Cur (caps : Caps) (t : Term) (p : Style) (r c : Nat) : Prop where
  bad : t.bad = none
  row : t.row = r
  col : t.col = c
  pw : t.pw = false
  pen : t.pen = shown caps p
  link : t.link = p.link
  lp : t.linkParams = lpOf p

theorem delta_run (cw : String → Nat) (caps : Caps) (t : Term) (pen next : Style) (row col : Nat)
    (h : Cur caps t pen row col) :
    Cur caps (run cw t (penDelta caps pen next)) next row col ∧
    (run cw t (penDelta caps pen next)).grid = t.grid ∧
    (run cw t (penDelta caps pen next)).rows = t.rows ∧ (run cw t (penDelta caps pen next)).cols = t.cols := by
  have hst := penDelta_style caps pen next
  obtain ⟨a1, a2, a3, a4, a5⟩ := run_noPrint cw (penDelta caps pen next) t (fun k hk => (hst k hk).noPrint)
  obtain ⟨b1, b2, b3⟩ := run_style cw (penDelta caps pen next) hst t
  obtain ⟨c1, c2, _, _, _⟩ := run_fields cw (penDelta caps pen next) t
  refine ⟨⟨a2.trans h.bad, b1.trans h.row, b2.trans h.col, b3.trans h.pw, ?_, ?_, ?_⟩, a1, a3, a4⟩
  · rw [c2, h.pen, penRun_penDelta]
  · rw [c1, h.link, linkRun_penDelta]
  · rw [a5, h.lp, lpRun_penDelta]

/-- The terminal between two cells of the loop: pen and hyperlink are the tracked ones; if no
    reposition is pending the cursor stands at column `pos` of `row` (unless the row is full). -/
structure TInv (caps : Caps) (t : Term) (st : RSt) (row pos : Nat) : Prop where
  bad : t.bad = none
  pen : t.pen = shown caps st.pen
  link : t.link = st.pen.link
  lp : t.linkParams = lpOf st.pen
  cur : st.reposition = false → t.row = row ∧ (pos < t.cols → t.col = pos ∧ t.pw = false)

theorem cup_run (cw : String → Nat) (t : Term) (row col : Nat) (hr : row < t.rows) (hc : col < t.cols) :
    run cw t [Tok.cup (row + 1) (col + 1)] = { t with row := row, col := col, pw := false } := by
  simp only [run, List.foldl_cons, List.foldl_nil, step]
  have : ¬ ((row : Int) + 1 < 1 ∨ (col : Int) + 1 < 1 ∨ (row : Int) + 1 > t.rows ∨ (col : Int) + 1 > t.cols) := by omega
  simp only [this, if_false]
  simp

theorem pre_run (cw : String → Nat) (caps : Caps) (t : Term) (st : RSt) (row col : Nat)
    (h : TInv caps t st row col) (hr : row < t.rows) (hc : col < t.cols) :
    let pre : List Tok := if st.reposition then
        (if st.pen.link ≠ "" then [Tok.osc8 "" ""] else []) ++ [Tok.cup (row + 1) (col + 1)] else []
    let pen : Style := if st.reposition ∧ st.pen.link ≠ "" then { st.pen with link := "", linkParams := "" } else st.pen
    Cur caps (run cw t pre) pen row col ∧ (run cw t pre).grid = t.grid ∧
      (run cw t pre).rows = t.rows ∧ (run cw t pre).cols = t.cols := by
  intro pre pen
  by_cases hrp : st.reposition = true
  · by_cases hl : st.pen.link = ""
    · have hpre : pre = [Tok.cup (row + 1) (col + 1)] := by simp [pre, hrp, hl]
      have hpen : pen = st.pen := by simp [pen, hl]
      rw [hpre, hpen, cup_run cw t row col hr hc]
      exact ⟨⟨h.bad, rfl, rfl, rfl, h.pen, h.link, h.lp⟩, rfl, rfl, rfl⟩
    · have hpre : pre = [Tok.osc8 "" ""] ++ [Tok.cup (row + 1) (col + 1)] := by simp [pre, hrp, hl]
      have hpen : pen = { st.pen with link := "", linkParams := "" } := by simp [pen, hrp, hl]
      rw [hpre, hpen, run_append]
      have h1 : run cw t [Tok.osc8 "" ""] = { t with link := "", linkParams := "" } := by
        simp [run, step]
      rw [h1, cup_run cw { t with link := "", linkParams := "" } row col hr hc]
      refine ⟨⟨h.bad, rfl, rfl, rfl, ?_, rfl, ?_⟩, rfl, rfl, rfl⟩
      · simp only [h.pen]; rfl
      · simp [lpOf]
  · have hrp' : st.reposition = false := by simpa using hrp
    have hpre : pre = [] := by simp [pre, hrp']
    have hpen : pen = st.pen := by simp [pen, hrp']
    rw [hpre, hpen]
    obtain ⟨c1, c2⟩ := h.cur hrp'
    obtain ⟨c2, c3⟩ := c2 hc
    exact ⟨⟨h.bad, c1, c2, c3, h.pen, h.link, h.lp⟩, rfl, rfl, rfl⟩

/-- **One written cell**: the tokens `render` writes for a changed cell put exactly the expected
    display cell at the current column of the row under work. -/
theorem cell_write (cw : String → Nat) (caps : Caps) (hsp : cw "20" = 1) (t : Term) (st : RSt) (row col : Nat)
    (n : Cell) (P : List DCell) (k : Nat) (v : VCell) (vs : List VCell)
    (h : TInv caps t st row col) (hr : row < t.rows) (hcols : col + (v :: vs).length = t.cols)
    (hg : t.grid[row]? = some (P ++ sRow 0 k (v :: vs))) (hP : P.length = col)
    (hok : ∀ x ∈ v :: vs, VOk x) (hfit : advance cw n + 1 ≤ (v :: vs).length)
    (hw0 : 0 ≤ n.w) (hwok : WidthOk cw caps n) (o : List Tok) :
    let pre : List Tok := if st.reposition then
        (if st.pen.link ≠ "" then [Tok.osc8 "" ""] else []) ++ [Tok.cup (row + 1) (col + 1)] else []
    let pen : Style := if st.reposition ∧ st.pen.link ≠ "" then { st.pen with link := "", linkParams := "" } else st.pen
    let t' := run cw t (pre ++ penDelta caps pen n.style ++ [glyphTok cw caps n])
    t'.grid = t.grid.set row (P ++ expectedCell cw caps n :: sRow (advance cw n) (nextL k v) vs) ∧
    t'.rows = t.rows ∧ t'.cols = t.cols ∧
    TInv caps t' { reposition := false, pen := n.style, out := o } row (col + 1 + advance cw n) := by
  intro pre pen t'
  have hc : col < t.cols := by simp at hcols; omega
  obtain ⟨hc1, g1, r1, c1⟩ := pre_run cw caps t st row col h hr hc
  obtain ⟨hc2, g2, r2, c2⟩ := delta_run cw caps (run cw t pre) pen n.style row col hc1
  have ht' : t' = putGlyph (run cw (run cw t pre) (penDelta caps pen n.style)) (shownG cw n) (advance cw n + 1) := by
    simp only [t', run_append]
    simp only [run, List.foldl_cons, List.foldl_nil]
    exact glyph_step cw caps n _ hsp hw0 hwok
  generalize run cw (run cw t pre) (penDelta caps pen n.style) = t2 at hc2 g2 r2 c2 ht'
  have hg2 : t2.grid[t2.row]? = some (P ++ sRow 0 k (v :: vs)) := by rw [hc2.row, g2, g1]; exact hg
  have hfit2 : t2.col + (advance cw n + 1) ≤ t2.cols := by rw [hc2.col, c2, c1, ← hcols]; omega
  obtain ⟨p1, p2, p3, p4, p5, p6, p7, p8, p9⟩ := putGlyph_ok t2 (shownG cw n) (advance cw n + 1) _ (by omega) hc2.pw hfit2 hg2
  rw [← ht'] at p1 p2 p3 p4 p5 p6 p7 p8 p9
  refine ⟨?_, by rw [p8, r2, r1], by rw [p9, c2, c1], ⟨by rw [p1, hc2.bad], by rw [p5, hc2.pen], by rw [p6, hc2.link], by rw [p7, hc2.lp], ?_⟩⟩
  · rw [p2, hc2.row, hc2.col, g2, g1, ← hP, writeRow_sRow P k v vs _ _ hok (by omega) hfit]
    rw [hc2.pen, hc2.lp, hc2.link, ← expectedCell_eq]
    simp
  · intro _
    refine ⟨by rw [p3, hc2.row], ?_⟩
    intro hlt
    rw [p9, c2, c1] at hlt
    have := p4 (by rw [hc2.col, c2, c1]; omega)
    rw [hc2.col] at this
    exact ⟨by rw [this.1]; omega, this.2⟩

/-- Tokens written for one changed cell. -/
def cellToks (cw : String → Nat) (caps : Caps) (st : RSt) (row col : Nat) (n : Cell) : List Tok :=
  (if st.reposition then
      (if st.pen.link ≠ "" then [Tok.osc8 "" ""] else []) ++ [Tok.cup (row + 1) (col + 1)]
    else []) ++
  penDelta caps (if st.reposition ∧ st.pen.link ≠ "" then { st.pen with link := "", linkParams := "" } else st.pen) n.style ++
  [glyphTok cw caps n]

theorem renderCells_write_eq (cw : String → Nat) (caps : Caps) (refresh : Bool) (row col : Nat) (track : Bool)
    (dirty : Nat) (n l : Cell) (ns ls : List Cell) (st : RSt) (h : n.sixel = false)
    (hc : ¬ (n = l ∧ ¬ refresh ∧ col ≥ dirty)) :
    renderCells cw caps refresh row col 0 track dirty (n :: ns) (l :: ls) st =
      (n :: (renderCells cw caps refresh row (col + 1) (advance cw n) true
              (if col + advance cw l + 1 > dirty then col + advance cw l + 1 else dirty) ns ls
              { reposition := false, pen := n.style, out := st.out ++ cellToks cw caps st row col n }).1,
       (renderCells cw caps refresh row (col + 1) (advance cw n) true
              (if col + advance cw l + 1 > dirty then col + advance cw l + 1 else dirty) ns ls
              { reposition := false, pen := n.style, out := st.out ++ cellToks cw caps st row col n }).2) := by
  simp only [renderCells, h, hc, Bool.false_eq_true, if_false]
  rfl

theorem renderCells_equal_eq (cw : String → Nat) (caps : Caps) (refresh : Bool) (row col : Nat) (track : Bool)
    (dirty : Nat) (n l : Cell) (ns ls : List Cell) (st : RSt) (h : n.sixel = false)
    (hc : n = l ∧ ¬ refresh ∧ col ≥ dirty) :
    renderCells cw caps refresh row col 0 track dirty (n :: ns) (l :: ls) st =
      (l :: (renderCells cw caps refresh row (col + 1) (advance cw n) false dirty ns ls { st with reposition := true }).1,
       (renderCells cw caps refresh row (col + 1) (advance cw n) false dirty ns ls { st with reposition := true }).2) := by
  simp only [renderCells]
  rw [if_neg (by simp [h]), if_pos hc]

/-! ### The cell loop of one row -/

/-- What one run of the cell loop over (the rest of) a row achieves. `G R C` are the grid and the
    dimensions of the terminal before, `P` the finished part of the row. -/
def CellsPost (cw : String → Nat) (caps : Caps) (row : Nat) (t0 : Term) (G : List (List DCell)) (R C : Nat)
    (P : List DCell) (skip : Nat) (ns : List Cell) (res : List Cell × RSt) : Prop :=
  (run cw t0 res.2.out).grid = G.set row (P ++ expectedRow cw caps skip ns) ∧
  (run cw t0 res.2.out).rows = R ∧ (run cw t0 res.2.out).cols = C ∧
  (run cw t0 res.2.out).bad = none ∧ (run cw t0 res.2.out).pen = shown caps res.2.pen ∧
  (run cw t0 res.2.out).link = res.2.pen.link ∧ (run cw t0 res.2.out).linkParams = lpOf res.2.pen ∧
  expectedRow cw caps skip res.1 = expectedRow cw caps skip ns ∧ res.1.length = ns.length

theorem set_self {α : Type} (l : List α) (i : Nat) (a : α) (h : l[i]? = some a) : l.set i a = l := by
  apply List.ext_getElem?
  intro j
  rw [List.getElem?_set]
  split
  · rename_i e; subst e
    have : i < l.length := by
      rcases Nat.lt_or_ge i l.length with h' | h'
      · exact h'
      · rw [List.getElem?_eq_none h'] at h; simp at h
    simp only [this, if_true]; exact h.symm
  · rfl

theorem post_nil (cw : String → Nat) (caps : Caps) (row : Nat) (t0 : Term) (P : List DCell) (skip : Nat)
    (st : RSt) (pos : Nat) (hg : (run cw t0 st.out).grid[row]? = some P)
    (hinv : TInv caps (run cw t0 st.out) st row pos) :
    CellsPost cw caps row t0 (run cw t0 st.out).grid (run cw t0 st.out).rows (run cw t0 st.out).cols P skip []
      ([], st) := by
  have : expectedRow cw caps skip [] = [] := by cases skip <;> rfl
  unfold CellsPost
  rw [this, List.append_nil, set_self _ _ _ hg]
  exact ⟨rfl, rfl, rfl, hinv.bad, hinv.pen, hinv.link, hinv.lp, rfl, rfl⟩

theorem post_skip (cw : String → Nat) (caps : Caps) (row : Nat) (t0 : Term) (G : List (List DCell)) (R C : Nat)
    (P : List DCell) (skip : Nat) (n : Cell) (ns : List Cell) (res : List Cell × RSt)
    (h : CellsPost cw caps row t0 G R C (P ++ [DCell.cont]) skip ns res) :
    CellsPost cw caps row t0 G R C P (skip + 1) (n :: ns) (({} : Cell) :: res.1, res.2) := by
  obtain ⟨h1, h2, h3, h4, h5, h6, h7, h8, h9⟩ := h
  refine ⟨?_, h2, h3, h4, h5, h6, h7, ?_, ?_⟩
  · rw [h1]; simp [expectedRow]
  · simp only [expectedRow, h8]
  · simp [h9]

theorem post_head (cw : String → Nat) (caps : Caps) (row : Nat) (t0 : Term) (G G' : List (List DCell)) (R C : Nat)
    (P : List DCell) (n : Cell) (ns : List Cell) (res : List Cell × RSt)
    (hG : ∀ Y, G'.set row Y = G.set row Y)
    (h : CellsPost cw caps row t0 G' R C (P ++ [expectedCell cw caps n]) (advance cw n) ns res) :
    CellsPost cw caps row t0 G R C P 0 (n :: ns) (n :: res.1, res.2) := by
  obtain ⟨h1, h2, h3, h4, h5, h6, h7, h8, h9⟩ := h
  refine ⟨?_, h2, h3, h4, h5, h6, h7, ?_, ?_⟩
  · rw [h1, hG]; simp [expectedRow, adv_eq]
  · simp only [expectedRow, ← adv_eq, h8]
  · simp [h9]

theorem renderCells_display (cw : String → Nat) (caps : Caps) (refresh : Bool) (row : Nat) (hsp : cw "20" = 1)
    (t0 : Term) :
    ∀ (ns ls : List Cell) (col skip : Nat) (track : Bool) (dirty : Nat) (st : RSt) (V : List VCell) (k : Nat)
      (P : List DCell) (t : Term), run cw t0 st.out = t →
      ns.length = ls.length → V.length = ns.length → (∀ v ∈ V, VOk v) →
      t.grid[row]? = some (P ++ sRow skip k V) → P.length = col → col + ns.length = t.cols → row < t.rows →
      (refresh = false → V = ls.map (phi cw caps) ∧ (skip < k → col + k ≤ dirty) ∧ (track = false → k = skip)) →
      FitsRow cw skip ns → (∀ c ∈ ns, c.sixel = false ∧ 0 ≤ c.w ∧ WidthOk cw caps c) →
      TInv caps t st row (col + skip) →
      CellsPost cw caps row t0 t.grid t.rows t.cols P skip ns
        (renderCells cw caps refresh row col skip track dirty ns ls st) := by
  intro ns
  induction ns with
  | nil =>
    intro ls col skip track dirty st V k P t ht hl hV hok hg hP hcols hr href hfit hcells hinv
    have hV0 : V = [] := by simpa using hV
    subst hV0
    have hs : sRow skip k [] = [] := by cases skip <;> cases k <;> rfl
    rw [hs, List.append_nil] at hg
    subst ht
    simp only [renderCells]
    exact post_nil cw caps row t0 P skip st _ hg hinv
  | cons n ns ih =>
    intro ls col skip track dirty st V k P t ht hl hV hok hg hP hcols hr href hfit hcells hinv
    cases ls with
    | nil => simp at hl
    | cons l ls =>
      cases V with
      | nil => simp at hV
      | cons v vs =>
        have hl' : ns.length = ls.length := by simpa using hl
        have hV' : vs.length = ns.length := by simpa using hV
        have hok' : ∀ x ∈ vs, VOk x := fun x hx => hok x (by simp [hx])
        have hcells' : ∀ c ∈ ns, c.sixel = false ∧ 0 ≤ c.w ∧ WidthOk cw caps c := fun c hc => hcells c (by simp [hc])
        cases skip with
        | succ skip =>
          simp only [renderCells]
          apply post_skip
          have hg' : t.grid[row]? = some ((P ++ [DCell.cont]) ++ sRow skip (nextL k v) vs) := by
            rw [hg]; simp [sRow]
          refine ih ls (col + 1) skip track _ st vs (nextL k v) (P ++ [DCell.cont]) t ht hl' hV' hok' hg'
            (by simp [hP]) (by simp at hcols; omega) hr ?_ hfit hcells' ?_
          · intro hrf
            obtain ⟨e1, e2, e3⟩ := href hrf
            simp only [List.map_cons, List.cons.injEq] at e1
            have hv2 : v.2 = advance cw l := by rw [e1.1]; rfl
            refine ⟨e1.2, ?_, ?_⟩
            · intro hlt
              cases track with
              | false =>
                have := e3 rfl
                subst this
                simp [nextL] at hlt
              | true =>
                simp only [true_and]
                by_cases hk : k = 0
                · subst hk
                  simp only [nextL, if_true, hv2] at hlt ⊢
                  split <;> omega
                · have hn : nextL k v = k - 1 := by simp [nextL, hk]
                  rw [hn] at hlt ⊢
                  have := e2 (by omega)
                  split <;> omega
            · intro htr
              have := e3 htr
              subst this
              simp [nextL]
          · have : col + 1 + skip = col + (skip + 1) := by omega
            rw [this]; exact hinv
        | zero =>
          obtain ⟨hsx, hw0, hwok⟩ := hcells n (by simp)
          have hfit0 : (cellWidth cw n).toNat ≤ (n :: ns).length ∧ FitsRow cw ((cellWidth cw n).toNat - 1) ns := hfit
          by_cases hc : n = l ∧ ¬ refresh ∧ col ≥ dirty
          · rw [renderCells_equal_eq cw caps refresh row col track dirty n l ns ls st hsx hc]
            obtain ⟨hnl, hrf, hcd⟩ := hc
            have hrf' : refresh = false := by simpa using hrf
            obtain ⟨e1, e2, e3⟩ := href hrf'
            have hk : k = 0 := by
              rcases Nat.eq_zero_or_pos k with h | h
              · exact h
              · have := e2 h; omega
            subst hk; subst hnl
            simp only [List.map_cons, List.cons.injEq] at e1
            obtain ⟨ev, evs⟩ := e1
            apply post_head cw caps row t0 t.grid t.grid _ _ P n ns _ (fun _ => rfl)
            have hg' : t.grid[row]? = some ((P ++ [expectedCell cw caps n]) ++ sRow (advance cw n) (advance cw n) vs) := by
              rw [hg, ev]; simp [sRow, phi, sRow_diag]
            exact ih ls (col + 1) (advance cw n) false dirty { st with reposition := true } vs (advance cw n)
              (P ++ [expectedCell cw caps n]) t ht hl' hV' hok' hg' (by simp [hP]) (by simp at hcols; omega) hr
              (fun _ => ⟨evs, by omega, fun _ => rfl⟩) (by rw [adv_eq]; exact hfit0.2) hcells'
              ⟨hinv.bad, hinv.pen, hinv.link, hinv.lp, by intro h; simp at h⟩
          · rw [renderCells_write_eq cw caps refresh row col track dirty n l ns ls st hsx hc]
            have hfitw : advance cw n + 1 ≤ (v :: vs).length := by
              rw [adv_eq]; simp only [List.length_cons, hV'] at hfit0 ⊢; omega
            have hcw := cell_write cw caps hsp t st row col n P k v vs (by simpa using hinv) hr
              (by simp only [List.length_cons, hV'] at hcols ⊢; omega) hg hP hok hfitw hw0 hwok
            generalize hst' : (RSt.mk false n.style (st.out ++ cellToks cw caps st row col n)) = st'
            have hcw' : (run cw t (cellToks cw caps st row col n)).grid
                  = t.grid.set row (P ++ expectedCell cw caps n :: sRow (advance cw n) (nextL k v) vs) ∧
                (run cw t (cellToks cw caps st row col n)).rows = t.rows ∧
                (run cw t (cellToks cw caps st row col n)).cols = t.cols ∧
                TInv caps (run cw t (cellToks cw caps st row col n)) { reposition := false, pen := n.style, out := st'.out }
                  row (col + 1 + advance cw n) := hcw st'.out
            generalize ht' : run cw t (cellToks cw caps st row col n) = t' at hcw'
            obtain ⟨g1, r1, c1, inv1⟩ := hcw'
            have hrun : run cw t0 st'.out = t' := by
              rw [← hst', ← ht', ← ht, run_append]
            have hst'e : ({ reposition := false, pen := n.style, out := st'.out } : RSt) = st' := by
              rw [← hst']
            rw [hst'e] at inv1
            have hg' : t'.grid[row]? = some ((P ++ [expectedCell cw caps n]) ++ sRow (advance cw n) (nextL k v) vs) := by
              rw [g1, List.getElem?_set]
              have : row < t.grid.length := by
                rcases Nat.lt_or_ge row t.grid.length with h' | h'
                · exact h'
                · rw [List.getElem?_eq_none h'] at hg; simp at hg
              simp [this]
            have hpost := ih ls (col + 1) (advance cw n) true
              (if col + advance cw l + 1 > dirty then col + advance cw l + 1 else dirty) st' vs (nextL k v)
              (P ++ [expectedCell cw caps n]) t' hrun hl' hV' hok' hg' (by simp [hP])
              (by rw [c1]; simp at hcols; omega) (by rw [r1]; exact hr) ?_ (by rw [adv_eq]; exact hfit0.2) hcells' inv1
            · rw [r1, c1] at hpost
              refine post_head cw caps row t0 t.grid t'.grid _ _ P n ns _ ?_ hpost
              intro Y; rw [g1, List.set_set]
            · intro hrf
              obtain ⟨e1, e2, e3⟩ := href hrf
              simp only [List.map_cons, List.cons.injEq] at e1
              have hv2 : v.2 = advance cw l := by rw [e1.1]; rfl
              refine ⟨e1.2, ?_, fun h => by simp at h⟩
              intro hlt
              by_cases hk : k = 0
              · subst hk
                simp only [nextL, if_true, hv2] at hlt ⊢
                split <;> omega
              · have hn : nextL k v = k - 1 := by simp [nextL, hk]
                rw [hn] at hlt ⊢
                have := e2 (by omega)
                split <;> omega

/-! ### All rows -/

/-- A terminal row `r` is well formed (describable by a parse) and, unless the frame is a refresh,
    shows the row `l` of the previous frame. -/
def RowOk (cw : String → Nat) (caps : Caps) (refresh : Bool) (C : Nat) (r : List DCell) (l : List Cell) : Prop :=
  ∃ V : List VCell, r = eRow 0 V ∧ V.length = C ∧ (∀ v ∈ V, VOk v) ∧ (refresh = false → V = l.map (phi cw caps))

def RowsOk (cw : String → Nat) (caps : Caps) (refresh : Bool) (C : Nat) : List (List DCell) → Grid → Prop
  | [], [] => True
  | r :: rs, l :: ls => RowOk cw caps refresh C r l ∧ RowsOk cw caps refresh C rs ls
  | _, _ => False

def RowsPost (cw : String → Nat) (caps : Caps) (t0 : Term) (D : List (List DCell)) (R C : Nat) (ns : Grid)
    (res : Grid × RSt) : Prop :=
  (run cw t0 res.2.out).grid = D ++ expected cw caps ns ∧
  (run cw t0 res.2.out).rows = R ∧ (run cw t0 res.2.out).cols = C ∧
  (run cw t0 res.2.out).bad = none ∧ (run cw t0 res.2.out).pen = shown caps res.2.pen ∧
  (run cw t0 res.2.out).link = res.2.pen.link ∧ (run cw t0 res.2.out).linkParams = lpOf res.2.pen ∧
  expected cw caps res.1 = expected cw caps ns

theorem renderRows_display (cw : String → Nat) (caps : Caps) (refresh : Bool) (hsp : cw "20" = 1) (t0 : Term) :
    ∀ (ns ls : Grid) (row : Nat) (st : RSt) (D Rm : List (List DCell)) (t : Term), run cw t0 st.out = t →
      ns.length = ls.length → t.grid = D ++ Rm → D.length = row → row + ns.length = t.rows →
      (∀ r ∈ ns, r.length = t.cols) → (∀ r ∈ ls, r.length = t.cols) →
      RowsOk cw caps refresh t.cols Rm ls →
      Fits cw ns → (∀ r ∈ ns, ∀ c ∈ r, c.sixel = false ∧ 0 ≤ c.w ∧ WidthOk cw caps c) →
      t.bad = none → t.pen = shown caps st.pen → t.link = st.pen.link → t.linkParams = lpOf st.pen →
      RowsPost cw caps t0 D t.rows t.cols ns (renderRows cw caps refresh row ns ls st) := by
  intro ns
  induction ns with
  | nil =>
    intro ls row st D Rm t ht hl hg hD hrows hn hlc hok hfit hcells hbad hpen hlink hlp
    have : ls = [] := by cases ls with
      | nil => rfl
      | cons _ _ => simp at hl
    subst this
    have : Rm = [] := by cases Rm with
      | nil => rfl
      | cons _ _ => simp [RowsOk] at hok
    subst this
    subst ht
    simp only [renderRows]
    exact ⟨by simpa [expected] using hg, rfl, rfl, hbad, hpen, hlink, hlp, rfl⟩
  | cons n ns ih =>
    intro ls row st D Rm t ht hl hg hD hrows hn hlc hok hfit hcells hbad hpen hlink hlp
    cases ls with
    | nil => simp at hl
    | cons l ls =>
      cases Rm with
      | nil => simp [RowsOk] at hok
      | cons r Rm =>
        obtain ⟨⟨V, hrV, hVlen, hVok, hVref⟩, hok'⟩ := hok
        have hnl : n.length = t.cols := hn n (by simp)
        have hll : l.length = t.cols := hlc l (by simp)
        have hgrow : t.grid[row]? = some ([] ++ sRow 0 0 V) := by
          rw [hg, ← hD, List.getElem?_append_right (Nat.le_refl _)]
          simp [hrV, sRow_zero_zero]
        have hc := renderCells_display cw caps refresh row hsp t0 n l 0 0 false 0 { st with reposition := true } V 0 [] t
          ht (by rw [hnl, hll]) (by rw [hVlen, hnl]) hVok hgrow rfl (by rw [hnl]; omega)
          (by simp at hrows; omega)
          (fun h => ⟨hVref h, fun h' => absurd h' (Nat.lt_irrefl 0), fun _ => rfl⟩)
          (hfit n (by simp)) (hcells n (by simp))
          ⟨hbad, hpen, hlink, hlp, by intro h; simp at h⟩
        simp only [renderRows]
        generalize renderCells cw caps refresh row 0 0 false 0 n l { st with reposition := true } = rc at hc
        obtain ⟨l', st'⟩ := rc
        obtain ⟨g1, r1, c1, b1, p1, k1, q1, e1, len1⟩ := hc
        simp only at g1 r1 c1 b1 p1 k1 q1 e1 len1
        have hg1 : (run cw t0 st'.out).grid = (D ++ [expectedRow cw caps 0 n]) ++ Rm := by
          rw [g1, hg, ← hD]; simp
        have := ih ls (row + 1) st' (D ++ [expectedRow cw caps 0 n]) Rm (run cw t0 st'.out) rfl
          (by simpa using hl) hg1 (by simp [hD]) (by rw [r1]; simp at hrows; omega)
          (by rw [c1]; exact fun r hr => hn r (by simp [hr])) (by rw [c1]; exact fun r hr => hlc r (by simp [hr]))
          (by rw [c1]; exact hok') (fun r hr => hfit r (by simp [hr])) (fun r hr => hcells r (by simp [hr]))
          b1 p1 k1 q1
        rw [r1, c1] at this
        obtain ⟨a1, a2, a3, a4, a5, a6, a7, a8⟩ := this
        refine ⟨?_, a2, a3, a4, a5, a6, a7, ?_⟩
        · rw [a1]; simp [expected]
        · simp only [expected, List.map_cons] at a8 ⊢
          rw [a8, e1]

/-! ### Well-formed terminal rows -/

/-- A terminal row is well formed when every continuation cell is owned: a glyph of width `w` is
    followed by exactly `w - 1` continuation cells (fewer only at the end of the row). `k` =
    continuation cells still owed. -/
def WFRow : Nat → List DCell → Prop
  | _, [] => True
  | 0, DCell.glyph _ w _ _ _ :: r => 1 ≤ w ∧ WFRow (w - 1) r
  | 0, DCell.poison :: r => WFRow 0 r
  | 0, DCell.cont :: _ => False
  | k + 1, DCell.cont :: r => WFRow k r
  | _ + 1, DCell.glyph _ _ _ _ _ :: _ => False
  | _ + 1, DCell.poison :: _ => False

theorem wf_eRow : ∀ (r : List DCell) (k : Nat), WFRow k r →
    ∃ V : List VCell, r = eRow k V ∧ V.length = r.length ∧ ∀ v ∈ V, VOk v := by
  intro r
  induction r with
  | nil => intro k _; exact ⟨[], by cases k <;> rfl, rfl, by simp⟩
  | cons x r ih =>
    intro k h
    cases k with
    | zero =>
      cases x with
      | glyph g w st lp lk =>
        obtain ⟨hw, h'⟩ := h
        obtain ⟨V, e, hl, hv⟩ := ih (w - 1) h'
        refine ⟨(DCell.glyph g w st lp lk, w - 1) :: V, by simp [eRow, ← e], by simp [hl], ?_⟩
        intro v hv'
        rcases List.mem_cons.mp hv' with rfl | hv'
        · left; exact ⟨g, st, lp, lk, by simp; omega⟩
        · exact hv v hv'
      | cont => exact absurd h (by simp [WFRow])
      | poison =>
        obtain ⟨V, e, hl, hv⟩ := ih 0 h
        refine ⟨(DCell.poison, 0) :: V, by simp [eRow, ← e], by simp [hl], ?_⟩
        intro v hv'
        rcases List.mem_cons.mp hv' with rfl | hv'
        · right; exact ⟨rfl, rfl⟩
        · exact hv v hv'
    | succ k =>
      cases x with
      | glyph g w st lp lk => exact absurd h (by simp [WFRow])
      | poison => exact absurd h (by simp [WFRow])
      | cont =>
        obtain ⟨V, e, hl, hv⟩ := ih k h
        refine ⟨(DCell.poison, 0) :: V, by simp [eRow, ← e], by simp [hl], ?_⟩
        intro v hv'
        rcases List.mem_cons.mp hv' with rfl | hv'
        · right; exact ⟨rfl, rfl⟩
        · exact hv v hv'

theorem eRow_wf : ∀ (V : List VCell) (k : Nat), (∀ v ∈ V, VOk v) → WFRow k (eRow k V) := by
  intro V
  induction V with
  | nil => intro k _; cases k <;> simp [eRow, WFRow]
  | cons v V ih =>
    intro k h
    have h' : ∀ x ∈ V, VOk x := fun x hx => h x (by simp [hx])
    cases k with
    | succ k => simp only [eRow, WFRow]; exact ih k h'
    | zero =>
      simp only [eRow]
      rcases h v (by simp) with ⟨g, st, lp, lk, e⟩ | ⟨e1, e2⟩
      · rw [e]; simp only [WFRow]; exact ⟨by omega, by simpa using ih v.2 h'⟩
      · rw [e1, e2]; simp only [WFRow]; exact ih 0 h'

/-- What the application's row means is a well-formed terminal row. -/
theorem expectedRow_wf (cw : String → Nat) (caps : Caps) (l : List Cell) : WFRow 0 (expectedRow cw caps 0 l) := by
  rw [← eRow_map_phi]
  apply eRow_wf
  intro v hv
  obtain ⟨c, _, rfl⟩ := List.mem_map.mp hv
  exact phi_ok cw caps c

/-! ### Tokens of the flush prologue -/

def PreTok : Tok → Prop
  | .decset _ | .decrst _ | .pointer _ => True
  | _ => False

theorem step_preTok (tw : String → Nat) (t : Term) (k : Tok) (h : PreTok k) :
    (step tw t k).grid = t.grid ∧ (step tw t k).bad = t.bad ∧ (step tw t k).rows = t.rows ∧
    (step tw t k).cols = t.cols ∧ (step tw t k).pen = t.pen ∧ (step tw t k).link = t.link ∧
    (step tw t k).linkParams = t.linkParams := by
  cases k <;> simp only [PreTok] at h <;> simp only [step]
  case decset n => repeat' split
                   all_goals simp
  case decrst n => repeat' split
                   all_goals simp
  all_goals simp

theorem run_preToks (tw : String → Nat) (toks : List Tok) (h : ∀ k ∈ toks, PreTok k) : ∀ (t : Term),
    (run tw t toks).grid = t.grid ∧ (run tw t toks).bad = t.bad ∧ (run tw t toks).rows = t.rows ∧
    (run tw t toks).cols = t.cols ∧ (run tw t toks).pen = t.pen ∧ (run tw t toks).link = t.link ∧
    (run tw t toks).linkParams = t.linkParams := by
  induction toks with
  | nil => intro t; simp [run]
  | cons k ks ih =>
    intro t
    obtain ⟨a1, a2, a3, a4, a5, a6, a7⟩ := step_preTok tw t k (h k (by simp))
    obtain ⟨b1, b2, b3, b4, b5, b6, b7⟩ := ih (fun k' hk' => h k' (by simp [hk'])) (step tw t k)
    simp only [run, List.foldl_cons] at *
    exact ⟨b1.trans a1, b2.trans a2, b3.trans a3, b4.trans a4, b5.trans a5, b6.trans a6, b7.trans a7⟩

/-! ### The whole frame -/

theorem rowsOk_of (cw : String → Nat) (caps : Caps) (refresh : Bool) (C : Nat) :
    ∀ (G : List (List DCell)) (ls : Grid), G.length = ls.length →
      (∀ r ∈ G, r.length = C) → (∀ l ∈ ls, l.length = C) →
      (refresh = false → G = expected cw caps ls) → (refresh = true → ∀ r ∈ G, WFRow 0 r) →
      RowsOk cw caps refresh C G ls := by
  intro G
  induction G with
  | nil => intro ls hl _ _ _ _; cases ls with
    | nil => trivial
    | cons _ _ => simp at hl
  | cons r G ih =>
    intro ls hl hG hL hag hwf
    cases ls with
    | nil => simp at hl
    | cons l ls =>
      refine ⟨?_, ih ls (by simpa using hl) (fun r hr => hG r (by simp [hr])) (fun l hl' => hL l (by simp [hl']))
        (fun h => by have := hag h; simp only [expected, List.map_cons, List.cons.injEq] at this; exact this.2)
        (fun h r hr => hwf h r (by simp [hr]))⟩
      cases refresh with
      | false =>
        have := hag rfl
        simp only [expected, List.map_cons, List.cons.injEq] at this
        refine ⟨l.map (phi cw caps), by rw [this.1, eRow_map_phi], by simp [hL l (by simp)], ?_, fun _ => rfl⟩
        intro v hv
        obtain ⟨c, _, rfl⟩ := List.mem_map.mp hv
        exact phi_ok cw caps c
      | true =>
        obtain ⟨V, e, hlen, hv⟩ := wf_eRow r 0 (hwf rfl r (by simp))
        exact ⟨V, e, by rw [hlen]; exact hG r (by simp), hv, fun h => by simp at h⟩

theorem frame_core (cw : String → Nat) (hsp : cw "20" = 1) (f : Frame) (t : Term) (X Y pre : List Tok)
    (hX : ∀ k ∈ X, PreTok k) (hY : ∀ k ∈ Y, NoPrint t.rows t.cols k)
    (hpre : pre = [] ∨ ∃ s, pre = [Tok.pointer s])
    (hpen : t.pen = TStyle.reset) (hlink : t.link = "") (hlp : t.linkParams = "") (hbad : t.bad = none)
    (hlen : t.grid.length = f.next.length) (hlast : f.last.length = f.next.length)
    (hgc : ∀ r ∈ t.grid, r.length = t.cols) (hnc : ∀ r ∈ f.next, r.length = t.cols)
    (hlc : ∀ r ∈ f.last, r.length = t.cols) (hrows : t.rows = f.next.length) (hfits : Fits cw f.next)
    (hcells : ∀ r ∈ f.next, ∀ c ∈ r, c.sixel = false ∧ 0 ≤ c.w ∧ WidthOk cw f.caps c)
    (hagree : f.refresh = false → t.grid = expected cw f.caps f.last)
    (hwf : f.refresh = true → ∀ r ∈ t.grid, WFRow 0 r) :
    (run cw t (X ++ (renderRows cw f.caps f.refresh 0 f.next f.last { out := pre }).2.out ++ Y)).bad = none ∧
    (run cw t (X ++ (renderRows cw f.caps f.refresh 0 f.next f.last { out := pre }).2.out ++ Y)).grid
      = expected cw f.caps f.next ∧
    expected cw f.caps (renderRows cw f.caps f.refresh 0 f.next f.last { out := pre }).1 = expected cw f.caps f.next ∧
    (run cw t (X ++ (renderRows cw f.caps f.refresh 0 f.next f.last { out := pre }).2.out ++ Y)).linkParams
      = lpRun (lpOf (renderRows cw f.caps f.refresh 0 f.next f.last { out := pre }).2.pen) Y ∧
    (run cw t (X ++ (renderRows cw f.caps f.refresh 0 f.next f.last { out := pre }).2.out ++ Y)).rows = t.rows ∧
    (run cw t (X ++ (renderRows cw f.caps f.refresh 0 f.next f.last { out := pre }).2.out ++ Y)).cols = t.cols := by
  obtain ⟨x1, x2, x3, x4, x5, x6, x7⟩ := run_preToks cw X hX t
  have hpt : ∀ k ∈ pre, PreTok k := by
    rcases hpre with h | ⟨s, h⟩ <;> subst h <;> simp [PreTok]
  obtain ⟨y1, y2, y3, y4, y5, y6, y7⟩ := run_preToks cw pre hpt (run cw t X)
  have hpost := renderRows_display cw f.caps f.refresh hsp (run cw t X) f.next f.last 0 { out := pre } []
    (run cw (run cw t X) pre).grid (run cw (run cw t X) pre) rfl hlast.symm (by simp) rfl
    (by rw [y3, x3, hrows]; simp) (by rw [y4, x4]; exact hnc) (by rw [y4, x4]; exact hlc)
    (by rw [y4, x4, y1, x1]; exact rowsOk_of cw f.caps f.refresh t.cols t.grid f.last (by rw [hlen, hlast]) hgc hlc hagree hwf)
    hfits hcells (by rw [y2, x2, hbad]) (by rw [y5, x5, hpen, shown_default]) (by rw [y6, x6, hlink])
    (by rw [y7, x7, hlp]; rfl)
  generalize renderRows cw f.caps f.refresh 0 f.next f.last { out := pre } = res at hpost
  obtain ⟨p1, p2, p3, p4, p5, p6, p7, p8⟩ := hpost
  rw [y3, x3] at p2
  rw [y4, x4] at p3
  rw [List.append_assoc, run_append, run_append]
  obtain ⟨z1, z2, z3, z4, z5⟩ := run_noPrint cw Y (run cw (run cw t X) res.2.out) (by rw [p2, p3]; exact hY)
  refine ⟨by rw [z2, p4], by rw [z1, p1]; rfl, p8, by rw [z5, p7], by rw [z3, p2], by rw [z4, p3]⟩

theorem showCursor_noPrint (R C : Nat) (c : CursorState)
    (h : (0 ≤ c.row ∧ c.row < R) ∧ (0 ≤ c.col ∧ c.col < C)) : ∀ k ∈ showCursorToks c, NoPrint R C k := by
  intro k hk
  simp only [showCursorToks, List.mem_cons, List.not_mem_nil, or_false] at hk
  rcases hk with rfl | rfl | rfl
  · trivial
  · simp only [NoPrint]; omega
  · trivial

theorem showCursor_lp (c : CursorState) (p : String) : lpRun p (showCursorToks c) = p := by
  simp [showCursorToks, lpRun, lpStep]

/-- The cursor-only branch of `Flush`. -/
def cursorOnly (cn cl : CursorState) : List Tok :=
  if ¬ cn.visible ∧ cl.visible then [.decrst 25]
  else if ¬ cn.visible then []
  else if cn.row ≠ cl.row then showCursorToks cn
  else if cn.col ≠ cl.col then showCursorToks cn
  else if cn.style ≠ cl.style then showCursorToks cn
  else []

theorem cursorOnly_props (R C : Nat) (cn cl : CursorState)
    (hcur : cn.visible = true → (0 ≤ cn.row ∧ cn.row < R) ∧ (0 ≤ cn.col ∧ cn.col < C)) :
    (∀ k ∈ cursorOnly cn cl, NoPrint R C k) ∧ ∀ p, lpRun p (cursorOnly cn cl) = p := by
  unfold cursorOnly
  by_cases hv : cn.visible = true
  · simp only [hv, not_true_eq_false, false_and, if_false]
    have h1 := showCursor_noPrint R C cn (hcur hv)
    have h2 := showCursor_lp cn
    split
    · exact ⟨h1, h2⟩
    · split
      · exact ⟨h1, h2⟩
      · split
        · exact ⟨h1, h2⟩
        · exact ⟨by simp, fun _ => rfl⟩
  · have hv' : cn.visible = false := by simpa using hv
    simp only [hv', Bool.false_eq_true, not_false_eq_true, true_and, if_true]
    split
    · refine ⟨?_, fun _ => rfl⟩
      intro k hk; simp at hk; subst hk; trivial
    · exact ⟨by simp, fun _ => rfl⟩

/-- Shape of the tokens of one frame: prologue, the cell-loop output, and an epilogue that does
    not print and leaves no hyperlink parameters behind. -/
theorem frame_shape (cw : String → Nat) (f : Frame) (R C : Nat)
    (hcur : f.cursorNext.visible = true →
      (0 ≤ f.cursorNext.row ∧ f.cursorNext.row < R) ∧ (0 ≤ f.cursorNext.col ∧ f.cursorNext.col < C)) :
    ∃ (pre X Y : List Tok), (pre = [] ∨ ∃ s, pre = [Tok.pointer s]) ∧
      (renderFrame cw f).1 = (renderRows cw f.caps f.refresh 0 f.next f.last { out := pre }).1 ∧
      (renderFrame cw f).2 = X ++ (renderRows cw f.caps f.refresh 0 f.next f.last { out := pre }).2.out ++ Y ∧
      (∀ k ∈ X, PreTok k) ∧ (∀ k ∈ Y, NoPrint R C k) ∧
      lpRun (lpOf (renderRows cw f.caps f.refresh 0 f.next f.last { out := pre }).2.pen) Y = "" := by
  refine ⟨if f.shapeLast ≠ f.shapeNext then [Tok.pointer f.shapeNext] else [], ?_⟩
  have hpre : (if f.shapeLast ≠ f.shapeNext then [Tok.pointer f.shapeNext] else []) = [] ∨
      ∃ s, (if f.shapeLast ≠ f.shapeNext then [Tok.pointer f.shapeNext] else []) = [Tok.pointer s] := by
    split
    · exact Or.inr ⟨_, rfl⟩
    · exact Or.inl rfl
  unfold renderFrame renderBody
  simp only
  generalize renderRows cw f.caps f.refresh 0 f.next f.last
    { out := if f.shapeLast ≠ f.shapeNext then [Tok.pointer f.shapeNext] else [] } = rr
  obtain ⟨last', st⟩ := rr
  simp only
  unfold flush
  by_cases hemp : (st.out ++ (if st.pen.link ≠ "" then [Tok.osc8 "" ""] else []) ++
      (if f.cursorNext.visible = true ∧ ¬ f.cursorLast.visible = true then showCursorToks f.cursorNext else [])).isEmpty = true
  · simp only [hemp, if_true]
    have h0 := hemp
    simp only [List.isEmpty_iff, List.append_eq_nil_iff] at h0
    obtain ⟨⟨ho, hcl⟩, _⟩ := h0
    have hlk : st.pen.link = "" := by
      by_cases h : st.pen.link = ""
      · exact h
      · simp [h] at hcl
    obtain ⟨c1, c2⟩ := cursorOnly_props R C f.cursorNext f.cursorLast hcur
    refine ⟨[], cursorOnly f.cursorNext f.cursorLast, hpre, trivial, by rw [ho]; rfl, by simp, c1, ?_⟩
    rw [c2]; simp [lpOf, hlk]
  · simp only [hemp, Bool.false_eq_true, if_false]
    refine ⟨(if f.cursorLast.visible = true then [Tok.decrst 25] else []) ++
        (if f.caps.sync = true then [Tok.decset 2026] else []),
      (if st.pen.link ≠ "" then [Tok.osc8 "" ""] else []) ++
      (if f.cursorNext.visible = true ∧ ¬ f.cursorLast.visible = true then showCursorToks f.cursorNext else []) ++
      [Tok.sgr []] ++
      (if f.cursorNext.visible = true ∧ f.cursorLast.visible = true then showCursorToks f.cursorNext else []) ++
      (if f.caps.sync = true then [Tok.decrst 2026] else []), hpre, trivial, by simp only [List.append_assoc], ?_, ?_, ?_⟩
    · intro k hk
      rcases List.mem_append.mp hk with h | h <;> split at h <;> simp at h <;> subst h <;> trivial
    · intro k hk
      simp only [List.mem_append] at hk
      rcases hk with (((h | h) | h) | h) | h
      · split at h <;> simp at h
        subst h; trivial
      · split at h
        · rename_i hv; exact showCursor_noPrint R C _ (hcur hv.1) k h
        · simp at h
      · simp at h; subst h; trivial
      · split at h
        · rename_i hv; exact showCursor_noPrint R C _ (hcur hv.1) k h
        · simp at h
      · split at h <;> simp at h
        subst h; trivial
    · have hstep : ∀ (p : String) (a b : List Tok), lpRun p (a ++ b) = lpRun (lpRun p a) b := by
        intro p a b; simp [lpRun, List.foldl_append]
      have hclose : lpRun (lpOf st.pen) (if st.pen.link ≠ "" then [Tok.osc8 "" ""] else []) = "" := by
        by_cases h : st.pen.link = ""
        · simp [h, lpOf, lpRun]
        · simp [h, lpRun, lpStep]
      have hshow : ∀ (c : Prop) [Decidable c] (p : String),
          lpRun p (if c then showCursorToks f.cursorNext else []) = p := by
        intro c _ p; split
        · exact showCursor_lp _ _
        · rfl
      rw [hstep, hstep, hstep, hstep, hclose, hshow, hshow]
      split <;> simp [lpRun, lpStep]

/-! ### Dimensions of what the application's screen means -/

theorem expectedRow_length (cw : String → Nat) (caps : Caps) (k : Nat) (l : List Cell) :
    (expectedRow cw caps k l).length = l.length := by
  rw [← eRow_map_phi]; simp

theorem expected_dims (cw : String → Nat) (caps : Caps) (C : Nat) :
    ∀ (a b : Grid), expected cw caps a = expected cw caps b → (∀ r ∈ b, r.length = C) →
      a.length = b.length ∧ ∀ r ∈ a, r.length = C := by
  intro a
  induction a with
  | nil =>
    intro b h _
    cases b with
    | nil => exact ⟨rfl, by simp⟩
    | cons _ _ => simp [expected] at h
  | cons x a ih =>
    intro b h hb
    cases b with
    | nil => simp [expected] at h
    | cons y b =>
      simp only [expected, List.map_cons, List.cons.injEq] at h
      obtain ⟨h1, h2⟩ := ih b h.2 (fun r hr => hb r (by simp [hr]))
      refine ⟨by simp [h1], ?_⟩
      intro r hr
      rcases List.mem_cons.mp hr with rfl | hr
      · have := congrArg List.length h.1
        rw [expectedRow_length, expectedRow_length] at this
        rw [this]; exact hb y (by simp)
      · exact h2 r hr

end VaxisModel.Lemmas.RenderDisplay
