/-
Interpretation of the tables `Gen/RenderFacts.lean` extracts from `render()`: the attribute on/off
chains (names resolved through `Gen.SgrCases.attrConsts` and the strings of `Gen.Sequences`, lexed
by `toksOf`) and the order of the six style-field deltas.
-/
import VaxisModel.Gen.RenderFacts
import VaxisModel.Gen.Sequences
import VaxisModel.Gen.SgrCases
import VaxisModel.Model.Lifecycle
import VaxisModel.Lemmas.RenderFactsPinned

namespace VaxisModel.Lemmas.RenderFacts
open VaxisModel.Model.Render VaxisModel.Model.Lifecycle

/-- Attribute constant by Go name (style.go, regenerated). -/
def bitOf (name : String) : Nat := (VaxisModel.Gen.SgrCases.attrConsts.lookup name).getD 0

/-- The escape strings `render()` writes for attributes, by Go name (sequences.go, regenerated). -/
def seqTable : List (String × String) :=
  open VaxisModel.Gen.Sequences in
  [("boldSet", boldSet), ("dimSet", dimSet), ("italicSet", italicSet), ("blinkSet", blinkSet), ("reverseSet", reverseSet),
   ("hiddenSet", hiddenSet), ("strikethroughSet", strikethroughSet), ("boldDimReset", boldDimReset),
   ("italicReset", italicReset), ("blinkReset", blinkReset), ("reverseReset", reverseReset), ("hiddenReset", hiddenReset),
   ("strikethroughReset", strikethroughReset)]

def seqToks (name : String) : List Tok := if name = "" then [] else
  match seqTable.lookup name with
  | some s => toksOf s
  | none => [Tok.other name]

def resolveOn (r : String × String) : Nat × List Tok := (bitOf r.1, seqToks r.2)
def resolveOff (r : String × String × String × String) : Nat × List Tok × Nat × List Tok :=
  (bitOf r.1, seqToks r.2.1, bitOf r.2.2.1, seqToks r.2.2.2)

/-- The attribute delta as `render()` computes it, over arbitrary on/off tables. -/
def attrToksOf (on : List (Nat × List Tok)) (off : List (Nat × List Tok × Nat × List Tok)) (a b : Nat) : List Tok :=
  if a = b then [] else
  let d := a ^^^ b
  let onm := d &&& b
  let offm := d &&& a
  (on.flatMap fun r => if hasBit onm r.1 then r.2 else []) ++
  (off.flatMap fun r => if hasBit offm r.1 then r.2.1 ++ (if hasBit b r.2.2.1 then r.2.2.2 else []) else [])

def litOn : List (Nat × List Tok) :=
  [(2, [.sgr [[1]]]), (4, [.sgr [[2]]]), (8, [.sgr [[3]]]), (16, [.sgr [[5]]]), (32, [.sgr [[7]]]), (64, [.sgr [[8]]]),
   (128, [.sgr [[9]]])]
def litOff : List (Nat × List Tok × Nat × List Tok) :=
  [(2, [.sgr [[22]]], 4, [.sgr [[2]]]), (4, [.sgr [[22]]], 2, [.sgr [[1]]]), (8, [.sgr [[23]]], 0, []),
   (16, [.sgr [[25]]], 0, []), (32, [.sgr [[27]]], 0, []), (64, [.sgr [[28]]], 0, []), (128, [.sgr [[29]]], 0, [])]

theorem hasBit_zero_bit (b : Nat) : hasBit b 0 = false := by simp [hasBit]

theorem attrToks_lit (a b : Nat) : attrToks a b = attrToksOf litOn litOff a b := by
  unfold attrToks attrToksOf
  split
  · rfl
  · simp only [litOn, litOff, List.flatMap_cons, List.flatMap_nil, onTok, attrBold, attrDim, attrItalic, attrBlink,
      attrReverse, attrInvisible, attrStrikethrough, hasBit_zero_bit, Bool.false_eq_true, if_false, List.append_nil,
      List.append_assoc]
    rfl

/-- One style field's part of the pen delta, by the field's Go name. -/
def deltaPart (caps : Caps) (pen next : Style) (field : String) : List Tok :=
  if field = "Foreground" then (if pen.fg ≠ next.fg then colorToks caps 30 next.fg else [])
  else if field = "Background" then (if pen.bg ≠ next.bg then colorToks caps 40 next.bg else [])
  else if field = "UnderlineColor" then (if caps.styledUnderlines ∧ pen.ul ≠ next.ul then ulColorToks caps next.ul else [])
  else if field = "Attribute" then attrToks pen.attr next.attr
  else if field = "UnderlineStyle" then
    (if pen.ulStyle ≠ next.ulStyle then
      (if caps.styledUnderlines then [Tok.sgr [[4, next.ulStyle]]]
       else if next.ulStyle = 0 then [Tok.sgr [[24]]] else [Tok.sgr [[4]]])
     else [])
  else if field = "Hyperlink" then
    (if pen.link ≠ next.link ∨ (next.link ≠ "" ∧ pen.linkParams ≠ next.linkParams) then
      [Tok.osc8 (lpField (if next.link = "" then "" else next.linkParams)) next.link]
     else [])
  else [Tok.other field]

/-- Lines of a skeleton at a given depth with one of the given kinds. -/
def linesAt (sk : List (Nat × String × String)) (depth : Nat) (kinds : List String) : List String :=
  (sk.filter fun l => l.1 == depth && kinds.contains l.2.1).map (·.2.2)

/-- The part of `render`'s skeleton inside the cell loop (`for col := …`). -/
def cellLoop (sk : List (Nat × String × String)) : List (Nat × String × String) :=
  ((sk.dropWhile fun l => !(l.1 == 1 && l.2.1 == "for")).drop 1).takeWhile fun l => decide (2 ≤ l.1)

/-! ### the writer, interpreted from the extracted guarded writes -/

/-- The atoms the writer's guards test. -/
def evalAtom (caps : Caps) (cn cl : CursorState) (a : String) : Bool :=
  if a = "cursorLast.visible" then cl.visible
  else if a = "cursorNext.visible" then cn.visible
  else if a = "caps.synchronizedUpdate" then caps.sync
  else if a = "cursorNext.row!=cursorLast.row" then decide (cn.row ≠ cl.row)
  else if a = "cursorNext.col!=cursorLast.col" then decide (cn.col ≠ cl.col)
  else if a = "cursorNext.style!=cursorLast.style" then decide (cn.style ≠ cl.style)
  else false

def evalGuard (caps : Caps) (cn cl : CursorState) (g : List (Bool × String)) : Bool :=
  g.all fun a => if a.1 then !(evalAtom caps cn cl a.2) else evalAtom caps cn cl a.2

/-- What a write argument puts on the wire (mode numbers: `Props.C01Seq.mode_numbers`). -/
def writeToks (cn : CursorState) (w : String) : List Tok :=
  if w = "" then []
  else if w = "decrst(cursorVisibility)" then [.decrst 25]
  else if w = "decset(synchronizedUpdate)" then [.decset 2026]
  else if w = "decrst(synchronizedUpdate)" then [.decrst 2026]
  else if w = "sgrReset" then [.sgr []]
  else if w = "showCursor()" then showCursorToks cn
  else [.other w]

/-- All guarded writes whose guard holds, in order. -/
def runGuarded (caps : Caps) (cn cl : CursorState) (l : List (List (Bool × String) × String)) : List Tok :=
  l.flatMap fun gw => if evalGuard caps cn cl gw.1 then writeToks cn gw.2 else []

/-- The first case of a `switch` whose guard holds. -/
def firstCase (caps : Caps) (cn cl : CursorState) : List (List (Bool × String) × String) → List Tok
  | [] => []
  | gw :: rest => if evalGuard caps cn cl gw.1 then writeToks cn gw.2 else firstCase caps cn cl rest

/-- `render(); Flush()` on the wire, over arbitrary extracted tables. -/
def flushOf (pro cur epi : List (List (Bool × String) × String)) (caps : Caps) (cn cl : CursorState) (body : List Tok) : List Tok :=
  if body.isEmpty then firstCase caps cn cl cur
  else runGuarded caps cn cl pro ++ body ++ runGuarded caps cn cl epi

end VaxisModel.Lemmas.RenderFacts
