/-
C07 helper lemmas: every token the renderer model writes for a frame is allowed under the
capability set (`allowedTok`).
-/
import VaxisModel.Lemmas.RenderToks
import VaxisModel.Lemmas.Argmin

namespace VaxisModel.Lemmas.RenderGate
open VaxisModel.Model.Render VaxisModel.Model.Color VaxisModel.Lemmas.RenderToks

/-- An SGR parameter that selects a direct (RGB) colour: `38:2:…`, `48:2:…`, `58:2:…`. -/
def isDirect : List Nat → Bool
  | h :: s :: t => (h == 38 || h == 48 || h == 58) && s == 2 && (t.length == 3 || t.length == 4)
  | _ => false

/-- An SGR parameter from the styled-underline extension: `4:n`, `58…`, `59`. -/
def isStyledUl : List Nat → Bool
  | [] => false
  | h :: t => (h == 4 && t.length == 1) || h == 58 || (h == 59 && t.isEmpty)

/-- The capability-gated part of the renderer's vocabulary. Everything else it writes (CUP, basic
    and 256-colour SGR, OSC 8, text, cursor visibility/shape, pointer shape) is baseline. -/
def allowedTok (caps : Caps) : Tok → Bool
  | .sgr ps => (caps.rgb || !ps.any isDirect) && (caps.styledUnderlines || !ps.any isStyledUl)
  | .textW _ _ => caps.explicitWidth
  | .decset n => n == 25 || (n == 2026 && caps.sync)
  | .decrst n => n == 25 || (n == 2026 && caps.sync)
  | _ => true

theorem params_len (c : Nat) : (params c).length = 0 ∨ (params c).length = 1 ∨ ((params c).length = 3 ∧ isRGB c = true) := by
  unfold params
  split
  · simp
  · split
    · rename_i h; simp [h]
    · simp

/-- Without RGB support the colour parameters are never a triple. -/
theorem effParams_norgb (caps : Caps) (h : caps.rgb = false) (c : Nat) : (effParams caps c).length ≤ 1 := by
  unfold effParams
  simp only [h, Bool.false_eq_true, if_false]
  by_cases hr : isRGB c = true
  · have hne : Gen.Palette.palette ≠ [] := by decide +kernel
    have hs : Gen.Palette.diffSigned = true := by decide
    -- asIndex of a direct colour is an indexed colour below 2^25
    unfold asIndex asIndexWith
    simp only [hr, Bool.not_true, Bool.false_eq_true, if_false]
    obtain ⟨i, s, hi, _⟩ := argmin_spec (scoreWith Gen.Palette.diffSigned weights c) Gen.Palette.palette hne
    rw [hi]
    simp only
    have hlt : (i + 16) % 256 < 256 := Nat.mod_lt _ (by decide)
    have h1 : isIndexed (indexColor ((i + 16) % 256)) = true := by
      simp only [isIndexed, indexColor, indexedBit, Gen.Palette.indexedShift]
      have : (((i + 16) % 256 + 2 ^ 24 : Nat)) / 2 ^ 24 = 1 := by omega
      simp [this]
    simp [params, h1]
  · have hr' : isRGB c = false := by simpa using hr
    have : asIndex c = c := by simp [asIndex, asIndexWith, hr']
    rw [this]
    rcases params_len c with h | h | ⟨_, h⟩
    · omega
    · omega
    · rw [hr'] at h; cases h

theorem colorToksP_allowed (caps : Caps) (which : Nat) (hw : which = 30 ∨ which = 40) (ps : List Nat)
    (h : caps.rgb = true ∨ ps.length ≤ 1) : ∀ k ∈ colorToksP which ps, allowedTok caps k = true := by
  intro k hk
  unfold colorToksP at hk
  split at hk
  · simp at hk; subst hk; rcases hw with rfl | rfl <;> simp [allowedTok, isDirect, isStyledUl]
  · split at hk
    · simp at hk; subst hk
      rename_i i hi
      rcases hw with rfl | rfl <;> simp [allowedTok, isDirect, isStyledUl] <;> omega
    · split at hk
      · simp at hk; subst hk
        rename_i i h1 h2
        rcases hw with rfl | rfl <;> simp [allowedTok, isDirect, isStyledUl] <;> omega
      · simp at hk; subst hk
        rcases hw with rfl | rfl <;> simp [allowedTok, isDirect, isStyledUl]
  · simp at hk; subst hk
    rcases h with h | h
    · rcases hw with rfl | rfl <;> simp [allowedTok, isDirect, isStyledUl, h]
    · simp at h
  · simp at hk

theorem ulColorToksP_allowed (caps : Caps) (hsu : caps.styledUnderlines = true) (ps : List Nat)
    (h : caps.rgb = true ∨ ps.length ≤ 1) : ∀ k ∈ ulColorToksP ps, allowedTok caps k = true := by
  intro k hk
  unfold ulColorToksP at hk
  split at hk
  · simp at hk; subst hk; simp [allowedTok, isDirect, isStyledUl, hsu]
  · simp at hk; subst hk; simp [allowedTok, isDirect, isStyledUl, hsu]
  · simp at hk; subst hk
    rcases h with h | h
    · simp [allowedTok, isDirect, isStyledUl, hsu, h]
    · simp at h
  · simp at hk

theorem attrToks_allowed (caps : Caps) (a b : Nat) : ∀ k ∈ attrToks a b, allowedTok caps k = true := by
  have hall : (attrToks a b).all (fun k => allowedTok caps k) = true := by
    unfold attrToks
    split
    · rfl
    · simp only [List.all_append, onTok, Bool.and_eq_true]
      repeat' apply And.intro
      all_goals (repeat' split)
      all_goals simp [allowedTok, isDirect, isStyledUl]
  intro k hk
  rw [List.all_eq_true] at hall
  exact hall k hk

theorem penDelta_allowed (caps : Caps) (pen next : Style) : ∀ k ∈ penDelta caps pen next, allowedTok caps k = true := by
  intro k hk
  unfold penDelta at hk
  simp only [List.mem_append] at hk
  have hcol : ∀ c, caps.rgb = true ∨ (effParams caps c).length ≤ 1 := by
    intro c
    by_cases h : caps.rgb = true
    · exact Or.inl h
    · exact Or.inr (effParams_norgb caps (by simpa using h) c)
  rcases hk with ((((h | h) | h) | h) | h) | h
  · split at h
    · exact colorToksP_allowed caps 30 (Or.inl rfl) _ (hcol _) k h
    · simp at h
  · split at h
    · exact colorToksP_allowed caps 40 (Or.inr rfl) _ (hcol _) k h
    · simp at h
  · split at h
    · rename_i hc; exact ulColorToksP_allowed caps hc.1 _ (hcol _) k h
    · simp at h
  · exact attrToks_allowed caps _ _ k h
  · split at h
    · split at h
      · rename_i hsu; simp at h; subst h; simp [allowedTok, isDirect, isStyledUl, hsu]
      · split at h <;> (simp at h; subst h; simp [allowedTok, isDirect, isStyledUl])
    · simp at h
  · split at h
    · simp at h; subst h; rfl
    · simp at h

theorem glyphTok_allowed (cw : String → Nat) (caps : Caps) (c : Cell) : allowedTok caps (glyphTok cw caps c) = true := by
  unfold glyphTok glyphTokW
  split
  · rfl
  · split
    · rename_i h; simp [allowedTok, h.2]
    · rfl

/-- All tokens appended by the cell loop are allowed. -/
theorem renderCells_allowed (cw : String → Nat) (caps : Caps) (refresh : Bool) (row : Nat) :
    ∀ (next last : List Cell) (col skip : Nat) (track : Bool) (dirty : Nat) (st : RSt),
      (∀ k ∈ st.out, allowedTok caps k = true) →
      ∀ k ∈ (renderCells cw caps refresh row col skip track dirty next last st).2.out, allowedTok caps k = true := by
  intro next
  induction next with
  | nil => intro last col skip track dirty st h; simpa [renderCells] using h
  | cons n ns ih =>
    intro last col skip track dirty st h
    cases last with
    | nil => simpa [renderCells] using h
    | cons l ls =>
      cases skip with
      | succ k => simp only [renderCells]; exact ih ls (col + 1) k track _ st h
      | zero =>
        simp only [renderCells]
        split
        · exact ih ls (col + 1) 0 false dirty { st with reposition := true } h
        · split
          · exact ih ls (col + 1) (advance cw n) false dirty { st with reposition := true } h
          · apply ih
            intro k hk
            simp only [List.mem_append, List.mem_singleton] at hk
            rcases hk with hk | ((hk | hk) | hk)
            · exact h k hk
            · split at hk
              · simp only [List.mem_append, List.mem_singleton] at hk
                rcases hk with hk | hk
                · split at hk <;> simp at hk
                  subst hk; rfl
                · subst hk; rfl
              · simp at hk
            · exact penDelta_allowed caps _ _ k hk
            · subst hk; exact glyphTok_allowed cw caps n

theorem renderRows_allowed (cw : String → Nat) (caps : Caps) (refresh : Bool) :
    ∀ (next last : Grid) (row : Nat) (st : RSt),
      (∀ k ∈ st.out, allowedTok caps k = true) →
      ∀ k ∈ (renderRows cw caps refresh row next last st).2.out, allowedTok caps k = true := by
  intro next
  induction next with
  | nil => intro last row st h; simpa [renderRows] using h
  | cons n ns ih =>
    intro last row st h
    cases last with
    | nil => simpa [renderRows] using h
    | cons l ls =>
      simp only [renderRows]
      apply ih
      exact renderCells_allowed cw caps refresh row n l 0 0 false 0 { st with reposition := true } h

end VaxisModel.Lemmas.RenderGate
