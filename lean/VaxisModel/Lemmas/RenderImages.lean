/-
Display proof of C01 for screens WITH image cells (cells flagged `sixel`), over the cell loop as it
is now (`Model.RenderSixel.renderCellsS`: F02 clip inside the loop, F113 sixel branch).

The row invariant of `Lemmas/RenderDisplay.renderCells_display` is redone with a don't-care mask:
* the finished part of the row is `P`, the part under work `sRow skip k V` as before;
* at an image cell the loop writes nothing: the cell keeps whatever the terminal shows there
  (`poison` if an overwritten wide glyph of the previous frame reached it, the old cell otherwise) and
  that position is not constrained by the post-condition (`Masked`);
* the previous frame's row agrees with the terminal outside ITS image cells (`RelV` instead of
  `V = ls.map phi`): where `last` holds an image cell the terminal shows any cell of width 1.

What is NOT covered (hypothesis `ImgNarrow`): an image cell that comes over the *head* of a wide glyph
the terminal still shows.  The loop then leaves the glyph's head under the image and rewrites its
other columns (F113 repair) — on the reference terminal that poisons the head, i.e. the finished
part `P` of the row changes at a masked position, which this invariant (fixed `P`) cannot express.
The F113 frames themselves are decide-checked instances (`Props/C01Sixel`).
-/
import VaxisModel.Lemmas.RenderDisplay
import VaxisModel.Lemmas.RenderClip
import VaxisModel.Model.RenderSixel

namespace VaxisModel.Lemmas.RenderImages
open VaxisModel.Model.Render VaxisModel.Spec VaxisModel.Spec.Display
open VaxisModel.Lemmas.RenderToks VaxisModel.Lemmas.RenderRow VaxisModel.Lemmas.RenderPen
open VaxisModel.Spec.Expected VaxisModel.Lemmas.RenderDisplay VaxisModel.Lemmas.RenderClip

/-- What the rest of a row shows after the loop: `skip` continuation cells, then per cell — an
    image cell: anything; any other cell: its glyph (a blank when it does not fit in the rest of
    the row) followed by its continuation cells. -/
def Masked (cw : String → Nat) (caps : Caps) : Nat → List Cell → List DCell → Prop
  | _, [], X => X = []
  | _, _ :: _, [] => False
  | skip + 1, _ :: ns, x :: X => x = DCell.cont ∧ Masked cw caps skip ns X
  | 0, n :: ns, x :: X =>
      if n.sixel then Masked cw caps 0 ns X
      else x = expectedCell cw caps (clipCell cw (ns.length + 1) n) ∧
           Masked cw caps (advance cw (clipCell cw (ns.length + 1) n)) ns X

/-- The terminal row (parse `V`) shows the previous frame's row `ls` outside that row's image
    cells; under an image cell of `ls` it shows some cell of width 1 (or poison). -/
def RelV (cw : String → Nat) (caps : Caps) : List VCell → List Cell → Prop
  | [], [] => True
  | v :: vs, l :: ls => (v = phi cw caps l ∨ (l.sixel = true ∧ v.2 = 0 ∧ advance cw l = 0)) ∧ RelV cw caps vs ls
  | _, _ => False

/-- No image cell of the new row sits on the head of a wide glyph of the terminal row
    (`k` = cells still shadowed by a glyph of the terminal row, the parse state of `V`). -/
def ImgNarrow : Nat → List VCell → List Cell → Prop
  | _, [], _ => True
  | _, _ :: _, [] => True
  | k + 1, _ :: vs, _ :: ns => ImgNarrow k vs ns
  | 0, v :: vs, n :: ns => (n.sixel = true → v.2 = 0) ∧ ImgNarrow v.2 vs ns

theorem imgNarrow_next (k : Nat) (v : VCell) (vs : List VCell) (n : Cell) (ns : List Cell)
    (h : ImgNarrow k (v :: vs) (n :: ns)) : ImgNarrow (nextL k v) vs ns := by
  cases k with
  | zero => exact h.2
  | succ k => simpa [ImgNarrow, nextL] using h

theorem relV_map_phi (cw : String → Nat) (caps : Caps) (ls : List Cell) : RelV cw caps (ls.map (phi cw caps)) ls := by
  induction ls with
  | nil => trivial
  | cons l ls ih => exact ⟨Or.inl rfl, ih⟩

theorem relV_v2 (cw : String → Nat) (caps : Caps) (v : VCell) (l : Cell)
    (h : v = phi cw caps l ∨ (l.sixel = true ∧ v.2 = 0 ∧ advance cw l = 0)) : v.2 = advance cw l := by
  rcases h with h | ⟨_, h1, h2⟩
  · rw [h]; rfl
  · rw [h1, h2]

/-! ### the clipped cell -/

theorem clipCell_adv (cw : String → Nat) (rem : Nat) (c : Cell) (hrem : 1 ≤ rem) :
    advance cw (clipCell cw rem c) < rem := by
  unfold clipCell
  split
  · have : advance cw ({ c with g := "20", w := 1 } : Cell) = 0 := by
      rw [adv_eq, width_clip]; rfl
    omega
  · omega

theorem clipCell_ok (cw : String → Nat) (caps : Caps) (hsp : cw "20" = 1) (rem : Nat) (c : Cell)
    (h : 0 ≤ c.w ∧ WidthOk cw caps c) : 0 ≤ (clipCell cw rem c).w ∧ WidthOk cw caps (clipCell cw rem c) := by
  unfold clipCell
  split
  · refine ⟨by simp, Or.inr (Or.inl ?_)⟩
    simp [hsp]
  · exact h

/-! ### unfolding the current loop -/

theorem renderCellsS_sixel_eq (cw : String → Nat) (caps : Caps) (refresh : Bool) (row col : Nat) (track : Bool)
    (dirty : Nat) (n l : Cell) (ns ls : List Cell) (st : RSt) (h : n.sixel = true) :
    renderCellsS cw caps refresh row col 0 track dirty (n :: ns) (l :: ls) st =
      (n :: (renderCellsS cw caps refresh row (col + 1) 0 false
              (if col + advance cw l + 1 > dirty then col + advance cw l + 1 else dirty) ns ls { st with reposition := true }).1,
       (renderCellsS cw caps refresh row (col + 1) 0 false
              (if col + advance cw l + 1 > dirty then col + advance cw l + 1 else dirty) ns ls { st with reposition := true }).2) := by
  simp only [renderCellsS, h, if_true]

theorem renderCellsS_write_eq (cw : String → Nat) (caps : Caps) (refresh : Bool) (row col : Nat) (track : Bool)
    (dirty : Nat) (n0 l : Cell) (ns ls : List Cell) (st : RSt) (h : n0.sixel = false)
    (hc : ¬ (clipCell cw (ns.length + 1) n0 = l ∧ ¬ refresh ∧ col ≥ dirty)) :
    renderCellsS cw caps refresh row col 0 track dirty (n0 :: ns) (l :: ls) st =
      (clipCell cw (ns.length + 1) n0 :: (renderCellsS cw caps refresh row (col + 1) (advance cw (clipCell cw (ns.length + 1) n0)) true
              (if col + advance cw l + 1 > dirty then col + advance cw l + 1 else dirty) ns ls
              { reposition := false, pen := (clipCell cw (ns.length + 1) n0).style,
                out := st.out ++ cellToks cw caps st row col (clipCell cw (ns.length + 1) n0) }).1,
       (renderCellsS cw caps refresh row (col + 1) (advance cw (clipCell cw (ns.length + 1) n0)) true
              (if col + advance cw l + 1 > dirty then col + advance cw l + 1 else dirty) ns ls
              { reposition := false, pen := (clipCell cw (ns.length + 1) n0).style,
                out := st.out ++ cellToks cw caps st row col (clipCell cw (ns.length + 1) n0) }).2) := by
  simp only [renderCellsS, h, Bool.false_eq_true, if_false]
  rw [if_neg hc]
  rfl

theorem renderCellsS_equal_eq (cw : String → Nat) (caps : Caps) (refresh : Bool) (row col : Nat) (track : Bool)
    (dirty : Nat) (n0 l : Cell) (ns ls : List Cell) (st : RSt) (h : n0.sixel = false)
    (hc : clipCell cw (ns.length + 1) n0 = l ∧ ¬ refresh ∧ col ≥ dirty) :
    renderCellsS cw caps refresh row col 0 track dirty (n0 :: ns) (l :: ls) st =
      (l :: (renderCellsS cw caps refresh row (col + 1) (advance cw (clipCell cw (ns.length + 1) n0)) false dirty ns ls
              { st with reposition := true }).1,
       (renderCellsS cw caps refresh row (col + 1) (advance cw (clipCell cw (ns.length + 1) n0)) false dirty ns ls
              { st with reposition := true }).2) := by
  simp only [renderCellsS, h, Bool.false_eq_true, if_false]
  rw [if_pos hc]

/-! ### The cell loop of one row -/

/-- What one run of the current cell loop over (the rest of) a row achieves. -/
def CellsPostM (cw : String → Nat) (caps : Caps) (row : Nat) (t0 : Term) (G : List (List DCell)) (R C : Nat)
    (P : List DCell) (skip : Nat) (ns : List Cell) (res : List Cell × RSt) : Prop :=
  ∃ X, (run cw t0 res.2.out).grid = G.set row (P ++ X) ∧ Masked cw caps skip ns X ∧
  (run cw t0 res.2.out).rows = R ∧ (run cw t0 res.2.out).cols = C ∧
  (run cw t0 res.2.out).bad = none ∧ (run cw t0 res.2.out).pen = shown caps res.2.pen ∧
  (run cw t0 res.2.out).link = res.2.pen.link ∧ (run cw t0 res.2.out).linkParams = lpOf res.2.pen

theorem postM_nil (cw : String → Nat) (caps : Caps) (row : Nat) (t0 : Term) (P : List DCell) (skip : Nat)
    (st : RSt) (pos : Nat) (hg : (run cw t0 st.out).grid[row]? = some P)
    (hinv : TInv caps (run cw t0 st.out) st row pos) :
    CellsPostM cw caps row t0 (run cw t0 st.out).grid (run cw t0 st.out).rows (run cw t0 st.out).cols P skip []
      ([], st) := by
  refine ⟨[], ?_, ?_, rfl, rfl, hinv.bad, hinv.pen, hinv.link, hinv.lp⟩
  · rw [List.append_nil, set_self _ _ _ hg]
  · cases skip <;> rfl

theorem postM_cons (cw : String → Nat) (caps : Caps) (row : Nat) (t0 : Term) (G G' : List (List DCell)) (R C : Nat)
    (P : List DCell) (x : DCell) (skip skip' : Nat) (n c : Cell) (ns : List Cell) (res : List Cell × RSt)
    (hG : ∀ Y, G'.set row Y = G.set row Y)
    (hM : ∀ X, Masked cw caps skip' ns X → Masked cw caps skip (n :: ns) (x :: X))
    (h : CellsPostM cw caps row t0 G' R C (P ++ [x]) skip' ns res) :
    CellsPostM cw caps row t0 G R C P skip (n :: ns) (c :: res.1, res.2) := by
  obtain ⟨X, h1, hm, h2, h3, h4, h5, h6, h7⟩ := h
  refine ⟨x :: X, ?_, hM X hm, h2, h3, h4, h5, h6, h7⟩
  rw [h1, hG]; simp

theorem renderCellsS_display (cw : String → Nat) (caps : Caps) (refresh : Bool) (row : Nat) (hsp : cw "20" = 1)
    (t0 : Term) :
    ∀ (ns ls : List Cell) (col skip : Nat) (track : Bool) (dirty : Nat) (st : RSt) (V : List VCell) (k : Nat)
      (P : List DCell) (t : Term), run cw t0 st.out = t →
      ns.length = ls.length → V.length = ns.length → (∀ v ∈ V, VOk v) →
      t.grid[row]? = some (P ++ sRow skip k V) → P.length = col → col + ns.length = t.cols → row < t.rows →
      (refresh = false → RelV cw caps V ls ∧ (skip < k → col + k ≤ dirty) ∧ (track = false → 0 < skip → k = skip)) →
      ImgNarrow k V ns →
      skip ≤ ns.length → (∀ c ∈ ns, 0 ≤ c.w ∧ WidthOk cw caps c) →
      TInv caps t st row (col + skip) →
      CellsPostM cw caps row t0 t.grid t.rows t.cols P skip ns
        (renderCellsS cw caps refresh row col skip track dirty ns ls st) := by
  intro ns
  induction ns with
  | nil =>
    intro ls col skip track dirty st V k P t ht hl hV hok hg hP hcols hr href himg hfit hcells hinv
    have hV0 : V = [] := by simpa using hV
    subst hV0
    have hs : sRow skip k [] = [] := by cases skip <;> cases k <;> rfl
    rw [hs, List.append_nil] at hg
    subst ht
    simp only [renderCellsS]
    exact postM_nil cw caps row t0 P skip st _ hg hinv
  | cons n ns ih =>
    intro ls col skip track dirty st V k P t ht hl hV hok hg hP hcols hr href himg hfit hcells hinv
    cases ls with
    | nil => simp at hl
    | cons l ls =>
      cases V with
      | nil => simp at hV
      | cons v vs =>
        have hl' : ns.length = ls.length := by simpa using hl
        have hV' : vs.length = ns.length := by simpa using hV
        have hok' : ∀ x ∈ vs, VOk x := fun x hx => hok x (by simp [hx])
        have hcells' : ∀ c ∈ ns, 0 ≤ c.w ∧ WidthOk cw caps c := fun c hc => hcells c (by simp [hc])
        have himg' : ImgNarrow (nextL k v) vs ns := imgNarrow_next k v vs n ns himg
        cases skip with
        | succ skip =>
          simp only [renderCellsS]
          apply postM_cons cw caps row t0 t.grid t.grid _ _ P DCell.cont (skip + 1) skip n ({} : Cell) ns _ (fun _ => rfl)
            (fun X hX => ⟨rfl, hX⟩)
          have hg' : t.grid[row]? = some ((P ++ [DCell.cont]) ++ sRow skip (nextL k v) vs) := by
            rw [hg]; simp [sRow]
          refine ih ls (col + 1) skip track _ st vs (nextL k v) (P ++ [DCell.cont]) t ht hl' hV' hok' hg'
            (by simp [hP]) (by simp at hcols; omega) hr ?_ himg' (by simp at hfit; omega) hcells' ?_
          · intro hrf
            obtain ⟨e1, e2, e3⟩ := href hrf
            have hv2 : v.2 = advance cw l := relV_v2 cw caps v l e1.1
            refine ⟨e1.2, ?_, ?_⟩
            · intro hlt
              cases track with
              | false =>
                have := e3 rfl (by omega)
                subst this
                simp [nextL] at hlt
              | true =>
                simp only [true_and]
                by_cases hk : k = 0
                · subst hk
                  simp only [nextL, if_true, hv2] at hlt ⊢
                  split <;> omega
                · have hn : nextL k v = k - 1 := by simp [nextL, hk]
                  rw [hn] at hlt ⊢
                  have := e2 (by omega)
                  split <;> omega
            · intro htr hpos
              have := e3 htr (by omega)
              subst this
              simp [nextL]
          · have : col + 1 + skip = col + (skip + 1) := by omega
            rw [this]; exact hinv
        | zero =>
          by_cases hsx : n.sixel = true
          · -- an image cell: nothing is written, the position keeps what the terminal shows
            rw [renderCellsS_sixel_eq cw caps refresh row col track dirty n l ns ls st hsx]
            have hx : ∃ x, sRow 0 k (v :: vs) = x :: sRow 0 (nextL k v) vs := by
              cases k with
              | succ k => exact ⟨DCell.poison, by simp [sRow, nextL]⟩
              | zero =>
                have hv0 : v.2 = 0 := himg.1 hsx
                exact ⟨v.1, by simp [sRow, nextL, hv0, sRow_zero_zero]⟩
            obtain ⟨x, hx⟩ := hx
            apply postM_cons cw caps row t0 t.grid t.grid _ _ P x 0 0 n n ns _ (fun _ => rfl)
              (fun X hX => by simp only [Masked, hsx, if_true]; exact hX)
            have hg' : t.grid[row]? = some ((P ++ [x]) ++ sRow 0 (nextL k v) vs) := by
              rw [hg, hx]; simp
            refine ih ls (col + 1) 0 false _ { st with reposition := true } vs (nextL k v) (P ++ [x]) t ht hl' hV' hok' hg'
              (by simp [hP]) (by simp at hcols; omega) hr ?_ himg' (Nat.zero_le _) hcells'
              ⟨hinv.bad, hinv.pen, hinv.link, hinv.lp, by intro h; simp at h⟩
            intro hrf
            obtain ⟨e1, e2, _⟩ := href hrf
            refine ⟨e1.2, ?_, fun _ h => absurd h (Nat.lt_irrefl 0)⟩
            intro hlt
            cases k with
            | zero =>
              have hv0 : v.2 = 0 := himg.1 hsx
              simp [nextL, hv0] at hlt
            | succ k =>
              have := e2 (by omega)
              simp only [nextL_succ] at hlt ⊢
              split <;> omega
          · have hsx' : n.sixel = false := by simpa using hsx
            obtain ⟨hw0, hwok⟩ := clipCell_ok cw caps hsp (ns.length + 1) n (hcells n (by simp))
            have hadv : advance cw (clipCell cw (ns.length + 1) n) < ns.length + 1 :=
              clipCell_adv cw (ns.length + 1) n (by omega)
            generalize hm : clipCell cw (ns.length + 1) n = m at hw0 hwok hadv
            have hMm : ∀ X, Masked cw caps (advance cw m) ns X → Masked cw caps 0 (n :: ns) (expectedCell cw caps m :: X) := by
              intro X hX
              simp only [Masked, hsx', Bool.false_eq_true, if_false, hm]
              exact ⟨trivial, hX⟩
            by_cases hc : m = l ∧ ¬ refresh ∧ col ≥ dirty
            · rw [renderCellsS_equal_eq cw caps refresh row col track dirty n l ns ls st hsx' (by rw [hm]; exact hc), hm]
              obtain ⟨hnl, hrf, hcd⟩ := hc
              have hrf' : refresh = false := by simpa using hrf
              obtain ⟨e1, e2, e3⟩ := href hrf'
              have hk : k = 0 := by
                rcases Nat.eq_zero_or_pos k with h | h
                · exact h
                · have := e2 h; omega
              subst hk
              have hls : l.sixel = false := by rw [← hnl, ← hm, clipCell_sixel]; exact hsx'
              have ev : v = phi cw caps l := by
                rcases e1.1 with h | ⟨h, _⟩
                · exact h
                · rw [hls] at h; cases h
              subst hnl
              apply postM_cons cw caps row t0 t.grid t.grid _ _ P (expectedCell cw caps m) 0 (advance cw m) n m ns _
                (fun _ => rfl) hMm
              have hg' : t.grid[row]? = some ((P ++ [expectedCell cw caps m]) ++ sRow (advance cw m) (advance cw m) vs) := by
                rw [hg, ev]; simp [sRow, phi, sRow_diag]
              have himg2 : ImgNarrow (advance cw m) vs ns := by
                have := himg'
                rw [ev] at this
                simpa [nextL, phi] using this
              exact ih ls (col + 1) (advance cw m) false dirty { st with reposition := true } vs (advance cw m)
                (P ++ [expectedCell cw caps m]) t ht hl' hV' hok' hg' (by simp [hP]) (by simp at hcols; omega) hr
                (fun _ => ⟨e1.2, by omega, fun _ _ => rfl⟩) himg2 (by omega) hcells'
                ⟨hinv.bad, hinv.pen, hinv.link, hinv.lp, by intro h; simp at h⟩
            · rw [renderCellsS_write_eq cw caps refresh row col track dirty n l ns ls st hsx' (by rw [hm]; exact hc), hm]
              have hfitw : advance cw m + 1 ≤ (v :: vs).length := by
                simp only [List.length_cons, hV']; omega
              have hcw := cell_write cw caps hsp t st row col m P k v vs (by simpa using hinv) hr
                (by simp only [List.length_cons, hV'] at hcols ⊢; omega) hg hP hok hfitw hw0 hwok
              generalize hst' : (RSt.mk false m.style (st.out ++ cellToks cw caps st row col m)) = st'
              have hcw' : (run cw t (cellToks cw caps st row col m)).grid
                    = t.grid.set row (P ++ expectedCell cw caps m :: sRow (advance cw m) (nextL k v) vs) ∧
                  (run cw t (cellToks cw caps st row col m)).rows = t.rows ∧
                  (run cw t (cellToks cw caps st row col m)).cols = t.cols ∧
                  TInv caps (run cw t (cellToks cw caps st row col m)) { reposition := false, pen := m.style, out := st'.out }
                    row (col + 1 + advance cw m) := hcw st'.out
              generalize ht' : run cw t (cellToks cw caps st row col m) = t' at hcw'
              obtain ⟨g1, r1, c1, inv1⟩ := hcw'
              have hrun : run cw t0 st'.out = t' := by
                rw [← hst', ← ht', ← ht, run_append]
              have hst'e : ({ reposition := false, pen := m.style, out := st'.out } : RSt) = st' := by
                rw [← hst']
              rw [hst'e] at inv1
              have hg' : t'.grid[row]? = some ((P ++ [expectedCell cw caps m]) ++ sRow (advance cw m) (nextL k v) vs) := by
                rw [g1, List.getElem?_set]
                have : row < t.grid.length := by
                  rcases Nat.lt_or_ge row t.grid.length with h' | h'
                  · exact h'
                  · rw [List.getElem?_eq_none h'] at hg; simp at hg
                simp [this]
              have hpost := ih ls (col + 1) (advance cw m) true
                (if col + advance cw l + 1 > dirty then col + advance cw l + 1 else dirty) st' vs (nextL k v)
                (P ++ [expectedCell cw caps m]) t' hrun hl' hV' hok' hg' (by simp [hP])
                (by rw [c1]; simp at hcols; omega) (by rw [r1]; exact hr) ?_ himg' (by omega) hcells' inv1
              · rw [r1, c1] at hpost
                refine postM_cons cw caps row t0 t.grid t'.grid _ _ P (expectedCell cw caps m) 0 (advance cw m) n m ns _ ?_ hMm hpost
                intro Y; rw [g1, List.set_set]
              · intro hrf
                obtain ⟨e1, e2, e3⟩ := href hrf
                have hv2 : v.2 = advance cw l := relV_v2 cw caps v l e1.1
                refine ⟨e1.2, ?_, fun h => by simp at h⟩
                intro hlt
                by_cases hk : k = 0
                · subst hk
                  simp only [nextL, if_true, hv2] at hlt ⊢
                  split <;> omega
                · have hn : nextL k v = k - 1 := by simp [nextL, hk]
                  rw [hn] at hlt ⊢
                  have := e2 (by omega)
                  split <;> omega

/-! ### All rows -/

/-- Row by row: the terminal row is well formed (a parse `V`), shows the previous frame's row outside
    that row's image cells (unless the frame is a refresh), and no image cell of the new row sits on
    the head of a wide glyph of the terminal row. -/
def RowsOkM (cw : String → Nat) (caps : Caps) (refresh : Bool) (C : Nat) : List (List DCell) → Grid → Grid → Prop
  | [], [], [] => True
  | r :: rs, l :: ls, n :: ns =>
      (∃ V : List VCell, r = eRow 0 V ∧ V.length = C ∧ (∀ v ∈ V, VOk v) ∧ (refresh = false → RelV cw caps V l) ∧
        ImgNarrow 0 V n) ∧ RowsOkM cw caps refresh C rs ls ns
  | _, _, _ => False

def MaskedRows (cw : String → Nat) (caps : Caps) : Grid → List (List DCell) → Prop
  | [], [] => True
  | n :: ns, x :: xs => Masked cw caps 0 n x ∧ MaskedRows cw caps ns xs
  | _, _ => False

def RowsPostM (cw : String → Nat) (caps : Caps) (t0 : Term) (D : List (List DCell)) (R C : Nat) (ns : Grid)
    (res : Grid × RSt) : Prop :=
  ∃ M, (run cw t0 res.2.out).grid = D ++ M ∧ MaskedRows cw caps ns M ∧
  (run cw t0 res.2.out).rows = R ∧ (run cw t0 res.2.out).cols = C ∧
  (run cw t0 res.2.out).bad = none ∧ (run cw t0 res.2.out).pen = shown caps res.2.pen ∧
  (run cw t0 res.2.out).link = res.2.pen.link ∧ (run cw t0 res.2.out).linkParams = lpOf res.2.pen

theorem renderRowsS_display (cw : String → Nat) (caps : Caps) (refresh : Bool) (hsp : cw "20" = 1) (t0 : Term) :
    ∀ (ns ls : Grid) (row : Nat) (st : RSt) (D Rm : List (List DCell)) (t : Term), run cw t0 st.out = t →
      ns.length = ls.length → t.grid = D ++ Rm → D.length = row → row + ns.length = t.rows →
      (∀ r ∈ ns, r.length = t.cols) → (∀ r ∈ ls, r.length = t.cols) →
      RowsOkM cw caps refresh t.cols Rm ls ns →
      (∀ r ∈ ns, ∀ c ∈ r, 0 ≤ c.w ∧ WidthOk cw caps c) →
      t.bad = none → t.pen = shown caps st.pen → t.link = st.pen.link → t.linkParams = lpOf st.pen →
      RowsPostM cw caps t0 D t.rows t.cols ns (renderRowsS cw caps refresh row ns ls st) := by
  intro ns
  induction ns with
  | nil =>
    intro ls row st D Rm t ht hl hg hD hrows hn hlc hok hcells hbad hpen hlink hlp
    have : ls = [] := by cases ls with
      | nil => rfl
      | cons _ _ => simp at hl
    subst this
    have : Rm = [] := by cases Rm with
      | nil => rfl
      | cons _ _ => simp [RowsOkM] at hok
    subst this
    subst ht
    simp only [renderRowsS]
    exact ⟨[], by simpa using hg, trivial, rfl, rfl, hbad, hpen, hlink, hlp⟩
  | cons n ns ih =>
    intro ls row st D Rm t ht hl hg hD hrows hn hlc hok hcells hbad hpen hlink hlp
    cases ls with
    | nil => simp at hl
    | cons l ls =>
      cases Rm with
      | nil => simp [RowsOkM] at hok
      | cons r Rm =>
        obtain ⟨⟨V, hrV, hVlen, hVok, hVref, hVimg⟩, hok'⟩ := hok
        have hnl : n.length = t.cols := hn n (by simp)
        have hll : l.length = t.cols := hlc l (by simp)
        have hgrow : t.grid[row]? = some ([] ++ sRow 0 0 V) := by
          rw [hg, ← hD, List.getElem?_append_right (Nat.le_refl _)]
          simp [hrV, sRow_zero_zero]
        have hc := renderCellsS_display cw caps refresh row hsp t0 n l 0 0 false 0 { st with reposition := true } V 0 [] t
          ht (by rw [hnl, hll]) (by rw [hVlen, hnl]) hVok hgrow rfl (by rw [hnl]; omega)
          (by simp at hrows; omega)
          (fun h => ⟨hVref h, fun h' => absurd h' (Nat.lt_irrefl 0), fun _ h' => absurd h' (Nat.lt_irrefl 0)⟩)
          hVimg (Nat.zero_le _) (hcells n (by simp))
          ⟨hbad, hpen, hlink, hlp, by intro h; simp at h⟩
        simp only [renderRowsS]
        generalize renderCellsS cw caps refresh row 0 0 false 0 n l { st with reposition := true } = rc at hc
        obtain ⟨l', st'⟩ := rc
        obtain ⟨X, g1, m1, r1, c1, b1, p1, k1, q1⟩ := hc
        simp only at g1 r1 c1 b1 p1 k1 q1
        have hg1 : (run cw t0 st'.out).grid = (D ++ [X]) ++ Rm := by
          rw [g1, hg, ← hD]; simp
        have := ih ls (row + 1) st' (D ++ [X]) Rm (run cw t0 st'.out) rfl
          (by simpa using hl) hg1 (by simp [hD]) (by rw [r1]; simp at hrows; omega)
          (by rw [c1]; exact fun r hr => hn r (by simp [hr])) (by rw [c1]; exact fun r hr => hlc r (by simp [hr]))
          (by rw [c1]; exact hok') (fun r hr => hcells r (by simp [hr]))
          b1 p1 k1 q1
        rw [r1, c1] at this
        obtain ⟨M, a1, am, a2, a3, a4, a5, a6, a7⟩ := this
        exact ⟨X :: M, by rw [a1]; simp, ⟨m1, am⟩, a2, a3, a4, a5, a6, a7⟩

/-! ### The frame -/

theorem frame_shapeS (cw : String → Nat) (f : Frame) (R C : Nat)
    (hcur : f.cursorNext.visible = true →
      (0 ≤ f.cursorNext.row ∧ f.cursorNext.row < R) ∧ (0 ≤ f.cursorNext.col ∧ f.cursorNext.col < C)) :
    ∃ (pre X Y : List Tok), (pre = [] ∨ ∃ s, pre = [Tok.pointer s]) ∧
      (renderFrameS cw f).1 = (renderRowsS cw f.caps f.refresh 0 f.next f.last { out := pre }).1 ∧
      (renderFrameS cw f).2 = X ++ (renderRowsS cw f.caps f.refresh 0 f.next f.last { out := pre }).2.out ++ Y ∧
      (∀ k ∈ X, PreTok k) ∧ (∀ k ∈ Y, NoPrint R C k) ∧
      lpRun (lpOf (renderRowsS cw f.caps f.refresh 0 f.next f.last { out := pre }).2.pen) Y = "" := by
  refine ⟨if f.shapeLast ≠ f.shapeNext then [Tok.pointer f.shapeNext] else [], ?_⟩
  have hpre : (if f.shapeLast ≠ f.shapeNext then [Tok.pointer f.shapeNext] else []) = [] ∨
      ∃ s, (if f.shapeLast ≠ f.shapeNext then [Tok.pointer f.shapeNext] else []) = [Tok.pointer s] := by
    split
    · exact Or.inr ⟨_, rfl⟩
    · exact Or.inl rfl
  unfold renderFrameS renderBodyS
  simp only
  generalize renderRowsS cw f.caps f.refresh 0 f.next f.last
    { out := if f.shapeLast ≠ f.shapeNext then [Tok.pointer f.shapeNext] else [] } = rr
  obtain ⟨last', st⟩ := rr
  simp only
  unfold flush
  by_cases hemp : (st.out ++ (if st.pen.link ≠ "" then [Tok.osc8 "" ""] else []) ++
      (if f.cursorNext.visible = true ∧ ¬ f.cursorLast.visible = true then showCursorToks f.cursorNext else [])).isEmpty = true
  · simp only [hemp, if_true]
    have h0 := hemp
    simp only [List.isEmpty_iff, List.append_eq_nil_iff] at h0
    obtain ⟨⟨ho, hcl⟩, _⟩ := h0
    have hlk : st.pen.link = "" := by
      by_cases h : st.pen.link = ""
      · exact h
      · simp [h] at hcl
    obtain ⟨c1, c2⟩ := cursorOnly_props R C f.cursorNext f.cursorLast hcur
    refine ⟨[], cursorOnly f.cursorNext f.cursorLast, hpre, trivial, by rw [ho]; rfl, by simp, c1, ?_⟩
    rw [c2]; simp [lpOf, hlk]
  · simp only [hemp, Bool.false_eq_true, if_false]
    refine ⟨(if f.cursorLast.visible = true then [Tok.decrst 25] else []) ++
        (if f.caps.sync = true then [Tok.decset 2026] else []),
      (if st.pen.link ≠ "" then [Tok.osc8 "" ""] else []) ++
      (if f.cursorNext.visible = true ∧ ¬ f.cursorLast.visible = true then showCursorToks f.cursorNext else []) ++
      [Tok.sgr []] ++
      (if f.cursorNext.visible = true ∧ f.cursorLast.visible = true then showCursorToks f.cursorNext else []) ++
      (if f.caps.sync = true then [Tok.decrst 2026] else []), hpre, trivial, by simp only [List.append_assoc], ?_, ?_, ?_⟩
    · intro k hk
      rcases List.mem_append.mp hk with h | h <;> split at h <;> simp at h <;> subst h <;> trivial
    · intro k hk
      simp only [List.mem_append] at hk
      rcases hk with (((h | h) | h) | h) | h
      · split at h <;> simp at h
        subst h; trivial
      · split at h
        · rename_i hv; exact showCursor_noPrint R C _ (hcur hv.1) k h
        · simp at h
      · simp at h; subst h; trivial
      · split at h
        · rename_i hv; exact showCursor_noPrint R C _ (hcur hv.1) k h
        · simp at h
      · split at h <;> simp at h
        subst h; trivial
    · have hstep : ∀ (p : String) (a b : List Tok), lpRun p (a ++ b) = lpRun (lpRun p a) b := by
        intro p a b; simp [lpRun, List.foldl_append]
      have hclose : lpRun (lpOf st.pen) (if st.pen.link ≠ "" then [Tok.osc8 "" ""] else []) = "" := by
        by_cases h : st.pen.link = ""
        · simp [h, lpOf, lpRun]
        · simp [h, lpRun, lpStep]
      have hshow : ∀ (c : Prop) [Decidable c] (p : String),
          lpRun p (if c then showCursorToks f.cursorNext else []) = p := by
        intro c _ p; split
        · exact showCursor_lp _ _
        · rfl
      rw [hstep, hstep, hstep, hstep, hclose, hshow, hshow]
      split <;> simp [lpRun, lpStep]


theorem frame_coreS (cw : String → Nat) (hsp : cw "20" = 1) (f : Frame) (t : Term) (X Y pre : List Tok)
    (hX : ∀ k ∈ X, PreTok k) (hY : ∀ k ∈ Y, NoPrint t.rows t.cols k)
    (hpre : pre = [] ∨ ∃ s, pre = [Tok.pointer s])
    (hpen : t.pen = TStyle.reset) (hlink : t.link = "") (hlp : t.linkParams = "") (hbad : t.bad = none)
    (hlast : f.last.length = f.next.length)
    (hnc : ∀ r ∈ f.next, r.length = t.cols)
    (hlc : ∀ r ∈ f.last, r.length = t.cols) (hrows : t.rows = f.next.length)
    (hcells : ∀ r ∈ f.next, ∀ c ∈ r, 0 ≤ c.w ∧ WidthOk cw f.caps c)
    (hok : RowsOkM cw f.caps f.refresh t.cols t.grid f.last f.next) :
    (run cw t (X ++ (renderRowsS cw f.caps f.refresh 0 f.next f.last { out := pre }).2.out ++ Y)).bad = none ∧
    MaskedRows cw f.caps f.next
      (run cw t (X ++ (renderRowsS cw f.caps f.refresh 0 f.next f.last { out := pre }).2.out ++ Y)).grid := by
  obtain ⟨x1, x2, x3, x4, x5, x6, x7⟩ := run_preToks cw X hX t
  have hpt : ∀ k ∈ pre, PreTok k := by
    rcases hpre with h | ⟨s, h⟩ <;> subst h <;> simp [PreTok]
  obtain ⟨y1, y2, y3, y4, y5, y6, y7⟩ := run_preToks cw pre hpt (run cw t X)
  have hpost := renderRowsS_display cw f.caps f.refresh hsp (run cw t X) f.next f.last 0 { out := pre } []
    (run cw (run cw t X) pre).grid (run cw (run cw t X) pre) rfl hlast.symm (by simp) rfl
    (by rw [y3, x3, hrows]; simp) (by rw [y4, x4]; exact hnc) (by rw [y4, x4]; exact hlc)
    (by rw [y4, x4, y1, x1]; exact hok)
    hcells (by rw [y2, x2, hbad]) (by rw [y5, x5, hpen, shown_default]) (by rw [y6, x6, hlink])
    (by rw [y7, x7, hlp]; rfl)
  generalize renderRowsS cw f.caps f.refresh 0 f.next f.last { out := pre } = res at hpost
  obtain ⟨M, p1, pm, p2, p3, p4, p5, p6, p7⟩ := hpost
  rw [y3, x3] at p2
  rw [y4, x4] at p3
  rw [List.append_assoc, run_append, run_append]
  obtain ⟨z1, z2, z3, z4, z5⟩ := run_noPrint cw Y (run cw (run cw t X) res.2.out) (by rw [p2, p3]; exact hY)
  refine ⟨by rw [z2, p4], ?_⟩
  rw [z1, p1]; simpa using pm

end VaxisModel.Lemmas.RenderImages
