/-
Display proof of C01 for screens WITH image cells (cells flagged `sixel`), over the cell loop as it
is now (`Model.RenderSixel.renderCellsS`: F02 clip inside the loop, F113 sixel branch).

The row invariant of `Lemmas/RenderDisplay.renderCells_display` is redone with a don't-care mask:
* the finished part of the row is `P`, the part under work `sRow skip k V` as before;
* at an image cell the loop writes nothing: the cell keeps whatever the terminal shows there
  (`poison` if an overwritten wide glyph of the previous frame reached it, the old cell otherwise) and
  that position is not constrained by the post-condition (`Masked`);
* the previous frame's row agrees with the terminal outside ITS image cells (`RelV` instead of
  `V = ls.map phi`): where `last` holds an image cell the terminal shows any cell of width 1.

* an image cell that comes over the *head* of a wide glyph the terminal still shows ("stale" state,
  `Stale`): the loop leaves the head under the image and rewrites the glyph's other columns (F113
  repair: `dirty` reaches them) unless they are image cells too; on the reference terminal such a write
  poisons the head, i.e. the finished part `P` changes — at positions that are under image cells
  (`SameOut`: the finished part is only known outside the mask `mp`).  Row algebra for that write:
  `Lemmas/RenderRowStale.writeRow_stale`.
-/
import VaxisModel.Lemmas.RenderDisplay
import VaxisModel.Lemmas.RenderClip
import VaxisModel.Lemmas.RenderRowStale
import VaxisModel.Model.RenderSixel

namespace VaxisModel.Lemmas.RenderImages
open VaxisModel.Model.Render VaxisModel.Spec VaxisModel.Spec.Display
open VaxisModel.Lemmas.RenderToks VaxisModel.Lemmas.RenderRow VaxisModel.Lemmas.RenderPen
open VaxisModel.Spec.Expected VaxisModel.Lemmas.RenderDisplay VaxisModel.Lemmas.RenderClip

/-- What the rest of a row shows after the loop: `skip` continuation cells, then per cell — an
    image cell: anything; any other cell: its glyph (a blank when it does not fit in the rest of
    the row) followed by its continuation cells. -/
def Masked (cw : String → Nat) (caps : Caps) : Nat → List Cell → List DCell → Prop
  | _, [], X => X = []
  | _, _ :: _, [] => False
  | skip + 1, _ :: ns, x :: X => x = DCell.cont ∧ Masked cw caps skip ns X
  | 0, n :: ns, x :: X =>
      if n.sixel then Masked cw caps 0 ns X
      else x = expectedCell cw caps (clipCell cw (ns.length + 1) n) ∧
           Masked cw caps (advance cw (clipCell cw (ns.length + 1) n)) ns X

/-- The terminal row (parse `V`) shows the previous frame's row `ls` outside that row's image
    cells; under an image cell of `ls` it shows some cell of width 1 (or poison). -/
def RelV (cw : String → Nat) (caps : Caps) : List VCell → List Cell → Prop
  | [], [] => True
  | v :: vs, l :: ls => (v = phi cw caps l ∨ (l.sixel = true ∧ v.2 = 0 ∧ advance cw l = 0)) ∧ RelV cw caps vs ls
  | _, _ => False

theorem relV_map_phi (cw : String → Nat) (caps : Caps) (ls : List Cell) : RelV cw caps (ls.map (phi cw caps)) ls := by
  induction ls with
  | nil => trivial
  | cons l ls ih => exact ⟨Or.inl rfl, ih⟩

theorem relV_v2 (cw : String → Nat) (caps : Caps) (v : VCell) (l : Cell)
    (h : v = phi cw caps l ∨ (l.sixel = true ∧ v.2 = 0 ∧ advance cw l = 0)) : v.2 = advance cw l := by
  rcases h with h | ⟨_, h1, h2⟩
  · rw [h]; rfl
  · rw [h1, h2]

/-! ### the clipped cell -/

theorem clipCell_adv (cw : String → Nat) (rem : Nat) (c : Cell) (hrem : 1 ≤ rem) :
    advance cw (clipCell cw rem c) < rem := by
  unfold clipCell
  split
  · have : advance cw ({ c with g := "20", w := 1 } : Cell) = 0 := by
      rw [adv_eq, width_clip]; rfl
    omega
  · omega

theorem clipCell_ok (cw : String → Nat) (caps : Caps) (hsp : cw "20" = 1) (rem : Nat) (c : Cell)
    (h : 0 ≤ c.w ∧ WidthOk cw caps c) : 0 ≤ (clipCell cw rem c).w ∧ WidthOk cw caps (clipCell cw rem c) := by
  unfold clipCell
  split
  · refine ⟨by simp, Or.inr (Or.inl ?_)⟩
    simp [hsp]
  · exact h

/-! ### unfolding the current loop -/

theorem renderCellsS_sixel_eq (cw : String → Nat) (caps : Caps) (refresh : Bool) (row col : Nat) (track : Bool)
    (dirty : Nat) (n l : Cell) (ns ls : List Cell) (st : RSt) (h : n.sixel = true) :
    renderCellsS cw caps refresh row col 0 track dirty (n :: ns) (l :: ls) st =
      (n :: (renderCellsS cw caps refresh row (col + 1) 0 false
              (if col + advance cw l + 1 > dirty then col + advance cw l + 1 else dirty) ns ls { st with reposition := true }).1,
       (renderCellsS cw caps refresh row (col + 1) 0 false
              (if col + advance cw l + 1 > dirty then col + advance cw l + 1 else dirty) ns ls { st with reposition := true }).2) := by
  simp only [renderCellsS, h, if_true]

theorem renderCellsS_write_eq (cw : String → Nat) (caps : Caps) (refresh : Bool) (row col : Nat) (track : Bool)
    (dirty : Nat) (n0 l : Cell) (ns ls : List Cell) (st : RSt) (h : n0.sixel = false)
    (hc : ¬ (clipCell cw (ns.length + 1) n0 = l ∧ ¬ refresh ∧ col ≥ dirty)) :
    renderCellsS cw caps refresh row col 0 track dirty (n0 :: ns) (l :: ls) st =
      (clipCell cw (ns.length + 1) n0 :: (renderCellsS cw caps refresh row (col + 1) (advance cw (clipCell cw (ns.length + 1) n0)) true
              (if col + advance cw l + 1 > dirty then col + advance cw l + 1 else dirty) ns ls
              { reposition := false, pen := (clipCell cw (ns.length + 1) n0).style,
                out := st.out ++ cellToks cw caps st row col (clipCell cw (ns.length + 1) n0) }).1,
       (renderCellsS cw caps refresh row (col + 1) (advance cw (clipCell cw (ns.length + 1) n0)) true
              (if col + advance cw l + 1 > dirty then col + advance cw l + 1 else dirty) ns ls
              { reposition := false, pen := (clipCell cw (ns.length + 1) n0).style,
                out := st.out ++ cellToks cw caps st row col (clipCell cw (ns.length + 1) n0) }).2) := by
  simp only [renderCellsS, h, Bool.false_eq_true, if_false]
  rw [if_neg hc]
  rfl

theorem renderCellsS_equal_eq (cw : String → Nat) (caps : Caps) (refresh : Bool) (row col : Nat) (track : Bool)
    (dirty : Nat) (n0 l : Cell) (ns ls : List Cell) (st : RSt) (h : n0.sixel = false)
    (hc : clipCell cw (ns.length + 1) n0 = l ∧ ¬ refresh ∧ col ≥ dirty) :
    renderCellsS cw caps refresh row col 0 track dirty (n0 :: ns) (l :: ls) st =
      (l :: (renderCellsS cw caps refresh row (col + 1) (advance cw (clipCell cw (ns.length + 1) n0)) false dirty ns ls
              { st with reposition := true }).1,
       (renderCellsS cw caps refresh row (col + 1) (advance cw (clipCell cw (ns.length + 1) n0)) false dirty ns ls
              { st with reposition := true }).2) := by
  simp only [renderCellsS, h, Bool.false_eq_true, if_false]
  rw [if_pos hc]

/-! ### One written cell, on any row -/

/-- `Lemmas/RenderDisplay.cell_write` without the row description: the tokens of one changed cell
    perform `writeRow` at the current column. -/
theorem cell_write_gen (cw : String → Nat) (caps : Caps) (hsp : cw "20" = 1) (t : Term) (st : RSt) (row col : Nat)
    (n : Cell) (r : List DCell)
    (h : TInv caps t st row col) (hr : row < t.rows) (hcols : col + (advance cw n + 1) ≤ t.cols)
    (hg : t.grid[row]? = some r)
    (hw0 : 0 ≤ n.w) (hwok : WidthOk cw caps n) (o : List Tok) :
    let t' := run cw t (cellToks cw caps st row col n)
    t'.grid = t.grid.set row (writeRow r col (advance cw n + 1) (expectedCell cw caps n)) ∧
    t'.rows = t.rows ∧ t'.cols = t.cols ∧
    TInv caps t' { reposition := false, pen := n.style, out := o } row (col + 1 + advance cw n) := by
  intro t'
  have hc : col < t.cols := by omega
  obtain ⟨hc1, g1, r1, c1⟩ := pre_run cw caps t st row col h hr hc
  generalize hpre : (if st.reposition then
        (if st.pen.link ≠ "" then [Tok.osc8 "" ""] else []) ++ [Tok.cup (row + 1) (col + 1)] else []) = pre at hc1 g1 r1 c1
  generalize hpen : (if st.reposition ∧ st.pen.link ≠ "" then ({ st.pen with link := "", linkParams := "" } : Style) else st.pen) = pen at hc1
  obtain ⟨hc2, g2, r2, c2⟩ := delta_run cw caps (run cw t pre) pen n.style row col hc1
  have ht' : t' = putGlyph (run cw (run cw t pre) (penDelta caps pen n.style)) (shownG cw n) (advance cw n + 1) := by
    simp only [t', cellToks, hpre, hpen, run_append]
    simp only [run, List.foldl_cons, List.foldl_nil]
    exact glyph_step cw caps n _ hsp hw0 hwok
  generalize run cw (run cw t pre) (penDelta caps pen n.style) = t2 at hc2 g2 r2 c2 ht'
  have hg2 : t2.grid[t2.row]? = some r := by rw [hc2.row, g2, g1]; exact hg
  have hfit2 : t2.col + (advance cw n + 1) ≤ t2.cols := by rw [hc2.col, c2, c1]; omega
  obtain ⟨p1, p2, p3, p4, p5, p6, p7, p8, p9⟩ := putGlyph_ok t2 (shownG cw n) (advance cw n + 1) _ (by omega) hc2.pw hfit2 hg2
  rw [← ht'] at p1 p2 p3 p4 p5 p6 p7 p8 p9
  refine ⟨?_, by rw [p8, r2, r1], by rw [p9, c2, c1], ⟨by rw [p1, hc2.bad], by rw [p5, hc2.pen], by rw [p6, hc2.link], by rw [p7, hc2.lp], ?_⟩⟩
  · rw [p2, hc2.row, hc2.col, g2, g1, hc2.pen, hc2.lp, hc2.link, ← expectedCell_eq]
  · intro _
    refine ⟨by rw [p3, hc2.row], ?_⟩
    intro hlt
    rw [p9, c2, c1] at hlt
    have := p4 (by rw [hc2.col, c2, c1]; omega)
    rw [hc2.col] at this
    exact ⟨by rw [this.1]; omega, this.2⟩

/-! ### The finished part of the row, known outside the mask -/

/-- `P'` is `P` except possibly at the positions flagged in `mp` (positions under image cells). -/
def SameOut (mp : List Bool) (P P' : List DCell) : Prop :=
  P'.length = P.length ∧ ∀ (i : Nat), mp[i]? ≠ some true → P'[i]? = P[i]?

theorem SameOut.refl (mp : List Bool) (P : List DCell) : SameOut mp P P := ⟨rfl, fun _ _ => rfl⟩

theorem SameOut.trans {mp : List Bool} {P P' P'' : List DCell} (h1 : SameOut mp P P') (h2 : SameOut mp P' P'') :
    SameOut mp P P'' := ⟨h2.1.trans h1.1, fun i hi => (h2.2 i hi).trans (h1.2 i hi)⟩

/-- Splitting off the last position. -/
theorem SameOut.snoc {mp : List Bool} {P : List DCell} {x : DCell} {b : Bool} {P'' : List DCell} (hmp : mp.length = P.length)
    (h : SameOut (mp ++ [b]) (P ++ [x]) P'') :
    ∃ P' x', P'' = P' ++ [x'] ∧ SameOut mp P P' ∧ (b = false → x' = x) := by
  obtain ⟨hl, hp⟩ := h
  have hl' : P''.length = P.length + 1 := by simpa using hl
  have hne : P'' ≠ [] := by intro e; rw [e] at hl'; simp at hl'
  refine ⟨P''.dropLast, P''.getLast hne, (List.dropLast_concat_getLast hne).symm, ⟨by simp [hl'], ?_⟩, ?_⟩
  · intro i hi
    by_cases hlt : i < P.length
    · have h1 : (mp ++ [b])[i]? ≠ some true := by
        rw [List.getElem?_append_left (by omega)]; exact hi
      have := hp i h1
      rw [List.getElem?_append_left hlt] at this
      rw [← this, List.getElem?_dropLast]
      simp [hl', hlt]
    · rw [List.getElem?_eq_none (by simp [hl']; omega), List.getElem?_eq_none (by omega)]
  · intro hb
    have h1 : (mp ++ [b])[P.length]? ≠ some true := by
      rw [List.getElem?_append_right (by omega), hmp]; simp [hb]
    have := hp P.length h1
    rw [List.getElem?_append_right (Nat.le_refl _)] at this
    simp only [Nat.sub_self, List.getElem?_cons_zero] at this
    have h2 : P''[P.length]? = some (P''.getLast hne) := by
      rw [List.getLast_eq_getElem, List.getElem?_eq_getElem (by omega)]
      congr 2; omega
    rw [h2] at this
    exact Option.some.inj this

/-- The part under work begins with `sk ≥ 1` continuation cells of a glyph whose head is in the
    finished part, under an image cell (as are all positions since): the loop is not skipping. -/
def Stale (mp : List Bool) (P : List DCell) (skip sk k : Nat) : Prop :=
  skip = 0 ∧ 1 ≤ sk ∧ k = sk ∧
  ∃ (Q : List DCell) (x : VCell) (j : Nat), P = Q ++ x.1 :: List.replicate j DCell.cont ∧ VOk x ∧ x.2 = j + sk ∧
    ∀ i, Q.length ≤ i → i < P.length → mp[i]? = some true

/-- **Writing a glyph in the stale state**: the hidden head and the continuation cells before the
    current column become poison (all under image cells), then the write is the ordinary one. -/
theorem writeRow_staleP (mp : List Bool) (P : List DCell) (sk : Nat) (v : VCell) (vs : List VCell) (w : Nat) (cell : DCell)
    (hst : Stale mp P 0 sk sk) (hok : ∀ x ∈ v :: vs, VOk x) (hw : 1 ≤ w) (hfit : w ≤ (v :: vs).length) :
    ∃ Pm, SameOut mp P Pm ∧
      writeRow (P ++ sRow sk sk (v :: vs)) P.length w cell = Pm ++ cell :: sRow (w - 1) (nextL sk v) vs := by
  obtain ⟨_, hsk, _, Q, x, j, hP, hx, hx2, hmask⟩ := hst
  let ys : List VCell := List.replicate j (DCell.poison, 0)
  have hys : ys.length = j := by simp [ys]
  have hrow : P ++ sRow sk sk (v :: vs) = Q ++ x.1 :: eRow x.2 (ys ++ v :: vs) := by
    rw [sRow_diag, hP, hx2, eRow_append_conts j sk ys (v :: vs) hys]; simp
  have hPl : P.length = Q.length + (1 + j) := by rw [hP]; simp; omega
  rw [hrow, hPl, writeRow_stale Q x (ys ++ v :: vs) (1 + j) w cell hx (by omega) (by omega) (by simp [hys]; omega)]
  have hs := sRow_poisons (1 + j) sk (x :: (ys ++ v :: vs)) (by simp [hys]; omega)
  have e1 : sk + (1 + j) = x.2 + 1 := by omega
  have e2 : (x :: (ys ++ v :: vs)).drop (1 + j) = v :: vs := by
    have : 1 + j = j + 1 := by omega
    rw [this, List.drop_succ_cons, List.drop_left' hys]
  rw [e1, e2] at hs
  rw [hs]
  refine ⟨Q ++ List.replicate (1 + j) DCell.poison, ⟨by rw [hPl]; simp, ?_⟩, ?_⟩
  · intro i hi
    by_cases hlt : i < Q.length
    · rw [List.getElem?_append_left hlt, hP, List.getElem?_append_left hlt]
    · by_cases hlt2 : i < P.length
      · exact absurd (hmask i (by omega) hlt2) hi
      · rw [List.getElem?_eq_none (by simp; omega), List.getElem?_eq_none (by omega)]
  · have hl2 : (Q ++ List.replicate (1 + j) DCell.poison).length = Q.length + (1 + j) := by simp
    have := writeRow_sRow (Q ++ List.replicate (1 + j) DCell.poison) sk v vs w cell hok hw hfit
    rw [hl2] at this
    rw [← this]; simp

/-! ### The cell loop of one row -/

/-- What one run of the current cell loop over (the rest of) a row achieves: the finished part is
    still `P` outside the mask, the rest shows the new row outside its image cells. -/
def CellsPostM (cw : String → Nat) (caps : Caps) (row : Nat) (t0 : Term) (G : List (List DCell)) (R C : Nat)
    (mp : List Bool) (P : List DCell) (skip : Nat) (ns : List Cell) (res : List Cell × RSt) : Prop :=
  ∃ P' X, (run cw t0 res.2.out).grid = G.set row (P' ++ X) ∧ SameOut mp P P' ∧ Masked cw caps skip ns X ∧
  (run cw t0 res.2.out).rows = R ∧ (run cw t0 res.2.out).cols = C ∧
  (run cw t0 res.2.out).bad = none ∧ (run cw t0 res.2.out).pen = shown caps res.2.pen ∧
  (run cw t0 res.2.out).link = res.2.pen.link ∧ (run cw t0 res.2.out).linkParams = lpOf res.2.pen

theorem postM_nil (cw : String → Nat) (caps : Caps) (row : Nat) (t0 : Term) (mp : List Bool) (P : List DCell) (skip : Nat)
    (st : RSt) (pos : Nat) (hg : (run cw t0 st.out).grid[row]? = some P)
    (hinv : TInv caps (run cw t0 st.out) st row pos) :
    CellsPostM cw caps row t0 (run cw t0 st.out).grid (run cw t0 st.out).rows (run cw t0 st.out).cols mp P skip []
      ([], st) := by
  refine ⟨P, [], ?_, SameOut.refl mp P, ?_, rfl, rfl, hinv.bad, hinv.pen, hinv.link, hinv.lp⟩
  · rw [List.append_nil, set_self _ _ _ hg]
  · cases skip <;> rfl

/-- One more position: the loop continued from the finished part `Pm ++ [x]` (with `Pm` = `P` outside
    the mask); `b` says whether position `|P|` is under an image cell. -/
theorem postM_cons (cw : String → Nat) (caps : Caps) (row : Nat) (t0 : Term) (G G' : List (List DCell)) (R C : Nat)
    (mp : List Bool) (P Pm : List DCell) (x : DCell) (b : Bool) (skip skip' : Nat) (n c : Cell) (ns : List Cell)
    (res : List Cell × RSt) (hmp : mp.length = P.length)
    (hG : ∀ Y, G'.set row Y = G.set row Y) (hPm : SameOut mp P Pm)
    (hM : ∀ x' X, (b = false → x' = x) → Masked cw caps skip' ns X → Masked cw caps skip (n :: ns) (x' :: X))
    (h : CellsPostM cw caps row t0 G' R C (mp ++ [b]) (Pm ++ [x]) skip' ns res) :
    CellsPostM cw caps row t0 G R C mp P skip (n :: ns) (c :: res.1, res.2) := by
  obtain ⟨P'', X, h1, hs, hm, h2, h3, h4, h5, h6, h7⟩ := h
  obtain ⟨P', x', e, hs', hx'⟩ := SameOut.snoc (hmp.trans hPm.1.symm) hs
  refine ⟨P', x' :: X, ?_, hPm.trans hs', hM x' X hx' hm, h2, h3, h4, h5, h6, h7⟩
  rw [h1, hG, e]; simp

theorem sRow_stale_head (sk : Nat) (v : VCell) (vs : List VCell) :
    sRow (sk + 1) (sk + 1) (v :: vs) = DCell.cont :: sRow sk sk vs := by
  simp [sRow, nextL]

theorem renderCellsS_display (cw : String → Nat) (caps : Caps) (refresh : Bool) (row : Nat) (hsp : cw "20" = 1)
    (t0 : Term) :
    ∀ (ns ls : List Cell) (col skip : Nat) (track : Bool) (dirty : Nat) (st : RSt) (V : List VCell) (k : Nat)
      (P : List DCell) (t : Term) (mp : List Bool) (sk : Nat), run cw t0 st.out = t →
      ns.length = ls.length → V.length = ns.length → (∀ v ∈ V, VOk v) →
      t.grid[row]? = some (P ++ sRow sk k V) → P.length = col → mp.length = col → col + ns.length = t.cols → row < t.rows →
      (sk = skip ∨ Stale mp P skip sk k) →
      (refresh = false → RelV cw caps V ls ∧ (skip < k → col + k ≤ dirty) ∧ (track = false → 0 < skip → k = skip)) →
      skip ≤ ns.length → (∀ c ∈ ns, 0 ≤ c.w ∧ WidthOk cw caps c) →
      TInv caps t st row (col + skip) →
      CellsPostM cw caps row t0 t.grid t.rows t.cols mp P skip ns
        (renderCellsS cw caps refresh row col skip track dirty ns ls st) := by
  intro ns
  induction ns with
  | nil =>
    intro ls col skip track dirty st V k P t mp sk ht hl hV hok hg hP hmp hcols hr hB href hfit hcells hinv
    have hV0 : V = [] := by simpa using hV
    subst hV0
    have hs : sRow sk k [] = [] := by cases sk <;> cases k <;> rfl
    rw [hs, List.append_nil] at hg
    subst ht
    simp only [renderCellsS]
    exact postM_nil cw caps row t0 mp P skip st _ hg hinv
  | cons n ns ih =>
    intro ls col skip track dirty st V k P t mp sk ht hl hV hok hg hP hmp hcols hr hB href hfit hcells hinv
    have hmpP : mp.length = P.length := by rw [hmp, hP]
    cases ls with
    | nil => simp at hl
    | cons l ls =>
      cases V with
      | nil => simp at hV
      | cons v vs =>
        have hl' : ns.length = ls.length := by simpa using hl
        have hV' : vs.length = ns.length := by simpa using hV
        have hok' : ∀ x ∈ vs, VOk x := fun x hx => hok x (by simp [hx])
        have hcells' : ∀ c ∈ ns, 0 ≤ c.w ∧ WidthOk cw caps c := fun c hc => hcells c (by simp [hc])
        cases skip with
        | succ skip =>
          have hsk : sk = skip + 1 := by
            rcases hB with h | h
            · exact h
            · exact absurd h.1 (by omega)
          subst hsk
          simp only [renderCellsS]
          apply postM_cons cw caps row t0 t.grid t.grid _ _ mp P P DCell.cont false (skip + 1) skip n ({} : Cell) ns _ hmpP
            (fun _ => rfl) (SameOut.refl mp P) (fun x' X hx hX => ⟨hx rfl, hX⟩)
          have hg' : t.grid[row]? = some ((P ++ [DCell.cont]) ++ sRow skip (nextL k v) vs) := by
            rw [hg]; simp [sRow]
          refine ih ls (col + 1) skip track _ st vs (nextL k v) (P ++ [DCell.cont]) t (mp ++ [false]) skip ht hl' hV' hok' hg'
            (by simp [hP]) (by simp [hmp]) (by simp at hcols; omega) hr (Or.inl rfl) ?_ (by simp at hfit; omega) hcells' ?_
          · intro hrf
            obtain ⟨e1, e2, e3⟩ := href hrf
            have hv2 : v.2 = advance cw l := relV_v2 cw caps v l e1.1
            refine ⟨e1.2, ?_, ?_⟩
            · intro hlt
              cases track with
              | false =>
                have := e3 rfl (by omega)
                subst this
                simp [nextL] at hlt
              | true =>
                simp only [true_and]
                by_cases hk : k = 0
                · subst hk
                  simp only [nextL, if_true, hv2] at hlt ⊢
                  split <;> omega
                · have hn : nextL k v = k - 1 := by simp [nextL, hk]
                  rw [hn] at hlt ⊢
                  have := e2 (by omega)
                  split <;> omega
            · intro htr hpos
              have := e3 htr (by omega)
              subst this
              simp [nextL]
          · have : col + 1 + skip = col + (skip + 1) := by omega
            rw [this]; exact hinv
        | zero =>
          by_cases hsx : n.sixel = true
          · -- an image cell: nothing is written, the position keeps what the terminal shows
            rw [renderCellsS_sixel_eq cw caps refresh row col track dirty n l ns ls st hsx]
            -- what the position shows and how the part under work continues
            have hx : ∃ x sk', sRow sk k (v :: vs) = x :: sRow sk' (nextL k v) vs ∧
                (sk' = 0 ∨ Stale (mp ++ [true]) (P ++ [x]) 0 sk' (nextL k v)) ∧
                (refresh = false → 0 < nextL k v → col + 1 + nextL k v ≤ (if col + advance cw l + 1 > dirty then col + advance cw l + 1 else dirty)) := by
              rcases hB with hsk | ⟨_, hsk1, hks, Q, x, j, hPq, hxok, hx2, hmask⟩
              · subst hsk
                cases k with
                | succ k =>
                  refine ⟨DCell.poison, 0, by simp [sRow, nextL], Or.inl rfl, ?_⟩
                  intro hrf hpos
                  have := (href hrf).2.1 (by omega)
                  simp only [nextL_succ] at hpos ⊢
                  split <;> omega
                | zero =>
                  by_cases hv0 : v.2 = 0
                  · refine ⟨v.1, 0, by simp [sRow, nextL, hv0, sRow_zero_zero], Or.inl rfl, ?_⟩
                    intro _ hpos; simp [nextL, hv0] at hpos
                  · -- the head of a wide glyph comes under the image: stale state
                    refine ⟨v.1, v.2, by simp [sRow, nextL, sRow_diag], Or.inr ⟨rfl, by omega, by simp [nextL], P, v, 0, by simp, hok v (by simp), by simp, ?_⟩, ?_⟩
                    · intro i h1 h2
                      have : i = P.length := by simp at h2; omega
                      rw [this, List.getElem?_append_right (by omega), hmpP]; simp
                    · intro hrf _
                      have hv2 : v.2 = advance cw l := relV_v2 cw caps v l (href hrf).1.1
                      simp only [nextL_zero, hv2]
                      split <;> omega
              · subst hks
                obtain ⟨s, rfl⟩ : ∃ s, k = s + 1 := ⟨k - 1, by omega⟩
                refine ⟨DCell.cont, s, by rw [sRow_stale_head]; simp [nextL], ?_, ?_⟩
                · by_cases hs0 : s = 0
                  · exact Or.inl hs0
                  · refine Or.inr ⟨rfl, by omega, by simp [nextL], Q, x, j + 1, ?_, hxok, by omega, ?_⟩
                    · rw [hPq]; simp [List.replicate_succ']
                    · intro i h1 h2
                      by_cases hi : i < P.length
                      · rw [List.getElem?_append_left (by omega)]; exact hmask i h1 hi
                      · have : i = P.length := by simp at h2; omega
                        rw [this, List.getElem?_append_right (by omega), hmpP]; simp
                · intro hrf hpos
                  have := (href hrf).2.1 (by omega)
                  simp only [nextL_succ] at hpos ⊢
                  split <;> omega
            obtain ⟨x, sk', hx, hst', hdirty⟩ := hx
            apply postM_cons cw caps row t0 t.grid t.grid _ _ mp P P x true 0 0 n n ns _ hmpP (fun _ => rfl) (SameOut.refl mp P)
              (fun x' X _ hX => by simp only [Masked, hsx, if_true]; exact hX)
            have hg' : t.grid[row]? = some ((P ++ [x]) ++ sRow sk' (nextL k v) vs) := by
              rw [hg, hx]; simp
            refine ih ls (col + 1) 0 false _ { st with reposition := true } vs (nextL k v) (P ++ [x]) t (mp ++ [true]) sk' ht hl' hV' hok' hg'
              (by simp [hP]) (by simp [hmp]) (by simp at hcols; omega) hr hst' ?_ (Nat.zero_le _) hcells'
              ⟨hinv.bad, hinv.pen, hinv.link, hinv.lp, by intro h; simp at h⟩
            intro hrf
            obtain ⟨e1, _, _⟩ := href hrf
            exact ⟨e1.2, fun hlt => hdirty hrf hlt, fun _ h => absurd h (Nat.lt_irrefl 0)⟩
          · have hsx' : n.sixel = false := by simpa using hsx
            obtain ⟨hw0, hwok⟩ := clipCell_ok cw caps hsp (ns.length + 1) n (hcells n (by simp))
            have hadv : advance cw (clipCell cw (ns.length + 1) n) < ns.length + 1 :=
              clipCell_adv cw (ns.length + 1) n (by omega)
            generalize hm : clipCell cw (ns.length + 1) n = m at hw0 hwok hadv
            have hMm : ∀ x' X, ((false : Bool) = false → x' = expectedCell cw caps m) → Masked cw caps (advance cw m) ns X →
                Masked cw caps 0 (n :: ns) (x' :: X) := by
              intro x' X hx' hX
              simp only [Masked, hsx', Bool.false_eq_true, if_false, hm]
              exact ⟨hx' rfl, hX⟩
            -- the part under work as an ordinary one (stale state: after poisoning the hidden head)
            have hnoB : (m = l ∧ ¬ refresh ∧ col ≥ dirty) → sk = 0 := by
              intro hc
              rcases hB with h | ⟨_, h1, hks, _⟩
              · exact h
              · exfalso
                have hrf' : refresh = false := by simpa using hc.2.1
                have := (href hrf').2.1 (by omega)
                omega
            by_cases hc : m = l ∧ ¬ refresh ∧ col ≥ dirty
            · rw [renderCellsS_equal_eq cw caps refresh row col track dirty n l ns ls st hsx' (by rw [hm]; exact hc), hm]
              have hsk0 := hnoB hc
              subst hsk0
              obtain ⟨hnl, hrf, hcd⟩ := hc
              have hrf' : refresh = false := by simpa using hrf
              obtain ⟨e1, e2, e3⟩ := href hrf'
              have hk : k = 0 := by
                rcases Nat.eq_zero_or_pos k with h | h
                · exact h
                · have := e2 h; omega
              subst hk
              have hls : l.sixel = false := by rw [← hnl, ← hm, clipCell_sixel]; exact hsx'
              have ev : v = phi cw caps l := by
                rcases e1.1 with h | ⟨h, _⟩
                · exact h
                · rw [hls] at h; cases h
              subst hnl
              apply postM_cons cw caps row t0 t.grid t.grid _ _ mp P P (expectedCell cw caps m) false 0 (advance cw m) n m ns _ hmpP
                (fun _ => rfl) (SameOut.refl mp P) hMm
              have hg' : t.grid[row]? = some ((P ++ [expectedCell cw caps m]) ++ sRow (advance cw m) (advance cw m) vs) := by
                rw [hg, ev]; simp [sRow, phi, sRow_diag]
              exact ih ls (col + 1) (advance cw m) false dirty { st with reposition := true } vs (advance cw m)
                (P ++ [expectedCell cw caps m]) t (mp ++ [false]) (advance cw m) ht hl' hV' hok' hg' (by simp [hP]) (by simp [hmp])
                (by simp at hcols; omega) hr (Or.inl rfl)
                (fun _ => ⟨e1.2, by omega, fun _ _ => rfl⟩) (by omega) hcells'
                ⟨hinv.bad, hinv.pen, hinv.link, hinv.lp, by intro h; simp at h⟩
            · rw [renderCellsS_write_eq cw caps refresh row col track dirty n l ns ls st hsx' (by rw [hm]; exact hc), hm]
              have hfitw : advance cw m + 1 ≤ (v :: vs).length := by
                simp only [List.length_cons, hV']; omega
              have hcw := cell_write_gen cw caps hsp t st row col m (P ++ sRow sk k (v :: vs)) (by simpa using hinv) hr
                (by simp at hcols; omega) hg hw0 hwok
              -- the write on the row
              have hwr : ∃ Pm, SameOut mp P Pm ∧
                  writeRow (P ++ sRow sk k (v :: vs)) col (advance cw m + 1) (expectedCell cw caps m) =
                    Pm ++ expectedCell cw caps m :: sRow (advance cw m) (nextL k v) vs := by
                rcases hB with hsk | hst
                · subst hsk
                  refine ⟨P, SameOut.refl mp P, ?_⟩
                  rw [← hP, writeRow_sRow P k v vs _ _ hok (by omega) hfitw]; simp
                · have hks : k = sk := hst.2.2.1
                  subst hks
                  obtain ⟨Pm, h1, h2⟩ := writeRow_staleP mp P k v vs (advance cw m + 1) (expectedCell cw caps m) hst hok (by omega) hfitw
                  exact ⟨Pm, h1, by rw [← hP, h2]; simp⟩
              obtain ⟨Pm, hPm, hwr⟩ := hwr
              generalize hst' : (RSt.mk false m.style (st.out ++ cellToks cw caps st row col m)) = st'
              have hcw' : (run cw t (cellToks cw caps st row col m)).grid
                    = t.grid.set row (Pm ++ expectedCell cw caps m :: sRow (advance cw m) (nextL k v) vs) ∧
                  (run cw t (cellToks cw caps st row col m)).rows = t.rows ∧
                  (run cw t (cellToks cw caps st row col m)).cols = t.cols ∧
                  TInv caps (run cw t (cellToks cw caps st row col m)) { reposition := false, pen := m.style, out := st'.out }
                    row (col + 1 + advance cw m) := by
                have := hcw st'.out
                rw [hwr] at this
                exact this
              generalize ht' : run cw t (cellToks cw caps st row col m) = t' at hcw'
              obtain ⟨g1, r1, c1, inv1⟩ := hcw'
              have hrun : run cw t0 st'.out = t' := by
                rw [← hst', ← ht', ← ht, run_append]
              have hst'e : ({ reposition := false, pen := m.style, out := st'.out } : RSt) = st' := by
                rw [← hst']
              rw [hst'e] at inv1
              have hg' : t'.grid[row]? = some ((Pm ++ [expectedCell cw caps m]) ++ sRow (advance cw m) (nextL k v) vs) := by
                rw [g1, List.getElem?_set]
                have : row < t.grid.length := by
                  rcases Nat.lt_or_ge row t.grid.length with h' | h'
                  · exact h'
                  · rw [List.getElem?_eq_none h'] at hg; simp at hg
                simp [this]
              have hpost := ih ls (col + 1) (advance cw m) true
                (if col + advance cw l + 1 > dirty then col + advance cw l + 1 else dirty) st' vs (nextL k v)
                (Pm ++ [expectedCell cw caps m]) t' (mp ++ [false]) (advance cw m) hrun hl' hV' hok' hg' (by simp [hPm.1, hP]) (by simp [hmp])
                (by rw [c1]; simp at hcols; omega) (by rw [r1]; exact hr) (Or.inl rfl) ?_ (by omega) hcells' inv1
              · rw [r1, c1] at hpost
                refine postM_cons cw caps row t0 t.grid t'.grid _ _ mp P Pm (expectedCell cw caps m) false 0 (advance cw m) n m ns _ hmpP ?_ hPm hMm hpost
                intro Y; rw [g1, List.set_set]
              · intro hrf
                obtain ⟨e1, e2, e3⟩ := href hrf
                have hv2 : v.2 = advance cw l := relV_v2 cw caps v l e1.1
                refine ⟨e1.2, ?_, fun h => by simp at h⟩
                intro hlt
                by_cases hk : k = 0
                · subst hk
                  simp only [nextL, if_true, hv2] at hlt ⊢
                  split <;> omega
                · have hn : nextL k v = k - 1 := by simp [nextL, hk]
                  rw [hn] at hlt ⊢
                  have := e2 (by omega)
                  split <;> omega


/-! ### All rows -/

/-- Row by row: the terminal row is well formed (a parse `V`) and shows the previous frame's row
    outside that row's image cells (unless the frame is a refresh). -/
def RowsOkM (cw : String → Nat) (caps : Caps) (refresh : Bool) (C : Nat) : List (List DCell) → Grid → Grid → Prop
  | [], [], [] => True
  | r :: rs, l :: ls, _ :: ns =>
      (∃ V : List VCell, r = eRow 0 V ∧ V.length = C ∧ (∀ v ∈ V, VOk v) ∧ (refresh = false → RelV cw caps V l)) ∧
        RowsOkM cw caps refresh C rs ls ns
  | _, _, _ => False

def MaskedRows (cw : String → Nat) (caps : Caps) : Grid → List (List DCell) → Prop
  | [], [] => True
  | n :: ns, x :: xs => Masked cw caps 0 n x ∧ MaskedRows cw caps ns xs
  | _, _ => False

def RowsPostM (cw : String → Nat) (caps : Caps) (t0 : Term) (D : List (List DCell)) (R C : Nat) (ns : Grid)
    (res : Grid × RSt) : Prop :=
  ∃ M, (run cw t0 res.2.out).grid = D ++ M ∧ MaskedRows cw caps ns M ∧
  (run cw t0 res.2.out).rows = R ∧ (run cw t0 res.2.out).cols = C ∧
  (run cw t0 res.2.out).bad = none ∧ (run cw t0 res.2.out).pen = shown caps res.2.pen ∧
  (run cw t0 res.2.out).link = res.2.pen.link ∧ (run cw t0 res.2.out).linkParams = lpOf res.2.pen

theorem renderRowsS_display (cw : String → Nat) (caps : Caps) (refresh : Bool) (hsp : cw "20" = 1) (t0 : Term) :
    ∀ (ns ls : Grid) (row : Nat) (st : RSt) (D Rm : List (List DCell)) (t : Term), run cw t0 st.out = t →
      ns.length = ls.length → t.grid = D ++ Rm → D.length = row → row + ns.length = t.rows →
      (∀ r ∈ ns, r.length = t.cols) → (∀ r ∈ ls, r.length = t.cols) →
      RowsOkM cw caps refresh t.cols Rm ls ns →
      (∀ r ∈ ns, ∀ c ∈ r, 0 ≤ c.w ∧ WidthOk cw caps c) →
      t.bad = none → t.pen = shown caps st.pen → t.link = st.pen.link → t.linkParams = lpOf st.pen →
      RowsPostM cw caps t0 D t.rows t.cols ns (renderRowsS cw caps refresh row ns ls st) := by
  intro ns
  induction ns with
  | nil =>
    intro ls row st D Rm t ht hl hg hD hrows hn hlc hok hcells hbad hpen hlink hlp
    have : ls = [] := by cases ls with
      | nil => rfl
      | cons _ _ => simp at hl
    subst this
    have : Rm = [] := by cases Rm with
      | nil => rfl
      | cons _ _ => simp [RowsOkM] at hok
    subst this
    subst ht
    simp only [renderRowsS]
    exact ⟨[], by simpa using hg, trivial, rfl, rfl, hbad, hpen, hlink, hlp⟩
  | cons n ns ih =>
    intro ls row st D Rm t ht hl hg hD hrows hn hlc hok hcells hbad hpen hlink hlp
    cases ls with
    | nil => simp at hl
    | cons l ls =>
      cases Rm with
      | nil => simp [RowsOkM] at hok
      | cons r Rm =>
        obtain ⟨⟨V, hrV, hVlen, hVok, hVref⟩, hok'⟩ := hok
        have hnl : n.length = t.cols := hn n (by simp)
        have hll : l.length = t.cols := hlc l (by simp)
        have hgrow : t.grid[row]? = some ([] ++ sRow 0 0 V) := by
          rw [hg, ← hD, List.getElem?_append_right (Nat.le_refl _)]
          simp [hrV, sRow_zero_zero]
        have hc := renderCellsS_display cw caps refresh row hsp t0 n l 0 0 false 0 { st with reposition := true } V 0 [] t [] 0
          ht (by rw [hnl, hll]) (by rw [hVlen, hnl]) hVok hgrow rfl rfl (by rw [hnl]; omega)
          (by simp at hrows; omega) (Or.inl rfl)
          (fun h => ⟨hVref h, fun h' => absurd h' (Nat.lt_irrefl 0), fun _ h' => absurd h' (Nat.lt_irrefl 0)⟩)
          (Nat.zero_le _) (hcells n (by simp))
          ⟨hbad, hpen, hlink, hlp, by intro h; simp at h⟩
        simp only [renderRowsS]
        generalize renderCellsS cw caps refresh row 0 0 false 0 n l { st with reposition := true } = rc at hc
        obtain ⟨l', st'⟩ := rc
        obtain ⟨P', X, g1, s1, m1, r1, c1, b1, p1, k1, q1⟩ := hc
        have hP' : P' = [] := List.eq_nil_of_length_eq_zero (by simpa using s1.1)
        subst hP'
        simp only [List.nil_append] at g1
        simp only at g1 r1 c1 b1 p1 k1 q1
        have hg1 : (run cw t0 st'.out).grid = (D ++ [X]) ++ Rm := by
          rw [g1, hg, ← hD]; simp
        have := ih ls (row + 1) st' (D ++ [X]) Rm (run cw t0 st'.out) rfl
          (by simpa using hl) hg1 (by simp [hD]) (by rw [r1]; simp at hrows; omega)
          (by rw [c1]; exact fun r hr => hn r (by simp [hr])) (by rw [c1]; exact fun r hr => hlc r (by simp [hr]))
          (by rw [c1]; exact hok') (fun r hr => hcells r (by simp [hr]))
          b1 p1 k1 q1
        rw [r1, c1] at this
        obtain ⟨M, a1, am, a2, a3, a4, a5, a6, a7⟩ := this
        exact ⟨X :: M, by rw [a1]; simp, ⟨m1, am⟩, a2, a3, a4, a5, a6, a7⟩

/-! ### The frame -/

theorem frame_shapeS (cw : String → Nat) (f : Frame) (R C : Nat)
    (hcur : f.cursorNext.visible = true →
      (0 ≤ f.cursorNext.row ∧ f.cursorNext.row < R) ∧ (0 ≤ f.cursorNext.col ∧ f.cursorNext.col < C)) :
    ∃ (pre X Y : List Tok), (pre = [] ∨ ∃ s, pre = [Tok.pointer s]) ∧
      (renderFrameS cw f).1 = (renderRowsS cw f.caps f.refresh 0 f.next f.last { out := pre }).1 ∧
      (renderFrameS cw f).2 = X ++ (renderRowsS cw f.caps f.refresh 0 f.next f.last { out := pre }).2.out ++ Y ∧
      (∀ k ∈ X, PreTok k) ∧ (∀ k ∈ Y, NoPrint R C k) ∧
      lpRun (lpOf (renderRowsS cw f.caps f.refresh 0 f.next f.last { out := pre }).2.pen) Y = "" := by
  refine ⟨if f.shapeLast ≠ f.shapeNext then [Tok.pointer f.shapeNext] else [], ?_⟩
  have hpre : (if f.shapeLast ≠ f.shapeNext then [Tok.pointer f.shapeNext] else []) = [] ∨
      ∃ s, (if f.shapeLast ≠ f.shapeNext then [Tok.pointer f.shapeNext] else []) = [Tok.pointer s] := by
    split
    · exact Or.inr ⟨_, rfl⟩
    · exact Or.inl rfl
  unfold renderFrameS renderBodyS
  simp only
  generalize renderRowsS cw f.caps f.refresh 0 f.next f.last
    { out := if f.shapeLast ≠ f.shapeNext then [Tok.pointer f.shapeNext] else [] } = rr
  obtain ⟨last', st⟩ := rr
  simp only
  unfold flush
  by_cases hemp : (st.out ++ (if st.pen.link ≠ "" then [Tok.osc8 "" ""] else []) ++
      (if f.cursorNext.visible = true ∧ ¬ f.cursorLast.visible = true then showCursorToks f.cursorNext else [])).isEmpty = true
  · simp only [hemp, if_true]
    have h0 := hemp
    simp only [List.isEmpty_iff, List.append_eq_nil_iff] at h0
    obtain ⟨⟨ho, hcl⟩, _⟩ := h0
    have hlk : st.pen.link = "" := by
      by_cases h : st.pen.link = ""
      · exact h
      · simp [h] at hcl
    obtain ⟨c1, c2⟩ := cursorOnly_props R C f.cursorNext f.cursorLast hcur
    refine ⟨[], cursorOnly f.cursorNext f.cursorLast, hpre, trivial, by rw [ho]; rfl, by simp, c1, ?_⟩
    rw [c2]; simp [lpOf, hlk]
  · simp only [hemp, Bool.false_eq_true, if_false]
    refine ⟨(if f.cursorLast.visible = true then [Tok.decrst 25] else []) ++
        (if f.caps.sync = true then [Tok.decset 2026] else []),
      (if st.pen.link ≠ "" then [Tok.osc8 "" ""] else []) ++
      (if f.cursorNext.visible = true ∧ ¬ f.cursorLast.visible = true then showCursorToks f.cursorNext else []) ++
      [Tok.sgr []] ++
      (if f.cursorNext.visible = true ∧ f.cursorLast.visible = true then showCursorToks f.cursorNext else []) ++
      (if f.caps.sync = true then [Tok.decrst 2026] else []), hpre, trivial, by simp only [List.append_assoc], ?_, ?_, ?_⟩
    · intro k hk
      rcases List.mem_append.mp hk with h | h <;> split at h <;> simp at h <;> subst h <;> trivial
    · intro k hk
      simp only [List.mem_append] at hk
      rcases hk with (((h | h) | h) | h) | h
      · split at h <;> simp at h
        subst h; trivial
      · split at h
        · rename_i hv; exact showCursor_noPrint R C _ (hcur hv.1) k h
        · simp at h
      · simp at h; subst h; trivial
      · split at h
        · rename_i hv; exact showCursor_noPrint R C _ (hcur hv.1) k h
        · simp at h
      · split at h <;> simp at h
        subst h; trivial
    · have hstep : ∀ (p : String) (a b : List Tok), lpRun p (a ++ b) = lpRun (lpRun p a) b := by
        intro p a b; simp [lpRun, List.foldl_append]
      have hclose : lpRun (lpOf st.pen) (if st.pen.link ≠ "" then [Tok.osc8 "" ""] else []) = "" := by
        by_cases h : st.pen.link = ""
        · simp [h, lpOf, lpRun]
        · simp [h, lpRun, lpStep]
      have hshow : ∀ (c : Prop) [Decidable c] (p : String),
          lpRun p (if c then showCursorToks f.cursorNext else []) = p := by
        intro c _ p; split
        · exact showCursor_lp _ _
        · rfl
      rw [hstep, hstep, hstep, hstep, hclose, hshow, hshow]
      split <;> simp [lpRun, lpStep]


theorem frame_coreS (cw : String → Nat) (hsp : cw "20" = 1) (f : Frame) (t : Term) (X Y pre : List Tok)
    (hX : ∀ k ∈ X, PreTok k) (hY : ∀ k ∈ Y, NoPrint t.rows t.cols k)
    (hpre : pre = [] ∨ ∃ s, pre = [Tok.pointer s])
    (hpen : t.pen = TStyle.reset) (hlink : t.link = "") (hlp : t.linkParams = "") (hbad : t.bad = none)
    (hlast : f.last.length = f.next.length)
    (hnc : ∀ r ∈ f.next, r.length = t.cols)
    (hlc : ∀ r ∈ f.last, r.length = t.cols) (hrows : t.rows = f.next.length)
    (hcells : ∀ r ∈ f.next, ∀ c ∈ r, 0 ≤ c.w ∧ WidthOk cw f.caps c)
    (hok : RowsOkM cw f.caps f.refresh t.cols t.grid f.last f.next) :
    (run cw t (X ++ (renderRowsS cw f.caps f.refresh 0 f.next f.last { out := pre }).2.out ++ Y)).bad = none ∧
    MaskedRows cw f.caps f.next
      (run cw t (X ++ (renderRowsS cw f.caps f.refresh 0 f.next f.last { out := pre }).2.out ++ Y)).grid := by
  obtain ⟨x1, x2, x3, x4, x5, x6, x7⟩ := run_preToks cw X hX t
  have hpt : ∀ k ∈ pre, PreTok k := by
    rcases hpre with h | ⟨s, h⟩ <;> subst h <;> simp [PreTok]
  obtain ⟨y1, y2, y3, y4, y5, y6, y7⟩ := run_preToks cw pre hpt (run cw t X)
  have hpost := renderRowsS_display cw f.caps f.refresh hsp (run cw t X) f.next f.last 0 { out := pre } []
    (run cw (run cw t X) pre).grid (run cw (run cw t X) pre) rfl hlast.symm (by simp) rfl
    (by rw [y3, x3, hrows]; simp) (by rw [y4, x4]; exact hnc) (by rw [y4, x4]; exact hlc)
    (by rw [y4, x4, y1, x1]; exact hok)
    hcells (by rw [y2, x2, hbad]) (by rw [y5, x5, hpen, shown_default]) (by rw [y6, x6, hlink])
    (by rw [y7, x7, hlp]; rfl)
  generalize renderRowsS cw f.caps f.refresh 0 f.next f.last { out := pre } = res at hpost
  obtain ⟨M, p1, pm, p2, p3, p4, p5, p6, p7⟩ := hpost
  rw [y3, x3] at p2
  rw [y4, x4] at p3
  rw [List.append_assoc, run_append, run_append]
  obtain ⟨z1, z2, z3, z4, z5⟩ := run_noPrint cw Y (run cw (run cw t X) res.2.out) (by rw [p2, p3]; exact hY)
  refine ⟨by rw [z2, p4], ?_⟩
  rw [z1, p1]; simpa using pm

end VaxisModel.Lemmas.RenderImages
