/-
From the masked row post-condition of `Lemmas/RenderImages` to the statement of
`Props.C01Sixel.frame_displays_images_full` (pointwise, "unknown pixels" excluded), and from the
frame-level hypotheses to `RowsOkM`.
-/
import VaxisModel.Lemmas.RenderImages

namespace VaxisModel.Lemmas.RenderImages
open VaxisModel.Model.Render VaxisModel.Spec VaxisModel.Spec.Display
open VaxisModel.Lemmas.RenderToks VaxisModel.Lemmas.RenderRow VaxisModel.Lemmas.RenderPen
open VaxisModel.Spec.Expected VaxisModel.Lemmas.RenderDisplay VaxisModel.Lemmas.RenderClip

/-- "Unknown pixels" of one row: an image cell that is not covered by a wide glyph to its left. -/
def maskAt (cw : String → Nat) (caps : Caps) (skip : Nat) (ns : List Cell) (i : Nat) : Bool :=
  (match ns[i]? with | some cell => cell.sixel | none => false) &&
  (match (expectedRowC cw caps skip ns)[i]? with | some DCell.cont => false | _ => true)

theorem expectedCell_clip (cw : String → Nat) (caps : Caps) (rem : Nat) (n : Cell) (hrem : 1 ≤ rem) :
    (if (cellWidth cw n).toNat ≤ rem then expectedCell cw caps n else blankOf caps n) = expectedCell cw caps (clipCell cw rem n) ∧
    (if (cellWidth cw n).toNat ≤ rem then (cellWidth cw n).toNat - 1 else 0) = advance cw (clipCell cw rem n) := by
  unfold clipCell
  by_cases h : rem ≤ advance cw n
  · have h' : ¬ (cellWidth cw n).toNat ≤ rem := (clip_iff cw rem n hrem).1 h
    simp only [h, h', if_true, if_false]
    constructor
    · simp [expectedCell, blankOf, cellWidth]
    · rw [adv_eq, width_clip]; rfl
  · have h' : (cellWidth cw n).toNat ≤ rem := by
      by_cases h2 : (cellWidth cw n).toNat ≤ rem
      · exact h2
      · exact absurd ((clip_iff cw rem n hrem).2 h2) h
    simp only [h, h', if_true, if_false]
    exact ⟨trivial, (adv_eq cw n).symm⟩

theorem masked_eq (cw : String → Nat) (caps : Caps) :
    ∀ (ns : List Cell) (skip : Nat) (X : List DCell), Masked cw caps skip ns X →
      (∀ c ∈ ns, c.sixel = true → advance cw c = 0) →
      X.length = ns.length ∧ ∀ i, maskAt cw caps skip ns i = false → X[i]? = (expectedRowC cw caps skip ns)[i]? := by
  intro ns
  induction ns with
  | nil =>
    intro skip X h _
    have : X = [] := by cases skip <;> simpa [Masked] using h
    subst this
    exact ⟨rfl, fun i _ => by cases skip <;> simp [expectedRowC]⟩
  | cons n ns ih =>
    intro skip X h himg
    have himg' : ∀ c ∈ ns, c.sixel = true → advance cw c = 0 := fun c hc => himg c (by simp [hc])
    cases X with
    | nil => cases skip <;> simp [Masked] at h
    | cons x X =>
      cases skip with
      | succ skip =>
        obtain ⟨hx, hX⟩ := h
        obtain ⟨l1, e1⟩ := ih skip X hX himg'
        refine ⟨by simp [l1], ?_⟩
        intro i hi
        cases i with
        | zero => simp [expectedRowC, hx]
        | succ i =>
          simp only [expectedRowC, List.getElem?_cons_succ]
          apply e1 i
          simpa [maskAt, expectedRowC] using hi
      | zero =>
        by_cases hsx : n.sixel = true
        · simp only [Masked, hsx, if_true] at h
          obtain ⟨l1, e1⟩ := ih 0 X h himg'
          have hadv : advance cw n = 0 := himg n (by simp) hsx
          have hw : (cellWidth cw n).toNat - 1 = 0 := by rw [← adv_eq]; exact hadv
          have hfit : (cellWidth cw n).toNat ≤ ns.length + 1 := by omega
          have hE : expectedRowC cw caps 0 (n :: ns) = expectedCell cw caps n :: expectedRowC cw caps 0 ns := by
            simp only [expectedRowC, hfit, if_true, hw]
          refine ⟨by simp [l1], ?_⟩
          intro i hi
          cases i with
          | zero =>
            exfalso
            have hne : expectedCell cw caps n ≠ DCell.cont := by
              unfold expectedCell; simp only; split <;> simp
            simp only [maskAt, hE, List.getElem?_cons_zero, hsx, Bool.true_and] at hi
            split at hi
            · rename_i he; exact hne (Option.some.inj he)
            · simp at hi
          | succ i =>
            rw [hE]
            simp only [List.getElem?_cons_succ]
            apply e1 i
            simpa [maskAt, hE] using hi
        · have hsx' : n.sixel = false := by simpa using hsx
          simp only [Masked, hsx', Bool.false_eq_true, if_false] at h
          obtain ⟨hx, hX⟩ := h
          obtain ⟨c1, c2⟩ := expectedCell_clip cw caps (ns.length + 1) n (by omega)
          obtain ⟨l1, e1⟩ := ih _ X hX himg'
          have hE : expectedRowC cw caps 0 (n :: ns) =
              expectedCell cw caps (clipCell cw (ns.length + 1) n) ::
                expectedRowC cw caps (advance cw (clipCell cw (ns.length + 1) n)) ns := by
            rw [← c1, ← c2]
            simp only [expectedRowC]
            split <;> rfl
          refine ⟨by simp [l1], ?_⟩
          intro i hi
          cases i with
          | zero => simp [hE, hx]
          | succ i =>
            rw [hE]
            simp only [List.getElem?_cons_succ]
            apply e1 i
            simpa [maskAt, hE] using hi

theorem maskedRows_shows (cw : String → Nat) (caps : Caps) :
    ∀ (next : Grid) (M : List (List DCell)), MaskedRows cw caps next M →
      (∀ r ∈ next, ∀ c ∈ r, c.sixel = true → advance cw c = 0) →
      ∀ (r c : Nat), (match next[r]? with | some row => maskAt cw caps 0 row c | none => false) = false →
        (M[r]?.bind (·[c]?)) = ((expectedC cw caps next)[r]?.bind (·[c]?)) := by
  intro next
  induction next with
  | nil =>
    intro M h _ r c _
    have : M = [] := by cases M with
      | nil => rfl
      | cons _ _ => simp [MaskedRows] at h
    subst this; simp [expectedC]
  | cons n ns ih =>
    intro M h himg r c hm
    cases M with
    | nil => simp [MaskedRows] at h
    | cons x xs =>
      obtain ⟨h1, h2⟩ := h
      cases r with
      | zero =>
        simp only [List.getElem?_cons_zero, expectedC, List.map_cons, Option.bind_some] at hm ⊢
        exact (masked_eq cw caps n 0 x h1 (himg n (by simp))).2 c hm
      | succ r =>
        simp only [List.getElem?_cons_succ, expectedC, List.map_cons] at hm ⊢
        exact ih xs h2 (fun r hr => himg r (by simp [hr])) r c hm

/-! ### `RowsOkM` from the frame-level hypotheses -/

theorem rowsOkM_of (cw : String → Nat) (caps : Caps) (refresh : Bool) (C : Nat) :
    ∀ (G : List (List DCell)) (ls ns : Grid), G.length = ls.length → ls.length = ns.length →
      (∀ r ∈ G, r.length = C) → (∀ l ∈ ls, l.length = C) →
      (refresh = false → G = expected cw caps ls) → (refresh = true → ∀ r ∈ G, WFRow 0 r) →
      RowsOkM cw caps refresh C G ls ns := by
  intro G
  induction G with
  | nil =>
    intro ls ns hl hl2 _ _ _ _
    cases ls with
    | nil => cases ns with
      | nil => trivial
      | cons _ _ => simp at hl2
    | cons _ _ => simp at hl
  | cons r G ih =>
    intro ls ns hl hl2 hG hL hag hwf
    cases ls with
    | nil => simp at hl
    | cons l ls =>
      cases ns with
      | nil => simp at hl2
      | cons n ns =>
        refine ⟨?_, ih ls ns (by simpa using hl) (by simpa using hl2) (fun r hr => hG r (by simp [hr]))
          (fun l hl' => hL l (by simp [hl']))
          (fun h => by have := hag h; simp only [expected, List.map_cons, List.cons.injEq] at this; exact this.2)
          (fun h r hr => hwf h r (by simp [hr]))⟩
        cases refresh with
        | false =>
          have := hag rfl
          simp only [expected, List.map_cons, List.cons.injEq] at this
          refine ⟨l.map (phi cw caps), by rw [this.1, eRow_map_phi], by simp [hL l (by simp)], ?_,
            fun _ => relV_map_phi cw caps l⟩
          intro v hv
          obtain ⟨c, _, rfl⟩ := List.mem_map.mp hv
          exact phi_ok cw caps c
        | true =>
          obtain ⟨V, e, hlen, hv⟩ := wf_eRow r 0 (hwf rfl r (by simp))
          exact ⟨V, e, by rw [hlen]; exact hG r (by simp), hv, fun h => by simp at h⟩

end VaxisModel.Lemmas.RenderImages
