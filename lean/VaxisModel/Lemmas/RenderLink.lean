/-
F112b repair, byte view of `Model.Render.lpField`: under the hex decoding of the model's opaque
strings (two lower-case hex digits per byte — `hx.Hex`, `Driver.Common.hexOfBytes`) the parameter
field `render()` writes into OSC 8 contains no `;` (byte 59), whatever `Style.HyperlinkParams` holds.
Provided for the C12 composition (its wire model needs "the parameter string has no `;`").
-/
import VaxisModel.Model.Render

namespace VaxisModel.Lemmas.RenderLink
open VaxisModel.Model.Render

/-- Value of a lower-case hex digit; 16 for anything else (so that no other pair decodes to 59). -/
def hexVal (c : Char) : Nat :=
  if 48 ≤ c.toNat ∧ c.toNat ≤ 57 then c.toNat - 48
  else if 97 ≤ c.toNat ∧ c.toNat ≤ 102 then c.toNat - 87
  else 16

/-- Bytes of a hex string, pair by pair. -/
def hexDecL : List Char → List Nat
  | a :: b :: r => (16 * hexVal a + hexVal b) :: hexDecL r
  | _ => []

def hexDec (s : String) : List Nat := hexDecL s.toList

theorem hexVal_le (c : Char) : hexVal c ≤ 16 := by
  unfold hexVal; split
  · omega
  · split <;> omega

theorem char_of_toNat (c : Char) (n : Nat) (h : c.toNat = n) (hn : n < 128) : c = Char.ofNat n := by
  subst h
  exact (Char.ofNat_toNat c).symm

theorem pair_59 (a b : Char) (h : 16 * hexVal a + hexVal b = 59) : a = '3' ∧ b = 'b' := by
  have ha := hexVal_le a
  have hb := hexVal_le b
  have h3 : hexVal a = 3 := by omega
  have h11 : hexVal b = 11 := by omega
  constructor
  · unfold hexVal at h3
    split at h3
    · exact char_of_toNat a 51 (by omega) (by omega)
    · split at h3 <;> omega
  · unfold hexVal at h11
    split at h11
    · omega
    · split at h11
      · exact char_of_toNat b 98 (by omega) (by omega)
      · omega

theorem lpFieldL_no59 : ∀ (n : Nat) (l : List Char), l.length ≤ n → 59 ∉ hexDecL (lpFieldL l) := by
  intro n
  induction n with
  | zero => intro l h; cases l with
    | nil => simp [lpFieldL, hexDecL]
    | cons a r => simp at h
  | succ n ih =>
    intro l h
    match l with
    | [] => simp [lpFieldL, hexDecL]
    | [a] => simp [lpFieldL, hexDecL]
    | a :: b :: r =>
      have hr : r.length ≤ n := by simp at h; omega
      by_cases hab : a = '3' ∧ b = 'b'
      · simp [lpFieldL, hab, hexDecL]
      · simp only [lpFieldL, hab, if_false, hexDecL, List.mem_cons, not_or]
        exact ⟨fun h59 => hab (pair_59 a b h59.symm), ih r hr⟩

/-- **The OSC 8 parameter field the renderer writes never contains `;`.** -/
theorem lpField_no_semicolon (s : String) : 59 ∉ hexDec (lpField s) := by
  unfold hexDec lpField
  rw [String.toList_ofList]
  exact lpFieldL_no59 _ _ (Nat.le_refl _)

/-- The field is the whole string when the string holds no `;` (nothing is lost for valid parameters). -/
theorem lpFieldL_id : ∀ (n : Nat) (l : List Char), l.length ≤ n → 59 ∉ hexDecL l → lpFieldL l = l := by
  intro n
  induction n with
  | zero => intro l h _; cases l with
    | nil => rfl
    | cons a r => simp at h
  | succ n ih =>
    intro l h h59
    match l with
    | [] => rfl
    | [a] => rfl
    | a :: b :: r =>
      have hr : r.length ≤ n := by simp at h; omega
      simp only [hexDecL, List.mem_cons, not_or] at h59
      have hab : ¬ (a = '3' ∧ b = 'b') := by
        rintro ⟨rfl, rfl⟩; exact h59.1 (by decide)
      simp only [lpFieldL, hab, if_false, ih r hr h59.2]

theorem lpField_id (s : String) (h : 59 ∉ hexDec s) : lpField s = s := by
  unfold lpField
  rw [lpFieldL_id _ _ (Nat.le_refl _) h, String.ofList_toList]

example : hexDec "613b62" = [97, 59, 98] ∧ lpField "613b62" = "61" ∧ hexDec (lpField "613b62") = [97] := by decide

end VaxisModel.Lemmas.RenderLink
