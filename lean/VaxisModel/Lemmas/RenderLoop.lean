/-
The loop FRAME of `render()`'s cell loop, transcribed literally — an index `col` into the rows, the
`last` row updated in place, `col += skip` after the two nulling loops

    for i := 1; i < skip+1; i += 1 {
        if col+i >= len(row) { break }
        [ if end := col+i+advance(last[col+i])+1; end > dirty { dirty = end } ]      (second loop only)
        last[col+i] = Cell{}
    }

— and proved equal to the model's list recursion `renderCellsS` with its `skip` counter and `track`
flag (`goRow_eq`).  The three branch bodies are the ones `Props/C01Body` executes from the extracted
text (`render_*_branch_eq_interp`); what this file adds is the refinement between the two loop
schemes, which was validated by correspondence only.
-/
import VaxisModel.Model.RenderSixel
import VaxisModel.Lemmas.RenderDisplay

namespace VaxisModel.Lemmas.RenderLoop
open VaxisModel.Model.Render
open VaxisModel.Lemmas.RenderDisplay (cellToks)

/-- The nulling loop: `count` = `skip`, `p` = `col + i`; with `track` the `dirty` extension of the
    second loop.  Returns the row and `dirty`. -/
def nullLoop (cw : String → Nat) (track : Bool) : Nat → Nat → List Cell → Nat → List Cell × Nat
  | 0, _, L, d => (L, d)
  | c + 1, p, L, d =>
    match L[p]? with
    | none => (L, d)                      -- col+i >= len: break
    | some l =>
      nullLoop cw track c (p + 1) (L.set p {})
        (if track ∧ p + advance cw l + 1 > d then p + advance cw l + 1 else d)

/-- `dirty` after the model's skip branch has passed `s` cells. -/
def foldDirty (cw : String → Nat) (track : Bool) : Nat → Nat → List Cell → Nat → Nat
  | _, 0, _, d => d
  | _, _ + 1, [], d => d
  | col, s + 1, l :: ls, d =>
    foldDirty cw track (col + 1) s ls (if track ∧ col + advance cw l + 1 > d then col + advance cw l + 1 else d)

/-- The cell loop as the source writes it (fuel: one unit per iteration). -/
def goRow (cw : String → Nat) (caps : Caps) (refresh : Bool) (row : Nat) (ns : List Cell) :
    Nat → Nat → Nat → RSt → List Cell → List Cell × RSt
  | 0, _, _, st, L => (L, st)
  | f + 1, col, dirty, st, L =>
    match ns[col]?, L[col]? with
    | some n0, some l =>
      if n0.sixel then
        goRow cw caps refresh row ns f (col + 1)
          (if col + advance cw l + 1 > dirty then col + advance cw l + 1 else dirty)
          { st with reposition := true } (L.set col n0)
      else
        let m := clipCell cw (ns.length - col) n0
        if m = l ∧ ¬ refresh ∧ col ≥ dirty then
          let r := nullLoop cw false (advance cw m) (col + 1) L dirty
          goRow cw caps refresh row ns f (col + advance cw m + 1) r.2 { st with reposition := true } r.1
        else
          let dirty1 := if col + advance cw l + 1 > dirty then col + advance cw l + 1 else dirty
          let st' : RSt := { reposition := false, pen := m.style, out := st.out ++ cellToks cw caps st row col m }
          let r := nullLoop cw true (advance cw m) (col + 1) (L.set col m) dirty1
          goRow cw caps refresh row ns f (col + advance cw m + 1) r.2 st' r.1
    | _, _ => (L, st)

/-! ### closed forms of the two skipping schemes -/

theorem nullLoop_closed (cw : String → Nat) (track : Bool) :
    ∀ (s : Nat) (P S : List Cell) (d : Nat),
      nullLoop cw track s P.length (P ++ S) d =
        (P ++ List.replicate (min s S.length) ({} : Cell) ++ S.drop s, foldDirty cw track P.length s S d) := by
  intro s
  induction s with
  | zero => intro P S d; simp [nullLoop, foldDirty]
  | succ s ih =>
    intro P S d
    cases S with
    | nil => simp [nullLoop, foldDirty]
    | cons x S =>
      have hget : (P ++ x :: S)[P.length]? = some x := by simp
      have hset : (P ++ x :: S).set P.length ({} : Cell) = (P ++ [({} : Cell)]) ++ S := by simp
      simp only [nullLoop, hget, hset]
      have := ih (P ++ [({} : Cell)]) S (if track ∧ P.length + advance cw x + 1 > d then P.length + advance cw x + 1 else d)
      simp only [List.length_append, List.length_singleton] at this
      rw [this]
      simp only [foldDirty, List.length_cons, List.drop_succ_cons]
      have hm : min (s + 1) (S.length + 1) = min s S.length + 1 := by omega
      rw [hm, List.replicate_succ]
      simp

theorem skip_closed (cw : String → Nat) (caps : Caps) (refresh : Bool) (row : Nat) :
    ∀ (s : Nat) (ns ls : List Cell) (col : Nat) (track : Bool) (d : Nat) (st : RSt), ns.length = ls.length →
      renderCellsS cw caps refresh row col s track d ns ls st =
        (List.replicate (min s ns.length) ({} : Cell) ++
            (renderCellsS cw caps refresh row (col + min s ns.length) 0 track (foldDirty cw track col s ls d)
              (ns.drop s) (ls.drop s) st).1,
         (renderCellsS cw caps refresh row (col + min s ns.length) 0 track (foldDirty cw track col s ls d)
              (ns.drop s) (ls.drop s) st).2) := by
  intro s
  induction s with
  | zero => intro ns ls col track d st _; simp [foldDirty]
  | succ s ih =>
    intro ns ls col track d st hl
    cases ns with
    | nil =>
      have : ls = [] := by cases ls with
        | nil => rfl
        | cons _ _ => simp at hl
      subst this
      simp [renderCellsS, foldDirty]
    | cons n ns =>
      cases ls with
      | nil => simp at hl
      | cons l ls =>
        have hl' : ns.length = ls.length := by simpa using hl
        simp only [renderCellsS, foldDirty, List.drop_succ_cons, List.length_cons]
        rw [ih ns ls (col + 1) track _ st hl']
        have hm : min (s + 1) (ns.length + 1) = min s ns.length + 1 := by omega
        have hc : col + 1 + min s ns.length = col + (min s ns.length + 1) := by omega
        rw [hm, hc, List.replicate_succ]
        simp

/-! ### the refinement -/

theorem goRow_done (cw : String → Nat) (caps : Caps) (refresh : Bool) (row : Nat) (N : List Cell) (f col dirty : Nat) (st : RSt)
    (L : List Cell) (h : N.length ≤ col) : goRow cw caps refresh row N f col dirty st L = (L, st) := by
  cases f with
  | zero => rfl
  | succ f =>
    have : N[col]? = none := List.getElem?_eq_none h
    simp [goRow, this]

/-- At column `col = |D|`, with the finished part `D` of the `last` row and the untouched rest `ls`,
    the index loop computes what the list recursion computes. -/
theorem goRow_gen (cw : String → Nat) (caps : Caps) (refresh : Bool) (row : Nat) (N : List Cell) :
    ∀ (k : Nat) (ns ls : List Cell) (f : Nat) (D : List Cell) (dirty : Nat) (track : Bool) (st : RSt),
      ns.length = k → ns.length = ls.length → N.drop D.length = ns → D.length + ns.length = N.length → ns.length < f →
      goRow cw caps refresh row N f D.length dirty st (D ++ ls) =
        (D ++ (renderCellsS cw caps refresh row D.length 0 track dirty ns ls st).1,
         (renderCellsS cw caps refresh row D.length 0 track dirty ns ls st).2) := by
  intro k
  induction k using Nat.strongRecOn with
  | _ k ih =>
    intro ns ls f D dirty track st hk hl hN hlen hf
    cases f with
    | zero => omega
    | succ f =>
      cases ns with
      | nil =>
        have hls : ls = [] := by cases ls with
          | nil => rfl
          | cons _ _ => simp at hl
        subst hls
        have hnone : N[D.length]? = none := by
          apply List.getElem?_eq_none; simp at hlen; omega
        simp [goRow, hnone, renderCellsS]
      | cons n0 ns =>
        cases ls with
        | nil => simp at hl
        | cons l ls =>
          have hl' : ns.length = ls.length := by simpa using hl
          have hn0 : N[D.length]? = some n0 := by
            have := congrArg (fun x => x[0]?) hN
            simpa [List.getElem?_drop] using this
          have hl0 : (D ++ l :: ls)[D.length]? = some l := by simp
          have hNd : N.drop (D.length + 1) = ns := by
            have := congrArg (fun x => x.drop 1) hN
            simpa [List.drop_drop, Nat.add_comm] using this
          have hrem : N.length - D.length = ns.length + 1 := by simp at hlen; omega
          simp only [goRow, hn0, hl0]
          by_cases hsx : n0.sixel = true
          · -- image cell
            simp only [hsx, if_true]
            have hset : (D ++ l :: ls).set D.length n0 = (D ++ [n0]) ++ ls := by simp
            rw [hset]
            have := ih ns.length (by simp at hk; omega) ns ls f (D ++ [n0])
              (if D.length + advance cw l + 1 > dirty then D.length + advance cw l + 1 else dirty) false
              { st with reposition := true } rfl hl' (by simpa using hNd) (by simp at hlen ⊢; omega) (by simp at hf; omega)
            simp only [List.length_append, List.length_singleton] at this
            rw [this]
            simp [renderCellsS, hsx]
          · have hsx' : n0.sixel = false := by simpa using hsx
            simp only [hsx', Bool.false_eq_true, if_false, hrem]
            generalize hm : clipCell cw (ns.length + 1) n0 = m
            by_cases hc : m = l ∧ ¬ refresh ∧ D.length ≥ dirty
            · -- unchanged
              rw [if_pos hc]
              have hnl := nullLoop_closed cw false (advance cw m) (D ++ [l]) ls dirty
              have e1 : D ++ l :: ls = (D ++ [l]) ++ ls := by simp
              have e2 : (D ++ [l]).length = D.length + 1 := by simp
              rw [e1, ← e2, hnl]
              simp only
              have hmodel : renderCellsS cw caps refresh row D.length 0 track dirty (n0 :: ns) (l :: ls) st =
                  (l :: (renderCellsS cw caps refresh row (D.length + 1) (advance cw m) false dirty ns ls { st with reposition := true }).1,
                   (renderCellsS cw caps refresh row (D.length + 1) (advance cw m) false dirty ns ls { st with reposition := true }).2) := by
                simp only [renderCellsS, hsx', Bool.false_eq_true, if_false, hm]
                rw [if_pos hc]
              rw [hmodel, skip_closed cw caps refresh row (advance cw m) ns ls (D.length + 1) false dirty _ hl']
              have hfd : ∀ (s c : Nat) (xs : List Cell) (d : Nat), foldDirty cw false c s xs d = d := by
                intro s
                induction s with
                | zero => intro c xs d; cases xs <;> rfl
                | succ s ihs => intro c xs d; cases xs with
                  | nil => rfl
                  | cons x xs => simp [foldDirty, ihs]
              rw [hfd, hfd]
              have hlen2 : min (advance cw m) ls.length = min (advance cw m) ns.length := by rw [hl']
              have := ih (ns.drop (advance cw m)).length (by simp at hk ⊢; omega) (ns.drop (advance cw m)) (ls.drop (advance cw m)) f
                (D ++ [l] ++ List.replicate (min (advance cw m) ls.length) ({} : Cell)) dirty false { st with reposition := true } rfl
                (by simp [hl']) (by
                  simp only [List.length_append, List.length_singleton, List.length_replicate]
                  rw [← hNd, List.drop_drop]
                  by_cases hle : advance cw m ≤ ls.length
                  · simp only [Nat.min_eq_left hle]
                    try (exact congrArg (fun i => List.drop i N) (by omega))
                  · have h1 : min (advance cw m) ls.length = ls.length := Nat.min_eq_right (by omega)
                    rw [h1, List.drop_eq_nil_of_le (by simp at hlen; omega), List.drop_eq_nil_of_le (by simp at hlen; omega)])
                (by simp at hlen ⊢; omega) (by simp at hf ⊢; omega)
              simp only [List.length_append, List.length_singleton, List.length_replicate] at this
              by_cases hle : advance cw m ≤ ls.length
              · have h1 : min (advance cw m) ls.length = advance cw m := Nat.min_eq_left hle
                have h2 : min (advance cw m) ns.length = advance cw m := by rw [hl']; exact h1
                rw [h1] at this ⊢
                rw [h2]
                have e3 : D.length + 1 + advance cw m = D.length + advance cw m + 1 := by omega
                rw [e3] at this ⊢
                simp only [List.length_append, List.length_singleton, List.length_nil] at this ⊢
                rw [this]
                simp [List.append_assoc]
              · -- the glyph reaches beyond the row: everything to the end is nulled, the loop ends
                have h1 : min (advance cw m) ls.length = ls.length := Nat.min_eq_right (by omega)
                have h2 : min (advance cw m) ns.length = ns.length := by rw [hl']; exact h1
                have hd1 : ns.drop (advance cw m) = [] := List.drop_eq_nil_of_le (by omega)
                have hd2 : ls.drop (advance cw m) = [] := List.drop_eq_nil_of_le (by omega)
                rw [h1, h2, hd1, hd2, goRow_done cw caps refresh row N f _ _ _ _ (by simp at hlen; omega)]
                simp [renderCellsS, hl']
            · -- written
              rw [if_neg hc]
              have hset : (D ++ l :: ls).set D.length m = (D ++ [m]) ++ ls := by simp
              have e2 : (D ++ [m]).length = D.length + 1 := by simp
              rw [hset, ← e2, nullLoop_closed cw true (advance cw m) (D ++ [m]) ls _]
              simp only
              generalize hd1 : (if D.length + advance cw l + 1 > dirty then D.length + advance cw l + 1 else dirty) = dirty1
              generalize hst' : ({ reposition := false, pen := m.style, out := st.out ++ cellToks cw caps st row D.length m } : RSt) = st'
              have hmodel : renderCellsS cw caps refresh row D.length 0 track dirty (n0 :: ns) (l :: ls) st =
                  (m :: (renderCellsS cw caps refresh row (D.length + 1) (advance cw m) true dirty1 ns ls st').1,
                   (renderCellsS cw caps refresh row (D.length + 1) (advance cw m) true dirty1 ns ls st').2) := by
                simp only [renderCellsS, hsx', Bool.false_eq_true, if_false, hm]
                rw [if_neg hc, ← hd1, ← hst']
                rfl
              rw [hmodel, skip_closed cw caps refresh row (advance cw m) ns ls (D.length + 1) true dirty1 st' hl']
              have := ih (ns.drop (advance cw m)).length (by simp at hk ⊢; omega) (ns.drop (advance cw m)) (ls.drop (advance cw m)) f
                (D ++ [m] ++ List.replicate (min (advance cw m) ls.length) ({} : Cell))
                (foldDirty cw true (D.length + 1) (advance cw m) ls dirty1) true st' rfl
                (by simp [hl']) (by
                  simp only [List.length_append, List.length_singleton, List.length_replicate]
                  rw [← hNd, List.drop_drop]
                  by_cases hle : advance cw m ≤ ls.length
                  · simp only [Nat.min_eq_left hle]
                    try (exact congrArg (fun i => List.drop i N) (by omega))
                  · have h1 : min (advance cw m) ls.length = ls.length := Nat.min_eq_right (by omega)
                    rw [h1, List.drop_eq_nil_of_le (by simp at hlen; omega), List.drop_eq_nil_of_le (by simp at hlen; omega)])
                (by simp at hlen ⊢; omega) (by simp at hf ⊢; omega)
              simp only [List.length_append, List.length_singleton, List.length_replicate] at this
              by_cases hle : advance cw m ≤ ls.length
              · have h1 : min (advance cw m) ls.length = advance cw m := Nat.min_eq_left hle
                have h2 : min (advance cw m) ns.length = advance cw m := by rw [hl']; exact h1
                rw [h1] at this ⊢
                rw [h2]
                have e3 : D.length + 1 + advance cw m = D.length + advance cw m + 1 := by omega
                rw [e3] at this ⊢
                simp only [List.length_append, List.length_singleton, List.length_nil] at this ⊢
                rw [this]
                simp [List.append_assoc]
              · have h1 : min (advance cw m) ls.length = ls.length := Nat.min_eq_right (by omega)
                have h2 : min (advance cw m) ns.length = ns.length := by rw [hl']; exact h1
                have hd1' : ns.drop (advance cw m) = [] := List.drop_eq_nil_of_le (by omega)
                have hd2' : ls.drop (advance cw m) = [] := List.drop_eq_nil_of_le (by omega)
                rw [h1, h2, hd1', hd2', goRow_done cw caps refresh row N f _ _ _ _ (by simp at hlen; omega)]
                simp [renderCellsS, hl']

/-- **The index loop of the source is the model's list recursion**, for every row, previous row, loop
    state, width oracle and capability set. -/
theorem goRow_eq (cw : String → Nat) (caps : Caps) (refresh : Bool) (row : Nat) (ns ls : List Cell) (st : RSt)
    (hl : ns.length = ls.length) :
    goRow cw caps refresh row ns (ns.length + 1) 0 0 st ls = renderCellsS cw caps refresh row 0 0 false 0 ns ls st := by
  have := goRow_gen cw caps refresh row ns ns.length ns ls (ns.length + 1) [] 0 false st rfl hl (by simp) (by simp) (by omega)
  simpa using this

end VaxisModel.Lemmas.RenderLoop
