/-
The pen lemma for the diffing renderer (C01 display proof): after the tokens of `penDelta caps pen next`
a terminal whose pen shows `pen` shows `next`.
-/
import VaxisModel.Lemmas.RenderToks
import VaxisModel.Spec.Expected

namespace VaxisModel.Lemmas.RenderPen
open VaxisModel.Model.Render VaxisModel.Spec VaxisModel.Spec.Display VaxisModel.Lemmas.RenderToks
open VaxisModel.Spec.Expected (shown colOf)
open VaxisModel.Model

/-! ### One SGR token -/

theorem penRun_nil (s : TStyle) : penRun s [] = s := rfl

theorem penRun_cons (s : TStyle) (t : Tok) (ts : List Tok) : penRun s (t :: ts) = penRun (penStep s t) ts := rfl

theorem penRun_sgr1 (s : TStyle) (ps : List (List Nat)) : penRun s [Tok.sgr ps] = sgr s ps := rfl

theorem sgr_single (s : TStyle) (p : Nat) (h38 : p ≠ 38) (h48 : p ≠ 48) (h58 : p ≠ 58) (h4 : p ≠ 4) :
    sgr s [[p]] = sgrSimple s p := by
  simp [sgr, sgrStep, h38, h48, h58, h4]

theorem sgr_fgIdx (s : TStyle) (i : Nat) : sgr s [[38, 5, i]] = { s with fg := .idx i } := by
  simp [sgr, sgrStep, extColon, setExt]
theorem sgr_bgIdx (s : TStyle) (i : Nat) : sgr s [[48, 5, i]] = { s with bg := .idx i } := by
  simp [sgr, sgrStep, extColon, setExt]
theorem sgr_ulIdx (s : TStyle) (i : Nat) : sgr s [[58, 5, i]] = { s with ul := .idx i } := by
  simp [sgr, sgrStep, extColon, setExt]
theorem sgr_fgRgb (s : TStyle) (r g b : Nat) : sgr s [[38, 2, r, g, b]] = { s with fg := .rgb r g b } := by
  simp [sgr, sgrStep, extColon, setExt]
theorem sgr_bgRgb (s : TStyle) (r g b : Nat) : sgr s [[48, 2, r, g, b]] = { s with bg := .rgb r g b } := by
  simp [sgr, sgrStep, extColon, setExt]
theorem sgr_ulRgb (s : TStyle) (r g b : Nat) : sgr s [[58, 2, r, g, b]] = { s with ul := .rgb r g b } := by
  simp [sgr, sgrStep, extColon, setExt]

theorem sgrSimple_fgLow (s : TStyle) (p : Nat) (h : 30 ≤ p ∧ p ≤ 37) : sgrSimple s p = { s with fg := .idx (p - 30) } := by
  unfold sgrSimple
  simp (disch := omega) only [if_neg, if_pos]
theorem sgrSimple_bgLow (s : TStyle) (p : Nat) (h : 40 ≤ p ∧ p ≤ 47) : sgrSimple s p = { s with bg := .idx (p - 40) } := by
  unfold sgrSimple
  simp (disch := omega) only [if_neg, if_pos]
theorem sgrSimple_fgHigh (s : TStyle) (p : Nat) (h : 90 ≤ p ∧ p ≤ 97) : sgrSimple s p = { s with fg := .idx (p - 90 + 8) } := by
  unfold sgrSimple
  simp (disch := omega) only [if_neg, if_pos]
theorem sgrSimple_bgHigh (s : TStyle) (p : Nat) (h : 100 ≤ p ∧ p ≤ 107) : sgrSimple s p = { s with bg := .idx (p - 100 + 8) } := by
  unfold sgrSimple
  simp (disch := omega) only [if_neg, if_pos]

theorem sgr_fgLow (s : TStyle) (i : Nat) (h : i < 8) : sgr s [[30 + i]] = { s with fg := .idx i } := by
  rw [sgr_single s (30 + i) (by omega) (by omega) (by omega) (by omega), sgrSimple_fgLow s _ (by omega)]
  have e : 30 + i - 30 = i := by omega
  rw [e]
theorem sgr_bgLow (s : TStyle) (i : Nat) (h : i < 8) : sgr s [[40 + i]] = { s with bg := .idx i } := by
  rw [sgr_single s (40 + i) (by omega) (by omega) (by omega) (by omega), sgrSimple_bgLow s _ (by omega)]
  have e : 40 + i - 40 = i := by omega
  rw [e]
theorem sgr_fgHigh (s : TStyle) (i : Nat) (h8 : ¬ i < 8) (h : i < 16) : sgr s [[30 + 60 + (i - 8)]] = { s with fg := .idx i } := by
  rw [sgr_single s _ (by omega) (by omega) (by omega) (by omega), sgrSimple_fgHigh s _ (by omega)]
  have e : 30 + 60 + (i - 8) - 90 + 8 = i := by omega
  rw [e]
theorem sgr_bgHigh (s : TStyle) (i : Nat) (h8 : ¬ i < 8) (h : i < 16) : sgr s [[40 + 60 + (i - 8)]] = { s with bg := .idx i } := by
  rw [sgr_single s _ (by omega) (by omega) (by omega) (by omega), sgrSimple_bgHigh s _ (by omega)]
  have e : 40 + 60 + (i - 8) - 100 + 8 = i := by omega
  rw [e]

theorem sgr_39 (s : TStyle) : sgr s [[39]] = { s with fg := .default } := by
  rw [sgr_single s _ (by decide) (by decide) (by decide) (by decide)]; simp [sgrSimple]
theorem sgr_49 (s : TStyle) : sgr s [[49]] = { s with bg := .default } := by
  rw [sgr_single s _ (by decide) (by decide) (by decide) (by decide)]; simp [sgrSimple]
theorem sgr_59 (s : TStyle) : sgr s [[59]] = { s with ul := .default } := by
  rw [sgr_single s _ (by decide) (by decide) (by decide) (by decide)]; simp [sgrSimple]

/-! ### Colours -/

theorem effParams_eq (caps : Caps) (c : Nat) :
    effParams caps c = Color.params (if caps.rgb then c else Color.asIndex c) := by
  unfold effParams; split <;> rfl

theorem penRun_colorToks_fg (caps : Caps) (s : TStyle) (c : Nat) :
    penRun s (colorToks caps 30 c) = { s with fg := colOf caps c } := by
  unfold colorToks colOf
  rw [effParams_eq]
  generalize (if caps.rgb then c else Color.asIndex c) = x
  unfold Color.params
  split
  · simp only [colorToksP]
    split
    · rw [penRun_sgr1, sgr_fgLow _ _ (by assumption)]
    · split
      · rw [penRun_sgr1, sgr_fgHigh _ _ (by assumption) (by assumption)]
      · rw [penRun_sgr1, sgr_fgIdx]
  · split
    · simp only [colorToksP]; rw [penRun_sgr1, sgr_fgRgb]
    · simp only [colorToksP]; rw [penRun_sgr1, sgr_39]

theorem penRun_colorToks_bg (caps : Caps) (s : TStyle) (c : Nat) :
    penRun s (colorToks caps 40 c) = { s with bg := colOf caps c } := by
  unfold colorToks colOf
  rw [effParams_eq]
  generalize (if caps.rgb then c else Color.asIndex c) = x
  unfold Color.params
  split
  · simp only [colorToksP]
    split
    · rw [penRun_sgr1, sgr_bgLow _ _ (by assumption)]
    · split
      · rw [penRun_sgr1, sgr_bgHigh _ _ (by assumption) (by assumption)]
      · rw [penRun_sgr1, sgr_bgIdx]
  · split
    · simp only [colorToksP]; rw [penRun_sgr1, sgr_bgRgb]
    · simp only [colorToksP]; rw [penRun_sgr1, sgr_49]

theorem penRun_ulColorToks (caps : Caps) (s : TStyle) (c : Nat) :
    penRun s (ulColorToks caps c) = { s with ul := colOf caps c } := by
  unfold ulColorToks colOf
  rw [effParams_eq]
  generalize (if caps.rgb then c else Color.asIndex c) = x
  unfold Color.params
  split
  · simp only [ulColorToksP]; rw [penRun_sgr1, sgr_ulIdx]
  · split
    · simp only [ulColorToksP]; rw [penRun_sgr1, sgr_ulRgb]
    · simp only [ulColorToksP]; rw [penRun_sgr1, sgr_59]

/-! ### Conditional colour parts of the delta -/

theorem TStyle.ext' {a b : TStyle} (h1 : a.fg = b.fg) (h2 : a.bg = b.bg) (h3 : a.ul = b.ul) (h4 : a.ulStyle = b.ulStyle)
    (h5 : a.bold = b.bold) (h6 : a.dim = b.dim) (h7 : a.italic = b.italic) (h8 : a.blink = b.blink)
    (h9 : a.reverse = b.reverse) (h10 : a.hidden = b.hidden) (h11 : a.strike = b.strike) : a = b := by
  cases a; cases b; simp_all

theorem part_fg (caps : Caps) (s : TStyle) (p n : Nat) (h : s.fg = colOf caps p) :
    penRun s (if p ≠ n then colorToks caps 30 n else []) = { s with fg := colOf caps n } := by
  split
  · exact penRun_colorToks_fg caps s n
  · rename_i hn
    have : p = n := Decidable.not_not.mp hn
    subst this
    rw [penRun_nil, ← h]

theorem part_bg (caps : Caps) (s : TStyle) (p n : Nat) (h : s.bg = colOf caps p) :
    penRun s (if p ≠ n then colorToks caps 40 n else []) = { s with bg := colOf caps n } := by
  split
  · exact penRun_colorToks_bg caps s n
  · rename_i hn
    have : p = n := Decidable.not_not.mp hn
    subst this
    rw [penRun_nil, ← h]

theorem part_ul (caps : Caps) (s : TStyle) (p n : Nat)
    (h : s.ul = if caps.styledUnderlines then colOf caps p else .default) :
    penRun s (if caps.styledUnderlines ∧ p ≠ n then ulColorToks caps n else []) =
      { s with ul := if caps.styledUnderlines then colOf caps n else .default } := by
  split
  · rename_i hc
    rw [if_pos hc.1]
    exact penRun_ulColorToks caps s n
  · rename_i hc
    rw [penRun_nil]
    by_cases hs : caps.styledUnderlines = true
    · have : p = n := Decidable.not_not.mp (fun hpn => hc ⟨hs, hpn⟩)
      subst this
      rw [← h]
    · rw [if_neg hs] at h ⊢
      rw [← h]

/-! ### Underline style -/

theorem sgr_4n (s : TStyle) (n : Nat) : sgr s [[4, n]] = { s with ulStyle := if n ≤ 5 then n else 1 } := by
  simp [sgr, sgrStep]
theorem sgr_4 (s : TStyle) : sgr s [[4]] = { s with ulStyle := 1 } := by
  simp [sgr, sgrStep]
theorem sgr_24 (s : TStyle) : sgr s [[24]] = { s with ulStyle := 0 } := by
  rw [sgr_single s _ (by decide) (by decide) (by decide) (by decide)]; simp [sgrSimple]

def ulStyleOf (caps : Caps) (u : Nat) : Nat :=
  if caps.styledUnderlines then (if u ≤ 5 then u else 1) else (if u = 0 then 0 else 1)

theorem part_ulStyle (caps : Caps) (s : TStyle) (p n : Nat) (h : s.ulStyle = ulStyleOf caps p) :
    penRun s (if p ≠ n then
        (if caps.styledUnderlines then [Tok.sgr [[4, n]]]
         else if n = 0 then [Tok.sgr [[24]]] else [Tok.sgr [[4]]])
      else []) = { s with ulStyle := ulStyleOf caps n } := by
  split
  · unfold ulStyleOf
    split
    · rw [penRun_sgr1, sgr_4n]
    · split
      · rw [penRun_sgr1, sgr_24]
      · rw [penRun_sgr1, sgr_4]
  · rename_i hn
    have : p = n := Decidable.not_not.mp hn
    subst this
    rw [penRun_nil, ← h]

/-! ### Attribute bits -/

theorem hasBit_pow (m k : Nat) : hasBit m (2 ^ k) = m.testBit k := by
  rw [Nat.testBit_eq_decide_div_mod_eq, hasBit, Bool.eq_iff_iff]; simp

theorem hasBit_on (a b k : Nat) : hasBit ((a ^^^ b) &&& b) (2 ^ k) = (hasBit b (2 ^ k) && !hasBit a (2 ^ k)) := by
  simp only [hasBit_pow, Nat.testBit_and, Nat.testBit_xor]
  cases a.testBit k <;> cases b.testBit k <;> rfl

theorem hasBit_off (a b k : Nat) : hasBit ((a ^^^ b) &&& a) (2 ^ k) = (hasBit a (2 ^ k) && !hasBit b (2 ^ k)) := by
  simp only [hasBit_pow, Nat.testBit_and, Nat.testBit_xor]
  cases a.testBit k <;> cases b.testBit k <;> rfl

/-! ### Attribute stages -/

theorem stage_on1 (s : TStyle) (c : Bool) :
    penRun s (if c = true then [Tok.sgr [[1]]] else []) = { s with bold := s.bold || c } := by
  cases c
  · cases s; simp [penRun_nil]
  · rw [if_pos rfl, penRun_sgr1, sgr_single s _ (by decide) (by decide) (by decide) (by decide)]; simp [sgrSimple]
theorem stage_on2 (s : TStyle) (c : Bool) :
    penRun s (if c = true then [Tok.sgr [[2]]] else []) = { s with dim := s.dim || c } := by
  cases c
  · cases s; simp [penRun_nil]
  · rw [if_pos rfl, penRun_sgr1, sgr_single s _ (by decide) (by decide) (by decide) (by decide)]; simp [sgrSimple]
theorem stage_on3 (s : TStyle) (c : Bool) :
    penRun s (if c = true then [Tok.sgr [[3]]] else []) = { s with italic := s.italic || c } := by
  cases c
  · cases s; simp [penRun_nil]
  · rw [if_pos rfl, penRun_sgr1, sgr_single s _ (by decide) (by decide) (by decide) (by decide)]; simp [sgrSimple]
theorem stage_on5 (s : TStyle) (c : Bool) :
    penRun s (if c = true then [Tok.sgr [[5]]] else []) = { s with blink := s.blink || c } := by
  cases c
  · cases s; simp [penRun_nil]
  · rw [if_pos rfl, penRun_sgr1, sgr_single s _ (by decide) (by decide) (by decide) (by decide)]; simp [sgrSimple]
theorem stage_on7 (s : TStyle) (c : Bool) :
    penRun s (if c = true then [Tok.sgr [[7]]] else []) = { s with reverse := s.reverse || c } := by
  cases c
  · cases s; simp [penRun_nil]
  · rw [if_pos rfl, penRun_sgr1, sgr_single s _ (by decide) (by decide) (by decide) (by decide)]; simp [sgrSimple]
theorem stage_on8 (s : TStyle) (c : Bool) :
    penRun s (if c = true then [Tok.sgr [[8]]] else []) = { s with hidden := s.hidden || c } := by
  cases c
  · cases s; simp [penRun_nil]
  · rw [if_pos rfl, penRun_sgr1, sgr_single s _ (by decide) (by decide) (by decide) (by decide)]; simp [sgrSimple]
theorem stage_on9 (s : TStyle) (c : Bool) :
    penRun s (if c = true then [Tok.sgr [[9]]] else []) = { s with strike := s.strike || c } := by
  cases c
  · cases s; simp [penRun_nil]
  · rw [if_pos rfl, penRun_sgr1, sgr_single s _ (by decide) (by decide) (by decide) (by decide)]; simp [sgrSimple]
theorem stage_off23 (s : TStyle) (c : Bool) :
    penRun s (if c = true then [Tok.sgr [[23]]] else []) = { s with italic := s.italic && !c } := by
  cases c
  · cases s; simp [penRun_nil]
  · rw [if_pos rfl, penRun_sgr1, sgr_single s _ (by decide) (by decide) (by decide) (by decide)]; simp [sgrSimple]
theorem stage_off25 (s : TStyle) (c : Bool) :
    penRun s (if c = true then [Tok.sgr [[25]]] else []) = { s with blink := s.blink && !c } := by
  cases c
  · cases s; simp [penRun_nil]
  · rw [if_pos rfl, penRun_sgr1, sgr_single s _ (by decide) (by decide) (by decide) (by decide)]; simp [sgrSimple]
theorem stage_off27 (s : TStyle) (c : Bool) :
    penRun s (if c = true then [Tok.sgr [[27]]] else []) = { s with reverse := s.reverse && !c } := by
  cases c
  · cases s; simp [penRun_nil]
  · rw [if_pos rfl, penRun_sgr1, sgr_single s _ (by decide) (by decide) (by decide) (by decide)]; simp [sgrSimple]
theorem stage_off28 (s : TStyle) (c : Bool) :
    penRun s (if c = true then [Tok.sgr [[28]]] else []) = { s with hidden := s.hidden && !c } := by
  cases c
  · cases s; simp [penRun_nil]
  · rw [if_pos rfl, penRun_sgr1, sgr_single s _ (by decide) (by decide) (by decide) (by decide)]; simp [sgrSimple]
theorem stage_off29 (s : TStyle) (c : Bool) :
    penRun s (if c = true then [Tok.sgr [[29]]] else []) = { s with strike := s.strike && !c } := by
  cases c
  · cases s; simp [penRun_nil]
  · rw [if_pos rfl, penRun_sgr1, sgr_single s _ (by decide) (by decide) (by decide) (by decide)]; simp [sgrSimple]

theorem sgr_22 (s : TStyle) : sgr s [[22]] = { s with bold := false, dim := false } := by
  rw [sgr_single s _ (by decide) (by decide) (by decide) (by decide)]; simp [sgrSimple]
theorem sgr_1 (s : TStyle) : sgr s [[1]] = { s with bold := true } := by
  rw [sgr_single s _ (by decide) (by decide) (by decide) (by decide)]; simp [sgrSimple]
theorem sgr_2 (s : TStyle) : sgr s [[2]] = { s with dim := true } := by
  rw [sgr_single s _ (by decide) (by decide) (by decide) (by decide)]; simp [sgrSimple]

theorem stage_offBold (s : TStyle) (c d : Bool) :
    penRun s (if c = true then [Tok.sgr [[22]]] ++ (if d = true then [Tok.sgr [[2]]] else []) else []) =
      { s with bold := s.bold && !c, dim := if c then d else s.dim } := by
  cases c
  · cases s; simp [penRun_nil]
  · cases d
    · simp [penRun_sgr1, sgr_22]
    · simp [penRun_cons, penRun_nil, penStep, sgr_22, sgr_2]

theorem stage_offDim (s : TStyle) (c d : Bool) :
    penRun s (if c = true then [Tok.sgr [[22]]] ++ (if d = true then [Tok.sgr [[1]]] else []) else []) =
      { s with bold := if c then d else s.bold, dim := s.dim && !c } := by
  cases c
  · cases s; simp [penRun_nil]
  · cases d
    · simp [penRun_sgr1, sgr_22]
    · simp [penRun_cons, penRun_nil, penStep, sgr_22, sgr_1]

/-! ### The attribute part, over abstract bits -/

def attrBody (a1 a2 a3 a4 a5 a6 a7 b1 b2 b3 b4 b5 b6 b7 : Bool) : List Tok :=
  (if (b1 && !a1) = true then [Tok.sgr [[1]]] else []) ++ (if (b2 && !a2) = true then [Tok.sgr [[2]]] else []) ++
  (if (b3 && !a3) = true then [Tok.sgr [[3]]] else []) ++ (if (b4 && !a4) = true then [Tok.sgr [[5]]] else []) ++
  (if (b5 && !a5) = true then [Tok.sgr [[7]]] else []) ++ (if (b6 && !a6) = true then [Tok.sgr [[8]]] else []) ++
  (if (b7 && !a7) = true then [Tok.sgr [[9]]] else []) ++
  (if (a1 && !b1) = true then [Tok.sgr [[22]]] ++ (if b2 = true then [Tok.sgr [[2]]] else []) else []) ++
  (if (a2 && !b2) = true then [Tok.sgr [[22]]] ++ (if b1 = true then [Tok.sgr [[1]]] else []) else []) ++
  (if (a3 && !b3) = true then [Tok.sgr [[23]]] else []) ++ (if (a4 && !b4) = true then [Tok.sgr [[25]]] else []) ++
  (if (a5 && !b5) = true then [Tok.sgr [[27]]] else []) ++ (if (a6 && !b6) = true then [Tok.sgr [[28]]] else []) ++
  (if (a7 && !b7) = true then [Tok.sgr [[29]]] else [])

theorem penRun_attrBody (s : TStyle) (a1 a2 a3 a4 a5 a6 a7 b1 b2 b3 b4 b5 b6 b7 : Bool)
    (h1 : s.bold = a1) (h2 : s.dim = a2) (h3 : s.italic = a3) (h4 : s.blink = a4) (h5 : s.reverse = a5)
    (h6 : s.hidden = a6) (h7 : s.strike = a7) :
    penRun s (attrBody a1 a2 a3 a4 a5 a6 a7 b1 b2 b3 b4 b5 b6 b7) =
      { s with bold := b1, dim := b2, italic := b3, blink := b4, reverse := b5, hidden := b6, strike := b7 } := by
  unfold attrBody
  simp only [penRun_append, stage_on1, stage_on2, stage_on3, stage_on5, stage_on7, stage_on8, stage_on9,
    stage_offBold, stage_offDim, stage_off23, stage_off25, stage_off27, stage_off28, stage_off29]
  cases s
  simp only at h1 h2 h3 h4 h5 h6 h7
  subst h1 h2 h3 h4 h5 h6 h7
  simp only [TStyle.mk.injEq, true_and]
  rename_i bold dim italic blink reverse hidden strike
  refine ⟨?_, ?_, ?_, ?_, ?_, ?_, ?_⟩
  · cases bold <;> cases dim <;> cases b1 <;> cases b2 <;> rfl
  · cases bold <;> cases dim <;> cases b1 <;> cases b2 <;> rfl
  · cases italic <;> cases b3 <;> rfl
  · cases blink <;> cases b4 <;> rfl
  · cases reverse <;> cases b5 <;> rfl
  · cases hidden <;> cases b6 <;> rfl
  · cases strike <;> cases b7 <;> rfl

/-! ### The attribute part -/

theorem on_Bold (a b : Nat) : hasBit ((a ^^^ b) &&& b) attrBold = (hasBit b attrBold && !hasBit a attrBold) :=
  hasBit_on a b 1
theorem off_Bold (a b : Nat) : hasBit ((a ^^^ b) &&& a) attrBold = (hasBit a attrBold && !hasBit b attrBold) :=
  hasBit_off a b 1
theorem on_Dim (a b : Nat) : hasBit ((a ^^^ b) &&& b) attrDim = (hasBit b attrDim && !hasBit a attrDim) :=
  hasBit_on a b 2
theorem off_Dim (a b : Nat) : hasBit ((a ^^^ b) &&& a) attrDim = (hasBit a attrDim && !hasBit b attrDim) :=
  hasBit_off a b 2
theorem on_Italic (a b : Nat) : hasBit ((a ^^^ b) &&& b) attrItalic = (hasBit b attrItalic && !hasBit a attrItalic) :=
  hasBit_on a b 3
theorem off_Italic (a b : Nat) : hasBit ((a ^^^ b) &&& a) attrItalic = (hasBit a attrItalic && !hasBit b attrItalic) :=
  hasBit_off a b 3
theorem on_Blink (a b : Nat) : hasBit ((a ^^^ b) &&& b) attrBlink = (hasBit b attrBlink && !hasBit a attrBlink) :=
  hasBit_on a b 4
theorem off_Blink (a b : Nat) : hasBit ((a ^^^ b) &&& a) attrBlink = (hasBit a attrBlink && !hasBit b attrBlink) :=
  hasBit_off a b 4
theorem on_Reverse (a b : Nat) : hasBit ((a ^^^ b) &&& b) attrReverse = (hasBit b attrReverse && !hasBit a attrReverse) :=
  hasBit_on a b 5
theorem off_Reverse (a b : Nat) : hasBit ((a ^^^ b) &&& a) attrReverse = (hasBit a attrReverse && !hasBit b attrReverse) :=
  hasBit_off a b 5
theorem on_Invisible (a b : Nat) : hasBit ((a ^^^ b) &&& b) attrInvisible = (hasBit b attrInvisible && !hasBit a attrInvisible) :=
  hasBit_on a b 6
theorem off_Invisible (a b : Nat) : hasBit ((a ^^^ b) &&& a) attrInvisible = (hasBit a attrInvisible && !hasBit b attrInvisible) :=
  hasBit_off a b 6
theorem on_Strikethrough (a b : Nat) : hasBit ((a ^^^ b) &&& b) attrStrikethrough = (hasBit b attrStrikethrough && !hasBit a attrStrikethrough) :=
  hasBit_on a b 7
theorem off_Strikethrough (a b : Nat) : hasBit ((a ^^^ b) &&& a) attrStrikethrough = (hasBit a attrStrikethrough && !hasBit b attrStrikethrough) :=
  hasBit_off a b 7

theorem attrToks_eq (a b : Nat) (h : a ≠ b) :
    attrToks a b = attrBody (hasBit a attrBold) (hasBit a attrDim) (hasBit a attrItalic) (hasBit a attrBlink)
      (hasBit a attrReverse) (hasBit a attrInvisible) (hasBit a attrStrikethrough)
      (hasBit b attrBold) (hasBit b attrDim) (hasBit b attrItalic) (hasBit b attrBlink)
      (hasBit b attrReverse) (hasBit b attrInvisible) (hasBit b attrStrikethrough) := by
  unfold attrToks attrBody onTok
  rw [if_neg h]
  simp only [on_Bold, on_Dim, on_Italic, on_Blink, on_Reverse, on_Invisible, on_Strikethrough,
    off_Bold, off_Dim, off_Italic, off_Blink, off_Reverse, off_Invisible, off_Strikethrough]

theorem part_attr (s : TStyle) (a b : Nat)
    (h1 : s.bold = hasBit a attrBold) (h2 : s.dim = hasBit a attrDim) (h3 : s.italic = hasBit a attrItalic)
    (h4 : s.blink = hasBit a attrBlink) (h5 : s.reverse = hasBit a attrReverse)
    (h6 : s.hidden = hasBit a attrInvisible) (h7 : s.strike = hasBit a attrStrikethrough) :
    penRun s (attrToks a b) =
      { s with bold := hasBit b attrBold, dim := hasBit b attrDim, italic := hasBit b attrItalic,
               blink := hasBit b attrBlink, reverse := hasBit b attrReverse,
               hidden := hasBit b attrInvisible, strike := hasBit b attrStrikethrough } := by
  by_cases h : a = b
  · subst h
    have e : attrToks a a = [] := by unfold attrToks; rw [if_pos rfl]
    rw [e, penRun_nil, ← h1, ← h2, ← h3, ← h4, ← h5, ← h6, ← h7]
  · rw [attrToks_eq a b h]
    exact penRun_attrBody s _ _ _ _ _ _ _ _ _ _ _ _ _ _ h1 h2 h3 h4 h5 h6 h7

/-! ### The pen lemma -/

theorem penRun_linkTail (s : TStyle) (c : Prop) [Decidable c] (p u : String) :
    penRun s (if c then [Tok.osc8 p u] else []) = s := by
  split <;> rfl

/-- After the pen delta a terminal whose pen showed `pen` shows `next`. -/
theorem penRun_penDelta (caps : Caps) (pen next : Style) :
    penRun (shown caps pen) (penDelta caps pen next) = shown caps next := by
  unfold penDelta
  simp only [penRun_append]
  rw [part_fg caps _ pen.fg next.fg rfl]
  rw [part_bg caps _ pen.bg next.bg rfl]
  rw [part_ul caps _ pen.ul next.ul rfl]
  rw [part_attr _ pen.attr next.attr rfl rfl rfl rfl rfl rfl rfl]
  rw [part_ulStyle caps _ pen.ulStyle next.ulStyle rfl]
  rw [penRun_linkTail]
  rfl

theorem hasBit_zero (b : Nat) : hasBit 0 b = false := by
  simp [hasBit]

theorem colOf_zero (caps : Caps) : colOf caps 0 = .default := by
  have e : Color.asIndex 0 = 0 := by
    simp [Color.asIndex, Color.asIndexWith, Color.isRGB]
  unfold colOf
  rw [e]
  simp [Color.params, Color.isIndexed, Color.isRGB]

theorem shown_default (caps : Caps) : shown caps ({} : Style) = TStyle.reset := by
  simp [shown, colOf_zero, hasBit_zero, TStyle.reset]

end VaxisModel.Lemmas.RenderPen
