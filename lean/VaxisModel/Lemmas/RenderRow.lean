/-
Row algebra for the display proof of C01 (Props/C01Display.lean): what `Spec.Display.writeRow`
does to a terminal row that is described by a left-to-right parse.

A row (or the part of it right of the cursor) is described by a list of *virtual cells*
`(d, a)`: "a glyph starting here shows as `d` and is followed by `a` continuation cells"
(`d` = `poison`, `a = 0` describes a poisoned cell).  `eRow k vs` reads such a list like
`Spec.Expected.expectedRow` reads the application's cells (`k` = cells still shadowed).
`sRow sk k vs` is the row *while the renderer works on it*: the next `sk` cells are continuation
cells of a glyph just written, then the rest of a glyph of the previous frame that was partly
overwritten shows as poison (`k` counts the cells it still covers from the current column).
Main result: `writeRow_sRow`.
-/
import VaxisModel.Spec.Display

namespace VaxisModel.Lemmas.RenderRow
open VaxisModel.Spec VaxisModel.Spec.Display

abbrev VCell := DCell × Nat

/-- A virtual cell is a glyph of width `a + 1`, or poison with `a = 0`. -/
def VOk (v : VCell) : Prop :=
  (∃ g st lp lk, v.1 = DCell.glyph g (v.2 + 1) st lp lk) ∨ (v.1 = DCell.poison ∧ v.2 = 0)

def eRow : Nat → List VCell → List DCell
  | _, [] => []
  | k + 1, _ :: vs => DCell.cont :: eRow k vs
  | 0, v :: vs => v.1 :: eRow v.2 vs

/-- Parse state (cells still shadowed) after the cell `v`. -/
def nextL (k : Nat) (v : VCell) : Nat := if k = 0 then v.2 else k - 1

/-- Parse state after `j` cells. -/
def psk : Nat → List VCell → Nat → Nat
  | k, _, 0 => k
  | k, [], j + 1 => psk (k - 1) [] j
  | k, v :: vs, j + 1 => psk (nextL k v) vs j

def sRow : Nat → Nat → List VCell → List DCell
  | _, _, [] => []
  | sk + 1, k, v :: vs => DCell.cont :: sRow sk (nextL k v) vs
  | 0, k + 1, _ :: vs => DCell.poison :: sRow 0 k vs
  | 0, 0, v :: vs => v.1 :: eRow v.2 vs

def poisonFirst : Nat → List DCell → List DCell
  | 0, r => r
  | _ + 1, [] => []
  | k + 1, _ :: r => DCell.poison :: poisonFirst k r

/-! ### Lengths -/

@[simp] theorem eRow_length (k : Nat) (vs : List VCell) : (eRow k vs).length = vs.length := by
  induction vs generalizing k with
  | nil => cases k <;> rfl
  | cons v vs ih => cases k <;> simp [eRow, ih]

@[simp] theorem sRow_length (sk k : Nat) (vs : List VCell) : (sRow sk k vs).length = vs.length := by
  induction vs generalizing sk k with
  | nil => cases sk <;> cases k <;> rfl
  | cons v vs ih => cases sk <;> cases k <;> simp [sRow, ih]

@[simp] theorem poisonFirst_length (k : Nat) (r : List DCell) : (poisonFirst k r).length = r.length := by
  induction r generalizing k with
  | nil => cases k <;> rfl
  | cons x r ih => cases k <;> simp [poisonFirst, ih]

/-! ### `sRow` / `eRow` identities -/

theorem sRow_zero_zero (vs : List VCell) : sRow 0 0 vs = eRow 0 vs := by
  cases vs <;> rfl

theorem sRow_diag (k : Nat) (vs : List VCell) : sRow k k vs = eRow k vs := by
  induction vs generalizing k with
  | nil => cases k <;> rfl
  | cons v vs ih =>
    cases k with
    | zero => rfl
    | succ k => simp [sRow, eRow, nextL, ih]

theorem poisonFirst_eRow (k : Nat) (vs : List VCell) : poisonFirst k (eRow k vs) = sRow 0 k vs := by
  induction vs generalizing k with
  | nil => cases k <;> rfl
  | cons v vs ih =>
    cases k with
    | zero => rfl
    | succ k => simp [sRow, eRow, poisonFirst, ih]

theorem eRow_conts (k : Nat) (vs : List VCell) (h : k ≤ vs.length) :
    eRow k vs = List.replicate k DCell.cont ++ eRow 0 (vs.drop k) := by
  induction vs generalizing k with
  | nil => have : k = 0 := by simpa using h
           subst this; rfl
  | cons v vs ih =>
    cases k with
    | zero => rfl
    | succ k =>
      simp only [eRow, List.replicate_succ, List.cons_append, List.drop_succ_cons]
      rw [ih k (by simpa using h)]

theorem eRow_getElem?_lt (k : Nat) (vs : List VCell) (j : Nat) (h1 : j < k) (h2 : j < vs.length) :
    (eRow k vs)[j]? = some DCell.cont := by
  induction vs generalizing k j with
  | nil => simp at h2
  | cons v vs ih =>
    cases k with
    | zero => omega
    | succ k =>
      cases j with
      | zero => rfl
      | succ j => simp only [eRow, List.getElem?_cons_succ]; exact ih k j (by omega) (by simpa using h2)

theorem nextL_succ (k : Nat) (v : VCell) : nextL (k + 1) v = k := by simp [nextL]
theorem nextL_zero (v : VCell) : nextL 0 v = v.2 := by simp [nextL]

theorem psk_le (k : Nat) (vs : List VCell) (j : Nat) (h1 : j ≤ k) : psk k vs j = k - j := by
  induction j generalizing k vs with
  | zero => cases vs <;> rfl
  | succ j ih =>
    cases vs with
    | nil => simp only [psk]; rw [ih _ _ (by omega)]; omega
    | cons v vs =>
      simp only [psk]
      have : nextL k v = k - 1 := by unfold nextL; split <;> omega
      rw [this, ih _ _ (by omega)]; omega

/-- After the `k` cells a glyph still covers, the parse is at a glyph boundary. -/
theorem psk_conts (k : Nat) (vs : List VCell) (j : Nat) (h : k ≤ vs.length) :
    psk k vs (k + j) = psk 0 (vs.drop k) j := by
  induction k generalizing vs with
  | zero => simp
  | succ k ih =>
    cases vs with
    | nil => simp at h
    | cons v vs =>
      have : k + 1 + j = (k + j) + 1 := by omega
      rw [this]
      simp only [psk, nextL_succ, List.drop_succ_cons]
      exact ih vs (by simpa using h)

theorem sRow_conts (sk k : Nat) (vs : List VCell) (h : sk ≤ vs.length) :
    sRow sk k vs = List.replicate sk DCell.cont ++ sRow 0 (psk k vs sk) (vs.drop sk) := by
  induction sk generalizing k vs with
  | zero => simp [psk]
  | succ sk ih =>
    cases vs with
    | nil => simp at h
    | cons v vs =>
      simp only [sRow, psk, List.replicate_succ, List.cons_append, List.drop_succ_cons]
      rw [ih _ vs (by simpa using h)]

theorem drop_sRow (k : Nat) (vs : List VCell) (j : Nat) (h : j ≤ k) :
    (sRow 0 k vs).drop j = sRow 0 (k - j) (vs.drop j) := by
  induction j generalizing k vs with
  | zero => simp
  | succ j ih =>
    cases vs with
    | nil => simp [sRow]
    | cons v vs =>
      cases k with
      | zero => omega
      | succ k =>
        simp only [sRow, List.drop_succ_cons]
        rw [ih k vs (by omega)]
        congr 1; omega

theorem drop_eRow (k : Nat) (vs : List VCell) (h : k ≤ vs.length) :
    (eRow k vs).drop k = eRow 0 (vs.drop k) := by
  rw [eRow_conts k vs h, List.drop_left' (by simp)]

/-! ### `zipWith` over `range` pointwise -/

theorem getElem?_zipRange {α β : Type} (f : Nat → α → β) (r : List α) (j : Nat) :
    ((List.range r.length).zipWith f r)[j]? = r[j]?.map (f j) := by
  rw [List.getElem?_zipWith]
  by_cases h : j < r.length
  · rw [List.getElem?_range h, List.getElem?_eq_getElem h]; rfl
  · have h' : r.length ≤ j := by omega
    rw [List.getElem?_eq_none h']
    cases (List.range r.length)[j]? <;> rfl

theorem zipRange_length {α β : Type} (f : Nat → α → β) (r : List α) :
    ((List.range r.length).zipWith f r).length = r.length := by simp

theorem getElem?_poisonFirst (k : Nat) (r : List DCell) (j : Nat) :
    (poisonFirst k r)[j]? = if j < k then r[j]?.map (fun _ => DCell.poison) else r[j]? := by
  induction r generalizing k j with
  | nil => cases k <;> simp [poisonFirst]
  | cons x r ih =>
    cases k with
    | zero => simp [poisonFirst]
    | succ k =>
      cases j with
      | zero => simp [poisonFirst]
      | succ j => simp only [poisonFirst, List.getElem?_cons_succ, ih]; simp

/-- Poisoning the columns `[|Q|, |Q|+k)` of `Q ++ S`. -/
theorem poisonRange_append (Q S : List DCell) (k : Nat) :
    (List.range (Q ++ S).length).zipWith
      (fun j c => if Q.length ≤ j ∧ j < Q.length + k then DCell.poison else c) (Q ++ S)
    = Q ++ poisonFirst k S := by
  apply List.ext_getElem?
  intro j
  rw [getElem?_zipRange]
  by_cases h : j < Q.length
  · rw [List.getElem?_append_left h, List.getElem?_append_left h]
    have : ¬ (Q.length ≤ j ∧ j < Q.length + k) := by omega
    cases Q[j]? <;> simp [this]
  · have h' : Q.length ≤ j := by omega
    rw [List.getElem?_append_right h', List.getElem?_append_right h', getElem?_poisonFirst]
    by_cases h2 : j - Q.length < k
    · have : Q.length ≤ j ∧ j < Q.length + k := by omega
      simp only [h2, this, and_self, if_true]
      try (cases S[j - Q.length]? <;> rfl)
    · have : ¬ (Q.length ≤ j ∧ j < Q.length + k) := by omega
      simp only [h2, this, if_false]
      cases S[j - Q.length]? <;> rfl

/-- The final overwrite of `writeRow`. -/
theorem overwrite_eq (r : List DCell) (c w : Nat) (cell : DCell) (hw : 1 ≤ w) (hfit : c + w ≤ r.length) :
    (List.range r.length).zipWith
      (fun j old => if j = c then cell else if c < j ∧ j < c + w then DCell.cont else old) r
    = r.take c ++ cell :: (List.replicate (w - 1) DCell.cont ++ r.drop (c + w)) := by
  apply List.ext_getElem?
  intro j
  rw [getElem?_zipRange]
  have hlt : (r.take c).length = c := by simp; omega
  by_cases h1 : j < c
  · rw [List.getElem?_append_left (by omega), List.getElem?_take]
    have : j ≠ c := by omega
    have h3 : ¬ (c < j ∧ j < c + w) := by omega
    simp only [h1, if_true]
    cases r[j]? <;> simp [this, h3]
  · rw [List.getElem?_append_right (by omega), hlt]
    by_cases h2 : j = c
    · subst h2
      have : j < r.length := by omega
      rw [List.getElem?_eq_getElem this]
      simp
    · have hj : j - c = (j - c - 1) + 1 := by omega
      rw [hj, List.getElem?_cons_succ]
      by_cases h3 : j < c + w
      · have : j < r.length := by omega
        rw [List.getElem?_eq_getElem this, List.getElem?_append_left (by simp; omega), List.getElem?_replicate]
        have h4 : c < j ∧ j < c + w := by omega
        have h5 : j - c - 1 < w - 1 := by omega
        simp [h2, h4, h5]
      · rw [List.getElem?_append_right (by simp; omega), List.getElem?_drop]
        have h4 : ¬ (c < j ∧ j < c + w) := by omega
        have h5 : c + w + (j - c - 1 - (List.replicate (w - 1) DCell.cont).length) = j := by simp; omega
        rw [h5]
        cases r[j]? <;> simp [h2, h4]

/-! ### `ownerOf` -/

theorem ownerOf_of_conts (r : List DCell) (o : Nat) : ∀ i, o ≤ i → r[o]? ≠ some DCell.cont →
    (∀ k, o < k → k ≤ i → r[k]? = some DCell.cont) → ownerOf r i = o := by
  intro i
  induction i with
  | zero => intro h _ _; simp [ownerOf]; omega
  | succ i ih =>
    intro h hn hc
    by_cases he : o = i + 1
    · subst he
      unfold ownerOf
      split
      · rename_i h'; exact absurd h' hn
      · rfl
    · have := hc (i + 1) (by omega) (by omega)
      unfold ownerOf
      rw [this]
      exact ih (by omega) hn (fun k h1 h2 => hc k h1 (by omega))

theorem ownerOf_le (r : List DCell) (i : Nat) : ownerOf r i ≤ i := by
  induction i with
  | zero => simp [ownerOf]
  | succ i ih => unfold ownerOf; split <;> omega

theorem ownerOf_ge (r : List DCell) (a : Nat) (ha : r[a]? ≠ some DCell.cont) : ∀ i, a ≤ i → a ≤ ownerOf r i := by
  intro i
  induction i with
  | zero => intro h; simp [ownerOf]; omega
  | succ i ih =>
    intro h
    unfold ownerOf
    split
    · rename_i h'
      have : a ≠ i + 1 := by intro e; subst e; exact ha h'
      exact ih (by omega)
    · exact h

/-! ### `poisonPartial` -/

theorem poisonPartial_length (r : List DCell) (lo hi i : Nat) : (poisonPartial r lo hi i).length = r.length := by
  unfold poisonPartial
  simp only
  split
  · rfl
  · split
    · rfl
    · simp

theorem poisonPartial_take (r : List DCell) (lo hi i a : Nat) (h : a ≤ ownerOf r i) :
    (poisonPartial r lo hi i).take a = r.take a := by
  unfold poisonPartial
  simp only
  split
  · rfl
  · split
    · rfl
    · apply List.ext_getElem?
      intro j
      rw [List.getElem?_take, List.getElem?_take, getElem?_zipRange]
      split
      · have : ¬ (ownerOf r i ≤ j ∧ j < ownerOf r i + glyphWidthAt r (ownerOf r i)) := by omega
        cases r[j]? <;> simp [this]
      · rfl

theorem pp_noncover (r : List DCell) (lo hi i : Nat) (h : r[i]? = some DCell.poison) :
    poisonPartial r lo hi i = r := by
  have ho : ownerOf r i = i := ownerOf_of_conts r i i (Nat.le_refl _) (by rw [h]; simp) (by intro k h1 h2; omega)
  unfold poisonPartial
  simp only [ho, glyphWidthAt, h]
  simp

theorem VOk.ne_cont {v : VCell} (h : VOk v) : v.1 ≠ DCell.cont := by
  rcases h with ⟨g, st, lp, lk, h⟩ | ⟨h, _⟩ <;> rw [h] <;> simp

/-- `poisonPartial` aimed at a column covered by the glyph at the head of the described part. -/
theorem pp_head (Q : List DCell) (x : VCell) (xs : List VCell) (lo hi i : Nat) (hx : VOk x)
    (hi1 : i ≤ x.2) (hi2 : i ≤ xs.length) (hlo : lo ≤ Q.length) :
    poisonPartial (Q ++ x.1 :: eRow x.2 xs) lo hi (Q.length + i) =
      if 1 ≤ x.2 ∧ hi < Q.length + x.2 + 1 then Q ++ sRow 0 (x.2 + 1) (x :: xs) else Q ++ x.1 :: eRow x.2 xs := by
  have h0 : (Q ++ x.1 :: eRow x.2 xs)[Q.length]? = some x.1 := by
    rw [List.getElem?_append_right (Nat.le_refl _)]; simp
  have ho : ownerOf (Q ++ x.1 :: eRow x.2 xs) (Q.length + i) = Q.length := by
    apply ownerOf_of_conts _ _ _ (by omega)
    · rw [h0]; intro h; exact hx.ne_cont (Option.some.inj h)
    · intro k h1 h2
      rw [List.getElem?_append_right (by omega)]
      have : k - Q.length = (k - Q.length - 1) + 1 := by omega
      rw [this, List.getElem?_cons_succ]
      exact eRow_getElem?_lt _ _ _ (by omega) (by omega)
  unfold poisonPartial
  simp only [ho, glyphWidthAt, h0]
  rcases hx with ⟨g, st, lp, lk, hg⟩ | ⟨hp, hz⟩
  · rw [hg]
    simp only
    by_cases hc : 1 ≤ x.2 ∧ hi < Q.length + x.2 + 1
    · have c1 : ¬ (x.2 + 1 ≤ 1) := by omega
      have c2 : ¬ (lo ≤ Q.length ∧ Q.length + (x.2 + 1) ≤ hi) := by omega
      simp only [c1, c2, hc, and_self, if_true, if_false]
      rw [poisonRange_append]
      simp only [poisonFirst, sRow, poisonFirst_eRow]
    · simp only [hc, if_false]
      by_cases c1 : x.2 + 1 ≤ 1
      · simp only [c1, if_true]
      · have c2 : lo ≤ Q.length ∧ Q.length + (x.2 + 1) ≤ hi := by omega
        simp only [c1, c2, and_self, if_true, if_false]
  · rw [hp]
    have hc : ¬ (1 ≤ x.2 ∧ hi < Q.length + x.2 + 1) := by omega
    simp [hc]

theorem sRow_head_ne_cont (k : Nat) (x : VCell) (xs : List VCell) (hx : VOk x) :
    (sRow 0 k (x :: xs))[0]? ≠ some DCell.cont := by
  cases k with
  | zero => simp only [sRow, List.getElem?_cons_zero]; intro h; exact hx.ne_cont (Option.some.inj h)
  | succ k => simp [sRow]

/-- `poisonPartial` aimed at column `i` of the described part with upper bound `i + 1`: right of
    that column the row is again described by `sRow`, now with the parse state after `i + 1` cells
    as poison count. -/
theorem drop_append_add {α : Type} (Q S : List α) (j : Nat) : (Q ++ S).drop (Q.length + j) = S.drop j := by simp

theorem pp_sRow_drop : ∀ (i : Nat) (Q : List DCell) (k : Nat) (xs : List VCell) (lo : Nat),
    (∀ x ∈ xs, VOk x) → i < xs.length → lo ≤ Q.length →
    (poisonPartial (Q ++ sRow 0 k xs) lo (Q.length + i + 1) (Q.length + i)).drop (Q.length + i + 1)
      = sRow 0 (psk k xs (i + 1)) (xs.drop (i + 1)) := by
  intro i
  induction i using Nat.strongRecOn with
  | _ i ih =>
    intro Q k xs lo hok hlen hlo
    cases xs with
    | nil => simp at hlen
    | cons x xs =>
      have hx : VOk x := hok x (by simp)
      have hok' : ∀ y ∈ xs, VOk y := fun y hy => hok y (by simp [hy])
      cases k with
      | succ k =>
        cases i with
        | zero =>
          rw [pp_noncover _ _ _ _ (by rw [List.getElem?_append_right (by omega)]; simp [sRow])]
          rw [Nat.add_assoc, drop_append_add]
          simp [sRow, psk, nextL_succ]
        | succ i =>
          have e1 : Q ++ sRow 0 (k + 1) (x :: xs) = (Q ++ [DCell.poison]) ++ sRow 0 k xs := by
            simp [sRow]
          have e2 : (Q ++ [DCell.poison]).length = Q.length + 1 := by simp
          have := ih i (by omega) (Q ++ [DCell.poison]) k xs lo hok' (by simpa using hlen) (by omega)
          rw [e2] at this
          rw [e1]
          have e3 : Q.length + (i + 1) = Q.length + 1 + i := by omega
          rw [e3, this]
          simp only [psk, nextL_succ, List.drop_succ_cons]
      | zero =>
        have hs : sRow 0 0 (x :: xs) = x.1 :: eRow x.2 xs := rfl
        rw [hs]
        have hlen' : i ≤ xs.length := by simpa [Nat.lt_succ_iff] using hlen
        by_cases hcov : i ≤ x.2
        · rw [pp_head Q x xs lo _ i hx hcov hlen' hlo]
          by_cases hlt : i < x.2
          · have hc : 1 ≤ x.2 ∧ Q.length + i + 1 < Q.length + x.2 + 1 := by omega
            simp only [hc, and_self, if_true]
            rw [Nat.add_assoc, drop_append_add, drop_sRow _ _ _ (by omega)]
            simp only [psk, nextL_zero, List.drop_succ_cons]
            rw [psk_le _ _ _ hcov]
            congr 1; omega
          · have hc : ¬ (1 ≤ x.2 ∧ Q.length + i + 1 < Q.length + x.2 + 1) := by omega
            have he : i = x.2 := by omega
            simp only [hc, if_false]
            rw [Nat.add_assoc, drop_append_add]
            simp only [psk, nextL_zero, List.drop_succ_cons]
            rw [psk_le _ _ _ hcov, he, drop_eRow _ _ (by omega), Nat.sub_self, sRow_zero_zero]
        · have hgt : x.2 < i := by omega
          have hx2 : x.2 ≤ xs.length := by omega
          have e1 : Q ++ x.1 :: eRow x.2 xs
              = (Q ++ x.1 :: List.replicate x.2 DCell.cont) ++ sRow 0 0 (xs.drop x.2) := by
            rw [eRow_conts _ _ hx2, sRow_zero_zero]; simp
          have e2 : (Q ++ x.1 :: List.replicate x.2 DCell.cont).length = Q.length + 1 + x.2 := by simp; omega
          have := ih (i - x.2 - 1) (by omega) (Q ++ x.1 :: List.replicate x.2 DCell.cont) 0 (xs.drop x.2) lo
            (fun y hy => hok' y (List.mem_of_mem_drop hy)) (by simp; omega) (by omega)
          rw [e2] at this
          have e3 : Q.length + 1 + x.2 + (i - x.2 - 1) = Q.length + i := by omega
          rw [e3] at this
          rw [e1, this]
          simp only [psk, nextL_zero, List.drop_succ_cons]
          have e4 : i = x.2 + (i - x.2 - 1 + 1) := by omega
          rw [List.drop_drop]
          conv => rhs; rw [e4]
          rw [psk_conts _ _ _ hx2]

/-- First half of `writeRow`: the glyph under the start column. -/
theorem writeRow_stepA (P : List DCell) (k : Nat) (v : VCell) (vs : List VCell) (hi : Nat) (hv : VOk v) :
    ∃ k1, poisonPartial (P ++ sRow 0 k (v :: vs)) P.length hi P.length = P ++ sRow 0 k1 (v :: vs) ∧
      nextL k1 v = nextL k v := by
  cases k with
  | succ k =>
    refine ⟨k + 1, ?_, rfl⟩
    exact pp_noncover _ _ _ _ (by rw [List.getElem?_append_right (by omega)]; simp [sRow])
  | zero =>
    have hs : sRow 0 0 (v :: vs) = v.1 :: eRow v.2 vs := rfl
    have := pp_head P v vs P.length hi 0 hv (Nat.zero_le _) (Nat.zero_le _) (Nat.le_refl _)
    rw [Nat.add_zero] at this
    by_cases hc : 1 ≤ v.2 ∧ hi < P.length + v.2 + 1
    · refine ⟨v.2 + 1, ?_, by simp [nextL]⟩
      rw [hs, this]; simp only [hc, and_self, if_true]
    · refine ⟨0, ?_, rfl⟩
      rw [hs, this]; simp only [hc, if_false]

/-- **Writing a glyph of width `w` at the current column** of a row under work. -/
theorem writeRow_sRow (P : List DCell) (k : Nat) (v : VCell) (vs : List VCell) (w : Nat) (cell : DCell)
    (hok : ∀ x ∈ v :: vs, VOk x) (hw : 1 ≤ w) (hfit : w ≤ (v :: vs).length) :
    writeRow (P ++ sRow 0 k (v :: vs)) P.length w cell = P ++ cell :: sRow (w - 1) (nextL k v) vs := by
  have hv : VOk v := hok v (by simp)
  obtain ⟨k1, hA, hk1⟩ := writeRow_stepA P k v vs (P.length + w) hv
  unfold writeRow
  simp only
  rw [hA]
  have hi : P.length + w - 1 = P.length + (w - 1) := by omega
  have hi' : P.length + w = P.length + (w - 1) + 1 := by omega
  generalize hr2 : poisonPartial (P ++ sRow 0 k1 (v :: vs)) P.length (P.length + w) (P.length + w - 1) = r2
  have hlen : r2.length = P.length + (vs.length + 1) := by
    rw [← hr2, poisonPartial_length]; simp
  have htake : r2.take P.length = P := by
    rw [← hr2, poisonPartial_take _ _ _ _ _ (ownerOf_ge _ P.length (by
      rw [List.getElem?_append_right (Nat.le_refl _), Nat.sub_self]
      exact sRow_head_ne_cont k1 v vs hv) _ (by omega))]
    simp
  have hdrop : r2.drop (P.length + w) = sRow 0 (psk k1 (v :: vs) w) ((v :: vs).drop w) := by
    rw [← hr2]
    have := pp_sRow_drop (w - 1) P k1 (v :: vs) P.length hok (by simp at hfit ⊢; omega) (Nat.le_refl _)
    rw [← hi', ← hi] at this
    rw [this]
    congr 2 <;> omega
  rw [overwrite_eq r2 P.length w cell hw (by rw [hlen]; simp at hfit; omega), htake, hdrop]
  have hw' : w = (w - 1) + 1 := by omega
  rw [sRow_conts (w - 1) (nextL k v) vs (by simp at hfit; omega)]
  conv => lhs; rw [hw']
  simp only [psk, List.drop_succ_cons, hk1]
  simp

end VaxisModel.Lemmas.RenderRow
