/-
Row algebra, continued (C01, screens with image cells): writing INTO a wide glyph whose head lies
to the left of the write position (the head is hidden under an image cell, the renderer rewrites
the glyph's other columns).  `Spec.Display.writeRow` then poisons the whole glyph first; from there
the write is the ordinary one of `Lemmas/RenderRow.writeRow_sRow`.
-/
import VaxisModel.Lemmas.RenderRow

namespace VaxisModel.Lemmas.RenderRow
open VaxisModel.Spec VaxisModel.Spec.Display

/-- `poisonPartial` aimed at a column covered by the glyph at the head of the described part, with a
    lower bound right of that head: the glyph is never completely inside, so it is poisoned. -/
theorem pp_head_right (Q : List DCell) (x : VCell) (xs : List VCell) (lo hi i : Nat) (hx : VOk x)
    (hi1 : i ≤ x.2) (hi2 : i ≤ xs.length) (hlo : Q.length < lo) (h1 : 1 ≤ x.2) :
    poisonPartial (Q ++ x.1 :: eRow x.2 xs) lo hi (Q.length + i) = Q ++ sRow 0 (x.2 + 1) (x :: xs) := by
  have h0 : (Q ++ x.1 :: eRow x.2 xs)[Q.length]? = some x.1 := by
    rw [List.getElem?_append_right (Nat.le_refl _)]; simp
  have ho : ownerOf (Q ++ x.1 :: eRow x.2 xs) (Q.length + i) = Q.length := by
    apply ownerOf_of_conts _ _ _ (by omega)
    · rw [h0]; intro h; exact hx.ne_cont (Option.some.inj h)
    · intro k h1 h2
      rw [List.getElem?_append_right (by omega)]
      have : k - Q.length = (k - Q.length - 1) + 1 := by omega
      rw [this, List.getElem?_cons_succ]
      exact eRow_getElem?_lt _ _ _ (by omega) (by omega)
  unfold poisonPartial
  simp only [ho, glyphWidthAt, h0]
  rcases hx with ⟨g, st, lp, lk, hg⟩ | ⟨_, hz⟩
  · rw [hg]
    simp only
    have c1 : ¬ (x.2 + 1 ≤ 1) := by omega
    have c2 : ¬ (lo ≤ Q.length ∧ Q.length + (x.2 + 1) ≤ hi) := by omega
    simp only [c1, c2, if_false]
    rw [poisonRange_append]
    simp only [poisonFirst, sRow, poisonFirst_eRow]
  · omega

/-- The first `i` cells of a poisoned stretch. -/
theorem sRow_poisons : ∀ (i m : Nat) (ys : List VCell), i ≤ ys.length →
    sRow 0 (m + i) ys = List.replicate i DCell.poison ++ sRow 0 m (ys.drop i) := by
  intro i
  induction i with
  | zero => intro m ys _; simp
  | succ i ih =>
    intro m ys h
    cases ys with
    | nil => simp at h
    | cons y ys =>
      have : m + (i + 1) = (m + i) + 1 := by omega
      rw [this]
      simp only [sRow, List.replicate_succ, List.cons_append, List.drop_succ_cons]
      rw [ih m ys (by simpa using h)]

/-- `j` continuation cells then the rest. -/
theorem eRow_append_conts : ∀ (j s : Nat) (ys W : List VCell), ys.length = j →
    eRow (j + s) (ys ++ W) = List.replicate j DCell.cont ++ eRow s W := by
  intro j
  induction j with
  | zero => intro s ys W h; have : ys = [] := by simpa using h
            subst this; simp
  | succ j ih =>
    intro s ys W h
    cases ys with
    | nil => simp at h
    | cons y ys =>
      have : j + 1 + s = (j + s) + 1 := by omega
      rw [this]
      simp only [List.cons_append, eRow, List.replicate_succ]
      rw [ih s ys W (by simpa using h)]

/-- **Writing into a glyph whose head lies left of the write position** is writing onto the row in
    which that glyph is already poison. -/
theorem writeRow_stale (Q : List DCell) (x : VCell) (xs : List VCell) (i w : Nat) (cell : DCell) (hx : VOk x)
    (h1 : 1 ≤ i) (hi1 : i ≤ x.2) (hi2 : i ≤ xs.length) :
    writeRow (Q ++ x.1 :: eRow x.2 xs) (Q.length + i) w cell =
      writeRow (Q ++ sRow 0 (x.2 + 1) (x :: xs)) (Q.length + i) w cell := by
  have hA := pp_head_right Q x xs (Q.length + i) (Q.length + i + w) i hx hi1 hi2 (by omega) (by omega)
  have hp : (Q ++ sRow 0 (x.2 + 1) (x :: xs))[Q.length + i]? = some DCell.poison := by
    rw [List.getElem?_append_right (by omega)]
    have : Q.length + i - Q.length = i := by omega
    rw [this]
    have hs := sRow_poisons (i + 1) (x.2 - i) (x :: xs) (by simp; omega)
    have e : x.2 - i + (i + 1) = x.2 + 1 := by omega
    rw [e] at hs
    rw [hs, List.getElem?_append_left (by simp)]
    simp [List.getElem?_replicate]
  have hB := pp_noncover (Q ++ sRow 0 (x.2 + 1) (x :: xs)) (Q.length + i) (Q.length + i + w) (Q.length + i) hp
  unfold writeRow
  simp only
  rw [hA, hB]

end VaxisModel.Lemmas.RenderRow
