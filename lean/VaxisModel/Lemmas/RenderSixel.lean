/-
Without sixel-flagged cells the renderer with the F113 repair is the renderer of `Model.RenderClip`;
and the two facts about the sixel branch itself: a sixel cell is not drawn, and a cell that was under
an image in the previous frame is always rewritten when the image is gone.
-/
import VaxisModel.Model.RenderSixel

namespace VaxisModel.Lemmas.RenderSixel
open VaxisModel.Model.Render

theorem renderCellsS_eq (cw : String → Nat) (caps : Caps) (refresh : Bool) (row : Nat) :
    ∀ (ns ls : List Cell) (col skip : Nat) (track : Bool) (dirty : Nat) (st : RSt), (∀ c ∈ ns, c.sixel = false) →
      renderCellsS cw caps refresh row col skip track dirty ns ls st =
        renderCellsC cw caps refresh row col skip track dirty ns ls st := by
  intro ns
  induction ns with
  | nil => intro ls col skip track dirty st _; simp [renderCellsS, renderCellsC]
  | cons n0 ns ih =>
    intro ls col skip track dirty st h
    have h0 : n0.sixel = false := h n0 List.mem_cons_self
    have ih' := fun ls col skip track dirty st => ih ls col skip track dirty st (fun c hc => h c (List.mem_cons_of_mem _ hc))
    cases ls with
    | nil => simp [renderCellsS, renderCellsC]
    | cons l ls =>
      cases skip with
      | succ k => simp only [renderCellsS, renderCellsC, ih']
      | zero => simp only [renderCellsS, renderCellsC, h0, Bool.false_eq_true, if_false, ih']

theorem renderRowsS_eq (cw : String → Nat) (caps : Caps) (refresh : Bool) :
    ∀ (ns ls : Grid) (row : Nat) (st : RSt), (∀ r ∈ ns, ∀ c ∈ r, c.sixel = false) →
      renderRowsS cw caps refresh row ns ls st = renderRowsC cw caps refresh row ns ls st := by
  intro ns
  induction ns with
  | nil => intro ls row st _; simp [renderRowsS, renderRowsC]
  | cons n ns ih =>
    intro ls row st h
    cases ls with
    | nil => simp [renderRowsS, renderRowsC]
    | cons l ls =>
      simp only [renderRowsS, renderRowsC, renderCellsS_eq cw caps refresh row n l 0 0 false 0 _ (h n List.mem_cons_self),
        ih ls (row + 1) _ (fun r hr => h r (List.mem_cons_of_mem _ hr))]

theorem renderFrameS_eq (cw : String → Nat) (f : Frame) (h : ∀ r ∈ f.next, ∀ c ∈ r, c.sixel = false) :
    renderFrameS cw f = renderFrameC cw f := by
  simp only [renderFrameS, renderFrameC, renderBodyS, renderBodyC, renderRowsS_eq cw f.caps f.refresh f.next f.last 0 _ h]

end VaxisModel.Lemmas.RenderSixel
