/-
Without sixel-flagged cells the renderer with the F113 repair is the renderer of `Model.RenderClip`;
and the two facts about the sixel branch itself: a sixel cell is not drawn, and a cell that was under
an image in the previous frame is always rewritten when the image is gone.
-/
import VaxisModel.Model.RenderSixel
import VaxisModel.Lemmas.RenderToks

namespace VaxisModel.Lemmas.RenderSixel
open VaxisModel.Model.Render

theorem renderCellsS_eq (cw : String → Nat) (caps : Caps) (refresh : Bool) (row : Nat) :
    ∀ (ns ls : List Cell) (col skip : Nat) (track : Bool) (dirty : Nat) (st : RSt), (∀ c ∈ ns, c.sixel = false) →
      renderCellsS cw caps refresh row col skip track dirty ns ls st =
        renderCellsC cw caps refresh row col skip track dirty ns ls st := by
  intro ns
  induction ns with
  | nil => intro ls col skip track dirty st _; simp [renderCellsS, renderCellsC]
  | cons n0 ns ih =>
    intro ls col skip track dirty st h
    have h0 : n0.sixel = false := h n0 List.mem_cons_self
    have ih' := fun ls col skip track dirty st => ih ls col skip track dirty st (fun c hc => h c (List.mem_cons_of_mem _ hc))
    cases ls with
    | nil => simp [renderCellsS, renderCellsC]
    | cons l ls =>
      cases skip with
      | succ k => simp only [renderCellsS, renderCellsC, ih']
      | zero => simp only [renderCellsS, renderCellsC, h0, Bool.false_eq_true, if_false, ih']

theorem renderRowsS_eq (cw : String → Nat) (caps : Caps) (refresh : Bool) :
    ∀ (ns ls : Grid) (row : Nat) (st : RSt), (∀ r ∈ ns, ∀ c ∈ r, c.sixel = false) →
      renderRowsS cw caps refresh row ns ls st = renderRowsC cw caps refresh row ns ls st := by
  intro ns
  induction ns with
  | nil => intro ls row st _; simp [renderRowsS, renderRowsC]
  | cons n ns ih =>
    intro ls row st h
    cases ls with
    | nil => simp [renderRowsS, renderRowsC]
    | cons l ls =>
      simp only [renderRowsS, renderRowsC, renderCellsS_eq cw caps refresh row n l 0 0 false 0 _ (h n List.mem_cons_self),
        ih ls (row + 1) _ (fun r hr => h r (List.mem_cons_of_mem _ hr))]

theorem renderFrameS_eq (cw : String → Nat) (f : Frame) (h : ∀ r ∈ f.next, ∀ c ∈ r, c.sixel = false) :
    renderFrameS cw f = renderFrameC cw f := by
  simp only [renderFrameS, renderFrameC, renderBodyS, renderBodyC, renderRowsS_eq cw f.caps f.refresh f.next f.last 0 _ h]


/-! ### vocabulary and hyperlink invariant of the current cell loop, image cells included -/

open VaxisModel.Lemmas.RenderToks in
theorem renderCellsS_post (cw : String → Nat) (caps : Caps) (refresh : Bool) (row : Nat) (l0 : String) :
    ∀ (next last : List Cell) (col skip : Nat) (track : Bool) (dirty : Nat) (st : RSt),
      linkRun l0 st.out = st.pen.link →
      LoopPost l0 st (renderCellsS cw caps refresh row col skip track dirty next last st).2 := by
  intro next
  induction next with
  | nil => intro last col skip track dirty st h; simpa [renderCellsS] using LoopPost.refl h
  | cons n ns ih =>
    intro last col skip track dirty st h
    cases last with
    | nil => simpa [renderCellsS] using LoopPost.refl h
    | cons l ls =>
      cases skip with
      | succ k =>
        simp only [renderCellsS]
        exact ih ls (col + 1) k track _ st h
      | zero =>
        simp only [renderCellsS]
        split
        · have h' : linkRun l0 ({ st with reposition := true } : RSt).out = ({ st with reposition := true } : RSt).pen.link := h
          have := ih ls (col + 1) 0 false (if col + advance cw l + 1 > dirty then col + advance cw l + 1 else dirty)
            { st with reposition := true } h'
          exact ⟨this.link, this.ext⟩
        · split
          · have h' : linkRun l0 ({ st with reposition := true } : RSt).out = ({ st with reposition := true } : RSt).pen.link := h
            have := ih ls (col + 1) (advance cw (clipCell cw (ns.length + 1) n)) false dirty { st with reposition := true } h'
            exact ⟨this.link, this.ext⟩
          · have hc := cell_post cw caps row col l0 st (clipCell cw (ns.length + 1) n) h
            exact LoopPost.trans hc (ih ls (col + 1) (advance cw (clipCell cw (ns.length + 1) n)) true _ _ hc.link)

open VaxisModel.Lemmas.RenderToks in
theorem renderRowsS_post (cw : String → Nat) (caps : Caps) (refresh : Bool) (l0 : String) :
    ∀ (next last : Grid) (row : Nat) (st : RSt),
      linkRun l0 st.out = st.pen.link →
      LoopPost l0 st (renderRowsS cw caps refresh row next last st).2 := by
  intro next
  induction next with
  | nil => intro last row st h; simpa [renderRowsS] using LoopPost.refl h
  | cons n ns ih =>
    intro last row st h
    cases last with
    | nil => simpa [renderRowsS] using LoopPost.refl h
    | cons l ls =>
      simp only [renderRowsS]
      have h' : linkRun l0 ({ st with reposition := true } : RSt).out = ({ st with reposition := true } : RSt).pen.link := h
      have h1 := renderCellsS_post cw caps refresh row l0 n l 0 0 false 0 { st with reposition := true } h'
      have h1' : LoopPost l0 st (renderCellsS cw caps refresh row 0 0 false 0 n l { st with reposition := true }).2 :=
        ⟨h1.link, h1.ext⟩
      exact LoopPost.trans h1' (ih ls (row + 1) _ h1.link)

open VaxisModel.Lemmas.RenderToks in
/-- The body `render()` writes for ANY frame — image cells or not: optional pointer shape, cell-loop
    tokens (CUP / SGR / OSC 8 / glyphs), optional OSC 8 close, optional showCursor. -/
theorem renderBodyS_shape (cw : String → Nat) (f : Frame) :
    ∃ (pre extra close show_ : List Tok),
      (renderBodyS cw f).2 = pre ++ extra ++ close ++ show_ ∧
      (pre = [] ∨ ∃ s, pre = [Tok.pointer s]) ∧
      (∀ k ∈ extra, CellTok k) ∧
      (close = [] ∨ close = [Tok.osc8 "" ""]) ∧
      linkRun "" (pre ++ extra ++ close) = "" ∧
      show_ = (if f.cursorNext.visible ∧ ¬ f.cursorLast.visible then showCursorToks f.cursorNext else []) := by
  unfold renderBodyS
  generalize hpre : (if f.shapeLast ≠ f.shapeNext then [Tok.pointer f.shapeNext] else []) = pre
  have hpre' : pre = [] ∨ ∃ s, pre = [Tok.pointer s] := by
    subst hpre; split
    · exact Or.inr ⟨_, rfl⟩
    · exact Or.inl rfl
  have h0 : linkRun "" ({ out := pre } : RSt).out = ({ out := pre } : RSt).pen.link := by
    rcases hpre' with h | ⟨s, h⟩ <;> subst h <;> simp [linkRun, linkStep]
  have hp := renderRowsS_post cw f.caps f.refresh "" f.next f.last 0 { out := pre } h0
  obtain ⟨extra, hext, hvoc⟩ := hp.ext
  generalize hres : renderRowsS cw f.caps f.refresh 0 f.next f.last { out := pre } = res at hp hext
  obtain ⟨last', st⟩ := res
  simp only at hp hext ⊢
  refine ⟨pre, extra, if st.pen.link ≠ "" then [Tok.osc8 "" ""] else [], _, ?_, hpre', hvoc, ?_, ?_, rfl⟩
  · rw [hres]; simp only; rw [hext]
  · split
    · exact Or.inr rfl
    · exact Or.inl rfl
  · have hl := hp.link
    rw [hext] at hl
    rw [linkRun_append, hl]
    split
    · simp [linkRun, linkStep]
    · rename_i h; simp only [ne_eq, Decidable.not_not] at h; simp [linkRun, h]

end VaxisModel.Lemmas.RenderSixel
