/-
Helper lemmas for C01/C07: projections of `Spec.Display.run` that depend on the token list only
(hyperlink, pen, sync depth, cursor visibility/shape), and the vocabulary of the cell loop.
-/
import VaxisModel.Model.Render
import VaxisModel.Spec.Display

namespace VaxisModel.Lemmas.RenderToks
open VaxisModel.Model.Render VaxisModel.Spec VaxisModel.Spec.Display

/-! ### Field projections of the display -/

def linkStep (l : String) : Tok → String
  | .osc8 _ u => u
  | _ => l
def linkRun (l : String) (toks : List Tok) : String := toks.foldl linkStep l

def penStep (p : TStyle) : Tok → TStyle
  | .sgr ps => sgr p ps
  | _ => p
def penRun (p : TStyle) (toks : List Tok) : TStyle := toks.foldl penStep p

def syncStep (n : Int) : Tok → Int
  | .decset m => if m = 2026 then n + 1 else n
  | .decrst m => if m = 2026 then n - 1 else n
  | _ => n
def syncRun (n : Int) (toks : List Tok) : Int := toks.foldl syncStep n

def visStep (v : Bool) : Tok → Bool
  | .decset m => if m = 25 then true else v
  | .decrst m => if m = 25 then false else v
  | _ => v
def visRun (v : Bool) (toks : List Tok) : Bool := toks.foldl visStep v

def shapeStep (s : Nat) : Tok → Nat
  | .cursorStyle n => n
  | _ => s
def shapeRun (s : Nat) (toks : List Tok) : Nat := toks.foldl shapeStep s

theorem putGlyph_fields (t : Term) (g : String) (w : Nat) :
    (putGlyph t g w).link = t.link ∧ (putGlyph t g w).pen = t.pen ∧ (putGlyph t g w).sync = t.sync ∧
    (putGlyph t g w).cursorVisible = t.cursorVisible ∧ (putGlyph t g w).cursorShape = t.cursorShape ∧
    (putGlyph t g w).rows = t.rows ∧ (putGlyph t g w).cols = t.cols := by
  unfold putGlyph markBad
  repeat' split
  all_goals simp

theorem step_fields (tw : String → Nat) (t : Term) (k : Tok) :
    (step tw t k).link = linkStep t.link k ∧ (step tw t k).pen = penStep t.pen k ∧
    (step tw t k).sync = syncStep t.sync k ∧ (step tw t k).cursorVisible = visStep t.cursorVisible k ∧
    (step tw t k).cursorShape = shapeStep t.cursorShape k := by
  cases k <;> simp only [step, linkStep, penStep, syncStep, visStep, shapeStep]
  case cup r c => unfold markBad; repeat' split
                  all_goals simp
  case sgr ps => simp
  case osc8 p u => split <;> simp_all
  case text g => have := putGlyph_fields t g (tw g); simp [this]
  case textW w g =>
    split
    · unfold markBad; split <;> simp
    · have := putGlyph_fields t g w.toNat; simp [this]
  case decset n => repeat' split
                   all_goals simp_all
  case decrst n => repeat' split
                   all_goals simp_all
  case cursorStyle n => simp
  case pointer s => simp
  case other r => simp

theorem run_fields (tw : String → Nat) (toks : List Tok) : ∀ (t : Term),
    (run tw t toks).link = linkRun t.link toks ∧ (run tw t toks).pen = penRun t.pen toks ∧
    (run tw t toks).sync = syncRun t.sync toks ∧ (run tw t toks).cursorVisible = visRun t.cursorVisible toks ∧
    (run tw t toks).cursorShape = shapeRun t.cursorShape toks := by
  induction toks with
  | nil => intro t; simp [run, linkRun, penRun, syncRun, visRun, shapeRun]
  | cons k ks ih =>
    intro t
    have h1 := step_fields tw t k
    have h2 := ih (step tw t k)
    simp only [run, List.foldl_cons, linkRun, penRun, syncRun, visRun, shapeRun] at *
    obtain ⟨a1, a2, a3, a4, a5⟩ := h1
    obtain ⟨b1, b2, b3, b4, b5⟩ := h2
    rw [a1] at b1; rw [a2] at b2; rw [a3] at b3; rw [a4] at b4; rw [a5] at b5
    exact ⟨b1, b2, b3, b4, b5⟩

/-! ### Vocabulary of the cell loop -/

/-- Tokens the cell loop of `render` can write. -/
def CellTok : Tok → Prop
  | .cup _ _ | .sgr _ | .osc8 _ _ | .text _ | .textW _ _ => True
  | _ => False

theorem colorToks_cell (caps : Caps) (w c : Nat) : ∀ k ∈ colorToks caps w c, ∃ ps, k = .sgr ps := by
  intro k hk
  unfold colorToks colorToksP at hk
  split at hk
  · simp at hk; exact ⟨_, hk⟩
  · split at hk
    · simp at hk; exact ⟨_, hk⟩
    · split at hk <;> (simp at hk; exact ⟨_, hk⟩)
  · simp at hk; exact ⟨_, hk⟩
  · simp at hk

theorem ulColorToks_cell (caps : Caps) (c : Nat) : ∀ k ∈ ulColorToks caps c, ∃ ps, k = .sgr ps := by
  intro k hk
  unfold ulColorToks ulColorToksP at hk
  split at hk
  · simp at hk; exact ⟨_, hk⟩
  · simp at hk; exact ⟨_, hk⟩
  · simp at hk; exact ⟨_, hk⟩
  · simp at hk

theorem onTok_cell (a b c : Nat) : ∀ k ∈ onTok a b c, ∃ ps, k = .sgr ps := by
  intro k hk
  unfold onTok at hk
  split at hk <;> simp at hk
  exact ⟨_, hk⟩

def isSgr : Tok → Bool
  | .sgr _ => true
  | _ => false

theorem attrToks_all (a b : Nat) : (attrToks a b).all isSgr = true := by
  unfold attrToks
  split
  · rfl
  · simp only [List.all_append, onTok, Bool.and_eq_true]
    repeat' apply And.intro
    all_goals (repeat' split)
    all_goals simp [isSgr]

theorem attrToks_cell (a b : Nat) : ∀ k ∈ attrToks a b, ∃ ps, k = .sgr ps := by
  intro k hk
  have h := attrToks_all a b
  rw [List.all_eq_true] at h
  have := h k hk
  cases k <;> simp [isSgr] at this
  exact ⟨_, rfl⟩

/-! ### The hyperlink is tracked exactly -/

theorem linkRun_append (l : String) (a b : List Tok) : linkRun l (a ++ b) = linkRun (linkRun l a) b := by
  simp [linkRun, List.foldl_append]

theorem linkRun_sgrs (l : String) (toks : List Tok) (h : ∀ k ∈ toks, ∃ ps, k = Tok.sgr ps) : linkRun l toks = l := by
  induction toks generalizing l with
  | nil => rfl
  | cons k ks ih =>
    obtain ⟨ps, hk⟩ := h k (by simp)
    subst hk
    simp only [linkRun, List.foldl_cons, linkStep]
    exact ih l (fun k' hk' => h k' (by simp [hk']))

/-- The pen delta leaves the terminal's hyperlink equal to the wanted cell's hyperlink. -/
theorem linkRun_penDelta (caps : Caps) (pen next : Style) :
    linkRun pen.link (penDelta caps pen next) = next.link := by
  unfold penDelta
  have hs : ∀ (l : String) (a : List Tok), (∀ k ∈ a, ∃ ps, k = Tok.sgr ps) → ∀ b, linkRun l (a ++ b) = linkRun l b := by
    intro l a ha b; rw [linkRun_append, linkRun_sgrs l a ha]
  have h1 : ∀ k ∈ (if pen.fg ≠ next.fg then colorToks caps 30 next.fg else []), ∃ ps, k = Tok.sgr ps := by
    intro k hk; split at hk
    · exact colorToks_cell _ _ _ k hk
    · simp at hk
  have h2 : ∀ k ∈ (if pen.bg ≠ next.bg then colorToks caps 40 next.bg else []), ∃ ps, k = Tok.sgr ps := by
    intro k hk; split at hk
    · exact colorToks_cell _ _ _ k hk
    · simp at hk
  have h3 : ∀ k ∈ (if caps.styledUnderlines = true ∧ pen.ul ≠ next.ul then ulColorToks caps next.ul else []), ∃ ps, k = Tok.sgr ps := by
    intro k hk; split at hk
    · exact ulColorToks_cell _ _ k hk
    · simp at hk
  have h4 := attrToks_cell pen.attr next.attr
  have h5 : ∀ k ∈ (if pen.ulStyle ≠ next.ulStyle then
        (if caps.styledUnderlines = true then [Tok.sgr [[4, next.ulStyle]]]
         else if next.ulStyle = 0 then [Tok.sgr [[24]]] else [Tok.sgr [[4]]]) else []), ∃ ps, k = Tok.sgr ps := by
    intro k hk
    repeat' split at hk
    all_goals simp at hk
    all_goals exact ⟨_, hk⟩
  simp only [List.append_assoc]
  rw [hs _ _ h1, hs _ _ h2, hs _ _ h3, hs _ _ h4, hs _ _ h5]
  split
  · simp [linkRun, linkStep]
  · rename_i hc
    simp only [linkRun, List.foldl_nil]
    by_cases h : pen.link = next.link
    · exact h
    · exact absurd (Or.inl h) hc

theorem penDelta_vocab (caps : Caps) (pen next : Style) : ∀ k ∈ penDelta caps pen next, CellTok k := by
  intro k hk
  unfold penDelta at hk
  simp only [List.mem_append] at hk
  have sg : (∃ ps, k = Tok.sgr ps) → CellTok k := by rintro ⟨ps, rfl⟩; trivial
  rcases hk with ((((h | h) | h) | h) | h) | h
  · split at h
    · exact sg (colorToks_cell _ _ _ k h)
    · simp at h
  · split at h
    · exact sg (colorToks_cell _ _ _ k h)
    · simp at h
  · split at h
    · exact sg (ulColorToks_cell _ _ k h)
    · simp at h
  · exact sg (attrToks_cell _ _ k h)
  · repeat' split at h
    all_goals simp at h
    all_goals (subst h; trivial)
  · split at h
    · simp at h; subst h; trivial
    · simp at h

/-! ### The cell loop: hyperlink invariant and vocabulary -/

/-- What the cell loop guarantees about the tokens it appends to `st.out`. -/
structure LoopPost (l0 : String) (st st' : RSt) : Prop where
  link : linkRun l0 st'.out = st'.pen.link
  ext : ∃ extra, st'.out = st.out ++ extra ∧ ∀ k ∈ extra, CellTok k

theorem LoopPost.refl {l0 : String} {st : RSt} (h : linkRun l0 st.out = st.pen.link) : LoopPost l0 st st :=
  ⟨h, [], by simp, by simp⟩

theorem LoopPost.trans {l0 : String} {a b c : RSt} (h1 : LoopPost l0 a b) (h2 : LoopPost l0 b c) : LoopPost l0 a c := by
  obtain ⟨e1, he1, hv1⟩ := h1.ext
  obtain ⟨e2, he2, hv2⟩ := h2.ext
  refine ⟨h2.link, e1 ++ e2, by rw [he2, he1, List.append_assoc], ?_⟩
  intro k hk
  rcases List.mem_append.mp hk with h | h
  · exact hv1 k h
  · exact hv2 k h

theorem glyphTok_vocab (cw : String → Nat) (caps : Caps) (c : Cell) : CellTok (glyphTok cw caps c) := by
  unfold glyphTok glyphTokW
  repeat' split
  all_goals trivial

theorem glyphTok_link (cw : String → Nat) (caps : Caps) (c : Cell) (l : String) :
    linkStep l (glyphTok cw caps c) = l := by
  unfold glyphTok glyphTokW
  repeat' split
  all_goals rfl

/-- One changed cell: the tokens written keep the hyperlink invariant. -/
theorem cell_post (cw : String → Nat) (caps : Caps) (row col : Nat) (l0 : String) (st : RSt) (n : Cell)
    (h : linkRun l0 st.out = st.pen.link) :
    let pre : List Tok := if st.reposition then
        (if st.pen.link ≠ "" then [Tok.osc8 "" ""] else []) ++ [Tok.cup (row + 1) (col + 1)] else []
    let pen : Style := if st.reposition ∧ st.pen.link ≠ "" then { st.pen with link := "", linkParams := "" } else st.pen
    LoopPost l0 st { reposition := false, pen := n.style, out := st.out ++ (pre ++ penDelta caps pen n.style ++ [glyphTok cw caps n]) } := by
  intro pre pen
  constructor
  · simp only [linkRun_append, h]
    have hpre : linkRun st.pen.link pre = pen.link := by
      simp only [pre, pen]
      by_cases hr : st.reposition = true <;> by_cases hl : st.pen.link = "" <;>
        simp [hr, hl, linkRun, linkStep]
    rw [hpre, linkRun_penDelta]
    simp [linkRun, glyphTok_link]
  · refine ⟨_, rfl, ?_⟩
    intro k hk
    simp only [List.mem_append, List.mem_singleton] at hk
    rcases hk with (hk | hk) | hk
    · simp only [pre] at hk
      split at hk
      · simp only [List.mem_append, List.mem_singleton] at hk
        rcases hk with hk | hk
        · split at hk
          · simp at hk; subst hk; trivial
          · simp at hk
        · subst hk; trivial
      · simp at hk
    · exact penDelta_vocab _ _ _ k hk
    · subst hk; exact glyphTok_vocab _ _ _

theorem renderCells_post (cw : String → Nat) (caps : Caps) (refresh : Bool) (row : Nat) (l0 : String) :
    ∀ (next last : List Cell) (col skip : Nat) (track : Bool) (dirty : Nat) (st : RSt),
      linkRun l0 st.out = st.pen.link →
      LoopPost l0 st (renderCells cw caps refresh row col skip track dirty next last st).2 := by
  intro next
  induction next with
  | nil => intro last col skip track dirty st h; simpa [renderCells] using LoopPost.refl h
  | cons n ns ih =>
    intro last col skip track dirty st h
    cases last with
    | nil => simpa [renderCells] using LoopPost.refl h
    | cons l ls =>
      cases skip with
      | succ k =>
        simp only [renderCells]
        exact ih ls (col + 1) k track _ st h
      | zero =>
        simp only [renderCells]
        split
        · have h' : linkRun l0 ({ st with reposition := true } : RSt).out = ({ st with reposition := true } : RSt).pen.link := h
          have := ih ls (col + 1) 0 false dirty { st with reposition := true } h'
          exact ⟨this.link, this.ext⟩
        · split
          · have h' : linkRun l0 ({ st with reposition := true } : RSt).out = ({ st with reposition := true } : RSt).pen.link := h
            have := ih ls (col + 1) (advance cw n) false dirty { st with reposition := true } h'
            exact ⟨this.link, this.ext⟩
          · have hc := cell_post cw caps row col l0 st n h
            exact LoopPost.trans hc (ih ls (col + 1) (advance cw n) true _ _ hc.link)

theorem renderRows_post (cw : String → Nat) (caps : Caps) (refresh : Bool) (l0 : String) :
    ∀ (next last : Grid) (row : Nat) (st : RSt),
      linkRun l0 st.out = st.pen.link →
      LoopPost l0 st (renderRows cw caps refresh row next last st).2 := by
  intro next
  induction next with
  | nil => intro last row st h; simpa [renderRows] using LoopPost.refl h
  | cons n ns ih =>
    intro last row st h
    cases last with
    | nil => simpa [renderRows] using LoopPost.refl h
    | cons l ls =>
      simp only [renderRows]
      have h' : linkRun l0 ({ st with reposition := true } : RSt).out = ({ st with reposition := true } : RSt).pen.link := h
      have h1 := renderCells_post cw caps refresh row l0 n l 0 0 false 0 { st with reposition := true } h'
      have h1' : LoopPost l0 st (renderCells cw caps refresh row 0 0 false 0 n l { st with reposition := true }).2 :=
        ⟨h1.link, h1.ext⟩
      exact LoopPost.trans h1' (ih ls (row + 1) _ h1.link)

/-! ### Shape of the body written by `render()` -/

/-- `render()` writes: optional pointer shape, cell-loop tokens, optional OSC 8 close, optional showCursor. -/
theorem renderBody_shape (cw : String → Nat) (f : Frame) :
    ∃ (pre extra close show_ : List Tok),
      (renderBody cw f).2 = pre ++ extra ++ close ++ show_ ∧
      (pre = [] ∨ ∃ s, pre = [Tok.pointer s]) ∧
      (∀ k ∈ extra, CellTok k) ∧
      (close = [] ∨ close = [Tok.osc8 "" ""]) ∧
      linkRun "" (pre ++ extra ++ close) = "" ∧
      show_ = (if f.cursorNext.visible ∧ ¬ f.cursorLast.visible then showCursorToks f.cursorNext else []) := by
  unfold renderBody
  generalize hpre : (if f.shapeLast ≠ f.shapeNext then [Tok.pointer f.shapeNext] else []) = pre
  have hpre' : pre = [] ∨ ∃ s, pre = [Tok.pointer s] := by
    subst hpre; split
    · exact Or.inr ⟨_, rfl⟩
    · exact Or.inl rfl
  have h0 : linkRun "" ({ out := pre } : RSt).out = ({ out := pre } : RSt).pen.link := by
    rcases hpre' with h | ⟨s, h⟩ <;> subst h <;> simp [linkRun, linkStep]
  have hp := renderRows_post cw f.caps f.refresh "" f.next f.last 0 { out := pre } h0
  obtain ⟨extra, hext, hvoc⟩ := hp.ext
  generalize hres : renderRows cw f.caps f.refresh 0 f.next f.last { out := pre } = res at hp hext
  obtain ⟨last', st⟩ := res
  simp only at hp hext ⊢
  refine ⟨pre, extra, if st.pen.link ≠ "" then [Tok.osc8 "" ""] else [], _, ?_, hpre', hvoc, ?_, ?_, rfl⟩
  · rw [hres]; simp only; rw [hext]
  · split
    · exact Or.inr rfl
    · exact Or.inl rfl
  · have hl := hp.link
    rw [hext] at hl
    rw [linkRun_append, hl]
    split
    · simp [linkRun, linkStep]
    · rename_i h; simp only [ne_eq, Decidable.not_not] at h; simp [linkRun, h]

/-- Tokens that touch neither the sync depth, nor cursor visibility / shape, nor the pen. -/
def Quiet : Tok → Prop
  | .cup _ _ | .osc8 _ _ | .text _ | .textW _ _ | .pointer _ => True
  | _ => False

theorem syncRun_append (n : Int) (a b : List Tok) : syncRun n (a ++ b) = syncRun (syncRun n a) b := by
  simp [syncRun, List.foldl_append]
theorem visRun_append (v : Bool) (a b : List Tok) : visRun v (a ++ b) = visRun (visRun v a) b := by
  simp [visRun, List.foldl_append]
theorem shapeRun_append (v : Nat) (a b : List Tok) : shapeRun v (a ++ b) = shapeRun (shapeRun v a) b := by
  simp [shapeRun, List.foldl_append]
theorem penRun_append (p : TStyle) (a b : List Tok) : penRun p (a ++ b) = penRun (penRun p a) b := by
  simp [penRun, List.foldl_append]

/-- Tokens of the cell loop, pointer shape and OSC 8 leave sync depth, cursor visibility and cursor shape alone. -/
theorem run_cellToks (toks : List Tok) (h : ∀ k ∈ toks, CellTok k ∨ Quiet k) (n : Int) (v : Bool) (s : Nat) :
    syncRun n toks = n ∧ visRun v toks = v ∧ shapeRun s toks = s := by
  induction toks with
  | nil => simp [syncRun, visRun, shapeRun]
  | cons k ks ih =>
    have hk := h k (by simp)
    have ih' := ih (fun k' hk' => h k' (by simp [hk']))
    simp only [syncRun, visRun, shapeRun, List.foldl_cons] at *
    cases k <;> simp [CellTok, Quiet] at hk <;> simp [syncStep, visStep, shapeStep, ih']

end VaxisModel.Lemmas.RenderToks
