/-
The regenerated bodies of `QueryColor`, `QueryForeground`, `QueryBackground`, executed
(`Model/RequesterBody.lean`), equal the model for every capability state, colour and received payload.
-/
import VaxisModel.Model.RequesterBody
import VaxisModel.Lemmas.QueryBody

namespace VaxisModel.Lemmas.RequesterBody
open VaxisModel.Model.GoBody VaxisModel.Model.Color VaxisModel.Model.InputQuery VaxisModel.Model VaxisModel.Model.QueryBody
open VaxisModel.Model.RequesterBody VaxisModel.Lemmas.QueryBody

def rthen (inp : ReqIn) (r : RR) (t : Ss) : RR := match r with | .norm st => rexecSs inp t st | r => r
theorem rexecSs_cons (inp : ReqIn) (h : S) (t : Ss) (st : RSt) : rexecSs inp (.cons h t) st = rthen inp (rexecS inp h st) t := by
  rw [rexecSs]; cases rexecS inp h st <;> rfl
theorem rexecSs_nil (inp : ReqIn) (st : RSt) : rexecSs inp .nil st = .norm st := by rw [rexecSs]
@[simp] theorem rthen_norm (inp : ReqIn) (st : RSt) (t : Ss) : rthen inp (.norm st) t = rexecSs inp t st := rfl
@[simp] theorem rthen_ret (inp : ReqIn) (st : RSt) (v : QV) (t : Ss) : rthen inp (.ret st v) t = .ret st v := rfl
@[simp] theorem rthen_fail (inp : ReqIn) (w : String) (t : Ss) : rthen inp (.fail w) t = .fail w := rfl
theorem rthen_ite (inp : ReqIn) (p : Prop) [Decidable p] (a b : RR) (t : Ss) :
    rthen inp (if p then a else b) t = if p then rthen inp a t else rthen inp b t := by split <;> rfl

/-- `colorOfReply` is the colour component of `parseReply`. -/
theorem colorOfReply_eq (lit resp : List Nat) :
    colorOfReply lit resp = (match parseReply lit resp with | some c => c | none => 0) := by
  unfold parseReply colorOfReply
  cases matchLit lit resp with
  | none => rfl
  | some rest =>
    simp only []
    rcases Input.splitOn 47 rest with _ | ⟨a, _ | ⟨b, _ | ⟨c, _ | ⟨d, t⟩⟩⟩⟩ <;> try rfl
    cases ha : parseChannel a <;> cases hb : parseChannel b <;> cases hc : parseChannel c <;> simp [ha, hb, hc]

theorem ascii_4 : ascii "4;" = [52, 59] := by decide
theorem ascii_rgb : ascii ";rgb:" = [59, 114, 103, 98, 58] := by decide
theorem ascii_10 : ascii "10;rgb:" = [49, 48, 59, 114, 103, 98, 58] := by decide
theorem ascii_11 : ascii "11;rgb:" = [49, 49, 59, 114, 103, 98, 58] := by decide

macro "r_eval" : tactic => `(tactic| simp [runReq, Ss.ofList, Es.ofList, rexecSs_cons, rexecSs_nil, rthen_ite, rexecS, reqCond, isCanCall,
  reqCallStmt, reqDefine1, reqDefine2, qeval, qevals, qcall, qbin, List.lookup, sprintfV, pr_eq, *])

theorem qf_eq (can : Bool) (ps resp : List Nat) (c : Color) :
    runReq Gen.InputBody.qf ⟨can, ps, resp⟩ c = .ok (queryFgBgModel can "vx.chFg" "osc10" litFg resp) := by
  have hl : litFg = [49, 48, 59] ++ [114, 103, 98, 58] := by simp [litFg, ascii_10]
  unfold queryFgBgModel Gen.InputBody.qf
  cases can
  · r_eval
  · rw [colorOfReply_eq, hl]
    r_eval
    cases parseReply [49, 48, 59, 114, 103, 98, 58] resp <;> simp

theorem qb_eq (can : Bool) (ps resp : List Nat) (c : Color) :
    runReq Gen.InputBody.qb ⟨can, ps, resp⟩ c = .ok (queryFgBgModel can "vx.chBg" "osc11" litBg resp) := by
  have hl : litBg = [49, 49, 59] ++ [114, 103, 98, 58] := by simp [litBg, ascii_11]
  unfold queryFgBgModel Gen.InputBody.qb
  cases can
  · r_eval
  · rw [colorOfReply_eq, hl]
    r_eval
    cases parseReply [49, 49, 59, 114, 103, 98, 58] resp <;> simp

theorem qc_eq (can : Bool) (c : Color) (resp : List Nat) :
    runReq Gen.InputBody.qc ⟨can, params c, resp⟩ c = .ok (queryColorModel can c resp) := by
  unfold queryColorModel queryColorPre Gen.InputBody.qc
  cases can
  · r_eval
  · generalize params c = ps
    rcases ps with _ | ⟨i, _ | ⟨j, _ | ⟨k, _ | ⟨l, t⟩⟩⟩⟩
    · r_eval
    · have hl : litColor i = ([52, 59] ++ (decimal i ++ [59])) ++ [114, 103, 98, 58] := by
        simp [litColor, ascii_4, ascii_rgb]
      simp only [Bool.not_true, Bool.false_eq_true, if_false]
      rw [colorOfReply_eq, hl]
      r_eval
      cases parseReply (52 :: 59 :: (decimal i ++ [59, 114, 103, 98, 58])) resp <;> simp
    · r_eval
    · r_eval
    · r_eval

end VaxisModel.Lemmas.RequesterBody
