/-
Helper lemmas for `Model/Scaler.lean` (C20, round 3): the index formula, stored pixels of the scaled image, the
view the block renderers read, and the dimensions of `resizeImg`.
-/
import VaxisModel.Model.Scaler
import VaxisModel.Lemmas.ImageFit
import VaxisModel.Lemmas.ImageTerm
import VaxisModel.Lemmas.ScalerBytes

namespace VaxisModel.Lemmas.Scaler
open VaxisModel.Model.Scaler VaxisModel.Model.Blocks VaxisModel.Model.ImageFit VaxisModel.Spec.Images
open VaxisModel.Gen.ImageConsts

/-! ### The index formula -/

theorem nnIndex_lt (d s dn : Nat) (hd : d < dn) (hs : 0 < s) : nnIndex d s dn < s := by
  unfold nnIndex
  rw [Nat.div_lt_iff_lt_mul (by omega)]
  have h : (2 * d + 1) * s < (2 * dn) * s := Nat.mul_lt_mul_of_pos_right (by omega) hs
  rw [Nat.mul_comm s]
  exact h

/-- `2·dn·q ≤ (2d+1)·s < 2·dn·(q+1)` for `q = nnIndex d s dn`. -/
theorem nnIndex_bracket (d s dn : Nat) (hdn : 0 < dn) :
    2 * (nnIndex d s dn * dn) ≤ 2 * (d * s) + s ∧ 2 * (d * s) + s < 2 * (nnIndex d s dn * dn) + 2 * dn := by
  have h1 := Nat.div_mul_le_self ((2 * d + 1) * s) (2 * dn)
  have h2 := Nat.lt_mul_div_succ ((2 * d + 1) * s) (show 0 < 2 * dn by omega)
  have e0 : (2 * d + 1) * s = 2 * (d * s) + s := by rw [Nat.add_mul, Nat.mul_assoc, Nat.one_mul]
  have e1 : (2 * d + 1) * s / (2 * dn) * (2 * dn) = 2 * ((2 * d + 1) * s / (2 * dn) * dn) := by
    rw [Nat.mul_left_comm]
  have e2 : 2 * dn * ((2 * d + 1) * s / (2 * dn) + 1) = 2 * ((2 * d + 1) * s / (2 * dn) * dn) + 2 * dn := by
    rw [Nat.mul_add, Nat.mul_one, Nat.mul_assoc, Nat.mul_comm dn]
  unfold nnIndex
  rw [e1] at h1
  rw [e2] at h2
  omega

/-- The source pixel chosen for destination pixel `d` overlaps the part of the source that `d` covers:
    `[q, q+1) ∩ (d·s/dn, (d+1)·s/dn) ≠ ∅`, cross-multiplied. -/
theorem nnIndex_overlaps (d s dn : Nat) (hdn : 0 < dn) :
    nnIndex d s dn * dn < (d + 1) * s + (if s = 0 then 1 else 0) ∧ d * s < (nnIndex d s dn + 1) * dn := by
  obtain ⟨h1, h2⟩ := nnIndex_bracket d s dn hdn
  rw [Nat.add_mul, Nat.add_mul, Nat.one_mul, Nat.one_mul]
  split <;> omega

theorem nnIndex_same (d s : Nat) (hs : 0 < s) : nnIndex d s s = d := by
  unfold nnIndex
  have e : (2 * d + 1) * s = d * (2 * s) + s := by
    rw [Nat.add_mul, Nat.one_mul, Nat.mul_assoc, Nat.mul_left_comm]
  rw [e, Nat.mul_comm d, Nat.mul_add_div (by omega), Nat.div_eq_of_lt (by omega)]
  rfl

theorem nnIndex_mono (d d' s dn : Nat) (h : d ≤ d') : nnIndex d s dn ≤ nnIndex d' s dn := by
  unfold nnIndex
  exact Nat.div_le_div_right (Nat.mul_le_mul_right _ (by omega))

/-! ### Stored pixels -/

theorem storeOver_zero (c : C16) : storeOver ⟨0, 0, 0, 0⟩ c = storeSrc c := by
  simp [storeOver, storeSrc]

theorem byte_rt2 (r : Nat) (hr : r < 256) : r * 257 / 256 % 256 = r := by
  have h2 : r * 257 / 256 = r := by omega
  rw [h2]; exact Nat.mod_eq_of_lt hr

theorem byte_rt1 (r : Nat) (hr : r < 256) : r * 65535 / 255 / 256 % 256 = r := by
  have h1 : r * 65535 / 255 = r * 257 := by omega
  rw [h1]; exact byte_rt2 r hr

/-- A stored opaque pixel (`a = 0xff`, channels are bytes) goes through either path unchanged. -/
theorem roundtrip_opaque (k : Kind) (p : P8) (ha : p.a = 255) (hr : p.r < 256) (hg : p.g < 256) (hb : p.b < 256) :
    storeSrc (load k p) = p := by
  obtain ⟨r, g, b, a⟩ := p
  simp only at ha hr hg hb
  subst ha
  cases k
  · show (⟨r * (255 * 257) / 255 / 256 % 256, g * (255 * 257) / 255 / 256 % 256, b * (255 * 257) / 255 / 256 % 256,
        255 * 257 / 256 % 256⟩ : P8) = _
    rw [show 255 * 257 = 65535 from rfl, byte_rt1 _ hr, byte_rt1 _ hg, byte_rt1 _ hb]
  · show (⟨r * 257 / 256 % 256, g * 257 / 256 % 256, b * 257 / 256 % 256, 255 * 257 / 256 % 256⟩ : P8) = _
    rw [byte_rt2 _ hr, byte_rt2 _ hg, byte_rt2 _ hb]

theorem conv_zero (k : Kind) : conv k ⟨0, 0, 0, 0⟩ = ⟨0, 0, 0, 0⟩ := by
  cases k <;> rfl

theorem conv_opaque (k : Kind) (p : P8) (ha : p.a = 255) : conv k p = .ofQuad (nrgbaRGBA p.r p.g p.b 255) := by
  obtain ⟨r, g, b, a⟩ := p
  simp only at ha
  subst ha
  cases k
  · rfl
  · show (⟨r * 257, g * 257, b * 257, 255 * 257⟩ : C16) = ⟨r * 257 * 255 / 255, g * 257 * 255 / 255, b * 257 * 255 / 255, 255 * 257⟩
    rw [Nat.mul_div_cancel _ (by decide), Nat.mul_div_cancel _ (by decide), Nat.mul_div_cancel _ (by decide)]

theorem getD_map_zero (a : Array P8) (f : P8 → C16) (i : Nat) (hf : f ⟨0, 0, 0, 0⟩ = ⟨0, 0, 0, 0⟩) :
    (a.map f).getD i ⟨0, 0, 0, 0⟩ = f (a.getD i ⟨0, 0, 0, 0⟩) := by
  by_cases h : i < a.size
  · simp [Array.getD, h]
  · simp [Array.getD, h, hf]

/-- What the block renderers read at an in-bounds position: the conversion of the stored pixel. -/
theorem view_at (img : Img8) (x y : Nat) (hx : x < img.w) (hy : y < img.h) :
    img.view.at x y = conv img.kind (img.pix x y) := by
  have hb : x < img.view.w ∧ y < img.view.h := ⟨hx, hy⟩
  unfold Img.at
  rw [if_pos hb]
  exact getD_map_zero img.px (conv img.kind) _ (conv_zero img.kind)

theorem view_w (img : Img8) : img.view.w = img.w := rfl
theorem view_h (img : Img8) : img.view.h = img.h := rfl

theorem scale_pix (over : Bool) (src : Img8) (dw dh x y : Nat) (hx : x < dw) (hy : y < dh) :
    (scale over src dw dh).pix x y = scaledPx over src dw dh x y := by
  have hi : y * dw + x < dh * dw := by
    calc y * dw + x < y * dw + dw := by omega
      _ = (y + 1) * dw := by rw [Nat.add_mul, Nat.one_mul]
      _ ≤ dh * dw := Nat.mul_le_mul_right _ hy
  have hm : (y * dw + x) % dw = x := by
    rw [Nat.add_comm, Nat.add_mul_mod_self_right, Nat.mod_eq_of_lt hx]
  have hq : (y * dw + x) / dw = y := VaxisModel.Lemmas.ImageTerm.div_of_index dw x y hx
  simp [Img8.pix, scale, Array.getD, hi, hm, hq]

theorem scaledBack_eq (c a : Nat) : scaledBack c a = VaxisModel.Lemmas.ScalerBytes.scaledBackArith c a := by
  unfold scaledBack VaxisModel.Lemmas.ScalerBytes.scaledBackArith
  simp only [load, storeSrc, conv, rgbaRGBA, C16.ofQuad, toRGB, u8, u32]
  by_cases h : a * 257 / 256 % 256 * 257 = 0 <;> simp [h]

/-! ### The alpha byte goes through unchanged -/

theorem alpha_byte (a : Nat) (ha : a < 256) : a * 257 / 256 % 256 = a := by
  have e : a * 257 / 256 = a := by omega
  rw [e]; exact Nat.mod_eq_of_lt ha

theorem toRGB_alpha (c : C16) (a : Nat) (h : c.a = a * 257) (ha : a < 256) : (toRGB c).a = a := by
  by_cases h0 : a = 0
  · subst h0
    rw [VaxisModel.Lemmas.ImageFit.toRGB_of_zero c (by rw [h])]
  · rw [VaxisModel.Lemmas.ImageFit.toRGB_of_ne c (by rw [h]; omega)]
    show c.a / 256 % 256 = a
    rw [h]; exact alpha_byte a ha

theorem conv_alpha (k : Kind) (p : P8) : (conv k p).a = p.a * 257 := by
  cases k <;> rfl

theorem load_alpha (k : Kind) (p : P8) : (load k p).a = p.a * 257 := by
  cases k <;> rfl

theorem scaledPx_alpha (over : Bool) (src : Img8) (dw dh dx dy : Nat)
    (ha : (src.pix (nnIndex dx src.w dw) (nnIndex dy src.h dh)).a < 256) :
    (scaledPx over src dw dh dx dy).a = (src.pix (nnIndex dx src.w dw) (nnIndex dy src.h dh)).a := by
  have key : (storeSrc (load src.kind (src.pix (nnIndex dx src.w dw) (nnIndex dy src.h dh)))).a =
      (src.pix (nnIndex dx src.w dw) (nnIndex dy src.h dh)).a := by
    show (load src.kind _).a / 256 % 256 = _
    rw [load_alpha]; exact alpha_byte _ ha
  cases over
  · simp only [scaledPx, Bool.false_eq_true, if_false]; exact key
  · simp only [scaledPx, if_true, storeOver_zero]; exact key

/-! ### `resizeImg`: either the image itself or the scaling to the size `resizeDims` computes -/

theorem resizeImg_cases (cfg : Cfg) (F : FloatOps) (src : Img8) (w h cellW cellH : Nat) (img : Img8)
    (hr : resizeImgWith cfg F src w h cellW cellH = .ok img) :
    resizeDimsWith cfg F src.w src.h w h cellW cellH = .ok (img.w, img.h) ∧
    (img = src ∨ img = scale (!src.opaque) src img.w img.h) := by
  unfold resizeImgWith at hr
  unfold resizeDimsWith
  cases h1 : cells cfg.colsUp src.w cellW with
  | error e => rw [h1] at hr; cases hr
  | ok columns =>
    cases h2 : cells cfg.linesUp src.h cellH with
    | error e => rw [h1, h2] at hr; cases hr
    | ok lines =>
      rw [h1, h2] at hr
      simp only [bind, Except.bind, pure, Except.pure] at hr ⊢
      by_cases hf : evalFit cfg.fit columns w lines h = true
      · rw [if_pos hf] at hr ⊢
        cases hr
        exact ⟨rfl, Or.inl rfl⟩
      · rw [if_neg hf] at hr ⊢
        cases hr
        exact ⟨rfl, Or.inr rfl⟩

end VaxisModel.Lemmas.Scaler
