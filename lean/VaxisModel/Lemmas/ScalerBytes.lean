/-
C20, round 3: the kernel evaluation behind `Props.C20Pixels.translucent_scaled` — all 255·256 (alpha, channel) pairs
through the scaler's 8-bit premultiplied storage and back, as plain arithmetic.  Imports nothing, so it is evaluated
once (≈ 45 s) and never again; `Lemmas.Scaler.scaledBack_eq` ties the arithmetic to the model.
-/
namespace VaxisModel.Lemmas.ScalerBytes

/-- `toRGB(dst.At(x, y))` for a source pixel `color.NRGBA{c, c, c, a}` that went through
    `scale_RGBA_NRGBA_{Src,Over}` onto a fresh `image.RGBA`: premultiply with 16-bit alpha, keep the high byte,
    widen again (`RGBA()`), divide the alpha out: (channel, alpha). -/
def scaledBackArith (c a : Nat) : Nat × Nat :=
  let p := c * (a * 257) / 255 / 256 % 256
  let pa := a * 257 / 256 % 256
  if pa * 257 = 0 then (p * 257 % 256, 0)
  else (p * 257 * 255 % 4294967296 / (pa * 257) % 256, pa * 257 / 256 % 256)

def okPair (c a : Nat) : Bool :=
  match scaledBackArith c a with
  | (ch, al) => al == a && ch ≤ c && (c - ch) * a ≤ 255 + a

def translucentScaledAll : Bool := (List.range 256).all fun a => (List.range 256).all fun c => a == 0 || okPair c a

theorem translucentScaledAll_true : translucentScaledAll = true := by decide +kernel

end VaxisModel.Lemmas.ScalerBytes
