/-
Lemmas for C20 round 4: the pipeline for a source of any concrete type (`Scaler.ImgG`, `resizeImgG`, `scaleG`): what
`resizeImage` returns is the source itself or its generic nearest-neighbour scaling, and what the block renderers
read from it at an in-bounds position.
-/
import VaxisModel.Lemmas.Scaler

namespace VaxisModel.Lemmas.ScalerGeneric
open VaxisModel.Model.Blocks VaxisModel.Model.Scaler VaxisModel.Model.ImageFit VaxisModel.Spec.Images
open VaxisModel.Gen.ImageConsts VaxisModel.Lemmas.Scaler

/-- The source as the renderers read it when it is not scaled. -/
def ImgG.asImg (src : ImgG) : Img := ⟨src.w, src.h, src.px⟩

theorem asImg_at (src : ImgG) (x y : Nat) (hx : x < src.w) (hy : y < src.h) : (ImgG.asImg src).at x y = src.pix x y := by
  have hb : x < (ImgG.asImg src).w ∧ y < (ImgG.asImg src).h := ⟨hx, hy⟩
  unfold Img.at
  rw [if_pos hb]
  rfl

theorem scaleG_pix (over : Bool) (src : ImgG) (dw dh x y : Nat) (hx : x < dw) (hy : y < dh) :
    (scaleG over src dw dh).pix x y = scaledPxGeneric over src.pix src.w src.h dw dh x y := by
  have hi : y * dw + x < dh * dw := by
    calc y * dw + x < y * dw + dw := by omega
      _ = (y + 1) * dw := by rw [Nat.add_mul, Nat.one_mul]
      _ ≤ dh * dw := Nat.mul_le_mul_right _ hy
  have hm : (y * dw + x) % dw = x := by
    rw [Nat.add_comm, Nat.add_mul_mod_self_right, Nat.mod_eq_of_lt hx]
  have hq : (y * dw + x) / dw = y := VaxisModel.Lemmas.ImageTerm.div_of_index dw x y hx
  simp [Img8.pix, scaleG, Array.getD, hi, hm, hq]

/-- What the renderers read from the scaled image: the stored bytes (either operator stores the same on the fresh
    destination) widened again by `color.RGBA.RGBA()`. -/
theorem scaleG_view_at (over : Bool) (src : ImgG) (dw dh x y : Nat) (hx : x < dw) (hy : y < dh) :
    (scaleG over src dw dh).view.at x y = conv .rgba (storeSrc (src.pix (nnIndex x src.w dw) (nnIndex y src.h dh))) := by
  have h1 : x < (scaleG over src dw dh).w := hx
  have h2 : y < (scaleG over src dw dh).h := hy
  rw [view_at _ x y h1 h2, scaleG_pix over src dw dh x y hx hy]
  have hk : (scaleG over src dw dh).kind = .rgba := rfl
  rw [hk]
  unfold scaledPxGeneric
  cases over
  · rfl
  · simp only [if_true, storeOver_zero]

theorem resizeImgG_cases (cfg : Cfg) (F : FloatOps) (src : ImgG) (o : Bool) (w h cellW cellH : Nat) (v : Img)
    (hr : resizeImgGWith cfg F src o w h cellW cellH = .ok v) :
    resizeDimsWith cfg F src.w src.h w h cellW cellH = .ok (v.w, v.h) ∧
    (v = ImgG.asImg src ∨ v = (scaleG (!o) src v.w v.h).view) := by
  unfold resizeImgGWith at hr
  unfold resizeDimsWith
  cases h1 : cells cfg.colsUp src.w cellW with
  | error e => rw [h1] at hr; cases hr
  | ok columns =>
    cases h2 : cells cfg.linesUp src.h cellH with
    | error e => rw [h1, h2] at hr; cases hr
    | ok lines =>
      rw [h1, h2] at hr
      simp only [bind, Except.bind, pure, Except.pure] at hr ⊢
      by_cases hf : evalFit cfg.fit columns w lines h = true
      · rw [if_pos hf] at hr ⊢
        cases hr
        exact ⟨rfl, Or.inl rfl⟩
      · rw [if_neg hf] at hr ⊢
        cases hr
        exact ⟨rfl, Or.inr rfl⟩

end VaxisModel.Lemmas.ScalerGeneric
