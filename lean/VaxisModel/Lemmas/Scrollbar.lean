import VaxisModel.Model.Scrollbar

/-! Helper lemmas for `Props/C19.lean` (widgets/scrollbar). -/
namespace VaxisModel.Lemmas.Scrollbar
open VaxisModel.Model.Scrollbar

/-- For a real scroll position (`1 ≤ view < total`, `0 ≤ top ≤ total − view`) in a window of
    height `h ≥ 1` the bar is drawn, is at least one row long and lies within the track. -/
theorem bar_in_track (total view top h : Int)
    (hv : 1 ≤ view) (hvt : view < total) (ht0 : 0 ≤ top) (ht : top ≤ total - view) (hh : 1 ≤ h) :
    ∃ b, bar total view top h = some b ∧ 0 ≤ b.top ∧ 1 ≤ b.len ∧ b.top + b.len ≤ h := by
  have htot : 0 < total := by omega
  have hne : total ≠ 0 := by omega
  have e1 : Int.tdiv (view * h) total = view * h / total :=
    Int.tdiv_eq_ediv_of_nonneg (Int.mul_nonneg (by omega) (by omega))
  have e2 : Int.tdiv (top * h) total = top * h / total :=
    Int.tdiv_eq_ediv_of_nonneg (Int.mul_nonneg ht0 (by omega))
  have x0 : 0 ≤ view * h / total := Int.ediv_nonneg (Int.mul_nonneg (by omega) (by omega)) (by omega)
  have y0 : 0 ≤ top * h / total := Int.ediv_nonneg (Int.mul_nonneg ht0 (by omega)) (by omega)
  have xm : view * h / total * total ≤ view * h := Int.ediv_mul_le _ hne
  have ym : top * h / total * total ≤ top * h := Int.ediv_mul_le _ hne
  -- (x + y) * total ≤ (view + top) * h ≤ total * h
  have hsum : (view + top) * h ≤ total * h := Int.mul_le_mul_of_nonneg_right (by omega) (by omega)
  have hxy : view * h / total + top * h / total ≤ h := by
    apply Int.le_of_mul_le_mul_right (a := total) _ htot
    have : (view * h / total + top * h / total) * total
        = view * h / total * total + top * h / total * total := Int.add_mul _ _ _
    have e : (view + top) * h = view * h + top * h := Int.add_mul _ _ _
    have e' : h * total = total * h := Int.mul_comm _ _
    omega
  -- y < h because top ≤ total − 1
  have hy : top * h / total < h := by
    apply Int.lt_of_mul_lt_mul_right (a := total) _ (by omega)
    have h1 : top * h ≤ (total - 1) * h := Int.mul_le_mul_of_nonneg_right (by omega) (by omega)
    have e : (total - 1) * h = total * h - h := by rw [Int.sub_mul]; omega
    have e' : h * total = total * h := Int.mul_comm _ _
    omega
  unfold bar
  have c1 : ¬ total < 1 := by omega
  have c2 : ¬ view ≥ total := by omega
  simp only [c1, c2, if_false, e1, e2]
  by_cases hb : view * h / total < 1
  · exact ⟨_, rfl, y0, by simp [hb], by simp only [hb, if_true]; omega⟩
  · exact ⟨_, rfl, y0, by simp only [hb, if_false]; omega, by simp only [hb, if_false]; omega⟩

end VaxisModel.Lemmas.Scrollbar
