/-
Helper lemmas for C18 (SGR producers / consumers).
-/
import VaxisModel.Model.Sgr

set_option linter.unusedSimpArgs false

namespace VaxisModel.Lemmas.Sgr
open VaxisModel VaxisModel.Model.Sgr VaxisModel.Gen VaxisModel.Spec
open VaxisModel.Model.Color (Color params indexColor rgbColor asIndex isIndexed isRGB indexedBit rgbBit chanR chanG chanB)

/-- Interpreting a list of SGR sequences, one after the other, on a terminal pen. -/
def apply (t : TStyle) (l : List Seq) : TStyle := l.foldl Spec.sgr t

@[simp] theorem apply_nil (t : TStyle) : apply t [] = t := rfl
@[simp] theorem apply_cons (t : TStyle) (q : Seq) (l : List Seq) : apply t (q :: l) = apply (Spec.sgr t q) l := rfl
theorem apply_append (t : TStyle) (l₁ l₂ : List Seq) : apply t (l₁ ++ l₂) = apply (apply t l₁) l₂ := by
  simp [apply, List.foldl_append]

/-! ## The format strings, instantiated (re-checked against the regenerated templates) -/

theorem boldSetQ_eq : boldSetQ = [[1]] := by decide
theorem dimSetQ_eq : dimSetQ = [[2]] := by decide
theorem italicSetQ_eq : italicSetQ = [[3]] := by decide
theorem blinkSetQ_eq : blinkSetQ = [[5]] := by decide
theorem reverseSetQ_eq : reverseSetQ = [[7]] := by decide
theorem hiddenSetQ_eq : hiddenSetQ = [[8]] := by decide
theorem strikethroughSetQ_eq : strikethroughSetQ = [[9]] := by decide
theorem boldDimResetQ_eq : boldDimResetQ = [[22]] := by decide
theorem italicResetQ_eq : italicResetQ = [[23]] := by decide
theorem blinkResetQ_eq : blinkResetQ = [[25]] := by decide
theorem reverseResetQ_eq : reverseResetQ = [[27]] := by decide
theorem hiddenResetQ_eq : hiddenResetQ = [[28]] := by decide
theorem strikethroughResetQ_eq : strikethroughResetQ = [[29]] := by decide
theorem underlineSetQ_eq : underlineSetQ = [[4]] := by decide
theorem underlineResetQ_eq : underlineResetQ = [[24]] := by decide
theorem sgrResetQ_eq : sgrResetQ = [] := by decide

theorem fmt_fgReset : fmt Sequences.fgReset_t [] = [[39]] := by decide
theorem fmt_bgReset : fmt Sequences.bgReset_t [] = [[49]] := by decide
theorem fmt_ulColorReset : fmt Sequences.ulColorReset_t [] = [[59]] := by decide
theorem fmt_fgSet : ∀ i, i < 8 → fmt Sequences.fgSet_t [i] = [[30 + i]] := by decide
theorem fmt_fgBrightSet : ∀ i, i < 8 → fmt Sequences.fgBrightSet_t [i] = [[90 + i]] := by decide
theorem fmt_bgSet : ∀ i, i < 8 → fmt Sequences.bgSet_t [i] = [[40 + i]] := by decide
theorem fmt_bgBrightSet : ∀ i, i < 8 → fmt Sequences.bgBrightSet_t [i] = [[100 + i]] := by decide

theorem fmt_fgIndexSet (n : Nat) : fmt Sequences.fgIndexSet_t [n] = [[38, 5, n]] := by
  simp [fmt, instSeq, instParam, instSub, Sequences.fgIndexSet_t]
theorem fmt_bgIndexSet (n : Nat) : fmt Sequences.bgIndexSet_t [n] = [[48, 5, n]] := by
  simp [fmt, instSeq, instParam, instSub, Sequences.bgIndexSet_t]
theorem fmt_ssFgIndexSet (legacy : Bool) (n : Nat) :
    fmt (ssT legacy SgrCases.ssEncodeFgIndexMutable SgrCases.ssEncodeFgIndex_t) [n] = [[38, 5, n]] := by
  simp [ssT, q, SgrCases.ssEncodeFgIndexMutable, SgrCases.ssEncodeFgIndex_t, fmt, instSeq, instParam, instSub, Sequences.ssFgIndexSet_t]
theorem fmt_ssBgIndexSet (legacy : Bool) (n : Nat) :
    fmt (ssT legacy SgrCases.ssEncodeBgIndexMutable SgrCases.ssEncodeBgIndex_t) [n] = [[48, 5, n]] := by
  simp [ssT, q, SgrCases.ssEncodeBgIndexMutable, SgrCases.ssEncodeBgIndex_t, fmt, instSeq, instParam, instSub, Sequences.ssBgIndexSet_t]
theorem fmt_ulIndexSet (n : Nat) : fmt Sequences.ulIndexSet_t [n] = [[58, 5, n]] := by
  simp [fmt, instSeq, instParam, instSub, Sequences.ulIndexSet_t]
theorem fmt_fgRGBSet (r g b : Nat) : fmt Sequences.fgRGBSet_t [r, g, b] = [[38, 2, r, g, b]] := by
  simp [fmt, instSeq, instParam, instSub, Sequences.fgRGBSet_t]
theorem fmt_bgRGBSet (r g b : Nat) : fmt Sequences.bgRGBSet_t [r, g, b] = [[48, 2, r, g, b]] := by
  simp [fmt, instSeq, instParam, instSub, Sequences.bgRGBSet_t]
theorem fmt_ssFgRGBSet (legacy : Bool) (r g b : Nat) :
    fmt (ssT legacy SgrCases.ssEncodeFgRGBMutable SgrCases.ssEncodeFgRGB_t) [r, g, b] = [[38, 2, r, g, b]] := by
  simp [ssT, q, SgrCases.ssEncodeFgRGBMutable, SgrCases.ssEncodeFgRGB_t, fmt, instSeq, instParam, instSub, Sequences.ssFgRGBSet_t]
theorem fmt_ssBgRGBSet (legacy : Bool) (r g b : Nat) :
    fmt (ssT legacy SgrCases.ssEncodeBgRGBMutable SgrCases.ssEncodeBgRGB_t) [r, g, b] = [[48, 2, r, g, b]] := by
  simp [ssT, q, SgrCases.ssEncodeBgRGBMutable, SgrCases.ssEncodeBgRGB_t, fmt, instSeq, instParam, instSub, Sequences.ssBgRGBSet_t]
theorem fmt_ulRGBSet (r g b : Nat) : fmt Sequences.ulRGBSet_t [r, g, b] = [[58, 2, r, g, b]] := by
  simp [fmt, instSeq, instParam, instSub, Sequences.ulRGBSet_t]
theorem fmt_ulStyleSet (n : Nat) : fmt Sequences.ulStyleSet_t [n] = [[4, n]] := by
  simp [fmt, instSeq, instParam, instSub, Sequences.ulStyleSet_t]
theorem fmt_fgIndexSet_legacy (n : Nat) : fmt (legacyT Sequences.fgIndexSet_t) [n] = [[38], [5], [n]] := by
  simp [fmt, instSeq, instParam, instSub, Sequences.fgIndexSet_t, legacyT]
theorem fmt_bgIndexSet_legacy (n : Nat) : fmt (legacyT Sequences.bgIndexSet_t) [n] = [[48], [5], [n]] := by
  simp [fmt, instSeq, instParam, instSub, Sequences.bgIndexSet_t, legacyT]
theorem fmt_fgRGBSet_legacy (r g b : Nat) : fmt (legacyT Sequences.fgRGBSet_t) [r, g, b] = [[38], [2], [r], [g], [b]] := by
  simp [fmt, instSeq, instParam, instSub, Sequences.fgRGBSet_t, legacyT]
theorem fmt_bgRGBSet_legacy (r g b : Nat) : fmt (legacyT Sequences.bgRGBSet_t) [r, g, b] = [[48], [2], [r], [g], [b]] := by
  simp [fmt, instSeq, instParam, instSub, Sequences.bgRGBSet_t, legacyT]

/-! ## Bits -/

theorem and_pow_eq_zero (m i : Nat) : (m &&& 2 ^ i = 0) ↔ m.testBit i = false := by
  constructor
  · intro h
    have : (m &&& 2 ^ i).testBit i = false := by rw [h]; simp
    simpa [Nat.testBit_and, Nat.testBit_two_pow_self] using this
  · intro h
    apply Nat.eq_of_testBit_eq
    intro j
    simp only [Nat.testBit_and, Nat.testBit_two_pow, Nat.zero_testBit]
    by_cases hij : i = j
    · subst hij; simp [h]
    · simp [hij]

theorem has_pow (m i : Nat) : has m (2 ^ i) = m.testBit i := by
  unfold has
  cases h : m.testBit i
  · have := (and_pow_eq_zero m i).2 h
    simp [this]
  · have : ¬ (m &&& 2 ^ i = 0) := fun h0 => by
      have := (and_pow_eq_zero m i).1 h0
      simp [h] at this
    simp [this]

theorem attrBold_eq : SgrCases.AttrBold = 2 ^ 1 := by decide
theorem attrDim_eq : SgrCases.AttrDim = 2 ^ 2 := by decide
theorem attrItalic_eq : SgrCases.AttrItalic = 2 ^ 3 := by decide
theorem attrBlink_eq : SgrCases.AttrBlink = 2 ^ 4 := by decide
theorem attrReverse_eq : SgrCases.AttrReverse = 2 ^ 5 := by decide
theorem attrInvisible_eq : SgrCases.AttrInvisible = 2 ^ 6 := by decide
theorem attrStrikethrough_eq : SgrCases.AttrStrikethrough = 2 ^ 7 := by decide

theorem has_bold (m : Nat) : has m SgrCases.AttrBold = m.testBit 1 := by rw [attrBold_eq, has_pow]
theorem has_dim (m : Nat) : has m SgrCases.AttrDim = m.testBit 2 := by rw [attrDim_eq, has_pow]
theorem has_italic (m : Nat) : has m SgrCases.AttrItalic = m.testBit 3 := by rw [attrItalic_eq, has_pow]
theorem has_blink (m : Nat) : has m SgrCases.AttrBlink = m.testBit 4 := by rw [attrBlink_eq, has_pow]
theorem has_reverse (m : Nat) : has m SgrCases.AttrReverse = m.testBit 5 := by rw [attrReverse_eq, has_pow]
theorem has_invisible (m : Nat) : has m SgrCases.AttrInvisible = m.testBit 6 := by rw [attrInvisible_eq, has_pow]
theorem has_strike (m : Nat) : has m SgrCases.AttrStrikethrough = m.testBit 7 := by rw [attrStrikethrough_eq, has_pow]

/-- The attribute part of a terminal pen replaced by the meaning of mask `a`. -/
def withAttrs (a : Nat) (t : TStyle) : TStyle :=
  { t with bold := has a SgrCases.AttrBold, dim := has a SgrCases.AttrDim, italic := has a SgrCases.AttrItalic,
           blink := has a SgrCases.AttrBlink, reverse := has a SgrCases.AttrReverse,
           hidden := has a SgrCases.AttrInvisible, strike := has a SgrCases.AttrStrikethrough }

/-! ## What the attribute codes do, as unconditional updates -/

section steps
variable (t : TStyle) (c d : Bool) (r : List Seq)

theorem step_1 : apply t (opt c [[1]] ++ r) = apply { t with bold := c || t.bold } r := by cases c <;> rfl
theorem step_2 : apply t (opt c [[2]] ++ r) = apply { t with dim := c || t.dim } r := by cases c <;> rfl
theorem step_3 : apply t (opt c [[3]] ++ r) = apply { t with italic := c || t.italic } r := by cases c <;> rfl
theorem step_5 : apply t (opt c [[5]] ++ r) = apply { t with blink := c || t.blink } r := by cases c <;> rfl
theorem step_7 : apply t (opt c [[7]] ++ r) = apply { t with reverse := c || t.reverse } r := by cases c <;> rfl
theorem step_8 : apply t (opt c [[8]] ++ r) = apply { t with hidden := c || t.hidden } r := by cases c <;> rfl
theorem step_9 : apply t (opt c [[9]] ++ r) = apply { t with strike := c || t.strike } r := by cases c <;> rfl
theorem step_22_2 : apply t ((if c then [[22]] :: opt d [[2]] else []) ++ r)
    = apply { t with bold := !c && t.bold, dim := if c then d else t.dim } r := by cases c <;> cases d <;> rfl
theorem step_22_1 : apply t ((if c then [[22]] :: opt d [[1]] else []) ++ r)
    = apply { t with bold := if c then d else t.bold, dim := !c && t.dim } r := by cases c <;> cases d <;> rfl
theorem step_23 : apply t (opt c [[23]] ++ r) = apply { t with italic := !c && t.italic } r := by cases c <;> rfl
theorem step_25 : apply t (opt c [[25]] ++ r) = apply { t with blink := !c && t.blink } r := by cases c <;> rfl
theorem step_27 : apply t (opt c [[27]] ++ r) = apply { t with reverse := !c && t.reverse } r := by cases c <;> rfl
theorem step_28 : apply t (opt c [[28]] ++ r) = apply { t with hidden := !c && t.hidden } r := by cases c <;> rfl
theorem step_29 : apply t (opt c [[29]]) = { t with strike := !c && t.strike } := by cases c <;> rfl
end steps

/-! ## attr_delta -/

theorem attrBody_correct (a b : Nat) (t : TStyle) : apply (withAttrs a t) (attrBody a b) = withAttrs b t := by
  unfold attrBody withAttrs
  simp only [boldSetQ_eq, dimSetQ_eq, italicSetQ_eq, blinkSetQ_eq, reverseSetQ_eq, hiddenSetQ_eq,
    strikethroughSetQ_eq, boldDimResetQ_eq, italicResetQ_eq, blinkResetQ_eq, reverseResetQ_eq, hiddenResetQ_eq,
    strikethroughResetQ_eq, has_bold, has_dim, has_italic, has_blink, has_reverse, has_invisible, has_strike,
    Nat.testBit_and, Nat.testBit_xor]
  generalize a.testBit 1 = a1; generalize a.testBit 2 = a2; generalize a.testBit 3 = a3
  generalize a.testBit 4 = a4; generalize a.testBit 5 = a5; generalize a.testBit 6 = a6
  generalize a.testBit 7 = a7
  generalize b.testBit 1 = b1; generalize b.testBit 2 = b2; generalize b.testBit 3 = b3
  generalize b.testBit 4 = b4; generalize b.testBit 5 = b5; generalize b.testBit 6 = b6
  generalize b.testBit 7 = b7
  simp only [step_1, step_2, step_3, step_5, step_7, step_8, step_9, step_22_2, step_22_1, step_23, step_25,
    step_27, step_28, step_29]
  obtain ⟨fg, bg, ul, us, _, _, _, _, _, _, _⟩ := t
  simp only [TStyle.mk.injEq, true_and]
  refine ⟨?_, ?_, ?_, ?_, ?_, ?_, ?_⟩
  · revert a1 a2 b1 b2; decide
  · revert a1 a2 b1 b2; decide
  · revert a3 b3; decide
  · revert a4 b4; decide
  · revert a5 b5; decide
  · revert a6 b6; decide
  · revert a7 b7; decide

theorem attrDelta_correct (a b : Nat) (t : TStyle) : apply (withAttrs a t) (attrDelta a b) = withAttrs b t := by
  unfold attrDelta
  by_cases h : a = b
  · subst h; simp
  · simp [h, attrBody_correct]

/-! ## Totality of the consumers -/

theorem idx_ok {α : Type} (l : List α) (i : Nat) (h : i < l.length) : idx l i = .ok l[i] := by
  unfold idx; simp [List.getElem?_eq_getElem h]

theorem idx2_ok (l : List Param) (i : Nat) (h : i < l.length) (hne : ∀ p ∈ l, p ≠ []) :
    ∃ v, idx2 l i 0 = .ok v := by
  unfold idx2
  rw [idx_ok l i h]
  have : l[i] ≠ [] := hne _ (List.getElem_mem h)
  have hl : 0 < l[i].length := List.length_pos_iff.mpr this
  exact ⟨_, idx_ok _ 0 hl⟩

/-- What never-panic needs of the extracted numbers: the selector and the index are read only when ≥ 3 parameters remain, the RGB
    components only when ≥ 5 remain. -/
def NumsOk (cfg : Cfg) : Prop := ∀ p, 3 ≤ (cfg.nums p).legacyMin ∧ 5 ≤ (cfg.nums p).rgbMin

def numsOkB (cfg : Cfg) : Bool :=
  cfg.ext.all fun r => match r.2 with
    | [a, b, _, _, _, _, _] => decide (3 ≤ a) && decide (5 ≤ b)
    | _ => true

theorem numsOk_of_B (cfg : Cfg) (h : numsOkB cfg = true) : NumsOk cfg := by
  intro p
  unfold Cfg.nums
  cases hf : cfg.ext.find? (fun r => r.1 == p) with
  | none => exact ⟨Nat.le_refl _, Nat.le_refl _⟩
  | some r =>
    have hm : r ∈ cfg.ext := List.mem_of_find?_eq_some hf
    have hr := List.all_eq_true.mp h r hm
    obtain ⟨k, l⟩ := r
    match l, hr with
    | [a, b, c, d, e, f, g], hr =>
      simp only [Bool.and_eq_true, decide_eq_true_eq] at hr
      exact hr
    | [], _ => exact ⟨Nat.le_refl _, Nat.le_refl _⟩
    | [_], _ => exact ⟨Nat.le_refl _, Nat.le_refl _⟩
    | [_, _], _ => exact ⟨Nat.le_refl _, Nat.le_refl _⟩
    | [_, _, _], _ => exact ⟨Nat.le_refl _, Nat.le_refl _⟩
    | [_, _, _, _], _ => exact ⟨Nat.le_refl _, Nat.le_refl _⟩
    | [_, _, _, _, _], _ => exact ⟨Nat.le_refl _, Nat.le_refl _⟩
    | [_, _, _, _, _, _], _ => exact ⟨Nat.le_refl _, Nat.le_refl _⟩
    | _ :: _ :: _ :: _ :: _ :: _ :: _ :: _ :: _, _ => exact ⟨Nat.le_refl _, Nat.le_refl _⟩

theorem extColour_ok (cfg : Cfg) (p : Nat) (cur : Param) (rest : List Param)
    (hn : 3 ≤ (cfg.nums p).legacyMin ∧ 5 ≤ (cfg.nums p).rgbMin)
    (hrest : ∀ q ∈ rest, q ≠ []) : ∃ r, extColour cfg p cur rest = .ok r := by
  obtain ⟨hn1, hn2⟩ := hn
  unfold extColour
  simp only []
  split
  · exact ⟨_, rfl⟩
  split
  · split
    · exact ⟨_, rfl⟩
    · obtain ⟨k, hk⟩ := idx2_ok rest 0 (by omega) hrest
      rw [hk]; simp only []
      split
      · split
        · exact ⟨_, rfl⟩
        · obtain ⟨r, hr⟩ := idx2_ok rest 1 (by omega) hrest
          obtain ⟨g, hg⟩ := idx2_ok rest 2 (by omega) hrest
          obtain ⟨b, hb⟩ := idx2_ok rest 3 (by omega) hrest
          rw [hr, hg, hb]; exact ⟨_, rfl⟩
      · split
        · obtain ⟨v, hv⟩ := idx2_ok rest 1 (by omega) hrest
          rw [hv]; exact ⟨_, rfl⟩
        · exact ⟨_, rfl⟩
  split
  · rename_i h3
    rw [idx_ok cur 1 (by omega), idx_ok cur 2 (by omega)]; simp only []
    split <;> exact ⟨_, rfl⟩
  split
  · rw [idx_ok cur 1 (by omega), idx_ok cur 2 (by omega), idx_ok cur 3 (by omega), idx_ok cur 4 (by omega)]; simp only []
    split <;> exact ⟨_, rfl⟩
  split
  · rw [idx_ok cur 1 (by omega), idx_ok cur 3 (by omega), idx_ok cur 4 (by omega), idx_ok cur 5 (by omega)]; simp only []
    split <;> exact ⟨_, rfl⟩
  · exact ⟨_, rfl⟩

theorem ulCase_ok (cfg : Cfg) (cur : Param) (s : Style) (hcur : cur ≠ []) : ∃ s', ulCase cfg cur s = .ok s' := by
  unfold ulCase
  simp only []
  have hl : 0 < cur.length := List.length_pos_iff.mpr hcur
  split
  · exact ⟨_, rfl⟩
  split
  · exact ⟨_, rfl⟩
  · rw [idx_ok cur 1 (by omega)]; simp only []
    split <;> exact ⟨_, rfl⟩

theorem intOne_ok (cfg : Cfg) (hn : NumsOk cfg) (cur : Param) (rest : List Param) (s : Style) (hcur : cur ≠ [])
    (hrest : ∀ q ∈ rest, q ≠ []) : ∃ r, intOne cfg cur rest s = .ok r := by
  unfold intOne
  have hl : 0 < cur.length := List.length_pos_iff.mpr hcur
  rw [idx_ok cur 0 hl]; simp only []
  split
  · exact ⟨_, rfl⟩
  split
  · obtain ⟨⟨c, nx⟩, h⟩ := extColour_ok cfg 38 cur rest (hn 38) hrest
    rw [h]; cases c <;> exact ⟨_, rfl⟩
  split
  · obtain ⟨⟨c, nx⟩, h⟩ := extColour_ok cfg 48 cur rest (hn 48) hrest
    rw [h]; cases c <;> exact ⟨_, rfl⟩
  split
  · obtain ⟨⟨c, nx⟩, h⟩ := extColour_ok cfg 58 cur rest (hn 58) hrest
    rw [h]; cases c <;> exact ⟨_, rfl⟩
  split
  · obtain ⟨s', h⟩ := ulCase_ok cfg cur s hcur
    rw [h]; exact ⟨_, rfl⟩
  · exact ⟨_, rfl⟩

theorem intLoop_ok (cfg : Cfg) (hn : NumsOk cfg) (ps : List Param) (hps : ∀ q ∈ ps, q ≠ []) :
    ∀ (k : Nat) (s : Style), ∃ s', intLoop cfg k ps s = .ok s' := by
  induction ps with
  | nil => intro k s; exact ⟨s, by simp [intLoop]⟩
  | cons cur rest ih =>
    have hrest : ∀ q ∈ rest, q ≠ [] := fun q hq => hps q (List.mem_cons_of_mem _ hq)
    intro k s
    cases k with
    | succ k => simp only [intLoop]; exact ih hrest k s
    | zero =>
      simp only [intLoop]
      obtain ⟨⟨s', nx⟩, h⟩ := intOne_ok cfg hn cur rest s (hps cur (List.mem_cons_self ..)) hrest
      rw [h]
      cases nx with
      | stop => exact ⟨_, rfl⟩
      | cont k => exact ih hrest k s'

theorem intSgr_ok (cfg : Cfg) (hn : NumsOk cfg) (s : Style) (ps : Seq) (hps : ∀ q ∈ ps, q ≠ []) : ∃ s', intSgr cfg s ps = .ok s' := by
  unfold intSgr
  split
  · exact intLoop_ok cfg hn _ (by simp) 0 s
  · exact intLoop_ok cfg hn _ hps 0 s

theorem ssColour_ok (cfg : Cfg) (p : Nat) (subs : List SubTok) (rest : List (List SubTok)) :
    ∃ r, ssColour cfg p subs rest = .ok r := by
  unfold ssColour
  simp only []
  split
  · exact ⟨_, rfl⟩
  split
  · split <;> exact ⟨_, rfl⟩
  split
  · rw [idx_ok subs 2 (by omega)]; exact ⟨_, rfl⟩
  split
  · rw [idx_ok subs 2 (by omega), idx_ok subs 3 (by omega), idx_ok subs 4 (by omega)]; exact ⟨_, rfl⟩
  · exact ⟨_, rfl⟩

theorem ssOne_ok (cfg : Cfg) (dflt s : Style) (subs : List SubTok) (rest : List (List SubTok)) (h : subs ≠ []) :
    ∃ r, ssOne cfg dflt s subs rest = .ok r := by
  unfold ssOne
  have hl : 0 < subs.length := List.length_pos_iff.mpr h
  rw [idx_ok subs 0 hl]; simp only []
  split
  · exact ⟨_, rfl⟩
  split
  · exact ⟨_, rfl⟩
  split
  · exact ⟨_, rfl⟩
  split
  · obtain ⟨⟨c, k⟩, hc⟩ := ssColour_ok cfg 38 subs rest
    rw [hc]; cases c <;> exact ⟨_, rfl⟩
  split
  · obtain ⟨⟨c, k⟩, hc⟩ := ssColour_ok cfg 48 subs rest
    rw [hc]; cases c <;> exact ⟨_, rfl⟩
  split
  · obtain ⟨⟨c, k⟩, hc⟩ := ssColour_ok cfg 58 subs rest
    rw [hc]; cases c <;> exact ⟨_, rfl⟩
  split
  · split
    · exact ⟨_, rfl⟩
    split
    · rw [idx_ok subs 1 (by omega)]; simp only []
      split
      · split <;> exact ⟨_, rfl⟩
      · exact ⟨_, rfl⟩
    · exact ⟨_, rfl⟩
  · exact ⟨_, rfl⟩

theorem ssLoopK_ok (cfg : Cfg) (dflt : Style) (ps : List (List SubTok)) (hps : ∀ q ∈ ps, q ≠ []) :
    ∀ k s, ∃ s', ssLoopK cfg dflt k ps s = .ok s' := by
  induction ps with
  | nil => intro k s; exact ⟨s, by simp [ssLoopK]⟩
  | cons subs rest ih =>
    intro k s
    have hrest : ∀ q ∈ rest, q ≠ [] := fun q hq => hps q (List.mem_cons_of_mem _ hq)
    cases k with
    | succ k => simp only [ssLoopK]; exact ih hrest k s
    | zero =>
      obtain ⟨⟨s', k'⟩, h⟩ := ssOne_ok cfg dflt s subs rest (hps subs (List.mem_cons_self ..))
      simp only [ssLoopK, h]
      exact ih hrest k' s'

theorem ssLoop_ok (cfg : Cfg) (dflt : Style) (ps : List (List SubTok)) (hps : ∀ q ∈ ps, q ≠ []) :
    ∀ s, ∃ s', ssLoop cfg dflt ps s = .ok s' := fun s => ssLoopK_ok cfg dflt ps hps 0 s

/-! ## The pen deltas mean what they should -/

theorem lt8 (i : Nat) (h : i < 8) : i = 0 ∨ i = 1 ∨ i = 2 ∨ i = 3 ∨ i = 4 ∨ i = 5 ∨ i = 6 ∨ i = 7 := by omega

theorem sgr_fg_basic (i : Nat) (h : i < 8) (t : TStyle) : Spec.sgr t [[30 + i]] = { t with fg := .idx i } := by
  rcases lt8 i h with rfl | rfl | rfl | rfl | rfl | rfl | rfl | rfl <;> rfl
theorem sgr_fg_bright (i : Nat) (h : i < 8) (t : TStyle) : Spec.sgr t [[90 + i]] = { t with fg := .idx (i + 8) } := by
  rcases lt8 i h with rfl | rfl | rfl | rfl | rfl | rfl | rfl | rfl <;> rfl
theorem sgr_bg_basic (i : Nat) (h : i < 8) (t : TStyle) : Spec.sgr t [[40 + i]] = { t with bg := .idx i } := by
  rcases lt8 i h with rfl | rfl | rfl | rfl | rfl | rfl | rfl | rfl <;> rfl
theorem sgr_bg_bright (i : Nat) (h : i < 8) (t : TStyle) : Spec.sgr t [[100 + i]] = { t with bg := .idx (i + 8) } := by
  rcases lt8 i h with rfl | rfl | rfl | rfl | rfl | rfl | rfl | rfl <;> rfl

theorem params_cases (c : Color) :
    params c = [] ∨ (∃ i, i < 256 ∧ params c = [i]) ∨ (∃ r g b, params c = [r, g, b]) := by
  unfold params
  split
  · exact Or.inr (Or.inl ⟨c % 256, by omega, rfl⟩)
  split
  · exact Or.inr (Or.inr ⟨_, _, _, rfl⟩)
  · exact Or.inl rfl

theorem fg_seq (idxT rgbT : Sequences.Template)
    (hidx : ∀ n t, Spec.sgr t (fmt idxT [n]) = { t with fg := .idx n })
    (hrgb : ∀ r g b t, Spec.sgr t (fmt rgbT [r, g, b]) = { t with fg := .rgb r g b })
    (c : Color) (t : TStyle) :
    apply t (colourSeq Sequences.fgReset_t Sequences.fgSet_t Sequences.fgBrightSet_t idxT rgbT c)
      = { t with fg := col c } := by
  unfold colourSeq col
  rcases params_cases c with h | ⟨i, hi, h⟩ | ⟨r, g, b, h⟩
  · rw [h]; simp only [fmt_fgReset, apply_cons, apply_nil]; rfl
  · rw [h]; simp only []
    by_cases h8 : i < 8
    · simp only [h8, if_true, fmt_fgSet i h8, apply_cons, apply_nil, sgr_fg_basic i h8]
    · by_cases h16 : i < 16
      · have : i - 8 < 8 := by omega
        simp only [h8, h16, if_true, if_false, fmt_fgBrightSet _ this, apply_cons, apply_nil, sgr_fg_bright _ this]
        have : i - 8 + 8 = i := by omega
        rw [this]
      · simp only [h8, h16, if_false, apply_cons, apply_nil, hidx]
  · rw [h]; simp only [apply_cons, apply_nil, hrgb]

theorem bg_seq (idxT rgbT : Sequences.Template)
    (hidx : ∀ n t, Spec.sgr t (fmt idxT [n]) = { t with bg := .idx n })
    (hrgb : ∀ r g b t, Spec.sgr t (fmt rgbT [r, g, b]) = { t with bg := .rgb r g b })
    (c : Color) (t : TStyle) :
    apply t (colourSeq Sequences.bgReset_t Sequences.bgSet_t Sequences.bgBrightSet_t idxT rgbT c)
      = { t with bg := col c } := by
  unfold colourSeq col
  rcases params_cases c with h | ⟨i, hi, h⟩ | ⟨r, g, b, h⟩
  · rw [h]; simp only [fmt_bgReset, apply_cons, apply_nil]; rfl
  · rw [h]; simp only []
    by_cases h8 : i < 8
    · simp only [h8, if_true, fmt_bgSet i h8, apply_cons, apply_nil, sgr_bg_basic i h8]
    · by_cases h16 : i < 16
      · have : i - 8 < 8 := by omega
        simp only [h8, h16, if_true, if_false, fmt_bgBrightSet _ this, apply_cons, apply_nil, sgr_bg_bright _ this]
        have : i - 8 + 8 = i := by omega
        rw [this]
      · simp only [h8, h16, if_false, apply_cons, apply_nil, hidx]
  · rw [h]; simp only [apply_cons, apply_nil, hrgb]

theorem ul_seq (c : Color) (t : TStyle) : apply t (ulColourSeq c) = { t with ul := col c } := by
  unfold ulColourSeq col
  rcases params_cases c with h | ⟨i, hi, h⟩ | ⟨r, g, b, h⟩
  · rw [h]; simp only [fmt_ulColorReset, apply_cons, apply_nil]; rfl
  · rw [h]; simp only [fmt_ulIndexSet, apply_cons, apply_nil]; rfl
  · rw [h]; simp only [fmt_ulRGBSet, apply_cons, apply_nil]; rfl

theorem fg_idx_q (legacy : Bool) (n : Nat) (t : TStyle) :
    Spec.sgr t (fmt (q legacy Sequences.fgIndexSet_t) [n]) = { t with fg := .idx n } := by
  cases legacy
  · simp only [q, Bool.false_eq_true, ↓reduceIte, fmt_fgIndexSet]; rfl
  · simp only [q, Bool.false_eq_true, ↓reduceIte, fmt_fgIndexSet_legacy]; rfl
theorem fg_rgb_q (legacy : Bool) (r g b : Nat) (t : TStyle) :
    Spec.sgr t (fmt (q legacy Sequences.fgRGBSet_t) [r, g, b]) = { t with fg := .rgb r g b } := by
  cases legacy
  · simp only [q, Bool.false_eq_true, ↓reduceIte, fmt_fgRGBSet]; rfl
  · simp only [q, Bool.false_eq_true, ↓reduceIte, fmt_fgRGBSet_legacy]; rfl
theorem bg_idx_q (legacy : Bool) (n : Nat) (t : TStyle) :
    Spec.sgr t (fmt (q legacy Sequences.bgIndexSet_t) [n]) = { t with bg := .idx n } := by
  cases legacy
  · simp only [q, Bool.false_eq_true, ↓reduceIte, fmt_bgIndexSet]; rfl
  · simp only [q, Bool.false_eq_true, ↓reduceIte, fmt_bgIndexSet_legacy]; rfl
theorem bg_rgb_q (legacy : Bool) (r g b : Nat) (t : TStyle) :
    Spec.sgr t (fmt (q legacy Sequences.bgRGBSet_t) [r, g, b]) = { t with bg := .rgb r g b } := by
  cases legacy
  · simp only [q, Bool.false_eq_true, ↓reduceIte, fmt_bgRGBSet]; rfl
  · simp only [q, Bool.false_eq_true, ↓reduceIte, fmt_bgRGBSet_legacy]; rfl

theorem part_fg (idxT rgbT : Sequences.Template)
    (hidx : ∀ n t, Spec.sgr t (fmt idxT [n]) = { t with fg := .idx n })
    (hrgb : ∀ r g b t, Spec.sgr t (fmt rgbT [r, g, b]) = { t with fg := .rgb r g b })
    (x y z : Color) (w : Col) (t : TStyle) (ht : x = y → t.fg = w) (hz : x ≠ y → col z = w) :
    apply t (if x != y then colourSeq Sequences.fgReset_t Sequences.fgSet_t Sequences.fgBrightSet_t idxT rgbT z else [])
      = { t with fg := w } := by
  by_cases h : x = y
  · simp [h, ← ht h]
  · simp [h, fg_seq idxT rgbT hidx hrgb, hz h]

theorem part_bg (idxT rgbT : Sequences.Template)
    (hidx : ∀ n t, Spec.sgr t (fmt idxT [n]) = { t with bg := .idx n })
    (hrgb : ∀ r g b t, Spec.sgr t (fmt rgbT [r, g, b]) = { t with bg := .rgb r g b })
    (x y z : Color) (w : Col) (t : TStyle) (ht : x = y → t.bg = w) (hz : x ≠ y → col z = w) :
    apply t (if x != y then colourSeq Sequences.bgReset_t Sequences.bgSet_t Sequences.bgBrightSet_t idxT rgbT z else [])
      = { t with bg := w } := by
  by_cases h : x = y
  · simp [h, ← ht h]
  · simp [h, bg_seq idxT rgbT hidx hrgb, hz h]

theorem part_ul (x y z : Color) (w : Col) (t : TStyle) (ht : x = y → t.ul = w) (hz : x ≠ y → col z = w) :
    apply t (if x != y then ulColourSeq z else []) = { t with ul := w } := by
  by_cases h : x = y
  · simp [h, ← ht h]
  · simp [h, ul_seq, hz h]

theorem part_uls (x y : Nat) (t : TStyle) (ht : t.ulStyle = x) (hy : y ≤ 5) :
    apply t (if x != y then [fmt Sequences.ulStyleSet_t [y]] else []) = { t with ulStyle := y } := by
  by_cases h : x = y
  · subst h; simp [← ht]
  · simp [h, fmt_ulStyleSet, Spec.sgr, sgrStep, hy]

theorem part_attr (a b : Nat) (t : TStyle) (ht : t = withAttrs a t) :
    apply t (attrDelta a b) = withAttrs b t := by
  rw [ht, attrDelta_correct, ← ht]

theorem shown_withAttrs (s : Style) : withAttrs s.attr (shown s) = shown s := rfl

theorem encodeDelta_correct (legacy : Bool) (p n : Style) (hn : n.ulStyle ≤ 5) :
    apply (shown p) (encodeDelta legacy p n) = shown n := by
  unfold encodeDelta
  simp only [apply_append]
  rw [part_fg _ _ (fg_idx_q legacy) (fg_rgb_q legacy) p.fg n.fg n.fg (col n.fg) _ (fun h => by rw [← h]; rfl) (fun _ => rfl)]
  rw [part_bg _ _ (bg_idx_q legacy) (bg_rgb_q legacy) p.bg n.bg n.bg (col n.bg) _ (fun h => by rw [← h]; rfl) (fun _ => rfl)]
  rw [part_ul p.ul n.ul n.ul (col n.ul) _ (fun h => by rw [← h]; rfl) (fun _ => rfl)]
  rw [part_attr p.attr n.attr _ rfl]
  rw [part_uls p.ulStyle n.ulStyle _ rfl hn]
  rfl

theorem ssDelta_correct (legacy : Bool) (p n : Style) (hn : n.ulStyle ≤ 5) :
    apply (shown p) (ssDelta legacy p n) = shown n := by
  unfold ssDelta
  simp only [apply_append]
  rw [part_fg _ _ (fun n t => by rw [fmt_ssFgIndexSet legacy]; rfl) (fun r g b t => by rw [fmt_ssFgRGBSet legacy]; rfl)
    p.fg n.fg n.fg (col n.fg) _ (fun h => by rw [← h]; rfl) (fun _ => rfl)]
  rw [part_bg _ _ (fun n t => by rw [fmt_ssBgIndexSet legacy]; rfl) (fun r g b t => by rw [fmt_ssBgRGBSet legacy]; rfl)
    p.bg n.bg n.bg (col n.bg) _ (fun h => by rw [← h]; rfl) (fun _ => rfl)]
  rw [part_ul p.ul n.ul n.ul (col n.ul) _ (fun h => by rw [← h]; rfl) (fun _ => rfl)]
  rw [part_attr p.attr n.attr _ rfl]
  rw [part_uls p.ulStyle n.ulStyle _ rfl hn]
  rfl

theorem renderDelta_correct (rgb su legacy : Bool) (p n : Style) (hn : n.ulStyle ≤ 5) :
    apply (shownCaps rgb su p) (renderDelta rgb su legacy p n) = shownCaps rgb su n := by
  unfold renderDelta
  simp only [apply_append]
  rw [part_fg _ _ (fg_idx_q legacy) (fg_rgb_q legacy) p.fg n.fg _ (col (if rgb then n.fg else asIndex n.fg)) _
    (fun h => by rw [← h]; rfl) (fun _ => rfl)]
  rw [part_bg _ _ (bg_idx_q legacy) (bg_rgb_q legacy) p.bg n.bg _ (col (if rgb then n.bg else asIndex n.bg)) _
    (fun h => by rw [← h]; rfl) (fun _ => rfl)]
  cases su
  · simp only [Bool.false_eq_true, ↓reduceIte, apply_nil]
    rw [part_attr p.attr n.attr _ rfl]
    have key : ∀ t : TStyle,
        (p.ulStyle = n.ulStyle → t.ulStyle = (if n.ulStyle = SgrCases.UnderlineOff then 0 else 1)) →
        apply t (if p.ulStyle != n.ulStyle then
            (if n.ulStyle = SgrCases.UnderlineOff then [underlineResetQ] else [underlineSetQ]) else [])
          = { t with ulStyle := if n.ulStyle = SgrCases.UnderlineOff then 0 else 1 } := by
      intro t ht
      by_cases h : p.ulStyle = n.ulStyle
      · simp [h, ← ht h]
      · have hb : (p.ulStyle != n.ulStyle) = true := by simp [h]
        by_cases h0 : n.ulStyle = SgrCases.UnderlineOff
        · rw [if_pos hb]; simp only [↓reduceIte, h0, underlineResetQ_eq, apply_cons, apply_nil]; rfl
        · rw [if_pos hb]; simp only [↓reduceIte, h0, underlineSetQ_eq, apply_cons, apply_nil]; rfl
    rw [key _ (fun h => by rw [← h]; rfl)]
    rfl
  · simp only [↓reduceIte]
    rw [part_ul p.ul n.ul _ (col (if rgb then n.ul else asIndex n.ul)) _ (fun h => by rw [← h]; rfl) (fun _ => rfl)]
    rw [part_attr p.attr n.attr _ rfl]
    rw [part_uls p.ulStyle n.ulStyle _ rfl hn]
    rfl

/-! ## Colours, bits and `shown` -/

theorem params_indexColor (i : Nat) (h : i < 256) : params (indexColor i) = [i] := by
  simp only [params, isIndexed, indexColor, indexedBit, Gen.Palette.indexedShift]
  have h1 : (i + 2 ^ 24) / 2 ^ 24 = 1 := by omega
  have h2 : (i + 2 ^ 24) % 256 = i := by omega
  simp [h1, h2]

theorem params_rgbColor (r g b : Nat) (hr : r < 256) (hg : g < 256) (hb : b < 256) :
    params (rgbColor r g b) = [r, g, b] := by
  simp only [params, isIndexed, isRGB, rgbColor, indexedBit, rgbBit, Gen.Palette.indexedShift, Gen.Palette.rgbShift,
    chanR, chanG, chanB]
  have h1 : (r * 65536 + g * 256 + b + 2 ^ 25) / 2 ^ 24 = 2 := by omega
  have h2 : (r * 65536 + g * 256 + b + 2 ^ 25) / 2 ^ 25 = 1 := by omega
  have h3 : (r * 65536 + g * 256 + b + 2 ^ 25) / 65536 % 256 = r := by omega
  have h4 : (r * 65536 + g * 256 + b + 2 ^ 25) / 256 % 256 = g := by omega
  have h5 : (r * 65536 + g * 256 + b + 2 ^ 25) % 256 = b := by omega
  simp [h1, h2, h3, h4, h5]

theorem col_of_nil (c : Color) (h : params c = []) : col c = .default := by unfold col; rw [h]
theorem col_of_idx (c : Color) (i : Nat) (h : params c = [i]) : col c = .idx i := by unfold col; rw [h]
theorem col_of_rgb (c : Color) (r g b : Nat) (h : params c = [r, g, b]) : col c = .rgb r g b := by unfold col; rw [h]
theorem col_indexColor (i : Nat) (h : i < 256) : col (indexColor i) = .idx i := col_of_idx _ _ (params_indexColor i h)
theorem col_rgbColor (r g b : Nat) (hr : r < 256) (hg : g < 256) (hb : b < 256) :
    col (rgbColor r g b) = .rgb r g b := col_of_rgb _ _ _ _ (params_rgbColor r g b hr hg hb)
theorem col_zero : col 0 = .default := col_of_nil 0 (by decide)


theorem tb_set (m j i : Nat) : (setBits m (2 ^ i)).testBit j = (m.testBit j || decide (i = j)) := by
  rw [setBits, Nat.testBit_or, Nat.testBit_two_pow]
theorem tb_clear (m j i : Nat) : (clearBits m (2 ^ i)).testBit j = (m.testBit j && !decide (i = j)) := by
  rw [clearBits, Nat.testBit_xor, Nat.testBit_and, Nat.testBit_two_pow]
  cases m.testBit j <;> cases decide (i = j) <;> rfl
theorem tb_set2 (m j : Nat) : (setBits m 2).testBit j = (m.testBit j || decide (1 = j)) := tb_set m j 1
theorem tb_set4 (m j : Nat) : (setBits m 4).testBit j = (m.testBit j || decide (2 = j)) := tb_set m j 2
theorem tb_set8 (m j : Nat) : (setBits m 8).testBit j = (m.testBit j || decide (3 = j)) := tb_set m j 3
theorem tb_set16 (m j : Nat) : (setBits m 16).testBit j = (m.testBit j || decide (4 = j)) := tb_set m j 4
theorem tb_set32 (m j : Nat) : (setBits m 32).testBit j = (m.testBit j || decide (5 = j)) := tb_set m j 5
theorem tb_set64 (m j : Nat) : (setBits m 64).testBit j = (m.testBit j || decide (6 = j)) := tb_set m j 6
theorem tb_set128 (m j : Nat) : (setBits m 128).testBit j = (m.testBit j || decide (7 = j)) := tb_set m j 7
theorem tb_clear2 (m j : Nat) : (clearBits m 2).testBit j = (m.testBit j && !decide (1 = j)) := tb_clear m j 1
theorem tb_clear4 (m j : Nat) : (clearBits m 4).testBit j = (m.testBit j && !decide (2 = j)) := tb_clear m j 2
theorem tb_clear8 (m j : Nat) : (clearBits m 8).testBit j = (m.testBit j && !decide (3 = j)) := tb_clear m j 3
theorem tb_clear16 (m j : Nat) : (clearBits m 16).testBit j = (m.testBit j && !decide (4 = j)) := tb_clear m j 4
theorem tb_clear32 (m j : Nat) : (clearBits m 32).testBit j = (m.testBit j && !decide (5 = j)) := tb_clear m j 5
theorem tb_clear64 (m j : Nat) : (clearBits m 64).testBit j = (m.testBit j && !decide (6 = j)) := tb_clear m j 6
theorem tb_clear128 (m j : Nat) : (clearBits m 128).testBit j = (m.testBit j && !decide (7 = j)) := tb_clear m j 7

theorem has2 (m : Nat) : has m 2 = m.testBit 1 := has_pow m 1
theorem has4 (m : Nat) : has m 4 = m.testBit 2 := has_pow m 2
theorem has8 (m : Nat) : has m 8 = m.testBit 3 := has_pow m 3
theorem has16 (m : Nat) : has m 16 = m.testBit 4 := has_pow m 4
theorem has32 (m : Nat) : has m 32 = m.testBit 5 := has_pow m 5
theorem has64 (m : Nat) : has m 64 = m.testBit 6 := has_pow m 6
theorem has128 (m : Nat) : has m 128 = m.testBit 7 := has_pow m 7

theorem shown_set_bold (s : Style) :
    shown { s with attr := setBits s.attr SgrCases.AttrBold } = { shown s with bold := true } := by
  simp [shown, SgrCases.AttrBold, SgrCases.AttrDim, SgrCases.AttrItalic, SgrCases.AttrBlink, SgrCases.AttrReverse,
    SgrCases.AttrInvisible, SgrCases.AttrStrikethrough, has2, has4, has8, has16, has32, has64, has128,
    tb_set2, tb_set4, tb_set8, tb_set16, tb_set32, tb_set64, tb_set128,
    tb_clear2, tb_clear4, tb_clear8, tb_clear16, tb_clear32, tb_clear64, tb_clear128]
theorem shown_clear22 (s : Style) :
    shown { s with attr := clearBits (clearBits s.attr SgrCases.AttrBold) SgrCases.AttrDim } = { shown s with bold := false, dim := false } := by
  simp [shown, SgrCases.AttrBold, SgrCases.AttrDim, SgrCases.AttrItalic, SgrCases.AttrBlink, SgrCases.AttrReverse,
    SgrCases.AttrInvisible, SgrCases.AttrStrikethrough, has2, has4, has8, has16, has32, has64, has128,
    tb_set2, tb_set4, tb_set8, tb_set16, tb_set32, tb_set64, tb_set128,
    tb_clear2, tb_clear4, tb_clear8, tb_clear16, tb_clear32, tb_clear64, tb_clear128]

theorem shown_simple_zero (s : Style) : shown (simple 0 s) = TStyle.reset := by
  simp [simple, shown, TStyle.reset, col_zero, SgrCases.UnderlineOff, has]

theorem shown_simple (s : Style) (p : Nat) (hp : p ∈ soloCodes) (h4 : p ≠ 4) :
    shown (simple p s) = sgrSimple (shown s) p := by
  simp only [soloCodes, List.mem_cons, List.not_mem_nil, or_false] at hp
  rcases hp with rfl | rfl | rfl | rfl | rfl | rfl | rfl | rfl | rfl | rfl | rfl | rfl | rfl | rfl | rfl | rfl | rfl | rfl | rfl | rfl | rfl | rfl | rfl | rfl | rfl | rfl | rfl | rfl | rfl | rfl | rfl | rfl | rfl | rfl | rfl | rfl | rfl | rfl | rfl | rfl | rfl | rfl | rfl | rfl | rfl | rfl | rfl | rfl | rfl | rfl
  all_goals first
    | exact absurd rfl h4
    | simp [simple, sgrSimple, shown, SgrCases.AttrBold, SgrCases.AttrDim, SgrCases.AttrItalic, SgrCases.AttrBlink,
        SgrCases.AttrReverse, SgrCases.AttrInvisible, SgrCases.AttrStrikethrough, SgrCases.UnderlineOff,
        has2, has4, has8, has16, has32, has64, has128,
        tb_set2, tb_set4, tb_set8, tb_set16, tb_set32, tb_set64, tb_set128,
        tb_clear2, tb_clear4, tb_clear8, tb_clear16, tb_clear32, tb_clear64, tb_clear128,
        col_indexColor, col_zero, u8]

/-! ## Evaluating the consumers on the producers' range -/

theorem sgr_solo (t : TStyle) (p : Nat) (h38 : p ≠ 38) (h48 : p ≠ 48) (h58 : p ≠ 58) (h4 : p ≠ 4) :
    Spec.sgr t [[p]] = sgrSimple t p := by
  simp [Spec.sgr, sgrStep, h38, h48, h58, h4]

theorem int_solo (cfg : Cfg) (s : Style) (p : Nat) (hl : p ∈ cfg.labels)
    (h38 : p ≠ 38) (h48 : p ≠ 48) (h58 : p ≠ 58) (h4 : p ≠ 4) :
    intSgr cfg s [[p]] = .ok (simple p s) := by
  simp [intSgr, intLoop, intOne, idx, hl, h38, h48, h58, h4]

theorem int_empty (cfg : Cfg) (s : Style) (hl : 0 ∈ cfg.labels) :
    intSgr cfg s [] = .ok (simple 0 s) := by
  simp [intSgr, intLoop, intOne, idx, hl]

theorem int_ul1 (cfg : Cfg) (s : Style) (hl : 4 ∈ cfg.labels) (ha : cfg.accepts 4 1 = true) :
    intSgr cfg s [[4]] = .ok { s with ulStyle := SgrCases.UnderlineSingle } := by
  simp [intSgr, intLoop, intOne, idx, hl, ulCase, ha]

theorem int_ul2 (cfg : Cfg) (s : Style) (n : Nat) (hl : 4 ∈ cfg.labels) (ha : cfg.accepts 4 2 = true)
    (hs : n ∈ cfg.ulSubs) :
    intSgr cfg s [[4, n]] = .ok { s with ulStyle := ulConst n } := by
  simp [intSgr, intLoop, intOne, idx, hl, ulCase, ha, hs]

def setCol (p : Nat) (s : Style) (c : Color) : Style :=
  if p = 38 then { s with fg := c } else if p = 48 then { s with bg := c } else { s with ul := c }

theorem int_idx (cfg : Cfg) (s : Style) (p n : Nat) (hp : p = 38 ∨ p = 48 ∨ p = 58)
    (hl : p ∈ cfg.labels) (ha : cfg.accepts p 3 = true) (hn : cfg.nums p = {}) :
    intSgr cfg s [[p, 5, n]] = .ok (setCol p s (indexColor (u8 n))) := by
  rcases hp with rfl | rfl | rfl <;>
    simp [intSgr, intLoop, intOne, idx, hl, extColour, ha, setCol, hn]

theorem int_rgb (cfg : Cfg) (s : Style) (p r g b : Nat) (hp : p = 38 ∨ p = 48 ∨ p = 58)
    (hl : p ∈ cfg.labels) (ha : cfg.accepts p 5 = true) (hn : cfg.nums p = {}) :
    intSgr cfg s [[p, 2, r, g, b]] = .ok (setCol p s (rgbColor (u8 r) (u8 g) (u8 b))) := by
  rcases hp with rfl | rfl | rfl <;>
    simp [intSgr, intLoop, intOne, idx, hl, extColour, ha, setCol, hn]

theorem int_idx_legacy (cfg : Cfg) (s : Style) (p n : Nat) (hp : p = 38 ∨ p = 48 ∨ p = 58)
    (hl : p ∈ cfg.labels) (ha : cfg.accepts p 1 = true) (hn : cfg.nums p = {}) :
    intSgr cfg s [[p], [5], [n]] = .ok (setCol p s (indexColor (u8 n))) := by
  rcases hp with rfl | rfl | rfl <;>
    simp [intSgr, intLoop, intOne, idx, idx2, hl, extColour, ha, setCol, hn]

theorem int_rgb_legacy (cfg : Cfg) (s : Style) (p r g b : Nat) (hp : p = 38 ∨ p = 48 ∨ p = 58)
    (hl : p ∈ cfg.labels) (ha : cfg.accepts p 1 = true) (hn : cfg.nums p = {}) :
    intSgr cfg s [[p], [2], [r], [g], [b]] = .ok (setCol p s (rgbColor (u8 r) (u8 g) (u8 b))) := by
  rcases hp with rfl | rfl | rfl <;>
    simp [intSgr, intLoop, intOne, idx, idx2, hl, extColour, ha, setCol, hn]

/-- Everything a producer can write is handled: every solo code and 0 has a `case`, 38/48/58 accept the
    colon forms with 3 and 5 sub-parameters, 4 accepts none and one sub-parameter 0..5. -/
def covers (cfg : Cfg) : Bool :=
  cfg.labels.contains 0 && soloCodes.all (fun p => cfg.labels.contains p) &&
  [38, 48, 58].all (fun p => cfg.labels.contains p && cfg.accepts p 3 && cfg.accepts p 5) &&
  cfg.accepts 4 1 && cfg.accepts 4 2 && [0, 1, 2, 3, 4, 5].all (fun k => cfg.ulSubs.contains k) &&
  [38, 48, 58].all (fun p => decide (cfg.nums p = {}))

/-- … and the legacy semicolon forms of foreground and background. -/
def coversLegacy (cfg : Cfg) : Bool := [38, 48].all (fun p => cfg.accepts p 1)

structure Covers (cfg : Cfg) : Prop where
  zero : 0 ∈ cfg.labels
  solo : ∀ p ∈ soloCodes, p ∈ cfg.labels
  ext : ∀ p, p = 38 ∨ p = 48 ∨ p = 58 → p ∈ cfg.labels ∧ cfg.accepts p 3 = true ∧ cfg.accepts p 5 = true
  ul1 : cfg.accepts 4 1 = true
  ul2 : cfg.accepts 4 2 = true
  subs : ∀ n, n ≤ 5 → n ∈ cfg.ulSubs
  /-- round 4: the bodies of `case 38 / 48 / 58` are written with the standard numbers (bounds 3 / 5, jumps 2 / 4, selectors 5 / 2 / 2) -/
  nums : ∀ p, p = 38 ∨ p = 48 ∨ p = 58 → cfg.nums p = {}

theorem covers_iff (cfg : Cfg) (h : covers cfg = true) : Covers cfg := by
  simp only [covers, Bool.and_eq_true, List.all_eq_true, List.contains_iff_mem] at h
  obtain ⟨⟨⟨⟨⟨⟨h0, hs⟩, he⟩, h1⟩, h2⟩, hu⟩, hnum⟩ := h
  refine ⟨h0, hs, ?_, h1, h2, ?_, ?_⟩
  rotate_left 2
  · intro p hp
    have := hnum p (by rcases hp with rfl | rfl | rfl <;> simp)
    simpa using this
  · intro p hp
    have := he p (by rcases hp with rfl | rfl | rfl <;> simp)
    exact ⟨this.1.1, this.1.2, this.2⟩
  · intro n hn
    exact hu n (by
      have : n = 0 ∨ n = 1 ∨ n = 2 ∨ n = 3 ∨ n = 4 ∨ n = 5 := by omega
      rcases this with rfl | rfl | rfl | rfl | rfl | rfl <;> simp)

theorem emittable_cases (q : Seq) (h : emittable q = true) :
    q = [] ∨ (∃ p, p ∈ soloCodes ∧ q = [[p]]) ∨ (∃ n, n ≤ 5 ∧ q = [[4, n]]) ∨
    (∃ p n, (p = 38 ∨ p = 48 ∨ p = 58) ∧ n < 256 ∧ q = [[p, 5, n]]) ∨
    (∃ p r g b, (p = 38 ∨ p = 48 ∨ p = 58) ∧ r < 256 ∧ g < 256 ∧ b < 256 ∧ q = [[p, 2, r, g, b]]) := by
  unfold emittable at h
  split at h
  · exact Or.inl rfl
  · exact Or.inr (Or.inl ⟨_, by simpa using h, rfl⟩)
  · exact Or.inr (Or.inr (Or.inl ⟨_, by simpa using h, rfl⟩))
  · simp [isExt] at h
    exact Or.inr (Or.inr (Or.inr (Or.inl ⟨_, _, or_assoc.mp h.1, h.2, rfl⟩)))
  · simp [isExt] at h
    exact Or.inr (Or.inr (Or.inr (Or.inr ⟨_, _, _, _, or_assoc.mp h.1.1.1, h.1.1.2, h.1.2, h.2, rfl⟩)))
  · simp at h

theorem emittableLegacy_cases (q : Seq) (h : emittableLegacy q = true) :
    emittable q = true ∨
    (∃ p n, (p = 38 ∨ p = 48) ∧ n < 256 ∧ q = [[p], [5], [n]]) ∨
    (∃ p r g b, (p = 38 ∨ p = 48) ∧ r < 256 ∧ g < 256 ∧ b < 256 ∧ q = [[p], [2], [r], [g], [b]]) := by
  unfold emittableLegacy at h
  rw [Bool.or_eq_true] at h
  rcases h with h | h
  · exact Or.inl h
  · split at h
    · simp at h
      exact Or.inr (Or.inl ⟨_, _, h.1, h.2, rfl⟩)
    · simp at h
      exact Or.inr (Or.inr ⟨_, _, _, _, h.1.1.1, h.1.1.2, h.1.2, h.2, rfl⟩)
    · simp at h

theorem u8_lt (n : Nat) (h : n < 256) : u8 n = n := by unfold u8; omega

theorem shown_setCol (p : Nat) (hp : p = 38 ∨ p = 48 ∨ p = 58) (s : Style) (c : Color) :
    shown (setCol p s c) = setExt (shown s) p (col c) := by
  rcases hp with rfl | rfl | rfl <;> rfl

theorem spec_idx (p n : Nat) (hp : p = 38 ∨ p = 48 ∨ p = 58) (t : TStyle) :
    Spec.sgr t [[p, 5, n]] = setExt t p (.idx n) := by
  rcases hp with rfl | rfl | rfl <;> rfl
theorem spec_rgb (p r g b : Nat) (hp : p = 38 ∨ p = 48 ∨ p = 58) (t : TStyle) :
    Spec.sgr t [[p, 2, r, g, b]] = setExt t p (.rgb r g b) := by
  rcases hp with rfl | rfl | rfl <;> rfl
theorem spec_idx_legacy (p n : Nat) (hp : p = 38 ∨ p = 48 ∨ p = 58) (t : TStyle) :
    Spec.sgr t [[p], [5], [n]] = setExt t p (.idx n) := by
  rcases hp with rfl | rfl | rfl <;> rfl
theorem spec_rgb_legacy (p r g b : Nat) (hp : p = 38 ∨ p = 48 ∨ p = 58) (t : TStyle) :
    Spec.sgr t [[p], [2], [r], [g], [b]] = setExt t p (.rgb r g b) := by
  rcases hp with rfl | rfl | rfl <;> rfl

theorem ulConst_le (n : Nat) (h : n ≤ 5) : ulConst n = n := by
  have : n = 0 ∨ n = 1 ∨ n = 2 ∨ n = 3 ∨ n = 4 ∨ n = 5 := by omega
  rcases this with rfl | rfl | rfl | rfl | rfl | rfl <;> decide

theorem solo_ne (p : Nat) (hp : p ∈ soloCodes) : p ≠ 38 ∧ p ≠ 48 ∧ p ≠ 58 := by
  refine ⟨?_, ?_, ?_⟩ <;> (intro h; subst h; revert hp; decide)

theorem int_refines (cfg : Cfg) (hc : Covers cfg) (s : Style) (q : Seq) (hq : emittable q = true) :
    ∃ s', intSgr cfg s q = .ok s' ∧ shown s' = Spec.sgr (shown s) q := by
  rcases emittable_cases q hq with rfl | ⟨p, hp, rfl⟩ | ⟨n, hn, rfl⟩ | ⟨p, n, hp, hn, rfl⟩ | ⟨p, r, g, b, hp, hr, hg, hb, rfl⟩
  · exact ⟨_, int_empty cfg s hc.zero, shown_simple_zero s⟩
  · by_cases h4 : p = 4
    · subst h4
      exact ⟨_, int_ul1 cfg s (hc.solo 4 hp) hc.ul1, rfl⟩
    · obtain ⟨h38, h48, h58⟩ := solo_ne p hp
      refine ⟨_, int_solo cfg s p (hc.solo p hp) h38 h48 h58 h4, ?_⟩
      rw [shown_simple s p hp h4, sgr_solo _ p h38 h48 h58 h4]
  · refine ⟨_, int_ul2 cfg s n (hc.solo 4 (by decide)) hc.ul2 (hc.subs n hn), ?_⟩
    rw [ulConst_le n hn]
    simp [Spec.sgr, sgrStep, hn, shown]
  · obtain ⟨hl, h3, _⟩ := hc.ext p hp
    refine ⟨_, int_idx cfg s p n hp hl h3 (hc.nums p hp), ?_⟩
    rw [shown_setCol p hp, u8_lt n hn, col_indexColor n hn, spec_idx p n hp]
  · obtain ⟨hl, _, h5⟩ := hc.ext p hp
    refine ⟨_, int_rgb cfg s p r g b hp hl h5 (hc.nums p hp), ?_⟩
    rw [shown_setCol p hp, u8_lt r hr, u8_lt g hg, u8_lt b hb, col_rgbColor r g b hr hg hb, spec_rgb p r g b hp]

theorem int_refines_legacy (cfg : Cfg) (hc : Covers cfg) (hl1 : ∀ p, p = 38 ∨ p = 48 → cfg.accepts p 1 = true)
    (s : Style) (q : Seq) (hq : emittableLegacy q = true) :
    ∃ s', intSgr cfg s q = .ok s' ∧ shown s' = Spec.sgr (shown s) q := by
  rcases emittableLegacy_cases q hq with h | ⟨p, n, hp, hn, rfl⟩ | ⟨p, r, g, b, hp, hr, hg, hb, rfl⟩
  · exact int_refines cfg hc s q h
  · have hp' : p = 38 ∨ p = 48 ∨ p = 58 := by rcases hp with h | h <;> simp [h]
    obtain ⟨hl, _, _⟩ := hc.ext p hp'
    refine ⟨_, int_idx_legacy cfg s p n hp' hl (hl1 p hp) (hc.nums p hp'), ?_⟩
    rw [shown_setCol p hp', u8_lt n hn, col_indexColor n hn, spec_idx_legacy p n hp']
  · have hp' : p = 38 ∨ p = 48 ∨ p = 58 := by rcases hp with h | h <;> simp [h]
    obtain ⟨hl, _, _⟩ := hc.ext p hp'
    refine ⟨_, int_rgb_legacy cfg s p r g b hp' hl (hl1 p hp) (hc.nums p hp'), ?_⟩
    rw [shown_setCol p hp', u8_lt r hr, u8_lt g hg, u8_lt b hb, col_rgbColor r g b hr hg hb, spec_rgb_legacy p r g b hp']

/-! ## Well-formedness is preserved -/

theorem wf_setBits (a b m : Nat) (ha : a &&& m = a) (hb : b &&& m = b) : setBits a b &&& m = setBits a b := by
  unfold setBits; rw [Nat.and_or_distrib_right, ha, hb]
theorem wf_clearBits (a b m : Nat) (ha : a &&& m = a) : clearBits a b &&& m = clearBits a b := by
  unfold clearBits
  have : (a &&& b) &&& m = a &&& b := by rw [Nat.and_assoc, Nat.and_comm b m, ← Nat.and_assoc, ha]
  rw [Nat.and_xor_distrib_right, ha, this]

theorem wf_index (n : Nat) : Color.wf (indexColor (u8 n)) := Or.inr (Or.inl ⟨u8 n, Nat.mod_lt _ (by decide), rfl⟩)
theorem wf_rgb (r g b : Nat) : Color.wf (rgbColor (u8 r) (u8 g) (u8 b)) :=
  Or.inr (Or.inr ⟨u8 r, u8 g, u8 b, Nat.mod_lt _ (by decide), Nat.mod_lt _ (by decide), Nat.mod_lt _ (by decide), rfl⟩)

theorem ite_ind {α : Type} {P : α → Prop} (c : Prop) [Decidable c] (a b : α) (ha : c → P a) (hb : ¬c → P b) :
    P (if c then a else b) := by
  split
  · exact ha ‹_›
  · exact hb ‹_›

theorem wf_simple (s : Style) (hs : s.wf) (p : Nat) : (simple p s).wf := by
  unfold simple
  repeat' (refine ite_ind (P := Style.wf) _ _ _ (fun _ => ?_) (fun _ => ?_))
  · exact ⟨Or.inl rfl, Or.inl rfl, Or.inl rfl, (by decide : SgrCases.UnderlineOff ≤ 5), (by decide : 0 &&& allAttrs = 0)⟩
  · exact ⟨hs.fg, hs.bg, hs.ul, hs.ulStyle, wf_setBits _ _ _ hs.attr (by decide)⟩
  · exact ⟨hs.fg, hs.bg, hs.ul, hs.ulStyle, wf_setBits _ _ _ hs.attr (by decide)⟩
  · exact ⟨hs.fg, hs.bg, hs.ul, hs.ulStyle, wf_setBits _ _ _ hs.attr (by decide)⟩
  · exact ⟨hs.fg, hs.bg, hs.ul, hs.ulStyle, wf_setBits _ _ _ hs.attr (by decide)⟩
  · exact ⟨hs.fg, hs.bg, hs.ul, hs.ulStyle, wf_setBits _ _ _ hs.attr (by decide)⟩
  · exact ⟨hs.fg, hs.bg, hs.ul, hs.ulStyle, wf_setBits _ _ _ hs.attr (by decide)⟩
  · exact ⟨hs.fg, hs.bg, hs.ul, hs.ulStyle, wf_setBits _ _ _ hs.attr (by decide)⟩
  · exact ⟨hs.fg, hs.bg, hs.ul, hs.ulStyle, wf_clearBits _ _ _ (wf_clearBits _ _ _ hs.attr)⟩
  · exact ⟨hs.fg, hs.bg, hs.ul, hs.ulStyle, wf_clearBits _ _ _ hs.attr⟩
  · exact ⟨hs.fg, hs.bg, hs.ul, (by decide : SgrCases.UnderlineOff ≤ 5), hs.attr⟩
  · exact ⟨hs.fg, hs.bg, hs.ul, hs.ulStyle, wf_clearBits _ _ _ hs.attr⟩
  · exact ⟨hs.fg, hs.bg, hs.ul, hs.ulStyle, wf_clearBits _ _ _ hs.attr⟩
  · exact ⟨hs.fg, hs.bg, hs.ul, hs.ulStyle, wf_clearBits _ _ _ hs.attr⟩
  · exact ⟨hs.fg, hs.bg, hs.ul, hs.ulStyle, wf_clearBits _ _ _ hs.attr⟩
  · exact ⟨wf_index _, hs.bg, hs.ul, hs.ulStyle, hs.attr⟩
  · exact ⟨Or.inl rfl, hs.bg, hs.ul, hs.ulStyle, hs.attr⟩
  · exact ⟨hs.fg, wf_index _, hs.ul, hs.ulStyle, hs.attr⟩
  · exact ⟨hs.fg, Or.inl rfl, hs.ul, hs.ulStyle, hs.attr⟩
  · exact ⟨hs.fg, hs.bg, Or.inl rfl, hs.ulStyle, hs.attr⟩
  · exact ⟨wf_index _, hs.bg, hs.ul, hs.ulStyle, hs.attr⟩
  · exact ⟨hs.fg, wf_index _, hs.ul, hs.ulStyle, hs.attr⟩
  · exact hs

theorem wf_setCol (p : Nat) (s : Style) (c : Color) (hs : s.wf) (hc : Color.wf c) : (setCol p s c).wf := by
  unfold setCol
  repeat' (refine ite_ind (P := Style.wf) _ _ _ (fun _ => ?_) (fun _ => ?_))
  · exact ⟨hc, hs.bg, hs.ul, hs.ulStyle, hs.attr⟩
  · exact ⟨hs.fg, hc, hs.ul, hs.ulStyle, hs.attr⟩
  · exact ⟨hs.fg, hs.bg, hc, hs.ulStyle, hs.attr⟩

/-- On the producers' range an `[][]int` consumer whose labels cover it keeps styles well formed. -/
theorem int_wf (cfg : Cfg) (hc : Covers cfg) (hl1 : ∀ p, p = 38 ∨ p = 48 → cfg.accepts p 1 = true)
    (s : Style) (hs : s.wf) (q : Seq) (hq : emittableLegacy q = true) (s' : Style) (h : intSgr cfg s q = .ok s') : s'.wf := by
  rcases emittableLegacy_cases q hq with hq | ⟨p, n, hp, hn, rfl⟩ | ⟨p, r, g, b, hp, hr, hg, hb, rfl⟩
  · rcases emittable_cases q hq with rfl | ⟨p, hp, rfl⟩ | ⟨n, hn, rfl⟩ | ⟨p, n, hp, hn, rfl⟩ | ⟨p, r, g, b, hp, hr, hg, hb, rfl⟩
    · rw [int_empty cfg s hc.zero] at h; cases h; exact wf_simple s hs 0
    · by_cases h4 : p = 4
      · subst h4
        rw [int_ul1 cfg s (hc.solo 4 hp) hc.ul1] at h; cases h
        exact ⟨hs.fg, hs.bg, hs.ul, (by decide : SgrCases.UnderlineSingle ≤ 5), hs.attr⟩
      · obtain ⟨h38, h48, h58⟩ := solo_ne p hp
        rw [int_solo cfg s p (hc.solo p hp) h38 h48 h58 h4] at h; cases h
        exact wf_simple s hs p
    · rw [int_ul2 cfg s n (hc.solo 4 (by decide)) hc.ul2 (hc.subs n hn)] at h; cases h
      exact ⟨hs.fg, hs.bg, hs.ul, (by rw [ulConst_le n hn]; exact hn : ulConst n ≤ 5), hs.attr⟩
    · obtain ⟨hl, h3, _⟩ := hc.ext p hp
      rw [int_idx cfg s p n hp hl h3 (hc.nums p hp)] at h; cases h
      exact wf_setCol p s _ hs (wf_index n)
    · obtain ⟨hl, _, h5⟩ := hc.ext p hp
      rw [int_rgb cfg s p r g b hp hl h5 (hc.nums p hp)] at h; cases h
      exact wf_setCol p s _ hs (wf_rgb r g b)
  · have hp' : p = 38 ∨ p = 48 ∨ p = 58 := by rcases hp with h | h <;> simp [h]
    obtain ⟨hl, _, _⟩ := hc.ext p hp'
    rw [int_idx_legacy cfg s p n hp' hl (hl1 p hp) (hc.nums p hp')] at h; cases h
    exact wf_setCol p s _ hs (wf_index n)
  · have hp' : p = 38 ∨ p = 48 ∨ p = 58 := by rcases hp with h | h <;> simp [h]
    obtain ⟨hl, _, _⟩ := hc.ext p hp'
    rw [int_rgb_legacy cfg s p r g b hp' hl (hl1 p hp) (hc.nums p hp')] at h; cases h
    exact wf_setCol p s _ hs (wf_rgb r g b)

/-! ## `shown` is injective on well-formed styles -/

theorem col_wf_cases (c : Color) (h : Color.wf c) :
    (c = 0 ∧ col c = .default) ∨ (∃ i, i < 256 ∧ c = indexColor i ∧ col c = .idx i) ∨
    (∃ r g b, r < 256 ∧ g < 256 ∧ b < 256 ∧ c = rgbColor r g b ∧ col c = .rgb r g b) := by
  rcases h with rfl | ⟨i, hi, rfl⟩ | ⟨r, g, b, hr, hg, hb, rfl⟩
  · exact Or.inl ⟨rfl, col_zero⟩
  · exact Or.inr (Or.inl ⟨i, hi, rfl, col_indexColor i hi⟩)
  · exact Or.inr (Or.inr ⟨r, g, b, hr, hg, hb, rfl, col_rgbColor r g b hr hg hb⟩)

theorem col_inj (c d : Color) (hc : Color.wf c) (hd : Color.wf d) (h : col c = col d) : c = d := by
  rcases col_wf_cases c hc with ⟨hc0, e1⟩ | ⟨i, _, hci, e1⟩ | ⟨r, g, b, _, _, _, hcr, e1⟩ <;>
  rcases col_wf_cases d hd with ⟨hd0, e2⟩ | ⟨j, _, hdj, e2⟩ | ⟨r', g', b', _, _, _, hdr, e2⟩ <;>
  rw [e1, e2] at h
  · rw [hc0, hd0]
  · cases h
  · cases h
  · cases h
  · cases h; rw [hci, hdj]
  · cases h
  · cases h
  · cases h
  · cases h; rw [hcr, hdr]

theorem allAttrs_bits (i : Nat) (h : allAttrs.testBit i = true) : 1 ≤ i ∧ i ≤ 7 := by
  by_cases h8 : i < 8
  · have : i = 0 ∨ i = 1 ∨ i = 2 ∨ i = 3 ∨ i = 4 ∨ i = 5 ∨ i = 6 ∨ i = 7 := by omega
    rcases this with rfl | rfl | rfl | rfl | rfl | rfl | rfl | rfl <;> first | omega | (revert h; decide)
  · have hlt : allAttrs < 2 ^ i := by
      have h1 : allAttrs < 2 ^ 8 := by decide
      have h2 : 2 ^ 8 ≤ 2 ^ i := Nat.pow_le_pow_right (by decide) (by omega)
      omega
    rw [Nat.testBit_lt_two_pow hlt] at h; cases h

theorem attr_inj (a b : Nat) (ha : a &&& allAttrs = a) (hb : b &&& allAttrs = b)
    (h : ∀ i, 1 ≤ i → i ≤ 7 → a.testBit i = b.testBit i) : a = b := by
  apply Nat.eq_of_testBit_eq
  intro i
  by_cases hi : 1 ≤ i ∧ i ≤ 7
  · exact h i hi.1 hi.2
  · have hf : allAttrs.testBit i = false := by
      cases hx : allAttrs.testBit i
      · rfl
      · exact absurd (allAttrs_bits i hx) hi
    rw [← ha, ← hb, Nat.testBit_and, Nat.testBit_and, hf]; simp

theorem shown_inj (s s' : Style) (hs : s.wf) (hs' : s'.wf) (h : shown s = shown s') : s = s' := by
  obtain ⟨fg, bg, ul, us, a⟩ := s
  obtain ⟨fg', bg', ul', us', a'⟩ := s'
  simp only [shown, TStyle.mk.injEq, has_bold, has_dim, has_italic, has_blink, has_reverse, has_invisible, has_strike] at h
  obtain ⟨h1, h2, h3, h4, b1, b2, b3, b4, b5, b6, b7⟩ := h
  have e1 := col_inj fg fg' hs.fg hs'.fg h1
  have e2 := col_inj bg bg' hs.bg hs'.bg h2
  have e3 := col_inj ul ul' hs.ul hs'.ul h3
  have e5 : a = a' := attr_inj a a' hs.attr hs'.attr (by
    intro i h1 h7
    have : i = 1 ∨ i = 2 ∨ i = 3 ∨ i = 4 ∨ i = 5 ∨ i = 6 ∨ i = 7 := by omega
    rcases this with rfl | rfl | rfl | rfl | rfl | rfl | rfl <;> assumption)
  subst e1 e2 e3 h4 e5
  rfl

/-! ## The producers' range -/

theorem params_cases' (c : Color) :
    params c = [] ∨ (∃ i, i < 256 ∧ params c = [i]) ∨
    (∃ r g b, r < 256 ∧ g < 256 ∧ b < 256 ∧ params c = [r, g, b]) := by
  unfold params
  split
  · exact Or.inr (Or.inl ⟨c % 256, Nat.mod_lt _ (by decide), rfl⟩)
  split
  · exact Or.inr (Or.inr ⟨_, _, _, Nat.mod_lt _ (by decide), Nat.mod_lt _ (by decide), Nat.mod_lt _ (by decide), rfl⟩)
  · exact Or.inl rfl

theorem em_basic (k i : Nat) (hk : k = 30 ∨ k = 40 ∨ k = 90 ∨ k = 100) (hi : i < 8) : emittable [[k + i]] = true := by
  rcases hk with rfl | rfl | rfl | rfl <;>
  rcases lt8 i hi with rfl | rfl | rfl | rfl | rfl | rfl | rfl | rfl <;> decide

theorem em_idx (p n : Nat) (hp : p = 38 ∨ p = 48 ∨ p = 58) (hn : n < 256) : emittable [[p, 5, n]] = true := by
  rcases hp with rfl | rfl | rfl <;> simp [emittable, isExt, hn]
theorem em_rgb (p r g b : Nat) (hp : p = 38 ∨ p = 48 ∨ p = 58) (hr : r < 256) (hg : g < 256) (hb : b < 256) :
    emittable [[p, 2, r, g, b]] = true := by
  rcases hp with rfl | rfl | rfl <;> simp [emittable, isExt, hr, hg, hb]
theorem eml_of_em (q : Seq) (h : emittable q = true) : emittableLegacy q = true := by
  unfold emittableLegacy; rw [h]; rfl
theorem eml_idx (p n : Nat) (hp : p = 38 ∨ p = 48) (hn : n < 256) : emittableLegacy [[p], [5], [n]] = true := by
  rcases hp with rfl | rfl <;> simp [emittableLegacy, emittable, hn]
theorem eml_rgb (p r g b : Nat) (hp : p = 38 ∨ p = 48) (hr : r < 256) (hg : g < 256) (hb : b < 256) :
    emittableLegacy [[p], [2], [r], [g], [b]] = true := by
  rcases hp with rfl | rfl <;> simp [emittableLegacy, emittable, hr, hg, hb]

theorem fg_range (legacy : Bool) (c : Color) :
    ∀ x ∈ colourSeq Sequences.fgReset_t Sequences.fgSet_t Sequences.fgBrightSet_t
      (q legacy Sequences.fgIndexSet_t) (q legacy Sequences.fgRGBSet_t) c, emittableLegacy x = true := by
  intro x hx
  unfold colourSeq at hx
  rcases params_cases' c with h | ⟨i, hi, h⟩ | ⟨r, g, b, hr, hg, hb, h⟩
  · rw [h] at hx; simp only [fmt_fgReset, List.mem_singleton] at hx; subst hx; decide
  · rw [h] at hx; simp only [] at hx
    by_cases h8 : i < 8
    · simp only [h8, if_true, fmt_fgSet i h8, List.mem_singleton] at hx; subst hx
      exact eml_of_em _ (em_basic 30 i (by simp) h8)
    · by_cases h16 : i < 16
      · have h' : i - 8 < 8 := by omega
        simp only [h8, h16, if_true, if_false, fmt_fgBrightSet _ h', List.mem_singleton] at hx; subst hx
        exact eml_of_em _ (em_basic 90 _ (by simp) h')
      · simp only [h8, h16, if_false, List.mem_singleton] at hx; subst hx
        cases legacy
        · simp only [q, Bool.false_eq_true, ↓reduceIte, fmt_fgIndexSet]; exact eml_of_em _ (em_idx 38 i (by simp) hi)
        · simp only [q, ↓reduceIte, fmt_fgIndexSet_legacy]; exact eml_idx 38 i (by simp) hi
  · rw [h] at hx; simp only [List.mem_singleton] at hx; subst hx
    cases legacy
    · simp only [q, Bool.false_eq_true, ↓reduceIte, fmt_fgRGBSet]; exact eml_of_em _ (em_rgb 38 r g b (by simp) hr hg hb)
    · simp only [q, ↓reduceIte, fmt_fgRGBSet_legacy]; exact eml_rgb 38 r g b (by simp) hr hg hb

theorem bg_range (legacy : Bool) (c : Color) :
    ∀ x ∈ colourSeq Sequences.bgReset_t Sequences.bgSet_t Sequences.bgBrightSet_t
      (q legacy Sequences.bgIndexSet_t) (q legacy Sequences.bgRGBSet_t) c, emittableLegacy x = true := by
  intro x hx
  unfold colourSeq at hx
  rcases params_cases' c with h | ⟨i, hi, h⟩ | ⟨r, g, b, hr, hg, hb, h⟩
  · rw [h] at hx; simp only [fmt_bgReset, List.mem_singleton] at hx; subst hx; decide
  · rw [h] at hx; simp only [] at hx
    by_cases h8 : i < 8
    · simp only [h8, if_true, fmt_bgSet i h8, List.mem_singleton] at hx; subst hx
      exact eml_of_em _ (em_basic 40 i (by simp) h8)
    · by_cases h16 : i < 16
      · have h' : i - 8 < 8 := by omega
        simp only [h8, h16, if_true, if_false, fmt_bgBrightSet _ h', List.mem_singleton] at hx; subst hx
        exact eml_of_em _ (em_basic 100 _ (by simp) h')
      · simp only [h8, h16, if_false, List.mem_singleton] at hx; subst hx
        cases legacy
        · simp only [q, Bool.false_eq_true, ↓reduceIte, fmt_bgIndexSet]; exact eml_of_em _ (em_idx 48 i (by simp) hi)
        · simp only [q, ↓reduceIte, fmt_bgIndexSet_legacy]; exact eml_idx 48 i (by simp) hi
  · rw [h] at hx; simp only [List.mem_singleton] at hx; subst hx
    cases legacy
    · simp only [q, Bool.false_eq_true, ↓reduceIte, fmt_bgRGBSet]; exact eml_of_em _ (em_rgb 48 r g b (by simp) hr hg hb)
    · simp only [q, ↓reduceIte, fmt_bgRGBSet_legacy]; exact eml_rgb 48 r g b (by simp) hr hg hb

theorem ul_range (c : Color) : ∀ x ∈ ulColourSeq c, emittable x = true := by
  intro x hx
  unfold ulColourSeq at hx
  rcases params_cases' c with h | ⟨i, hi, h⟩ | ⟨r, g, b, hr, hg, hb, h⟩
  · rw [h] at hx; simp only [fmt_ulColorReset, List.mem_singleton] at hx; subst hx; decide
  · rw [h] at hx; simp only [fmt_ulIndexSet, List.mem_singleton] at hx; subst hx; exact em_idx 58 i (by simp) hi
  · rw [h] at hx; simp only [fmt_ulRGBSet, List.mem_singleton] at hx; subst hx; exact em_rgb 58 r g b (by simp) hr hg hb

theorem mem_opt (x y : Seq) (c : Bool) (h : x ∈ opt c y) : x = y := by
  cases c <;> simp [opt] at h; exact h

theorem attr_range (a b : Nat) : ∀ x ∈ attrDelta a b, emittable x = true := by
  intro x hx
  unfold attrDelta at hx
  split at hx
  · unfold attrBody at hx
    simp only [boldSetQ_eq, dimSetQ_eq, italicSetQ_eq, blinkSetQ_eq, reverseSetQ_eq, hiddenSetQ_eq,
      strikethroughSetQ_eq, boldDimResetQ_eq, italicResetQ_eq, blinkResetQ_eq, reverseResetQ_eq, hiddenResetQ_eq,
      strikethroughResetQ_eq, List.mem_append] at hx
    rcases hx with h | h | h | h | h | h | h | h | h | h | h | h | h | h
    all_goals first
      | (have := mem_opt _ _ _ h; subst this; decide)
      | (split at h
         · rcases List.mem_cons.mp h with rfl | h'
           · decide
           · have := mem_opt _ _ _ h'; subst this; decide
         · cases h)
  · cases hx


theorem encodeDelta_range (legacy : Bool) (p n : Style) (hn : n.ulStyle ≤ 5) :
    ∀ x ∈ encodeDelta legacy p n, emittableLegacy x = true := by
  intro x hx
  unfold encodeDelta at hx
  simp only [List.mem_append] at hx
  rcases hx with h | h | h | h | h
  · split at h
    · exact fg_range legacy _ x h
    · cases h
  · split at h
    · exact bg_range legacy _ x h
    · cases h
  · split at h
    · exact eml_of_em _ (ul_range _ x h)
    · cases h
  · exact eml_of_em _ (attr_range _ _ x h)
  · split at h
    · simp only [fmt_ulStyleSet, List.mem_singleton] at h; subst h
      exact eml_of_em _ (by simp [emittable, hn])
    · cases h

/-- Applying a consumer to a list of sequences, one after the other. -/
def foldC (f : Style → Seq → Except Panic Style) : Style → List Seq → Except Panic Style
  | s, [] => .ok s
  | s, x :: l =>
    match f s x with
    | .ok s' => foldC f s' l
    | .error e => .error e

theorem parseToks_sgrs {γ : Type} (f : Style → Seq → Except Panic Style) (l : List Seq) (rest : List (Tok Seq γ)) :
    ∀ s, parseToks f s (l.map Tok.sgr ++ rest) =
      match foldC f s l with
      | .ok s' => parseToks f s' rest
      | .error e => .error e := by
  induction l with
  | nil => intro s; rfl
  | cons x l ih =>
    intro s
    simp only [List.map_cons, List.cons_append, parseToks, foldC]
    cases f s x with
    | error e => rfl
    | ok s' => exact ih s'

theorem fold_refines (cfg : Cfg) (hc : Covers cfg) (hl1 : ∀ p, p = 38 ∨ p = 48 → cfg.accepts p 1 = true)
    (l : List Seq) (hl : ∀ x ∈ l, emittableLegacy x = true) :
    ∀ s, s.wf → ∃ s', foldC (intSgr cfg) s l = .ok s' ∧ s'.wf ∧ shown s' = apply (shown s) l := by
  induction l with
  | nil => intro s hs; exact ⟨s, rfl, hs, rfl⟩
  | cons x l ih =>
    intro s hs
    obtain ⟨s1, h1, e1⟩ := int_refines_legacy cfg hc hl1 s x (hl x (List.mem_cons_self ..))
    have w1 := int_wf cfg hc hl1 s hs x (hl x (List.mem_cons_self ..)) s1 h1
    obtain ⟨s2, h2, w2, e2⟩ := ih (fun y hy => hl y (List.mem_cons_of_mem _ hy)) s1 w1
    refine ⟨s2, ?_, w2, ?_⟩
    · simp only [foldC, h1, h2]
    · rw [e2, e1]; rfl

theorem delta_roundtrip (cfg : Cfg) (hc : Covers cfg) (hl1 : ∀ p, p = 38 ∨ p = 48 → cfg.accepts p 1 = true)
    (legacy : Bool) (s n : Style) (hs : s.wf) (hn : n.wf) :
    foldC (intSgr cfg) s (encodeDelta legacy s n) = .ok n := by
  obtain ⟨s', h, w, e⟩ := fold_refines cfg hc hl1 _ (encodeDelta_range legacy s n hn.ulStyle) s hs
  rw [encodeDelta_correct legacy s n hn.ulStyle] at e
  rw [h, shown_inj s' n w hn e]

theorem wf_default : Style.wf {} :=
  ⟨Or.inl rfl, Or.inl rfl, Or.inl rfl, (by decide : (0 : Nat) ≤ 5), (by decide : 0 &&& allAttrs = 0)⟩

theorem roundtrip_generic {γ : Type} (f : Style → Seq → Except Panic Style) (delta : Style → Style → List Seq)
    (hdelta : ∀ s n, s.wf → n.wf → foldC f s (delta s n) = .ok n)
    (hreset : ∀ s, ∃ s', f s [] = .ok s') :
    ∀ (cs : List (Cell γ)) (s : Style), s.wf → (∀ c ∈ cs, c.st.wf) →
      parseToks f s (encodeFrom delta s cs) = .ok cs := by
  intro cs
  induction cs with
  | nil =>
    intro s _ _
    unfold encodeFrom
    split
    · obtain ⟨s', h⟩ := hreset s
      simp only [sgrResetQ_eq, parseToks, h]
    · rfl
  | cons c cs ih =>
    intro s hs hcs
    have hc : c.st.wf := hcs c (List.mem_cons_self ..)
    unfold encodeFrom
    rw [parseToks_sgrs, hdelta s c.st hs hc]
    simp only [parseToks, ih c.st hc (fun d hd => hcs d (List.mem_cons_of_mem _ hd))]

/-! ## NewStyledString on the producers' range -/

theorem u8i_nat (n : Nat) : u8i (n : Int) = u8 n := by
  unfold u8i u8
  omega

theorem ss_empty (dflt s : Style) : ssSeq dflt s [] = .ok dflt := rfl

theorem ss_solo (cfg : Cfg) (dflt s : Style) (p : Nat) (hl : p ∈ cfg.labels) (h0 : p ≠ 0)
    (h38 : p ≠ 38) (h48 : p ≠ 48) (h58 : p ≠ 58) (h4 : p ≠ 4) :
    ssLoop cfg dflt [[tokN p]] s = .ok (simple p s) := by
  simp [ssLoop, ssLoopK, ssOne, idx, tokN, hl, h0, h38, h48, h58, h4]

theorem ss_ul1 (cfg : Cfg) (dflt s : Style) (hl : 4 ∈ cfg.labels) (ha : cfg.accepts 4 1 = true) :
    ssLoop cfg dflt [[tokN 4]] s = .ok { s with ulStyle := SgrCases.UnderlineSingle } := by
  simp [ssLoop, ssLoopK, ssOne, idx, tokN, hl, ha]

theorem ss_ul2 (cfg : Cfg) (dflt s : Style) (n : Nat) (hl : 4 ∈ cfg.labels) (ha : cfg.accepts 4 2 = true)
    (hs : n ∈ cfg.ulSubs) :
    ssLoop cfg dflt [[tokN 4, tokN n]] s = .ok { s with ulStyle := ulConst n } := by
  simp [ssLoop, ssLoopK, ssOne, idx, tokN, hl, ha, hs]

theorem ss_idx (cfg : Cfg) (dflt s : Style) (p n : Nat) (hp : p = 38 ∨ p = 48 ∨ p = 58)
    (hl : p ∈ cfg.labels) (ha : cfg.accepts p 3 = true) :
    ssLoop cfg dflt [[tokN p, tokN 5, tokN n]] s = .ok (setCol p s (indexColor (u8 n))) := by
  rcases hp with rfl | rfl | rfl <;>
    simp [ssLoop, ssLoopK, ssOne, idx, tokN, hl, ssColour, ha, setCol, u8i_nat]

theorem ss_rgb (cfg : Cfg) (dflt s : Style) (p r g b : Nat) (hp : p = 38 ∨ p = 48 ∨ p = 58)
    (hl : p ∈ cfg.labels) (ha : cfg.accepts p 5 = true) :
    ssLoop cfg dflt [[tokN p, tokN 2, tokN r, tokN g, tokN b]] s = .ok (setCol p s (rgbColor (u8 r) (u8 g) (u8 b))) := by
  rcases hp with rfl | rfl | rfl <;>
    simp [ssLoop, ssLoopK, ssOne, idx, tokN, hl, ssColour, ha, setCol, u8i_nat]

theorem ss_idx_legacy (cfg : Cfg) (dflt s : Style) (p n : Nat) (hp : p = 38 ∨ p = 48 ∨ p = 58)
    (hl : p ∈ cfg.labels) (ha : cfg.accepts p 1 = true) :
    ssLoop cfg dflt [[tokN p], [tokN 5], [tokN n]] s = .ok (setCol p s (indexColor (u8 n))) := by
  rcases hp with rfl | rfl | rfl <;>
    simp [ssLoop, ssLoopK, ssOne, idx, tokN, hl, ssColour, ssLegacy, rawIs, rawAtoi, ha, setCol, u8i_nat]

theorem ss_rgb_legacy (cfg : Cfg) (dflt s : Style) (p r g b : Nat) (hp : p = 38 ∨ p = 48 ∨ p = 58)
    (hl : p ∈ cfg.labels) (ha : cfg.accepts p 1 = true) :
    ssLoop cfg dflt [[tokN p], [tokN 2], [tokN r], [tokN g], [tokN b]] s =
      .ok (setCol p s (rgbColor (u8 r) (u8 g) (u8 b))) := by
  rcases hp with rfl | rfl | rfl <;>
    simp [ssLoop, ssLoopK, ssOne, idx, tokN, hl, ssColour, ssLegacy, rawIs, rawAtoi, ha, setCol, u8i_nat]

theorem shown_default : shown {} = TStyle.reset := by
  simp [shown, TStyle.reset, col_zero, has]

theorem solo_ne0 (p : Nat) (hp : p ∈ soloCodes) : p ≠ 0 := by
  intro h; subst h; revert hp; decide

/-- `NewStyledString` (default style = the zero style) refines the spec on the colon-form range and
    keeps styles well formed. -/
theorem ss_refines (hc : Covers ssCfg) (s : Style) (x : Seq) (hx : emittable x = true) :
    ∃ s', ssSeq {} s x = .ok s' ∧ shown s' = Spec.sgr (shown s) x ∧ (s.wf → s'.wf) := by
  rcases emittable_cases x hx with rfl | ⟨p, hp, rfl⟩ | ⟨n, hn, rfl⟩ | ⟨p, n, hp, hn, rfl⟩ | ⟨p, r, g, b, hp, hr, hg, hb, rfl⟩
  · exact ⟨{}, rfl, shown_default, fun _ => wf_default⟩
  · by_cases h4 : p = 4
    · subst h4
      refine ⟨_, ss_ul1 ssCfg {} s (hc.solo 4 hp) hc.ul1, rfl, fun hs => ?_⟩
      exact ⟨hs.fg, hs.bg, hs.ul, (by decide : SgrCases.UnderlineSingle ≤ 5), hs.attr⟩
    · obtain ⟨h38, h48, h58⟩ := solo_ne p hp
      refine ⟨_, ss_solo ssCfg {} s p (hc.solo p hp) (solo_ne0 p hp) h38 h48 h58 h4, ?_, fun hs => wf_simple s hs p⟩
      rw [shown_simple s p hp h4, sgr_solo _ p h38 h48 h58 h4]
  · refine ⟨_, ss_ul2 ssCfg {} s n (hc.solo 4 (by decide)) hc.ul2 (hc.subs n hn), ?_, fun hs => ?_⟩
    · rw [ulConst_le n hn]
      simp [Spec.sgr, sgrStep, hn, shown]
    · exact ⟨hs.fg, hs.bg, hs.ul, (by rw [ulConst_le n hn]; exact hn : ulConst n ≤ 5), hs.attr⟩
  · obtain ⟨hl, h3, _⟩ := hc.ext p hp
    refine ⟨_, ss_idx ssCfg {} s p n hp hl h3, ?_, fun hs => wf_setCol p s _ hs (wf_index n)⟩
    rw [shown_setCol p hp, u8_lt n hn, col_indexColor n hn, spec_idx p n hp]
  · obtain ⟨hl, _, h5⟩ := hc.ext p hp
    refine ⟨_, ss_rgb ssCfg {} s p r g b hp hl h5, ?_, fun hs => wf_setCol p s _ hs (wf_rgb r g b)⟩
    rw [shown_setCol p hp, u8_lt r hr, u8_lt g hg, u8_lt b hb, col_rgbColor r g b hr hg hb, spec_rgb p r g b hp]


/-- Since the `fix:` for F118 `NewStyledString` also reads the legacy semicolon forms. -/
theorem ss_refines_legacy (hc : Covers ssCfg) (hl1 : ∀ p, p = 38 ∨ p = 48 → ssCfg.accepts p 1 = true)
    (s : Style) (x : Seq) (hx : emittableLegacy x = true) :
    ∃ s', ssSeq {} s x = .ok s' ∧ shown s' = Spec.sgr (shown s) x ∧ (s.wf → s'.wf) := by
  rcases emittableLegacy_cases x hx with h | ⟨p, n, hp, hn, rfl⟩ | ⟨p, r, g, b, hp, hr, hg, hb, rfl⟩
  · exact ss_refines hc s x h
  · have hp' : p = 38 ∨ p = 48 ∨ p = 58 := by rcases hp with h | h <;> simp [h]
    obtain ⟨hl, _, _⟩ := hc.ext p hp'
    refine ⟨_, ss_idx_legacy ssCfg {} s p n hp' hl (hl1 p hp), ?_, fun hs => wf_setCol p s _ hs (wf_index n)⟩
    rw [shown_setCol p hp', u8_lt n hn, col_indexColor n hn, spec_idx_legacy p n hp']
  · have hp' : p = 38 ∨ p = 48 ∨ p = 58 := by rcases hp with h | h <;> simp [h]
    obtain ⟨hl, _, _⟩ := hc.ext p hp'
    refine ⟨_, ss_rgb_legacy ssCfg {} s p r g b hp' hl (hl1 p hp), ?_, fun hs => wf_setCol p s _ hs (wf_rgb r g b)⟩
    rw [shown_setCol p hp', u8_lt r hr, u8_lt g hg, u8_lt b hb, col_rgbColor r g b hr hg hb, spec_rgb_legacy p r g b hp']

/-! ## Ranges of the other producers -/

theorem colour_range_gen (P : Seq → Prop) (hP : ∀ x, emittable x = true → P x)
    (resetT setT brightT idxT rgbT : Sequences.Template) (k kb : Nat)
    (hk : k = 30 ∨ k = 40 ∨ k = 90 ∨ k = 100) (hkb : kb = 30 ∨ kb = 40 ∨ kb = 90 ∨ kb = 100)
    (hreset : emittable (fmt resetT []) = true)
    (hset : ∀ i, i < 8 → fmt setT [i] = [[k + i]]) (hbright : ∀ i, i < 8 → fmt brightT [i] = [[kb + i]])
    (hidx : ∀ n, n < 256 → P (fmt idxT [n]))
    (hrgb : ∀ r g b, r < 256 → g < 256 → b < 256 → P (fmt rgbT [r, g, b])) (c : Color) :
    ∀ x ∈ colourSeq resetT setT brightT idxT rgbT c, P x := by
  intro x hx
  unfold colourSeq at hx
  rcases params_cases' c with h | ⟨i, hi, h⟩ | ⟨r, g, b, hr, hg, hb, h⟩
  · rw [h] at hx; simp only [List.mem_singleton] at hx; subst hx; exact hP _ hreset
  · rw [h] at hx; simp only [] at hx
    by_cases h8 : i < 8
    · simp only [h8, if_true, hset i h8, List.mem_singleton] at hx; subst hx
      exact hP _ (em_basic k i hk h8)
    · by_cases h16 : i < 16
      · have h' : i - 8 < 8 := by omega
        simp only [h8, h16, if_true, if_false, hbright _ h', List.mem_singleton] at hx; subst hx
        exact hP _ (em_basic kb _ hkb h')
      · simp only [h8, h16, if_false, List.mem_singleton] at hx; subst hx
        exact hidx i hi
  · rw [h] at hx; simp only [List.mem_singleton] at hx; subst hx
    exact hrgb r g b hr hg hb

theorem ssDelta_range (legacy : Bool) (p n : Style) (hn : n.ulStyle ≤ 5) : ∀ x ∈ ssDelta legacy p n, emittable x = true := by
  intro x hx
  unfold ssDelta at hx
  simp only [List.mem_append] at hx
  rcases hx with h | h | h | h | h
  · split at h
    · exact colour_range_gen (fun x => emittable x = true) (fun _ h => h) _ _ _ _ _ 30 90 (by simp) (by simp)
        (by rw [fmt_fgReset]; decide) fmt_fgSet fmt_fgBrightSet
        (fun n hn => by rw [fmt_ssFgIndexSet legacy]; exact em_idx 38 n (by simp) hn)
        (fun r g b hr hg hb => by rw [fmt_ssFgRGBSet legacy]; exact em_rgb 38 r g b (by simp) hr hg hb) _ x h
    · cases h
  · split at h
    · exact colour_range_gen (fun x => emittable x = true) (fun _ h => h) _ _ _ _ _ 40 100 (by simp) (by simp)
        (by rw [fmt_bgReset]; decide) fmt_bgSet fmt_bgBrightSet
        (fun n hn => by rw [fmt_ssBgIndexSet legacy]; exact em_idx 48 n (by simp) hn)
        (fun r g b hr hg hb => by rw [fmt_ssBgRGBSet legacy]; exact em_rgb 48 r g b (by simp) hr hg hb) _ x h
    · cases h
  · split at h
    · exact ul_range _ x h
    · cases h
  · exact attr_range _ _ x h
  · split at h
    · simp only [fmt_ulStyleSet, List.mem_singleton] at h; subst h
      simp [emittable, hn]
    · cases h

theorem renderDelta_range (rgb su legacy : Bool) (p n : Style) (hn : n.ulStyle ≤ 5) :
    ∀ x ∈ renderDelta rgb su legacy p n, emittableLegacy x = true := by
  intro x hx
  unfold renderDelta at hx
  simp only [List.mem_append] at hx
  rcases hx with h | h | h | h | h
  · split at h
    · exact fg_range legacy _ x h
    · cases h
  · split at h
    · exact bg_range legacy _ x h
    · cases h
  · split at h
    · split at h
      · exact eml_of_em _ (ul_range _ x h)
      · cases h
    · cases h
  · exact eml_of_em _ (attr_range _ _ x h)
  · split at h
    · split at h
      · simp only [fmt_ulStyleSet, List.mem_singleton] at h; subst h
        exact eml_of_em _ (by simp [emittable, hn])
      · split at h
        · simp only [underlineResetQ_eq, List.mem_singleton] at h; subst h; decide
        · simp only [underlineSetQ_eq, List.mem_singleton] at h; subst h; decide
    · cases h

/-! ## StyledString round trip, resets -/

theorem ss_fold_refines (hc : Covers ssCfg) (l : List Seq) (hl : ∀ x ∈ l, emittable x = true) :
    ∀ s, s.wf → ∃ s', foldC (ssSeq {}) s l = .ok s' ∧ s'.wf ∧ shown s' = apply (shown s) l := by
  induction l with
  | nil => intro s hs; exact ⟨s, rfl, hs, rfl⟩
  | cons x l ih =>
    intro s hs
    obtain ⟨s1, h1, e1, w1⟩ := ss_refines hc s x (hl x (List.mem_cons_self ..))
    obtain ⟨s2, h2, w2, e2⟩ := ih (fun y hy => hl y (List.mem_cons_of_mem _ hy)) s1 (w1 hs)
    refine ⟨s2, ?_, w2, ?_⟩
    · simp only [foldC, h1, h2]
    · rw [e2, e1]; rfl

theorem ss_delta_roundtrip (hc : Covers ssCfg) (legacy : Bool) (s n : Style) (hs : s.wf) (hn : n.wf) :
    foldC (ssSeq {}) s (ssDelta legacy s n) = .ok n := by
  obtain ⟨s', h, w, e⟩ := ss_fold_refines hc _ (ssDelta_range legacy s n hn.ulStyle) s hs
  rw [ssDelta_correct legacy s n hn.ulStyle] at e
  rw [h, shown_inj s' n w hn e]

theorem ss_fold_refines_legacy (hc : Covers ssCfg) (hl1 : ∀ p, p = 38 ∨ p = 48 → ssCfg.accepts p 1 = true)
    (l : List Seq) (hl : ∀ x ∈ l, emittableLegacy x = true) :
    ∀ s, s.wf → ∃ s', foldC (ssSeq {}) s l = .ok s' ∧ s'.wf ∧ shown s' = apply (shown s) l := by
  induction l with
  | nil => intro s hs; exact ⟨s, rfl, hs, rfl⟩
  | cons x l ih =>
    intro s hs
    obtain ⟨s1, h1, e1, w1⟩ := ss_refines_legacy hc hl1 s x (hl x (List.mem_cons_self ..))
    obtain ⟨s2, h2, w2, e2⟩ := ih (fun y hy => hl y (List.mem_cons_of_mem _ hy)) s1 (w1 hs)
    refine ⟨s2, ?_, w2, ?_⟩
    · simp only [foldC, h1, h2]
    · rw [e2, e1]; rfl

/-- `NewStyledString` reads what `EncodeCells` writes, with or without the legacy quirk. -/
theorem ss_delta_roundtrip_cells (hc : Covers ssCfg) (hl1 : ∀ p, p = 38 ∨ p = 48 → ssCfg.accepts p 1 = true)
    (legacy : Bool) (s n : Style) (hs : s.wf) (hn : n.wf) :
    foldC (ssSeq {}) s (encodeDelta legacy s n) = .ok n := by
  obtain ⟨s', h, w, e⟩ := ss_fold_refines_legacy hc hl1 _ (encodeDelta_range legacy s n hn.ulStyle) s hs
  rw [encodeDelta_correct legacy s n hn.ulStyle] at e
  rw [h, shown_inj s' n w hn e]

/-- `parseSGR` / the embedded terminal read what `StyledString.Encode` writes. -/
theorem delta_roundtrip_ss (cfg : Cfg) (hc : Covers cfg) (hl1 : ∀ p, p = 38 ∨ p = 48 → cfg.accepts p 1 = true)
    (legacy : Bool) (s n : Style) (hs : s.wf) (hn : n.wf) :
    foldC (intSgr cfg) s (ssDelta legacy s n) = .ok n := by
  obtain ⟨s', h, w, e⟩ := fold_refines cfg hc hl1 _
    (fun x hx => eml_of_em x (ssDelta_range legacy s n hn.ulStyle x hx)) s hs
  rw [ssDelta_correct legacy s n hn.ulStyle] at e
  rw [h, shown_inj s' n w hn e]

theorem ssParseToks_sgrs {γ : Type} (f : Style → Seq → Except Panic Style) (l : List Seq) (rest : List (Tok Seq γ))
    (hrest : rest ≠ []) :
    ∀ s, ssParseToks f s (l.map Tok.sgr ++ rest) =
      match foldC f s l with
      | .ok s' => ssParseToks f s' rest
      | .error e => .error e := by
  induction l with
  | nil => intro s; rfl
  | cons x l ih =>
    intro s
    have hne : (List.map Tok.sgr l ++ rest).isEmpty = false := by
      cases l <;> cases rest <;> simp_all
    simp only [List.map_cons, List.cons_append, ssParseToks, foldC, hne]
    cases f s x with
    | error e => rfl
    | ok s' => exact ih s'

theorem ss_roundtrip_generic {γ : Type} (f : Style → Seq → Except Panic Style) (delta : Style → Style → List Seq)
    (hdelta : ∀ s n, s.wf → n.wf → foldC f s (delta s n) = .ok n) :
    ∀ (cs : List (Cell γ)) (s : Style), s.wf → (∀ c ∈ cs, c.st.wf) →
      ssParseToks f s (encodeFrom delta s cs) = .ok cs := by
  intro cs
  induction cs with
  | nil =>
    intro s _ _
    unfold encodeFrom
    split
    · simp [ssParseToks]
    · rfl
  | cons c cs ih =>
    intro s hs hcs
    have hc : c.st.wf := hcs c (List.mem_cons_self ..)
    unfold encodeFrom
    rw [ssParseToks_sgrs f _ _ (by simp), hdelta s c.st hs hc]
    simp only [ssParseToks, ih c.st hc (fun d hd => hcs d (List.mem_cons_of_mem _ hd))]

theorem penAfter_sgrs {γ : Type} (f : Style → Seq → Except Panic Style) (l : List Seq) (rest : List (Tok Seq γ)) :
    ∀ s, penAfter f s (l.map Tok.sgr ++ rest) =
      match foldC f s l with
      | .ok s' => penAfter f s' rest
      | .error e => .error e := by
  induction l with
  | nil => intro s; rfl
  | cons x l ih =>
    intro s
    simp only [List.map_cons, List.cons_append, penAfter, foldC]
    cases f s x with
    | error e => rfl
    | ok s' => exact ih s'

theorem ends_reset_generic {γ : Type} (f : Style → Seq → Except Panic Style) (delta : Style → Style → List Seq)
    (hdelta : ∀ s n, s.wf → n.wf → foldC f s (delta s n) = .ok n)
    (hreset : ∀ s, f s [] = .ok {}) :
    ∀ (cs : List (Cell γ)) (s : Style), s.wf → (∀ c ∈ cs, c.st.wf) →
      penAfter f s (encodeFrom delta s cs) = .ok {} := by
  intro cs
  induction cs with
  | nil =>
    intro s _ _
    unfold encodeFrom
    split
    · simp only [sgrResetQ_eq, penAfter, hreset]
    · rename_i h
      have : s = {} := by simpa using h
      subst this; rfl
  | cons c cs ih =>
    intro s hs hcs
    have hc : c.st.wf := hcs c (List.mem_cons_self ..)
    unfold encodeFrom
    rw [penAfter_sgrs, hdelta s c.st hs hc]
    simp only [penAfter]
    exact ih c.st hc (fun d hd => hcs d (List.mem_cons_of_mem _ hd))

theorem simple_zero (s : Style) : simple 0 s = {} := rfl

/-! ## What a terminal shows while it receives an encoded string -/

/-- The pen `Spec.sgr` gives at every grapheme of a token sequence, and the final pen. -/
def specRun {γ : Type} : TStyle → List (Tok Seq γ) → List (γ × TStyle) × TStyle
  | t, [] => ([], t)
  | t, .sgr x :: r => specRun (Spec.sgr t x) r
  | t, .text g :: r => let (l, e) := specRun t r; ((g, t) :: l, e)

theorem specRun_sgrs {γ : Type} (l : List Seq) (rest : List (Tok Seq γ)) :
    ∀ t, specRun t (l.map Tok.sgr ++ rest) = specRun (apply t l) rest := by
  induction l with
  | nil => intro t; rfl
  | cons x l ih => intro t; simp only [List.map_cons, List.cons_append, specRun, apply_cons]; exact ih _

theorem encoded_shows {γ : Type} (sh : Style → TStyle) (delta : Style → Style → List Seq)
    (hdelta : ∀ p n, n.ulStyle ≤ 5 → apply (sh p) (delta p n) = sh n) (hdef : sh {} = TStyle.reset) :
    ∀ (cs : List (Cell γ)) (s : Style), (∀ c ∈ cs, c.st.ulStyle ≤ 5) →
      specRun (sh s) (encodeFrom delta s cs) = (cs.map (fun c => (c.g, sh c.st)), TStyle.reset) := by
  intro cs
  induction cs with
  | nil =>
    intro s _
    unfold encodeFrom
    split
    · simp only [sgrResetQ_eq, specRun]; rfl
    · rename_i h
      have : s = {} := by simpa using h
      subst this; simp only [specRun, hdef, List.map_nil]
  | cons c cs ih =>
    intro s hcs
    unfold encodeFrom
    rw [specRun_sgrs, hdelta s c.st (hcs c (List.mem_cons_self ..))]
    simp only [specRun, ih c.st (fun d hd => hcs d (List.mem_cons_of_mem _ hd)), List.map_cons]

theorem render_shows {γ : Type} (rgb su legacy : Bool) :
    ∀ (cs : List (Cell γ)) (s : Style), (∀ c ∈ cs, c.st.ulStyle ≤ 5) →
      specRun (shownCaps rgb su s) (renderFrom rgb su legacy s cs)
        = (cs.map (fun c => (c.g, shownCaps rgb su c.st)), TStyle.reset) := by
  intro cs
  induction cs with
  | nil => intro s _; simp only [renderFrom, sgrResetQ_eq, specRun, List.map_nil]; rfl
  | cons c cs ih =>
    intro s hcs
    unfold renderFrom
    rw [specRun_sgrs, renderDelta_correct rgb su legacy s c.st (hcs c (List.mem_cons_self ..))]
    simp only [specRun, ih c.st (fun d hd => hcs d (List.mem_cons_of_mem _ hd)), List.map_cons]

theorem asIndex_zero : asIndex 0 = 0 := by decide
theorem shownCaps_default (rgb su : Bool) : shownCaps rgb su {} = TStyle.reset := by
  have h : shown {} = TStyle.reset := shown_default
  cases rgb <;> cases su <;> simp [shownCaps, asIndex_zero, col_zero, h, TStyle.reset, SgrCases.UnderlineOff] <;> simp [shown, has]

end VaxisModel.Lemmas.Sgr
