/-
Helper lemmas for C18 (SGR producers / consumers).
-/
import VaxisModel.Model.Sgr

set_option linter.unusedSimpArgs false

namespace VaxisModel.Lemmas.Sgr
open VaxisModel VaxisModel.Model.Sgr VaxisModel.Gen VaxisModel.Spec
open VaxisModel.Model.Color (Color params indexColor rgbColor asIndex isIndexed isRGB indexedBit rgbBit chanR chanG chanB)

/-- Interpreting a list of SGR sequences, one after the other, on a terminal pen. -/
def apply (t : TStyle) (l : List Seq) : TStyle := l.foldl Spec.sgr t

@[simp] theorem apply_nil (t : TStyle) : apply t [] = t := rfl
@[simp] theorem apply_cons (t : TStyle) (q : Seq) (l : List Seq) : apply t (q :: l) = apply (Spec.sgr t q) l := rfl
theorem apply_append (t : TStyle) (l₁ l₂ : List Seq) : apply t (l₁ ++ l₂) = apply (apply t l₁) l₂ := by
  simp [apply, List.foldl_append]

/-! ## The format strings, instantiated (re-checked against the regenerated templates) -/

theorem boldSetQ_eq : boldSetQ = [[1]] := by decide
theorem dimSetQ_eq : dimSetQ = [[2]] := by decide
theorem italicSetQ_eq : italicSetQ = [[3]] := by decide
theorem blinkSetQ_eq : blinkSetQ = [[5]] := by decide
theorem reverseSetQ_eq : reverseSetQ = [[7]] := by decide
theorem hiddenSetQ_eq : hiddenSetQ = [[8]] := by decide
theorem strikethroughSetQ_eq : strikethroughSetQ = [[9]] := by decide
theorem boldDimResetQ_eq : boldDimResetQ = [[22]] := by decide
theorem italicResetQ_eq : italicResetQ = [[23]] := by decide
theorem blinkResetQ_eq : blinkResetQ = [[25]] := by decide
theorem reverseResetQ_eq : reverseResetQ = [[27]] := by decide
theorem hiddenResetQ_eq : hiddenResetQ = [[28]] := by decide
theorem strikethroughResetQ_eq : strikethroughResetQ = [[29]] := by decide
theorem underlineSetQ_eq : underlineSetQ = [[4]] := by decide
theorem underlineResetQ_eq : underlineResetQ = [[24]] := by decide
theorem sgrResetQ_eq : sgrResetQ = [] := by decide

theorem fmt_fgReset : fmt Sequences.fgReset_t [] = [[39]] := by decide
theorem fmt_bgReset : fmt Sequences.bgReset_t [] = [[49]] := by decide
theorem fmt_ulColorReset : fmt Sequences.ulColorReset_t [] = [[59]] := by decide
theorem fmt_fgSet : ∀ i, i < 8 → fmt Sequences.fgSet_t [i] = [[30 + i]] := by decide
theorem fmt_fgBrightSet : ∀ i, i < 8 → fmt Sequences.fgBrightSet_t [i] = [[90 + i]] := by decide
theorem fmt_bgSet : ∀ i, i < 8 → fmt Sequences.bgSet_t [i] = [[40 + i]] := by decide
theorem fmt_bgBrightSet : ∀ i, i < 8 → fmt Sequences.bgBrightSet_t [i] = [[100 + i]] := by decide

theorem fmt_fgIndexSet (n : Nat) : fmt Sequences.fgIndexSet_t [n] = [[38, 5, n]] := by
  simp [fmt, instSeq, instParam, instSub, Sequences.fgIndexSet_t]
theorem fmt_bgIndexSet (n : Nat) : fmt Sequences.bgIndexSet_t [n] = [[48, 5, n]] := by
  simp [fmt, instSeq, instParam, instSub, Sequences.bgIndexSet_t]
theorem fmt_ssFgIndexSet (n : Nat) : fmt Sequences.ssFgIndexSet_t [n] = [[38, 5, n]] := by
  simp [fmt, instSeq, instParam, instSub, Sequences.ssFgIndexSet_t]
theorem fmt_ssBgIndexSet (n : Nat) : fmt Sequences.ssBgIndexSet_t [n] = [[48, 5, n]] := by
  simp [fmt, instSeq, instParam, instSub, Sequences.ssBgIndexSet_t]
theorem fmt_ulIndexSet (n : Nat) : fmt Sequences.ulIndexSet_t [n] = [[58, 5, n]] := by
  simp [fmt, instSeq, instParam, instSub, Sequences.ulIndexSet_t]
theorem fmt_fgRGBSet (r g b : Nat) : fmt Sequences.fgRGBSet_t [r, g, b] = [[38, 2, r, g, b]] := by
  simp [fmt, instSeq, instParam, instSub, Sequences.fgRGBSet_t]
theorem fmt_bgRGBSet (r g b : Nat) : fmt Sequences.bgRGBSet_t [r, g, b] = [[48, 2, r, g, b]] := by
  simp [fmt, instSeq, instParam, instSub, Sequences.bgRGBSet_t]
theorem fmt_ssFgRGBSet (r g b : Nat) : fmt Sequences.ssFgRGBSet_t [r, g, b] = [[38, 2, r, g, b]] := by
  simp [fmt, instSeq, instParam, instSub, Sequences.ssFgRGBSet_t]
theorem fmt_ssBgRGBSet (r g b : Nat) : fmt Sequences.ssBgRGBSet_t [r, g, b] = [[48, 2, r, g, b]] := by
  simp [fmt, instSeq, instParam, instSub, Sequences.ssBgRGBSet_t]
theorem fmt_ulRGBSet (r g b : Nat) : fmt Sequences.ulRGBSet_t [r, g, b] = [[58, 2, r, g, b]] := by
  simp [fmt, instSeq, instParam, instSub, Sequences.ulRGBSet_t]
theorem fmt_ulStyleSet (n : Nat) : fmt Sequences.ulStyleSet_t [n] = [[4, n]] := by
  simp [fmt, instSeq, instParam, instSub, Sequences.ulStyleSet_t]
theorem fmt_fgIndexSet_legacy (n : Nat) : fmt (legacyT Sequences.fgIndexSet_t) [n] = [[38], [5], [n]] := by
  simp [fmt, instSeq, instParam, instSub, Sequences.fgIndexSet_t, legacyT]
theorem fmt_bgIndexSet_legacy (n : Nat) : fmt (legacyT Sequences.bgIndexSet_t) [n] = [[48], [5], [n]] := by
  simp [fmt, instSeq, instParam, instSub, Sequences.bgIndexSet_t, legacyT]
theorem fmt_fgRGBSet_legacy (r g b : Nat) : fmt (legacyT Sequences.fgRGBSet_t) [r, g, b] = [[38], [2], [r], [g], [b]] := by
  simp [fmt, instSeq, instParam, instSub, Sequences.fgRGBSet_t, legacyT]
theorem fmt_bgRGBSet_legacy (r g b : Nat) : fmt (legacyT Sequences.bgRGBSet_t) [r, g, b] = [[48], [2], [r], [g], [b]] := by
  simp [fmt, instSeq, instParam, instSub, Sequences.bgRGBSet_t, legacyT]

/-! ## Bits -/

theorem and_pow_eq_zero (m i : Nat) : (m &&& 2 ^ i = 0) ↔ m.testBit i = false := by
  constructor
  · intro h
    have : (m &&& 2 ^ i).testBit i = false := by rw [h]; simp
    simpa [Nat.testBit_and, Nat.testBit_two_pow_self] using this
  · intro h
    apply Nat.eq_of_testBit_eq
    intro j
    simp only [Nat.testBit_and, Nat.testBit_two_pow, Nat.zero_testBit]
    by_cases hij : i = j
    · subst hij; simp [h]
    · simp [hij]

theorem has_pow (m i : Nat) : has m (2 ^ i) = m.testBit i := by
  unfold has
  cases h : m.testBit i
  · have := (and_pow_eq_zero m i).2 h
    simp [this]
  · have : ¬ (m &&& 2 ^ i = 0) := fun h0 => by
      have := (and_pow_eq_zero m i).1 h0
      simp [h] at this
    simp [this]

theorem attrBold_eq : SgrCases.AttrBold = 2 ^ 1 := by decide
theorem attrDim_eq : SgrCases.AttrDim = 2 ^ 2 := by decide
theorem attrItalic_eq : SgrCases.AttrItalic = 2 ^ 3 := by decide
theorem attrBlink_eq : SgrCases.AttrBlink = 2 ^ 4 := by decide
theorem attrReverse_eq : SgrCases.AttrReverse = 2 ^ 5 := by decide
theorem attrInvisible_eq : SgrCases.AttrInvisible = 2 ^ 6 := by decide
theorem attrStrikethrough_eq : SgrCases.AttrStrikethrough = 2 ^ 7 := by decide

theorem has_bold (m : Nat) : has m SgrCases.AttrBold = m.testBit 1 := by rw [attrBold_eq, has_pow]
theorem has_dim (m : Nat) : has m SgrCases.AttrDim = m.testBit 2 := by rw [attrDim_eq, has_pow]
theorem has_italic (m : Nat) : has m SgrCases.AttrItalic = m.testBit 3 := by rw [attrItalic_eq, has_pow]
theorem has_blink (m : Nat) : has m SgrCases.AttrBlink = m.testBit 4 := by rw [attrBlink_eq, has_pow]
theorem has_reverse (m : Nat) : has m SgrCases.AttrReverse = m.testBit 5 := by rw [attrReverse_eq, has_pow]
theorem has_invisible (m : Nat) : has m SgrCases.AttrInvisible = m.testBit 6 := by rw [attrInvisible_eq, has_pow]
theorem has_strike (m : Nat) : has m SgrCases.AttrStrikethrough = m.testBit 7 := by rw [attrStrikethrough_eq, has_pow]

/-- The attribute part of a terminal pen replaced by the meaning of mask `a`. -/
def withAttrs (a : Nat) (t : TStyle) : TStyle :=
  { t with bold := has a SgrCases.AttrBold, dim := has a SgrCases.AttrDim, italic := has a SgrCases.AttrItalic,
           blink := has a SgrCases.AttrBlink, reverse := has a SgrCases.AttrReverse,
           hidden := has a SgrCases.AttrInvisible, strike := has a SgrCases.AttrStrikethrough }

/-! ## What the attribute codes do, as unconditional updates -/

section steps
variable (t : TStyle) (c d : Bool) (r : List Seq)

theorem step_1 : apply t (opt c [[1]] ++ r) = apply { t with bold := c || t.bold } r := by cases c <;> rfl
theorem step_2 : apply t (opt c [[2]] ++ r) = apply { t with dim := c || t.dim } r := by cases c <;> rfl
theorem step_3 : apply t (opt c [[3]] ++ r) = apply { t with italic := c || t.italic } r := by cases c <;> rfl
theorem step_5 : apply t (opt c [[5]] ++ r) = apply { t with blink := c || t.blink } r := by cases c <;> rfl
theorem step_7 : apply t (opt c [[7]] ++ r) = apply { t with reverse := c || t.reverse } r := by cases c <;> rfl
theorem step_8 : apply t (opt c [[8]] ++ r) = apply { t with hidden := c || t.hidden } r := by cases c <;> rfl
theorem step_9 : apply t (opt c [[9]] ++ r) = apply { t with strike := c || t.strike } r := by cases c <;> rfl
theorem step_22_2 : apply t ((if c then [[22]] :: opt d [[2]] else []) ++ r)
    = apply { t with bold := !c && t.bold, dim := if c then d else t.dim } r := by cases c <;> cases d <;> rfl
theorem step_22_1 : apply t ((if c then [[22]] :: opt d [[1]] else []) ++ r)
    = apply { t with bold := if c then d else t.bold, dim := !c && t.dim } r := by cases c <;> cases d <;> rfl
theorem step_23 : apply t (opt c [[23]] ++ r) = apply { t with italic := !c && t.italic } r := by cases c <;> rfl
theorem step_25 : apply t (opt c [[25]] ++ r) = apply { t with blink := !c && t.blink } r := by cases c <;> rfl
theorem step_27 : apply t (opt c [[27]] ++ r) = apply { t with reverse := !c && t.reverse } r := by cases c <;> rfl
theorem step_28 : apply t (opt c [[28]] ++ r) = apply { t with hidden := !c && t.hidden } r := by cases c <;> rfl
theorem step_29 : apply t (opt c [[29]]) = { t with strike := !c && t.strike } := by cases c <;> rfl
end steps

/-! ## attr_delta -/

theorem attrBody_correct (a b : Nat) (t : TStyle) : apply (withAttrs a t) (attrBody a b) = withAttrs b t := by
  unfold attrBody withAttrs
  simp only [boldSetQ_eq, dimSetQ_eq, italicSetQ_eq, blinkSetQ_eq, reverseSetQ_eq, hiddenSetQ_eq,
    strikethroughSetQ_eq, boldDimResetQ_eq, italicResetQ_eq, blinkResetQ_eq, reverseResetQ_eq, hiddenResetQ_eq,
    strikethroughResetQ_eq, has_bold, has_dim, has_italic, has_blink, has_reverse, has_invisible, has_strike,
    Nat.testBit_and, Nat.testBit_xor]
  generalize a.testBit 1 = a1; generalize a.testBit 2 = a2; generalize a.testBit 3 = a3
  generalize a.testBit 4 = a4; generalize a.testBit 5 = a5; generalize a.testBit 6 = a6
  generalize a.testBit 7 = a7
  generalize b.testBit 1 = b1; generalize b.testBit 2 = b2; generalize b.testBit 3 = b3
  generalize b.testBit 4 = b4; generalize b.testBit 5 = b5; generalize b.testBit 6 = b6
  generalize b.testBit 7 = b7
  simp only [step_1, step_2, step_3, step_5, step_7, step_8, step_9, step_22_2, step_22_1, step_23, step_25,
    step_27, step_28, step_29]
  obtain ⟨fg, bg, ul, us, _, _, _, _, _, _, _⟩ := t
  simp only [TStyle.mk.injEq, true_and]
  refine ⟨?_, ?_, ?_, ?_, ?_, ?_, ?_⟩
  · revert a1 a2 b1 b2; decide
  · revert a1 a2 b1 b2; decide
  · revert a3 b3; decide
  · revert a4 b4; decide
  · revert a5 b5; decide
  · revert a6 b6; decide
  · revert a7 b7; decide

theorem attrDelta_correct (a b : Nat) (t : TStyle) : apply (withAttrs a t) (attrDelta a b) = withAttrs b t := by
  unfold attrDelta
  by_cases h : a = b
  · subst h; simp
  · simp [h, attrBody_correct]

/-! ## Totality of the consumers -/

theorem idx_ok {α : Type} (l : List α) (i : Nat) (h : i < l.length) : idx l i = .ok l[i] := by
  unfold idx; simp [List.getElem?_eq_getElem h]

theorem idx2_ok (l : List Param) (i : Nat) (h : i < l.length) (hne : ∀ p ∈ l, p ≠ []) :
    ∃ v, idx2 l i 0 = .ok v := by
  unfold idx2
  rw [idx_ok l i h]
  have : l[i] ≠ [] := hne _ (List.getElem_mem h)
  have hl : 0 < l[i].length := List.length_pos_iff.mpr this
  exact ⟨_, idx_ok _ 0 hl⟩

theorem extColour_ok (cfg : Cfg) (p : Nat) (cur : Param) (rest : List Param)
    (hrest : ∀ q ∈ rest, q ≠ []) : ∃ r, extColour cfg p cur rest = .ok r := by
  unfold extColour
  simp only []
  split
  · exact ⟨_, rfl⟩
  split
  · split
    · exact ⟨_, rfl⟩
    · obtain ⟨k, hk⟩ := idx2_ok rest 0 (by omega) hrest
      rw [hk]; simp only []
      split
      · split
        · exact ⟨_, rfl⟩
        · obtain ⟨r, hr⟩ := idx2_ok rest 1 (by omega) hrest
          obtain ⟨g, hg⟩ := idx2_ok rest 2 (by omega) hrest
          obtain ⟨b, hb⟩ := idx2_ok rest 3 (by omega) hrest
          rw [hr, hg, hb]; exact ⟨_, rfl⟩
      · split
        · obtain ⟨v, hv⟩ := idx2_ok rest 1 (by omega) hrest
          rw [hv]; exact ⟨_, rfl⟩
        · exact ⟨_, rfl⟩
  split
  · rename_i h3
    rw [idx_ok cur 1 (by omega), idx_ok cur 2 (by omega)]; simp only []
    split <;> exact ⟨_, rfl⟩
  split
  · rw [idx_ok cur 1 (by omega), idx_ok cur 2 (by omega), idx_ok cur 3 (by omega), idx_ok cur 4 (by omega)]; simp only []
    split <;> exact ⟨_, rfl⟩
  split
  · rw [idx_ok cur 1 (by omega), idx_ok cur 3 (by omega), idx_ok cur 4 (by omega), idx_ok cur 5 (by omega)]; simp only []
    split <;> exact ⟨_, rfl⟩
  · exact ⟨_, rfl⟩

theorem ulCase_ok (cfg : Cfg) (cur : Param) (s : Style) (hcur : cur ≠ []) : ∃ s', ulCase cfg cur s = .ok s' := by
  unfold ulCase
  simp only []
  have hl : 0 < cur.length := List.length_pos_iff.mpr hcur
  split
  · exact ⟨_, rfl⟩
  split
  · exact ⟨_, rfl⟩
  · rw [idx_ok cur 1 (by omega)]; simp only []
    split <;> exact ⟨_, rfl⟩

theorem intOne_ok (cfg : Cfg) (cur : Param) (rest : List Param) (s : Style) (hcur : cur ≠ [])
    (hrest : ∀ q ∈ rest, q ≠ []) : ∃ r, intOne cfg cur rest s = .ok r := by
  unfold intOne
  have hl : 0 < cur.length := List.length_pos_iff.mpr hcur
  rw [idx_ok cur 0 hl]; simp only []
  split
  · exact ⟨_, rfl⟩
  split
  · obtain ⟨⟨c, nx⟩, h⟩ := extColour_ok cfg 38 cur rest hrest
    rw [h]; cases c <;> exact ⟨_, rfl⟩
  split
  · obtain ⟨⟨c, nx⟩, h⟩ := extColour_ok cfg 48 cur rest hrest
    rw [h]; cases c <;> exact ⟨_, rfl⟩
  split
  · obtain ⟨⟨c, nx⟩, h⟩ := extColour_ok cfg 58 cur rest hrest
    rw [h]; cases c <;> exact ⟨_, rfl⟩
  split
  · obtain ⟨s', h⟩ := ulCase_ok cfg cur s hcur
    rw [h]; exact ⟨_, rfl⟩
  · exact ⟨_, rfl⟩

theorem intLoop_ok (cfg : Cfg) (ps : List Param) (hps : ∀ q ∈ ps, q ≠ []) :
    ∀ (k : Nat) (s : Style), ∃ s', intLoop cfg k ps s = .ok s' := by
  induction ps with
  | nil => intro k s; exact ⟨s, by simp [intLoop]⟩
  | cons cur rest ih =>
    have hrest : ∀ q ∈ rest, q ≠ [] := fun q hq => hps q (List.mem_cons_of_mem _ hq)
    intro k s
    cases k with
    | succ k => simp only [intLoop]; exact ih hrest k s
    | zero =>
      simp only [intLoop]
      obtain ⟨⟨s', nx⟩, h⟩ := intOne_ok cfg cur rest s (hps cur (List.mem_cons_self ..)) hrest
      rw [h]
      cases nx with
      | stop => exact ⟨_, rfl⟩
      | cont k => exact ih hrest k s'

theorem intSgr_ok (cfg : Cfg) (s : Style) (ps : Seq) (hps : ∀ q ∈ ps, q ≠ []) : ∃ s', intSgr cfg s ps = .ok s' := by
  unfold intSgr
  split
  · exact intLoop_ok cfg _ (by simp) 0 s
  · exact intLoop_ok cfg _ hps 0 s

theorem ssColour_ok (cfg : Cfg) (p : Nat) (subs : List SubTok) : ∃ r, ssColour cfg p subs = .ok r := by
  unfold ssColour
  simp only []
  split
  · exact ⟨_, rfl⟩
  split
  · rw [idx_ok subs 2 (by omega)]; exact ⟨_, rfl⟩
  split
  · rw [idx_ok subs 2 (by omega), idx_ok subs 3 (by omega), idx_ok subs 4 (by omega)]; exact ⟨_, rfl⟩
  · exact ⟨_, rfl⟩

theorem ssOne_ok (cfg : Cfg) (dflt s : Style) (subs : List SubTok) (h : subs ≠ []) : ∃ s', ssOne cfg dflt s subs = .ok s' := by
  unfold ssOne
  have hl : 0 < subs.length := List.length_pos_iff.mpr h
  rw [idx_ok subs 0 hl]; simp only []
  split
  · exact ⟨_, rfl⟩
  split
  · exact ⟨_, rfl⟩
  split
  · exact ⟨_, rfl⟩
  split
  · obtain ⟨c, hc⟩ := ssColour_ok cfg 38 subs
    rw [hc]; cases c <;> exact ⟨_, rfl⟩
  split
  · obtain ⟨c, hc⟩ := ssColour_ok cfg 48 subs
    rw [hc]; cases c <;> exact ⟨_, rfl⟩
  split
  · obtain ⟨c, hc⟩ := ssColour_ok cfg 58 subs
    rw [hc]; cases c <;> exact ⟨_, rfl⟩
  split
  · split
    · exact ⟨_, rfl⟩
    split
    · rw [idx_ok subs 1 (by omega)]; simp only []
      split
      · split <;> exact ⟨_, rfl⟩
      · exact ⟨_, rfl⟩
    · exact ⟨_, rfl⟩
  · exact ⟨_, rfl⟩

theorem ssLoop_ok (cfg : Cfg) (dflt : Style) (ps : List (List SubTok)) (hps : ∀ q ∈ ps, q ≠ []) :
    ∀ s, ∃ s', ssLoop cfg dflt ps s = .ok s' := by
  induction ps with
  | nil => intro s; exact ⟨s, rfl⟩
  | cons subs rest ih =>
    intro s
    obtain ⟨s', h⟩ := ssOne_ok cfg dflt s subs (hps subs (List.mem_cons_self ..))
    simp only [ssLoop, h]
    exact ih (fun q hq => hps q (List.mem_cons_of_mem _ hq)) s'

/-! ## The pen deltas mean what they should -/

theorem lt8 (i : Nat) (h : i < 8) : i = 0 ∨ i = 1 ∨ i = 2 ∨ i = 3 ∨ i = 4 ∨ i = 5 ∨ i = 6 ∨ i = 7 := by omega

theorem sgr_fg_basic (i : Nat) (h : i < 8) (t : TStyle) : Spec.sgr t [[30 + i]] = { t with fg := .idx i } := by
  rcases lt8 i h with rfl | rfl | rfl | rfl | rfl | rfl | rfl | rfl <;> rfl
theorem sgr_fg_bright (i : Nat) (h : i < 8) (t : TStyle) : Spec.sgr t [[90 + i]] = { t with fg := .idx (i + 8) } := by
  rcases lt8 i h with rfl | rfl | rfl | rfl | rfl | rfl | rfl | rfl <;> rfl
theorem sgr_bg_basic (i : Nat) (h : i < 8) (t : TStyle) : Spec.sgr t [[40 + i]] = { t with bg := .idx i } := by
  rcases lt8 i h with rfl | rfl | rfl | rfl | rfl | rfl | rfl | rfl <;> rfl
theorem sgr_bg_bright (i : Nat) (h : i < 8) (t : TStyle) : Spec.sgr t [[100 + i]] = { t with bg := .idx (i + 8) } := by
  rcases lt8 i h with rfl | rfl | rfl | rfl | rfl | rfl | rfl | rfl <;> rfl

theorem params_cases (c : Color) :
    params c = [] ∨ (∃ i, i < 256 ∧ params c = [i]) ∨ (∃ r g b, params c = [r, g, b]) := by
  unfold params
  split
  · exact Or.inr (Or.inl ⟨c % 256, by omega, rfl⟩)
  split
  · exact Or.inr (Or.inr ⟨_, _, _, rfl⟩)
  · exact Or.inl rfl

theorem fg_seq (idxT rgbT : Sequences.Template)
    (hidx : ∀ n t, Spec.sgr t (fmt idxT [n]) = { t with fg := .idx n })
    (hrgb : ∀ r g b t, Spec.sgr t (fmt rgbT [r, g, b]) = { t with fg := .rgb r g b })
    (c : Color) (t : TStyle) :
    apply t (colourSeq Sequences.fgReset_t Sequences.fgSet_t Sequences.fgBrightSet_t idxT rgbT c)
      = { t with fg := col c } := by
  unfold colourSeq col
  rcases params_cases c with h | ⟨i, hi, h⟩ | ⟨r, g, b, h⟩
  · rw [h]; simp only [fmt_fgReset, apply_cons, apply_nil]; rfl
  · rw [h]; simp only []
    by_cases h8 : i < 8
    · simp only [h8, if_true, fmt_fgSet i h8, apply_cons, apply_nil, sgr_fg_basic i h8]
    · by_cases h16 : i < 16
      · have : i - 8 < 8 := by omega
        simp only [h8, h16, if_true, if_false, fmt_fgBrightSet _ this, apply_cons, apply_nil, sgr_fg_bright _ this]
        have : i - 8 + 8 = i := by omega
        rw [this]
      · simp only [h8, h16, if_false, apply_cons, apply_nil, hidx]
  · rw [h]; simp only [apply_cons, apply_nil, hrgb]

theorem bg_seq (idxT rgbT : Sequences.Template)
    (hidx : ∀ n t, Spec.sgr t (fmt idxT [n]) = { t with bg := .idx n })
    (hrgb : ∀ r g b t, Spec.sgr t (fmt rgbT [r, g, b]) = { t with bg := .rgb r g b })
    (c : Color) (t : TStyle) :
    apply t (colourSeq Sequences.bgReset_t Sequences.bgSet_t Sequences.bgBrightSet_t idxT rgbT c)
      = { t with bg := col c } := by
  unfold colourSeq col
  rcases params_cases c with h | ⟨i, hi, h⟩ | ⟨r, g, b, h⟩
  · rw [h]; simp only [fmt_bgReset, apply_cons, apply_nil]; rfl
  · rw [h]; simp only []
    by_cases h8 : i < 8
    · simp only [h8, if_true, fmt_bgSet i h8, apply_cons, apply_nil, sgr_bg_basic i h8]
    · by_cases h16 : i < 16
      · have : i - 8 < 8 := by omega
        simp only [h8, h16, if_true, if_false, fmt_bgBrightSet _ this, apply_cons, apply_nil, sgr_bg_bright _ this]
        have : i - 8 + 8 = i := by omega
        rw [this]
      · simp only [h8, h16, if_false, apply_cons, apply_nil, hidx]
  · rw [h]; simp only [apply_cons, apply_nil, hrgb]

theorem ul_seq (c : Color) (t : TStyle) : apply t (ulColourSeq c) = { t with ul := col c } := by
  unfold ulColourSeq col
  rcases params_cases c with h | ⟨i, hi, h⟩ | ⟨r, g, b, h⟩
  · rw [h]; simp only [fmt_ulColorReset, apply_cons, apply_nil]; rfl
  · rw [h]; simp only [fmt_ulIndexSet, apply_cons, apply_nil]; rfl
  · rw [h]; simp only [fmt_ulRGBSet, apply_cons, apply_nil]; rfl

theorem fg_idx_q (legacy : Bool) (n : Nat) (t : TStyle) :
    Spec.sgr t (fmt (q legacy Sequences.fgIndexSet_t) [n]) = { t with fg := .idx n } := by
  cases legacy
  · simp only [q, Bool.false_eq_true, ↓reduceIte, fmt_fgIndexSet]; rfl
  · simp only [q, Bool.false_eq_true, ↓reduceIte, fmt_fgIndexSet_legacy]; rfl
theorem fg_rgb_q (legacy : Bool) (r g b : Nat) (t : TStyle) :
    Spec.sgr t (fmt (q legacy Sequences.fgRGBSet_t) [r, g, b]) = { t with fg := .rgb r g b } := by
  cases legacy
  · simp only [q, Bool.false_eq_true, ↓reduceIte, fmt_fgRGBSet]; rfl
  · simp only [q, Bool.false_eq_true, ↓reduceIte, fmt_fgRGBSet_legacy]; rfl
theorem bg_idx_q (legacy : Bool) (n : Nat) (t : TStyle) :
    Spec.sgr t (fmt (q legacy Sequences.bgIndexSet_t) [n]) = { t with bg := .idx n } := by
  cases legacy
  · simp only [q, Bool.false_eq_true, ↓reduceIte, fmt_bgIndexSet]; rfl
  · simp only [q, Bool.false_eq_true, ↓reduceIte, fmt_bgIndexSet_legacy]; rfl
theorem bg_rgb_q (legacy : Bool) (r g b : Nat) (t : TStyle) :
    Spec.sgr t (fmt (q legacy Sequences.bgRGBSet_t) [r, g, b]) = { t with bg := .rgb r g b } := by
  cases legacy
  · simp only [q, Bool.false_eq_true, ↓reduceIte, fmt_bgRGBSet]; rfl
  · simp only [q, Bool.false_eq_true, ↓reduceIte, fmt_bgRGBSet_legacy]; rfl

theorem part_fg (idxT rgbT : Sequences.Template)
    (hidx : ∀ n t, Spec.sgr t (fmt idxT [n]) = { t with fg := .idx n })
    (hrgb : ∀ r g b t, Spec.sgr t (fmt rgbT [r, g, b]) = { t with fg := .rgb r g b })
    (x y z : Color) (w : Col) (t : TStyle) (ht : x = y → t.fg = w) (hz : x ≠ y → col z = w) :
    apply t (if x != y then colourSeq Sequences.fgReset_t Sequences.fgSet_t Sequences.fgBrightSet_t idxT rgbT z else [])
      = { t with fg := w } := by
  by_cases h : x = y
  · simp [h, ← ht h]
  · simp [h, fg_seq idxT rgbT hidx hrgb, hz h]

theorem part_bg (idxT rgbT : Sequences.Template)
    (hidx : ∀ n t, Spec.sgr t (fmt idxT [n]) = { t with bg := .idx n })
    (hrgb : ∀ r g b t, Spec.sgr t (fmt rgbT [r, g, b]) = { t with bg := .rgb r g b })
    (x y z : Color) (w : Col) (t : TStyle) (ht : x = y → t.bg = w) (hz : x ≠ y → col z = w) :
    apply t (if x != y then colourSeq Sequences.bgReset_t Sequences.bgSet_t Sequences.bgBrightSet_t idxT rgbT z else [])
      = { t with bg := w } := by
  by_cases h : x = y
  · simp [h, ← ht h]
  · simp [h, bg_seq idxT rgbT hidx hrgb, hz h]

theorem part_ul (x y z : Color) (w : Col) (t : TStyle) (ht : x = y → t.ul = w) (hz : x ≠ y → col z = w) :
    apply t (if x != y then ulColourSeq z else []) = { t with ul := w } := by
  by_cases h : x = y
  · simp [h, ← ht h]
  · simp [h, ul_seq, hz h]

theorem part_uls (x y : Nat) (t : TStyle) (ht : t.ulStyle = x) (hy : y ≤ 5) :
    apply t (if x != y then [fmt Sequences.ulStyleSet_t [y]] else []) = { t with ulStyle := y } := by
  by_cases h : x = y
  · subst h; simp [← ht]
  · simp [h, fmt_ulStyleSet, Spec.sgr, sgrStep, hy]

theorem part_attr (a b : Nat) (t : TStyle) (ht : t = withAttrs a t) :
    apply t (attrDelta a b) = withAttrs b t := by
  rw [ht, attrDelta_correct, ← ht]

theorem shown_withAttrs (s : Style) : withAttrs s.attr (shown s) = shown s := rfl

theorem encodeDelta_correct (legacy : Bool) (p n : Style) (hn : n.ulStyle ≤ 5) :
    apply (shown p) (encodeDelta legacy p n) = shown n := by
  unfold encodeDelta
  simp only [apply_append]
  rw [part_fg _ _ (fg_idx_q legacy) (fg_rgb_q legacy) p.fg n.fg n.fg (col n.fg) _ (fun h => by rw [← h]; rfl) (fun _ => rfl)]
  rw [part_bg _ _ (bg_idx_q legacy) (bg_rgb_q legacy) p.bg n.bg n.bg (col n.bg) _ (fun h => by rw [← h]; rfl) (fun _ => rfl)]
  rw [part_ul p.ul n.ul n.ul (col n.ul) _ (fun h => by rw [← h]; rfl) (fun _ => rfl)]
  rw [part_attr p.attr n.attr _ rfl]
  rw [part_uls p.ulStyle n.ulStyle _ rfl hn]
  rfl

theorem ssDelta_correct (p n : Style) (hn : n.ulStyle ≤ 5) :
    apply (shown p) (ssDelta p n) = shown n := by
  unfold ssDelta
  simp only [apply_append]
  rw [part_fg _ _ (fun n t => by rw [fmt_ssFgIndexSet]; rfl) (fun r g b t => by rw [fmt_ssFgRGBSet]; rfl)
    p.fg n.fg n.fg (col n.fg) _ (fun h => by rw [← h]; rfl) (fun _ => rfl)]
  rw [part_bg _ _ (fun n t => by rw [fmt_ssBgIndexSet]; rfl) (fun r g b t => by rw [fmt_ssBgRGBSet]; rfl)
    p.bg n.bg n.bg (col n.bg) _ (fun h => by rw [← h]; rfl) (fun _ => rfl)]
  rw [part_ul p.ul n.ul n.ul (col n.ul) _ (fun h => by rw [← h]; rfl) (fun _ => rfl)]
  rw [part_attr p.attr n.attr _ rfl]
  rw [part_uls p.ulStyle n.ulStyle _ rfl hn]
  rfl

theorem renderDelta_correct (rgb su legacy : Bool) (p n : Style) (hn : n.ulStyle ≤ 5) :
    apply (shownCaps rgb su p) (renderDelta rgb su legacy p n) = shownCaps rgb su n := by
  unfold renderDelta
  simp only [apply_append]
  rw [part_fg _ _ (fg_idx_q legacy) (fg_rgb_q legacy) p.fg n.fg _ (col (if rgb then n.fg else asIndex n.fg)) _
    (fun h => by rw [← h]; rfl) (fun _ => rfl)]
  rw [part_bg _ _ (bg_idx_q legacy) (bg_rgb_q legacy) p.bg n.bg _ (col (if rgb then n.bg else asIndex n.bg)) _
    (fun h => by rw [← h]; rfl) (fun _ => rfl)]
  cases su
  · simp only [Bool.false_eq_true, ↓reduceIte, apply_nil]
    rw [part_attr p.attr n.attr _ rfl]
    have key : ∀ t : TStyle,
        (p.ulStyle = n.ulStyle → t.ulStyle = (if n.ulStyle = SgrCases.UnderlineOff then 0 else 1)) →
        apply t (if p.ulStyle != n.ulStyle then
            (if n.ulStyle = SgrCases.UnderlineOff then [underlineResetQ] else [underlineSetQ]) else [])
          = { t with ulStyle := if n.ulStyle = SgrCases.UnderlineOff then 0 else 1 } := by
      intro t ht
      by_cases h : p.ulStyle = n.ulStyle
      · simp [h, ← ht h]
      · have hb : (p.ulStyle != n.ulStyle) = true := by simp [h]
        by_cases h0 : n.ulStyle = SgrCases.UnderlineOff
        · rw [if_pos hb]; simp only [↓reduceIte, h0, underlineResetQ_eq, apply_cons, apply_nil]; rfl
        · rw [if_pos hb]; simp only [↓reduceIte, h0, underlineSetQ_eq, apply_cons, apply_nil]; rfl
    rw [key _ (fun h => by rw [← h]; rfl)]
    rfl
  · simp only [↓reduceIte]
    rw [part_ul p.ul n.ul _ (col (if rgb then n.ul else asIndex n.ul)) _ (fun h => by rw [← h]; rfl) (fun _ => rfl)]
    rw [part_attr p.attr n.attr _ rfl]
    rw [part_uls p.ulStyle n.ulStyle _ rfl hn]
    rfl

end VaxisModel.Lemmas.Sgr
