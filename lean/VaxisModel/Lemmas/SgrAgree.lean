/-
C18, round 4 (T1b): do the three SGR consumers agree on EVERY parameter list?

* `parseSGR` and the embedded terminal's `sgr` are the same function: `intSgr` depends on its configuration only through
  `labels.contains`, `accepts` (for 4 / 38 / 48 / 58) and `ulSubs.contains`, and the two extracted configurations are the
  same as sets (`cfgSameB`, robust against reordered `case` clauses).
* `NewStyledString` does NOT agree with them on every list (it never `return`s on a malformed form, compares the text of the
  look-ahead parameters, has no six-sub-parameter form and reads `4:k:…`).  `agreeStep` / `agreeLoop` is a decidable class of
  lists on which it does, for any pair of configurations: at every position both consumers take the same step.
-/
import VaxisModel.Lemmas.Sgr
import VaxisModel.Model.SgrAgree

namespace VaxisModel.Lemmas.SgrAgree
open VaxisModel VaxisModel.Gen VaxisModel.Model.Sgr VaxisModel.Lemmas.Sgr
open VaxisModel.Model.Color (Color indexColor rgbColor)

/-! ### `intSgr` depends on the configuration only through three observations -/

structure CfgSame (c1 c2 : Cfg) : Prop where
  labels : ∀ p, c1.labels.contains p = c2.labels.contains p
  accepts : ∀ p, p = 4 ∨ p = 38 ∨ p = 48 ∨ p = 58 → ∀ n, c1.accepts p n = c2.accepts p n
  ulSubs : ∀ k, c1.ulSubs.contains k = c2.ulSubs.contains k
  nums : ∀ p, p = 38 ∨ p = 48 ∨ p = 58 → c1.nums p = c2.nums p

theorem extColour_same (c1 c2 : Cfg) (h : CfgSame c1 c2) (p : Nat) (hp : p = 38 ∨ p = 48 ∨ p = 58) (cur : Param) (rest : List Param) :
    extColour c1 p cur rest = extColour c2 p cur rest := by
  unfold extColour
  simp only [h.accepts p (Or.inr hp), h.nums p hp]

theorem ulCase_same (c1 c2 : Cfg) (h : CfgSame c1 c2) (cur : Param) (s : Style) : ulCase c1 cur s = ulCase c2 cur s := by
  unfold ulCase
  simp only [h.accepts 4 (Or.inl rfl), h.ulSubs]

theorem intOne_same (c1 c2 : Cfg) (h : CfgSame c1 c2) (cur : Param) (rest : List Param) (s : Style) :
    intOne c1 cur rest s = intOne c2 cur rest s := by
  unfold intOne
  simp only [h.labels, extColour_same c1 c2 h 38 (Or.inl rfl), extColour_same c1 c2 h 48 (Or.inr (Or.inl rfl)),
    extColour_same c1 c2 h 58 (Or.inr (Or.inr rfl)), ulCase_same c1 c2 h]

theorem intLoop_same (c1 c2 : Cfg) (h : CfgSame c1 c2) : ∀ (ps : List Param) (k : Nat) (s : Style),
    intLoop c1 k ps s = intLoop c2 k ps s
  | [], k, s => by cases k <;> rfl
  | cur :: rest, k + 1, s => by simp only [intLoop]; exact intLoop_same c1 c2 h rest k s
  | cur :: rest, 0, s => by
    simp only [intLoop, intOne_same c1 c2 h]
    cases intOne c2 cur rest s with
    | error e => rfl
    | ok r =>
      obtain ⟨s', nx⟩ := r
      cases nx with
      | stop => rfl
      | cont k => exact intLoop_same c1 c2 h rest k s'

theorem intSgr_same (c1 c2 : Cfg) (h : CfgSame c1 c2) (s : Style) (q : Seq) : intSgr c1 s q = intSgr c2 s q :=
  intLoop_same c1 c2 h _ 0 s

/-! ### a decidable, order-insensitive check of `CfgSame` -/

def sameSet (l1 l2 : List Nat) : Bool := l1.all l2.contains && l2.all l1.contains

theorem sameSet_contains (l1 l2 : List Nat) (h : sameSet l1 l2 = true) (x : Nat) : l1.contains x = l2.contains x := by
  unfold sameSet at h
  rw [Bool.and_eq_true, List.all_eq_true, List.all_eq_true] at h
  rw [Bool.eq_iff_iff]
  constructor
  · intro hx
    exact h.1 x (List.contains_iff_mem.mp hx)
  · intro hx
    exact h.2 x (List.contains_iff_mem.mp hx)

def rowSame (r1 r2 : Option (Nat × List Nat × Bool)) : Bool :=
  match r1, r2 with
  | none, none => true
  | some (_, l1, o1), some (_, l2, o2) => sameSet l1 l2 && o1 == o2 && (!o1 || l1.getLast? == l2.getLast?)
  | _, _ => false

def cfgSameB (c1 c2 : Cfg) : Bool :=
  sameSet c1.labels c2.labels && sameSet c1.ulSubs c2.ulSubs &&
  ([4, 38, 48, 58].all fun p => rowSame (c1.arities.find? (fun a => a.1 == p)) (c2.arities.find? (fun a => a.1 == p))) &&
  [38, 48, 58].all fun p => decide (c1.nums p = c2.nums p)

/-- The two `switch len(…)` tables are the same: same first parameters, and per first parameter the same set of accepted
    lengths (order of the `case` clauses irrelevant), same "or more" flag. -/
def aritiesSameB (a1 a2 : List (Nat × List Nat × Bool)) : Bool :=
  sameSet (a1.map (·.1)) (a2.map (·.1)) &&
  (a1.map (·.1)).all fun p => rowSame (a1.find? (fun a => a.1 == p)) (a2.find? (fun a => a.1 == p))

theorem accepts_of_rowSame (c1 c2 : Cfg) (p : Nat)
    (h : rowSame (c1.arities.find? (fun a => a.1 == p)) (c2.arities.find? (fun a => a.1 == p)) = true) (n : Nat) :
    c1.accepts p n = c2.accepts p n := by
  unfold Cfg.accepts
  revert h
  cases c1.arities.find? (fun a => a.1 == p) with
  | none =>
    cases c2.arities.find? (fun a => a.1 == p) with
    | none => intro _; rfl
    | some r => intro h; simp [rowSame] at h
  | some r1 =>
    cases c2.arities.find? (fun a => a.1 == p) with
    | none => intro h; simp [rowSame] at h
    | some r2 =>
      obtain ⟨k1, l1, o1⟩ := r1
      obtain ⟨k2, l2, o2⟩ := r2
      intro h
      simp only [rowSame, Bool.and_eq_true, beq_iff_eq, Bool.or_eq_true, Bool.not_eq_true'] at h
      obtain ⟨⟨hs, ho⟩, hl⟩ := h
      subst ho
      simp only [sameSet_contains l1 l2 hs n]
      cases o1 with
      | false => simp
      | true =>
        rcases hl with hl | hl
        · cases hl
        · rw [hl]

theorem cfgSame_of_B (c1 c2 : Cfg) (h : cfgSameB c1 c2 = true) : CfgSame c1 c2 := by
  unfold cfgSameB at h
  simp only [Bool.and_eq_true, List.all_eq_true] at h
  obtain ⟨⟨⟨hl, hu⟩, hr⟩, hnum⟩ := h
  refine ⟨sameSet_contains _ _ hl, ?_, sameSet_contains _ _ hu, ?_⟩
  · intro p hp n
    apply accepts_of_rowSame
    apply hr
    rcases hp with rfl | rfl | rfl | rfl <;> simp
  · intro p hp
    have := hnum p (by rcases hp with rfl | rfl | rfl <;> simp)
    simpa using this

/-! ### `NewStyledString` against the `[][]int` consumers: a class of lists on which every step is the same -/

theorem legacyOK_some (rest : Seq) (k : Nat) (h : legacyOK rest = some k) :
    (∃ v tl, rest = [5] :: [v] :: tl ∧ k = 2) ∨ (∃ r g b tl, rest = [2] :: [r] :: [g] :: [b] :: tl ∧ k = 4) := by
  unfold legacyOK at h
  split at h
  · cases h; exact Or.inl ⟨_, _, rfl, rfl⟩
  · cases h; exact Or.inr ⟨_, _, _, _, rfl, rfl⟩
  · cases h

abbrev tk (q : Seq) : List (List SubTok) := q.map (·.map tokN)

theorem ext_agree_1 (ci cs : Cfg) (p : Nat) (rest : Seq) (k : Nat) (hn : ci.nums p = {}) (h : extStepCore ci cs p [] rest = some k) :
    ∃ oc, ssColour cs p [tokN p] (tk rest) = .ok (oc, k) ∧
      (extColour ci p [p] rest = .ok (oc, .cont k) ∨ (extColour ci p [p] rest = .ok (oc, .stop) ∧ rest = [])) := by
  simp only [extStepCore, List.length_nil, Nat.zero_add, if_true] at h
  cases hai : ci.accepts p 1 <;> cases has : cs.accepts p 1 <;> simp only [hai, has, Bool.and_self, Bool.and_false, Bool.and_true,
    Bool.false_eq_true, if_false, if_true, Bool.not_false, Bool.not_true] at h
  · cases h
    exact ⟨none, by simp [ssColour, has], Or.inl (by simp [extColour, hai, hn])⟩
  · cases h
  · cases h
  · cases hl : legacyOK rest with
    | some k' =>
      rw [hl] at h
      cases h
      rcases legacyOK_some rest k hl with ⟨v, tl, rfl, rfl⟩ | ⟨r, g, b, tl, rfl, rfl⟩
      · exact ⟨some (indexColor (u8 v)), by simp [ssColour, has, ssLegacy, rawIs, rawAtoi, tokN, tk, u8i_nat],
          Or.inl (by simp [extColour, hai, idx2, idx, hn])⟩
      · exact ⟨some (rgbColor (u8 r) (u8 g) (u8 b)), by simp [ssColour, has, ssLegacy, rawIs, rawAtoi, tokN, tk, u8i_nat],
          Or.inl (by
            simp [extColour, hai, idx2, idx, hn]
            rw [if_neg (by omega), if_neg (by omega)])⟩
    | none =>
      rw [hl] at h
      simp only at h
      split at h
      · cases h
        rename_i he
        have : rest = [] := by cases rest <;> simp_all
        subst this
        exact ⟨none, by simp [ssColour, has, ssLegacy, tk], Or.inr ⟨by simp [extColour, hai, hn], rfl⟩⟩
      · cases h

theorem extColour_other (cfg : Cfg) (p : Nat) (cur : Param) (rest : Seq)
    (h1 : cur.length ≠ 1) (h3 : cur.length ≠ 3) (h5 : cur.length ≠ 5) (h6 : cur.length ≠ 6) :
    extColour cfg p cur rest = .ok (none, .cont 0) := by
  unfold extColour
  simp only [if_neg h1, if_neg h3, if_neg h5, if_neg h6]
  split <;> rfl

theorem ssColour_other (cfg : Cfg) (p : Nat) (subs : List SubTok) (rest : List (List SubTok))
    (h1 : subs.length ≠ 1) (h3 : subs.length ≠ 3) (h5 : subs.length ≠ 5) :
    ssColour cfg p subs rest = .ok (none, 0) := by
  unfold ssColour
  simp only [if_neg h1, if_neg h3, if_neg h5]
  split <;> rfl

theorem ext_agree_3 (ci cs : Cfg) (p a b : Nat) (rest : Seq) (k : Nat) (hn : ci.nums p = {}) (h : extStepCore ci cs p [a, b] rest = some k) :
    ∃ oc, ssColour cs p [tokN p, tokN a, tokN b] (tk rest) = .ok (oc, k) ∧ extColour ci p [p, a, b] rest = .ok (oc, .cont k) := by
  simp only [extStepCore, List.length_cons, List.length_nil, Nat.zero_add, Nat.reduceAdd, Nat.reduceEqDiff, if_false, if_true,
    List.head?_cons, Option.some.injEq] at h
  cases hai : ci.accepts p 3 <;> cases has : cs.accepts p 3 <;> simp only [hai, has, Bool.and_self, Bool.and_false, Bool.and_true,
    Bool.false_eq_true, if_false, if_true, Bool.not_false, Bool.not_true] at h
  · cases h
    exact ⟨none, by simp [ssColour, has], by simp [extColour, hai, hn]⟩
  · cases h
  · cases h
  · split at h
    · cases h
      rename_i ha
      subst ha
      exact ⟨some (indexColor (u8 b)), by simp [ssColour, has, idx, tokN, u8i_nat], by simp [extColour, hai, idx, hn]⟩
    · cases h

theorem ext_agree_5 (ci cs : Cfg) (p a b c d : Nat) (rest : Seq) (k : Nat) (hn : ci.nums p = {}) (h : extStepCore ci cs p [a, b, c, d] rest = some k) :
    ∃ oc, ssColour cs p [tokN p, tokN a, tokN b, tokN c, tokN d] (tk rest) = .ok (oc, k) ∧
      extColour ci p [p, a, b, c, d] rest = .ok (oc, .cont k) := by
  simp only [extStepCore, List.length_cons, List.length_nil, Nat.zero_add, Nat.reduceAdd, Nat.reduceEqDiff, if_false, if_true,
    List.head?_cons, Option.some.injEq] at h
  cases hai : ci.accepts p 5 <;> cases has : cs.accepts p 5 <;> simp only [hai, has, Bool.and_self, Bool.and_false, Bool.and_true,
    Bool.false_eq_true, if_false, if_true, Bool.not_false, Bool.not_true] at h
  · cases h
    exact ⟨none, by simp [ssColour, has], by simp [extColour, hai, hn]⟩
  · cases h
  · cases h
  · split at h
    · cases h
      rename_i ha
      subst ha
      exact ⟨some (rgbColor (u8 b) (u8 c) (u8 d)), by simp [ssColour, has, idx, tokN, u8i_nat], by simp [extColour, hai, idx, hn]⟩
    · cases h

theorem ext_agree_6 (ci cs : Cfg) (p a b c d e : Nat) (rest : Seq) (k : Nat) (hn : ci.nums p = {}) (h : extStepCore ci cs p [a, b, c, d, e] rest = some k) :
    ∃ oc, ssColour cs p [tokN p, tokN a, tokN b, tokN c, tokN d, tokN e] (tk rest) = .ok (oc, k) ∧
      extColour ci p [p, a, b, c, d, e] rest = .ok (oc, .cont k) := by
  simp only [extStepCore, List.length_cons, List.length_nil, Nat.zero_add, Nat.reduceAdd, Nat.reduceEqDiff, if_false, if_true] at h
  split at h
  · cases h
    rename_i hai
    refine ⟨none, ssColour_other _ _ _ _ (by simp) (by simp) (by simp), ?_⟩
    simp only [Bool.not_eq_true'] at hai
    simp [extColour, hai, hn]
  · cases h

theorem extStep_some (ci cs : Cfg) (p : Nat) (subs : List Nat) (rest : Seq) (k : Nat) (h : extStep ci cs p subs rest = some k) :
    ci.nums p = {} ∧ extStepCore ci cs p subs rest = some k := by
  unfold extStep at h
  split at h
  · cases h
  · rename_i hne
    refine ⟨?_, h⟩
    simpa using hne

theorem ext_agree (ci cs : Cfg) (p : Nat) (subs : List Nat) (rest : Seq) (k : Nat) (h : extStep ci cs p subs rest = some k) :
    ∃ oc, ssColour cs p ((p :: subs).map tokN) (tk rest) = .ok (oc, k) ∧
      (extColour ci p (p :: subs) rest = .ok (oc, .cont k) ∨ (extColour ci p (p :: subs) rest = .ok (oc, .stop) ∧ rest = [])) := by
  obtain ⟨hn, h⟩ := extStep_some ci cs p subs rest k h
  match subs, h with
  | [], h => exact ext_agree_1 ci cs p rest k hn h
  | [a, b], h =>
    obtain ⟨oc, h1, h2⟩ := ext_agree_3 ci cs p a b rest k hn h
    exact ⟨oc, h1, Or.inl h2⟩
  | [a, b, c, d], h =>
    obtain ⟨oc, h1, h2⟩ := ext_agree_5 ci cs p a b c d rest k hn h
    exact ⟨oc, h1, Or.inl h2⟩
  | [a, b, c, d, e], h =>
    obtain ⟨oc, h1, h2⟩ := ext_agree_6 ci cs p a b c d e rest k hn h
    exact ⟨oc, h1, Or.inl h2⟩
  | [a], h =>
    simp only [extStepCore, List.length_cons, List.length_nil, Nat.zero_add, Nat.reduceAdd, Nat.reduceEqDiff, if_false] at h
    cases h
    exact ⟨none, ssColour_other _ _ _ _ (by simp) (by simp) (by simp), Or.inl (extColour_other _ _ _ _ (by simp) (by simp) (by simp) (by simp))⟩
  | [a, b, c], h =>
    simp only [extStepCore, List.length_cons, List.length_nil, Nat.zero_add, Nat.reduceAdd, Nat.reduceEqDiff, if_false] at h
    cases h
    exact ⟨none, ssColour_other _ _ _ _ (by simp) (by simp) (by simp), Or.inl (extColour_other _ _ _ _ (by simp) (by simp) (by simp) (by simp))⟩
  | a :: b :: c :: d :: e :: f :: tl, h =>
    have hk : k = 0 := by
      unfold extStepCore at h
      simp only [List.length_cons] at h
      rw [if_neg (by omega), if_neg (by omega), if_neg (by omega), if_neg (by omega)] at h
      cases h; rfl
    subst hk
    exact ⟨none, ssColour_other _ _ _ _ (by simp) (by simp) (by simp),
      Or.inl (extColour_other _ _ _ _ (by simp) (by simp) (by simp) (by simp))⟩

theorem ulCase_eff (cfg : Cfg) (subs : List Nat) (s : Style) :
    ulCase cfg (4 :: subs) s = .ok (match ulEff cfg subs with | some v => { s with ulStyle := v } | none => s) := by
  unfold ulCase ulEff
  simp only [List.length_cons]
  split
  · rfl
  · cases subs with
    | nil => simp
    | cons k tl =>
      simp only [List.length_cons, Nat.add_eq_right, Nat.add_eq_zero_iff, List.length_eq_zero_iff, Nat.succ_ne_self, and_false,
        if_false, idx, List.getElem?_cons_succ, List.getElem?_cons_zero]
      split <;> rfl

theorem ssOne_4 (cfg : Cfg) (subs : List Nat) (rest : List (List SubTok)) (s : Style) (hl : cfg.labels.contains 4 = true) :
    ssOne cfg {} s ((4 :: subs).map tokN) rest =
      .ok ((match ulEff cfg subs with | some v => { s with ulStyle := v } | none => s), 0) := by
  unfold ulEff
  cases subs with
  | nil =>
    simp only [ssOne, idx, List.map_cons, List.map_nil, List.getElem?_cons_zero, tokN, hl, Bool.not_true, Bool.false_eq_true,
      if_false, List.length_cons, List.length_nil]
    simp
    split <;> simp_all
  | cons k tl =>
    simp only [ssOne, idx, List.map_cons, List.getElem?_cons_zero, List.getElem?_cons_succ, tokN, hl, Bool.not_true,
      Bool.false_eq_true, if_false, List.length_cons, List.length_map]
    simp
    split
    · simp_all
    · simp_all
      split <;> rfl

theorem simple_21 (s : Style) : simple 21 s = s := rfl

theorem intOne_head (cfg : Cfg) (p : Nat) (subs : List Nat) (rest : Seq) (s : Style) :
    intOne cfg (p :: subs) rest s =
      (if !cfg.labels.contains p then .ok (s, .cont 0)
       else if p = 38 then
         match extColour cfg 38 (p :: subs) rest with
         | .error e => .error e
         | .ok (some c, nx) => .ok ({ s with fg := c }, nx)
         | .ok (none, nx) => .ok (s, nx)
       else if p = 48 then
         match extColour cfg 48 (p :: subs) rest with
         | .error e => .error e
         | .ok (some c, nx) => .ok ({ s with bg := c }, nx)
         | .ok (none, nx) => .ok (s, nx)
       else if p = 58 then
         match extColour cfg 58 (p :: subs) rest with
         | .error e => .error e
         | .ok (some c, nx) => .ok ({ s with ul := c }, nx)
         | .ok (none, nx) => .ok (s, nx)
       else if p = 4 then
         match ulCase cfg (p :: subs) s with
         | .error e => .error e
         | .ok s' => .ok (s', .cont 0)
       else .ok (simple p s, .cont 0)) := rfl

theorem ssOne_unfold (cfg : Cfg) (p : Nat) (subs : List Nat) (rest : List (List SubTok)) (s : Style) :
    ssOne cfg {} s ((p :: subs).map tokN) rest =
      (if !cfg.labels.contains p then .ok (s, 0)
       else if p = 0 then .ok ({}, 0)
       else if p = 38 then
         match ssColour cfg 38 ((p :: subs).map tokN) rest with
         | .error e => .error e
         | .ok (some c, k) => .ok ({ s with fg := c }, k)
         | .ok (none, k) => .ok (s, k)
       else if p = 48 then
         match ssColour cfg 48 ((p :: subs).map tokN) rest with
         | .error e => .error e
         | .ok (some c, k) => .ok ({ s with bg := c }, k)
         | .ok (none, k) => .ok (s, k)
       else if p = 58 then
         match ssColour cfg 58 ((p :: subs).map tokN) rest with
         | .error e => .error e
         | .ok (some c, k) => .ok ({ s with ul := c }, k)
         | .ok (none, k) => .ok (s, k)
       else if p = 4 then
         if !cfg.accepts 4 ((p :: subs).map tokN).length then .ok (s, 0)
         else if ((p :: subs).map tokN).length > 1 then
           match idx ((p :: subs).map tokN) 1 with
           | .error e => .error e
           | .ok k =>
             match k.lab with
             | some k => if cfg.ulSubs.contains k then .ok ({ s with ulStyle := ulConst k }, 0) else .ok (s, 0)
             | none => .ok (s, 0)
         else .ok ({ s with ulStyle := SgrCases.UnderlineSingle }, 0)
       else .ok (simple p s, 0)) := rfl

theorem ssOne_head (cfg : Cfg) (p : Nat) (subs : List Nat) (rest : List (List SubTok)) (s : Style) (h4 : p ≠ 4) :
    ssOne cfg {} s ((p :: subs).map tokN) rest =
      (if !cfg.labels.contains p then .ok (s, 0)
       else if p = 0 then .ok ({}, 0)
       else if p = 38 then
         match ssColour cfg 38 ((p :: subs).map tokN) rest with
         | .error e => .error e
         | .ok (some c, k) => .ok ({ s with fg := c }, k)
         | .ok (none, k) => .ok (s, k)
       else if p = 48 then
         match ssColour cfg 48 ((p :: subs).map tokN) rest with
         | .error e => .error e
         | .ok (some c, k) => .ok ({ s with bg := c }, k)
         | .ok (none, k) => .ok (s, k)
       else if p = 58 then
         match ssColour cfg 58 ((p :: subs).map tokN) rest with
         | .error e => .error e
         | .ok (some c, k) => .ok ({ s with ul := c }, k)
         | .ok (none, k) => .ok (s, k)
       else .ok (simple p s, 0)) := by
  rw [ssOne_unfold]
  simp only [h4, if_false]

theorem labels_both (ci cs : Cfg) (p : Nat) (h1 : ¬ ((!ci.labels.contains p && !cs.labels.contains p) = true))
    (h2 : ¬ ((ci.labels.contains p != cs.labels.contains p) = true)) :
    ci.labels.contains p = true ∧ cs.labels.contains p = true := by
  generalize ci.labels.contains p = a at *
  generalize cs.labels.contains p = b at *
  cases a <;> cases b <;> simp_all

theorem step_agree_4 (ci cs : Cfg) (subs : List Nat) (rest : Seq) (k : Nat) (s : Style)
    (h : agreeStep ci cs (4 :: subs) rest = some k) :
    ∃ s', ssOne cs {} s ((4 :: subs).map tokN) (tk rest) = .ok (s', k) ∧ intOne ci (4 :: subs) rest s = .ok (s', .cont k) := by
  simp only [agreeStep] at h
  split at h
  · rename_i hb
    cases h
    simp only [Bool.and_eq_true] at hb
    refine ⟨s, ?_, ?_⟩
    · rw [ssOne_unfold, if_pos hb.2]
    · rw [intOne_head, if_pos hb.1]
  · rename_i hb
    simp only [Nat.reduceEqDiff, if_false, show isExt 4 = false from rfl, Bool.false_eq_true, if_true] at h
    split at h
    · cases h
    · rename_i hne
      obtain ⟨hci, hcs⟩ := labels_both ci cs 4 hb hne
      split at h
      · cases h
        rename_i he
        refine ⟨_, ssOne_4 cs subs _ s hcs, ?_⟩
        rw [intOne_head]
        simp only [hci, Bool.not_true, Bool.false_eq_true, if_false, Nat.reduceEqDiff, if_true, ulCase_eff, he]
      · cases h

/-- **One step is the same.** -/
theorem step_agree (ci cs : Cfg) (cur : Param) (rest : Seq) (k : Nat) (s : Style) (h : agreeStep ci cs cur rest = some k) :
    ∃ s', ssOne cs {} s (cur.map tokN) (tk rest) = .ok (s', k) ∧
      (intOne ci cur rest s = .ok (s', .cont k) ∨ (intOne ci cur rest s = .ok (s', .stop) ∧ rest = [])) := by
  cases cur with
  | nil => simp [agreeStep] at h
  | cons p subs =>
    by_cases h4 : p = 4
    · subst h4
      obtain ⟨s', h1, h2⟩ := step_agree_4 ci cs subs rest k s h
      exact ⟨s', h1, Or.inl h2⟩
    rw [intOne_head, ssOne_head _ _ _ _ _ h4]
    simp only [agreeStep] at h
    split at h
    · -- neither has the label
      rename_i hb
      cases h
      simp only [Bool.and_eq_true] at hb
      exact ⟨s, by rw [if_pos hb.2], Or.inl (by rw [if_pos hb.1])⟩
    · rename_i hb
      split at h
      · -- 21: no body
        rename_i h21
        cases h
        subst h21
        refine ⟨s, ?_, Or.inl ?_⟩
        · split
          · rfl
          · simp [simple_21]
        · split
          · rfl
          · simp [simple_21]
      · split at h
        · cases h
        · rename_i h21 hne
          obtain ⟨hci, hcs⟩ := labels_both ci cs p hb hne
          simp only [hci, hcs, Bool.not_true, Bool.false_eq_true, if_false]
          split at h
          · -- 38 / 48 / 58
            rename_i hext
            have hp : p = 38 ∨ p = 48 ∨ p = 58 := by
              simp only [isExt, Bool.or_eq_true, beq_iff_eq] at hext
              rcases hext with (h | h) | h
              · exact Or.inl h
              · exact Or.inr (Or.inl h)
              · exact Or.inr (Or.inr h)
            obtain ⟨oc, h1, h2⟩ := ext_agree ci cs p subs rest k h
            rcases hp with rfl | rfl | rfl
            · simp only [Nat.reduceEqDiff, if_false, if_true, h1]
              cases oc with
              | none => rcases h2 with h2 | ⟨h2, hr⟩
                        · exact ⟨s, rfl, Or.inl (by rw [h2])⟩
                        · exact ⟨s, rfl, Or.inr ⟨by rw [h2], hr⟩⟩
              | some c => rcases h2 with h2 | ⟨h2, hr⟩
                          · exact ⟨_, rfl, Or.inl (by rw [h2])⟩
                          · exact ⟨_, rfl, Or.inr ⟨by rw [h2], hr⟩⟩
            · simp only [Nat.reduceEqDiff, if_false, if_true, h1]
              cases oc with
              | none => rcases h2 with h2 | ⟨h2, hr⟩
                        · exact ⟨s, rfl, Or.inl (by rw [h2])⟩
                        · exact ⟨s, rfl, Or.inr ⟨by rw [h2], hr⟩⟩
              | some c => rcases h2 with h2 | ⟨h2, hr⟩
                          · exact ⟨_, rfl, Or.inl (by rw [h2])⟩
                          · exact ⟨_, rfl, Or.inr ⟨by rw [h2], hr⟩⟩
            · simp only [Nat.reduceEqDiff, if_false, if_true, h1]
              cases oc with
              | none => rcases h2 with h2 | ⟨h2, hr⟩
                        · exact ⟨s, rfl, Or.inl (by rw [h2])⟩
                        · exact ⟨s, rfl, Or.inr ⟨by rw [h2], hr⟩⟩
              | some c => rcases h2 with h2 | ⟨h2, hr⟩
                          · exact ⟨_, rfl, Or.inl (by rw [h2])⟩
                          · exact ⟨_, rfl, Or.inr ⟨by rw [h2], hr⟩⟩
          · rename_i hext
            have h38 : p ≠ 38 := by intro e; subst e; simp [isExt] at hext
            have h48 : p ≠ 48 := by intro e; subst e; simp [isExt] at hext
            have h58 : p ≠ 58 := by intro e; subst e; simp [isExt] at hext
            cases h
            simp only [h38, h48, h58, h4, if_false]
            by_cases h0 : p = 0
            · subst h0
              exact ⟨{}, by simp, Or.inl (by simp [simple_zero])⟩
            · exact ⟨simple p s, by simp [h0], Or.inl rfl⟩

/-- **On the class, `NewStyledString`'s parameter loop and the `[][]int` loop compute the same style** (any two configurations,
    any pending skip, default style = zero style). -/
theorem loop_agree (ci cs : Cfg) : ∀ (q : Seq) (k : Nat) (s : Style), agreeLoop ci cs k q = true →
    intLoop ci k q s = ssLoopK cs {} k (tk q) s
  | [], k, s, _ => by cases k <;> rfl
  | cur :: rest, k + 1, s, h => by
    simp only [agreeLoop] at h
    simp only [intLoop, tk, List.map_cons, ssLoopK]
    exact loop_agree ci cs rest k s h
  | cur :: rest, 0, s, h => by
    simp only [agreeLoop] at h
    cases hst : agreeStep ci cs cur rest with
    | none => rw [hst] at h; cases h
    | some k =>
      rw [hst] at h
      obtain ⟨s', h1, h2⟩ := step_agree ci cs cur rest k s hst
      simp only [intLoop, tk, List.map_cons, ssLoopK]
      have h1' : ssOne cs {} s (cur.map tokN) (rest.map (·.map tokN)) = .ok (s', k) := h1
      rw [h1']
      rcases h2 with h2 | ⟨h2, hr⟩
      · rw [h2]
        exact loop_agree ci cs rest k s' h
      · rw [h2]
        subst hr
        cases k <;> rfl

/-! ### whole token strings -/

theorem toks_agree {γ : Type} (f g : Style → Seq → Except Panic Style) (P : Seq → Prop)
    (hfg : ∀ s q, P q → f s q = g s q) :
    ∀ (ts : List (Tok Seq γ)) (s : Style), (∀ q, Tok.sgr q ∈ ts → P q) →
      (∀ e, parseToks f s ts ≠ .error e) → parseToks f s ts = ssParseToks g s ts
  | [], _, _, _ => rfl
  | .text x :: r, s, h, hne => by
    have ih := toks_agree f g P hfg r s (fun q hq => h q (List.mem_cons_of_mem _ hq))
      (by
        intro e he
        apply hne e
        simp only [parseToks, he])
    simp only [parseToks, ssParseToks, ih]
  | .sgr q :: r, s, h, hne => by
    have hq := hfg s q (h q (List.mem_cons_self ..))
    simp only [parseToks, ssParseToks]
    cases hr : r with
    | nil =>
      simp only [List.isEmpty_nil, if_true]
      cases hf : f s q with
      | ok s' => simp [parseToks]
      | error e =>
        exfalso
        apply hne e
        simp only [parseToks, hf]
    | cons t r' =>
      simp only [List.isEmpty_cons, Bool.false_eq_true, if_false, ← hq]
      cases hf : f s q with
      | error e => rfl
      | ok s' =>
        have := toks_agree f g P hfg (t :: r') s' (fun q hq => h q (by rw [hr]; exact List.mem_cons_of_mem _ hq))
          (by
            intro e he
            apply hne e
            simp only [parseToks, hf, hr, he])
        exact this

theorem parseToks_no_error {γ : Type} (f : Style → Seq → Except Panic Style)
    (hf : ∀ s q, (∀ p ∈ q, p ≠ []) → ∃ s', f s q = .ok s') :
    ∀ (ts : List (Tok Seq γ)) (s : Style), (∀ q, Tok.sgr q ∈ ts → ∀ p ∈ q, p ≠ []) → ∀ e, parseToks f s ts ≠ .error e
  | [], _, _, e => by simp [parseToks]
  | .text x :: r, s, h, e => by
    have ih := parseToks_no_error f hf r s (fun q hq => h q (List.mem_cons_of_mem _ hq))
    simp only [parseToks]
    cases hr : parseToks f s r with
    | ok cs => simp
    | error e' => exact absurd hr (ih e')
  | .sgr q :: r, s, h, e => by
    obtain ⟨s', hs'⟩ := hf s q (h q (List.mem_cons_self ..))
    simp only [parseToks, hs']
    exact parseToks_no_error f hf r s' (fun q hq => h q (List.mem_cons_of_mem _ hq)) e

end VaxisModel.Lemmas.SgrAgree
