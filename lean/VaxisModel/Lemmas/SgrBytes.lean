/-
Byte level of C18: the regenerated format strings print exactly the parameter lists of the token-level
model (`sprintf (bytesOf «name») args = csiM (fmt «name»_t args)`), so the byte-level producers are the
token-level producers printed canonically; the C02 parser model reads `csiM q` back as `q`
(`csi_roundtrip`); NewStyledString's own Cut / Split / Atoi reads it back as `q` too.
-/
import VaxisModel.Model.SgrBytes
import VaxisModel.Lemmas.Sgr
import VaxisModel.Lemmas.Parser
import VaxisModel.Lemmas.ParserDcs
import VaxisModel.Lemmas.ParserText
import VaxisModel.Props.C02

namespace VaxisModel.Lemmas.SgrBytes
open VaxisModel.Gen VaxisModel.Model.Sgr VaxisModel.Model.SgrBytes VaxisModel.Lemmas.ParserParams VaxisModel.Lemmas.Sgr
open VaxisModel.Model.Color (Color params)

/-! ## Decimal numerals of the literals that occur -/

theorem digitsOf_lt (n : Nat) (h : n < 10) : digitsOf n = [0x30 + n] := by
  rw [digitsOf]; simp [h]

theorem digitsOf_two (n : Nat) (h1 : 10 ≤ n) (h2 : n < 100) : digitsOf n = [0x30 + n / 10, 0x30 + n % 10] := by
  rw [digitsOf, if_neg (by omega), digitsOf_lt (n / 10) (by omega)]; rfl

theorem digitsOf_three (n : Nat) (h1 : 100 ≤ n) (h2 : n < 1000) :
    digitsOf n = [0x30 + n / 100, 0x30 + n / 10 % 10, 0x30 + n % 10] := by
  rw [digitsOf, if_neg (by omega), digitsOf_two (n / 10) (by omega) (by omega)]
  have : n / 10 / 10 = n / 100 := by omega
  simp [this]

theorem d0 : digitsOf 0 = [48] := by rw [digitsOf_lt 0 (by decide)]
theorem d1 : digitsOf 1 = [49] := by rw [digitsOf_lt 1 (by decide)]
theorem d2 : digitsOf 2 = [50] := by rw [digitsOf_lt 2 (by decide)]
theorem d3 : digitsOf 3 = [51] := by rw [digitsOf_lt 3 (by decide)]
theorem d4 : digitsOf 4 = [52] := by rw [digitsOf_lt 4 (by decide)]
theorem d5 : digitsOf 5 = [53] := by rw [digitsOf_lt 5 (by decide)]
theorem d6 : digitsOf 6 = [54] := by rw [digitsOf_lt 6 (by decide)]
theorem d7 : digitsOf 7 = [55] := by rw [digitsOf_lt 7 (by decide)]
theorem d8 : digitsOf 8 = [56] := by rw [digitsOf_lt 8 (by decide)]
theorem d9 : digitsOf 9 = [57] := by rw [digitsOf_lt 9 (by decide)]
theorem d10 : digitsOf 10 = [49, 48] := by rw [digitsOf_two 10 (by decide) (by decide)]
theorem d11 : digitsOf 11 = [49, 49] := by rw [digitsOf_two 11 (by decide) (by decide)]
theorem d12 : digitsOf 12 = [49, 50] := by rw [digitsOf_two 12 (by decide) (by decide)]
theorem d13 : digitsOf 13 = [49, 51] := by rw [digitsOf_two 13 (by decide) (by decide)]
theorem d14 : digitsOf 14 = [49, 52] := by rw [digitsOf_two 14 (by decide) (by decide)]
theorem d15 : digitsOf 15 = [49, 53] := by rw [digitsOf_two 15 (by decide) (by decide)]
theorem d16 : digitsOf 16 = [49, 54] := by rw [digitsOf_two 16 (by decide) (by decide)]
theorem d17 : digitsOf 17 = [49, 55] := by rw [digitsOf_two 17 (by decide) (by decide)]
theorem d18 : digitsOf 18 = [49, 56] := by rw [digitsOf_two 18 (by decide) (by decide)]
theorem d19 : digitsOf 19 = [49, 57] := by rw [digitsOf_two 19 (by decide) (by decide)]
theorem d20 : digitsOf 20 = [50, 48] := by rw [digitsOf_two 20 (by decide) (by decide)]
theorem d21 : digitsOf 21 = [50, 49] := by rw [digitsOf_two 21 (by decide) (by decide)]
theorem d22 : digitsOf 22 = [50, 50] := by rw [digitsOf_two 22 (by decide) (by decide)]
theorem d23 : digitsOf 23 = [50, 51] := by rw [digitsOf_two 23 (by decide) (by decide)]
theorem d24 : digitsOf 24 = [50, 52] := by rw [digitsOf_two 24 (by decide) (by decide)]
theorem d25 : digitsOf 25 = [50, 53] := by rw [digitsOf_two 25 (by decide) (by decide)]
theorem d26 : digitsOf 26 = [50, 54] := by rw [digitsOf_two 26 (by decide) (by decide)]
theorem d27 : digitsOf 27 = [50, 55] := by rw [digitsOf_two 27 (by decide) (by decide)]
theorem d28 : digitsOf 28 = [50, 56] := by rw [digitsOf_two 28 (by decide) (by decide)]
theorem d29 : digitsOf 29 = [50, 57] := by rw [digitsOf_two 29 (by decide) (by decide)]
theorem d30 : digitsOf 30 = [51, 48] := by rw [digitsOf_two 30 (by decide) (by decide)]
theorem d31 : digitsOf 31 = [51, 49] := by rw [digitsOf_two 31 (by decide) (by decide)]
theorem d32 : digitsOf 32 = [51, 50] := by rw [digitsOf_two 32 (by decide) (by decide)]
theorem d33 : digitsOf 33 = [51, 51] := by rw [digitsOf_two 33 (by decide) (by decide)]
theorem d34 : digitsOf 34 = [51, 52] := by rw [digitsOf_two 34 (by decide) (by decide)]
theorem d35 : digitsOf 35 = [51, 53] := by rw [digitsOf_two 35 (by decide) (by decide)]
theorem d36 : digitsOf 36 = [51, 54] := by rw [digitsOf_two 36 (by decide) (by decide)]
theorem d37 : digitsOf 37 = [51, 55] := by rw [digitsOf_two 37 (by decide) (by decide)]
theorem d38 : digitsOf 38 = [51, 56] := by rw [digitsOf_two 38 (by decide) (by decide)]
theorem d39 : digitsOf 39 = [51, 57] := by rw [digitsOf_two 39 (by decide) (by decide)]
theorem d40 : digitsOf 40 = [52, 48] := by rw [digitsOf_two 40 (by decide) (by decide)]
theorem d41 : digitsOf 41 = [52, 49] := by rw [digitsOf_two 41 (by decide) (by decide)]
theorem d42 : digitsOf 42 = [52, 50] := by rw [digitsOf_two 42 (by decide) (by decide)]
theorem d43 : digitsOf 43 = [52, 51] := by rw [digitsOf_two 43 (by decide) (by decide)]
theorem d44 : digitsOf 44 = [52, 52] := by rw [digitsOf_two 44 (by decide) (by decide)]
theorem d45 : digitsOf 45 = [52, 53] := by rw [digitsOf_two 45 (by decide) (by decide)]
theorem d46 : digitsOf 46 = [52, 54] := by rw [digitsOf_two 46 (by decide) (by decide)]
theorem d47 : digitsOf 47 = [52, 55] := by rw [digitsOf_two 47 (by decide) (by decide)]
theorem d48 : digitsOf 48 = [52, 56] := by rw [digitsOf_two 48 (by decide) (by decide)]
theorem d49 : digitsOf 49 = [52, 57] := by rw [digitsOf_two 49 (by decide) (by decide)]
theorem d50 : digitsOf 50 = [53, 48] := by rw [digitsOf_two 50 (by decide) (by decide)]
theorem d51 : digitsOf 51 = [53, 49] := by rw [digitsOf_two 51 (by decide) (by decide)]
theorem d52 : digitsOf 52 = [53, 50] := by rw [digitsOf_two 52 (by decide) (by decide)]
theorem d53 : digitsOf 53 = [53, 51] := by rw [digitsOf_two 53 (by decide) (by decide)]
theorem d54 : digitsOf 54 = [53, 52] := by rw [digitsOf_two 54 (by decide) (by decide)]
theorem d55 : digitsOf 55 = [53, 53] := by rw [digitsOf_two 55 (by decide) (by decide)]
theorem d56 : digitsOf 56 = [53, 54] := by rw [digitsOf_two 56 (by decide) (by decide)]
theorem d57 : digitsOf 57 = [53, 55] := by rw [digitsOf_two 57 (by decide) (by decide)]
theorem d58 : digitsOf 58 = [53, 56] := by rw [digitsOf_two 58 (by decide) (by decide)]
theorem d59 : digitsOf 59 = [53, 57] := by rw [digitsOf_two 59 (by decide) (by decide)]
theorem d60 : digitsOf 60 = [54, 48] := by rw [digitsOf_two 60 (by decide) (by decide)]
theorem d61 : digitsOf 61 = [54, 49] := by rw [digitsOf_two 61 (by decide) (by decide)]
theorem d62 : digitsOf 62 = [54, 50] := by rw [digitsOf_two 62 (by decide) (by decide)]
theorem d63 : digitsOf 63 = [54, 51] := by rw [digitsOf_two 63 (by decide) (by decide)]
theorem d64 : digitsOf 64 = [54, 52] := by rw [digitsOf_two 64 (by decide) (by decide)]
theorem d65 : digitsOf 65 = [54, 53] := by rw [digitsOf_two 65 (by decide) (by decide)]
theorem d66 : digitsOf 66 = [54, 54] := by rw [digitsOf_two 66 (by decide) (by decide)]
theorem d67 : digitsOf 67 = [54, 55] := by rw [digitsOf_two 67 (by decide) (by decide)]
theorem d68 : digitsOf 68 = [54, 56] := by rw [digitsOf_two 68 (by decide) (by decide)]
theorem d69 : digitsOf 69 = [54, 57] := by rw [digitsOf_two 69 (by decide) (by decide)]
theorem d70 : digitsOf 70 = [55, 48] := by rw [digitsOf_two 70 (by decide) (by decide)]
theorem d71 : digitsOf 71 = [55, 49] := by rw [digitsOf_two 71 (by decide) (by decide)]
theorem d72 : digitsOf 72 = [55, 50] := by rw [digitsOf_two 72 (by decide) (by decide)]
theorem d73 : digitsOf 73 = [55, 51] := by rw [digitsOf_two 73 (by decide) (by decide)]
theorem d74 : digitsOf 74 = [55, 52] := by rw [digitsOf_two 74 (by decide) (by decide)]
theorem d75 : digitsOf 75 = [55, 53] := by rw [digitsOf_two 75 (by decide) (by decide)]
theorem d76 : digitsOf 76 = [55, 54] := by rw [digitsOf_two 76 (by decide) (by decide)]
theorem d77 : digitsOf 77 = [55, 55] := by rw [digitsOf_two 77 (by decide) (by decide)]
theorem d78 : digitsOf 78 = [55, 56] := by rw [digitsOf_two 78 (by decide) (by decide)]
theorem d79 : digitsOf 79 = [55, 57] := by rw [digitsOf_two 79 (by decide) (by decide)]
theorem d80 : digitsOf 80 = [56, 48] := by rw [digitsOf_two 80 (by decide) (by decide)]
theorem d81 : digitsOf 81 = [56, 49] := by rw [digitsOf_two 81 (by decide) (by decide)]
theorem d82 : digitsOf 82 = [56, 50] := by rw [digitsOf_two 82 (by decide) (by decide)]
theorem d83 : digitsOf 83 = [56, 51] := by rw [digitsOf_two 83 (by decide) (by decide)]
theorem d84 : digitsOf 84 = [56, 52] := by rw [digitsOf_two 84 (by decide) (by decide)]
theorem d85 : digitsOf 85 = [56, 53] := by rw [digitsOf_two 85 (by decide) (by decide)]
theorem d86 : digitsOf 86 = [56, 54] := by rw [digitsOf_two 86 (by decide) (by decide)]
theorem d87 : digitsOf 87 = [56, 55] := by rw [digitsOf_two 87 (by decide) (by decide)]
theorem d88 : digitsOf 88 = [56, 56] := by rw [digitsOf_two 88 (by decide) (by decide)]
theorem d89 : digitsOf 89 = [56, 57] := by rw [digitsOf_two 89 (by decide) (by decide)]
theorem d90 : digitsOf 90 = [57, 48] := by rw [digitsOf_two 90 (by decide) (by decide)]
theorem d91 : digitsOf 91 = [57, 49] := by rw [digitsOf_two 91 (by decide) (by decide)]
theorem d92 : digitsOf 92 = [57, 50] := by rw [digitsOf_two 92 (by decide) (by decide)]
theorem d93 : digitsOf 93 = [57, 51] := by rw [digitsOf_two 93 (by decide) (by decide)]
theorem d94 : digitsOf 94 = [57, 52] := by rw [digitsOf_two 94 (by decide) (by decide)]
theorem d95 : digitsOf 95 = [57, 53] := by rw [digitsOf_two 95 (by decide) (by decide)]
theorem d96 : digitsOf 96 = [57, 54] := by rw [digitsOf_two 96 (by decide) (by decide)]
theorem d97 : digitsOf 97 = [57, 55] := by rw [digitsOf_two 97 (by decide) (by decide)]
theorem d98 : digitsOf 98 = [57, 56] := by rw [digitsOf_two 98 (by decide) (by decide)]
theorem d99 : digitsOf 99 = [57, 57] := by rw [digitsOf_two 99 (by decide) (by decide)]
theorem d100 : digitsOf 100 = [49, 48, 48] := by rw [digitsOf_three 100 (by decide) (by decide)]
theorem d101 : digitsOf 101 = [49, 48, 49] := by rw [digitsOf_three 101 (by decide) (by decide)]
theorem d102 : digitsOf 102 = [49, 48, 50] := by rw [digitsOf_three 102 (by decide) (by decide)]
theorem d103 : digitsOf 103 = [49, 48, 51] := by rw [digitsOf_three 103 (by decide) (by decide)]
theorem d104 : digitsOf 104 = [49, 48, 52] := by rw [digitsOf_three 104 (by decide) (by decide)]
theorem d105 : digitsOf 105 = [49, 48, 53] := by rw [digitsOf_three 105 (by decide) (by decide)]
theorem d106 : digitsOf 106 = [49, 48, 54] := by rw [digitsOf_three 106 (by decide) (by decide)]
theorem d107 : digitsOf 107 = [49, 48, 55] := by rw [digitsOf_three 107 (by decide) (by decide)]

/-! ## The constants written with `WriteString` -/

/-- Rewriting set: canonical printing of literal parameter lists. -/
macro "csi_lit" : tactic => `(tactic| simp only [csiM, encParams, encSub, d0, d1, d2, d3, d4, d5, d6, d7, d8, d9, d10, d11, d12, d13, d14, d15, d16, d17, d18, d19, d20, d21, d22, d23, d24, d25, d26, d27, d28, d29, d30, d31, d32, d33, d34, d35, d36, d37, d38, d39, d40, d41, d42, d43, d44, d45, d46, d47, d48, d49, d50, d51, d52, d53, d54, d55, d56, d57, d58, d59, d60, d61, d62, d63, d64, d65, d66, d67, d68, d69, d70, d71, d72, d73, d74, d75, d76, d77, d78, d79, d80, d81, d82, d83, d84, d85, d86, d87, d88, d89, d90, d91, d92, d93, d94, d95, d96, d97, d98, d99, d100, d101, d102, d103, d104, d105, d106, d107, List.cons_append, List.nil_append, List.append_nil, List.append_assoc])

theorem b_boldSet : bytesOf Sequences.boldSet = csiM boldSetQ := by
  rw [boldSetQ_eq]
  have h1 : bytesOf Sequences.boldSet = [27, 91, 49, 109] := by decide
  rw [h1]; csi_lit

theorem b_dimSet : bytesOf Sequences.dimSet = csiM dimSetQ := by
  rw [dimSetQ_eq]
  have h1 : bytesOf Sequences.dimSet = [27, 91, 50, 109] := by decide
  rw [h1]; csi_lit

theorem b_italicSet : bytesOf Sequences.italicSet = csiM italicSetQ := by
  rw [italicSetQ_eq]
  have h1 : bytesOf Sequences.italicSet = [27, 91, 51, 109] := by decide
  rw [h1]; csi_lit

theorem b_blinkSet : bytesOf Sequences.blinkSet = csiM blinkSetQ := by
  rw [blinkSetQ_eq]
  have h1 : bytesOf Sequences.blinkSet = [27, 91, 53, 109] := by decide
  rw [h1]; csi_lit

theorem b_reverseSet : bytesOf Sequences.reverseSet = csiM reverseSetQ := by
  rw [reverseSetQ_eq]
  have h1 : bytesOf Sequences.reverseSet = [27, 91, 55, 109] := by decide
  rw [h1]; csi_lit

theorem b_hiddenSet : bytesOf Sequences.hiddenSet = csiM hiddenSetQ := by
  rw [hiddenSetQ_eq]
  have h1 : bytesOf Sequences.hiddenSet = [27, 91, 56, 109] := by decide
  rw [h1]; csi_lit

theorem b_strikethroughSet : bytesOf Sequences.strikethroughSet = csiM strikethroughSetQ := by
  rw [strikethroughSetQ_eq]
  have h1 : bytesOf Sequences.strikethroughSet = [27, 91, 57, 109] := by decide
  rw [h1]; csi_lit

theorem b_boldDimReset : bytesOf Sequences.boldDimReset = csiM boldDimResetQ := by
  rw [boldDimResetQ_eq]
  have h1 : bytesOf Sequences.boldDimReset = [27, 91, 50, 50, 109] := by decide
  rw [h1]; csi_lit

theorem b_italicReset : bytesOf Sequences.italicReset = csiM italicResetQ := by
  rw [italicResetQ_eq]
  have h1 : bytesOf Sequences.italicReset = [27, 91, 50, 51, 109] := by decide
  rw [h1]; csi_lit

theorem b_blinkReset : bytesOf Sequences.blinkReset = csiM blinkResetQ := by
  rw [blinkResetQ_eq]
  have h1 : bytesOf Sequences.blinkReset = [27, 91, 50, 53, 109] := by decide
  rw [h1]; csi_lit

theorem b_reverseReset : bytesOf Sequences.reverseReset = csiM reverseResetQ := by
  rw [reverseResetQ_eq]
  have h1 : bytesOf Sequences.reverseReset = [27, 91, 50, 55, 109] := by decide
  rw [h1]; csi_lit

theorem b_hiddenReset : bytesOf Sequences.hiddenReset = csiM hiddenResetQ := by
  rw [hiddenResetQ_eq]
  have h1 : bytesOf Sequences.hiddenReset = [27, 91, 50, 56, 109] := by decide
  rw [h1]; csi_lit

theorem b_strikethroughReset : bytesOf Sequences.strikethroughReset = csiM strikethroughResetQ := by
  rw [strikethroughResetQ_eq]
  have h1 : bytesOf Sequences.strikethroughReset = [27, 91, 50, 57, 109] := by decide
  rw [h1]; csi_lit

theorem b_underlineSet : bytesOf Sequences.underlineSet = csiM underlineSetQ := by
  rw [underlineSetQ_eq]
  have h1 : bytesOf Sequences.underlineSet = [27, 91, 52, 109] := by decide
  rw [h1]; csi_lit

theorem b_underlineReset : bytesOf Sequences.underlineReset = csiM underlineResetQ := by
  rw [underlineResetQ_eq]
  have h1 : bytesOf Sequences.underlineReset = [27, 91, 50, 52, 109] := by decide
  rw [h1]; csi_lit

theorem b_sgrReset : bytesOf Sequences.sgrReset = csiM sgrResetQ := by
  rw [sgrResetQ_eq]
  have h1 : bytesOf Sequences.sgrReset = [27, 91, 109] := by decide
  rw [h1]; csi_lit

theorem b_fgReset : bytesOf Sequences.fgReset = csiM (fmt Sequences.fgReset_t []) := by
  rw [fmt_fgReset]
  have h1 : bytesOf Sequences.fgReset = [27, 91, 51, 57, 109] := by decide
  rw [h1]; csi_lit

theorem b_bgReset : bytesOf Sequences.bgReset = csiM (fmt Sequences.bgReset_t []) := by
  rw [fmt_bgReset]
  have h1 : bytesOf Sequences.bgReset = [27, 91, 52, 57, 109] := by decide
  rw [h1]; csi_lit

theorem b_ulColorReset : bytesOf Sequences.ulColorReset = csiM (fmt Sequences.ulColorReset_t []) := by
  rw [fmt_ulColorReset]
  have h1 : bytesOf Sequences.ulColorReset = [27, 91, 53, 57, 109] := by decide
  rw [h1]; csi_lit

/-! ## The formats printed with `%d` -/

theorem b_fgSet (i : Nat) (h : i < 8) : sprintf (bytesOf Sequences.fgSet) [i] = csiM (fmt Sequences.fgSet_t [i]) := by
  rw [fmt_fgSet i h]
  have h1 : bytesOf Sequences.fgSet = [27, 91, 51, 37, 100, 109] := by decide
  rw [h1]
  have : i = 0 ∨ i = 1 ∨ i = 2 ∨ i = 3 ∨ i = 4 ∨ i = 5 ∨ i = 6 ∨ i = 7 := by omega
  rcases this with rfl | rfl | rfl | rfl | rfl | rfl | rfl | rfl <;> simp only [sprintf, Nat.reduceAdd] <;> csi_lit

theorem b_fgBrightSet (i : Nat) (h : i < 8) : sprintf (bytesOf Sequences.fgBrightSet) [i] = csiM (fmt Sequences.fgBrightSet_t [i]) := by
  rw [fmt_fgBrightSet i h]
  have h1 : bytesOf Sequences.fgBrightSet = [27, 91, 57, 37, 100, 109] := by decide
  rw [h1]
  have : i = 0 ∨ i = 1 ∨ i = 2 ∨ i = 3 ∨ i = 4 ∨ i = 5 ∨ i = 6 ∨ i = 7 := by omega
  rcases this with rfl | rfl | rfl | rfl | rfl | rfl | rfl | rfl <;> simp only [sprintf, Nat.reduceAdd] <;> csi_lit

theorem b_bgSet (i : Nat) (h : i < 8) : sprintf (bytesOf Sequences.bgSet) [i] = csiM (fmt Sequences.bgSet_t [i]) := by
  rw [fmt_bgSet i h]
  have h1 : bytesOf Sequences.bgSet = [27, 91, 52, 37, 100, 109] := by decide
  rw [h1]
  have : i = 0 ∨ i = 1 ∨ i = 2 ∨ i = 3 ∨ i = 4 ∨ i = 5 ∨ i = 6 ∨ i = 7 := by omega
  rcases this with rfl | rfl | rfl | rfl | rfl | rfl | rfl | rfl <;> simp only [sprintf, Nat.reduceAdd] <;> csi_lit

theorem b_bgBrightSet (i : Nat) (h : i < 8) : sprintf (bytesOf Sequences.bgBrightSet) [i] = csiM (fmt Sequences.bgBrightSet_t [i]) := by
  rw [fmt_bgBrightSet i h]
  have h1 : bytesOf Sequences.bgBrightSet = [27, 91, 49, 48, 37, 100, 109] := by decide
  rw [h1]
  have : i = 0 ∨ i = 1 ∨ i = 2 ∨ i = 3 ∨ i = 4 ∨ i = 5 ∨ i = 6 ∨ i = 7 := by omega
  rcases this with rfl | rfl | rfl | rfl | rfl | rfl | rfl | rfl <;> simp only [sprintf, Nat.reduceAdd] <;> csi_lit
theorem b_fgIndexSet (n : Nat) : sprintf (bytesOf Sequences.fgIndexSet) [n] = csiM (fmt Sequences.fgIndexSet_t [n]) := by
  rw [fmt_fgIndexSet]
  have h1 : bytesOf Sequences.fgIndexSet = [27, 91, 51, 56, 58, 53, 58, 37, 100, 109] := by decide
  rw [h1]; simp only [sprintf]; csi_lit

theorem b_bgIndexSet (n : Nat) : sprintf (bytesOf Sequences.bgIndexSet) [n] = csiM (fmt Sequences.bgIndexSet_t [n]) := by
  rw [fmt_bgIndexSet]
  have h1 : bytesOf Sequences.bgIndexSet = [27, 91, 52, 56, 58, 53, 58, 37, 100, 109] := by decide
  rw [h1]; simp only [sprintf]; csi_lit

theorem b_ulIndexSet (n : Nat) : sprintf (bytesOf Sequences.ulIndexSet) [n] = csiM (fmt Sequences.ulIndexSet_t [n]) := by
  rw [fmt_ulIndexSet]
  have h1 : bytesOf Sequences.ulIndexSet = [27, 91, 53, 56, 58, 53, 58, 37, 100, 109] := by decide
  rw [h1]; simp only [sprintf]; csi_lit

theorem b_ulStyleSet (n : Nat) : sprintf (bytesOf Sequences.ulStyleSet) [n] = csiM (fmt Sequences.ulStyleSet_t [n]) := by
  rw [fmt_ulStyleSet]
  have h1 : bytesOf Sequences.ulStyleSet = [27, 91, 52, 58, 37, 100, 109] := by decide
  rw [h1]; simp only [sprintf]; csi_lit

theorem b_fgRGBSet (r g b : Nat) : sprintf (bytesOf Sequences.fgRGBSet) [r, g, b] = csiM (fmt Sequences.fgRGBSet_t [r, g, b]) := by
  rw [fmt_fgRGBSet]
  have h1 : bytesOf Sequences.fgRGBSet = [27, 91, 51, 56, 58, 50, 58, 37, 100, 58, 37, 100, 58, 37, 100, 109] := by decide
  rw [h1]; simp only [sprintf]; csi_lit

theorem b_bgRGBSet (r g b : Nat) : sprintf (bytesOf Sequences.bgRGBSet) [r, g, b] = csiM (fmt Sequences.bgRGBSet_t [r, g, b]) := by
  rw [fmt_bgRGBSet]
  have h1 : bytesOf Sequences.bgRGBSet = [27, 91, 52, 56, 58, 50, 58, 37, 100, 58, 37, 100, 58, 37, 100, 109] := by decide
  rw [h1]; simp only [sprintf]; csi_lit

theorem b_ulRGBSet (r g b : Nat) : sprintf (bytesOf Sequences.ulRGBSet) [r, g, b] = csiM (fmt Sequences.ulRGBSet_t [r, g, b]) := by
  rw [fmt_ulRGBSet]
  have h1 : bytesOf Sequences.ulRGBSet = [27, 91, 53, 56, 58, 50, 58, 37, 100, 58, 37, 100, 58, 37, 100, 109] := by decide
  rw [h1]; simp only [sprintf]; csi_lit

theorem b_fgIndexSet_legacy (n : Nat) : sprintf (replaceColon (bytesOf Sequences.fgIndexSet)) [n] = csiM (fmt (legacyT Sequences.fgIndexSet_t) [n]) := by
  rw [fmt_fgIndexSet_legacy]
  have h1 : replaceColon (bytesOf Sequences.fgIndexSet) = [27, 91, 51, 56, 59, 53, 59, 37, 100, 109] := by decide
  rw [h1]; simp only [sprintf]; csi_lit

theorem b_bgIndexSet_legacy (n : Nat) : sprintf (replaceColon (bytesOf Sequences.bgIndexSet)) [n] = csiM (fmt (legacyT Sequences.bgIndexSet_t) [n]) := by
  rw [fmt_bgIndexSet_legacy]
  have h1 : replaceColon (bytesOf Sequences.bgIndexSet) = [27, 91, 52, 56, 59, 53, 59, 37, 100, 109] := by decide
  rw [h1]; simp only [sprintf]; csi_lit

theorem b_fgRGBSet_legacy (r g b : Nat) : sprintf (replaceColon (bytesOf Sequences.fgRGBSet)) [r, g, b] = csiM (fmt (legacyT Sequences.fgRGBSet_t) [r, g, b]) := by
  rw [fmt_fgRGBSet_legacy]
  have h1 : replaceColon (bytesOf Sequences.fgRGBSet) = [27, 91, 51, 56, 59, 50, 59, 37, 100, 59, 37, 100, 59, 37, 100, 109] := by decide
  rw [h1]; simp only [sprintf]; csi_lit

theorem b_bgRGBSet_legacy (r g b : Nat) : sprintf (replaceColon (bytesOf Sequences.bgRGBSet)) [r, g, b] = csiM (fmt (legacyT Sequences.bgRGBSet_t) [r, g, b]) := by
  rw [fmt_bgRGBSet_legacy]
  have h1 : replaceColon (bytesOf Sequences.bgRGBSet) = [27, 91, 52, 56, 59, 50, 59, 37, 100, 59, 37, 100, 59, 37, 100, 109] := by decide
  rw [h1]; simp only [sprintf]; csi_lit

theorem b_encodeCellsFgIndex (legacy : Bool) (n : Nat) :
    sprintf (qB legacy (bytesOf SgrCases.encodeCellsFgIndex_s)) [n] = csiM (fmt (q legacy Sequences.fgIndexSet_t) [n]) := by
  cases legacy
  · exact b_fgIndexSet n
  · exact b_fgIndexSet_legacy n

theorem b_encodeCellsBgIndex (legacy : Bool) (n : Nat) :
    sprintf (qB legacy (bytesOf SgrCases.encodeCellsBgIndex_s)) [n] = csiM (fmt (q legacy Sequences.bgIndexSet_t) [n]) := by
  cases legacy
  · exact b_bgIndexSet n
  · exact b_bgIndexSet_legacy n

theorem b_encodeCellsFgRGB (legacy : Bool) (r g b : Nat) :
    sprintf (qB legacy (bytesOf SgrCases.encodeCellsFgRGB_s)) [r, g, b] = csiM (fmt (q legacy Sequences.fgRGBSet_t) [r, g, b]) := by
  cases legacy
  · exact b_fgRGBSet r g b
  · exact b_fgRGBSet_legacy r g b

theorem b_encodeCellsBgRGB (legacy : Bool) (r g b : Nat) :
    sprintf (qB legacy (bytesOf SgrCases.encodeCellsBgRGB_s)) [r, g, b] = csiM (fmt (q legacy Sequences.bgRGBSet_t) [r, g, b]) := by
  cases legacy
  · exact b_bgRGBSet r g b
  · exact b_bgRGBSet_legacy r g b

theorem b_renderFgIndex (legacy : Bool) (n : Nat) :
    sprintf (qB legacy (bytesOf SgrCases.renderFgIndex_s)) [n] = csiM (fmt (q legacy Sequences.fgIndexSet_t) [n]) := by
  cases legacy
  · exact b_fgIndexSet n
  · exact b_fgIndexSet_legacy n

theorem b_renderBgIndex (legacy : Bool) (n : Nat) :
    sprintf (qB legacy (bytesOf SgrCases.renderBgIndex_s)) [n] = csiM (fmt (q legacy Sequences.bgIndexSet_t) [n]) := by
  cases legacy
  · exact b_bgIndexSet n
  · exact b_bgIndexSet_legacy n

theorem b_renderFgRGB (legacy : Bool) (r g b : Nat) :
    sprintf (qB legacy (bytesOf SgrCases.renderFgRGB_s)) [r, g, b] = csiM (fmt (q legacy Sequences.fgRGBSet_t) [r, g, b]) := by
  cases legacy
  · exact b_fgRGBSet r g b
  · exact b_fgRGBSet_legacy r g b

theorem b_renderBgRGB (legacy : Bool) (r g b : Nat) :
    sprintf (qB legacy (bytesOf SgrCases.renderBgRGB_s)) [r, g, b] = csiM (fmt (q legacy Sequences.bgRGBSet_t) [r, g, b]) := by
  cases legacy
  · exact b_bgRGBSet r g b
  · exact b_bgRGBSet_legacy r g b
theorem b_ssFgIndex (legacy : Bool) (n : Nat) :
    sprintf (qB (legacy && SgrCases.ssEncodeFgIndexMutable) (bytesOf SgrCases.ssEncodeFgIndex_s)) [n] =
      csiM (fmt (ssT legacy SgrCases.ssEncodeFgIndexMutable SgrCases.ssEncodeFgIndex_t) [n]) := by
  rw [fmt_ssFgIndexSet]
  have h1 : qB (legacy && SgrCases.ssEncodeFgIndexMutable) (bytesOf SgrCases.ssEncodeFgIndex_s) = [27, 91, 51, 56, 58, 53, 58, 37, 100, 109] := by
    cases legacy <;> decide
  rw [h1]; simp only [sprintf]; csi_lit

theorem b_ssBgIndex (legacy : Bool) (n : Nat) :
    sprintf (qB (legacy && SgrCases.ssEncodeBgIndexMutable) (bytesOf SgrCases.ssEncodeBgIndex_s)) [n] =
      csiM (fmt (ssT legacy SgrCases.ssEncodeBgIndexMutable SgrCases.ssEncodeBgIndex_t) [n]) := by
  rw [fmt_ssBgIndexSet]
  have h1 : qB (legacy && SgrCases.ssEncodeBgIndexMutable) (bytesOf SgrCases.ssEncodeBgIndex_s) = [27, 91, 52, 56, 58, 53, 58, 37, 100, 109] := by
    cases legacy <;> decide
  rw [h1]; simp only [sprintf]; csi_lit

theorem b_ssFgRGB (legacy : Bool) (r g b : Nat) :
    sprintf (qB (legacy && SgrCases.ssEncodeFgRGBMutable) (bytesOf SgrCases.ssEncodeFgRGB_s)) [r, g, b] =
      csiM (fmt (ssT legacy SgrCases.ssEncodeFgRGBMutable SgrCases.ssEncodeFgRGB_t) [r, g, b]) := by
  rw [fmt_ssFgRGBSet]
  have h1 : qB (legacy && SgrCases.ssEncodeFgRGBMutable) (bytesOf SgrCases.ssEncodeFgRGB_s) = [27, 91, 51, 56, 58, 50, 58, 37, 100, 58, 37, 100, 58, 37, 100, 109] := by
    cases legacy <;> decide
  rw [h1]; simp only [sprintf]; csi_lit

theorem b_ssBgRGB (legacy : Bool) (r g b : Nat) :
    sprintf (qB (legacy && SgrCases.ssEncodeBgRGBMutable) (bytesOf SgrCases.ssEncodeBgRGB_s)) [r, g, b] =
      csiM (fmt (ssT legacy SgrCases.ssEncodeBgRGBMutable SgrCases.ssEncodeBgRGB_t) [r, g, b]) := by
  rw [fmt_ssBgRGBSet]
  have h1 : qB (legacy && SgrCases.ssEncodeBgRGBMutable) (bytesOf SgrCases.ssEncodeBgRGB_s) = [27, 91, 52, 56, 58, 50, 58, 37, 100, 58, 37, 100, 58, 37, 100, 109] := by
    cases legacy <;> decide
  rw [h1]; simp only [sprintf]; csi_lit


/-! ## The byte-level producers are the token-level producers, printed -/

theorem bytesOfSeqs_nil : bytesOfSeqs [] = [] := rfl
theorem bytesOfSeqs_cons (q : Seq) (l : List Seq) : bytesOfSeqs (q :: l) = csiM q ++ bytesOfSeqs l := by
  simp [bytesOfSeqs]
theorem bytesOfSeqs_single (q : Seq) : bytesOfSeqs [q] = csiM q := by simp [bytesOfSeqs]
theorem bytesOfSeqs_append (l₁ l₂ : List Seq) : bytesOfSeqs (l₁ ++ l₂) = bytesOfSeqs l₁ ++ bytesOfSeqs l₂ := by
  simp [bytesOfSeqs]
theorem bytesOfSeqs_opt (c : Bool) (q : Seq) : bytesOfSeqs (opt c q) = optB c (csiM q) := by
  cases c <;> simp [opt, optB, bytesOfSeqs]
theorem bytesOfSeqs_ite (c : Prop) [Decidable c] (l : List Seq) :
    bytesOfSeqs (if c then l else []) = if c then bytesOfSeqs l else [] := by
  split <;> rfl

theorem colourB_eq (resetS setS brightS idxS rgbS : Str) (resetT setT brightT idxT rgbT : Sequences.Template)
    (h0 : resetS = csiM (fmt resetT []))
    (h1 : ∀ i, i < 8 → sprintf setS [i] = csiM (fmt setT [i]))
    (h2 : ∀ i, i < 8 → sprintf brightS [i] = csiM (fmt brightT [i]))
    (h3 : ∀ n, sprintf idxS [n] = csiM (fmt idxT [n]))
    (h4 : ∀ r g b, sprintf rgbS [r, g, b] = csiM (fmt rgbT [r, g, b])) (c : Color) :
    colourB resetS setS brightS idxS rgbS c = bytesOfSeqs (colourSeq resetT setT brightT idxT rgbT c) := by
  unfold colourB colourSeq
  generalize params c = ps
  match ps with
  | [] => simp only [bytesOfSeqs_single, h0]
  | [i] =>
    by_cases h8 : i < 8
    · simp only [h8, if_true, bytesOfSeqs_single, h1 i h8]
    · by_cases h16 : i < 16
      · simp only [h8, h16, if_true, if_false, bytesOfSeqs_single, h2 (i - 8) (by omega)]
      · simp only [h8, h16, if_false, bytesOfSeqs_single, h3]
  | [r, g, b] => simp only [bytesOfSeqs_single, h4]
  | [_, _] => rfl
  | _ :: _ :: _ :: _ :: _ => rfl

theorem ulColourB_eq (c : Color) : ulColourB c = bytesOfSeqs (ulColourSeq c) := by
  unfold ulColourB ulColourSeq
  generalize params c = ps
  match ps with
  | [] => simp only [bytesOfSeqs_single, b_ulColorReset]
  | [i] => simp only [bytesOfSeqs_single, b_ulIndexSet]
  | [r, g, b] => simp only [bytesOfSeqs_single, b_ulRGBSet]
  | [_, _] => rfl
  | _ :: _ :: _ :: _ :: _ => rfl

theorem attrBodyB_eq (a b : Nat) : attrBodyB a b = bytesOfSeqs (attrBody a b) := by
  unfold attrBodyB attrBody
  simp only [bytesOfSeqs_append, bytesOfSeqs_opt, bytesOfSeqs_cons, bytesOfSeqs_nil, b_boldSet, b_dimSet, b_italicSet,
    b_blinkSet, b_reverseSet, b_hiddenSet, b_strikethroughSet, b_boldDimReset, b_italicReset, b_blinkReset,
    b_reverseReset, b_hiddenReset, b_strikethroughReset]
  congr 8
  · split <;> simp [bytesOfSeqs_cons, bytesOfSeqs_opt, bytesOfSeqs_nil]
  congr 1
  · split <;> simp [bytesOfSeqs_cons, bytesOfSeqs_opt, bytesOfSeqs_nil]

theorem attrDeltaB_eq (a b : Nat) : attrDeltaB a b = bytesOfSeqs (attrDelta a b) := by
  unfold attrDeltaB attrDelta
  split
  · exact attrBodyB_eq a b
  · rfl

theorem encodeDeltaB_eq (legacy : Bool) (p n : Style) : encodeDeltaB legacy p n = bytesOfSeqs (encodeDelta legacy p n) := by
  unfold encodeDeltaB encodeDelta
  simp only [bytesOfSeqs_append, bytesOfSeqs_ite, attrDeltaB_eq, ulColourB_eq, bytesOfSeqs_single, b_ulStyleSet]
  rw [colourB_eq _ _ _ _ _ Sequences.fgReset_t Sequences.fgSet_t Sequences.fgBrightSet_t
        (q legacy Sequences.fgIndexSet_t) (q legacy Sequences.fgRGBSet_t) b_fgReset b_fgSet b_fgBrightSet
        (b_encodeCellsFgIndex legacy) (b_encodeCellsFgRGB legacy),
      colourB_eq _ _ _ _ _ Sequences.bgReset_t Sequences.bgSet_t Sequences.bgBrightSet_t
        (q legacy Sequences.bgIndexSet_t) (q legacy Sequences.bgRGBSet_t) b_bgReset b_bgSet b_bgBrightSet
        (b_encodeCellsBgIndex legacy) (b_encodeCellsBgRGB legacy)]

theorem ssDeltaB_eq (legacy : Bool) (p n : Style) : ssDeltaB legacy p n = bytesOfSeqs (ssDelta legacy p n) := by
  unfold ssDeltaB ssDelta
  simp only [bytesOfSeqs_append, bytesOfSeqs_ite, attrDeltaB_eq, ulColourB_eq, bytesOfSeqs_single, b_ulStyleSet]
  rw [colourB_eq _ _ _ _ _ Sequences.fgReset_t Sequences.fgSet_t Sequences.fgBrightSet_t
        (ssT legacy SgrCases.ssEncodeFgIndexMutable SgrCases.ssEncodeFgIndex_t)
        (ssT legacy SgrCases.ssEncodeFgRGBMutable SgrCases.ssEncodeFgRGB_t) b_fgReset b_fgSet b_fgBrightSet
        (b_ssFgIndex legacy) (b_ssFgRGB legacy),
      colourB_eq _ _ _ _ _ Sequences.bgReset_t Sequences.bgSet_t Sequences.bgBrightSet_t
        (ssT legacy SgrCases.ssEncodeBgIndexMutable SgrCases.ssEncodeBgIndex_t)
        (ssT legacy SgrCases.ssEncodeBgRGBMutable SgrCases.ssEncodeBgRGB_t) b_bgReset b_bgSet b_bgBrightSet
        (b_ssBgIndex legacy) (b_ssBgRGB legacy)]

theorem renderDeltaB_eq (rgb su legacy : Bool) (p n : Style) :
    renderDeltaB rgb su legacy p n = bytesOfSeqs (renderDelta rgb su legacy p n) := by
  unfold renderDeltaB renderDelta
  simp only [bytesOfSeqs_append, bytesOfSeqs_ite, attrDeltaB_eq, ulColourB_eq, bytesOfSeqs_single, b_ulStyleSet]
  rw [colourB_eq _ _ _ _ _ Sequences.fgReset_t Sequences.fgSet_t Sequences.fgBrightSet_t
        (q legacy Sequences.fgIndexSet_t) (q legacy Sequences.fgRGBSet_t) b_fgReset b_fgSet b_fgBrightSet
        (b_renderFgIndex legacy) (b_renderFgRGB legacy),
      colourB_eq _ _ _ _ _ Sequences.bgReset_t Sequences.bgSet_t Sequences.bgBrightSet_t
        (q legacy Sequences.bgIndexSet_t) (q legacy Sequences.bgRGBSet_t) b_bgReset b_bgSet b_bgBrightSet
        (b_renderBgIndex legacy) (b_renderBgRGB legacy)]
  cases su <;> simp [bytesOfSeqs_ite, bytesOfSeqs_single, b_underlineReset, b_underlineSet, apply_ite bytesOfSeqs]

theorem bytesOfToks_append (a b : List (Tok Seq Str)) : bytesOfToks (a ++ b) = bytesOfToks a ++ bytesOfToks b := by
  simp [bytesOfToks]

theorem bytesOfToks_sgrs (l : List Seq) : bytesOfToks (l.map Tok.sgr) = bytesOfSeqs l := by
  induction l with
  | nil => rfl
  | cons q l ih =>
    have : bytesOfToks (Tok.sgr q :: l.map Tok.sgr) = csiM q ++ bytesOfToks (l.map Tok.sgr) := by
      simp [bytesOfToks, tokBytes]
    rw [List.map_cons, this, ih, bytesOfSeqs_cons]

theorem bytesOfToks_text (g : Str) (r : List (Tok Seq Str)) : bytesOfToks (Tok.text g :: r) = g ++ bytesOfToks r := by
  simp [bytesOfToks, tokBytes]

theorem bytesOfToks_sgr (q : Seq) (r : List (Tok Seq Str)) : bytesOfToks (Tok.sgr q :: r) = csiM q ++ bytesOfToks r := by
  simp [bytesOfToks, tokBytes]

/-- The string the byte-level encoder writes is the token sequence of the token-level encoder, printed. -/
theorem encodeFromB_eq (deltaB : Style → Style → Str) (delta : Style → Style → List Seq)
    (h : ∀ p n, deltaB p n = bytesOfSeqs (delta p n)) :
    ∀ (cs : List (Cell Str)) (s : Style), encodeFromB deltaB s cs = bytesOfToks (encodeFrom delta s cs) := by
  intro cs
  induction cs with
  | nil =>
    intro s
    unfold encodeFromB encodeFrom
    split
    · rw [b_sgrReset]; simp [bytesOfToks, tokBytes]
    · rfl
  | cons c cs ih =>
    intro s
    unfold encodeFromB encodeFrom
    rw [bytesOfToks_append, bytesOfToks_sgrs, bytesOfToks_text, h, ih]

/-! ## The ansi parser reads the printed token sequence back -/

open VaxisModel.Model.Parser (PState pstep run) 
open VaxisModel.Model.ParserTable (Inp StateId)
open VaxisModel.Lemmas.Parser (encodeCsi ground_print)

/-- What the parser delivers for a token. -/
def itemOf : Tok Seq Str → Item
  | .sgr q => .seq (.csi [] (q.map (·.map Int.ofNat)) 0x6D)
  | .text g => .text g

/-- The hypotheses on a token sequence: SGR parameter lists printable (every parameter has at least one
    sub-parameter, values below 2^63); every grapheme is non-empty, starts with a rune ≥ 0x20 (so the
    parser prints it and `NewStyledString` does not take it for a sequence), and is a whole grapheme
    cluster of the text that follows it in the string (**A-concat**, for the cluster oracle `cl`). -/
def Good (cl : Str → Nat) : List (Tok Seq Str) → Prop
  | [] => True
  | .sgr q :: r => ParamsOk q ∧ Good cl r
  | .text g :: r => (∃ c g', g = c :: g' ∧ 0x20 ≤ c) ∧ cl (g ++ bytesOfToks r) = g.length ∧ Good cl r

theorem csiM_eq (q : Seq) : csiM q = encodeCsi ⟨none, q, [], 0x6D⟩ := by
  simp [csiM, encodeCsi]

theorem run_csiM (s : PState) (he : s.exit = none) (q : Seq) (hq : ParamsOk q) :
    run s (csiM q) =
      ({ s with state := .ground, inter := [], params := encParams q, ignoreST := false },
       [.csi [] (q.map (·.map Int.ofNat)) 0x6D]) := by
  rw [csiM_eq]
  have := VaxisModel.Props.C02.csi_roundtrip s he ⟨none, q, [], 0x6D⟩
    ⟨by simp, hq, by simp, by simp, by simp⟩
  simpa using this

theorem scan_nil (cl : Str → Nat) (fuel : Nat) (s : PState) : scan cl fuel s [] = [] := by
  cases fuel <;> rfl

theorem scan_step_quiet (cl : Str → Nat) (fuel : Nat) (s : PState) (r : Nat) (w : Str)
    (h : ∀ x ∈ (pstep s (.rune r)).out, ∀ c, x ≠ Model.Parser.Seq.print c) :
    scan cl (fuel + 1) s (r :: w) = (pstep s (.rune r)).out.map Item.seq ++ scan cl fuel (pstep s (.rune r)).st w := by
  conv => lhs; unfold scan
  simp only []
  split
  · rename_i c hc
    exact absurd rfl (h (.print c) (by rw [hc]; simp) c)
  · rfl

/-- Over a stretch of input that produces no `Print`, the scanner is the C02 `run`. -/
theorem scan_run (cl : Str → Nat) (w1 : Str) : ∀ (s : PState) (fuel : Nat) (w2 : Str),
    (∀ x ∈ (run s w1).2, ∀ c, x ≠ Model.Parser.Seq.print c) → w1.length ≤ fuel →
    scan cl fuel s (w1 ++ w2) = (run s w1).2.map Item.seq ++ scan cl (fuel - w1.length) (run s w1).1 w2 := by
  induction w1 with
  | nil => intro s fuel w2 _ _; simp [run]
  | cons r w ih =>
    intro s fuel w2 hq hf
    cases fuel with
    | zero => simp at hf
    | succ fuel =>
      simp only [run] at hq ⊢
      have h1 : ∀ x ∈ (pstep s (.rune r)).out, ∀ c, x ≠ Model.Parser.Seq.print c := fun x hx => hq x (by simp [hx])
      have h2 : ∀ x ∈ (run (pstep s (.rune r)).st w).2, ∀ c, x ≠ Model.Parser.Seq.print c := fun x hx => hq x (by simp [hx])
      rw [List.cons_append, scan_step_quiet cl fuel s r (w ++ w2) h1, ih _ fuel w2 h2 (by simpa using hf)]
      simp

theorem bytesOfToks_length_sgr (q : Seq) (r : List (Tok Seq Str)) :
    (bytesOfToks (Tok.sgr q :: r)).length = (csiM q).length + (bytesOfToks r).length := by
  rw [bytesOfToks_sgr]; simp

/-- **The tokenizer inverts the printing**: from ground with no control string pending, with enough fuel. -/
theorem scan_toks (cl : Str → Nat) : ∀ (ts : List (Tok Seq Str)) (s : PState) (fuel : Nat),
    s.state = .ground → s.exit = none → Good cl ts → (bytesOfToks ts).length ≤ fuel →
    scan cl fuel s (bytesOfToks ts) = ts.map itemOf := by
  intro ts
  induction ts with
  | nil => intro s fuel _ _ _ _; exact scan_nil cl fuel s
  | cons t r ih =>
    intro s fuel hs he hg hf
    cases t with
    | sgr q =>
      obtain ⟨hq, hr⟩ := hg
      rw [bytesOfToks_sgr] at hf ⊢
      have hrun := run_csiM s he q hq
      rw [scan_run cl (csiM q) s fuel _ (by rw [hrun]; intro x hx c; simp at hx; subst hx; simp)
        (by simp at hf; omega), hrun]
      simp only [List.map_cons, List.map_nil, List.cons_append, List.nil_append, itemOf]
      congr 1
      exact ih _ _ rfl he hr (by simp at hf; omega)
    | text g =>
      obtain ⟨⟨c, g', rfl, hc⟩, hcl, hr⟩ := hg
      rw [bytesOfToks_text] at hf ⊢
      cases fuel with
      | zero => simp at hf
      | succ fuel =>
        simp only [List.cons_append] at hcl hf ⊢
        conv => lhs; unfold scan
        simp only [ground_print s hs c hc, hcl]
        have hn : max 1 ((c :: g').length) = (c :: g').length := by simp
        rw [hn]
        have ht : (c :: (g' ++ bytesOfToks r)).take (c :: g').length = c :: g' := by
          rw [← List.cons_append]; simp
        have hd : (c :: (g' ++ bytesOfToks r)).drop (c :: g').length = bytesOfToks r := by
          rw [← List.cons_append]; simp
        rw [ht, hd]
        simp only [List.map_cons, itemOf]
        congr 1
        exact ih s fuel hs he hr (by simp at hf; omega)

theorem cellsOf_items (ts : List (Tok Seq Str)) : ∀ s, cellsOf s (ts.map itemOf) = parseToks parseSGR s ts := by
  induction ts with
  | nil => intro s; rfl
  | cons t r ih =>
    intro s
    cases t with
    | text g =>
      simp only [List.map_cons, itemOf, cellsOf, parseToks, ih]
      cases parseToks parseSGR s r <;> rfl
    | sgr q =>
      have hq : (q.map (·.map Int.ofNat)).map (·.map Int.toNat) = q := by
        simp [List.map_map, Function.comp_def]
      simp only [List.map_cons, itemOf, cellsOf, parseToks, hq, if_true]
      cases parseSGR s q with
      | error e => rfl
      | ok s' => exact ih s'

theorem penOf_items (f : Style → Seq → Except Panic Style) (ts : List (Tok Seq Str)) :
    ∀ s, penOf f s (ts.map itemOf) = penAfter f s ts := by
  induction ts with
  | nil => intro s; rfl
  | cons t r ih =>
    intro s
    cases t with
    | text g => simp only [List.map_cons, itemOf, penOf, penAfter, ih]
    | sgr q =>
      have hq : (q.map (·.map Int.ofNat)).map (·.map Int.toNat) = q := by
        simp [List.map_map, Function.comp_def]
      simp only [List.map_cons, itemOf, penOf, penAfter, hq, if_true]
      cases f s q with
      | error e => rfl
      | ok s' => exact ih s'

/-- The parser's item sequence for a printed token sequence is that token sequence. -/
theorem tokenize_toks (cl : Str → Nat) (ts : List (Tok Seq Str)) (hg : Good cl ts) :
    tokenize cl (bytesOfToks ts) = ts.map itemOf := by
  unfold tokenize
  exact scan_toks cl ts PState.init _ rfl rfl hg (Nat.le_refl _)

/-- `ParseStyledString` on the printed token sequence is the token-level `parseStyled`. -/
theorem parseStyledB_toks (cl : Str → Nat) (ts : List (Tok Seq Str)) (hg : Good cl ts) :
    parseStyledB cl (bytesOfToks ts) = parseStyled ts := by
  unfold parseStyledB tokenize parseStyled
  rw [scan_toks cl ts PState.init _ rfl rfl hg (Nat.le_refl _), cellsOf_items]

/-! ## NewStyledString's own Cut / Split / Atoi reads the printed token sequence back -/

open VaxisModel.Model.Parser (decimal)
open VaxisModel.Lemmas.ParserDcs (decimal_digitsOf)

theorem cutM_append (a rest : Str) (ha : ∀ b ∈ a, b ≠ 0x6D) : cutM (a ++ 0x6D :: rest) = (a, rest) := by
  induction a with
  | nil => simp [cutM]
  | cons b a ih =>
    have hb : b ≠ 0x6D := ha b (by simp)
    simp only [List.cons_append, cutM, hb, if_false, ih (fun x hx => ha x (by simp [hx]))]

theorem splitB_ne_nil (sep : Nat) (s : Str) : splitB sep s ≠ [] := by
  induction s with
  | nil => simp [splitB]
  | cons b r ih =>
    unfold splitB
    split
    · simp
    · split <;> simp

theorem splitB_nosep (sep : Nat) (a : Str) (ha : ∀ b ∈ a, b ≠ sep) : splitB sep a = [a] := by
  induction a with
  | nil => rfl
  | cons b a ih =>
    have hb : b ≠ sep := ha b (by simp)
    simp only [splitB, hb, if_false, ih (fun x hx => ha x (by simp [hx]))]

theorem splitB_append (sep : Nat) (a r : Str) (ha : ∀ b ∈ a, b ≠ sep) :
    splitB sep (a ++ sep :: r) = a :: splitB sep r := by
  induction a with
  | nil => simp [splitB]
  | cons b a ih =>
    have hb : b ≠ sep := ha b (by simp)
    simp only [List.cons_append, splitB, hb, if_false, ih (fun x hx => ha x (by simp [hx]))]

theorem digits_no (n : Nat) (c : Nat) (hc : c < 0x30 ∨ 0x39 < c) : ∀ b ∈ digitsOf n, b ≠ c := by
  intro b hb
  have := digitsOf_bytes n b hb
  omega

theorem encSub_no_semi : ∀ (p : List Nat), ∀ b ∈ encSub p, b ≠ 0x3B ∧ b ≠ 0x6D
  | [], b, hb => by simp [encSub] at hb
  | [x], b, hb => by
    have := digitsOf_bytes x b (by simpa [encSub] using hb); omega
  | x :: y :: rest, b, hb => by
    simp only [encSub, List.mem_append, List.mem_cons] at hb
    rcases hb with hb | hb | hb
    · have := digitsOf_bytes x b hb; omega
    · omega
    · exact encSub_no_semi (y :: rest) b hb

theorem encParams_no_m : ∀ (q : Seq), ∀ b ∈ encParams q, b ≠ 0x6D
  | [], b, hb => by simp [encParams] at hb
  | [p], b, hb => (encSub_no_semi p b (by simpa [encParams] using hb)).2
  | p :: p' :: rest, b, hb => by
    simp only [encParams, List.mem_append, List.mem_cons] at hb
    rcases hb with hb | hb | hb
    · exact (encSub_no_semi p b hb).2
    · omega
    · exact encParams_no_m (p' :: rest) b hb

theorem splitB_encSub : ∀ (p : List Nat), p ≠ [] → splitB 0x3A (encSub p) = p.map digitsOf
  | [], h => absurd rfl h
  | [x], _ => by
    simp only [encSub, List.map_cons, List.map_nil]
    exact splitB_nosep _ _ (digits_no x 0x3A (by omega))
  | x :: y :: rest, _ => by
    simp only [encSub, List.map_cons]
    rw [splitB_append _ _ _ (digits_no x 0x3A (by omega)), splitB_encSub (y :: rest) (by simp)]
    simp

theorem splitB_encParams : ∀ (q : Seq), q ≠ [] → splitB 0x3B (encParams q) = q.map encSub
  | [], h => absurd rfl h
  | [p], _ => by
    simp only [encParams, List.map_cons, List.map_nil]
    exact splitB_nosep _ _ (fun b hb => (encSub_no_semi p b hb).1)
  | p :: p' :: rest, _ => by
    simp only [encParams, List.map_cons]
    rw [splitB_append _ _ _ (fun b hb => (encSub_no_semi p b hb).1), splitB_encParams (p' :: rest) (by simp)]
    simp

/-- The numeral `digitsOf n` starts with a digit, and with `0` only for `n = 0`. -/
theorem digitsOf_head (n : Nat) : ∃ d ds, digitsOf n = d :: ds ∧ 0x30 ≤ d ∧ d ≤ 0x39 ∧ (d = 0x30 → n = 0) := by
  induction n using digitsOf.induct with
  | case1 n h => exact ⟨0x30 + n, [], by rw [digitsOf_lt n h], by omega, by omega, by omega⟩
  | case2 n h ih =>
    obtain ⟨d, ds, e, h1, h2, h3⟩ := ih
    refine ⟨d, ds ++ [0x30 + n % 10], ?_, h1, h2, ?_⟩
    · rw [digitsOf, if_neg h, e]; rfl
    · intro hd; have := h3 hd; omega

theorem digitsOf_all (n : Nat) : (digitsOf n).all isDigitB = true := by
  rw [List.all_eq_true]
  intro b hb
  have := digitsOf_bytes n b hb
  simp [isDigitB, this.1, this.2]

theorem digitsOf_len1 (n : Nat) (h : n = 0) : (digitsOf n).length = 1 := by subst h; rw [d0]; rfl

theorem subTokOf_digitsOf (n : Nat) (hn : n < 9223372036854775808) : subTokOf (digitsOf n) = tokN n := by
  obtain ⟨d, ds, e, h1, h2, h3⟩ := digitsOf_head n
  have hall := digitsOf_all n
  have hdec := decimal_digitsOf n
  have hlen : ((digitsOf n).length == 1 || (digitsOf n).head? != some 0x30) = true := by
    by_cases hd : d = 0x30
    · rw [digitsOf_len1 n (h3 hd)]; rfl
    · rw [e]; simp [hd]
  have hsd : signSplit (digitsOf n) = (false, digitsOf n) := by
    rw [e]
    unfold signSplit
    split
    · rename_i r h; injection h with h _; omega
    · rename_i r h; injection h with h _; omega
    · rfl
  have hne : (digitsOf n).isEmpty = false := by rw [e]; rfl
  have hcanon : canonB (digitsOf n) = true := by simp [canonB, hne, hall, hlen]
  have hat : atoiB (digitsOf n) = (n : Int) := by
    unfold atoiB
    simp only [hsd, hne, hall, hdec, Bool.not_false, Bool.true_and, if_true, Bool.false_eq_true, if_false]
    have : ¬ (n > 2 ^ 63 - 1) := by omega
    simp [this]
  simp [subTokOf, tokN, hcanon, hat, hdec]

theorem splitParams_encParams (q : Seq) (hq : ParamsOk q) (hne : q ≠ []) :
    splitParams (encParams q) = q.map (·.map tokN) := by
  unfold splitParams
  rw [splitB_encParams q hne, List.map_map]
  apply List.map_congr_left
  intro p hp
  obtain ⟨hpne, hlt⟩ := hq p hp
  simp only [Function.comp]
  rw [splitB_encSub p hpne, List.map_map]
  apply List.map_congr_left
  intro x hx
  exact subTokOf_digitsOf x (hlt x hx)

theorem csiM_length_pos (q : Seq) : 2 ≤ (csiM q).length := by simp [csiM]

theorem good_empty (cl : Str → Nat) : ∀ (r : List (Tok Seq Str)), Good cl r → (bytesOfToks r).isEmpty = r.isEmpty
  | [], _ => rfl
  | .sgr q :: r, _ => by rw [bytesOfToks_sgr]; simp [csiM]
  | .text g :: r, h => by
    obtain ⟨⟨c, g', rfl, _⟩, _⟩ := h
    rw [bytesOfToks_text]; simp

theorem nss_step_sgr (cl : Str → Nat) (dflt : Style) (fuel : Nat) (st : Style) (body rest : Str)
    (hb : ∀ b ∈ body, b ≠ 0x6D) :
    nssLoop cl dflt (fuel + 1) st (0x1B :: 0x5B :: (body ++ 0x6D :: rest)) =
      if rest.isEmpty then .ok []
      else if body.isEmpty then nssLoop cl dflt fuel dflt rest
      else
        match ssLoop ssCfg dflt (splitParams body) st with
        | .error e => .error e
        | .ok st' => nssLoop cl dflt fuel st' rest := by
  conv => lhs; unfold nssLoop
  have hd : List.drop 2 (0x1B :: 0x5B :: (body ++ 0x6D :: rest)) = body ++ 0x6D :: rest := rfl
  simp only [hasCsiPrefix, if_true, hd, cutM_append body rest hb]
  split
  · rfl
  · split
    · rfl
    · cases ssLoop ssCfg dflt (splitParams body) st <;> rfl

theorem nss_step_text (cl : Str → Nat) (dflt : Style) (fuel : Nat) (st : Style) (c : Nat) (g' rest : Str)
    (hc : 0x20 ≤ c) (hcl : cl (c :: g' ++ rest) = (c :: g').length) :
    nssLoop cl dflt (fuel + 1) st (c :: g' ++ rest) =
      match nssLoop cl dflt fuel st rest with
      | .ok cs => .ok (⟨c :: g', st⟩ :: cs)
      | .error e => .error e := by
  have hpre : hasCsiPrefix (c :: (g' ++ rest)) = false := by
    unfold hasCsiPrefix
    split
    · rename_i h; injection h with h _; omega
    · rfl
  have hosc : hasOsc8Prefix (c :: (g' ++ rest)) = false := by
    unfold hasOsc8Prefix
    split
    · rename_i h; injection h with h _; omega
    · rfl
  have hn : max 1 ((c :: g').length) = (c :: g').length := by simp
  have ht : (c :: (g' ++ rest)).take (c :: g').length = c :: g' := by
    rw [← List.cons_append]; simp
  have hd : (c :: (g' ++ rest)).drop (c :: g').length = rest := by
    rw [← List.cons_append]; simp
  simp only [List.cons_append] at hcl ⊢
  conv => lhs; unfold nssLoop
  simp only [hpre, hosc, Bool.false_eq_true, if_false, hcl, hn, ht, hd]
  cases nssLoop cl dflt fuel st rest <;> rfl

/-- **`NewStyledString` on the printed token sequence is the token-level `ssParseToks (ssSeq dflt)`.** -/
theorem nss_toks (cl : Str → Nat) (dflt : Style) : ∀ (ts : List (Tok Seq Str)) (st : Style) (fuel : Nat),
    Good cl ts → (bytesOfToks ts).length ≤ fuel →
    nssLoop cl dflt fuel st (bytesOfToks ts) = ssParseToks (ssSeq dflt) st ts := by
  intro ts
  induction ts with
  | nil => intro st fuel _ _; cases fuel <;> rfl
  | cons t r ih =>
    intro st fuel hg hf
    cases t with
    | sgr q =>
      obtain ⟨hq, hr⟩ := hg
      rw [bytesOfToks_sgr] at hf ⊢
      have h2 := csiM_length_pos q
      cases fuel with
      | zero => simp only [List.length_append] at hf; omega
      | succ fuel =>
        have hshape : csiM q ++ bytesOfToks r = 0x1B :: 0x5B :: (encParams q ++ 0x6D :: bytesOfToks r) := by
          simp [csiM]
        have hlen : (bytesOfToks r).length ≤ fuel := by
          simp only [List.length_append] at hf; omega
        rw [hshape, nss_step_sgr cl dflt fuel st _ _ (encParams_no_m q), good_empty cl r hr]
        simp only [ssParseToks]
        by_cases hre : r.isEmpty = true
        · simp [hre]
        · simp only [hre, Bool.false_eq_true, if_false]
          cases q with
          | nil =>
            simp only [encParams, List.isEmpty_nil, if_true]
            rw [ih dflt fuel hr hlen]
            rfl
          | cons p q' =>
            have hne : (encParams (p :: q')).isEmpty = false := by
              have := encParams_ne_nil (p :: q') (by simp) hq
              cases h : encParams (p :: q') with
              | nil => exact absurd h this
              | cons _ _ => rfl
            simp only [hne, Bool.false_eq_true, if_false]
            rw [splitParams_encParams (p :: q') hq (by simp)]
            have hss : ssSeq dflt st (p :: q') = ssLoop ssCfg dflt ((p :: q').map (·.map tokN)) st := by
              simp [ssSeq, ssSeqTok]
            rw [hss]
            cases ssLoop ssCfg dflt ((p :: q').map (·.map tokN)) st with
            | error e => rfl
            | ok st' => exact ih st' fuel hr hlen
    | text g =>
      obtain ⟨⟨c, g', rfl, hc⟩, hcl, hr⟩ := hg
      rw [bytesOfToks_text] at hf ⊢
      cases fuel with
      | zero => simp at hf
      | succ fuel =>
        rw [nss_step_text cl dflt fuel st c g' _ hc hcl, ih st fuel hr (by simp at hf; omega)]
        simp only [ssParseToks]
        cases ssParseToks (ssSeq dflt) st r <;> rfl

theorem newStyledStringB_toks (cl : Str → Nat) (dflt : Style) (ts : List (Tok Seq Str)) (hg : Good cl ts) :
    newStyledStringB cl dflt (bytesOfToks ts) = ssParse dflt ts := by
  unfold newStyledStringB ssParse
  exact nss_toks cl dflt ts dflt _ hg (Nat.le_refl _)

/-! ## Hypotheses on encoder output -/

/-- The text part of `Good`: the hypothesis on the graphemes and the cluster oracle (**A-concat**). -/
def TextOK (cl : Str → Nat) : List (Tok Seq Str) → Prop
  | [] => True
  | .sgr _ :: r => TextOK cl r
  | .text g :: r => (∃ c g', g = c :: g' ∧ 0x20 ≤ c) ∧ cl (g ++ bytesOfToks r) = g.length ∧ TextOK cl r

theorem good_of (cl : Str → Nat) : ∀ (ts : List (Tok Seq Str)), TextOK cl ts → (∀ q, Tok.sgr q ∈ ts → ParamsOk q) → Good cl ts
  | [], _, _ => trivial
  | .sgr q :: r, ht, hs => ⟨hs q (by simp), good_of cl r ht (fun q' h => hs q' (by simp [h]))⟩
  | .text g :: r, ht, hs => ⟨ht.1, ht.2.1, good_of cl r ht.2.2 (fun q' h => hs q' (by simp [h]))⟩

theorem solo_lt : ∀ p ∈ soloCodes, p < 108 := by decide

theorem paramsOk_of_eml (q : Seq) (h : emittableLegacy q = true) : ParamsOk q := by
  rcases emittableLegacy_cases q h with h | ⟨p, n, hp, hn, rfl⟩ | ⟨p, r, g, b, hp, hr, hg, hb, rfl⟩
  · rcases emittable_cases q h with rfl | ⟨p, hp, rfl⟩ | ⟨n, hn, rfl⟩ | ⟨p, n, hp, hn, rfl⟩ | ⟨p, r, g, b, hp, hr, hg, hb, rfl⟩
    · intro p hp; simp at hp
    · have := solo_lt p hp
      intro x hx; simp at hx; subst hx
      exact ⟨by simp, by intro y hy; simp at hy; omega⟩
    · intro x hx; simp at hx; subst hx
      exact ⟨by simp, by intro y hy; simp at hy; omega⟩
    · intro x hx; simp at hx; subst hx
      exact ⟨by simp, by intro y hy; simp at hy; omega⟩
    · intro x hx; simp at hx; subst hx
      exact ⟨by simp, by intro y hy; simp at hy; omega⟩
  · intro x hx; simp at hx
    rcases hx with rfl | rfl | rfl <;> exact ⟨by simp, by intro y hy; simp at hy; omega⟩
  · intro x hx; simp at hx
    rcases hx with rfl | rfl | rfl | rfl | rfl <;> exact ⟨by simp, by intro y hy; simp at hy; omega⟩

theorem encodeFrom_sgr_mem (delta : Style → Style → List Seq) (P : Seq → Prop) (hreset : P sgrResetQ)
    (hd : ∀ p n, n.ulStyle ≤ 5 → ∀ q ∈ delta p n, P q) :
    ∀ (cs : List (Cell Str)) (s : Style), (∀ c ∈ cs, c.st.ulStyle ≤ 5) → ∀ q, Tok.sgr q ∈ encodeFrom delta s cs → P q := by
  intro cs
  induction cs with
  | nil =>
    intro s _ q hq
    unfold encodeFrom at hq
    split at hq
    · simp at hq; subst hq; exact hreset
    · simp at hq
  | cons c cs ih =>
    intro s hcs q hq
    unfold encodeFrom at hq
    simp only [List.mem_append, List.mem_map, List.mem_cons] at hq
    rcases hq with ⟨q', hq', e⟩ | h | h
    · injection e with e; subst e
      exact hd s c.st (hcs c (by simp)) q' hq'
    · cases h
    · exact ih c.st (fun d hd' => hcs d (by simp [hd'])) q h

theorem good_encodeCells (cl : Str → Nat) (legacy : Bool) (cs : List (Cell Str)) (hcs : ∀ c ∈ cs, c.st.ulStyle ≤ 5)
    (ht : TextOK cl (encodeCells legacy cs)) : Good cl (encodeCells legacy cs) :=
  good_of cl _ ht (encodeFrom_sgr_mem (encodeDelta legacy) ParamsOk (by rw [sgrResetQ_eq]; intro p hp; simp at hp)
    (fun p n hn q hq => paramsOk_of_eml q (encodeDelta_range legacy p n hn q hq)) cs {} hcs)

theorem good_ssEncode (cl : Str → Nat) (legacy : Bool) (cs : List (Cell Str)) (hcs : ∀ c ∈ cs, c.st.ulStyle ≤ 5)
    (ht : TextOK cl (ssEncode legacy cs)) : Good cl (ssEncode legacy cs) :=
  good_of cl _ ht (encodeFrom_sgr_mem (ssDelta legacy) ParamsOk (by rw [sgrResetQ_eq]; intro p hp; simp at hp)
    (fun p n hn q hq => paramsOk_of_eml q (eml_of_em q (ssDelta_range legacy p n hn q hq))) cs {} hcs)

end VaxisModel.Lemmas.SgrBytes
