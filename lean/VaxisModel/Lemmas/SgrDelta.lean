/-
C18, round 3: the style a consumer holds when it follows the renderer on a terminal with given capabilities
(`capStyle`: direct colours replaced by their palette fallback without `rgb`; no underline colour and only
off / single underline without `styledUnderlines`), it is well formed (by the shape of `Color.asIndex`, C07's model) and shows what `shownCaps` says.  Used by the nine `delta_<producer>_<consumer>` theorems.
-/
import VaxisModel.Lemmas.Sgr

namespace VaxisModel.Lemmas.SgrDelta
open VaxisModel VaxisModel.Gen VaxisModel.Model.Sgr VaxisModel.Spec VaxisModel.Lemmas.Sgr
open VaxisModel.Model.Color (Color indexColor rgbColor asIndex asIndexWith isRGB)

/-- The style whose `shown` is `shownCaps rgb su s`: what the renderer's sequences make of `s` on such a terminal. -/
def capStyle (rgb su : Bool) (s : Style) : Style :=
  { fg := if rgb then s.fg else asIndex s.fg,
    bg := if rgb then s.bg else asIndex s.bg,
    ul := if su then (if rgb then s.ul else asIndex s.ul) else 0,
    ulStyle := if su then s.ulStyle else (if s.ulStyle = SgrCases.UnderlineOff then 0 else 1),
    attr := s.attr }

theorem capStyle_full (s : Style) : capStyle true true s = s := by
  cases s; rfl

theorem shown_capStyle (rgb su : Bool) (s : Style) : shown (capStyle rgb su s) = shownCaps rgb su s := by
  cases rgb <;> cases su <;> simp [shown, shownCaps, capStyle, col_zero]

/-- The palette fallback of a constructor-built colour is constructor-built, whatever the palette and the weights: by the
    shape of `asIndex` alone (unchanged unless direct; else `IndexColor(uint8(i + 16))` for the selected entry; C07 proves
    which entry). -/
theorem asIndex_wf (c : Color) (h : Color.wf c) : Color.wf (asIndex c) := by
  unfold asIndex asIndexWith
  split
  · exact h
  · split
    · exact Or.inl rfl
    · exact Or.inr (Or.inl ⟨_, Nat.mod_lt _ (by decide), rfl⟩)

theorem capStyle_wf (rgb su : Bool) (s : Style) (h : s.wf) : (capStyle rgb su s).wf := by
  refine ⟨?_, ?_, ?_, ?_, h.attr⟩
  · show Color.wf (if rgb then s.fg else asIndex s.fg)
    cases rgb
    · exact asIndex_wf _ h.fg
    · exact h.fg
  · show Color.wf (if rgb then s.bg else asIndex s.bg)
    cases rgb
    · exact asIndex_wf _ h.bg
    · exact h.bg
  · show Color.wf (if su then (if rgb then s.ul else asIndex s.ul) else 0)
    cases su
    · exact Or.inl rfl
    · cases rgb
      · exact asIndex_wf _ h.ul
      · exact h.ul
  · show (if su then s.ulStyle else (if s.ulStyle = SgrCases.UnderlineOff then 0 else 1)) ≤ 5
    cases su
    · simp only [Bool.false_eq_true, if_false]; split <;> omega
    · exact h.ulStyle

end VaxisModel.Lemmas.SgrDelta
