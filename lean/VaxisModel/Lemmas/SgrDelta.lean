/-
C18, round 3: the style a consumer holds when it follows the renderer on a terminal with given capabilities
(`capStyle`: direct colours replaced by their palette fallback without `rgb`; no underline colour and only
off / single underline without `styledUnderlines`), composed with C07 (`asIndex_id`, `asIndex_nearest`):
it is well formed and shows what `shownCaps` says.  Used by the nine `delta_<producer>_<consumer>` theorems.
-/
import VaxisModel.Lemmas.Sgr
import VaxisModel.Props.C07

namespace VaxisModel.Lemmas.SgrDelta
open VaxisModel VaxisModel.Gen VaxisModel.Model.Sgr VaxisModel.Spec VaxisModel.Lemmas.Sgr
open VaxisModel.Model.Color (Color indexColor rgbColor asIndex isRGB)

/-- The style whose `shown` is `shownCaps rgb su s`: what the renderer's sequences make of `s` on such a terminal. -/
def capStyle (rgb su : Bool) (s : Style) : Style :=
  { fg := if rgb then s.fg else asIndex s.fg,
    bg := if rgb then s.bg else asIndex s.bg,
    ul := if su then (if rgb then s.ul else asIndex s.ul) else 0,
    ulStyle := if su then s.ulStyle else (if s.ulStyle = SgrCases.UnderlineOff then 0 else 1),
    attr := s.attr }

theorem capStyle_full (s : Style) : capStyle true true s = s := by
  cases s; rfl

theorem shown_capStyle (rgb su : Bool) (s : Style) : shown (capStyle rgb su s) = shownCaps rgb su s := by
  cases rgb <;> cases su <;> simp [shown, shownCaps, capStyle, col_zero]

/-- The palette fallback of a constructor-built colour is constructor-built (C07: unchanged unless direct, else
    `IndexColor(16 + i)`, `i < 240`). -/
theorem asIndex_wf (c : Color) (h : Color.wf c) : Color.wf (asIndex c) := by
  cases hr : isRGB c with
  | false => rw [Props.C07.asIndex_id c hr]; exact h
  | true =>
    obtain ⟨i, hi, he, _⟩ := Props.C07.asIndex_nearest c hr
    rw [he]
    exact Or.inr (Or.inl ⟨16 + i, by omega, rfl⟩)

theorem capStyle_wf (rgb su : Bool) (s : Style) (h : s.wf) : (capStyle rgb su s).wf := by
  refine ⟨?_, ?_, ?_, ?_, h.attr⟩
  · show Color.wf (if rgb then s.fg else asIndex s.fg)
    cases rgb
    · exact asIndex_wf _ h.fg
    · exact h.fg
  · show Color.wf (if rgb then s.bg else asIndex s.bg)
    cases rgb
    · exact asIndex_wf _ h.bg
    · exact h.bg
  · show Color.wf (if su then (if rgb then s.ul else asIndex s.ul) else 0)
    cases su
    · exact Or.inl rfl
    · cases rgb
      · exact asIndex_wf _ h.ul
      · exact h.ul
  · show (if su then s.ulStyle else (if s.ulStyle = SgrCases.UnderlineOff then 0 else 1)) ≤ 5
    cases su
    · simp only [Bool.false_eq_true, if_false]; split <;> omega
    · exact h.ulStyle

end VaxisModel.Lemmas.SgrDelta
