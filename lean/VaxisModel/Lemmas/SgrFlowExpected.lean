/-
Expected statement skeletons of the string-level codec code that `Model/SgrBytes.lean` / `Model/SgrLinks.lean` transcribe by hand
(compared with the regenerated `Gen.SgrCases` by `Props.C18Bytes.facts_*`).
-/
namespace VaxisModel.Lemmas.SgrFlowExpected

def nssCases : List String := ["strings.HasPrefix(s, \"\\x1b[\")",
  "strings.HasPrefix(s, \"\\x1b]8;\")",
  "default"]

def nssCsi : List String := ["s = strings.TrimPrefix(s, \"\\x1b[\")",
  "seq, s, _ = strings.Cut(s, \"m\")",
  "if s == \"\" { return ss }",
  "if seq == \"\" { style = defaultStyle continue }",
  "params := strings.Split(seq, \";\")",
  "for i := 0; i < len(params); i += 1"]

def nssOsc8 : List String := ["s = strings.TrimPrefix(s, \"\\x1b]8;\")",
  "seq, s, _ = strings.Cut(s, \"\\x1b\\\\\")",
  "style.HyperlinkParams, style.Hyperlink, _ = strings.Cut(seq, \";\")"]

def nssDefault : List String := ["grapheme, s, width, _ = uniseg.FirstGraphemeClusterInString(s, -1)"]

def legacySGRColorBody : List String := ["case len(params) >= 2 && params[0] == \"5\": idx, _ := strconv.Atoi(params[1]); return IndexColor(uint8(idx)), 2",
  "case len(params) >= 4 && params[0] == \"2\": r, _ := strconv.Atoi(params[1]); g, _ := strconv.Atoi(params[2]); b, _ := strconv.Atoi(params[3]); return RGBColor(uint8(r), uint8(g), uint8(b)), 4",
  "return 0, 0"]

def encodeCellsTail : List String := ["if cursor.Hyperlink != \"\" { _, _ = bldr.WriteString(tparm(osc8, \"\", \"\")) }",
  "empty := Style{}",
  "if cursor != empty { bldr.WriteString(sgrReset) }",
  "return bldr.String()"]

def ssEncodeTail : List String := ["if cursor.Hyperlink != \"\" { _, _ = bldr.WriteString(tparm(osc8, \"\", \"\")) }",
  "empty := Style{}",
  "if cursor != empty { bldr.WriteString(sgrReset) }",
  "return bldr.String()"]

def parseStyledLoop : List String := ["for seq := range parser.Next()",
  "case ansi.Print: cells = append(cells, Cell{ Character: Character{ Grapheme: seq.Grapheme, Width: seq.Width, }, Style: style, })",
  "case ansi.CSI: switch seq.Final { case 'm': parseSGR(seq.Parameters, &style) }",
  "case ansi.OSC: ",
  "default: ",
  "parser.Finish(seq)"]

end VaxisModel.Lemmas.SgrFlowExpected
