/-
Lemmas for `Model/SgrLinks.lean`: the printed token sequence with hyperlinks is read back by the C02 parser model
(`osc_roundtrip_st`) and by NewStyledString's OSC 8 case; round trips with hyperlinks present.
-/
import VaxisModel.Model.SgrLinks
import VaxisModel.Lemmas.SgrBytes
import VaxisModel.Props.C02

namespace VaxisModel.Lemmas.SgrLinks
open VaxisModel.Gen VaxisModel.Model.Sgr VaxisModel.Model.SgrBytes VaxisModel.Model.SgrLinks
open VaxisModel.Lemmas.ParserParams VaxisModel.Lemmas.Sgr VaxisModel.Lemmas.SgrBytes
open VaxisModel.Model.Parser (PState pstep run)
open VaxisModel.Model.ParserTable (Inp StateId)
open VaxisModel.Lemmas.Parser (ground_print)

/-! ### bytes = printed tokens -/

theorem osc8Bytes_eq (l : Link) : osc8Bytes l = ltokBytes (.link (osc8Payload l)) := by
  have h1 : bytesOf Sequences.osc8 = [0x1B, 0x5D, 0x38, 0x3B, 0x25, 0x73, 0x3B, 0x25, 0x73, 0x1B, 0x5C] := by decide
  unfold osc8Bytes
  rw [h1]
  simp [sprintfS, ltokBytes, osc8Payload]

theorem bytesOfLToks_append (a b : List LTok) : bytesOfLToks (a ++ b) = bytesOfLToks a ++ bytesOfLToks b := by
  simp [bytesOfLToks]

theorem bytesOfLToks_cons (t : LTok) (r : List LTok) : bytesOfLToks (t :: r) = ltokBytes t ++ bytesOfLToks r := by
  simp [bytesOfLToks]

theorem bytesOfLToks_sgrs (l : List Seq) : bytesOfLToks (l.map (fun q => LTok.tok (.sgr q))) = bytesOfSeqs l := by
  induction l with
  | nil => rfl
  | cons q l ih => rw [List.map_cons, bytesOfLToks_cons, ih, bytesOfSeqs_cons]; rfl

theorem encodeFromBL_eq (deltaB : Style → Style → Str) (delta : Style → Style → List Seq)
    (h : ∀ p n, deltaB p n = bytesOfSeqs (delta p n)) :
    ∀ (cs : List LCell) (s : Style) (l : Link), encodeFromBL deltaB s l cs = bytesOfLToks (encodeFromL delta s l cs) := by
  intro cs
  induction cs with
  | nil =>
    intro s l
    unfold encodeFromBL encodeFromL
    rw [bytesOfLToks_append]
    congr 1
    · split
      · simp [bytesOfLToks, osc8Bytes_eq]
      · rfl
    · split
      · rw [b_sgrReset]; simp [bytesOfLToks, ltokBytes, tokBytes]
      · rfl
  | cons c cs ih =>
    intro s l
    unfold encodeFromBL encodeFromL
    rw [bytesOfLToks_append, bytesOfLToks_sgrs, bytesOfLToks_append, bytesOfLToks_cons, h, ih]
    congr 2
    split
    · simp [bytesOfLToks, osc8Bytes_eq]
    · rfl

/-! ### the ansi parser -/

def litemOf : LTok → Item
  | .tok t => itemOf t
  | .link p => .seq (.osc p)

/-- Hypotheses on a token sequence with hyperlinks: as `Good`, and an OSC 8 payload starts with `8;` and has no
    control characters (so the parser's OSC string and NewStyledString's `Cut` end at the ST written after it). -/
def GoodL (cl : Str → Nat) : List LTok → Prop
  | [] => True
  | .tok (.sgr q) :: r => ParamsOk q ∧ GoodL cl r
  | .tok (.text g) :: r => (∃ c g', g = c :: g' ∧ 0x20 ≤ c) ∧ cl (g ++ bytesOfLToks r) = g.length ∧ GoodL cl r
  | .link p :: r => (∃ p', p = 0x38 :: 0x3B :: p') ∧ (∀ b ∈ p, 0x20 ≤ b) ∧ GoodL cl r

theorem scan_ltoks (cl : Str → Nat) : ∀ (ts : List LTok) (s : PState) (fuel : Nat),
    s.state = .ground → s.exit = none → s.osc = [] → GoodL cl ts → (bytesOfLToks ts).length ≤ fuel →
    scan cl fuel s (bytesOfLToks ts) = ts.map litemOf := by
  intro ts
  induction ts with
  | nil => intro s fuel _ _ _ _ _; exact scan_nil cl fuel s
  | cons t r ih =>
    intro s fuel hs he ho hg hf
    rw [bytesOfLToks_cons] at hf ⊢
    match t, hg with
    | .tok (.sgr q), hg =>
      obtain ⟨hq, hr⟩ := hg
      have hrun := run_csiM s he q hq
      show scan cl fuel s (csiM q ++ bytesOfLToks r) = _
      have hf' : (csiM q ++ bytesOfLToks r).length ≤ fuel := hf
      rw [scan_run cl (csiM q) s fuel _ (by rw [hrun]; intro x hx c; simp at hx; subst hx; simp)
        (by simp at hf'; omega), hrun]
      simp only [List.map_cons, List.map_nil, List.cons_append, List.nil_append, litemOf, itemOf]
      congr 1
      exact ih _ _ rfl he ho hr (by simp at hf'; omega)
    | .tok (.text g), hg =>
      obtain ⟨⟨c, g', rfl, hc⟩, hcl, hr⟩ := hg
      show scan cl fuel s ((c :: g') ++ bytesOfLToks r) = _
      have hf' : ((c :: g') ++ bytesOfLToks r).length ≤ fuel := hf
      cases fuel with
      | zero => simp at hf'
      | succ fuel =>
        simp only [List.cons_append] at hcl hf' ⊢
        conv => lhs; unfold scan
        simp only [ground_print s hs c hc, hcl]
        have hn : max 1 ((c :: g').length) = (c :: g').length := by simp
        rw [hn]
        have ht : (c :: (g' ++ bytesOfLToks r)).take (c :: g').length = c :: g' := by
          rw [← List.cons_append]; simp
        have hd : (c :: (g' ++ bytesOfLToks r)).drop (c :: g').length = bytesOfLToks r := by
          rw [← List.cons_append]; simp
        rw [ht, hd]
        simp only [List.map_cons, litemOf, itemOf]
        congr 1
        exact ih s fuel hs he ho hr (by simp at hf'; omega)
    | .link p, hg =>
      obtain ⟨⟨p', rfl⟩, hp, hr⟩ := hg
      have hrun := VaxisModel.Props.C02.osc_roundtrip_st s he ho (0x38 :: 0x3B :: p') hp (by simp)
      show scan cl fuel s ((0x1B :: 0x5D :: ((0x38 :: 0x3B :: p') ++ [0x1B, 0x5C])) ++ bytesOfLToks r) = _
      have hf' : ((0x1B :: 0x5D :: ((0x38 :: 0x3B :: p') ++ [0x1B, 0x5C])) ++ bytesOfLToks r).length ≤ fuel := hf
      rw [scan_run cl _ s fuel _ (by rw [hrun]; intro x hx c; simp at hx; subst hx; simp)
        (by simp at hf' ⊢; omega), hrun]
      simp only [List.map_cons, List.map_nil, List.cons_append, List.nil_append, litemOf]
      congr 1
      exact ih _ _ rfl rfl rfl hr (by simp at hf' ⊢; omega)

theorem cellsOf_litems (ts : List LTok) : ∀ s, cellsOf s (ts.map litemOf) = parseToks parseSGR s (dropLinks ts) := by
  induction ts with
  | nil => intro s; rfl
  | cons t r ih =>
    intro s
    match t with
    | .link p => simp only [List.map_cons, litemOf, cellsOf, dropLinks, ih]
    | .tok (.text g) =>
      simp only [List.map_cons, litemOf, itemOf, cellsOf, dropLinks, parseToks, ih]
      cases parseToks parseSGR s (dropLinks r) <;> rfl
    | .tok (.sgr q) =>
      have hq : (q.map (·.map Int.ofNat)).map (·.map Int.toNat) = q := by
        simp [List.map_map, Function.comp_def]
      simp only [List.map_cons, litemOf, itemOf, cellsOf, dropLinks, parseToks, hq, if_true]
      cases parseSGR s q with
      | error e => rfl
      | ok s' => exact ih s'

theorem parseStyledB_ltoks (cl : Str → Nat) (ts : List LTok) (hg : GoodL cl ts) :
    parseStyledB cl (bytesOfLToks ts) = parseStyled (dropLinks ts) := by
  unfold parseStyledB tokenize parseStyled
  rw [scan_ltoks cl ts PState.init _ rfl rfl rfl hg (Nat.le_refl _), cellsOf_litems]

/-! ### NewStyledString -/

theorem cutST_append (a rest : Str) (ha : ∀ b ∈ a, 0x20 ≤ b) : cutST (a ++ 0x1B :: 0x5C :: rest) = (a, rest) := by
  induction a with
  | nil => simp [cutST]
  | cons b a ih =>
    have hb : b ≠ 0x1B := by have := ha b (by simp); omega
    have ih' := ih (fun x hx => ha x (by simp [hx]))
    cases a with
    | nil =>
      simp only [List.cons_append, List.nil_append, cutST, hb, false_and, if_false] at ih' ⊢
      simp [ih', List.cons]
    | cons c a' =>
      simp only [List.cons_append, cutST, hb, false_and, if_false] at ih' ⊢
      rw [ih']

theorem goodL_empty (cl : Str → Nat) : ∀ (r : List LTok), GoodL cl r → (bytesOfLToks r).isEmpty = r.isEmpty
  | [], _ => rfl
  | .tok (.sgr q) :: r, _ => by rw [bytesOfLToks_cons]; simp [ltokBytes, tokBytes, csiM]
  | .tok (.text g) :: r, h => by
    obtain ⟨⟨c, g', rfl, _⟩, _⟩ := h
    rw [bytesOfLToks_cons]; simp [ltokBytes, tokBytes]
  | .link p :: r, _ => by rw [bytesOfLToks_cons]; simp [ltokBytes]

theorem nss_step_link (cl : Str → Nat) (dflt : Style) (fuel : Nat) (st : Style) (p' rest : Str)
    (hp : ∀ b ∈ p', 0x20 ≤ b) :
    nssLoop cl dflt (fuel + 1) st (0x1B :: 0x5D :: 0x38 :: 0x3B :: (p' ++ 0x1B :: 0x5C :: rest)) =
      nssLoop cl dflt fuel st rest := by
  conv => lhs; unfold nssLoop
  have h1 : hasCsiPrefix (0x1B :: 0x5D :: 0x38 :: 0x3B :: (p' ++ 0x1B :: 0x5C :: rest)) = false := by rfl
  have h2 : hasOsc8Prefix (0x1B :: 0x5D :: 0x38 :: 0x3B :: (p' ++ 0x1B :: 0x5C :: rest)) = true := by rfl
  have hd : List.drop 4 (0x1B :: 0x5D :: 0x38 :: 0x3B :: (p' ++ 0x1B :: 0x5C :: rest)) = p' ++ 0x1B :: 0x5C :: rest := rfl
  simp only [h1, h2, Bool.false_eq_true, if_false, if_true, hd, cutST_append p' rest hp]

theorem nss_ltoks (cl : Str → Nat) (dflt : Style) : ∀ (ts : List LTok) (st : Style) (fuel : Nat),
    GoodL cl ts → (bytesOfLToks ts).length ≤ fuel →
    nssLoop cl dflt fuel st (bytesOfLToks ts) = ssParseLToks (ssSeq dflt) st ts := by
  intro ts
  induction ts with
  | nil => intro st fuel _ _; cases fuel <;> rfl
  | cons t r ih =>
    intro st fuel hg hf
    rw [bytesOfLToks_cons] at hf ⊢
    match t, hg with
    | .tok (.sgr q), hg =>
      obtain ⟨hq, hr⟩ := hg
      have h2 := csiM_length_pos q
      have hf' : (csiM q ++ bytesOfLToks r).length ≤ fuel := hf
      show nssLoop cl dflt fuel st (csiM q ++ bytesOfLToks r) = _
      cases fuel with
      | zero => simp only [List.length_append] at hf'; omega
      | succ fuel =>
        have hshape : csiM q ++ bytesOfLToks r = 0x1B :: 0x5B :: (encParams q ++ 0x6D :: bytesOfLToks r) := by
          simp [csiM]
        have hlen : (bytesOfLToks r).length ≤ fuel := by
          simp only [List.length_append] at hf'; omega
        rw [hshape, nss_step_sgr cl dflt fuel st _ _ (encParams_no_m q), goodL_empty cl r hr]
        simp only [ssParseLToks]
        by_cases hre : r.isEmpty = true
        · simp [hre]
        · simp only [hre, Bool.false_eq_true, if_false]
          cases q with
          | nil =>
            simp only [encParams, List.isEmpty_nil, if_true]
            rw [ih dflt fuel hr hlen]
            rfl
          | cons p q' =>
            have hne : (encParams (p :: q')).isEmpty = false := by
              have := encParams_ne_nil (p :: q') (by simp) hq
              cases h : encParams (p :: q') with
              | nil => exact absurd h this
              | cons _ _ => rfl
            simp only [hne, Bool.false_eq_true, if_false]
            rw [splitParams_encParams (p :: q') hq (by simp)]
            have hss : ssSeq dflt st (p :: q') = ssLoop ssCfg dflt ((p :: q').map (·.map tokN)) st := by
              simp [ssSeq, ssSeqTok]
            rw [hss]
            cases ssLoop ssCfg dflt ((p :: q').map (·.map tokN)) st with
            | error e => rfl
            | ok st' => exact ih st' fuel hr hlen
    | .tok (.text g), hg =>
      obtain ⟨⟨c, g', rfl, hc⟩, hcl, hr⟩ := hg
      have hf' : ((c :: g') ++ bytesOfLToks r).length ≤ fuel := hf
      show nssLoop cl dflt fuel st ((c :: g') ++ bytesOfLToks r) = _
      cases fuel with
      | zero => simp at hf'
      | succ fuel =>
        rw [nss_step_text cl dflt fuel st c g' _ hc hcl, ih st fuel hr (by simp at hf'; omega)]
        simp only [ssParseLToks]
        cases ssParseLToks (ssSeq dflt) st r <;> rfl
    | .link p, hg =>
      obtain ⟨⟨p', rfl⟩, hp, hr⟩ := hg
      have hp' : ∀ b ∈ p', 0x20 ≤ b := fun b hb => hp b (by simp [hb])
      have hshape : ltokBytes (.link (0x38 :: 0x3B :: p')) ++ bytesOfLToks r =
          0x1B :: 0x5D :: 0x38 :: 0x3B :: (p' ++ 0x1B :: 0x5C :: bytesOfLToks r) := by
        simp [ltokBytes]
      rw [hshape] at hf ⊢
      cases fuel with
      | zero => simp at hf
      | succ fuel =>
        rw [nss_step_link cl dflt fuel st p' _ hp', ih st fuel hr (by simp at hf; omega)]
        simp only [ssParseLToks]

theorem newStyledStringB_ltoks (cl : Str → Nat) (dflt : Style) (ts : List LTok) (hg : GoodL cl ts) :
    newStyledStringB cl dflt (bytesOfLToks ts) = ssParseLToks (ssSeq dflt) dflt ts := by
  unfold newStyledStringB
  exact nss_ltoks cl dflt ts dflt _ hg (Nat.le_refl _)

/-! ### round trips with hyperlinks present -/

theorem dropLinks_append (a b : List LTok) : dropLinks (a ++ b) = dropLinks a ++ dropLinks b := by
  induction a with
  | nil => rfl
  | cons t r ih => cases t <;> simp [dropLinks, ih]

theorem dropLinks_sgrs (l : List Seq) : dropLinks (l.map (fun q => LTok.tok (.sgr q))) = l.map Tok.sgr := by
  induction l with
  | nil => rfl
  | cons q l ih => simp [dropLinks, ih]

/-- `ParseStyledString` side: the links are dropped, everything else comes back. -/
theorem roundtrip_generic_L (f : Style → Seq → Except Panic Style) (delta : Style → Style → List Seq)
    (hdelta : ∀ s n, s.wf → n.wf → foldC f s (delta s n) = .ok n)
    (hreset : ∀ s, ∃ s', f s [] = .ok s') :
    ∀ (cs : List LCell) (s : Style) (l : Link), s.wf → (∀ c ∈ cs, c.cell.st.wf) →
      parseToks f s (dropLinks (encodeFromL delta s l cs)) = .ok (cs.map (·.cell)) := by
  intro cs
  induction cs with
  | nil =>
    intro s l _ _
    unfold encodeFromL
    rw [dropLinks_append]
    have hl : dropLinks (if (l.url != []) = true then [LTok.link (osc8Payload {})] else []) = [] := by
      split <;> rfl
    rw [hl, List.nil_append]
    split
    · obtain ⟨s', h⟩ := hreset s
      simp only [dropLinks, sgrResetQ_eq, parseToks, h, List.map_nil]
    · rfl
  | cons c cs ih =>
    intro s l hs hcs
    have hc : c.cell.st.wf := hcs c (List.mem_cons_self ..)
    unfold encodeFromL
    rw [dropLinks_append, dropLinks_sgrs, dropLinks_append]
    have hl : dropLinks (if (l.url != c.link.url) = true then [LTok.link (osc8Payload c.link)] else []) = [] := by
      split <;> rfl
    rw [hl, List.nil_append, parseToks_sgrs, hdelta s c.cell.st hs hc]
    simp only [dropLinks, parseToks, ih c.cell.st c.link hc (fun d hd => hcs d (List.mem_cons_of_mem _ hd)), List.map_cons]

theorem ssParseLToks_sgrs (f : Style → Seq → Except Panic Style) (l : List Seq) (rest : List LTok) (hrest : rest ≠ []) :
    ∀ s, ssParseLToks f s (l.map (fun q => LTok.tok (.sgr q)) ++ rest) =
      match foldC f s l with
      | .ok s' => ssParseLToks f s' rest
      | .error e => .error e := by
  induction l with
  | nil => intro s; rfl
  | cons x l ih =>
    intro s
    have hne : (List.map (fun q => LTok.tok (.sgr q)) l ++ rest).isEmpty = false := by
      cases l <;> cases rest <;> simp_all
    simp only [List.map_cons, List.cons_append, ssParseLToks, foldC, hne]
    cases f s x with
    | error e => rfl
    | ok s' => exact ih s'

/-- `NewStyledString` side. -/
theorem ss_roundtrip_generic_L (f : Style → Seq → Except Panic Style) (delta : Style → Style → List Seq)
    (hdelta : ∀ s n, s.wf → n.wf → foldC f s (delta s n) = .ok n) :
    ∀ (cs : List LCell) (s : Style) (l : Link), s.wf → (∀ c ∈ cs, c.cell.st.wf) →
      ssParseLToks f s (encodeFromL delta s l cs) = .ok (cs.map (·.cell)) := by
  intro cs
  induction cs with
  | nil =>
    intro s l _ _
    unfold encodeFromL
    by_cases hu : (l.url != []) = true <;> by_cases hc : (s != {} || l != {}) = true <;>
      simp [hu, hc, ssParseLToks]
  | cons c cs ih =>
    intro s l hs hcs
    have hc : c.cell.st.wf := hcs c (List.mem_cons_self ..)
    unfold encodeFromL
    rw [ssParseLToks_sgrs f _ _ (by split <;> simp), hdelta s c.cell.st hs hc]
    have ih' := ih c.cell.st c.link hc (fun d hd => hcs d (List.mem_cons_of_mem _ hd))
    simp only []
    by_cases hu : (l.url != c.link.url) = true
    · simp only [hu, if_true, List.cons_append, List.nil_append, ssParseLToks, ih', List.map_cons]
    · simp only [hu, Bool.false_eq_true, if_false, List.nil_append, ssParseLToks, ih', List.map_cons]

/-! ### hypotheses on encoder output -/

def TextOKL (cl : Str → Nat) : List LTok → Prop
  | [] => True
  | .tok (.sgr _) :: r => TextOKL cl r
  | .link _ :: r => TextOKL cl r
  | .tok (.text g) :: r => (∃ c g', g = c :: g' ∧ 0x20 ≤ c) ∧ cl (g ++ bytesOfLToks r) = g.length ∧ TextOKL cl r

def LinkOK (p : Str) : Prop := (∃ p', p = 0x38 :: 0x3B :: p') ∧ ∀ b ∈ p, 0x20 ≤ b

theorem goodL_of (cl : Str → Nat) : ∀ (ts : List LTok), TextOKL cl ts → (∀ q, LTok.tok (.sgr q) ∈ ts → ParamsOk q) →
    (∀ p, LTok.link p ∈ ts → LinkOK p) → GoodL cl ts
  | [], _, _, _ => trivial
  | .tok (.sgr q) :: r, ht, hs, hl =>
    ⟨hs q (by simp), goodL_of cl r ht (fun q' h => hs q' (by simp [h])) (fun p h => hl p (by simp [h]))⟩
  | .tok (.text g) :: r, ht, hs, hl =>
    ⟨ht.1, ht.2.1, goodL_of cl r ht.2.2 (fun q' h => hs q' (by simp [h])) (fun p h => hl p (by simp [h]))⟩
  | .link p :: r, ht, hs, hl =>
    ⟨(hl p (by simp)).1, (hl p (by simp)).2, goodL_of cl r ht (fun q' h => hs q' (by simp [h])) (fun p' h => hl p' (by simp [h]))⟩

/-- URL and parameters without control characters. -/
def CellLinksOK (cs : List LCell) : Prop := ∀ c ∈ cs, (∀ b ∈ c.link.url, 0x20 ≤ b) ∧ (∀ b ∈ c.link.params, 0x20 ≤ b)

theorem osc8Payload_ok (l : Link) (h1 : ∀ b ∈ l.url, 0x20 ≤ b) (h2 : ∀ b ∈ l.params, 0x20 ≤ b) : LinkOK (osc8Payload l) := by
  refine ⟨⟨_, rfl⟩, ?_⟩
  intro b hb
  unfold osc8Payload at hb
  simp only [List.mem_cons, List.mem_append] at hb
  rcases hb with rfl | rfl | hb | rfl | hb
  · decide
  · decide
  · split at hb
    · simp at hb
    · exact h2 b hb
  · decide
  · exact h1 b hb

theorem encodeFromL_mem (delta : Style → Style → List Seq) (P : Seq → Prop) (hreset : P sgrResetQ)
    (hd : ∀ p n, n.ulStyle ≤ 5 → ∀ q ∈ delta p n, P q) :
    ∀ (cs : List LCell) (s : Style) (l : Link), (∀ c ∈ cs, c.cell.st.ulStyle ≤ 5) → CellLinksOK cs →
      (∀ q, LTok.tok (.sgr q) ∈ encodeFromL delta s l cs → P q) ∧
      (∀ p, LTok.link p ∈ encodeFromL delta s l cs → LinkOK p) := by
  intro cs
  induction cs with
  | nil =>
    intro s l _ _
    unfold encodeFromL
    constructor
    · intro q hq
      simp only [List.mem_append] at hq
      rcases hq with hq | hq
      · split at hq <;> simp at hq
      · split at hq
        · simp at hq; subst hq; exact hreset
        · simp at hq
    · intro p hp
      simp only [List.mem_append] at hp
      rcases hp with hp | hp
      · split at hp
        · simp at hp; subst hp
          exact osc8Payload_ok {} (by simp) (by simp)
        · simp at hp
      · split at hp <;> simp at hp
  | cons c cs ih =>
    intro s l hcs hlk
    obtain ⟨ih1, ih2⟩ := ih c.cell.st c.link (fun d hd' => hcs d (by simp [hd'])) (fun d hd' => hlk d (by simp [hd']))
    unfold encodeFromL
    constructor
    · intro q hq
      simp only [List.mem_append, List.mem_map, List.mem_cons] at hq
      rcases hq with ⟨q', hq', e⟩ | hq | hq | hq
      · injection e with e; injection e with e; subst e
        exact hd s c.cell.st (hcs c (by simp)) q' hq'
      · split at hq <;> simp at hq
      · cases hq
      · exact ih1 q hq
    · intro p hp
      simp only [List.mem_append, List.mem_map, List.mem_cons] at hp
      rcases hp with ⟨q', _, e⟩ | hp | hp | hp
      · cases e
      · split at hp
        · simp at hp; subst hp
          exact osc8Payload_ok c.link (hlk c (by simp)).1 (hlk c (by simp)).2
        · simp at hp
      · cases hp
      · exact ih2 p hp

/-! ### the hyperlink is closed at the end -/

theorem osc8Payload_closed_iff (l : Link) : osc8Payload l = osc8Payload {} ↔ l.url = [] := by
  constructor
  · intro h
    by_cases hu : l.url = []
    · exact hu
    · have := congrArg List.length h
      simp [osc8Payload, hu] at this
      cases hl : l.url with
      | nil => exact absurd hl hu
      | cons a b => rw [hl] at this; simp at this; omega
  · intro h; simp [osc8Payload, h]

theorem linkOpen_sgrs (b : Bool) (l : List Seq) (r : List LTok) :
    linkOpen b (l.map (fun q => LTok.tok (.sgr q)) ++ r) = linkOpen b r := by
  induction l with
  | nil => rfl
  | cons q l ih => simpa [linkOpen] using ih

theorem linkOpen_encodeFromL (delta : Style → Style → List Seq) :
    ∀ (cs : List LCell) (s : Style) (l : Link), linkOpen (decide (l.url ≠ [])) (encodeFromL delta s l cs) = false := by
  intro cs
  induction cs with
  | nil =>
    intro s l
    unfold encodeFromL
    by_cases hu : l.url = []
    · have : (l.url != []) = false := by simp [hu]
      simp only [this, Bool.false_eq_true, if_false, List.nil_append]
      split <;> simp [linkOpen, hu]
    · have : (l.url != []) = true := by simp [hu]
      simp only [this, if_true, List.cons_append, List.nil_append, linkOpen]
      split <;> simp [linkOpen]
  | cons c cs ih =>
    intro s l
    unfold encodeFromL
    rw [linkOpen_sgrs]
    by_cases hu : l.url = c.link.url
    · have hne : (l.url != c.link.url) = false := by simp [hu]
      rw [hne, hu]
      simp only [Bool.false_eq_true, if_false, List.nil_append, linkOpen]
      exact ih c.cell.st c.link
    · have : (l.url != c.link.url) = true := by simp [hu]
      simp only [this, if_true, List.cons_append, List.nil_append, linkOpen]
      have e : decide (osc8Payload c.link ≠ osc8Payload {}) = decide (c.link.url ≠ []) := by
        have := osc8Payload_closed_iff c.link
        by_cases h : c.link.url = [] <;> simp [h, this]
      rw [e]
      exact ih c.cell.st c.link

end VaxisModel.Lemmas.SgrLinks
